/-
  Lemmas/ReaderSpec.lean — what `Model/Reader.lean` computes, as a function of two
  abstractions of the delivery schedule only: the bytes delivered before the first
  fatal error (`Sched.pre`) and that error (`Sched.firstFail`). Shared by C08, C09, C10.
-/
import RosuModel.Model.Framing
namespace Rosu

/-- bytes delivered before the first fatal error. -/
def Sched.pre : Sched → List UInt8
  | [] => []
  | .chunk bs :: s => bs ++ Sched.pre s
  | .intr :: s => Sched.pre s
  | .fail _ :: _ => []

/-- the first fatal error of the schedule. -/
def Sched.firstFail : Sched → Option IoKind
  | [] => none
  | .fail k :: _ => some k
  | .chunk _ :: s => Sched.firstFail s
  | .intr :: s => Sched.firstFail s

def rdIsOk {ε α : Type} : Except ε α → Bool
  | .ok _ => true
  | .error _ => false

/-! ### `pushRest` -/

theorem pre_pushRest (r : List UInt8) (s : Sched) : Sched.pre (pushRest r s) = r ++ Sched.pre s := by
  cases r <;> simp [pushRest, Sched.pre]

theorem firstFail_pushRest (r : List UInt8) (s : Sched) :
    Sched.firstFail (pushRest r s) = Sched.firstFail s := by
  cases r <;> simp [pushRest, Sched.firstFail]

/-! ### `splitAtLF` -/

theorem splitAtLF_append (a b : List UInt8) :
    splitAtLF (a ++ b) =
      match splitAtLF a with
      | (p, some r) => (p, some (r ++ b))
      | (p, none) => (p ++ (splitAtLF b).1, (splitAtLF b).2) := by
  induction a with
  | nil => simp [splitAtLF]
  | cons x xs ih =>
    simp only [List.cons_append, splitAtLF]
    by_cases hx : (x == 0x0A) = true
    · simp [hx]
    · simp only [hx, Bool.false_eq_true, if_false, ih]
      cases h : splitAtLF xs with
      | mk p o => cases o <;> simp

theorem splitAtLF_length (bs : List UInt8) :
    (splitAtLF bs).1.length + ((splitAtLF bs).2.getD []).length = bs.length := by
  induction bs with
  | nil => simp [splitAtLF]
  | cons x xs ih =>
    simp only [splitAtLF]
    by_cases hx : (x == 0x0A) = true
    · simp [hx]; omega
    · simp only [hx, Bool.false_eq_true, if_false, List.length_cons]
      omega

theorem splitAtLF_some_ne_nil {bs p r : List UInt8} (h : splitAtLF bs = (p, some r)) : p ≠ [] := by
  cases bs with
  | nil => simp [splitAtLF] at h
  | cons x xs =>
    simp only [splitAtLF] at h
    by_cases hx : (x == 0x0A) = true
    · simp [hx] at h; rw [← h.1]; simp
    · simp only [hx, Bool.false_eq_true, if_false] at h
      have := congrArg Prod.fst h
      simp at this; rw [← this]; simp

theorem splitAtLF_some_ends {bs p r : List UInt8} (h : splitAtLF bs = (p, some r)) :
    endsWithLF p = true := by
  induction bs generalizing p r with
  | nil => simp [splitAtLF] at h
  | cons x xs ih =>
    simp only [splitAtLF] at h
    by_cases hx : (x == 0x0A) = true
    · simp [hx] at h
      rw [← h.1]
      simp only [endsWithLF, List.getLast?_singleton]
      have : x = 0x0A := by simpa using hx
      subst this; rfl
    · simp only [hx, Bool.false_eq_true, if_false] at h
      cases hs : splitAtLF xs with
      | mk p' o =>
        rw [hs] at h
        simp at h
        obtain ⟨h1, h2⟩ := h
        subst h1; subst h2
        have ih' := ih hs
        have hne := splitAtLF_some_ne_nil hs
        simp only [endsWithLF] at ih' ⊢
        rwa [List.getLast?_cons_of_ne_nil hne]

theorem splitAtLF_none_noLF {bs p : List UInt8} (h : splitAtLF bs = (p, none)) :
    p = bs ∧ endsWithLF p = false := by
  induction bs generalizing p with
  | nil => simp [splitAtLF] at h; subst h; simp [endsWithLF]
  | cons x xs ih =>
    simp only [splitAtLF] at h
    by_cases hx : (x == 0x0A) = true
    · simp [hx] at h
    · simp only [hx, Bool.false_eq_true, if_false] at h
      cases hs : splitAtLF xs with
      | mk p' o =>
        rw [hs] at h
        simp at h
        obtain ⟨h1, h2⟩ := h
        subst h1; subst h2
        obtain ⟨e, hl⟩ := ih hs
        subst e
        refine ⟨rfl, ?_⟩
        cases p' with
        | nil =>
          simp only [endsWithLF, List.getLast?_singleton]
          simpa using hx
        | cons y ys =>
          simp only [endsWithLF] at hl ⊢
          rwa [List.getLast?_cons_of_ne_nil (by simp)]


/-! ### `readUntil`, `readByte`, `readRaw` as functions of `(pre, firstFail)` -/

def untilSpec (bs : List UInt8) (ff : Option IoKind) (acc : List UInt8) :
    Except IoKind (List UInt8) × List UInt8 :=
  match splitAtLF bs with
  | (p, some rest) => (.ok (acc ++ p), rest)
  | (p, none) =>
    match ff with
    | none => (.ok (acc ++ p), [])
    | some k => (.error k, [])

theorem readUntil_spec (s : Sched) (acc : List UInt8) :
    (readUntil s acc).1 = (untilSpec s.pre s.firstFail acc).1 ∧
    (rdIsOk (readUntil s acc).1 = true →
      Sched.pre (readUntil s acc).2 = (untilSpec s.pre s.firstFail acc).2 ∧
      Sched.firstFail (readUntil s acc).2 = s.firstFail) := by
  induction s generalizing acc with
  | nil => simp [readUntil, untilSpec, Sched.pre, Sched.firstFail, splitAtLF]
  | cons e s ih =>
    cases e with
    | intr => simpa [readUntil, Sched.pre, Sched.firstFail] using ih acc
    | fail k => simp [readUntil, untilSpec, Sched.pre, Sched.firstFail, splitAtLF, rdIsOk]
    | chunk bs =>
      simp only [readUntil, Sched.pre, Sched.firstFail, untilSpec, splitAtLF_append]
      cases hs : splitAtLF bs with
      | mk p o =>
        cases o with
        | some rest => simp [pre_pushRest, firstFail_pushRest]
        | none =>
          simp only []
          have := ih (acc ++ p)
          simp only [untilSpec] at this
          cases hs2 : splitAtLF (Sched.pre s) with
          | mk p2 o2 =>
            rw [hs2] at this
            cases o2 with
            | some r2 => simpa [List.append_assoc] using this
            | none =>
              cases hf : Sched.firstFail s with
              | none => rw [hf] at this; simpa [List.append_assoc] using this
              | some k => rw [hf] at this; simpa [List.append_assoc] using this

def byteSpec (bs : List UInt8) (ff : Option IoKind) : Except IoKind UInt8 × List UInt8 :=
  match bs with
  | b :: r => (.ok b, r)
  | [] =>
    match ff with
    | none => (.error .unexpectedEof, [])
    | some k => (.error k, [])

theorem readByte_spec (s : Sched) :
    (readByte s).1 = (byteSpec s.pre s.firstFail).1 ∧
    (rdIsOk (readByte s).1 = true →
      Sched.pre (readByte s).2 = (byteSpec s.pre s.firstFail).2 ∧
      Sched.firstFail (readByte s).2 = s.firstFail) := by
  induction s with
  | nil => simp [readByte, byteSpec, Sched.pre, Sched.firstFail, rdIsOk]
  | cons e s ih =>
    cases e with
    | intr => simpa [readByte, Sched.pre, Sched.firstFail] using ih
    | fail k => simp [readByte, byteSpec, Sched.pre, Sched.firstFail, rdIsOk]
    | chunk bs =>
      cases bs with
      | nil => simpa [readByte, Sched.pre, Sched.firstFail] using ih
      | cons b r => simp [readByte, byteSpec, Sched.pre, Sched.firstFail, pre_pushRest, firstFail_pushRest]

/-- `Decoder::read_line` on the byte stream (mirrors `readRaw`). -/
def rawSpec (enc : Encoding) (bs : List UInt8) (ff : Option IoKind) :
    Except IoKind (Option (List UInt8)) × List UInt8 :=
  match untilSpec bs ff [] with
  | (.error k, _) => (.error k, [])
  | (.ok buf, rest) =>
    if buf.isEmpty then (.ok none, rest)
    else if enc == .utf16le && endsWithLF buf then
      match byteSpec rest ff with
      | (.error k, _) => (.error k, [])
      | (.ok b, rest') => (.ok (some (buf ++ [b])), rest')
    else (.ok (some buf), rest)

theorem readRaw_spec (enc : Encoding) (s : Sched) :
    (readRaw enc s).1 = (rawSpec enc s.pre s.firstFail).1 ∧
    (rdIsOk (readRaw enc s).1 = true →
      Sched.pre (readRaw enc s).2 = (rawSpec enc s.pre s.firstFail).2 ∧
      Sched.firstFail (readRaw enc s).2 = s.firstFail) := by
  obtain ⟨h1, h2⟩ := readUntil_spec s []
  unfold readRaw rawSpec
  cases hu : readUntil s [] with
  | mk r s' =>
    cases hv : untilSpec s.pre s.firstFail [] with
    | mk r2 rest =>
      rw [hu, hv] at h1; rw [hu, hv] at h2
      simp only at h1 h2
      subst h1
      cases r with
      | error k => simp [rdIsOk]
      | ok buf =>
        obtain ⟨hp, hf⟩ := h2 rfl
        simp only []
        by_cases he : buf.isEmpty = true
        · simp [he, hp, hf]
        · simp only [he, Bool.false_eq_true, if_false]
          by_cases hl : (enc == Encoding.utf16le && endsWithLF buf) = true
          · simp only [hl, if_true]
            obtain ⟨g1, g2⟩ := readByte_spec s'
            rw [hp, hf] at g1; rw [hp, hf] at g2
            cases hb : readByte s' with
            | mk rb sb =>
              cases hc : byteSpec rest s.firstFail with
              | mk rc restc =>
                rw [hb, hc] at g1; rw [hb, hc] at g2
                simp only at g1 g2
                subst g1
                cases rb with
                | error k => simp [rdIsOk]
                | ok b => exact ⟨rfl, fun _ => g2 rfl⟩
          · simp [hl, hp, hf]


/-! ### `readAll` as a function of `(pre, firstFail)` -/

def linesSpecFuel (enc : Encoding) (ff : Option IoKind) : Nat → List UInt8 → List Str × Option IoKind
  | 0, _ => ([], none)
  | fuel + 1, bs =>
    match rawSpec enc bs ff with
    | (.error k, _) => ([], some k)
    | (.ok none, _) => ([], none)
    | (.ok (some buf), rest) =>
      let (ls, e) := linesSpecFuel enc ff fuel rest
      (currLine enc buf :: ls, e)

/-- the lines `read_line` yields on a byte stream `bs` that is followed by the fatal error `ff`
(or by end of input if `ff = none`), and the error that ended reading. -/
def linesSpec (enc : Encoding) (ff : Option IoKind) (bs : List UInt8) : List Str × Option IoKind :=
  linesSpecFuel enc ff (bs.length + 1) bs

theorem readAllFuel_spec (enc : Encoding) (f : Nat) (s : Sched) :
    readAllFuel enc f s = linesSpecFuel enc s.firstFail f s.pre := by
  induction f generalizing s with
  | zero => rfl
  | succ n ih =>
    obtain ⟨h1, h2⟩ := readRaw_spec enc s
    simp only [readAllFuel, linesSpecFuel]
    cases hr : readRaw enc s with
    | mk r s' =>
      cases hq : rawSpec enc s.pre s.firstFail with
      | mk r2 rest =>
        rw [hr, hq] at h1; rw [hr, hq] at h2
        simp only at h1 h2
        subst h1
        cases r with
        | error k => rfl
        | ok o =>
          cases o with
          | none => rfl
          | some buf =>
            obtain ⟨hp, hf⟩ := h2 rfl
            simp only []
            rw [ih s', hp, hf]

theorem untilSpec_ok_lt {bs : List UInt8} {ff : Option IoKind} {buf rest : List UInt8}
    (h : untilSpec bs ff [] = (.ok buf, rest)) (hne : buf.isEmpty = false) :
    rest.length < bs.length ∧ (endsWithLF buf = false → rest = []) := by
  unfold untilSpec at h
  cases hs : splitAtLF bs with
  | mk p o =>
    rw [hs] at h
    have hl := splitAtLF_length bs
    rw [hs] at hl
    cases o with
    | some r =>
      simp at h
      obtain ⟨h1, h2⟩ := h
      subst h1; subst h2
      have := splitAtLF_some_ne_nil hs
      have he := splitAtLF_some_ends hs
      have : 0 < p.length := List.length_pos_iff.mpr this
      simp at hl
      refine ⟨by omega, ?_⟩
      intro hc; rw [he] at hc; cases hc
    | none =>
      cases ff with
      | none =>
        simp at h
        obtain ⟨h1, h2⟩ := h
        subst h1; subst h2
        have : 0 < p.length := by
          cases p with
          | nil => simp at hne
          | cons _ _ => simp
        simp at hl
        exact ⟨by simp; omega, fun _ => rfl⟩
      | some k => simp at h

theorem rawSpec_some_lt {enc : Encoding} {bs : List UInt8} {ff : Option IoKind} {buf rest : List UInt8}
    (h : rawSpec enc bs ff = (.ok (some buf), rest)) : rest.length < bs.length := by
  unfold rawSpec at h
  cases hu : untilSpec bs ff [] with
  | mk r rest0 =>
    rw [hu] at h
    cases r with
    | error k => simp at h
    | ok b0 =>
      simp only [] at h
      by_cases he : b0.isEmpty = true
      · simp [he] at h
      · have he' : b0.isEmpty = false := by simpa using he
        have hlt := (untilSpec_ok_lt hu he').1
        simp only [he, Bool.false_eq_true, if_false] at h
        by_cases hl : (enc == Encoding.utf16le && endsWithLF b0) = true
        · simp only [hl, if_true] at h
          unfold byteSpec at h
          cases rest0 with
          | nil => cases ff <;> simp at h
          | cons b r =>
            simp at h
            obtain ⟨_, h2⟩ := h
            subst h2
            simp at hlt
            omega
        · simp [hl] at h
          obtain ⟨_, h2⟩ := h
          subst h2
          exact hlt

theorem linesSpecFuel_fuel (enc : Encoding) (ff : Option IoKind) (f1 f2 : Nat) (bs : List UInt8)
    (h1 : bs.length < f1) (h2 : bs.length < f2) :
    linesSpecFuel enc ff f1 bs = linesSpecFuel enc ff f2 bs := by
  induction f1 generalizing f2 bs with
  | zero => omega
  | succ n ih =>
    cases f2 with
    | zero => omega
    | succ m =>
      simp only [linesSpecFuel]
      cases hq : rawSpec enc bs ff with
      | mk r rest =>
        cases r with
        | error k => rfl
        | ok o =>
          cases o with
          | none => rfl
          | some buf =>
            have := rawSpec_some_lt hq
            simp only []
            rw [ih m rest (by omega) (by omega)]

theorem pre_length_le_size (s : Sched) : (Sched.pre s).length ≤ Sched.size s := by
  induction s with
  | nil => simp [Sched.pre, Sched.size]
  | cons e s ih =>
    cases e <;> simp [Sched.pre, Sched.size, Ev.size] <;> omega

/-- **`readAll` depends on the schedule only through the bytes delivered before the first
fatal error and that error.** -/
theorem readAll_eq_spec (enc : Encoding) (s : Sched) :
    readAll enc s = linesSpec enc s.firstFail s.pre := by
  unfold readAll linesSpec
  rw [readAllFuel_spec]
  exact linesSpecFuel_fuel enc _ _ _ _ (by have := pre_length_le_size s; omega) (by omega)

/-- one unfolding of `linesSpec`, free of fuel. -/
theorem linesSpec_unfold (enc : Encoding) (ff : Option IoKind) (bs : List UInt8) :
    linesSpec enc ff bs =
      match rawSpec enc bs ff with
      | (.error k, _) => ([], some k)
      | (.ok none, _) => ([], none)
      | (.ok (some buf), rest) =>
        (currLine enc buf :: (linesSpec enc ff rest).1, (linesSpec enc ff rest).2) := by
  unfold linesSpec
  conv => lhs; rw [linesSpecFuel]
  cases hq : rawSpec enc bs ff with
  | mk r rest =>
    cases r with
    | error k => rfl
    | ok o =>
      cases o with
      | none => rfl
      | some buf =>
        have := rawSpec_some_lt hq
        simp only []
        rw [linesSpecFuel_fuel enc ff bs.length (rest.length + 1) rest (by omega) (by omega)]


/-! ### `readBom` -/

/-- the BOM sniffing sees enough: the first non-empty chunk (before any fatal error) has at
least three bytes, or there is no such chunk. -/
def bomOk : Sched → Bool
  | [] => true
  | .intr :: s => bomOk s
  | .fail _ :: _ => true
  | .chunk bs :: s => if bs.length = 0 then bomOk s else decide (3 ≤ bs.length)

def bomSpec (bs : List UInt8) (ff : Option IoKind) : Except IoKind Encoding × List UInt8 :=
  if bs.isEmpty then
    match ff with
    | some k => (.error k, [])
    | none => (.ok .utf8, [])
  else (.ok (Encoding.fromBom bs).1, bs.drop (Encoding.fromBom bs).2)

theorem fromBom_cons3 (a b c : UInt8) (t t' : List UInt8) :
    Encoding.fromBom (a :: b :: c :: t) = Encoding.fromBom (a :: b :: c :: t') := by
  unfold Encoding.fromBom
  split <;> split <;> simp_all

theorem fromBom_le3 (bs : List UInt8) : (Encoding.fromBom bs).2 ≤ 3 := by
  unfold Encoding.fromBom
  split <;> simp

theorem fromBom_append (bs x : List UInt8) (h : 3 ≤ bs.length) :
    Encoding.fromBom (bs ++ x) = Encoding.fromBom bs := by
  match bs, h with
  | a :: b :: c :: t, _ => exact fromBom_cons3 a b c _ _

theorem readBom_spec (s : Sched) (h : bomOk s = true) :
    (readBom s).1 = (bomSpec s.pre s.firstFail).1 ∧
    (rdIsOk (readBom s).1 = true →
      Sched.pre (readBom s).2 = (bomSpec s.pre s.firstFail).2 ∧
      Sched.firstFail (readBom s).2 = s.firstFail) := by
  induction s with
  | nil => simp [readBom, bomSpec, Sched.pre, Sched.firstFail, Encoding.fromBom]
  | cons e s ih =>
    cases e with
    | intr => simpa [readBom, Sched.pre, Sched.firstFail] using ih (by simpa [bomOk] using h)
    | fail k => simp [readBom, bomSpec, Sched.pre, Sched.firstFail, rdIsOk]
    | chunk bs =>
      by_cases h0 : bs.length = 0
      · have : bs = [] := List.eq_nil_of_length_eq_zero h0
        subst this
        simpa [readBom, Sched.pre, Sched.firstFail] using ih (by simpa [bomOk] using h)
      · have h3 : 3 ≤ bs.length := by simpa [bomOk, h0] using h
        have hne : (bs ++ Sched.pre s).isEmpty = false := by
          cases bs with
          | nil => simp at h0
          | cons _ _ => simp
        have hle := fromBom_le3 bs
        simp only [readBom, h0, if_false, ge_iff_le, h3, if_true, Sched.pre, Sched.firstFail, bomSpec, hne,
          Bool.false_eq_true, fromBom_append bs _ h3, pre_pushRest, firstFail_pushRest]
        refine ⟨trivial, fun _ => ⟨?_, trivial⟩⟩
        rw [List.drop_append_of_le_length (by omega)]

/-! ### `Interrupted` -/

def dropIntr : Sched → Sched
  | [] => []
  | .intr :: s => dropIntr s
  | .chunk bs :: s => .chunk bs :: dropIntr s
  | .fail k :: s => .fail k :: dropIntr s

theorem pre_dropIntr (s : Sched) : Sched.pre (dropIntr s) = Sched.pre s := by
  induction s with
  | nil => rfl
  | cons e s ih => cases e <;> simp [dropIntr, Sched.pre, ih]

theorem firstFail_dropIntr (s : Sched) : Sched.firstFail (dropIntr s) = Sched.firstFail s := by
  induction s with
  | nil => rfl
  | cons e s ih => cases e <;> simp [dropIntr, Sched.firstFail, ih]

theorem dropIntr_pushRest (r : List UInt8) (s : Sched) :
    dropIntr (pushRest r s) = pushRest r (dropIntr s) := by
  cases r <;> simp [pushRest, dropIntr]

theorem readBom_dropIntr (s : Sched) :
    readBom (dropIntr s) = ((readBom s).1, dropIntr (readBom s).2) := by
  induction s with
  | nil => simp [readBom, dropIntr]
  | cons e s ih =>
    cases e with
    | intr => simpa [readBom, dropIntr] using ih
    | fail k => simp [readBom, dropIntr]
    | chunk bs =>
      simp only [readBom, dropIntr]
      by_cases h0 : bs.length = 0
      · simp [h0, ih]
      · by_cases h3 : bs.length ≥ 3
        · simp [h0, h3, dropIntr_pushRest]
        · simp [h0, h3, ih]

theorem readUntil_dropIntr (s : Sched) (acc : List UInt8) :
    readUntil (dropIntr s) acc = ((readUntil s acc).1, dropIntr (readUntil s acc).2) := by
  induction s generalizing acc with
  | nil => simp [readUntil, dropIntr]
  | cons e s ih =>
    cases e with
    | intr => simpa [readUntil, dropIntr] using ih acc
    | fail k => simp [readUntil, dropIntr]
    | chunk bs =>
      simp only [readUntil, dropIntr]
      cases hs : splitAtLF bs with
      | mk p o => cases o <;> simp [dropIntr_pushRest, ih]

theorem readByte_dropIntr (s : Sched) :
    readByte (dropIntr s) = ((readByte s).1, dropIntr (readByte s).2) := by
  induction s with
  | nil => simp [readByte, dropIntr]
  | cons e s ih =>
    cases e with
    | intr => simpa [readByte, dropIntr] using ih
    | fail k => simp [readByte, dropIntr]
    | chunk bs => cases bs <;> simp [readByte, dropIntr, dropIntr_pushRest, ih]

/-! ### `decodeSched` through the specifications -/

theorem decodeSched_eq {σ : Type} (D : LineDecoder σ) (s : Sched) :
    decodeSched D s =
      match readBom s with
      | (.error k, _) => .error k
      | (.ok enc, s1) =>
        match linesSpec enc s1.firstFail s1.pre with
        | (_, some k) => .error k
        | (ls, none) => .ok (frame D ls) := by
  unfold decodeSched
  cases readBom s with
  | mk r s1 =>
    cases r with
    | error k => rfl
    | ok enc => simp only [readAll_eq_spec]; rfl

/-- `decode` on a byte stream `bs` followed by the fatal error `ff` (or end of input),
when the BOM sniffing sees enough. -/
def decodeSpec {σ : Type} (D : LineDecoder σ) (bs : List UInt8) (ff : Option IoKind) : Except IoKind σ :=
  match bomSpec bs ff with
  | (.error k, _) => .error k
  | (.ok enc, rest) =>
    match linesSpec enc ff rest with
    | (_, some k) => .error k
    | (ls, none) => .ok (frame D ls)

theorem decodeSched_spec {σ : Type} (D : LineDecoder σ) (s : Sched) (h : bomOk s = true) :
    decodeSched D s = decodeSpec D s.pre s.firstFail := by
  rw [decodeSched_eq]
  obtain ⟨h1, h2⟩ := readBom_spec s h
  unfold decodeSpec
  cases hb : readBom s with
  | mk r s1 =>
    cases hq : bomSpec s.pre s.firstFail with
    | mk r2 rest =>
      rw [hb, hq] at h1; rw [hb, hq] at h2
      simp only at h1 h2
      subst h1
      cases r with
      | error k => rfl
      | ok enc =>
        obtain ⟨hp, hf⟩ := h2 rfl
        simp only [hp, hf]

end Rosu
