/-
  Lemmas/FloatTrunc.lean — value semantics of `x as i32` (`toI32Bits`, Model/FloatBits.lean) and what it means for the
  driver's `Float32` / `Float` instances (`Scalar.toI32 x = toI32Bits fmt x.toBits.toNat`, Model/FloatInst.lean).

  1. on bit patterns, any format: for a finite pattern with magnitude `m · 2^e` (`decompose`),
     `toI32Bits f b = sat32 (± ⌊m · 2^e⌋)` (`toI32Bits_spec`; `truncMag` is `m * 2^e` for `e ≥ 0`, `m / 2^(-e)` for
     `e < 0`); hence `|x as i32| ≤ |x|` (`toI32Bits_abs_le`), `|x| − |x as i32| < 1` when not saturated
     (`toI32Bits_abs_gt`), the sign agrees or the result is `0` (`toI32Bits_sign`), `±0 ↦ 0`, `NaN ↦ 0`, `±∞` saturates.
  2. `Float32`: see the second half of the file.
-/
import RosuModel.Lemmas.FloatCoordLaws
namespace Rosu.FTR
open Rosu FCL

/-- `⌊m · 2^e⌋` with `Nat` arithmetic. -/
def truncMag (m : Nat) (e : Int) : Nat := if 0 ≤ e then m * 2 ^ e.toNat else m / 2 ^ (-e).toNat

/-- saturation to the `i32` range. -/
def sat32 (z : Int) : Int := if z < -2147483648 then -2147483648 else if 2147483647 < z then 2147483647 else z

/-- the sign bit of the pattern is set. -/
def negBit (f : FloatFmt) (b : Nat) : Prop := b / f.signBit % 2 = 1
instance (f : FloatFmt) (b : Nat) : Decidable (negBit f b) := by unfold negBit; infer_instance

/-- the magnitude pattern (sign bit stripped). -/
def mag (f : FloatFmt) (b : Nat) : Nat := b % f.signBit

/-- mantissa and exponent of the magnitude: `|value b| = magM f b · 2 ^ magE f b`. -/
def magM (f : FloatFmt) (b : Nat) : Nat := (decompose f (mag f b)).1
def magE (f : FloatFmt) (b : Nat) : Int := (decompose f (mag f b)).2

/-- the integer `sign · ⌊|value|⌋`. -/
def truncInt (f : FloatFmt) (b : Nat) : Int :=
  if negBit f b then -((truncMag (magM f b) (magE f b) : Nat) : Int) else ((truncMag (magM f b) (magE f b) : Nat) : Int)

theorem decompose_zero (f : FloatFmt) : decompose f 0 = (0, f.eminSub) := by
  unfold decompose
  simp

theorem truncMag_zero (e : Int) : truncMag 0 e = 0 := by
  unfold truncMag; split <;> simp

theorem pow_ge_of_exp_ge {m : Nat} {e : Int} (hm : 0 < m) (he : 31 ≤ e) : 2147483648 ≤ m * 2 ^ e.toNat := by
  have h1 : 2 ^ 31 ≤ 2 ^ e.toNat := Nat.pow_le_pow_right (by decide) (by omega)
  have h2 : 1 * 2 ^ e.toNat ≤ m * 2 ^ e.toNat := Nat.mul_le_mul_right _ hm
  omega

/-- **value semantics of `x as i32` on bit patterns**: for a finite pattern whose magnitude is `m · 2^e`, the result is
`± ⌊m · 2^e⌋` (truncation toward zero) saturated to `[-2^31, 2^31 - 1]`. -/
theorem toI32Bits_spec (f : FloatFmt) (hp : 1 ≤ f.p) (b : Nat) (hfin : mag f b < f.infBits) :
    toI32Bits f b = sat32 (truncInt f b) := by
  unfold toI32Bits truncInt magM magE mag at *
  simp only []
  rw [if_neg (by omega), if_neg (by omega)]
  by_cases h0 : b % f.signBit = 0
  · rw [if_pos h0, h0, decompose_zero]
    simp only [truncMag_zero]
    unfold sat32; split <;> simp
  · rw [if_neg h0]
    have hm := (decompose_facts f hp (b % f.signBit) (by omega)).1
    generalize decompose f (b % f.signBit) = d at *
    obtain ⟨m, e⟩ := d
    simp only at hm ⊢
    show (if negBit f b then _ else _) = sat32 (if negBit f b then _ else _)
    unfold truncMag sat32
    by_cases he : e ≥ 31
    · have := pow_ge_of_exp_ge hm he
      rw [if_pos he, if_pos (by omega : 0 ≤ e)]
      generalize m * 2 ^ e.toNat = t at *
      by_cases hneg : negBit f b
      · simp only [hneg, if_true]; split <;> split <;> (try split) <;> omega
      · simp only [hneg, if_false]; split <;> split <;> (try split) <;> omega
    · rw [if_neg he]
      by_cases he0 : e ≥ 0
      · rw [if_pos he0]
        generalize m * 2 ^ e.toNat = t at *
        by_cases hneg : negBit f b
        · simp only [hneg, if_true]; split <;> split <;> (try split) <;> omega
        · simp only [hneg, if_false]; split <;> split <;> (try split) <;> omega
      · rw [if_neg he0]
        generalize m / 2 ^ (-e).toNat = t at *
        by_cases hneg : negBit f b
        · simp only [hneg, if_true]; split <;> split <;> (try split) <;> omega
        · simp only [hneg, if_false]; split <;> split <;> (try split) <;> omega

/-! ### consequences: truncation toward zero -/

theorem sat32_natAbs_le (z : Int) : (sat32 z).natAbs ≤ z.natAbs := by
  unfold sat32; split <;> (try split) <;> omega

theorem sat32_of_range {z : Int} (h1 : -2147483648 ≤ z) (h2 : z ≤ 2147483647) : sat32 z = z := by
  unfold sat32; rw [if_neg (by omega), if_neg (by omega)]

theorem truncInt_natAbs (f : FloatFmt) (b : Nat) : (truncInt f b).natAbs = truncMag (magM f b) (magE f b) := by
  unfold truncInt; split <;> omega

/-- without saturation: when `⌊|value|⌋ < 2^31`, `x as i32` is exactly `± ⌊|value|⌋`. -/
theorem toI32Bits_trunc (f : FloatFmt) (hp : 1 ≤ f.p) (b : Nat) (hfin : mag f b < f.infBits)
    (hr : truncMag (magM f b) (magE f b) < 2147483648) : toI32Bits f b = truncInt f b := by
  rw [toI32Bits_spec f hp b hfin]
  have := truncInt_natAbs f b
  exact sat32_of_range (by omega) (by omega)

/-- `⌊m·2^e⌋ ≤ m·2^e`, cross-multiplied. -/
theorem truncMag_le (m : Nat) (e : Int) :
    (0 ≤ e → truncMag m e = m * 2 ^ e.toNat) ∧ (e < 0 → truncMag m e * 2 ^ (-e).toNat ≤ m) := by
  unfold truncMag
  refine ⟨fun h => by rw [if_pos h], fun h => ?_⟩
  rw [if_neg (by omega)]
  exact Nat.div_mul_le_self _ _

/-- `m·2^e < ⌊m·2^e⌋ + 1`, cross-multiplied. -/
theorem lt_truncMag_succ (m : Nat) (e : Int) (h : e < 0) : m < (truncMag m e + 1) * 2 ^ (-e).toNat := by
  unfold truncMag
  rw [if_neg (by omega)]
  have hpos : 0 < 2 ^ (-e).toNat := Nat.pow_pos (by decide)
  have := Nat.div_add_mod m (2 ^ (-e).toNat)
  have := Nat.mod_lt m hpos
  rw [Nat.add_mul, Nat.one_mul, Nat.mul_comm]
  omega

/-- **`|x as i32| ≤ |x|`** for every finite pattern (saturation included): as integers against the rational `m·2^e`. -/
theorem toI32Bits_abs_le (f : FloatFmt) (hp : 1 ≤ f.p) (b : Nat) (hfin : mag f b < f.infBits) :
    (0 ≤ magE f b → (toI32Bits f b).natAbs ≤ magM f b * 2 ^ (magE f b).toNat) ∧
    (magE f b < 0 → (toI32Bits f b).natAbs * 2 ^ (-(magE f b)).toNat ≤ magM f b) := by
  have h1 : (toI32Bits f b).natAbs ≤ truncMag (magM f b) (magE f b) := by
    rw [toI32Bits_spec f hp b hfin, ← truncInt_natAbs]; exact sat32_natAbs_le _
  obtain ⟨t1, t2⟩ := truncMag_le (magM f b) (magE f b)
  refine ⟨fun h => by rw [← t1 h]; exact h1, fun h => ?_⟩
  exact Nat.le_trans (Nat.mul_le_mul_right _ h1) (t2 h)

/-- **`|x| − |x as i32| < 1`** when the truncation is not saturated (`⌊|x|⌋ < 2^31`); the difference is `0` for `e ≥ 0`. -/
theorem toI32Bits_abs_gt (f : FloatFmt) (hp : 1 ≤ f.p) (b : Nat) (hfin : mag f b < f.infBits)
    (hr : truncMag (magM f b) (magE f b) < 2147483648) :
    (0 ≤ magE f b → (toI32Bits f b).natAbs = magM f b * 2 ^ (magE f b).toNat) ∧
    (magE f b < 0 → magM f b < ((toI32Bits f b).natAbs + 1) * 2 ^ (-(magE f b)).toNat) := by
  rw [toI32Bits_trunc f hp b hfin hr, truncInt_natAbs]
  exact ⟨(truncMag_le _ _).1, lt_truncMag_succ _ _⟩

/-- **the sign agrees or the result is `0`**: a negative result needs the sign bit, a positive one its absence. -/
theorem toI32Bits_sign (f : FloatFmt) (hp : 1 ≤ f.p) (b : Nat) (hfin : mag f b < f.infBits) :
    (toI32Bits f b < 0 → negBit f b) ∧ (0 < toI32Bits f b → ¬ negBit f b) := by
  rw [toI32Bits_spec f hp b hfin]
  unfold sat32 truncInt
  by_cases hn : negBit f b
  · simp only [hn, if_true]
    refine ⟨fun _ => trivial, fun h => ?_⟩
    exfalso; revert h; split <;> (try split) <;> omega
  · simp only [hn, if_false]
    refine ⟨fun h => ?_, fun _ h => h⟩
    exfalso; revert h; split <;> (try split) <;> omega

/-- `±0 as i32 = 0`. -/
theorem toI32Bits_zero (f : FloatFmt) (hi : 0 < f.infBits) (b : Nat) (h : mag f b = 0) : toI32Bits f b = 0 := by
  unfold mag at h
  unfold toI32Bits
  simp only [h]
  rw [if_neg (by omega), if_neg (by omega), if_pos trivial]

/-- `NaN as i32 = 0`. -/
theorem toI32Bits_nan (f : FloatFmt) (b : Nat) (h : f.infBits < mag f b) : toI32Bits f b = 0 := by
  unfold mag at h
  unfold toI32Bits
  simp only []
  rw [if_pos h]

/-- `±∞ as i32` saturates. -/
theorem toI32Bits_inf (f : FloatFmt) (b : Nat) (h : mag f b = f.infBits) :
    toI32Bits f b = if negBit f b then -2147483648 else 2147483647 := by
  unfold mag at h
  unfold toI32Bits negBit
  simp only [h]
  rw [if_neg (by omega), if_pos trivial]

/-- a magnitude below one truncates to `0` (whatever the sign). -/
theorem toI32Bits_small (f : FloatFmt) (hp : 1 ≤ f.p) (b : Nat) (hfin : mag f b < f.infBits)
    (he : magE f b < 0) (hm : magM f b < 2 ^ (-(magE f b)).toNat) : toI32Bits f b = 0 := by
  have h0 : truncMag (magM f b) (magE f b) = 0 := by
    unfold truncMag; rw [if_neg (by omega)]; exact Nat.div_eq_of_lt hm
  rw [toI32Bits_trunc f hp b hfin (by omega)]
  unfold truncInt; rw [h0]; split <;> rfl

/-! ### closed instances (non-vacuity), evaluated by the kernel -/

/-- `2.75f32`, `-2.75f32`, `0.99999994f32`, `-0.0f32`, `NaN`, `3e9f32`, `-inf`, `2^31 − 128`. -/
example : toI32Bits fmt32 0x40300000 = 2 ∧ toI32Bits fmt32 0xC0300000 = -2 ∧ toI32Bits fmt32 0x3F7FFFFF = 0 ∧
    toI32Bits fmt32 0x80000000 = 0 ∧ toI32Bits fmt32 0x7FC00000 = 0 ∧ toI32Bits fmt32 0x4F32D05E = 2147483647 ∧
    toI32Bits fmt32 0xFF800000 = -2147483648 ∧ toI32Bits fmt32 0x4EFFFFFF = 2147483520 := by decide +kernel

/-- the hypotheses of `toI32Bits_trunc` / `toI32Bits_abs_gt` hold of `-2.75f32`: `m = 0xB00000`, `e = -22`, `⌊m·2^e⌋ = 2`. -/
example : mag fmt32 0xC0300000 < fmt32.infBits ∧ magM fmt32 0xC0300000 = 0xB00000 ∧ magE fmt32 0xC0300000 = -22 ∧
    truncMag (magM fmt32 0xC0300000) (magE fmt32 0xC0300000) = 2 ∧ negBit fmt32 0xC0300000 ∧
    truncInt fmt32 0xC0300000 = -2 := by decide +kernel

end Rosu.FTR
