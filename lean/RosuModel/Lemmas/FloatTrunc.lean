/-
  Lemmas/FloatTrunc.lean — value semantics of `x as i32` (`toI32Bits`, Model/FloatBits.lean) and what it means for the
  driver's `Float32` / `Float` instances (`Scalar.toI32 x = toI32Bits fmt x.toBits.toNat`, Model/FloatInst.lean).

  1. on bit patterns, any format: for a finite pattern with magnitude `m · 2^e` (`decompose`),
     `toI32Bits f b = sat32 (± ⌊m · 2^e⌋)` (`toI32Bits_spec`; `truncMag` is `m * 2^e` for `e ≥ 0`, `m / 2^(-e)` for
     `e < 0`); hence `|x as i32| ≤ |x|` (`toI32Bits_abs_le`), `|x| − |x as i32| < 1` when not saturated
     (`toI32Bits_abs_gt`), the sign agrees or the result is `0` (`toI32Bits_sign`), `±0 ↦ 0`, `NaN ↦ 0`, `±∞` saturates.
  2. `Float32`: the unpacked view of a finite pattern is `± magM · 2^magE` (`unpackNat32_fin`, `up32_fin`), `f32::abs` and
     negation are exact (`up_abs32`, `up_neg32`), `|a| ≤ |b|` in the IEEE order is the comparison of the exact magnitudes
     (`abs_le_abs32`, through `FMR.ValLE`). **`trunc_coord32`**: for an `f32` `x` within the coordinate limit ±131072
     (`RtObjects.InCoord`, the parser's test), `z = x as i32` is within ±131072, `s = z as f32` has the pattern
     `intBits fmt32 z` (exactly the integer), is within the limit, `s as i32 = z` (a stored position is a fixed point of
     truncation), `|s| ≤ |x| < |z| + 1` in the IEEE order, and `z < 0 → x < 0`, `0 < z → 0 < x`.
  3. `sub_int_exact_float32`: `(a as f32) − (b as f32) = (a − b) as f32` for integers with `|a|, |b|, |a − b| < 2^23`
     (`round_int_scaled`: `round` of `n · 2^k` at exponent `−k` drops no bit; `usub_int`).
  4. `f64`: `inCoord_mag64`, `toI32Bits_coord64`, `trunc_coord64` (slider control points are parsed as `f64`).
-/
import RosuModel.Lemmas.FloatCoordLaws
import RosuModel.Lemmas.FloatExactOps
namespace Rosu.FTR
open Rosu FCL

/-- `⌊m · 2^e⌋` with `Nat` arithmetic. -/
def truncMag (m : Nat) (e : Int) : Nat := if 0 ≤ e then m * 2 ^ e.toNat else m / 2 ^ (-e).toNat

/-- saturation to the `i32` range. -/
def sat32 (z : Int) : Int := if z < -2147483648 then -2147483648 else if 2147483647 < z then 2147483647 else z

/-- the sign bit of the pattern is set. -/
def negBit (f : FloatFmt) (b : Nat) : Prop := b / f.signBit % 2 = 1
instance (f : FloatFmt) (b : Nat) : Decidable (negBit f b) := by unfold negBit; infer_instance

/-- the magnitude pattern (sign bit stripped). -/
def mag (f : FloatFmt) (b : Nat) : Nat := b % f.signBit

/-- mantissa and exponent of the magnitude: `|value b| = magM f b · 2 ^ magE f b`. -/
def magM (f : FloatFmt) (b : Nat) : Nat := (decompose f (mag f b)).1
def magE (f : FloatFmt) (b : Nat) : Int := (decompose f (mag f b)).2

/-- the integer `sign · ⌊|value|⌋`. -/
def truncInt (f : FloatFmt) (b : Nat) : Int :=
  if negBit f b then -((truncMag (magM f b) (magE f b) : Nat) : Int) else ((truncMag (magM f b) (magE f b) : Nat) : Int)

theorem decompose_zero (f : FloatFmt) : decompose f 0 = (0, f.eminSub) := by
  unfold decompose
  simp

theorem truncMag_zero (e : Int) : truncMag 0 e = 0 := by
  unfold truncMag; split <;> simp

theorem pow_ge_of_exp_ge {m : Nat} {e : Int} (hm : 0 < m) (he : 31 ≤ e) : 2147483648 ≤ m * 2 ^ e.toNat := by
  have h1 : 2 ^ 31 ≤ 2 ^ e.toNat := Nat.pow_le_pow_right (by decide) (by omega)
  have h2 : 1 * 2 ^ e.toNat ≤ m * 2 ^ e.toNat := Nat.mul_le_mul_right _ hm
  omega

/-- **value semantics of `x as i32` on bit patterns**: for a finite pattern whose magnitude is `m · 2^e`, the result is
`± ⌊m · 2^e⌋` (truncation toward zero) saturated to `[-2^31, 2^31 - 1]`. -/
theorem toI32Bits_spec (f : FloatFmt) (hp : 1 ≤ f.p) (b : Nat) (hfin : mag f b < f.infBits) :
    toI32Bits f b = sat32 (truncInt f b) := by
  unfold toI32Bits truncInt magM magE mag at *
  simp only []
  rw [if_neg (by omega), if_neg (by omega)]
  by_cases h0 : b % f.signBit = 0
  · rw [if_pos h0, h0, decompose_zero]
    simp only [truncMag_zero]
    unfold sat32; split <;> simp
  · rw [if_neg h0]
    have hm := (decompose_facts f hp (b % f.signBit) (by omega)).1
    generalize decompose f (b % f.signBit) = d at *
    obtain ⟨m, e⟩ := d
    simp only at hm ⊢
    show (if negBit f b then _ else _) = sat32 (if negBit f b then _ else _)
    unfold truncMag sat32
    by_cases he : e ≥ 31
    · have := pow_ge_of_exp_ge hm he
      rw [if_pos he, if_pos (by omega : 0 ≤ e)]
      generalize m * 2 ^ e.toNat = t at *
      by_cases hneg : negBit f b
      · simp only [hneg, if_true]; split <;> split <;> (try split) <;> omega
      · simp only [hneg, if_false]; split <;> split <;> (try split) <;> omega
    · rw [if_neg he]
      by_cases he0 : e ≥ 0
      · rw [if_pos he0]
        generalize m * 2 ^ e.toNat = t at *
        by_cases hneg : negBit f b
        · simp only [hneg, if_true]; split <;> split <;> (try split) <;> omega
        · simp only [hneg, if_false]; split <;> split <;> (try split) <;> omega
      · rw [if_neg he0]
        generalize m / 2 ^ (-e).toNat = t at *
        by_cases hneg : negBit f b
        · simp only [hneg, if_true]; split <;> split <;> (try split) <;> omega
        · simp only [hneg, if_false]; split <;> split <;> (try split) <;> omega

/-! ### consequences: truncation toward zero -/

theorem sat32_natAbs_le (z : Int) : (sat32 z).natAbs ≤ z.natAbs := by
  unfold sat32; split <;> (try split) <;> omega

theorem sat32_of_range {z : Int} (h1 : -2147483648 ≤ z) (h2 : z ≤ 2147483647) : sat32 z = z := by
  unfold sat32; rw [if_neg (by omega), if_neg (by omega)]

theorem truncInt_natAbs (f : FloatFmt) (b : Nat) : (truncInt f b).natAbs = truncMag (magM f b) (magE f b) := by
  unfold truncInt; split <;> omega

/-- without saturation: when `⌊|value|⌋ < 2^31`, `x as i32` is exactly `± ⌊|value|⌋`. -/
theorem toI32Bits_trunc (f : FloatFmt) (hp : 1 ≤ f.p) (b : Nat) (hfin : mag f b < f.infBits)
    (hr : truncMag (magM f b) (magE f b) < 2147483648) : toI32Bits f b = truncInt f b := by
  rw [toI32Bits_spec f hp b hfin]
  have := truncInt_natAbs f b
  exact sat32_of_range (by omega) (by omega)

/-- `⌊m·2^e⌋ ≤ m·2^e`, cross-multiplied. -/
theorem truncMag_le (m : Nat) (e : Int) :
    (0 ≤ e → truncMag m e = m * 2 ^ e.toNat) ∧ (e < 0 → truncMag m e * 2 ^ (-e).toNat ≤ m) := by
  unfold truncMag
  refine ⟨fun h => by rw [if_pos h], fun h => ?_⟩
  rw [if_neg (by omega)]
  exact Nat.div_mul_le_self _ _

/-- `m·2^e < ⌊m·2^e⌋ + 1`, cross-multiplied. -/
theorem lt_truncMag_succ (m : Nat) (e : Int) (h : e < 0) : m < (truncMag m e + 1) * 2 ^ (-e).toNat := by
  unfold truncMag
  rw [if_neg (by omega)]
  have hpos : 0 < 2 ^ (-e).toNat := Nat.pow_pos (by decide)
  have := Nat.div_add_mod m (2 ^ (-e).toNat)
  have := Nat.mod_lt m hpos
  rw [Nat.add_mul, Nat.one_mul, Nat.mul_comm]
  omega

/-- **`|x as i32| ≤ |x|`** for every finite pattern (saturation included): as integers against the rational `m·2^e`. -/
theorem toI32Bits_abs_le (f : FloatFmt) (hp : 1 ≤ f.p) (b : Nat) (hfin : mag f b < f.infBits) :
    (0 ≤ magE f b → (toI32Bits f b).natAbs ≤ magM f b * 2 ^ (magE f b).toNat) ∧
    (magE f b < 0 → (toI32Bits f b).natAbs * 2 ^ (-(magE f b)).toNat ≤ magM f b) := by
  have h1 : (toI32Bits f b).natAbs ≤ truncMag (magM f b) (magE f b) := by
    rw [toI32Bits_spec f hp b hfin, ← truncInt_natAbs]; exact sat32_natAbs_le _
  obtain ⟨t1, t2⟩ := truncMag_le (magM f b) (magE f b)
  refine ⟨fun h => by rw [← t1 h]; exact h1, fun h => ?_⟩
  exact Nat.le_trans (Nat.mul_le_mul_right _ h1) (t2 h)

/-- **`|x| − |x as i32| < 1`** when the truncation is not saturated (`⌊|x|⌋ < 2^31`); the difference is `0` for `e ≥ 0`. -/
theorem toI32Bits_abs_gt (f : FloatFmt) (hp : 1 ≤ f.p) (b : Nat) (hfin : mag f b < f.infBits)
    (hr : truncMag (magM f b) (magE f b) < 2147483648) :
    (0 ≤ magE f b → (toI32Bits f b).natAbs = magM f b * 2 ^ (magE f b).toNat) ∧
    (magE f b < 0 → magM f b < ((toI32Bits f b).natAbs + 1) * 2 ^ (-(magE f b)).toNat) := by
  rw [toI32Bits_trunc f hp b hfin hr, truncInt_natAbs]
  exact ⟨(truncMag_le _ _).1, lt_truncMag_succ _ _⟩

/-- **the sign agrees or the result is `0`**: a negative result needs the sign bit, a positive one its absence. -/
theorem toI32Bits_sign (f : FloatFmt) (hp : 1 ≤ f.p) (b : Nat) (hfin : mag f b < f.infBits) :
    (toI32Bits f b < 0 → negBit f b) ∧ (0 < toI32Bits f b → ¬ negBit f b) := by
  rw [toI32Bits_spec f hp b hfin]
  unfold sat32 truncInt
  by_cases hn : negBit f b
  · simp only [hn, if_true]
    refine ⟨fun _ => trivial, fun h => ?_⟩
    exfalso; revert h; split <;> (try split) <;> omega
  · simp only [hn, if_false]
    refine ⟨fun h => ?_, fun _ h => h⟩
    exfalso; revert h; split <;> (try split) <;> omega

/-- `±0 as i32 = 0`. -/
theorem toI32Bits_zero (f : FloatFmt) (hi : 0 < f.infBits) (b : Nat) (h : mag f b = 0) : toI32Bits f b = 0 := by
  unfold mag at h
  unfold toI32Bits
  simp only [h]
  rw [if_neg (by omega), if_neg (by omega), if_pos trivial]

/-- `NaN as i32 = 0`. -/
theorem toI32Bits_nan (f : FloatFmt) (b : Nat) (h : f.infBits < mag f b) : toI32Bits f b = 0 := by
  unfold mag at h
  unfold toI32Bits
  simp only []
  rw [if_pos h]

/-- `±∞ as i32` saturates. -/
theorem toI32Bits_inf (f : FloatFmt) (b : Nat) (h : mag f b = f.infBits) :
    toI32Bits f b = if negBit f b then -2147483648 else 2147483647 := by
  unfold mag at h
  unfold toI32Bits negBit
  simp only [h]
  rw [if_neg (by omega), if_pos trivial]

/-- a magnitude below one truncates to `0` (whatever the sign). -/
theorem toI32Bits_small (f : FloatFmt) (hp : 1 ≤ f.p) (b : Nat) (hfin : mag f b < f.infBits)
    (he : magE f b < 0) (hm : magM f b < 2 ^ (-(magE f b)).toNat) : toI32Bits f b = 0 := by
  have h0 : truncMag (magM f b) (magE f b) = 0 := by
    unfold truncMag; rw [if_neg (by omega)]; exact Nat.div_eq_of_lt hm
  rw [toI32Bits_trunc f hp b hfin (by omega)]
  unfold truncInt; rw [h0]; split <;> rfl

/-! ### closed instances (non-vacuity), evaluated by the kernel -/

/-- `2.75f32`, `-2.75f32`, `0.99999994f32`, `-0.0f32`, `NaN`, `3e9f32`, `-inf`, `2^31 − 128`. -/
example : toI32Bits fmt32 0x40300000 = 2 ∧ toI32Bits fmt32 0xC0300000 = -2 ∧ toI32Bits fmt32 0x3F7FFFFF = 0 ∧
    toI32Bits fmt32 0x80000000 = 0 ∧ toI32Bits fmt32 0x7FC00000 = 0 ∧ toI32Bits fmt32 0x4F32D05E = 2147483647 ∧
    toI32Bits fmt32 0xFF800000 = -2147483648 ∧ toI32Bits fmt32 0x4EFFFFFF = 2147483520 := by decide +kernel

/-- the hypotheses of `toI32Bits_trunc` / `toI32Bits_abs_gt` hold of `-2.75f32`: `m = 0xB00000`, `e = -22`, `⌊m·2^e⌋ = 2`. -/
example : mag fmt32 0xC0300000 < fmt32.infBits ∧ magM fmt32 0xC0300000 = 0xB00000 ∧ magE fmt32 0xC0300000 = -22 ∧
    truncMag (magM fmt32 0xC0300000) (magE fmt32 0xC0300000) = 2 ∧ negBit fmt32 0xC0300000 ∧
    truncInt fmt32 0xC0300000 = -2 := by decide +kernel


/-! ## 2. `Float32`: the unpacked view of a pattern is `decompose` -/

section F32
open Float.Model Float.Model.UnpackedFloat FMR FMO RtObjects

theorem sign32 : fmt32.signBit = 2 ^ 31 := by decide
theorem inf32 : fmt32.infBits = 0x7F800000 := by decide

theorem decompose32 (r : Nat) : decompose fmt32 r =
    (if r / 2 ^ 23 = 0 then (r % 2 ^ 23, -149) else (r % 2 ^ 23 + 2 ^ 23, ((r / 2 ^ 23 : Nat) : Int) - 127 - 23)) := by
  unfold decompose
  rfl

theorem fields32 (n : Nat) : n / 2 ^ 23 % 2 ^ 8 = n % 2 ^ 31 / 2 ^ 23 ∧ n % 2 ^ 31 % 2 ^ 23 = n % 2 ^ 23 := by
  refine ⟨?_, ?_⟩
  · rw [show (2 : Nat) ^ 31 = 2 ^ 23 * 2 ^ 8 by decide, Nat.mod_mul_right_div_self]
  · exact Nat.mod_mod_of_dvd _ (by decide)

/-- the unpacked view of a finite non-zero binary32 pattern is `± magM · 2^magE`. -/
theorem unpackNat32_fin (n : Nat) (h0 : mag fmt32 n ≠ 0) (hfin : mag fmt32 n < fmt32.infBits) :
    IsFin (FM.unpackNat 23 8 n) (FM.signOf (n / 2 ^ 31)) (magM fmt32 n) (magE fmt32 n) := by
  unfold magM magE mag at *
  rw [sign32] at *
  rw [inf32] at hfin
  obtain ⟨e1, e2⟩ := fields32 n
  rw [decompose32, e2, ← e1]
  unfold FM.unpackNat IsFin
  generalize n / 2 ^ 23 % 2 ^ 8 = E at *
  have hE : E ≠ 2 ^ 8 - 1 := by omega
  rw [if_neg hE]
  by_cases hE0 : E = 0
  · subst hE0
    rw [if_pos rfl, if_pos rfl]
    have hFr : n % 2 ^ 23 ≠ 0 := by omega
    rw [dif_neg hFr]
    exact ⟨Nat.pos_of_ne_zero hFr, rfl⟩
  · rw [if_neg hE0, if_neg hE0]
    refine ⟨by show 0 < n % 2 ^ 23 + 2 ^ 23; omega, ?_⟩
    show finite _ (2 ^ 23 + n % 2 ^ 23) _ _ = finite _ (n % 2 ^ 23 + 2 ^ 23) _ _
    congr 1
    · omega
    · show (E : Int) - (((2 ^ (8 - 1) - 1 : Nat) : Int) + (23 : Int)) = (E : Int) - 127 - 23
      omega

theorem unpackNat32_zero (n : Nat) (h0 : mag fmt32 n = 0) : FM.unpackNat 23 8 n = .zero (FM.signOf (n / 2 ^ 31)) := by
  unfold mag at h0
  rw [sign32] at h0
  obtain ⟨e1, e2⟩ := fields32 n
  unfold FM.unpackNat
  rw [if_neg (by omega), if_pos (by omega), dif_pos (by omega)]


theorem canon_abs (spec : Format) (u : UnpackedFloat) (h : Canon spec u) : Canon spec u.abs := by
  cases u <;> exact h

theorem inRange_abs (spec : Format) (u : UnpackedFloat) (h : InRange spec u) : InRange spec u.abs := by
  cases u <;> exact h

/-- `|x|` unpacked is the unpacked `x` with the sign cleared (`f32::abs` is exact). -/
theorem up_abs32 (x : Float32) : (Scalar.abs x : Float32).toModel.unpack = x.toModel.unpack.abs := by
  show repack Format.binary32 x.toModel.unpack.abs = _
  rcases repack_canon Format.binary32 (by decide) _ (canon_abs _ _ (FX.canon_float32 x)) with h | ⟨s, m, e, hm, _, hnr, _⟩
  · exact h
  · exact absurd (inRange_abs _ _ (unpack_inRange Format.binary32 (by decide) x.toModel.toBits.toBitVec)) hnr

theorem up_neg32 (x : Float32) : (-x : Float32).toModel.unpack = x.toModel.unpack.neg := by
  show repack Format.binary32 x.toModel.unpack.neg = _
  have hc : Canon Format.binary32 x.toModel.unpack.neg := by
    have := FX.canon_float32 x; revert this; cases x.toModel.unpack <;> exact id
  have hr : InRange Format.binary32 x.toModel.unpack.neg := by
    have := unpack_inRange Format.binary32 (by decide) x.toModel.toBits.toBitVec
    revert this; show InRange _ x.toModel.unpack → _; cases x.toModel.unpack <;> exact id
  rcases repack_canon Format.binary32 (by decide) _ hc with h | ⟨s, m, e, hm, _, hnr, _⟩
  · exact h
  · exact absurd hr hnr


/-- the integer `k` (as the canonical pair `(k·2^a, −a)`) is `≤ m·2^e`, from the cross-multiplied comparison. -/
theorem valLE_int_le (k a m : Nat) (e : Int)
    (h1 : 0 ≤ e → k ≤ m * 2 ^ e.toNat) (h2 : e < 0 → k * 2 ^ (-e).toNat ≤ m) :
    ValLE (k * 2 ^ a) (-(a : Int)) m e := by
  unfold ValLE
  by_cases he : 0 ≤ e
  · have hmin : min (-(a : Int)) e = -(a : Int) := by omega
    rw [hmin, Int.sub_self, Int.toNat_zero, Nat.pow_zero, Nat.mul_one,
      show (e - -(a : Int)).toNat = e.toNat + a by omega, Nat.pow_add, ← Nat.mul_assoc]
    exact Nat.mul_le_mul_right _ (h1 he)
  · have h2' := h2 (by omega)
    obtain ⟨c, hc⟩ : ∃ c : Nat, e = -(c : Int) := ⟨(-e).toNat, by omega⟩
    subst hc
    rw [show (- -(c : Int)).toNat = c by omega] at h2'
    by_cases hac : a ≤ c
    · have hmin : min (-(a : Int)) (-(c : Int)) = -(c : Int) := by omega
      rw [hmin, Int.sub_self, Int.toNat_zero, Nat.pow_zero, Nat.mul_one,
        show (-(a : Int) - -(c : Int)).toNat = c - a by omega, Nat.mul_assoc, ← Nat.pow_add,
        show a + (c - a) = c by omega]
      exact h2'
    · have hmin : min (-(a : Int)) (-(c : Int)) = -(a : Int) := by omega
      rw [hmin, Int.sub_self, Int.toNat_zero, Nat.pow_zero, Nat.mul_one,
        show (-(c : Int) - -(a : Int)).toNat = a - c by omega]
      calc k * 2 ^ a = k * 2 ^ c * 2 ^ (a - c) := by
            rw [Nat.mul_assoc, ← Nat.pow_add, show c + (a - c) = a by omega]
        _ ≤ m * 2 ^ (a - c) := Nat.mul_le_mul_right _ h2'

/-- … and `k > m·2^e` refutes it. -/
theorem not_valLE_int_gt (k a m : Nat) (e : Int)
    (h1 : 0 ≤ e → m * 2 ^ e.toNat < k) (h2 : e < 0 → m < k * 2 ^ (-e).toNat) :
    ¬ ValLE (k * 2 ^ a) (-(a : Int)) m e := by
  unfold ValLE
  by_cases he : 0 ≤ e
  · have hmin : min (-(a : Int)) e = -(a : Int) := by omega
    rw [hmin, Int.sub_self, Int.toNat_zero, Nat.pow_zero, Nat.mul_one,
      show (e - -(a : Int)).toNat = e.toNat + a by omega, Nat.pow_add, ← Nat.mul_assoc]
    exact Nat.not_le.mpr (Nat.mul_lt_mul_of_pos_right (h1 he) (Nat.pow_pos (by decide)))
  · have h2' := h2 (by omega)
    obtain ⟨c, hc⟩ : ∃ c : Nat, e = -(c : Int) := ⟨(-e).toNat, by omega⟩
    subst hc
    rw [show (- -(c : Int)).toNat = c by omega] at h2'
    by_cases hac : a ≤ c
    · have hmin : min (-(a : Int)) (-(c : Int)) = -(c : Int) := by omega
      rw [hmin, Int.sub_self, Int.toNat_zero, Nat.pow_zero, Nat.mul_one,
        show (-(a : Int) - -(c : Int)).toNat = c - a by omega, Nat.mul_assoc, ← Nat.pow_add,
        show a + (c - a) = c by omega]
      exact Nat.not_le.mpr h2'
    · have hmin : min (-(a : Int)) (-(c : Int)) = -(a : Int) := by omega
      rw [hmin, Int.sub_self, Int.toNat_zero, Nat.pow_zero, Nat.mul_one,
        show (-(c : Int) - -(a : Int)).toNat = a - c by omega]
      apply Nat.not_le.mpr
      calc m * 2 ^ (a - c) < k * 2 ^ c * 2 ^ (a - c) := Nat.mul_lt_mul_of_pos_right h2' (Nat.pow_pos (by decide))
        _ = k * 2 ^ a := by rw [Nat.mul_assoc, ← Nat.pow_add, show c + (a - c) = a by omega]


/-! ## `Float32` -/

theorem isFin_abs {u : UnpackedFloat} {s : Sign} {m : Nat} {e : Int} (h : IsFin u s m e) : IsFin u.abs .positive m e := by
  obtain ⟨hm, rfl⟩ := h; exact ⟨hm, rfl⟩

/-- a finite non-zero `f32` unpacks to `± magM · 2^magE`, a canonical pair. -/
theorem up32_fin (y : Float32) (h0 : mag fmt32 y.toBits.toNat ≠ 0) (hfin : mag fmt32 y.toBits.toNat < fmt32.infBits) :
    IsFin y.toModel.unpack (FM.signOf (y.toBits.toNat / 2 ^ 31)) (magM fmt32 y.toBits.toNat) (magE fmt32 y.toBits.toNat) ∧
    CanonFin Format.binary32 (magM fmt32 y.toBits.toNat) (magE fmt32 y.toBits.toNat) := by
  have h := unpackNat32_fin _ h0 hfin
  rw [← FM.float32_unpack] at h
  refine ⟨h, ?_⟩
  have hc := FX.canon_float32 y
  obtain ⟨hm, he⟩ := h
  rw [he] at hc
  exact hc

theorem up32_abs_fin (y : Float32) (h0 : mag fmt32 y.toBits.toNat ≠ 0) (hfin : mag fmt32 y.toBits.toNat < fmt32.infBits) :
    IsFin (Scalar.abs y : Float32).toModel.unpack .positive (magM fmt32 y.toBits.toNat) (magE fmt32 y.toBits.toNat) := by
  rw [up_abs32]; exact isFin_abs (up32_fin y h0 hfin).1

theorem up32_abs_zero (y : Float32) (h0 : mag fmt32 y.toBits.toNat = 0) :
    (Scalar.abs y : Float32).toModel.unpack = .zero .positive := by
  rw [up_abs32, FM.float32_unpack, unpackNat32_zero _ h0]; rfl

/-- **`|a| ≤ |b|` in the IEEE order is the comparison of the exact magnitudes** (finite non-zero `f32`). -/
theorem abs_le_abs32 (a b : Float32)
    (ha0 : mag fmt32 a.toBits.toNat ≠ 0) (ha : mag fmt32 a.toBits.toNat < fmt32.infBits)
    (hb0 : mag fmt32 b.toBits.toNat ≠ 0) (hb : mag fmt32 b.toBits.toNat < fmt32.infBits) :
    Scalar.le (Scalar.abs a) (Scalar.abs b) = true ↔
      ValLE (magM fmt32 a.toBits.toNat) (magE fmt32 a.toBits.toNat) (magM fmt32 b.toBits.toNat) (magE fmt32 b.toBits.toNat) := by
  obtain ⟨h1, e1⟩ := up32_abs_fin a ha0 ha
  obtain ⟨h2, e2⟩ := up32_abs_fin b hb0 hb
  rw [le_float32, e1, e2]
  exact le_fin_pos_iff_valLE h1 h2 (up32_fin a ha0 ha).2 (up32_fin b hb0 hb).2

theorem not_nan_of_mag32 (y : Float32) (h : mag fmt32 y.toBits.toNat ≤ fmt32.infBits) : Scalar.isNaN y = false := by
  cases hn : Scalar.isNaN y
  · rfl
  · have := FM.float32_isNaN_of_pattern y hn
    unfold mag at h; rw [sign32, inf32] at h; omega

/-! ### the pattern of `Float32.ofInt z` -/

/-- the `f32` of the integer `0 < |z| < 2^23`: magnitude pattern finite and non-zero, and `|z| = magM · 2^magE` exactly
with `magE ≤ 0`. -/
theorem ofInt_mag32 (z : Int) (h0 : z ≠ 0) (hz : z.natAbs < 2 ^ 23) :
    mag fmt32 (Float32.ofInt z).toBits.toNat ≠ 0 ∧ mag fmt32 (Float32.ofInt z).toBits.toNat < fmt32.infBits ∧
    ∃ a : Nat, magE fmt32 (Float32.ofInt z).toBits.toNat = -(a : Int) ∧
      magM fmt32 (Float32.ofInt z).toBits.toNat = z.natAbs * 2 ^ a := by
  have hn : 0 < z.natAbs := by omega
  obtain ⟨f1, f2, f3, f4⟩ := FM.intPat32_fields hn (by omega : z.natAbs < 2 ^ 24)
  have hmag : mag fmt32 (Float32.ofInt z).toBits.toNat = FM.intPat32 z.natAbs := by
    rw [FM.float32_ofInt_bits z hz]
    unfold intBits mag
    rw [FM.roundRat_int_eq32 hn (by omega), sign32]
    split <;> omega
  obtain ⟨_, hexp, hmant⟩ := FM.intPattern_intPat32 hn (by omega : z.natAbs < 2 ^ 24)
  unfold magM magE
  rw [hmag, inf32]
  refine ⟨by omega, f4, (-(decompose fmt32 (FM.intPat32 z.natAbs)).2).toNat, by omega, hmant⟩


/-! ### the coordinate limit, from the pattern to `InCoord` (`f32`; the `f64` version is `FCO.inCoord_of_mag64`) -/

theorem unpackNat_of_mag32 (n : Nat) (h : n % 2 ^ 31 ≤ 0x48000000) :
    (FM.unpackNat 23 8 n).isNaN = false ∧ ¬ KLt (1, -6, 2 ^ 23) (key (FM.unpackNat 23 8 n)) ∧
    ¬ KLt (key (FM.unpackNat 23 8 n)) (-1, 6, -(2 ^ 23)) := by
  unfold FM.unpackNat
  have he : ¬ (n / 2 ^ 23 % 2 ^ 8 = 2 ^ 8 - 1) := by omega
  rw [if_neg he]
  by_cases h0 : n / 2 ^ 23 % 2 ^ 8 = 0
  · rw [if_pos h0]
    by_cases hf : n % 2 ^ 23 = 0
    · rw [dif_pos hf]; simp [key, KLt, UnpackedFloat.isNaN]
    · rw [dif_neg hf]
      by_cases ht : n / 2 ^ (23 + 8) = 0
      · simp [FM.signOf, ht, key, KLt, UnpackedFloat.isNaN, h0]
      · simp [FM.signOf, ht, key, KLt, UnpackedFloat.isNaN, h0]
  · rw [if_neg h0]
    by_cases ht : n / 2 ^ (23 + 8) = 0
    · simp [FM.signOf, ht, key, KLt, UnpackedFloat.isNaN]
      omega
    · simp [FM.signOf, ht, key, KLt, UnpackedFloat.isNaN]
      omega

/-- an `f32` whose magnitude pattern is at most that of `131072.0` is within the coordinate limit. -/
theorem inCoord_of_mag32 (y : Float32) (h : y.toBits.toNat % 2 ^ 31 ≤ 0x48000000) : InCoord y := by
  have hu : IeeeOrd.up y = FM.unpackNat 23 8 y.toBits.toNat := FM.float32_unpack y
  obtain ⟨h1, h2, h3⟩ := unpackNat_of_mag32 _ h
  have hn : Scalar.isNaN y = false := by rw [IeeeOrd.isNaN_eq, hu]; exact h1
  refine ⟨(lt_false_iff _ _).mpr (Or.inr (Or.inr ?_)), (lt_false_iff _ _).mpr (Or.inr (Or.inr ?_)), hn⟩
  · rw [FCO.key_neg_coord32, hu]; exact h3
  · rw [FCO.key_coord32, hu]; exact h2

theorem intPat32_arith (L m : Nat) (hL : L ≤ 17) (h17 : L = 17 → m = 2 ^ 23) (b1 : 2 ^ 23 ≤ m) (b2 : m < 2 ^ 24) :
    (127 + L) * 2 ^ 23 + (m - 2 ^ 23) ≤ 0x48000000 := by
  omega

theorem intPat32_le_coord {n : Nat} (hn : 0 < n) (hle : n ≤ 131072) : FM.intPat32 n ≤ 0x48000000 := by
  obtain ⟨b1, b2, b3⟩ := FM.intM_bounds32 hn (by omega : n < 2 ^ 24)
  have hL : n.log2 < 18 := (Nat.log2_lt (by omega)).mpr (by omega)
  refine intPat32_arith _ _ (by omega) (fun h => ?_) b1 b2
  rw [h] at b1 ⊢
  have e : (23 : Nat) - 17 = 6 := rfl
  rw [e] at b1 ⊢
  omega

/-- the pattern of an integer within ±131072 has magnitude at most that of `131072.0`. -/
theorem intBits_mag32 (z : Int) (hz : z.natAbs ≤ 131072) : intBits fmt32 z % 2 ^ 31 ≤ 0x48000000 := by
  unfold intBits
  by_cases h0 : z.natAbs = 0
  · have hr : roundRat fmt32 0 1 = 0 := by unfold roundRat; simp
    rw [h0, hr, sign32]
    split <;> omega
  · rw [FM.roundRat_int_eq32 (by omega) (by omega), sign32]
    have := intPat32_le_coord (by omega : 0 < z.natAbs) hz
    split <;> omega


/-! ### `x as i32 as f32` of a coordinate -/

theorem sat32_inv {t z : Int} (h : sat32 t = z) (h1 : -2147483648 < z) (h2 : z < 2147483647) : t = z := by
  unfold sat32 at h; revert h; split <;> (try split) <;> omega

/-- the integer a coordinate truncates to: within ±131072, and `|z| = ⌊|x|⌋` (no saturation). -/
theorem toI32_coord32 (x : Float32) (h : InCoord x) :
    -131072 ≤ (Scalar.toI32 x : Int) ∧ (Scalar.toI32 x : Int) ≤ 131072 ∧
    mag fmt32 x.toBits.toNat < fmt32.infBits ∧
    (Scalar.toI32 x : Int) = truncInt fmt32 x.toBits.toNat ∧
    (Scalar.toI32 x : Int).natAbs = truncMag (magM fmt32 x.toBits.toNat) (magE fmt32 x.toBits.toNat) := by
  have hmag := FCO.inCoord_mag32 x h
  obtain ⟨z1, z2⟩ := FCO.toI32Bits_coord32 x.toBits.toNat hmag
  have hfin : mag fmt32 x.toBits.toNat < fmt32.infBits := by unfold mag; rw [sign32, inf32]; omega
  have hspec := toI32Bits_spec fmt32 (by decide) x.toBits.toNat hfin
  have ht : truncInt fmt32 x.toBits.toNat = toI32Bits fmt32 x.toBits.toNat :=
    sat32_inv hspec.symm (by omega) (by omega)
  refine ⟨z1, z2, hfin, ht.symm, ?_⟩
  show (toI32Bits fmt32 x.toBits.toNat).natAbs = _
  rw [← ht, truncInt_natAbs]

theorem ofInt_zero_abs32 : (Scalar.abs (Float32.ofInt 0) : Float32).toModel.unpack = .zero .positive :=
  up32_abs_zero _ (by decide +kernel)

theorem zero_le_abs_of_finite (u : UnpackedFloat) (h : u.isFinite = true) :
    (UnpackedFloat.zero .positive).le u.abs = true := by
  cases u <;> first | rfl | cases h

theorem zero_lt_fin_pos (m : Nat) (e : Int) (hm : 0 < m) :
    (UnpackedFloat.zero .positive).lt (.finite .positive m e hm) = true := rfl

theorem fin_neg_lt_zero (m : Nat) (e : Int) (hm : 0 < m) :
    (UnpackedFloat.finite .negative m e hm).lt (.zero .positive) = true := rfl

/-- **a stored position**: for an `f32` `x` within the coordinate limit (the parser's `parse_with_limits` test), with
`z = x as i32` and `s = z as f32`:
the integer is within ±131072; `s` is exactly the integer `z` (pattern `intBits fmt32 z`), a number within the limit;
`s` is a fixed point of truncation (`s as i32 = z`, `s as i32 as f32 = s`); `|s| ≤ |x| < |z| + 1` in the IEEE order (the
right-hand side is the `f32` of the integer `|z| + 1`, exact); the sign of `z` is the sign of `x`. -/
theorem trunc_coord32 (x : Float32) (h : InCoord x) :
    -131072 ≤ (Scalar.toI32 x : Int) ∧ (Scalar.toI32 x : Int) ≤ 131072 ∧
    (Scalar.ofInt (Scalar.toI32 x) : Float32).toBits.toNat = intBits fmt32 (Scalar.toI32 x) ∧
    InCoord (Scalar.ofInt (Scalar.toI32 x) : Float32) ∧
    Scalar.toI32 (Scalar.ofInt (Scalar.toI32 x) : Float32) = Scalar.toI32 x ∧
    Scalar.le (Scalar.abs (Scalar.ofInt (Scalar.toI32 x) : Float32)) (Scalar.abs x) = true ∧
    Scalar.lt (Scalar.abs x) (Scalar.ofInt (((Scalar.toI32 x : Int).natAbs : Int) + 1) : Float32) = true ∧
    ((Scalar.toI32 x : Int) < 0 → Scalar.lt x (0 : Float32) = true) ∧
    (0 < (Scalar.toI32 x : Int) → Scalar.lt (0 : Float32) x = true) := by
  obtain ⟨z1, z2, hfin, htr, habs⟩ := toI32_coord32 x h
  generalize hz : (Scalar.toI32 x : Int) = z at *
  have hbits : (Float32.ofInt z).toBits.toNat = intBits fmt32 z := FM.float32_ofInt_bits z (by omega)
  have hxn : Scalar.isNaN x = false := h.2.2
  have hxan : Scalar.isNaN (Scalar.abs x) = false := by rw [isNaN_abs_float32]; exact hxn
  obtain ⟨t1, t2⟩ := truncMag_le (magM fmt32 x.toBits.toNat) (magE fmt32 x.toBits.toNat)
  rw [← habs] at t1 t2
  refine ⟨z1, z2, hbits, ?_, ?_, ?_, ?_, ?_, ?_⟩
  · show InCoord (Float32.ofInt z)
    exact inCoord_of_mag32 _ (by rw [hbits]; exact intBits_mag32 z (by omega))
  · show toI32Bits fmt32 (Float32.ofInt z).toBits.toNat = z
    rw [hbits]
    exact FCO.toI32Bits_intBits fmt32 (by decide) (by decide) (by decide) z (by show z.natAbs < 2 ^ 24; omega) (by omega)
  · -- |s| ≤ |x|
    show Scalar.le (Scalar.abs (Float32.ofInt z)) (Scalar.abs x) = true
    by_cases hz0 : z = 0
    · subst hz0
      rw [le_float32, ofInt_zero_abs32, up_abs32]
      apply zero_le_abs_of_finite
      by_cases hm0 : mag fmt32 x.toBits.toNat = 0
      · rw [FM.float32_unpack, unpackNat32_zero _ hm0]; rfl
      · obtain ⟨_, e⟩ := (up32_fin x hm0 hfin).1; rw [e]; rfl
    · have hm0 : mag fmt32 x.toBits.toNat ≠ 0 := by
        intro hm0
        have : toI32Bits fmt32 x.toBits.toNat = 0 := toI32Bits_zero fmt32 (by decide) _ hm0
        exact hz0 (hz ▸ this)
      obtain ⟨s0, sfin, a, sE, sM⟩ := ofInt_mag32 z hz0 (by omega)
      rw [abs_le_abs32 _ _ s0 sfin hm0 hfin, sE, sM]
      exact valLE_int_le _ _ _ _ (fun he => Nat.le_of_eq (t1 he)) t2
  · -- |x| < |z| + 1
    have hk0 : ((z.natAbs : Int) + 1) ≠ 0 := by omega
    have hkabs : ((z.natAbs : Int) + 1).natAbs = z.natAbs + 1 := by omega
    obtain ⟨s0, sfin, a, sE, sM⟩ := ofInt_mag32 ((z.natAbs : Int) + 1) hk0 (by omega)
    rw [hkabs] at sM
    have hwbits := FM.float32_ofInt_bits ((z.natAbs : Int) + 1) (by omega)
    have hwsign : (Float32.ofInt ((z.natAbs : Int) + 1)).toBits.toNat / 2 ^ 31 = 0 := by
      rw [hwbits]; unfold intBits
      rw [if_neg (by omega), hkabs, FM.roundRat_int_eq32 (by omega) (by omega)]
      have := (FM.intPat32_fields (by omega : 0 < z.natAbs + 1) (by omega)).2.2.2
      omega
    obtain ⟨⟨hwm, hwe⟩, hwc⟩ := up32_fin _ s0 sfin
    rw [hwsign] at hwe
    show Scalar.lt (Scalar.abs x) (Float32.ofInt ((z.natAbs : Int) + 1)) = true
    by_cases hm0 : mag fmt32 x.toBits.toNat = 0
    · rw [lt_float32, up32_abs_zero x hm0, hwe]; rfl
    · have hwn : Scalar.isNaN (Float32.ofInt ((z.natAbs : Int) + 1)) = false := not_nan_of_mag32 _ (Nat.le_of_lt sfin)
      apply lt_of_not_le _ _ hxan hwn
      cases hle : Scalar.le (Float32.ofInt ((z.natAbs : Int) + 1)) (Scalar.abs x)
      · rfl
      · exfalso
        obtain ⟨hxm, hxe⟩ := up32_abs_fin x hm0 hfin
        rw [le_float32, hwe, hxe] at hle
        have hv := (le_fin_pos_iff_valLE hwm hxm hwc (up32_fin x hm0 hfin).2).mp hle
        rw [sE, sM] at hv
        refine not_valLE_int_gt _ _ _ _ (fun he => ?_) (fun he => ?_) hv
        · rw [← t1 he]; omega
        · have := lt_truncMag_succ (magM fmt32 x.toBits.toNat) _ he
          rw [← habs] at this; exact this
  · -- sign, negative
    intro hneg
    have hsg := (toI32Bits_sign fmt32 (by decide) x.toBits.toNat hfin).1 (by show (Scalar.toI32 x : Int) < 0; rw [hz]; exact hneg)
    have hm0 : mag fmt32 x.toBits.toNat ≠ 0 := by
      intro hm0
      have : toI32Bits fmt32 x.toBits.toNat = 0 := toI32Bits_zero fmt32 (by decide) _ hm0
      have : z = 0 := hz ▸ this
      omega
    obtain ⟨hxm, hxe⟩ := (up32_fin x hm0 hfin).1
    have hs : FM.signOf (x.toBits.toNat / 2 ^ 31) = .negative := by
      unfold negBit at hsg; rw [sign32] at hsg
      unfold FM.signOf; rw [if_neg (by omega)]
    rw [lt_float32, hxe, hs, FX.unpack_zero_float32]; rfl
  · intro hpos
    have hsg := (toI32Bits_sign fmt32 (by decide) x.toBits.toNat hfin).2 (by show 0 < (Scalar.toI32 x : Int); rw [hz]; exact hpos)
    have hm0 : mag fmt32 x.toBits.toNat ≠ 0 := by
      intro hm0
      have : toI32Bits fmt32 x.toBits.toNat = 0 := toI32Bits_zero fmt32 (by decide) _ hm0
      have : z = 0 := hz ▸ this
      omega
    obtain ⟨hxm, hxe⟩ := (up32_fin x hm0 hfin).1
    have hlt : x.toBits.toNat < 2 ^ 32 := x.toBits.toNat_lt
    have hs : FM.signOf (x.toBits.toNat / 2 ^ 31) = .positive := by
      unfold negBit at hsg; rw [sign32] at hsg
      unfold FM.signOf; rw [if_pos (by omega)]
    rw [lt_float32, hxe, hs, FX.unpack_zero_float32]; rfl

/-! ### non-vacuity: closed coordinates, evaluated by the kernel -/

/-- `InCoord` holds of `-2.75`, `131071.99`, `-131072`, `-0.0`, `0.3` … -/
example : ∀ a ∈ [Float32.ofBits 0xC0300000, Float32.ofBits 0x47FFFFFF, -131072, -(0 : Float32), Float32.ofBits 0x3E99999A],
    InCoord a := by decide +kernel

/-- … and the conclusions of `trunc_coord32` as the kernel computes them for `-2.75f32`: `z = -2`, `s = -2.0`,
`|s| = 2 ≤ 2.75 < 3`, and `-0.0 as i32 as f32 = +0.0` (not `-0.0`: the stored zero is always positive). -/
example : (Scalar.toI32 (Float32.ofBits 0xC0300000) : Int) = -2 ∧
    (Scalar.ofInt (-2) : Float32).toBits = 0xC0000000 ∧
    Scalar.le (Scalar.abs (Scalar.ofInt (-2) : Float32)) (Scalar.abs (Float32.ofBits 0xC0300000)) = true ∧
    Scalar.lt (Scalar.abs (Float32.ofBits 0xC0300000)) (Scalar.ofInt 3 : Float32) = true ∧
    Scalar.lt (Float32.ofBits 0xC0300000) (0 : Float32) = true ∧
    (Scalar.ofInt (Scalar.toI32 (-(0 : Float32))) : Float32).toBits = 0 ∧
    (Scalar.toI32 (Float32.ofBits 0x47FFFFFF) : Int) = 131071 := by decide +kernel

/-- outside the limit nothing of the sort holds: `3e9f32 as i32` saturates to `i32::MAX`, whose `f32` is `2^31` (not an
`i32` any more): the parser's limit is what makes `as i32 as f32` idempotent. -/
example : ¬ InCoord (Float32.ofBits 0x4F32D05E) ∧ (Scalar.toI32 (Float32.ofBits 0x4F32D05E) : Int) = 2147483647 ∧
    (Scalar.toI32 (Scalar.ofInt 2147483647 : Float32) : Int) = 2147483647 ∧
    (Scalar.ofInt 2147483647 : Float32).toBits = 0x4F000000 := by decide +kernel

end F32


/-! ## 3. differences of integer-valued `f32`s are exact (slider control points are stored relative to the head) -/

section IntSub
open Float.Model Float.Model.UnpackedFloat FMR FMO

/-- **`round` of a scaled integer is exact**: `n · 2^k` at exponent `−k` with `0 < n < 2^(M+1)` rounds to the canonical
pair of the integer `n` (no bit is dropped). -/
theorem round_int_scaled (spec : Format) (hE : 2 ≤ spec.exponentBits) (s : Sign) (n k : Nat) (hn : 0 < n)
    (hlt : n < 2 ^ (spec.mantissaBitsWithoutImplicit + 1)) :
    round spec s (n * 2 ^ k) (-(k : Int)) = .finite s (n * 2 ^ (spec.mantissaBitsWithoutImplicit - n.log2))
      ((n.log2 : Int) - spec.mantissaBitsWithoutImplicit) (Nat.mul_pos hn (Nat.pow_pos (by decide))) := by
  have hlog : n.log2 < spec.mantissaBitsWithoutImplicit + 1 := (Nat.log2_lt (by omega)).mpr hlt
  have hmin := FM.minExponent_le spec hE
  have htgt : spec.targetExponent (totalExponent (n * 2 ^ k) (-(k : Int))) = (n.log2 : Int) - spec.mantissaBitsWithoutImplicit := by
    unfold Format.targetExponent totalExponent Format.mantissaBits
    rw [FM.log2_mul_pow hn]
    omega
  unfold round decreaseExponent
  simp only [htgt]
  have hcan : spec.targetExponent (totalExponent (n * 2 ^ (spec.mantissaBitsWithoutImplicit - n.log2))
      ((n.log2 : Int) - spec.mantissaBitsWithoutImplicit)) = (n.log2 : Int) - spec.mantissaBitsWithoutImplicit := by
    apply FM.canonical_of_full spec hE
    · rw [FM.log2_mul_pow hn]; omega
    · omega
  by_cases hk : k ≤ spec.mantissaBitsWithoutImplicit - n.log2
  · apply FM.roundWithAccuracy_exact' (j := 0) (hc := hcan)
    · rw [Nat.shiftLeft_eq, Nat.pow_zero, Nat.mul_one, Nat.mul_assoc, ← Nat.pow_add]
      congr 2
      omega
    · omega
  · apply FM.roundWithAccuracy_exact' (j := k - (spec.mantissaBitsWithoutImplicit - n.log2)) (hc := hcan)
    · rw [Nat.shiftLeft_eq, show (-(k : Int) - ((n.log2 : Int) - spec.mantissaBitsWithoutImplicit)).toNat = 0 by omega,
        Nat.pow_zero, Nat.mul_one, Nat.mul_assoc, ← Nat.pow_add]
      congr 2
      omega
    · omega


theorem usub_fin (spec : Format) (s₁ s₂ : Sign) (m₁ m₂ : Nat) (e₁ e₂ : Int) (h₁ h₂) :
    UnpackedFloat.sub spec (.finite s₁ m₁ e₁ h₁) (.finite s₂ m₂ e₂ h₂) =
      normalize spec (s₁.apply ((m₁ * 2 ^ (e₁ - min e₁ e₂).toNat : Nat) : Int) -
        s₂.apply ((m₂ * 2 ^ (e₂ - min e₁ e₂).toNat : Nat) : Int)) (min e₁ e₂) .positive := by
  simp only [UnpackedFloat.sub, decreaseExponent, Nat.shiftLeft_eq]

theorem apply_scaled (s : Sign) (A p k : Nat) (hp : p ≤ k) :
    s.apply ((A * 2 ^ p * 2 ^ (k - p) : Nat) : Int) = s.apply (A : Int) * ((2 ^ k : Nat) : Int) := by
  rw [Nat.mul_assoc, ← Nat.pow_add, show p + (k - p) = k by omega, Int.natCast_mul]
  cases s
  · show -((A : Int) * _) = -(A : Int) * _; rw [Int.neg_mul]
  · rfl

/-- the sign of a non-zero integer. -/
def isign (d : Int) : Sign := if d < 0 then .negative else .positive

/-- **the difference of two integer-valued floats is exact** as long as the result has at most `M + 1` bits:
`(± A·2^p · 2^-p) − (± B·2^q · 2^-q)` is the canonical pair of the integer `d = ±A − ±B ≠ 0`. -/
theorem usub_int (spec : Format) (hE : 2 ≤ spec.exponentBits) (s₁ s₂ : Sign) (A B p q : Nat) (h₁ h₂) (d : Int)
    (hd : s₁.apply (A : Int) - s₂.apply (B : Int) = d) (hd0 : d ≠ 0)
    (hlt : d.natAbs < 2 ^ (spec.mantissaBitsWithoutImplicit + 1)) :
    UnpackedFloat.sub spec (.finite s₁ (A * 2 ^ p) (-(p : Int)) h₁) (.finite s₂ (B * 2 ^ q) (-(q : Int)) h₂) =
      .finite (isign d) (d.natAbs * 2 ^ (spec.mantissaBitsWithoutImplicit - d.natAbs.log2))
        ((d.natAbs.log2 : Int) - spec.mantissaBitsWithoutImplicit)
        (Nat.mul_pos (by omega) (Nat.pow_pos (by decide))) := by
  rw [usub_fin]
  obtain ⟨k, hk, hpk, hqk⟩ : ∃ k : Nat, min (-(p : Int)) (-(q : Int)) = -(k : Int) ∧ p ≤ k ∧ q ≤ k :=
    ⟨max p q, by omega, by omega, by omega⟩
  rw [hk, show (-(p : Int) - -(k : Int)).toNat = k - p by omega, show (-(q : Int) - -(k : Int)).toNat = k - q by omega,
    apply_scaled s₁ A p k hpk, apply_scaled s₂ B q k hqk, ← Int.sub_mul, hd]
  have hpow : (0 : Int) < ((2 ^ k : Nat) : Int) := Int.natCast_pos.mpr (Nat.pow_pos (by decide))
  unfold isign
  by_cases hneg : d < 0
  · rw [if_pos hneg, normalize_neg _ _ _ _ (Int.mul_neg_of_neg_of_pos hneg hpow)]
    have : (-(d * ((2 ^ k : Nat) : Int))).toNat = d.natAbs * 2 ^ k := by
      rw [← Int.neg_mul, show -d = (d.natAbs : Int) by omega, ← Int.natCast_mul, Int.toNat_natCast]
    rw [this]
    exact round_int_scaled spec hE .negative d.natAbs k (by omega) hlt
  · rw [if_neg hneg, normalize_pos _ _ _ _ (Int.mul_pos (by omega) hpow)]
    have : (d * ((2 ^ k : Nat) : Int)).toNat = d.natAbs * 2 ^ k := by
      rw [show d = (d.natAbs : Int) by omega, ← Int.natCast_mul, Int.toNat_natCast]
      simp
    rw [this]
    exact round_int_scaled spec hE .positive d.natAbs k (by omega) hlt


theorem decompose_intPat32 {n : Nat} (hn : 0 < n) (hlt : n < 2 ^ 24) :
    decompose fmt32 (FM.intPat32 n) = (n * 2 ^ (23 - n.log2), (n.log2 : Int) - 23) := by
  obtain ⟨b1, b2, b3⟩ := FM.intM_bounds32 hn hlt
  obtain ⟨f1, f2, f3, f4⟩ := FM.intPat32_fields hn hlt
  have e23 : fmt32.p - 1 = 23 := rfl
  have hd := FCL.decompose_norm fmt32 (FM.intPat32 n)
  rw [e23, f1, f2, show fmt32.bias = 127 from by decide] at hd
  rw [hd (by omega), Prod.mk.injEq]
  constructor <;> omega

/-- **the unpacked `f32` of a non-zero integer** `|z| < 2^23`: sign of `z`, mantissa `|z|·2^(23 − log2 |z|)`,
exponent `log2 |z| − 23`. -/
theorem up_ofInt32 (z : Int) (h0 : z ≠ 0) (hz : z.natAbs < 2 ^ 23) :
    IsFin (Float32.ofInt z).toModel.unpack (isign z) (z.natAbs * 2 ^ (23 - z.natAbs.log2)) ((z.natAbs.log2 : Int) - 23) := by
  have hn : 0 < z.natAbs := by omega
  obtain ⟨f1, f2, f3, f4⟩ := FM.intPat32_fields hn (by omega : z.natAbs < 2 ^ 24)
  have hbits := FM.float32_ofInt_bits z hz
  have hmag : mag fmt32 (Float32.ofInt z).toBits.toNat = FM.intPat32 z.natAbs := by
    rw [hbits]; unfold intBits mag
    rw [FM.roundRat_int_eq32 hn (by omega), sign32]
    split <;> omega
  have hsign : FM.signOf ((Float32.ofInt z).toBits.toNat / 2 ^ 31) = isign z := by
    rw [hbits]; unfold intBits isign FM.signOf
    rw [FM.roundRat_int_eq32 hn (by omega), sign32]
    by_cases hneg : z < 0
    · rw [if_pos hneg, if_pos hneg, if_neg (by omega)]
    · rw [if_neg hneg, if_neg hneg, if_pos (by omega)]
  have h := (up32_fin (Float32.ofInt z) (by rw [hmag]; omega) (by rw [hmag, inf32]; exact f4)).1
  unfold magM magE at h
  rw [hmag, decompose_intPat32 hn (by omega), hsign] at h
  exact h

theorem up_ofInt32_zero : (Float32.ofInt 0).toModel.unpack = .zero .positive := by
  rw [FM.float32_unpack, unpackNat32_zero _ (by decide +kernel)]
  have : (Float32.ofInt 0).toBits.toNat / 2 ^ 31 = 0 := by decide +kernel
  rw [this]; rfl

theorem isign_neg {d : Int} (h : d ≠ 0) : isign (-d) = -isign d := by
  unfold isign
  by_cases h1 : d < 0
  · rw [if_neg (by omega), if_pos h1]; rfl
  · rw [if_pos (by omega), if_neg h1]; rfl

theorem isign_apply (z : Int) : (isign z).apply (z.natAbs : Int) = z := by
  unfold isign
  by_cases h1 : z < 0
  · rw [if_pos h1]; show -(z.natAbs : Int) = z; omega
  · rw [if_neg h1]; show (z.natAbs : Int) = z; omega

/-- **differences of integers are exact in `f32`**: for integers with `|a|, |b|, |a − b| < 2^23`,
`(a as f32) − (b as f32) = (a − b) as f32` (no rounding; a zero difference is `+0.0`). -/
theorem sub_int_exact_float32 (a b : Int) (ha : a.natAbs < 2 ^ 23) (hb : b.natAbs < 2 ^ 23) (hd : (a - b).natAbs < 2 ^ 23) :
    Float32.ofInt a - Float32.ofInt b = Float32.ofInt (a - b) := by
  rw [sub_float32, ← FX.pack_unpack_float32 (Float32.ofInt (a - b))]
  congr 2
  by_cases ha0 : a = 0
  · subst ha0
    rw [up_ofInt32_zero]
    by_cases hb0 : b = 0
    · subst hb0; rw [up_ofInt32_zero]; rfl
    · obtain ⟨hm, e⟩ := up_ofInt32 b hb0 hb
      obtain ⟨hm', e'⟩ := up_ofInt32 (0 - b) (by omega) hd
      rw [e, e']
      show UnpackedFloat.finite (-isign b) _ _ _ = _
      simp only [Int.zero_sub, isign_neg hb0, Int.natAbs_neg]
  · obtain ⟨hma, ea⟩ := up_ofInt32 a ha0 ha
    by_cases hb0 : b = 0
    · subst hb0
      rw [up_ofInt32_zero, Int.sub_zero, ea]; rfl
    · obtain ⟨hmb, eb⟩ := up_ofInt32 b hb0 hb
      rw [ea, eb]
      by_cases hd0 : a - b = 0
      · have hab : a = b := by omega
        subst hab
        rw [Int.sub_self, up_ofInt32_zero, usub_fin]
        simp only [Int.min_self, Int.sub_self, normalize_zero]
      · obtain ⟨hmd, ed⟩ := up_ofInt32 (a - b) hd0 hd
        rw [ed]
        have hla : a.natAbs.log2 ≤ 23 := by
          have := (Nat.log2_lt (by omega : a.natAbs ≠ 0)).mpr (by omega : a.natAbs < 2 ^ 24); omega
        have hlb : b.natAbs.log2 ≤ 23 := by
          have := (Nat.log2_lt (by omega : b.natAbs ≠ 0)).mpr (by omega : b.natAbs < 2 ^ 24); omega
        have h := usub_int Format.binary32 (by decide) (isign a) (isign b) a.natAbs b.natAbs (23 - a.natAbs.log2)
          (23 - b.natAbs.log2) hma hmb
          (a - b) (by rw [isign_apply, isign_apply]) hd0 (by show (a - b).natAbs < 2 ^ 24; omega)
        have e1 : (-((23 - a.natAbs.log2 : Nat) : Int)) = (a.natAbs.log2 : Int) - 23 := by omega
        have e2 : (-((23 - b.natAbs.log2 : Nat) : Int)) = (b.natAbs.log2 : Int) - 23 := by omega
        simp only [e1, e2] at h
        exact h

/-- closed instances, by the kernel: the extreme slider offsets `131072 − (−131072) = 262144` and `−131072 − 131072`. -/
example : (Float32.ofInt 131072 - Float32.ofInt (-131072)).toBits = (Float32.ofInt 262144).toBits ∧
    (Float32.ofInt (-131072) - Float32.ofInt 131072).toBits = (Float32.ofInt (-262144)).toBits ∧
    (Float32.ofInt 5 - Float32.ofInt 5).toBits = 0 ∧ (Float32.ofInt 262144).toBits = 0x48800000 := by decide +kernel

end IntSub

/-! ## 4. the `f64` side: slider control points are parsed as `f64` within ±131072, then `as i32 as f32` -/

section F64
open Float.Model Float.Model.UnpackedFloat FMR FMO RtObjects

/-- a non-NaN binary64 pattern whose value is neither above `131072` nor below `-131072` has magnitude `≤ 0x4100000000000000`. -/
theorem key_unpackNat_bound64 (n : Nat) (hnan : (FM.unpackNat 52 11 n).isNaN = false)
    (h1 : ¬ KLt (1, -35, 2 ^ 52) (key (FM.unpackNat 52 11 n)))
    (h2 : ¬ KLt (key (FM.unpackNat 52 11 n)) (-1, 35, -(2 ^ 52))) : n % 2 ^ 63 ≤ 0x4100000000000000 := by
  unfold FM.unpackNat at *
  by_cases he : n / 2 ^ 52 % 2 ^ 11 = 2 ^ 11 - 1
  · rw [if_pos he] at hnan h1 h2
    by_cases hf : n % 2 ^ 52 = 0
    · rw [if_pos hf] at h1 h2
      by_cases ht : n / 2 ^ (52 + 11) = 0
      · simp [FM.signOf, ht, key, KLt] at h1
      · simp [FM.signOf, ht, key, KLt] at h2
    · rw [if_neg hf] at hnan; cases hnan
  · rw [if_neg he] at h1 h2
    by_cases h0 : n / 2 ^ 52 % 2 ^ 11 = 0
    · omega
    · rw [if_neg h0] at h1 h2
      by_cases ht : n / 2 ^ (52 + 11) = 0
      · simp [FM.signOf, ht, key, KLt] at h1
        omega
      · simp [FM.signOf, ht, key, KLt] at h2
        omega

/-- an `f64` within the coordinate limit has a magnitude pattern at most that of `131072.0`. -/
theorem inCoord_mag64 (a : Float) (h : InCoord a) : a.toBits.toNat % 2 ^ 63 ≤ 0x4100000000000000 := by
  obtain ⟨h1, h2, h3⟩ := h
  have hu : IeeeOrd.up a = FM.unpackNat 52 11 a.toBits.toNat := FM.float_unpack a
  have hn : (FM.unpackNat 52 11 a.toBits.toNat).isNaN = false := by rw [← hu, ← IeeeOrd.isNaN_eq]; exact h3
  have nc : Scalar.isNaN (Scalar.ofInt maxCoordinate : Float) = false := by decide +kernel
  have nnc : Scalar.isNaN (-(Scalar.ofInt maxCoordinate : Float)) = false := by decide +kernel
  refine key_unpackNat_bound64 _ hn ?_ ?_
  · rcases (lt_false_iff _ _).mp h2 with h | h | h
    · rw [nc] at h; cases h
    · rw [h3] at h; cases h
    · rw [FCO.key_coord64, hu] at h; exact h
  · rcases (lt_false_iff _ _).mp h1 with h | h | h
    · rw [h3] at h; cases h
    · rw [nnc] at h; cases h
    · rw [FCO.key_neg_coord64, hu] at h; exact h

theorem div_pow_le64 {m k : Nat} (hm : m < 2 ^ 53) (hk : 36 ≤ k) : m / 2 ^ k < 2 ^ 17 := by
  apply Nat.div_lt_of_lt_mul
  calc m < 2 ^ 53 := hm
    _ = 2 ^ 36 * 2 ^ 17 := by decide
    _ ≤ 2 ^ k * 2 ^ 17 := Nat.mul_le_mul_right _ (Nat.pow_le_pow_right (by decide) hk)

theorem sign64 : fmt64.signBit = 2 ^ 63 := by decide
theorem inf64 : fmt64.infBits = 0x7FF0000000000000 := by decide

theorem decompose64 (r : Nat) : decompose fmt64 r =
    (if r / 2 ^ 52 = 0 then (r % 2 ^ 52, -1074) else (r % 2 ^ 52 + 2 ^ 52, ((r / 2 ^ 52 : Nat) : Int) - 1023 - 52)) := by
  unfold decompose
  rfl

/-- `x as i32` of an `f64` within the coordinate limit is within ±131072. -/
theorem toI32Bits_coord64 (n : Nat) (h : n % 2 ^ 63 ≤ 0x4100000000000000) :
    -131072 ≤ toI32Bits fmt64 n ∧ toI32Bits fmt64 n ≤ 131072 := by
  have hfin : mag fmt64 n < fmt64.infBits := by unfold mag; rw [sign64, inf64]; omega
  have hle : truncMag (magM fmt64 n) (magE fmt64 n) ≤ 2 ^ 17 := by
    unfold magM magE mag truncMag
    rw [sign64, decompose64]
    by_cases hE : n % 2 ^ 63 / 2 ^ 52 = 0
    · rw [if_pos hE]
      simp only [show ¬ ((0 : Int) ≤ -1074) by decide, if_false]
      exact Nat.le_of_lt (div_pow_le64 (by omega) (by decide))
    · rw [if_neg hE]
      generalize hE' : n % 2 ^ 63 / 2 ^ 52 = E at *
      generalize hF' : n % 2 ^ 63 % 2 ^ 52 = Fr at *
      have hEle : E ≤ 1040 := by omega
      have hFr : Fr < 2 ^ 52 := by omega
      have h1040 : E = 1040 → Fr = 0 := by omega
      simp only [show ¬ ((0 : Int) ≤ ((E : Nat) : Int) - 1023 - 52) by omega, if_false]
      rw [show (-(((E : Nat) : Int) - 1023 - 52)).toNat = 1075 - E by omega]
      by_cases h4 : E = 1040
      · rw [h4, h1040 h4]; decide
      · exact Nat.le_of_lt (div_pow_le64 (by omega) (by omega))
  have hsp := toI32Bits_trunc fmt64 (by decide) n hfin (by omega)
  have hab := truncInt_natAbs fmt64 n
  rw [hsp]
  omega

/-- `x as i32 as f32` of an `f64` coordinate: an integer within ±131072, stored exactly, a fixed point of truncation. -/
theorem trunc_coord64 (x : Float) (h : InCoord x) :
    -131072 ≤ (Scalar.toI32 x : Int) ∧ (Scalar.toI32 x : Int) ≤ 131072 ∧
    (Scalar.ofInt (Scalar.toI32 x) : Float32).toBits.toNat = intBits fmt32 (Scalar.toI32 x) ∧
    InCoord (Scalar.ofInt (Scalar.toI32 x) : Float32) ∧
    Scalar.toI32 (Scalar.ofInt (Scalar.toI32 x) : Float32) = Scalar.toI32 x := by
  obtain ⟨z1, z2⟩ := toI32Bits_coord64 x.toBits.toNat (inCoord_mag64 x h)
  have hzdef : (Scalar.toI32 x : Int) = toI32Bits fmt64 x.toBits.toNat := rfl
  rw [← hzdef] at z1 z2
  generalize (Scalar.toI32 x : Int) = z at *
  have hbits : (Float32.ofInt z).toBits.toNat = intBits fmt32 z := FM.float32_ofInt_bits z (by omega)
  refine ⟨z1, z2, hbits, ?_, ?_⟩
  · show InCoord (Float32.ofInt z)
    exact inCoord_of_mag32 _ (by rw [hbits]; exact intBits_mag32 z (by omega))
  · show toI32Bits fmt32 (Float32.ofInt z).toBits.toNat = z
    rw [hbits]
    exact FCO.toI32Bits_intBits fmt32 (by decide) (by decide) (by decide) z (by show z.natAbs < 2 ^ 24; omega) (by omega)

/-- non-vacuity: `-2.75f64`, `131072.0`, `-131071.999…` are within the limit; they truncate to `-2`, `131072`, `-131071`. -/
example : InCoord (Float.ofBits 0xC006000000000000) ∧ InCoord (131072 : Float) ∧ InCoord (Float.ofBits 0xC0FFFFFFFFFFFFFF) ∧
    (Scalar.toI32 (Float.ofBits 0xC006000000000000) : Int) = -2 ∧ (Scalar.toI32 (131072 : Float) : Int) = 131072 ∧
    (Scalar.toI32 (Float.ofBits 0xC0FFFFFFFFFFFFFF) : Int) = -131071 := by decide +kernel

end F64

end Rosu.FTR
