/-
  Lemmas/FloatCoordLaws.lean — the cross-codec law for slider-path coordinates (`SliderRt.CoordLaws`, Lemmas/SliderPathDec.lean)
  as a THEOREM of the driver's instances `F = Float`, `P = Float32`: an integral `f32` coordinate within ±131072, written with
  `f32`'s `Display` and read with `f64`'s `FromStr`, is in range and truncates to the same integer; and the text of an
  in-range `f32` does not start with a letter.
  * `FM.float32_ofInt_bits`: `Float32.ofInt z` has the pattern `intBits fmt32 z` for `|z| < 2^23` (the `f32` analogue of
    `FM.float_ofInt_bits`, Lemmas/FloatModelOfInt.lean: `Float32.ofInt z` → `Float32.ofNat n` → `Float32.ofScientific n false 0`
    → fast path `n.toUInt64.toFloat32 * 1.0`, both steps exact in Lean's logical model);
  * `FCO.inCoord_mag32`: an `f32` within the coordinate limit has magnitude pattern `≤ 0x48000000` (`131072.0`), hence is
    finite and `x as i32` is within ±131072 (`FCO.toI32Bits_coord32`);
  * `FCO.toI32Bits_intBits`: `x as i32` of the pattern of an integer `|z| < 2^31` is `z`;
  * an integer `|z| < 2^24` prints the same with `f32`'s and `f64`'s `Display` (`FCL.printBits_intBits`), so `f64`'s `FromStr`
    reads the `f32` text as `Float.ofInt z` (`FCL.parseBits_printBits_f64`);
  * `FCO.coordLaws_float : SliderRt.CoordLaws Float Float32 (·.isNaN = false)`.
-/
import RosuModel.Lemmas.FloatModelOfInt
import RosuModel.Lemmas.FloatModelCompare
import RosuModel.Lemmas.SliderPathDec
namespace Rosu.FM
open Float.Model Float.Model.UnpackedFloat

/-! ## binary32: `Float32.ofNat n` for `0 < n < 2^23` (port of the binary64 development of Lemmas/FloatModelOfInt.lean) -/

theorem intM_bounds32 {n : Nat} (hn : 0 < n) (hlt : n < 2 ^ 24) :
    2 ^ 23 ≤ n * 2 ^ (23 - n.log2) ∧ n * 2 ^ (23 - n.log2) < 2 ^ 24 ∧ n.log2 ≤ 23 := by
  have hlog : n.log2 < 24 := (Nat.log2_lt (by omega)).mpr hlt
  have h := (Nat.log2_eq_iff (n := n) (k := n.log2) (by omega)).mp rfl
  have hj : 0 < 2 ^ (23 - n.log2) := Nat.pow_pos (by decide)
  refine ⟨?_, ?_, by omega⟩
  · calc 2 ^ 23 = 2 ^ n.log2 * 2 ^ (23 - n.log2) := by rw [← Nat.pow_add]; congr 1; omega
      _ ≤ _ := Nat.mul_le_mul_right _ h.1
  · calc n * 2 ^ (23 - n.log2) < 2 ^ (n.log2 + 1) * 2 ^ (23 - n.log2) := Nat.mul_lt_mul_of_pos_right h.2 hj
      _ = 2 ^ 24 := by rw [← Nat.pow_add]; congr 1; omega

theorem unpacked_ofNat32 {n : Nat} (hn : 0 < n) (hlt : n < 2 ^ 24) :
    UnpackedFloat.ofNat Format.binary32 n =
      .finite .positive (n * 2 ^ (23 - n.log2)) ((n.log2 : Int) - 23) (Nat.mul_pos hn (Nat.pow_pos (by decide))) := by
  unfold UnpackedFloat.ofNat UnpackedFloat.ofInt normalize
  rw [Int.compare_eq_gt.mpr (by omega)]
  simp only [Int.toNat_natCast]
  exact round_int_exact Format.binary32 (by decide) .positive n hn hlt

theorem bias32 : Format.binary32.exponentBias = 127 := rfl

theorem unpack_ofUInt64_32 (u : UInt64) (hn : 0 < u.toNat) (hlt : u.toNat < 2 ^ 24) :
    (Float32.Model.ofUInt64 u).unpack =
      .finite .positive (u.toNat * 2 ^ (23 - u.toNat.log2)) ((u.toNat.log2 : Int) - 23)
        (Nat.mul_pos hn (Nat.pow_pos (by decide))) := by
  obtain ⟨b1, b2, b3⟩ := intM_bounds32 hn hlt
  show UnpackedFloat.unpack Format.binary32 (pack Format.binary32 (UnpackedFloat.ofNat Format.binary32 u.toNat)) = _
  rw [unpacked_ofNat32 hn hlt]
  have h3 : 0 < ((u.toNat.log2 : Int) - 23) + ((127 : Nat) : Int) + ((23 : Nat) : Int) := by omega
  have h4 : ((u.toNat.log2 : Int) - 23) + ((127 : Nat) : Int) + ((23 : Nat) : Int) < ((255 : Nat) : Int) := by omega
  exact unpack_pack_normal (spec := Format.binary32) (by decide) _ _ _ _ b1 b2 h3 h4

theorem unpack_one32 : (Float32.ofBits 0x3F800000).toModel.unpack = .finite .positive (2 ^ 23) (-23) (by decide) := by
  rw [float32_unpack_ofBits _ (by decide)]
  rfl

theorem mul_one_unpacked32 (m : Nat) (e : Int) (hm : 0 < m) (hl : m.log2 = 23) (he : -23 ≤ e) :
    UnpackedFloat.mul Format.binary32 (.finite .positive m e hm) (.finite .positive (2 ^ 23) (-23) (by decide)) =
      .finite .positive m e hm := by
  show roundWithAccuracy Format.binary32 (.positive * .positive) (m * 2 ^ 23) (e + -23) .exact = _
  exact roundWithAccuracy_exact' Format.binary32 _ m 23 e hm
    (canonical_of_full Format.binary32 (by decide) m e hl he) _ _ rfl (by omega)

theorem float32_ofNat_eq (n : Nat) (hlt : n < 2 ^ 23) :
    Float32.ofNat n = n.toUInt64.toFloat32 * Float32.ofBits 0x3F800000 := by
  show Float32.ofScientific n false 0 = _
  unfold Float32.ofScientific
  rw [dif_pos ⟨hlt, by decide⟩]
  rfl

theorem float32_ofNat_model {n : Nat} (hn : 0 < n) (hlt : n < 2 ^ 23) :
    (Float32.ofNat n).toModel =
      Float32.Model.pack (.finite .positive (n * 2 ^ (23 - n.log2)) ((n.log2 : Int) - 23)
        (Nat.mul_pos hn (Nat.pow_pos (by decide)))) := by
  have hu : n.toUInt64.toNat = n := by
    show (UInt64.ofNat n).toNat = n
    rw [UInt64.toNat_ofNat']; exact Nat.mod_eq_of_lt (by omega)
  obtain ⟨b1, b2, b3⟩ := intM_bounds32 hn (by omega : n < 2 ^ 24)
  rw [float32_ofNat_eq n hlt]
  show Float32.Model.pack (UnpackedFloat.mul Format.binary32 (Float32.Model.ofUInt64 n.toUInt64).unpack
    (Float32.ofBits 0x3F800000).toModel.unpack) = _
  rw [unpack_one32, unpack_ofUInt64_32 _ (by omega) (by omega)]
  simp only [hu]
  rw [mul_one_unpacked32 _ _ _ ((Nat.log2_eq_iff (by omega)).mpr ⟨b1, b2⟩) (by omega)]


/-- the binary32 pattern of the positive integer `n < 2^24`: exponent field `127 + log2 n`, fraction `n · 2^(23 − log2 n) − 2^23`. -/
def intPat32 (n : Nat) : Nat := (127 + n.log2) * 2 ^ 23 + (n * 2 ^ (23 - n.log2) - 2 ^ 23)

theorem pack_int_toNat32 (s : Sign) {n : Nat} (hn : 0 < n) (hlt : n < 2 ^ 24) :
    (pack Format.binary32 (.finite s (n * 2 ^ (23 - n.log2)) ((n.log2 : Int) - 23)
      (Nat.mul_pos hn (Nat.pow_pos (by decide))))).toNat = s.toBitVec.toNat * 2 ^ 31 + intPat32 n := by
  obtain ⟨b1, b2, b3⟩ := intM_bounds32 hn hlt
  have hb : ((n.log2 : Int) - 23 + ((127 : Nat) : Int) + ((23 : Nat) : Int)).toNat = 127 + n.log2 := by omega
  rw [pack_finite, bias32]
  show (if 2 ^ 8 ≤ ((n.log2 : Int) - 23 + ((127 : Nat) : Int) + ((23 : Nat) : Int)).toNat + 1 then _ else
    if (n * 2 ^ (23 - n.log2)).log2 + 1 = 24 then
      packComponents Format.binary32 s
        (BitVec.ofNat 8 ((n.log2 : Int) - 23 + ((127 : Nat) : Int) + ((23 : Nat) : Int)).toNat)
        (BitVec.ofNat 23 (n * 2 ^ (23 - n.log2)))
    else _).toNat = _
  rw [hb, if_neg (by omega), if_pos (by rw [(Nat.log2_eq_iff (by omega)).mpr ⟨b1, b2⟩]), toNat_packComponents,
    BitVec.toNat_ofNat, BitVec.toNat_ofNat]
  show s.toBitVec.toNat * 2 ^ (8 + 23) + (127 + n.log2) % 2 ^ 8 * 2 ^ 23 + n * 2 ^ (23 - n.log2) % 2 ^ 23 = _
  unfold intPat32
  generalize n * 2 ^ (23 - n.log2) = m at *
  generalize n.log2 = L at *
  omega

theorem float32_ofNat_bits {n : Nat} (hn : 0 < n) (hlt : n < 2 ^ 23) : (Float32.ofNat n).toBits.toNat = intPat32 n := by
  show (Float32.ofNat n).toModel.toBits.toNat = _
  rw [float32_ofNat_model hn hlt]
  show (pack Format.binary32 _).toNat = _
  rw [pack_int_toNat32 .positive hn (by omega)]
  show 0 * 2 ^ 31 + intPat32 n = intPat32 n
  omega

theorem float32_ofNat_zero_bits : (Float32.ofNat 0).toBits.toNat = 0 := by decide +kernel

theorem float32_neg_ofNat_bits {n : Nat} (hn : 0 < n) (hlt : n < 2 ^ 23) :
    (Float32.neg (Float32.ofNat n)).toBits.toNat = 2 ^ 31 + intPat32 n := by
  obtain ⟨b1, b2, b3⟩ := intM_bounds32 hn (by omega : n < 2 ^ 24)
  show (Float32.Model.pack (Float32.ofNat n).toModel.unpack.neg).toBits.toNat = _
  rw [float32_ofNat_model hn hlt]
  show (pack Format.binary32 (UnpackedFloat.unpack Format.binary32 (pack Format.binary32 _)).neg).toNat = _
  have h3 : 0 < ((n.log2 : Int) - 23) + ((127 : Nat) : Int) + ((23 : Nat) : Int) := by omega
  have h4 : ((n.log2 : Int) - 23) + ((127 : Nat) : Int) + ((23 : Nat) : Int) < ((255 : Nat) : Int) := by omega
  rw [unpack_pack_normal (spec := Format.binary32) (by decide) _ _ _ _ b1 b2 h3 h4]
  show (pack Format.binary32 (.finite .negative _ _ _)).toNat = _
  rw [pack_int_toNat32 .negative hn (by omega)]
  show 1 * 2 ^ 31 + intPat32 n = _
  omega

theorem intPat32_fields {n : Nat} (hn : 0 < n) (hlt : n < 2 ^ 24) :
    intPat32 n / 2 ^ 23 = 127 + n.log2 ∧ intPat32 n % 2 ^ 23 = n * 2 ^ (23 - n.log2) - 2 ^ 23 ∧
    0 < intPat32 n ∧ intPat32 n < 0x7F800000 := by
  obtain ⟨b1, b2, b3⟩ := intM_bounds32 hn hlt
  unfold intPat32
  generalize n * 2 ^ (23 - n.log2) = m at *
  generalize n.log2 = L at *
  omega

theorem intPattern_intPat32 {n : Nat} (hn : 0 < n) (hlt : n < 2 ^ 24) : FCL.IntPattern fmt32 (intPat32 n) n := by
  obtain ⟨b1, b2, b3⟩ := intM_bounds32 hn hlt
  obtain ⟨f1, f2, f3, f4⟩ := intPat32_fields hn hlt
  have e23 : fmt32.p - 1 = 23 := rfl
  have hd := FCL.decompose_norm fmt32 (intPat32 n)
  rw [e23, f1, f2, show fmt32.bias = 127 from by decide] at hd
  have hd' : decompose fmt32 (intPat32 n) = (n * 2 ^ (23 - n.log2), (n.log2 : Int) - 23) := by
    rw [hd (by omega), Prod.mk.injEq]
    constructor <;> omega
  refine ⟨hn, ?_, ?_⟩
  · rw [hd']; show (n.log2 : Int) - 23 ≤ 0; omega
  · rw [hd']
    show n * 2 ^ (23 - n.log2) = n * 2 ^ (-((n.log2 : Int) - 23)).toNat
    rw [show (-((n.log2 : Int) - 23)).toNat = 23 - n.log2 by omega]

theorem roundRat_int_eq32 {n : Nat} (hn : 0 < n) (hlt : n < 2 ^ 24) : roundRat fmt32 n 1 = intPat32 n := by
  obtain ⟨f1, f2, f3, f4⟩ := intPat32_fields hn hlt
  exact roundRat_eq_of_intPattern fmt32 (by decide) (intPat32 n) n f3
    (by show intPat32 n < 0x7F800000; exact f4) (intPattern_intPat32 hn hlt)

/-- **`Float32.ofInt z` has the bit pattern `intBits fmt32 z`** for every `|z| < 2^23`. -/
theorem float32_ofInt_bits (z : Int) (hz : z.natAbs < 2 ^ 23) : (Float32.ofInt z).toBits.toNat = FCL.intBits fmt32 z := by
  unfold FCL.intBits
  cases z with
  | ofNat n =>
    have hn : (Int.ofNat n).natAbs = n := rfl
    rw [hn] at hz ⊢
    rw [if_neg (show ¬ Int.ofNat n < 0 from Int.not_lt.mpr (Int.natCast_nonneg n))]
    show (Float32.ofNat n).toBits.toNat = _
    by_cases h0 : n = 0
    · subst h0; rw [float32_ofNat_zero_bits]; rfl
    · rw [float32_ofNat_bits (by omega) hz, roundRat_int_eq32 (by omega) (by omega)]
  | negSucc n =>
    have hn : (Int.negSucc n).natAbs = n + 1 := rfl
    rw [hn] at hz ⊢
    rw [if_pos (Int.negSucc_lt_zero n)]
    show (Float32.neg (Float32.ofNat (n + 1))).toBits.toNat = _
    rw [float32_neg_ofNat_bits (by omega) hz, roundRat_int_eq32 (by omega) (by omega)]
    rfl

end Rosu.FM

namespace Rosu.FCO
open Rosu Float.Model FMO RtObjects
open Float.Model.UnpackedFloat (Sign)

/-! ## the coordinate limit ±131072 on patterns: `f32` side (from `InCoord` to the pattern) -/

theorem key_coord32 : key (IeeeOrd.up (Scalar.ofInt maxCoordinate : Float32)) = (1, -6, 2 ^ 23) := by decide +kernel
theorem key_neg_coord32 : key (IeeeOrd.up (-(Scalar.ofInt maxCoordinate : Float32))) = (-1, 6, -(2 ^ 23)) := by decide +kernel
theorem nan_coord32 : Scalar.isNaN (Scalar.ofInt maxCoordinate : Float32) = false := by decide +kernel
theorem nan_neg_coord32 : Scalar.isNaN (-(Scalar.ofInt maxCoordinate : Float32)) = false := by decide +kernel

/-- a non-NaN binary32 pattern whose value is neither above `131072` nor below `-131072` has magnitude `≤ 0x48000000`. -/
theorem key_unpackNat_bound (n : Nat) (hnan : (FM.unpackNat 23 8 n).isNaN = false)
    (h1 : ¬ KLt (1, -6, 2 ^ 23) (key (FM.unpackNat 23 8 n)))
    (h2 : ¬ KLt (key (FM.unpackNat 23 8 n)) (-1, 6, -(2 ^ 23))) : n % 2 ^ 31 ≤ 0x48000000 := by
  unfold FM.unpackNat at *
  by_cases he : n / 2 ^ 23 % 2 ^ 8 = 2 ^ 8 - 1
  · rw [if_pos he] at hnan h1 h2
    by_cases hf : n % 2 ^ 23 = 0
    · rw [if_pos hf] at h1 h2
      by_cases ht : n / 2 ^ (23 + 8) = 0
      · simp [FM.signOf, ht, key, KLt] at h1
      · simp [FM.signOf, ht, key, KLt] at h2
    · rw [if_neg hf] at hnan; cases hnan
  · rw [if_neg he] at h1 h2
    by_cases h0 : n / 2 ^ 23 % 2 ^ 8 = 0
    · omega
    · rw [if_neg h0] at h1 h2
      by_cases ht : n / 2 ^ (23 + 8) = 0
      · simp [FM.signOf, ht, key, KLt] at h1
        omega
      · simp [FM.signOf, ht, key, KLt] at h2
        omega

/-- an `f32` within the coordinate limit has a magnitude pattern at most that of `131072.0`. -/
theorem inCoord_mag32 (a : Float32) (h : InCoord a) : a.toBits.toNat % 2 ^ 31 ≤ 0x48000000 := by
  obtain ⟨h1, h2, h3⟩ := h
  have hu : IeeeOrd.up a = FM.unpackNat 23 8 a.toBits.toNat := FM.float32_unpack a
  have hn : (FM.unpackNat 23 8 a.toBits.toNat).isNaN = false := by rw [← hu, ← IeeeOrd.isNaN_eq]; exact h3
  refine key_unpackNat_bound _ hn ?_ ?_
  · rcases (lt_false_iff _ _).mp h2 with h | h | h
    · rw [nan_coord32] at h; cases h
    · rw [h3] at h; cases h
    · rw [key_coord32, hu] at h; exact h
  · rcases (lt_false_iff _ _).mp h1 with h | h | h
    · rw [h3] at h; cases h
    · rw [nan_neg_coord32] at h; cases h
    · rw [key_neg_coord32, hu] at h; exact h

theorem div_pow_le {m k : Nat} (hm : m < 2 ^ 24) (hk : 7 ≤ k) : m / 2 ^ k < 2 ^ 17 := by
  apply Nat.div_lt_of_lt_mul
  calc m < 2 ^ 24 := hm
    _ = 2 ^ 7 * 2 ^ 17 := by decide
    _ ≤ 2 ^ k * 2 ^ 17 := Nat.mul_le_mul_right _ (Nat.pow_le_pow_right (by decide) hk)

/-- `x as i32` of such an `f32` is within ±131072. -/
theorem toI32Bits_coord32 (n : Nat) (h : n % 2 ^ 31 ≤ 0x48000000) :
    -131072 ≤ toI32Bits fmt32 n ∧ toI32Bits fmt32 n ≤ 131072 := by
  have hs : fmt32.signBit = 2 ^ 31 := by decide
  have hi : fmt32.infBits = 0x7F800000 := by decide
  unfold toI32Bits
  simp only [hs, hi]
  rw [if_neg (by omega), if_neg (by omega)]
  by_cases h0 : n % 2 ^ 31 = 0
  · rw [if_pos h0]; omega
  rw [if_neg h0]
  have hdec : decompose fmt32 (n % 2 ^ 31) =
      (if n % 2 ^ 31 / 2 ^ 23 = 0 then (n % 2 ^ 31 % 2 ^ 23, fmt32.eminSub)
       else (n % 2 ^ 31 % 2 ^ 23 + 2 ^ 23, ((n % 2 ^ 31 / 2 ^ 23 : Nat) : Int) - 127 - 23)) := by
    unfold decompose
    rfl
  have hemin : fmt32.eminSub = -149 := by decide
  rw [hdec]
  by_cases hE : n % 2 ^ 31 / 2 ^ 23 = 0
  · rw [if_pos hE]
    simp only [hemin]
    have : n % 2 ^ 31 % 2 ^ 23 / 2 ^ (-(-149 : Int)).toNat < 2 ^ 17 := div_pow_le (by omega) (by decide)
    simp only [show ¬ ((-149 : Int) ≥ 31) by decide, show ¬ ((-149 : Int) ≥ 0) by decide, if_false]
    generalize n % 2 ^ 31 % 2 ^ 23 / 2 ^ (-(-149 : Int)).toNat = q at this ⊢
    split <;> split <;> omega
  · rw [if_neg hE]
    generalize hE' : n % 2 ^ 31 / 2 ^ 23 = E at *
    generalize hF' : n % 2 ^ 31 % 2 ^ 23 = Fr at *
    have hEle : E ≤ 144 := by omega
    have hFr : Fr < 2 ^ 23 := by omega
    have h144 : E = 144 → Fr = 0 := by omega
    simp only [show ¬ (((E : Nat) : Int) - 127 - 23 ≥ 31) by omega, show ¬ (((E : Nat) : Int) - 127 - 23 ≥ 0) by omega,
      if_false]
    have hk : (-(((E : Nat) : Int) - 127 - 23)).toNat = 150 - E := by omega
    rw [hk]
    have : (Fr + 2 ^ 23) / 2 ^ (150 - E) ≤ 2 ^ 17 := by
      by_cases h4 : E = 144
      · rw [h4, h144 h4]; decide
      · exact Nat.le_of_lt (div_pow_le (by omega) (by omega))
    generalize (Fr + 2 ^ 23) / 2 ^ (150 - E) = q at this ⊢
    split <;> split <;> omega

/-! ## `x as i32` of an integer pattern is the integer -/

open FCL


theorem toI32Bits_mag (f : FloatFmt) (r n : Nat) (hr0 : 0 < r) (hri : r < f.infBits) (hpat : IntPattern f r n)
    (hn : n < 2 ^ 31) (neg : Prop) [Decidable neg] :
    (if r > f.infBits then (0 : Int)
      else if r = f.infBits then (if neg then -2147483648 else 2147483647)
      else if r = 0 then 0
      else
        let (m, e) := decompose f r
        let t : Nat := if e ≥ 31 then 2147483648 else if e ≥ 0 then m * 2 ^ e.toNat else m / 2 ^ (-e).toNat
        if neg then (if t ≥ 2147483648 then -2147483648 else -(t : Int))
        else (if t ≥ 2147483648 then 2147483647 else (t : Int))) = if neg then -(n : Int) else (n : Int) := by
  rw [if_neg (by omega), if_neg (by omega), if_neg (by omega)]
  obtain ⟨_, hexp, hmant⟩ := hpat
  generalize decompose f r = d at *
  obtain ⟨m, e⟩ := d
  simp only at hexp hmant ⊢
  have ht : (if e ≥ 31 then 2147483648 else if e ≥ 0 then m * 2 ^ e.toNat else m / 2 ^ (-e).toNat) = n := by
    rw [if_neg (by omega)]
    by_cases h0 : e ≥ 0
    · rw [if_pos h0]
      have : e = 0 := by omega
      subst this
      rw [hmant]; simp
    · rw [if_neg h0, hmant, Nat.mul_div_cancel _ (Nat.pow_pos (by decide))]
  rw [ht]
  split <;> split <;> omega

theorem toI32Bits_intBits (f : FloatFmt) (hp : 2 ≤ f.p) (hpb : f.p ≤ 2 ^ (f.ebits - 1) - 1) (he : 1 ≤ f.ebits)
    (z : Int) (hz : z.natAbs < 2 ^ f.p) (hz31 : z.natAbs < 2 ^ 31) : toI32Bits f (intBits f z) = z := by
  have hsg := infBits_lt_signBit f (by omega)
  by_cases h0 : z = 0
  · subst h0
    have hr : roundRat f 0 1 = 0 := by unfold roundRat; simp
    have hinf : 0 < f.infBits := by
      unfold FloatFmt.infBits
      have : 2 ^ 1 ≤ 2 ^ f.ebits := Nat.pow_le_pow_right (by decide) he
      exact Nat.mul_pos (by omega) (Nat.pow_pos (by decide))
    unfold intBits toI32Bits
    simp only [Int.natAbs_zero, hr, Int.lt_irrefl, if_false, Nat.zero_mod]
    rw [if_neg (by omega), if_neg (by omega), if_pos trivial]
  · obtain ⟨r0, ri, hpat⟩ := roundRat_int f hp hpb he z.natAbs (by omega) hz
    unfold intBits toI32Bits
    by_cases hneg : z < 0
    · rw [if_pos hneg]
      have h1 : (f.signBit + roundRat f z.natAbs 1) % f.signBit = roundRat f z.natAbs 1 := by
        rw [Nat.add_mod_left]; exact Nat.mod_eq_of_lt (by omega)
      have h2 : (f.signBit + roundRat f z.natAbs 1) / f.signBit % 2 = 1 := by
        rw [Nat.add_div_left _ (by omega), Nat.div_eq_of_lt (by omega)]
      simp only [h1]
      rw [toI32Bits_mag f _ _ r0 ri hpat hz31, if_pos h2]
      omega
    · rw [if_neg hneg]
      have h1 : roundRat f z.natAbs 1 % f.signBit = roundRat f z.natAbs 1 := Nat.mod_eq_of_lt (by omega)
      have h2 : ¬ (roundRat f z.natAbs 1 / f.signBit % 2 = 1) := by
        rw [Nat.div_eq_of_lt (by omega)]; decide
      simp only [h1]
      rw [toI32Bits_mag f _ _ r0 ri hpat hz31, if_neg h2]
      omega



/-! ## the coordinate limit on patterns: `f64` side (from the pattern to `InCoord`) -/

theorem key_coord64 : key (IeeeOrd.up (Scalar.ofInt maxCoordinate : Float)) = (1, -35, 2 ^ 52) := by decide +kernel
theorem key_neg_coord64 : key (IeeeOrd.up (-(Scalar.ofInt maxCoordinate : Float))) = (-1, 35, -(2 ^ 52)) := by decide +kernel

theorem unpackNat_of_mag64 (n : Nat) (h : n % 2 ^ 63 ≤ 0x4100000000000000) :
    (FM.unpackNat 52 11 n).isNaN = false ∧ ¬ KLt (1, -35, 2 ^ 52) (key (FM.unpackNat 52 11 n)) ∧
    ¬ KLt (key (FM.unpackNat 52 11 n)) (-1, 35, -(2 ^ 52)) := by
  unfold FM.unpackNat
  have he : ¬ (n / 2 ^ 52 % 2 ^ 11 = 2 ^ 11 - 1) := by omega
  rw [if_neg he]
  by_cases h0 : n / 2 ^ 52 % 2 ^ 11 = 0
  · rw [if_pos h0]
    by_cases hf : n % 2 ^ 52 = 0
    · rw [dif_pos hf]; simp [key, KLt, UnpackedFloat.isNaN]
    · rw [dif_neg hf]
      by_cases ht : n / 2 ^ (52 + 11) = 0
      · simp [FM.signOf, ht, key, KLt, UnpackedFloat.isNaN, h0]
      · simp [FM.signOf, ht, key, KLt, UnpackedFloat.isNaN, h0]
  · rw [if_neg h0]
    by_cases ht : n / 2 ^ (52 + 11) = 0
    · simp [FM.signOf, ht, key, KLt, UnpackedFloat.isNaN]
      omega
    · simp [FM.signOf, ht, key, KLt, UnpackedFloat.isNaN]
      omega

/-- an `f64` whose magnitude pattern is at most that of `131072.0` is within the coordinate limit. -/
theorem inCoord_of_mag64 (y : Float) (h : y.toBits.toNat % 2 ^ 63 ≤ 0x4100000000000000) : InCoord y := by
  have hu : IeeeOrd.up y = FM.unpackNat 52 11 y.toBits.toNat := FM.float_unpack y
  obtain ⟨h1, h2, h3⟩ := unpackNat_of_mag64 _ h
  have hn : Scalar.isNaN y = false := by rw [IeeeOrd.isNaN_eq, hu]; exact h1
  refine ⟨(lt_false_iff _ _).mpr (Or.inr (Or.inr ?_)), (lt_false_iff _ _).mpr (Or.inr (Or.inr ?_)), hn⟩
  · rw [key_neg_coord64, hu]; exact h3
  · rw [key_coord64, hu]; exact h2

theorem intPat_arith (L m : Nat) (hL : L ≤ 17) (h17 : L = 17 → m = 2 ^ 52) (b1 : 2 ^ 52 ≤ m) (b2 : m < 2 ^ 53) :
    (1023 + L) * 2 ^ 52 + (m - 2 ^ 52) ≤ 0x4100000000000000 := by
  omega

theorem intPat_le_coord {n : Nat} (hn : 0 < n) (hle : n ≤ 131072) : FM.intPat n ≤ 0x4100000000000000 := by
  obtain ⟨b1, b2, b3⟩ := FM.intM_bounds hn (by omega : n < 2 ^ 53)
  have hL : n.log2 < 18 := (Nat.log2_lt (by omega)).mpr (by omega)
  refine intPat_arith _ _ (by omega) (fun h => ?_) b1 b2
  rw [h] at b1 ⊢
  have e : (52 : Nat) - 17 = 35 := rfl
  rw [e] at b1 ⊢
  omega

/-- the pattern of an integer within ±131072 has magnitude at most that of `131072.0`. -/
theorem intBits_mag64 (z : Int) (hz : z.natAbs ≤ 131072) : intBits fmt64 z % 2 ^ 63 ≤ 0x4100000000000000 := by
  unfold intBits
  have hs : fmt64.signBit = 2 ^ 63 := by decide
  by_cases h0 : z.natAbs = 0
  · have hr : roundRat fmt64 0 1 = 0 := by unfold roundRat; simp
    rw [h0, hr, hs]
    split <;> omega
  · rw [FM.roundRat_int_eq (by omega) (by omega), hs]
    have := intPat_le_coord (by omega : 0 < z.natAbs) hz
    split <;> omega

/-! ## the text does not start with a letter; the law -/

theorem not_alpha_of_isDig {c : Char} (h : isDig c = true) :
    (('a' ≤ c && c ≤ 'z') || ('A' ≤ c && c ≤ 'Z')) = false := by
  rw [isDig_iff] at h
  have h1 : ¬ ('a' ≤ c) := by
    intro hle
    have : 'a'.toNat ≤ c.toNat := hle
    have : 'a'.toNat = 97 := rfl
    omega
  have h2 : ¬ ('A' ≤ c) := by
    intro hle
    have : 'A'.toNat ≤ c.toNat := hle
    have : 'A'.toNat = 65 := rfl
    omega
  simp [h1, h2]

/-- the text of a finite pattern starts with `-` or a digit, never with a letter. -/
theorem firstAlpha_printBits (f : FloatFmt) (b : Nat) (h : b % f.signBit < f.infBits) :
    firstIsAsciiAlpha (printBits f b) = some false := by
  have hbody : firstIsAsciiAlpha (body f (b % f.signBit)) = some false := by
    unfold body
    rw [if_neg (by simp; omega)]
    by_cases h0 : b % f.signBit = 0
    · rw [if_pos (by simp [h0])]; decide
    · rw [if_neg (by simp [h0])]
      obtain ⟨c, r, hcr, hc⟩ := renderDecimal_head (shortestDigits f (b % f.signBit)).1 (shortestDigits f (b % f.signBit)).2
      rw [hcr]
      simp only [firstIsAsciiAlpha, Option.some.injEq]
      exact not_alpha_of_isDig hc
  rw [printBits_eq, if_neg (by omega)]
  split
  · rfl
  · exact hbody

/-- **`CoordLaws` for the driver's instances.** -/
theorem coordLaws_float : SliderRt.CoordLaws Float Float32 (fun x : Float32 => x.isNaN = false) where
  cross := by
    intro a _ hl hi
    have hmag := inCoord_mag32 a hl
    obtain ⟨hz1, hz2⟩ := toI32Bits_coord32 a.toBits.toNat hmag
    have hzdef : (Scalar.toI32 a : Int) = toI32Bits fmt32 a.toBits.toNat := rfl
    generalize hz : (Scalar.toI32 a : Int) = z at *
    rw [← hzdef] at hz1 hz2
    have hnat : z.natAbs ≤ 131072 := by omega
    -- the `f32` pattern of `a` and its text
    have hbits : a.toBits.toNat = intBits fmt32 z := by
      rw [← FM.float32_ofInt_bits z (by omega)]
      exact congrArg (fun x : Float32 => x.toBits.toNat) hi.symm
    have hprint : Scalar.print a = intDigits z := by
      show printBits fmt32 a.toBits.toNat = _
      rw [hbits]
      exact printBits_intBits fmt32 (by decide) (by decide) (by decide) (by decide) z
        (by show z.natAbs < 2 ^ 24; omega)
    -- the `f64` value read from it
    have hb : (Float.ofInt z).toBits.toNat = intBits fmt64 z := FM.float_ofInt_bits z (by omega)
    have hm64 := intBits_mag64 z hnat
    refine ⟨Float.ofInt z, ?_, inCoord_of_mag64 _ (by rw [hb]; exact hm64), ?_⟩
    · rw [hprint, ← printBits_intBits_f64 z (by omega)]
      show (parseBits fmt64 (printBits fmt64 (intBits fmt64 z))).map (fun b => Float.ofBits (UInt64.ofNat b)) = _
      rw [parseBits_printBits_f64 _ (by omega) (by rw [← hb]; exact (Float.ofInt z).toBits.toNat_lt)]
      show some (Float.ofBits (UInt64.ofNat (intBits fmt64 z))) = _
      rw [← hb, UInt64.ofNat_toNat, FM.float_ofBits_toBits]
    · show toI32Bits fmt64 (Float.ofInt z).toBits.toNat = z
      rw [hb]
      exact toI32Bits_intBits fmt64 (by decide) (by decide) (by decide) z (by show z.natAbs < 2 ^ 53; omega) (by omega)
  head_not_letter := by
    intro a _ hl
    have hmag := inCoord_mag32 a hl
    show firstIsAsciiAlpha (printBits fmt32 a.toBits.toNat) = some false
    exact firstAlpha_printBits fmt32 _ (by
      show a.toBits.toNat % 2 ^ 31 < 0x7F800000
      omega)

/-! ### non-vacuity: concrete coordinates, evaluated by the kernel -/

/-- the premises of `cross` hold of `-131072`, `0` and `256.0f32` (not NaN, within the limit, integral) … -/
example : ∀ a ∈ [(-131072 : Float32), 0, 256], a.isNaN = false ∧ InCoord a ∧ Scalar.ofInt (Scalar.toI32 a) = a := by
  decide +kernel

/-- … and the conclusion as the kernel computes it: `f64::from_str(&(256f32).to_string())` is `256.0`, and the boundary. -/
example : Scalar.parse (Scalar.print (256 : Float32)) = some (256 : Float) ∧
    Scalar.parse (Scalar.print (-131072 : Float32)) = some (-131072 : Float) ∧
    Scalar.toI32 (-131072 : Float) = -131072 := by decide +kernel

/-- `-0.0f32` and `0.5f32` are NOT integral coordinates (`x as i32 as f32 ≠ x`), `131073` is outside the limit. -/
example : Scalar.ofInt (Scalar.toI32 (-(0 : Float32))) ≠ -(0 : Float32) ∧
    Scalar.ofInt (Scalar.toI32 (0.5 : Float32)) ≠ (0.5 : Float32) ∧ ¬ InCoord (131073 : Float32) := by decide +kernel

end Rosu.FCO
