/-
  Lemmas/FloatCodecLawsSpec.lean — **`roundRat_spec`** (core Lean only): for every positive fraction `num/den`,
  `roundRat f num den` is the correctly rounded pattern — round to nearest, ties to the even mantissa:
    * `0` exactly when `num/den ≤ 2^(eminSub-1)` was found (half the smallest subnormal; the tie goes to 0), or
    * a finite positive pattern `b` with `num/den` inside the rounding interval of `b` (`InIv`: between the midpoints
      to the two neighbours — the lower gap is half as wide at a power of two — midpoints included iff `b`'s mantissa
      is even), or
    * `infBits`, with `num/den ≥ (2^p − 1/2)·2^emaxE` (the midpoint between the largest finite value and `2^(emax+1)`).
  Together with `roundRat_of_inInterval` (Lemmas/FloatCodecLawsInterval.lean) this characterises `roundRat` on the
  finite positive patterns: `roundRat f num den = b ↔ InIv f b num den` (`roundRat_eq_iff`).
-/
import RosuModel.Lemmas.FloatCodecLawsRt
namespace Rosu
namespace FCL

/-- exponent (of the last mantissa bit) of the largest finite binade. -/
def emaxE (f : FloatFmt) : Int := ((2 ^ f.ebits - 2 : Nat) : Int) - f.bias - ((f.p - 1 : Nat) : Int)

/-- packing a canonical mantissa / exponent pair: overflow to `infBits`, or a finite positive pattern that
`decompose` maps back to the pair. -/
theorem pack_canon (f : FloatFmt) (hp : 1 ≤ f.p) (he2 : 2 ≤ f.ebits) (q : Nat) (e : Int) (hq0 : 0 < q)
    (hq : q < 2 ^ f.p) (he : f.eminSub ≤ e) (hn : e = f.eminSub ∨ 2 ^ (f.p - 1) ≤ q) :
    (pack f q e = f.infBits ∧ 2 ^ (f.p - 1) ≤ q ∧ emaxE f + 1 ≤ e) ∨
    (0 < pack f q e ∧ pack f q e < f.infBits ∧ decompose f (pack f q e) = (q, e) ∧
      (pack f q e / 2 ^ (f.p - 1) > 1 ↔ (2 ^ (f.p - 1) ≤ q ∧ f.eminSub < e))) := by
  have hP : 0 < 2 ^ (f.p - 1) := Nat.pow_pos (by decide)
  have h2 := two_pow_pred hp
  have hE : 4 ≤ 2 ^ f.ebits := by
    calc 4 = 2 ^ 2 := rfl
      _ ≤ 2 ^ f.ebits := Nat.pow_le_pow_right (by decide) he2
  have hcast : ((2 ^ f.ebits : Nat) : Int) = (2 : Int) ^ f.ebits := by push_cast; rfl
  unfold pack
  by_cases hsub : q < 2 ^ (f.p - 1)
  · right
    rw [if_pos hsub]
    have he' : e = f.eminSub := by
      rcases hn with h | h
      · exact h
      · omega
    have hdiv : q / 2 ^ (f.p - 1) = 0 := Nat.div_eq_of_lt hsub
    refine ⟨hq0, ?_, ?_, ?_⟩
    · unfold FloatFmt.infBits
      have : 1 * 2 ^ (f.p - 1) ≤ (2 ^ f.ebits - 1) * 2 ^ (f.p - 1) := Nat.mul_le_mul_right _ (by omega)
      omega
    · rw [(decompose_sub f q hdiv).1, he']
    · rw [hdiv]; constructor <;> intro h <;> omega
  · rw [if_neg hsub]
    simp only []
    unfold FloatFmt.eminSub at he
    unfold emaxE
    by_cases hov : e + ((f.p - 1 : Nat) : Int) + f.bias ≥ 2 ^ f.ebits - 1
    · left
      rw [if_pos hov]
      exact ⟨rfl, by omega, by omega⟩
    · right
      rw [if_neg hov]
      obtain ⟨x, hx⟩ : ∃ x : Nat, e + ((f.p - 1 : Nat) : Int) + f.bias = x := ⟨(e + ((f.p - 1 : Nat) : Int) + f.bias).toNat, by omega⟩
      rw [hx, Int.toNat_natCast]
      rw [hx] at hov
      have hx1 : 1 ≤ x := by omega
      have hx2 : x + 1 ≤ 2 ^ f.ebits - 1 := by omega
      have hdiv : (x * 2 ^ (f.p - 1) + (q - 2 ^ (f.p - 1))) / 2 ^ (f.p - 1) = x := by
        rw [Nat.mul_comm, Nat.mul_add_div hP, Nat.div_eq_of_lt (by omega), Nat.add_zero]
      have hmod : (x * 2 ^ (f.p - 1) + (q - 2 ^ (f.p - 1))) % 2 ^ (f.p - 1) = q - 2 ^ (f.p - 1) := by
        rw [Nat.mul_comm, Nat.mul_add_mod, Nat.mod_eq_of_lt (by omega)]
      refine ⟨?_, ?_, ?_, ?_⟩
      · have : 1 * 2 ^ (f.p - 1) ≤ x * 2 ^ (f.p - 1) := Nat.mul_le_mul_right _ hx1
        omega
      · unfold FloatFmt.infBits
        have : (x + 1) * 2 ^ (f.p - 1) ≤ (2 ^ f.ebits - 1) * 2 ^ (f.p - 1) := Nat.mul_le_mul_right _ hx2
        rw [Nat.add_mul, Nat.one_mul] at this
        omega
      · rw [decompose_norm f _ (by rw [hdiv]; omega), hdiv, hmod, Nat.sub_add_cancel (by omega)]
        congr 1
        omega
      · rw [hdiv]
        unfold FloatFmt.eminSub
        constructor <;> intro h
        · exact ⟨by omega, by omega⟩
        · omega

theorem InIv_of {f : FloatFmt} {b num den m : Nat} {e : Int} (hdec : decompose f b = (m, e))
    (h : if m % 2 = 0 then
        LeS (if m = 2 ^ (f.p - 1) ∧ b / 2 ^ (f.p - 1) > 1 then 4 * m - 1 else 4 * m - 2) (e - 2) num den ∧
          GeS num den (4 * m + 2) (e - 2)
      else
        GtS (if m = 2 ^ (f.p - 1) ∧ b / 2 ^ (f.p - 1) > 1 then 4 * m - 1 else 4 * m - 2) (e - 2) num den ∧
          LtS num den (4 * m + 2) (e - 2)) : InIv f b num den := by
  unfold InIv; rw [hdec]; exact h

/-- the result of rounding down to a canonical `(q, e3)`, `q > 0`. -/
theorem spec_down (f : FloatFmt) (hp : 2 ≤ f.p) (he2 : 2 ≤ f.ebits) (num den : Nat) (hden : 0 < den) (q : Nat) (e3 : Int)
    (hq0 : 0 < q) (hq : q < 2 ^ f.p) (he : f.eminSub ≤ e3) (hn : e3 = f.eminSub ∨ 2 ^ (f.p - 1) ≤ q)
    (h1 : LeS q e3 num den) (h2 : GeS (2 * num) den (2 * q + 1) e3)
    (h3 : q % 2 = 0 ∨ LtS (2 * num) den (2 * q + 1) e3) :
    (0 < pack f q e3 ∧ pack f q e3 < f.infBits ∧ InIv f (pack f q e3) num den) ∨
    (pack f q e3 = f.infBits ∧ LeS (2 ^ (f.p + 1) - 1) (emaxE f - 1) num den) := by
  have hY : 0 < den * pN 2 (e3 - 2) := Nat.mul_pos hden (pN_pos (by decide) _)
  have he2' : e3 = (e3 - 2) + ((2 : Nat) : Int) := by omega
  rcases pack_canon f (by omega) he2 q e3 hq0 hq he hn with ⟨hinf, hqn, hov⟩ | ⟨hb0, hbi, hdec, hbnd⟩
  · right
    refine ⟨hinf, ?_⟩
    obtain ⟨j, hj, hje⟩ : ∃ j : Nat, 2 ≤ j ∧ e3 = (emaxE f - 1) + j := ⟨(e3 - (emaxE f - 1)).toNat, by omega, by omega⟩
    have := (LeS_at j hje num den).1 (LeS_mono h1 hqn)
    refine LeS_mono this ?_
    obtain ⟨i, rfl⟩ : ∃ i, j = i + 2 := ⟨j - 2, by omega⟩
    have h5 : 2 ^ (f.p - 1) * 2 ^ (i + 2) = 2 ^ (f.p + 1) * 2 ^ i := by
      rw [← Nat.pow_add, ← Nat.pow_add]; congr 1; omega
    rw [h5]
    have : 2 ^ (f.p + 1) * 1 ≤ 2 ^ (f.p + 1) * 2 ^ i := Nat.mul_le_mul_left _ (Nat.pow_pos (by decide))
    omega
  · left
    refine ⟨hb0, hbi, InIv_of hdec ?_⟩
    have a1 := (LeS_at 2 he2' num den).1 h1
    have a2 := (GeS_at 2 he2' (2 * num) den).1 h2
    have a3 : q % 2 = 0 ∨ LtS (2 * num) den ((2 * q + 1) * 2 ^ 2) (e3 - 2) := by
      rcases h3 with h | h
      · exact Or.inl h
      · exact Or.inr ((LtS_at 2 he2' (2 * num) den).1 h)
    unfold LeS at a1
    unfold GeS at a2
    unfold LtS at a3
    unfold LeS GeS GtS LtS
    rw [Nat.mul_assoc 2 num] at a2 a3
    generalize den * pN 2 (e3 - 2) = Y at *
    generalize num * pD 2 (e3 - 2) = X at *
    obtain ⟨q', rfl⟩ : ∃ q', q = q' + 1 := ⟨q - 1, by omega⟩
    have hlo1 : 4 * (q' + 1) - 1 = 4 * q' + 3 := by omega
    have hlo2 : 4 * (q' + 1) - 2 = 4 * q' + 2 := by omega
    rw [hlo1, hlo2]
    split <;> split <;> grind

theorem overflow_of (f : FloatFmt) (hp : 1 ≤ f.p) {num den q : Nat} {e3 : Int} (hq : 2 ^ (f.p - 1) ≤ q)
    (h1 : LeS q e3 num den) (hov : emaxE f + 1 ≤ e3) : LeS (2 ^ (f.p + 1) - 1) (emaxE f - 1) num den := by
  obtain ⟨j, hj, hje⟩ : ∃ j : Nat, 2 ≤ j ∧ e3 = (emaxE f - 1) + j := ⟨(e3 - (emaxE f - 1)).toNat, by omega, by omega⟩
  have := (LeS_at j hje num den).1 (LeS_mono h1 hq)
  refine LeS_mono this ?_
  obtain ⟨i, rfl⟩ : ∃ i, j = i + 2 := ⟨j - 2, by omega⟩
  have h5 : 2 ^ (f.p - 1) * 2 ^ (i + 2) = 2 ^ (f.p + 1) * 2 ^ i := by
    rw [← Nat.pow_add, ← Nat.pow_add]; congr 1; omega
  rw [h5]
  have : 2 ^ (f.p + 1) * 1 ≤ 2 ^ (f.p + 1) * 2 ^ i := Nat.mul_le_mul_left _ (Nat.pow_pos (by decide))
  omega

/-- the result of rounding up from a canonical truncation `(q, e3)`. -/
theorem spec_up (f : FloatFmt) (hp : 2 ≤ f.p) (he2 : 2 ≤ f.ebits) (num den : Nat) (q : Nat) (e3 : Int)
    (hq : q < 2 ^ f.p) (he : f.eminSub ≤ e3) (hn : e3 = f.eminSub ∨ 2 ^ (f.p - 1) ≤ q)
    (h1 : LeS (2 * q + 1) e3 (2 * num) den) (h2 : LtS num den (q + 1) e3)
    (h3 : q % 2 = 1 ∨ GtS (2 * q + 1) e3 (2 * num) den) :
    let b := if q + 1 = 2 ^ f.p then pack f (2 ^ (f.p - 1)) (e3 + 1) else pack f (q + 1) e3
    (0 < b ∧ b < f.infBits ∧ InIv f b num den) ∨ (b = f.infBits ∧ LeS (2 ^ (f.p + 1) - 1) (emaxE f - 1) num den) := by
  intro b
  have hp1 : 1 ≤ f.p := by omega
  have h2p := two_pow_pred hp1
  have hqle : LeS q e3 num den := by
    unfold LeS at h1 ⊢
    rw [Nat.mul_assoc 2 num] at h1
    have : (2 * q + 1) * (den * pN 2 e3) = 2 * (q * (den * pN 2 e3)) + den * pN 2 e3 := by
      rw [Nat.add_mul, Nat.mul_assoc, Nat.one_mul]
    omega
  by_cases htop : q + 1 = 2 ^ f.p
  · -- carry into the next binade
    have hb : b = pack f (2 ^ (f.p - 1)) (e3 + 1) := if_pos htop
    rw [hb]
    have he1 : e3 = (e3 - 1) + ((1 : Nat) : Int) := by omega
    rcases pack_canon f hp1 he2 (2 ^ (f.p - 1)) (e3 + 1) (Nat.pow_pos (by decide)) (by omega) (by omega)
      (Or.inr (Nat.le_refl _)) with ⟨hinf, _, hov⟩ | ⟨hb0, hbi, hdec, hbnd⟩
    · right
      refine ⟨hinf, ?_⟩
      obtain ⟨j, hj, hje⟩ : ∃ j : Nat, 1 ≤ j ∧ e3 = (emaxE f - 1) + j := ⟨(e3 - (emaxE f - 1)).toNat, by omega, by omega⟩
      have a := (LeS_at j hje (2 * num) den).1 h1
      have hc : 2 * q + 1 = 2 ^ (f.p + 1) - 1 := by rw [Nat.pow_succ]; omega
      rw [hc] at a
      have a' : LeS ((2 ^ (f.p + 1) - 1) * 2) (emaxE f - 1) (2 * num) den := by
        refine LeS_mono a (Nat.mul_le_mul_left _ ?_)
        calc 2 = 2 ^ 1 := rfl
          _ ≤ 2 ^ j := Nat.pow_le_pow_right (by decide) hj
      unfold LeS at a' ⊢
      rw [Nat.mul_assoc 2 num, Nat.mul_comm _ 2, Nat.mul_assoc 2] at a'
      omega
    · left
      refine ⟨hb0, hbi, InIv_of hdec ?_⟩
      have hbt : pack f (2 ^ (f.p - 1)) (e3 + 1) / 2 ^ (f.p - 1) > 1 := hbnd.2 ⟨Nat.le_refl _, by omega⟩
      have hev : 2 ^ (f.p - 1) % 2 = 0 := by
        obtain ⟨k, hk⟩ : ∃ k, f.p - 1 = k + 1 := ⟨f.p - 2, by omega⟩
        rw [hk, Nat.pow_succ]; omega
      rw [if_pos hev, if_pos ⟨rfl, hbt⟩, show e3 + 1 - 2 = e3 - 1 by omega]
      have a1 := (LeS_at 1 he1 (2 * num) den).1 h1
      have a2 := (LtS_at 1 he1 num den).1 h2
      unfold LeS at a1
      unfold LtS at a2
      unfold LeS GeS
      rw [Nat.mul_assoc 2 num] at a1
      generalize den * pN 2 (e3 - 1) = Y at *
      generalize num * pD 2 (e3 - 1) = X at *
      generalize hM : 2 ^ (f.p - 1) = M at *
      have hq' : q + 1 = 2 * M := by omega
      obtain ⟨M', rfl⟩ : ∃ M', M = M' + 1 := ⟨M - 1, by omega⟩
      have : q = 2 * M' + 1 := by omega
      subst this
      have hlo : 4 * (M' + 1) - 1 = 4 * M' + 3 := by omega
      rw [hlo]
      constructor <;> grind
  · have hb : b = pack f (q + 1) e3 := if_neg htop
    rw [hb]
    have he2' : e3 = (e3 - 2) + ((2 : Nat) : Int) := by omega
    have hn' : e3 = f.eminSub ∨ 2 ^ (f.p - 1) ≤ q + 1 := by
      rcases hn with h | h
      · exact Or.inl h
      · exact Or.inr (by omega)
    rcases pack_canon f hp1 he2 (q + 1) e3 (by omega) (by omega) he hn' with ⟨hinf, _, hov⟩ | ⟨hb0, hbi, hdec, hbnd⟩
    · right
      refine ⟨hinf, overflow_of f hp1 ?_ hqle hov⟩
      rcases hn with h | h
      · have : f.eminSub < emaxE f + 1 := by
          unfold emaxE FloatFmt.eminSub
          have : 4 ≤ 2 ^ f.ebits := by
            calc 4 = 2 ^ 2 := rfl
              _ ≤ 2 ^ f.ebits := Nat.pow_le_pow_right (by decide) he2
          omega
        omega
      · exact h
    · left
      refine ⟨hb0, hbi, InIv_of hdec ?_⟩
      have hnb : ¬ (q + 1 = 2 ^ (f.p - 1) ∧ pack f (q + 1) e3 / 2 ^ (f.p - 1) > 1) := by
        intro ⟨hm, hgt⟩
        have := (hbnd.1 hgt).2
        rcases hn with h | h <;> omega
      rw [if_neg hnb]
      have a1 := (LeS_at 2 he2' (2 * num) den).1 h1
      have a2 := (LtS_at 2 he2' num den).1 h2
      have a3 : q % 2 = 1 ∨ GtS ((2 * q + 1) * 2 ^ 2) (e3 - 2) (2 * num) den := by
        rcases h3 with h | h
        · exact Or.inl h
        · exact Or.inr ((GtS_at 2 he2' (2 * num) den).1 h)
      unfold LeS at a1
      unfold LtS at a2
      unfold GtS at a3
      unfold LeS GeS GtS LtS
      rw [Nat.mul_assoc 2 num] at a1 a3
      generalize den * pN 2 (e3 - 2) = Y at *
      generalize num * pD 2 (e3 - 2) = X at *
      have hlo2 : 4 * (q + 1) - 2 = 4 * q + 2 := by omega
      rw [hlo2]
      split <;> grind

/-- **`roundRat_spec`**: correct rounding (nearest, ties to even; underflow to 0, overflow to `infBits`). -/
theorem roundRat_spec (f : FloatFmt) (hp : 2 ≤ f.p) (he2 : 2 ≤ f.ebits) (num den : Nat) (hnum : 0 < num) (hden : 0 < den) :
    (roundRat f num den = 0 ∧ GeS num den 1 (f.eminSub - 1)) ∨
    (0 < roundRat f num den ∧ roundRat f num den < f.infBits ∧ InIv f (roundRat f num den) num den) ∨
    (roundRat f num den = f.infBits ∧ LeS (2 ^ (f.p + 1) - 1) (emaxE f - 1) num den) := by
  have hp1 : 1 ≤ f.p := by omega
  obtain ⟨he3, hlt, hnorm⟩ := chooseE_canon f hp1 num den hnum hden
  rw [roundRat_eq f num den (by omega), finish_eq]
  generalize chooseE f num den = e3 at *
  have hd : 0 < den * pN 2 e3 := Nat.mul_pos hden (pN_pos (by decide) _)
  have hq : (quotS num den e3).1 < 2 ^ f.p := (q_lt_iff hden e3 _).2 hlt
  have hnorm' : e3 = f.eminSub ∨ 2 ^ (f.p - 1) ≤ (quotS num den e3).1 := by
    rcases hnorm with h | h
    · exact Or.inl h
    · exact Or.inr ((le_q_iff hden e3 _).2 h)
  have hn : num * pD 2 e3 = (quotS num den e3).1 * (den * pN 2 e3) + (quotS num den e3).2.1 :=
    (Nat.div_add_mod' _ _).symm
  have hr : (quotS num den e3).2.1 < den * pN 2 e3 := Nat.mod_lt _ hd
  have hd' : (quotS num den e3).2.2 = den * pN 2 e3 := rfl
  rw [hd']
  generalize (quotS num den e3).1 = q at *
  generalize (quotS num den e3).2.1 = r at *
  have hmul : (2 * q + 1) * (den * pN 2 e3) = 2 * (q * (den * pN 2 e3)) + den * pN 2 e3 := by
    rw [Nat.add_mul, Nat.mul_assoc, Nat.one_mul]
  by_cases hup : 2 * r > den * pN 2 e3 ∨ (2 * r = den * pN 2 e3 ∧ q % 2 = 1)
  · -- round up
    have hr' : roundQ q r (den * pN 2 e3) = q + 1 := by
      unfold roundQ; rw [if_pos]
      simpa using hup
    rw [hr']
    have h1 : LeS (2 * q + 1) e3 (2 * num) den := by
      unfold LeS; rw [Nat.mul_assoc 2 num, hmul]; omega
    have h2 : LtS num den (q + 1) e3 := by
      unfold LtS; rw [Nat.add_mul, Nat.one_mul]; omega
    have h3 : q % 2 = 1 ∨ GtS (2 * q + 1) e3 (2 * num) den := by
      rcases hup with h | h
      · right; unfold GtS; rw [Nat.mul_assoc 2 num, hmul]; omega
      · exact Or.inl h.2
    rcases spec_up f hp he2 num den q e3 hq he3 hnorm' h1 h2 h3 with h | h
    · exact Or.inr (Or.inl h)
    · exact Or.inr (Or.inr h)
  · -- round down
    have hr' : roundQ q r (den * pN 2 e3) = q := by
      unfold roundQ; rw [if_neg]
      simpa using hup
    rw [hr', if_neg (by omega)]
    have h1 : LeS q e3 num den := by unfold LeS; omega
    have h2 : GeS (2 * num) den (2 * q + 1) e3 := by
      unfold GeS; rw [Nat.mul_assoc 2 num, hmul]; omega
    have h3 : q % 2 = 0 ∨ LtS (2 * num) den (2 * q + 1) e3 := by
      by_cases hq2 : q % 2 = 0
      · exact Or.inl hq2
      · right; unfold LtS; rw [Nat.mul_assoc 2 num, hmul]; omega
    by_cases hq0 : q = 0
    · -- underflow to zero
      subst hq0
      left
      have he3' : e3 = f.eminSub := by
        rcases hnorm' with h | h
        · exact h
        · have := Nat.pow_pos (n := f.p - 1) (by decide : 0 < 2); omega
      refine ⟨by unfold pack; rw [if_pos (Nat.pow_pos (by decide))], ?_⟩
      have he1 : e3 = (f.eminSub - 1) + ((1 : Nat) : Int) := by omega
      have a := (GeS_at 1 he1 (2 * num) den).1 h2
      unfold GeS at a ⊢
      rw [Nat.mul_assoc 2 num] at a
      omega
    · rcases spec_down f hp he2 num den hden q e3 (by omega) hq he3 hnorm' h1 h2 h3 with h | h
      · exact Or.inr (Or.inl h)
      · exact Or.inr (Or.inr h)

/-- on the finite positive patterns `roundRat` is characterised by the rounding interval. -/
theorem roundRat_eq_iff (f : FloatFmt) (hp : 2 ≤ f.p) (he2 : 2 ≤ f.ebits) (b : Nat) (hb0 : 0 < b) (hbi : b < f.infBits)
    (num den : Nat) (hnum : 0 < num) (hden : 0 < den) : roundRat f num den = b ↔ InIv f b num den := by
  constructor
  · intro h
    rcases roundRat_spec f hp he2 num den hnum hden with ⟨h0, _⟩ | ⟨_, _, hI⟩ | ⟨hinf, _⟩
    · omega
    · rw [h] at hI; exact hI
    · omega
  · exact roundRat_of_inInterval f hp b hb0 hbi num den hnum hden

end FCL
end Rosu
