/-
  Lemmas/EncodeTotal.lean — where the slider-event code used by the encoder can panic (property C01):
  exactly in the `f64::clamp(0.0, len)` assertion of `SliderEventsIter::new`, i.e. when `¬ (0.0 <= min(100000, dist))`.
  Structural: every `Scalar` instance.
-/
import RosuModel.Model.Encode
import RosuModel.Lemmas.CurveTotal
namespace Rosu
open SliderEvents

variable {F : Type} [Scalar F]

/-- `SliderEventsIter::new` panics exactly when the `clamp` assertion `0.0 <= len` fails. -/
theorem Params.new_eq_none_iff (startTime spanDuration velocity tickDist totalDist : F) (spanCount : Int) :
    Params.new startTime spanDuration velocity tickDist totalDist spanCount = none ↔
      Scalar.le (0 : F) (Scalar.min (100000 : F) totalDist) = false := by
  unfold Params.new
  show (if Scalar.le (0 : F) (Scalar.min (100000 : F) totalDist) = true then _ else _) = none ↔ _
  cases h : Scalar.le (0 : F) (Scalar.min (100000 : F) totalDist) <;> simp

/-- **one use of the tick buffer panics exactly when `Params::new` does.** -/
theorem runUse_panicked_iff (fuel : Nat) (u : Use F) (buf : List (SliderEvent F)) :
    (∃ b, runUse fuel u buf = (.panicked, b)) ↔
      Scalar.le (0 : F) (Scalar.min (100000 : F) u.totalDist) = false := by
  rw [← Params.new_eq_none_iff u.startTime u.spanDuration u.velocity u.tickDist u.totalDist u.spanCount]
  unfold runUse Iter.new
  cases hp : Params.new u.startTime u.spanDuration u.velocity u.tickDist u.totalDist u.spanCount with
  | none => simp only [Option.map_none]; exact ⟨fun _ => trivial, fun _ => ⟨buf, rfl⟩⟩
  | some p =>
    simp only [Option.map_some]
    constructor
    · rintro ⟨b, hb⟩
      split at hb <;> cases hb
    · intro h; cases h

/-- the encoder's wrapper: a panic only through the `clamp` assertion. -/
theorem sliderEventList_safe (startTime velocity tickDist dist duration : F) (spanCount : Int)
    (buf : List (SliderEvent F)) (h : Scalar.le (0 : F) (Scalar.min (100000 : F) dist) = true) :
    Safe (fun _ => True) (Encode.sliderEventList startTime velocity tickDist dist duration spanCount buf) := by
  unfold Encode.sliderEventList
  simp only []
  split
  · exact True.intro
  · rename_i b hb
    have := (runUse_panicked_iff _ _ _).mp ⟨b, hb⟩
    simp only [h] at this
    cases this
  · rfl

/-- and conversely: when the assertion fails, the wrapper reports the panic. -/
theorem sliderEventList_panics (startTime velocity tickDist dist duration : F) (spanCount : Int)
    (buf : List (SliderEvent F)) (h : Scalar.le (0 : F) (Scalar.min (100000 : F) dist) = false) :
    Encode.sliderEventList startTime velocity tickDist dist duration spanCount buf = .error .panic := by
  unfold Encode.sliderEventList
  simp only []
  obtain ⟨b, hb⟩ := (runUse_panicked_iff Encode.eventsFuel
    { startTime := startTime, spanDuration := duration / (Scalar.ofInt spanCount : F), velocity := velocity,
      tickDist := tickDist, totalDist := dist, spanCount := spanCount, take := none } buf).mpr h
  rw [hb]

/-- a NaN distance does not trip the assertion as long as `0 <= 100000` and `NaN < 100000` is false
(`f64::min` ignores a NaN operand): `min(100000, NaN) = 100000`. -/
theorem min_maxLen_nan (d : F) (hlt : Scalar.lt d (100000 : F) = false) (hn : Scalar.isNaN (100000 : F) = false) :
    Scalar.min (100000 : F) d = (100000 : F) := by
  simp [Scalar.min, hlt, hn]

end Rosu
