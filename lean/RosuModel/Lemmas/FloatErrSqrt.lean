/-
  Lemmas/FloatErrSqrt.lean — the rounding-error layer for **`sqrt`** of Lean ≥ 4.33's logical floats.
-/
import RosuModel.Lemmas.FloatErrMul
namespace Rosu.FErr
open Float.Model Float.Model.UnpackedFloat Rosu.FMR Rosu.FRM Rosu.FAM

/-! ### the sticky information of `sqrtCore` as a rational proxy -/

/-- `sqrtCore` returns the integer root `root = ⌊√M⌋` with an `Accuracy` computed from the remainder `rem = M − root²`:
exact, or `√M` below / above `root + ½`. The same floor and accuracy belong to the rational `root`, `root + ¼`,
`root + ¾` respectively: numerator … -/
def sqrtN (root rem : Nat) : Nat := if rem = 0 then root else if rem ≤ root then 4 * root + 1 else 4 * root + 3
/-- … and denominator of the proxy. -/
def sqrtD (rem : Nat) : Nat := if rem = 0 then 1 else 4

theorem sqrtD_pos (rem : Nat) : 0 < sqrtD rem := by unfold sqrtD; split <;> decide

theorem sqrt_proxy (root rem : Nat) :
    sqrtN root rem / sqrtD rem = root ∧
    accuracyOfFraction (sqrtN root rem % sqrtD rem) (sqrtD rem) =
      (if rem = 0 then Accuracy.exact else .inexact (if rem ≤ root then .lt else .gt)) := by
  unfold sqrtN sqrtD
  by_cases h0 : rem = 0
  · simp [h0, accuracyOfFraction, Nat.mod_one]
  · rw [if_neg h0, if_neg h0, if_neg h0]
    by_cases h1 : rem ≤ root
    · rw [if_pos h1, if_pos h1]
      refine ⟨by omega, ?_⟩
      rw [show (4 * root + 1) % 4 = 1 by omega]; rfl
    · rw [if_neg h1, if_neg h1]
      refine ⟨by omega, ?_⟩
      rw [show (4 * root + 3) % 4 = 3 by omega]; rfl

/-- **the rounded mantissa of the proxy is within half a unit of the true root, in squares**: with `q` the
nearest-even rounding of the proxy on a grid `K` (any `K ≥ 1`), `(2qK − K)² ≤ 4M ≤ (2qK + K)²`, i.e.
`qK − K/2 ≤ √M ≤ qK + K/2`. -/
theorem sqrt_rne_bounds (root M K : Nat) (hK : 0 < K) (h1 : root * root ≤ M) (h2 : M < (root + 1) * (root + 1)) :
    4 * M ≤ (2 * (rne (sqrtN root (M - root * root)) (sqrtD (M - root * root) * K) * K) + K) *
        (2 * (rne (sqrtN root (M - root * root)) (sqrtD (M - root * root) * K) * K) + K) ∧
    (K ≤ 2 * (rne (sqrtN root (M - root * root)) (sqrtD (M - root * root) * K) * K) →
      (2 * (rne (sqrtN root (M - root * root)) (sqrtD (M - root * root) * K) * K) - K) *
        (2 * (rne (sqrtN root (M - root * root)) (sqrtD (M - root * root) * K) * K) - K) ≤ 4 * M) := by
  obtain ⟨n1, n2⟩ := rne_near (sqrtN root (M - root * root)) (sqrtD (M - root * root) * K)
    (Nat.mul_pos (sqrtD_pos _) hK)
  generalize rne (sqrtN root (M - root * root)) (sqrtD (M - root * root) * K) = q at *
  have e2 : (root + 1) * (root + 1) = root * root + 2 * root + 1 := by ring
  rw [e2] at h2
  have sq : ∀ a b : Nat, a ≤ b → a * a ≤ b * b := fun a b h => Nat.mul_self_le_mul_self h
  have x1 : (2 * root) * (2 * root) = 4 * (root * root) := by ring
  have x2 : (2 * root + 1) * (2 * root + 1) = 4 * (root * root) + 4 * root + 1 := by ring
  have x3 : (2 * root + 2) * (2 * root + 2) = 4 * (root * root) + 8 * root + 4 := by ring
  unfold sqrtN sqrtD at n1 n2
  generalize hP : q * K = P at *
  by_cases h0 : M - root * root = 0
  · rw [if_pos h0, if_pos h0] at n1 n2
    have e1 : q * (1 * K) = P := by rw [Nat.one_mul, hP]
    rw [e1] at n1 n2
    have a := sq (2 * root) (2 * P + K) (by omega)
    refine ⟨by omega, fun hk => ?_⟩
    have b := sq (2 * P - K) (2 * root) (by omega)
    omega
  · rw [if_neg h0, if_neg h0] at n1 n2
    have e1 : q * (4 * K) = 4 * P := by rw [← hP]; ring
    rw [e1] at n1 n2
    by_cases hr : M - root * root ≤ root
    · rw [if_pos hr] at n1 n2
      have a := sq (2 * root + 1) (2 * P + K) (by omega)
      refine ⟨by omega, fun hk => ?_⟩
      have b := sq (2 * P - K) (2 * root) (by omega)
      omega
    · rw [if_neg hr] at n1 n2
      have a := sq (2 * root + 2) (2 * P + K) (by omega)
      refine ⟨by omega, fun hk => ?_⟩
      have b := sq (2 * P - K) (2 * root + 1) (by omega)
      omega

/-! ### `UnpackedFloat.sqrt` -/

/-- the exponent `sqrtCore` works at. -/
def sqTe (spec : Format) (m : Nat) (e : Int) : Int :=
  min (e.ediv 2) (spec.targetExponent ((totalExponent m e + 1).ediv 2))
/-- the shifted mantissa: `m · 2^e = sqM · 2^(2 · sqTe)`. -/
def sqM (spec : Format) (m : Nat) (e : Int) : Nat := m <<< (e - 2 * sqTe spec m e).toNat

theorem sqrt_fin (spec : Format) (m : Nat) (e : Int) (hm : 0 < m) :
    UnpackedFloat.sqrt spec (.finite .positive m e hm) =
      roundWithAccuracy spec .positive (Nat.sqrt (sqM spec m e)) (sqTe spec m e)
        (if sqM spec m e - Nat.sqrt (sqM spec m e) * Nat.sqrt (sqM spec m e) = 0 then .exact
          else .inexact (if sqM spec m e - Nat.sqrt (sqM spec m e) * Nat.sqrt (sqM spec m e) ≤ Nat.sqrt (sqM spec m e)
            then .lt else .gt)) := rfl

theorem sqTe_le (spec : Format) (m : Nat) (e : Int) : 2 * sqTe spec m e ≤ e := by
  unfold sqTe
  have : e.ediv 2 = e / 2 := rfl
  rw [this]; omega

theorem sqM_eq (spec : Format) (m : Nat) (e : Int) : sqM spec m e = m * 2 ^ (e - 2 * sqTe spec m e).toNat := by
  unfold sqM; rw [Nat.shiftLeft_eq]

/-- **`sqrtCore` never asks `roundWithAccuracy` to add bits**: its exponent is not above the target exponent of the
integer root (which has a full mantissa unless the exponent is clamped at `minExponent`). -/
theorem sqTe_le_tgt (spec : Format) (m : Nat) (e : Int) (hm : 0 < m) :
    sqTe spec m e ≤ tgt spec (Nat.sqrt (sqM spec m e)) (sqTe spec m e) := by
  by_cases hmin : sqTe spec m e ≤ spec.minExponent
  · exact le_trans hmin (tgt_ge_min _ _ _)
  · have hp := mantissaBits_pos spec
    -- the root has a full mantissa
    have hs := sqTe_le spec m e
    have hT : sqTe spec m e ≤ (totalExponent m e + 1) / 2 - spec.mantissaBits := by
      have h1 : sqTe spec m e ≤ spec.targetExponent ((totalExponent m e + 1).ediv 2) := by
        unfold sqTe; omega
      unfold Format.targetExponent at h1
      have : (totalExponent m e + 1).ediv 2 = (totalExponent m e + 1) / 2 := rfl
      rw [this] at h1
      omega
    unfold totalExponent at hT
    have hM : 2 ^ (2 * spec.mantissaBits - 2) ≤ sqM spec m e := by
      rw [sqM_eq]
      calc 2 ^ (2 * spec.mantissaBits - 2) ≤ 2 ^ (m.log2 + (e - 2 * sqTe spec m e).toNat) :=
            Nat.pow_le_pow_right (by decide) (by omega)
        _ = 2 ^ m.log2 * 2 ^ (e - 2 * sqTe spec m e).toNat := Nat.pow_add ..
        _ ≤ m * 2 ^ (e - 2 * sqTe spec m e).toNat := Nat.mul_le_mul_right _ (Nat.log2_self_le (by omega))
    have hroot : 2 ^ (spec.mantissaBits - 1) ≤ Nat.sqrt (sqM spec m e) := by
      by_contra hc
      have h1 : Nat.sqrt (sqM spec m e) + 1 ≤ 2 ^ (spec.mantissaBits - 1) := by omega
      have h2 := Nat.mul_self_le_mul_self h1
      have h3 := Nat.lt_succ_sqrt (sqM spec m e)
      have h4 : 2 ^ (spec.mantissaBits - 1) * 2 ^ (spec.mantissaBits - 1) = 2 ^ (2 * spec.mantissaBits - 2) := by
        rw [← Nat.pow_add]; congr 1; omega
      rw [h4] at h2
      simp only [Nat.succ_eq_add_one] at h3
      omega
    have hlog : spec.mantissaBits - 1 ≤ (Nat.sqrt (sqM spec m e)).log2 :=
      (Nat.le_log2 (by have := Nat.two_pow_pos (spec.mantissaBits - 1); omega)).mpr hroot
    unfold tgt Format.targetExponent totalExponent
    omega

/-- **`sqrt` is correctly rounded, every format** (unpacked level, in squares — no irrational number is needed):
the result of `sqrt` on a positive finite `m · 2^e` is a zero or finite canonical value `r ≥ 0` with
`(r − h)² ≤ m · 2^e ≤ (r + h)²`, `h = 2^tg / 2` half an ulp of a grid of the format (`r − h ≤ √x ≤ r + h`), on which
`r` has a full mantissa unless it is the subnormal grid. -/
theorem sqrt_err_unpacked (spec : Format) (m : Nat) (e : Int) (hm : 0 < m) :
    ∃ (r : ℚ) (tg : Int), spec.minExponent ≤ tg ∧
      uval (UnpackedFloat.sqrt spec (.finite .positive m e hm)) = r ∧ 0 ≤ r ∧
      Canon spec (UnpackedFloat.sqrt spec (.finite .positive m e hm)) ∧
      (UnpackedFloat.sqrt spec (.finite .positive m e hm)).isFinite = true ∧
      (m : ℚ) * (2 : ℚ) ^ e ≤ (r + (2 : ℚ) ^ tg / 2) ^ 2 ∧
      ((2 : ℚ) ^ tg / 2 ≤ r → (r - (2 : ℚ) ^ tg / 2) ^ 2 ≤ (m : ℚ) * (2 : ℚ) ^ e) ∧
      (tg = spec.minExponent ∨ (2 : ℚ) ^ (spec.mantissaBits - 1) * (2 : ℚ) ^ tg ≤ r) := by
  have he := sqTe_le_tgt spec m e hm
  have hs2 := sqTe_le spec m e
  have hMeq := sqM_eq spec m e
  have key := sqrt_fin spec m e hm
  generalize sqTe spec m e = te at *
  generalize sqM spec m e = M at *
  obtain ⟨hq, hacc⟩ := sqrt_proxy (Nat.sqrt M) (M - Nat.sqrt M * Nat.sqrt M)
  have hD := sqrtD_pos (M - Nat.sqrt M * Nat.sqrt M)
  rw [← hacc] at key
  have hb := sqrt_rne_bounds (Nat.sqrt M) M (2 ^ (tgt spec (Nat.sqrt M) te - te).toNat) (Nat.two_pow_pos _)
    (Nat.sqrt_le M) (Nat.lt_succ_sqrt M)
  generalize sqrtN (Nat.sqrt M) (M - Nat.sqrt M * Nat.sqrt M) = N at *
  generalize sqrtD (M - Nat.sqrt M * Nat.sqrt M) = D at *
  rw [← hq] at key he hb
  obtain ⟨hs, hn⟩ := rwa_shape spec .positive N D hD te he
  rw [← key] at hs
  generalize UnpackedFloat.sqrt spec (.finite .positive m e hm) = res at *
  have hge := tgt_ge_min spec (N / D) te
  generalize tgt spec (N / D) te = tg at *
  obtain ⟨hA, hB⟩ := hb
  generalize rne N (D * 2 ^ (tg - te).toNat) = q at *
  have hT := two_zpow_pos te
  have htg : (2 : ℚ) ^ tg = ((2 ^ (tg - te).toNat : Nat) : ℚ) * (2 : ℚ) ^ te := by
    push_cast
    rw [← zpow_natCast, ← zpow_add₀ (two_ne_zero)]; congr 1; omega
  have hx : (m : ℚ) * (2 : ℚ) ^ e = (M : ℚ) * ((2 : ℚ) ^ te) ^ 2 := by
    rw [hMeq]; push_cast
    rw [mul_assoc, ← zpow_natCast, ← zpow_natCast ((2 : ℚ) ^ te), ← zpow_mul, ← zpow_add₀ (two_ne_zero)]
    congr 2; omega
  have hK : (0 : ℚ) < ((2 ^ (tg - te).toNat : Nat) : ℚ) := by exact_mod_cast Nat.two_pow_pos _
  generalize 2 ^ (tg - te).toNat = K at *
  have hAq : (4 * (M : ℚ)) ≤ (2 * ((q : ℚ) * (K : ℚ)) + (K : ℚ)) * (2 * ((q : ℚ) * (K : ℚ)) + (K : ℚ)) := by
    exact_mod_cast hA
  have hT2 : (0 : ℚ) < ((2 : ℚ) ^ te) ^ 2 := by positivity
  refine ⟨(q : ℚ) * (2 : ℚ) ^ tg, tg, hge, ?_, ?_, Shape.canon hs, ?_, ?_, ?_, ?_⟩
  · rw [uval_of_shape hs]; simp [sgnQ]
  · exact mul_nonneg (Nat.cast_nonneg _) (two_zpow_pos _).le
  · rcases Shape.zeroOrFin hs with h | ⟨m', e', p', h⟩ <;> rw [h] <;> rfl
  · rw [hx, htg]
    have : ((q : ℚ) * ((K : ℚ) * (2 : ℚ) ^ te) + (K : ℚ) * (2 : ℚ) ^ te / 2) ^ 2 =
        (2 * ((q : ℚ) * (K : ℚ)) + (K : ℚ)) * (2 * ((q : ℚ) * (K : ℚ)) + (K : ℚ)) * ((2 : ℚ) ^ te) ^ 2 / 4 := by ring
    rw [this, le_div_iff₀ (by norm_num)]
    calc (M : ℚ) * ((2 : ℚ) ^ te) ^ 2 * 4 = 4 * (M : ℚ) * ((2 : ℚ) ^ te) ^ 2 := by ring
      _ ≤ _ := mul_le_mul_of_nonneg_right hAq hT2.le
  · intro hh
    rw [htg] at hh ⊢
    have hk : K ≤ 2 * (q * K) := by
      have h1 : (K : ℚ) * (2 : ℚ) ^ te ≤ (2 * ((q : ℚ) * (K : ℚ))) * (2 : ℚ) ^ te := by linarith
      have h2 : (K : ℚ) ≤ 2 * ((q : ℚ) * (K : ℚ)) := le_of_mul_le_mul_right h1 hT
      exact_mod_cast h2
    have hBq : ((2 * ((q : ℚ) * (K : ℚ)) - (K : ℚ)) * (2 * ((q : ℚ) * (K : ℚ)) - (K : ℚ))) ≤ 4 * (M : ℚ) := by
      have := hB hk
      have c : ((2 * (q * K) - K : Nat) : ℚ) = 2 * ((q : ℚ) * (K : ℚ)) - (K : ℚ) := by
        rw [Nat.cast_sub hk]; push_cast; ring
      rw [← c]; exact_mod_cast this
    rw [hx]
    have : ((q : ℚ) * ((K : ℚ) * (2 : ℚ) ^ te) - (K : ℚ) * (2 : ℚ) ^ te / 2) ^ 2 =
        (2 * ((q : ℚ) * (K : ℚ)) - (K : ℚ)) * (2 * ((q : ℚ) * (K : ℚ)) - (K : ℚ)) * ((2 : ℚ) ^ te) ^ 2 / 4 := by ring
    rw [this, div_le_iff₀ (by norm_num)]
    calc _ ≤ 4 * (M : ℚ) * ((2 : ℚ) ^ te) ^ 2 := mul_le_mul_of_nonneg_right hBq hT2.le
      _ = _ := by ring
  · rcases hn with h | h
    · exact Or.inl h
    · right
      have : ((2 : ℚ) ^ (spec.mantissaBits - 1)) ≤ (q : ℚ) := by exact_mod_cast h
      exact mul_le_mul_of_nonneg_right this (two_zpow_pos _).le

end Rosu.FErr
