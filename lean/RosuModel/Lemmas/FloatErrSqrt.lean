/-
  Lemmas/FloatErrSqrt.lean — the rounding-error layer (Lemmas/FloatErr*.lean) for **`sqrt`** of Lean ≥ 4.33's logical
  floats (`UnpackedFloat.sqrt`: integer square root `root = ⌊√M⌋` of the mantissa shifted to `M · 2^(2·te)`, an `Accuracy`
  computed from the remainder `M − root²`, then `roundWithAccuracy`).

  The exact root is irrational in general, so everything is stated IN SQUARES over ℚ:
  * `sqrt_proxy`: the accuracy of `sqrtCore` is the accuracy of the rational proxy `root`, `root + ¼` or `root + ¾`
    (same floor, same round / sticky information), so `roundWithAccuracy` is `rwa_shape` of that proxy;
  * `sqrt_rne_bounds`: the nearest-even rounding `q` of the proxy on any grid `K` satisfies `(2qK − K)² ≤ 4M ≤ (2qK + K)²`,
    i.e. it is within half a grid unit of the TRUE root;
  * `sqTe_le_tgt`: `sqrtCore` computes the root with a full mantissa (never asks for bits to be added);
  * **`sqrt_err_unpacked`** (every `Format`): `(r − h)² ≤ x ≤ (r + h)²`, `h` half an ulp — `sqrt` is correctly rounded;
  * **`sqrt_half_ulp_float`**, **`sqrt_sq_err_float`** (binary64): `r²(1 − 2⁻⁵²) ≤ x ≤ r²(1 + 2⁻⁵³)²`, `r ≥ 0`; the result
    is never subnormal.
-/
import RosuModel.Lemmas.FloatErrMul
import RosuModel.Lemmas.FloatBitsLaws
namespace Rosu.FErr
open Float.Model Float.Model.UnpackedFloat Rosu.FMR Rosu.FRM Rosu.FAM

/-! ### the sticky information of `sqrtCore` as a rational proxy -/

/-- `sqrtCore` returns the integer root `root = ⌊√M⌋` with an `Accuracy` computed from the remainder `rem = M − root²`:
exact, or `√M` below / above `root + ½`. The same floor and accuracy belong to the rational `root`, `root + ¼`,
`root + ¾` respectively: numerator … -/
def sqrtN (root rem : Nat) : Nat := if rem = 0 then root else if rem ≤ root then 4 * root + 1 else 4 * root + 3
/-- … and denominator of the proxy. -/
def sqrtD (rem : Nat) : Nat := if rem = 0 then 1 else 4

theorem sqrtD_pos (rem : Nat) : 0 < sqrtD rem := by unfold sqrtD; split <;> decide

theorem sqrt_proxy (root rem : Nat) :
    sqrtN root rem / sqrtD rem = root ∧
    accuracyOfFraction (sqrtN root rem % sqrtD rem) (sqrtD rem) =
      (if rem = 0 then Accuracy.exact else .inexact (if rem ≤ root then .lt else .gt)) := by
  unfold sqrtN sqrtD
  by_cases h0 : rem = 0
  · simp [h0, accuracyOfFraction, Nat.mod_one]
  · rw [if_neg h0, if_neg h0, if_neg h0]
    by_cases h1 : rem ≤ root
    · rw [if_pos h1, if_pos h1]
      refine ⟨by omega, ?_⟩
      rw [show (4 * root + 1) % 4 = 1 by omega]; rfl
    · rw [if_neg h1, if_neg h1]
      refine ⟨by omega, ?_⟩
      rw [show (4 * root + 3) % 4 = 3 by omega]; rfl

/-- **the rounded mantissa of the proxy is within half a unit of the true root, in squares**: with `q` the
nearest-even rounding of the proxy on a grid `K` (any `K ≥ 1`), `(2qK − K)² ≤ 4M ≤ (2qK + K)²`, i.e.
`qK − K/2 ≤ √M ≤ qK + K/2`. -/
theorem sqrt_rne_bounds (root M K : Nat) (hK : 0 < K) (h1 : root * root ≤ M) (h2 : M < (root + 1) * (root + 1)) :
    4 * M ≤ (2 * (rne (sqrtN root (M - root * root)) (sqrtD (M - root * root) * K) * K) + K) *
        (2 * (rne (sqrtN root (M - root * root)) (sqrtD (M - root * root) * K) * K) + K) ∧
    (K ≤ 2 * (rne (sqrtN root (M - root * root)) (sqrtD (M - root * root) * K) * K) →
      (2 * (rne (sqrtN root (M - root * root)) (sqrtD (M - root * root) * K) * K) - K) *
        (2 * (rne (sqrtN root (M - root * root)) (sqrtD (M - root * root) * K) * K) - K) ≤ 4 * M) := by
  obtain ⟨n1, n2⟩ := rne_near (sqrtN root (M - root * root)) (sqrtD (M - root * root) * K)
    (Nat.mul_pos (sqrtD_pos _) hK)
  generalize rne (sqrtN root (M - root * root)) (sqrtD (M - root * root) * K) = q at *
  have e2 : (root + 1) * (root + 1) = root * root + 2 * root + 1 := by ring
  rw [e2] at h2
  have sq : ∀ a b : Nat, a ≤ b → a * a ≤ b * b := fun a b h => Nat.mul_self_le_mul_self h
  have x1 : (2 * root) * (2 * root) = 4 * (root * root) := by ring
  have x2 : (2 * root + 1) * (2 * root + 1) = 4 * (root * root) + 4 * root + 1 := by ring
  have x3 : (2 * root + 2) * (2 * root + 2) = 4 * (root * root) + 8 * root + 4 := by ring
  unfold sqrtN sqrtD at n1 n2
  generalize hP : q * K = P at *
  by_cases h0 : M - root * root = 0
  · rw [if_pos h0, if_pos h0] at n1 n2
    have e1 : q * (1 * K) = P := by rw [Nat.one_mul, hP]
    rw [e1] at n1 n2
    have a := sq (2 * root) (2 * P + K) (by omega)
    refine ⟨by omega, fun hk => ?_⟩
    have b := sq (2 * P - K) (2 * root) (by omega)
    omega
  · rw [if_neg h0, if_neg h0] at n1 n2
    have e1 : q * (4 * K) = 4 * P := by rw [← hP]; ring
    rw [e1] at n1 n2
    by_cases hr : M - root * root ≤ root
    · rw [if_pos hr] at n1 n2
      have a := sq (2 * root + 1) (2 * P + K) (by omega)
      refine ⟨by omega, fun hk => ?_⟩
      have b := sq (2 * P - K) (2 * root) (by omega)
      omega
    · rw [if_neg hr] at n1 n2
      have a := sq (2 * root + 2) (2 * P + K) (by omega)
      refine ⟨by omega, fun hk => ?_⟩
      have b := sq (2 * P - K) (2 * root + 1) (by omega)
      omega

/-! ### `UnpackedFloat.sqrt` -/

/-- the exponent `sqrtCore` works at. -/
def sqTe (spec : Format) (m : Nat) (e : Int) : Int :=
  min (e.ediv 2) (spec.targetExponent ((totalExponent m e + 1).ediv 2))
/-- the shifted mantissa: `m · 2^e = sqM · 2^(2 · sqTe)`. -/
def sqM (spec : Format) (m : Nat) (e : Int) : Nat := m <<< (e - 2 * sqTe spec m e).toNat

theorem sqrt_fin (spec : Format) (m : Nat) (e : Int) (hm : 0 < m) :
    UnpackedFloat.sqrt spec (.finite .positive m e hm) =
      roundWithAccuracy spec .positive (Nat.sqrt (sqM spec m e)) (sqTe spec m e)
        (if sqM spec m e - Nat.sqrt (sqM spec m e) * Nat.sqrt (sqM spec m e) = 0 then .exact
          else .inexact (if sqM spec m e - Nat.sqrt (sqM spec m e) * Nat.sqrt (sqM spec m e) ≤ Nat.sqrt (sqM spec m e)
            then .lt else .gt)) := rfl

theorem sqTe_le (spec : Format) (m : Nat) (e : Int) : 2 * sqTe spec m e ≤ e := by
  unfold sqTe
  have : e.ediv 2 = e / 2 := rfl
  rw [this]; omega

theorem sqM_eq (spec : Format) (m : Nat) (e : Int) : sqM spec m e = m * 2 ^ (e - 2 * sqTe spec m e).toNat := by
  unfold sqM; rw [Nat.shiftLeft_eq]

/-- **`sqrtCore` never asks `roundWithAccuracy` to add bits**: its exponent is not above the target exponent of the
integer root (which has a full mantissa unless the exponent is clamped at `minExponent`). -/
theorem sqTe_le_tgt (spec : Format) (m : Nat) (e : Int) (hm : 0 < m) :
    sqTe spec m e ≤ tgt spec (Nat.sqrt (sqM spec m e)) (sqTe spec m e) := by
  by_cases hmin : sqTe spec m e ≤ spec.minExponent
  · exact le_trans hmin (tgt_ge_min _ _ _)
  · have hp := mantissaBits_pos spec
    -- the root has a full mantissa
    have hs := sqTe_le spec m e
    have hT : sqTe spec m e ≤ (totalExponent m e + 1) / 2 - spec.mantissaBits := by
      have h1 : sqTe spec m e ≤ spec.targetExponent ((totalExponent m e + 1).ediv 2) := by
        unfold sqTe; omega
      unfold Format.targetExponent at h1
      have : (totalExponent m e + 1).ediv 2 = (totalExponent m e + 1) / 2 := rfl
      rw [this] at h1
      omega
    unfold totalExponent at hT
    have hM : 2 ^ (2 * spec.mantissaBits - 2) ≤ sqM spec m e := by
      rw [sqM_eq]
      calc 2 ^ (2 * spec.mantissaBits - 2) ≤ 2 ^ (m.log2 + (e - 2 * sqTe spec m e).toNat) :=
            Nat.pow_le_pow_right (by decide) (by omega)
        _ = 2 ^ m.log2 * 2 ^ (e - 2 * sqTe spec m e).toNat := Nat.pow_add ..
        _ ≤ m * 2 ^ (e - 2 * sqTe spec m e).toNat := Nat.mul_le_mul_right _ (Nat.log2_self_le (by omega))
    have hroot : 2 ^ (spec.mantissaBits - 1) ≤ Nat.sqrt (sqM spec m e) := by
      by_contra hc
      have h1 : Nat.sqrt (sqM spec m e) + 1 ≤ 2 ^ (spec.mantissaBits - 1) := by omega
      have h2 := Nat.mul_self_le_mul_self h1
      have h3 := Nat.lt_succ_sqrt (sqM spec m e)
      have h4 : 2 ^ (spec.mantissaBits - 1) * 2 ^ (spec.mantissaBits - 1) = 2 ^ (2 * spec.mantissaBits - 2) := by
        rw [← Nat.pow_add]; congr 1; omega
      rw [h4] at h2
      simp only [Nat.succ_eq_add_one] at h3
      omega
    have hlog : spec.mantissaBits - 1 ≤ (Nat.sqrt (sqM spec m e)).log2 :=
      (Nat.le_log2 (by have := Nat.two_pow_pos (spec.mantissaBits - 1); omega)).mpr hroot
    unfold tgt Format.targetExponent totalExponent
    omega

/-- **`sqrt` is correctly rounded, every format** (unpacked level, in squares — no irrational number is needed):
the result of `sqrt` on a positive finite `m · 2^e` is a zero or finite canonical value `r ≥ 0` with
`(r − h)² ≤ m · 2^e ≤ (r + h)²`, `h = 2^tg / 2` half an ulp of a grid of the format (`r − h ≤ √x ≤ r + h`), on which
`r` has a full mantissa unless it is the subnormal grid. -/
theorem sqrt_err_unpacked (spec : Format) (m : Nat) (e : Int) (hm : 0 < m) :
    ∃ (r : ℚ) (tg : Int), spec.minExponent ≤ tg ∧
      uval (UnpackedFloat.sqrt spec (.finite .positive m e hm)) = r ∧ 0 ≤ r ∧
      Canon spec (UnpackedFloat.sqrt spec (.finite .positive m e hm)) ∧
      (UnpackedFloat.sqrt spec (.finite .positive m e hm)).isFinite = true ∧
      (m : ℚ) * (2 : ℚ) ^ e ≤ (r + (2 : ℚ) ^ tg / 2) ^ 2 ∧
      ((2 : ℚ) ^ tg / 2 ≤ r → (r - (2 : ℚ) ^ tg / 2) ^ 2 ≤ (m : ℚ) * (2 : ℚ) ^ e) ∧
      (tg = spec.minExponent ∨ (2 : ℚ) ^ (spec.mantissaBits - 1) * (2 : ℚ) ^ tg ≤ r) := by
  have he := sqTe_le_tgt spec m e hm
  have hs2 := sqTe_le spec m e
  have hMeq := sqM_eq spec m e
  have key := sqrt_fin spec m e hm
  generalize sqTe spec m e = te at *
  generalize sqM spec m e = M at *
  obtain ⟨hq, hacc⟩ := sqrt_proxy (Nat.sqrt M) (M - Nat.sqrt M * Nat.sqrt M)
  have hD := sqrtD_pos (M - Nat.sqrt M * Nat.sqrt M)
  rw [← hacc] at key
  have hb := sqrt_rne_bounds (Nat.sqrt M) M (2 ^ (tgt spec (Nat.sqrt M) te - te).toNat) (Nat.two_pow_pos _)
    (Nat.sqrt_le M) (Nat.lt_succ_sqrt M)
  generalize sqrtN (Nat.sqrt M) (M - Nat.sqrt M * Nat.sqrt M) = N at *
  generalize sqrtD (M - Nat.sqrt M * Nat.sqrt M) = D at *
  rw [← hq] at key he hb
  obtain ⟨hs, hn⟩ := rwa_shape spec .positive N D hD te he
  rw [← key] at hs
  generalize UnpackedFloat.sqrt spec (.finite .positive m e hm) = res at *
  have hge := tgt_ge_min spec (N / D) te
  generalize tgt spec (N / D) te = tg at *
  obtain ⟨hA, hB⟩ := hb
  generalize rne N (D * 2 ^ (tg - te).toNat) = q at *
  have hT := two_zpow_pos te
  have htg : (2 : ℚ) ^ tg = ((2 ^ (tg - te).toNat : Nat) : ℚ) * (2 : ℚ) ^ te := by
    push_cast
    rw [← zpow_natCast, ← zpow_add₀ (two_ne_zero)]; congr 1; omega
  have hx : (m : ℚ) * (2 : ℚ) ^ e = (M : ℚ) * ((2 : ℚ) ^ te) ^ 2 := by
    rw [hMeq]; push_cast
    rw [mul_assoc, ← zpow_natCast, ← zpow_natCast ((2 : ℚ) ^ te), ← zpow_mul, ← zpow_add₀ (two_ne_zero)]
    congr 2; omega
  have hK : (0 : ℚ) < ((2 ^ (tg - te).toNat : Nat) : ℚ) := by exact_mod_cast Nat.two_pow_pos _
  generalize 2 ^ (tg - te).toNat = K at *
  have hAq : (4 * (M : ℚ)) ≤ (2 * ((q : ℚ) * (K : ℚ)) + (K : ℚ)) * (2 * ((q : ℚ) * (K : ℚ)) + (K : ℚ)) := by
    exact_mod_cast hA
  have hT2 : (0 : ℚ) < ((2 : ℚ) ^ te) ^ 2 := by positivity
  refine ⟨(q : ℚ) * (2 : ℚ) ^ tg, tg, hge, ?_, ?_, Shape.canon hs, ?_, ?_, ?_, ?_⟩
  · rw [uval_of_shape hs]; simp [sgnQ]
  · exact mul_nonneg (Nat.cast_nonneg _) (two_zpow_pos _).le
  · rcases Shape.zeroOrFin hs with h | ⟨m', e', p', h⟩ <;> rw [h] <;> rfl
  · rw [hx, htg]
    have : ((q : ℚ) * ((K : ℚ) * (2 : ℚ) ^ te) + (K : ℚ) * (2 : ℚ) ^ te / 2) ^ 2 =
        (2 * ((q : ℚ) * (K : ℚ)) + (K : ℚ)) * (2 * ((q : ℚ) * (K : ℚ)) + (K : ℚ)) * ((2 : ℚ) ^ te) ^ 2 / 4 := by ring
    rw [this, le_div_iff₀ (by norm_num)]
    calc (M : ℚ) * ((2 : ℚ) ^ te) ^ 2 * 4 = 4 * (M : ℚ) * ((2 : ℚ) ^ te) ^ 2 := by ring
      _ ≤ _ := mul_le_mul_of_nonneg_right hAq hT2.le
  · intro hh
    rw [htg] at hh ⊢
    have hk : K ≤ 2 * (q * K) := by
      have h1 : (K : ℚ) * (2 : ℚ) ^ te ≤ (2 * ((q : ℚ) * (K : ℚ))) * (2 : ℚ) ^ te := by linarith
      have h2 : (K : ℚ) ≤ 2 * ((q : ℚ) * (K : ℚ)) := le_of_mul_le_mul_right h1 hT
      exact_mod_cast h2
    have hBq : ((2 * ((q : ℚ) * (K : ℚ)) - (K : ℚ)) * (2 * ((q : ℚ) * (K : ℚ)) - (K : ℚ))) ≤ 4 * (M : ℚ) := by
      have := hB hk
      have c : ((2 * (q * K) - K : Nat) : ℚ) = 2 * ((q : ℚ) * (K : ℚ)) - (K : ℚ) := by
        rw [Nat.cast_sub hk]; push_cast; ring
      rw [← c]; exact_mod_cast this
    rw [hx]
    have : ((q : ℚ) * ((K : ℚ) * (2 : ℚ) ^ te) - (K : ℚ) * (2 : ℚ) ^ te / 2) ^ 2 =
        (2 * ((q : ℚ) * (K : ℚ)) - (K : ℚ)) * (2 * ((q : ℚ) * (K : ℚ)) - (K : ℚ)) * ((2 : ℚ) ^ te) ^ 2 / 4 := by ring
    rw [this, div_le_iff₀ (by norm_num)]
    calc _ ≤ 4 * (M : ℚ) * ((2 : ℚ) ^ te) ^ 2 := mul_le_mul_of_nonneg_right hBq hT2.le
      _ = _ := by ring
  · rcases hn with h | h
    · exact Or.inl h
    · right
      have : ((2 : ℚ) ^ (spec.mantissaBits - 1)) ≤ (q : ℚ) := by exact_mod_cast h
      exact mul_le_mul_of_nonneg_right this (two_zpow_pos _).le

/-! ### `Float` (binary64) -/

/-- **double `sqrt` is correctly rounded** (in squares): for a finite `x ≥ 0` (`−0` included) with finite `sqrt x`,
`r = toRat (sqrt x) ≥ 0` and there is `h` — half an ulp of `r`, `0 ≤ h ≤ 2⁻⁵³ · r` — with
`(r − h)² ≤ toRat x ≤ (r + h)²`, i.e. `r − h ≤ √x ≤ r + h`. The result of `sqrt` is never subnormal. -/
theorem sqrt_half_ulp_float (x : Float) (hx : x.isFinite = true) (h0 : Scalar.le (0 : Float) x = true)
    (hr : (Scalar.sqrt x : Float).isFinite = true) :
    0 ≤ toRat (Scalar.sqrt x : Float) ∧
    ∃ h : ℚ, 0 ≤ h ∧ h ≤ (2 : ℚ) ^ (-53 : Int) * toRat (Scalar.sqrt x : Float) ∧
      (toRat (Scalar.sqrt x : Float) - h) ^ 2 ≤ toRat x ∧ toRat x ≤ (toRat (Scalar.sqrt x : Float) + h) ^ 2 := by
  have hx' : x.toModel.unpack.isFinite = true := hx
  have hr' : (Scalar.sqrt x : Float).toModel.unpack.isFinite = true := hr
  have hcx := float_canon x
  rw [FB.le_zero_float] at h0
  unfold toRat
  rw [FB.float_sqrt_unpack] at hr' ⊢
  generalize x.toModel.unpack = u at *
  rcases FMR.nonneg_cases u h0 with ⟨s, rfl⟩ | ⟨m, e, hm, rfl⟩ | rfl
  · have : UnpackedFloat.sqrt Format.binary64 (.zero s) = .zero s := rfl
    rw [this]
    unfold FMR.repack
    rw [FM.unpack_pack_zero (by decide)]
    refine ⟨le_refl _, 0, le_refl _, by simp [uval], by simp [uval], by simp [uval]⟩
  · obtain ⟨r, tg, htg, hv, hr0, hc, _, hU, hL, hn⟩ := sqrt_err_unpacked Format.binary64 m e hm
    have hrep : FMR.repack Format.binary64 (UnpackedFloat.sqrt Format.binary64 (.finite .positive m e hm)) =
        UnpackedFloat.sqrt Format.binary64 (.finite .positive m e hm) := by
      rcases repack_cases Format.binary64 (by decide) _ hc with ⟨h1, _⟩ | ⟨s', m', e', p, _, _, h1⟩
      · exact h1
      · rw [h1] at hr'; cases hr'
    rw [hrep, hv]
    have hxv : uval (.finite .positive m e hm) = (m : ℚ) * (2 : ℚ) ^ e := by simp [uval, sgnQ]
    rw [hxv]
    refine ⟨hr0, (2 : ℚ) ^ tg / 2, (div_pos (two_zpow_pos _) (by norm_num)).le, ?_⟩
    rw [b64_mantissaBits, b64_minExponent] at *
    -- the result is never subnormal
    have hnorm : (2 : ℚ) ^ (53 - 1) * (2 : ℚ) ^ tg ≤ r := by
      rcases hn with h | h
      · subst h
        by_contra hc'
        rw [not_le] at hc'
        have hxge : (2 : ℚ) ^ (-1074 : Int) ≤ (m : ℚ) * (2 : ℚ) ^ e := by
          have h1 : (1 : ℚ) ≤ (m : ℚ) := by exact_mod_cast hm
          have h2 : (2 : ℚ) ^ (-1074 : Int) ≤ (2 : ℚ) ^ e :=
            zpow_le_zpow_right₀ (by norm_num) (CanonFin.ge hcx)
          calc (2 : ℚ) ^ (-1074 : Int) ≤ 1 * (2 : ℚ) ^ e := by rw [one_mul]; exact h2
            _ ≤ _ := mul_le_mul_of_nonneg_right h1 (two_zpow_pos _).le
        have ha := two_zpow_pos (-537)
        have e1 : (2 : ℚ) ^ (-1074 : Int) = ((2 : ℚ) ^ (-537 : Int)) ^ 2 := by
          rw [← zpow_natCast, ← zpow_mul]; norm_num
        have e2 : (2 : ℚ) ^ (53 - 1) * (2 : ℚ) ^ (-1074 : Int) ≤ (2 : ℚ) ^ (-537 : Int) / 2 := by
          have a1 : (2 : ℚ) ^ (53 - 1) * (2 : ℚ) ^ (-1074 : Int) = (2 : ℚ) ^ (-1022 : Int) := by
            rw [← zpow_natCast, ← zpow_add₀ (two_ne_zero)]; norm_num
          have a2 : (2 : ℚ) ^ (-537 : Int) / 2 = (2 : ℚ) ^ (-538 : Int) := by
            rw [show (-538 : Int) = -537 - 1 by norm_num, zpow_sub_one₀ (two_ne_zero)]; ring
          rw [a1, a2]
          exact zpow_le_zpow_right₀ (by norm_num) (by norm_num)
        have e3 : (2 : ℚ) ^ (-1074 : Int) / 2 ≤ (2 : ℚ) ^ (-537 : Int) / 2 :=
          div_le_div_of_nonneg_right (zpow_le_zpow_right₀ (by norm_num) (by norm_num)) (by norm_num)
        have hlt : r + (2 : ℚ) ^ (-1074 : Int) / 2 < (2 : ℚ) ^ (-537 : Int) :=
          calc r + (2 : ℚ) ^ (-1074 : Int) / 2
              < (2 : ℚ) ^ (53 - 1) * (2 : ℚ) ^ (-1074 : Int) + (2 : ℚ) ^ (-1074 : Int) / 2 := add_lt_add_left hc' _
            _ ≤ (2 : ℚ) ^ (-537 : Int) / 2 + (2 : ℚ) ^ (-537 : Int) / 2 := add_le_add e2 e3
            _ = (2 : ℚ) ^ (-537 : Int) := by ring
        have hsq : (r + (2 : ℚ) ^ (-1074 : Int) / 2) ^ 2 < ((2 : ℚ) ^ (-537 : Int)) ^ 2 :=
          pow_lt_pow_left₀ hlt (add_nonneg hr0 (div_pos (two_zpow_pos _) (by norm_num)).le) (by norm_num)
        rw [← e1] at hsq
        linarith
      · exact h
    have hh : (2 : ℚ) ^ tg / 2 ≤ (2 : ℚ) ^ (-53 : Int) * r := by
      have : (2 : ℚ) ^ tg / 2 = (2 : ℚ) ^ (-53 : Int) * ((2 : ℚ) ^ (53 - 1) * (2 : ℚ) ^ tg) := by
        rw [← mul_assoc, ← zpow_natCast, ← zpow_add₀ (two_ne_zero)]
        norm_num
        ring
      rw [this]
      exact mul_le_mul_of_nonneg_left hnorm (two_zpow_pos _).le
    have hle : (2 : ℚ) ^ tg / 2 ≤ r := by
      have : (2 : ℚ) ^ (-53 : Int) * r ≤ 1 * r := mul_le_mul_of_nonneg_right (by norm_num) hr0
      linarith
    exact ⟨hh, hL hle, hU⟩
  · cases hx'

/-- **the usable algebraic form of the error of `sqrt`**: with `r = toRat (sqrt x)`,
`r² (1 − 2⁻⁵²) ≤ toRat x ≤ r² (1 + 2⁻⁵³)²` (`(1 + 2⁻⁵³)² = 1 + 2⁻⁵² + 2⁻¹⁰⁶`), and `r ≥ 0`. -/
theorem sqrt_sq_err_float (x : Float) (hx : x.isFinite = true) (h0 : Scalar.le (0 : Float) x = true)
    (hr : (Scalar.sqrt x : Float).isFinite = true) :
    0 ≤ toRat (Scalar.sqrt x : Float) ∧
    toRat (Scalar.sqrt x : Float) ^ 2 * (1 - (2 : ℚ) ^ (-52 : Int)) ≤ toRat x ∧
    toRat x ≤ toRat (Scalar.sqrt x : Float) ^ 2 * (1 + (2 : ℚ) ^ (-53 : Int)) ^ 2 := by
  obtain ⟨hr0, h, hh0, hh, hL, hU⟩ := sqrt_half_ulp_float x hx h0 hr
  generalize toRat (Scalar.sqrt x : Float) = r at *
  have hu : (2 : ℚ) ^ (-53 : Int) ≤ 1 := by norm_num
  refine ⟨hr0, ?_, ?_⟩
  · have h1 : (r - (2 : ℚ) ^ (-53 : Int) * r) ^ 2 ≤ (r - h) ^ 2 :=
      pow_le_pow_left₀ (by nlinarith) (by linarith) 2
    have h2 : r ^ 2 * (1 - (2 : ℚ) ^ (-52 : Int)) ≤ (r - (2 : ℚ) ^ (-53 : Int) * r) ^ 2 := by
      have : (r - (2 : ℚ) ^ (-53 : Int) * r) ^ 2 = r ^ 2 * (1 - (2 : ℚ) ^ (-53 : Int)) ^ 2 := by ring
      rw [this]
      exact mul_le_mul_of_nonneg_left (by norm_num) (sq_nonneg r)
    linarith
  · have h1 : (r + h) ^ 2 ≤ (r + (2 : ℚ) ^ (-53 : Int) * r) ^ 2 :=
      pow_le_pow_left₀ (by linarith) (by linarith) 2
    have : (r + (2 : ℚ) ^ (-53 : Int) * r) ^ 2 = r ^ 2 * (1 + (2 : ℚ) ^ (-53 : Int)) ^ 2 := by ring
    linarith

/-! ### non-vacuity / sharpness (closed doubles, evaluated by the kernel) -/

section Examples

/-- the hypotheses of `sqrt_sq_err_float` hold on `x = 2`, and the instance. -/
example : toRat (Scalar.sqrt (2 : Float) : Float) ^ 2 * (1 - (2 : ℚ) ^ (-52 : Int)) ≤ toRat (2 : Float) ∧
    toRat (2 : Float) ≤ toRat (Scalar.sqrt (2 : Float) : Float) ^ 2 * (1 + (2 : ℚ) ^ (-53 : Int)) ^ 2 :=
  (sqrt_sq_err_float 2 (by decide +kernel) (by decide +kernel) (by decide +kernel)).2

/-- … computed: `sqrt 2 = 6369051672525773 · 2⁻⁵²` (`0x3FF6A09E667F3BCD`), `r² − 2 = 5545866846675497 · 2⁻¹⁰⁴ ≠ 0`
(`r² = 2 (1 + 0.61… · 2⁻⁵³)`): the root is inexact and well inside the bound. -/
example : (Scalar.sqrt (2 : Float) : Float) = Float.ofBits 0x3FF6A09E667F3BCD ∧
    toRat (Float.ofBits 0x3FF6A09E667F3BCD) ^ 2 - toRat (2 : Float) =
      5545866846675497 / 20282409603651670423947251286016 := by
  have hs : (Float.ofBits 0x3FF6A09E667F3BCD).toModel.unpack = .finite .positive 6369051672525773 (-52) (by decide) := by
    rw [FM.float_unpack_ofBits _ (by decide)]; rfl
  have h2 : (2 : Float).toModel.unpack = .finite .positive 4503599627370496 (-51) (by decide) := by
    have : (2 : Float) = Float.ofBits 0x4000000000000000 := by decide +kernel
    rw [this, FM.float_unpack_ofBits _ (by decide)]; rfl
  refine ⟨by decide +kernel, ?_⟩
  rw [toRat_of_unpack hs, toRat_of_unpack h2]
  norm_num [sgnQ]

/-- exact roots are exact (`h` can be taken `0`): `sqrt 4 = 2`; `sqrt` of the smallest subnormal `2⁻¹⁰⁷⁴` is the normal
`2⁻⁵³⁷` (the result of `sqrt` is never subnormal); `sqrt(−0) = −0`. -/
example : (Scalar.sqrt (4 : Float) : Float) = 2 ∧
    (Scalar.sqrt (Float.ofBits 1) : Float) = Float.ofBits 0x1E60000000000000 ∧
    (Scalar.sqrt (Float.ofBits 0x8000000000000000) : Float).toBits = 0x8000000000000000 := by decide +kernel

/-- the hypothesis `0 ≤ x` is needed: `sqrt(−1)` is a NaN (value `0` by convention, `0² ≠ −1`). -/
example : (Scalar.sqrt (-1 : Float) : Float).isNaN = true ∧ Scalar.le (0 : Float) (-1) = false := by decide +kernel

end Examples

end Rosu.FErr
