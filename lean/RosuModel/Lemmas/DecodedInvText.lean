/-
  Lemmas/DecodedInvText.lean — what the decoder's text primitives guarantee about ANY input (not only about the
  encoder's output): `trim` is idempotent and yields an infix, `trim_comment` yields a `//`-free prefix, the key of
  `KeyValue::parse` has no colon, comma-split fields have no comma, `clean_filename` / `to_standardized_path` leave no
  backslash and no outer quote; and the range facts of the integer parsers (`i32::from_str`, `u8::from_str`,
  `parse_with_limits`). Used by Lemmas/DecodedInvSections.lean for the `Decoded` invariant of DESIGN 5.4.
-/
import RosuModel.Lemmas.CodecLaws
namespace Rosu
namespace DecodedInv
open Rosu EncodeLines Scalar

/-! ### prefixes, suffixes, infixes -/

theorem trimStart_suffix (s : Str) : trimStart s <:+ s := by
  induction s with
  | nil => exact List.suffix_refl _
  | cons c cs ih =>
    rw [trimStart]
    split
    · exact List.IsSuffix.trans ih (List.suffix_cons c cs)
    · exact List.suffix_refl _

theorem trimEnd_prefix (s : Str) : trimEnd s <+: s := by
  induction s with
  | nil => exact List.prefix_refl _
  | cons c cs ih =>
    rw [trimEnd]
    cases h : trimEnd cs with
    | nil =>
      simp only []
      split
      · exact List.nil_prefix
      · exact ⟨cs, rfl⟩
    | cons x xs =>
      simp only []
      rw [h] at ih
      exact (List.prefix_cons_inj c).mpr ih

theorem trim_infix (s : Str) : trim s <:+: s :=
  List.IsInfix.trans (trimEnd_prefix _).isInfix (trimStart_suffix s).isInfix

theorem beforeDoubleSlash_prefix (s : Str) : beforeDoubleSlash s <+: s := by
  induction s with
  | nil => exact List.prefix_refl _
  | cons a t ih =>
    cases t with
    | nil => exact List.prefix_refl _
    | cons b rest =>
      rw [beforeDoubleSlash]
      split
      · exact List.nil_prefix
      · exact (List.prefix_cons_inj a).mpr ih

theorem trimComment_prefix (s : Str) : trimComment s <+: s :=
  List.IsPrefix.trans (trimEnd_prefix _) (beforeDoubleSlash_prefix s)

theorem not_mem_of_infix {a b : Str} (h : a <:+: b) {c : Char} (hc : c ∉ b) : c ∉ a :=
  fun hm => hc (h.subset hm)

theorem not_mem_trim {s : Str} {c : Char} (h : c ∉ s) : c ∉ trim s := not_mem_of_infix (trim_infix s) h
theorem not_mem_trimComment {s : Str} {c : Char} (h : c ∉ s) : c ∉ trimComment s :=
  not_mem_of_infix (trimComment_prefix s).isInfix h

/-! ### `//` -/

theorem hasDS_tail {x : Char} {s : Str} (h : hasDS (x :: s) = false) : hasDS s = false := by
  cases s with
  | nil => rfl
  | cons y ys =>
    simp only [hasDS, Bool.or_eq_false_iff] at h
    exact h.2

theorem hasDS_of_suffix {a b : Str} (h : a <:+ b) (hb : hasDS b = false) : hasDS a = false := by
  obtain ⟨t, rfl⟩ := h
  induction t with
  | nil => exact hb
  | cons x xs ih => exact ih (hasDS_tail hb)

theorem hasDS_of_prefix {a b : Str} (h : a <+: b) (hb : hasDS b = false) : hasDS a = false := by
  induction a generalizing b with
  | nil => rfl
  | cons x xs ih =>
    obtain ⟨t, rfl⟩ := h
    cases xs with
    | nil => rfl
    | cons y ys =>
      simp only [List.cons_append, hasDS, Bool.or_eq_false_iff] at hb ⊢
      exact ⟨hb.1, ih ⟨t, rfl⟩ hb.2⟩

theorem hasDS_of_infix {a b : Str} (h : a <:+: b) (hb : hasDS b = false) : hasDS a = false := by
  obtain ⟨s, t, rfl⟩ := h
  exact hasDS_of_suffix ⟨s, rfl⟩ (hasDS_of_prefix ⟨t, rfl⟩ hb)

theorem hasDS_beforeDoubleSlash (s : Str) : hasDS (beforeDoubleSlash s) = false := by
  induction s with
  | nil => rfl
  | cons a t ih =>
    cases t with
    | nil => rfl
    | cons b rest =>
      rw [beforeDoubleSlash]
      by_cases hab : (a == '/' && b == '/') = true
      · simp [hab, hasDS]
      · have hab' : (a == '/' && b == '/') = false := by simpa using hab
        simp only [hab', Bool.false_eq_true, if_false]
        -- `beforeDoubleSlash (b :: rest)` starts with `b` or is empty
        cases hr : beforeDoubleSlash (b :: rest) with
        | nil => rfl
        | cons y ys =>
          have hy : y = b := by
            cases rest with
            | nil => simp [beforeDoubleSlash] at hr; exact hr.1.symm
            | cons c r =>
              rw [beforeDoubleSlash] at hr
              split at hr
              · cases hr
              · injection hr with h1 _; exact h1.symm
          subst hy
          rw [hr] at ih
          simp only [hasDS, hab', Bool.false_or]
          exact ih

/-- **`trim_comment` leaves no `//`.** -/
theorem hasDS_trimComment (s : Str) : hasDS (trimComment s) = false :=
  hasDS_of_prefix (trimEnd_prefix _) (hasDS_beforeDoubleSlash s)

/-! ### `trim` -/

theorem trimStart_of_head_or_nil (s : Str) : trimStart (trimStart s) = trimStart s := by
  induction s with
  | nil => rfl
  | cons c cs ih =>
    by_cases hc : isWs c = true
    · rw [trimStart, if_pos hc, ih]
    · have : trimStart (c :: cs) = c :: cs := by rw [trimStart, if_neg hc]
      rw [this, this]

theorem trimStart_head_not_ws {s : Str} {c : Char} {r : Str} (h : trimStart s = c :: r) : isWs c = false := by
  induction s with
  | nil => cases h
  | cons x xs ih =>
    rw [trimStart] at h
    split at h
    · exact ih h
    · rename_i hx
      injection h with h1 _
      subst h1
      simpa using hx

/-- **`trim` is idempotent.** -/
theorem trim_idem (s : Str) : trim (trim s) = trim s := by
  unfold trim
  cases ht : trimEnd (trimStart s) with
  | nil => rfl
  | cons c r =>
    -- the head of `trimEnd (trimStart s)` is the head of `trimStart s`, which is not white space
    have hp := trimEnd_prefix (trimStart s)
    rw [ht] at hp
    obtain ⟨t, ht'⟩ := hp
    have hc : isWs c = false := trimStart_head_not_ws (s := s) (c := c) (r := r ++ t) (by rw [← ht']; rfl)
    rw [trimStart_of_head hc, ← ht, trimEnd_idem]

/-- mapping characters by a function that keeps white space white space and other characters other characters commutes
with `trim`. -/
theorem trimStart_map (f : Char → Char) (hf : ∀ c, isWs (f c) = isWs c) (s : Str) : trimStart (s.map f) = (trimStart s).map f := by
  induction s with
  | nil => rfl
  | cons c cs ih =>
    simp only [List.map_cons, trimStart, hf]
    split
    · exact ih
    · rfl

theorem trimEnd_map (f : Char → Char) (hf : ∀ c, isWs (f c) = isWs c) (s : Str) : trimEnd (s.map f) = (trimEnd s).map f := by
  induction s with
  | nil => rfl
  | cons c cs ih =>
    simp only [List.map_cons]
    rw [trimEnd, trimEnd, ih]
    cases h : trimEnd cs with
    | nil =>
      simp only [List.map_nil, hf]
      split <;> rfl
    | cons x xs => rfl

theorem trim_map (f : Char → Char) (hf : ∀ c, isWs (f c) = isWs c) (s : Str) : trim (s.map f) = (trim s).map f := by
  unfold trim
  rw [trimStart_map f hf, trimEnd_map f hf]

/-! ### `to_standardized_path`, `clean_filename` -/

theorem std_ws (c : Char) : isWs (if c == '\\' then '/' else c) = isWs c := by
  by_cases h : c = '\\'
  · subst h; decide
  · have : (c == '\\') = false := by simpa using h
    simp [this]

theorem trim_toStandardizedPath (s : Str) : trim (toStandardizedPath s) = toStandardizedPath (trim s) :=
  trim_map _ std_ws s

/-- a standardised trimmed text is its own trim. -/
theorem trim_std_trim (s : Str) : trim (toStandardizedPath (trim s)) = toStandardizedPath (trim s) := by
  rw [trim_toStandardizedPath, trim_idem]

theorem no_backslash_std (s : Str) : '\\' ∉ toStandardizedPath s := by
  unfold toStandardizedPath replaceChar
  intro hm
  obtain ⟨c, _, hc⟩ := List.mem_map.mp hm
  by_cases h : c = '\\'
  · subst h; revert hc; decide
  · have : (c == '\\') = false := by simpa using h
    rw [this] at hc
    exact h (by simpa using hc)

theorem not_mem_std {s : Str} {d : Char} (hd : d ≠ '/') (h : d ∉ s) : d ∉ toStandardizedPath s := by
  unfold toStandardizedPath replaceChar
  intro hm
  obtain ⟨c, hcs, hc⟩ := List.mem_map.mp hm
  by_cases hb : (c == '\\') = true
  · rw [if_pos hb] at hc; exact hd hc.symm
  · rw [if_neg hb] at hc; subst hc; exact h hcs

theorem collapse_subset (s : Str) : ∀ c ∈ collapseBackslashes s, c ∈ s := by
  induction s using collapseBackslashes.induct with
  | case1 => intro c h; exact h
  | case2 x => intro c h; exact h
  | case3 a b rest hab ih =>
    intro c h
    rw [collapseBackslashes, if_pos hab] at h
    rcases List.mem_cons.mp h with h | h
    · have : a = '\\' := by simpa using (Bool.and_eq_true_iff.mp hab).1
      rw [h, ← this]; exact List.mem_cons_self
    · exact List.mem_cons_of_mem _ (List.mem_cons_of_mem _ (ih c h))
  | case4 a b rest hab ih =>
    intro c h
    rw [collapseBackslashes, if_neg hab] at h
    rcases List.mem_cons.mp h with h | h
    · rw [h]; exact List.mem_cons_self
    · exact List.mem_cons_of_mem _ (ih c h)

theorem dropWhileEq_suffix (c : Char) (s : Str) : dropWhileEq c s <:+ s := by
  induction s with
  | nil => exact List.suffix_refl _
  | cons x xs ih =>
    rw [dropWhileEq]
    split
    · exact List.IsSuffix.trans ih (List.suffix_cons x xs)
    · exact List.suffix_refl _

theorem dropEndEq_prefix (c : Char) (s : Str) : dropEndEq c s <+: s := by
  induction s with
  | nil => exact List.prefix_refl _
  | cons x xs ih =>
    rw [dropEndEq]
    cases h : dropEndEq c xs with
    | nil =>
      simp only []
      split
      · exact List.nil_prefix
      · exact ⟨xs, rfl⟩
    | cons y ys =>
      simp only []
      rw [h] at ih
      exact (List.prefix_cons_inj x).mpr ih

theorem trimMatches_infix (c : Char) (s : Str) : trimMatches c s <:+: s :=
  List.IsInfix.trans (dropEndEq_prefix c _).isInfix (dropWhileEq_suffix c s).isInfix

/-- **what `clean_filename` cannot contain**: any character other than `/` that the input did not contain (comma, line
feed, …), and no backslash at all. -/
theorem not_mem_cleanFilename {s : Str} {d : Char} (hd : d ≠ '/') (h : d ∉ s) : d ∉ cleanFilename s := by
  unfold cleanFilename
  apply not_mem_std hd
  intro hm
  exact not_mem_of_infix (trimMatches_infix '"' s) h (collapse_subset _ d hm)

theorem no_backslash_cleanFilename (s : Str) : '\\' ∉ cleanFilename s := no_backslash_std _

theorem dropWhileEq_head (c : Char) (s : Str) : (dropWhileEq c s).head? ≠ some c := by
  induction s with
  | nil => simp [dropWhileEq]
  | cons x xs ih =>
    rw [dropWhileEq]
    split
    · exact ih
    · rename_i hx
      simp only [List.head?_cons, ne_eq, Option.some.injEq]
      intro e; exact hx (by simp [e])

theorem dropEndEq_last (c : Char) (s : Str) : (dropEndEq c s).getLast? ≠ some c := by
  induction s with
  | nil => simp [dropEndEq]
  | cons x xs ih =>
    rw [dropEndEq]
    cases h : dropEndEq c xs with
    | nil =>
      simp only []
      split
      · simp
      · rename_i hx
        simp only [List.getLast?_singleton, ne_eq, Option.some.injEq]
        intro e; exact hx (by simp [e])
    | cons y ys =>
      simp only []
      rw [List.getLast?_cons_cons, ← h]
      exact ih

theorem dropEndEq_head (c : Char) (s : Str) (h : s.head? ≠ some c) : (dropEndEq c s).head? ≠ some c := by
  intro hm
  have hp := dropEndEq_prefix c s
  cases hd : dropEndEq c s with
  | nil => rw [hd] at hm; cases hm
  | cons y ys =>
    rw [hd] at hm hp
    obtain ⟨t, ht⟩ := hp
    rw [← ht] at h
    exact h hm

theorem collapse_head (s : Str) (c : Char) (hc : c ≠ '\\') (h : s.head? ≠ some c) : (collapseBackslashes s).head? ≠ some c := by
  cases s with
  | nil => simp [collapseBackslashes]
  | cons a t =>
    cases t with
    | nil => exact h
    | cons b rest =>
      rw [collapseBackslashes]
      split
      · simp only [List.head?_cons, ne_eq, Option.some.injEq]; exact fun e => hc e.symm
      · exact h

theorem collapse_last (s : Str) : (collapseBackslashes s).getLast? = s.getLast? := by
  induction s using collapseBackslashes.induct with
  | case1 => rfl
  | case2 x => rfl
  | case3 a b rest hab ih =>
    rw [collapseBackslashes, if_pos hab]
    have hb : b = '\\' := by simpa using (Bool.and_eq_true_iff.mp hab).2
    cases rest with
    | nil => simp [collapseBackslashes, hb]
    | cons x xs =>
      have hne : collapseBackslashes (x :: xs) ≠ [] := by
        cases xs with
        | nil => simp [collapseBackslashes]
        | cons y ys => rw [collapseBackslashes]; split <;> simp
      cases hcr : collapseBackslashes (x :: xs) with
      | nil => exact absurd hcr hne
      | cons y ys =>
        rw [List.getLast?_cons_cons, ← hcr, ih]
        simp [List.getLast?_cons_cons]
  | case4 a b rest hab ih =>
    rw [collapseBackslashes, if_neg hab]
    have hne : collapseBackslashes (b :: rest) ≠ [] := by
      cases rest with
      | nil => simp [collapseBackslashes]
      | cons y ys => rw [collapseBackslashes]; split <;> simp
    cases hcr : collapseBackslashes (b :: rest) with
    | nil => exact absurd hcr hne
    | cons y ys =>
      rw [List.getLast?_cons_cons, ← hcr, ih]
      simp [List.getLast?_cons_cons]

theorem std_head (s : Str) (c : Char) (hc : c ≠ '/') (h : s.head? ≠ some c) : (toStandardizedPath s).head? ≠ some c := by
  cases s with
  | nil => simp [toStandardizedPath, replaceChar]
  | cons a t =>
    simp only [toStandardizedPath, replaceChar, List.map_cons, List.head?_cons, ne_eq, Option.some.injEq] at h ⊢
    split
    · exact fun e => hc e.symm
    · exact h

theorem std_last (s : Str) (c : Char) (hc : c ≠ '/') (h : s.getLast? ≠ some c) : (toStandardizedPath s).getLast? ≠ some c := by
  unfold toStandardizedPath replaceChar
  rw [List.getLast?_map]
  cases hl : s.getLast? with
  | none => simp
  | some x =>
    rw [hl] at h
    simp only [Option.map_some, ne_eq, Option.some.injEq]
    split
    · exact fun e => hc e.symm
    · exact fun e => h (by rw [e])

/-- **a cleaned file name neither starts nor ends with a double quote.** -/
theorem cleanFilename_head (s : Str) : (cleanFilename s).head? ≠ some '"' := by
  unfold cleanFilename trimMatches
  exact std_head _ _ (by decide) (collapse_head _ _ (by decide) (dropEndEq_head _ _ (dropWhileEq_head _ _)))

theorem cleanFilename_last (s : Str) : (cleanFilename s).getLast? ≠ some '"' := by
  unfold cleanFilename trimMatches
  apply std_last _ _ (by decide)
  rw [collapse_last]
  exact dropEndEq_last _ _

/-! ### `split_once(':')`, `KeyValue::parse`, `split(',')` -/

theorem splitOnce_some {sep : Char} {s k v : Str} (h : splitOnce sep s = some (k, v)) : s = k ++ sep :: v ∧ sep ∉ k := by
  induction s generalizing k with
  | nil => cases h
  | cons c cs ih =>
    rw [splitOnce] at h
    by_cases hc : (c == sep) = true
    · rw [if_pos hc] at h
      injection h with h
      injection h with h1 h2
      subst h1; subst h2
      have : c = sep := by simpa using hc
      exact ⟨by rw [this]; rfl, by simp⟩
    · rw [if_neg hc] at h
      cases hr : splitOnce sep cs with
      | none => rw [hr] at h; cases h
      | some p =>
        obtain ⟨a, b⟩ := p
        rw [hr] at h
        injection h with h
        injection h with h1 h2
        subst h1; subst h2
        obtain ⟨e1, e2⟩ := ih hr
        refine ⟨by rw [e1]; rfl, ?_⟩
        intro hm
        rcases List.mem_cons.mp hm with hm | hm
        · exact hc (by simp [hm])
        · exact e2 hm

theorem splitOnce_none_iff {sep : Char} {s : Str} (h : splitOnce sep s = none) : sep ∉ s := by
  induction s with
  | nil => simp
  | cons c cs ih =>
    rw [splitOnce] at h
    by_cases hc : (c == sep) = true
    · rw [if_pos hc] at h; cases h
    · rw [if_neg hc] at h
      cases hr : splitOnce sep cs with
      | some p => rw [hr] at h; cases h
      | none =>
        intro hm
        rcases List.mem_cons.mp hm with hm | hm
        · exact hc (by simp [hm])
        · exact ih hr hm

/-- **`KeyValue::parse`, whatever the line**: key and value are their own trims and infixes of the line; the key has no
colon. -/
theorem kvSplit_facts (s : Str) :
    trim (kvSplit s).1 = (kvSplit s).1 ∧ trim (kvSplit s).2 = (kvSplit s).2 ∧
    (kvSplit s).1 <:+: s ∧ (kvSplit s).2 <:+: s ∧ ':' ∉ (kvSplit s).1 := by
  unfold kvSplit
  cases h : splitOnce ':' s with
  | none =>
    simp only []
    exact ⟨trim_idem s, rfl, trim_infix s, ⟨[], s, by simp⟩, not_mem_trim (splitOnce_none_iff h)⟩
  | some p =>
    obtain ⟨k, v⟩ := p
    simp only []
    obtain ⟨e, hk⟩ := splitOnce_some h
    refine ⟨trim_idem k, trim_idem v, ?_, ?_, not_mem_trim hk⟩
    · exact List.IsInfix.trans (trim_infix k) ⟨[], ':' :: v, by simp [e]⟩
    · exact List.IsInfix.trans (trim_infix v) ⟨k ++ [':'], [], by simp [e]⟩

/-- a comma-split field is an infix of the text and contains no comma. -/
theorem splitOn_facts (sep : Char) (s : Str) : ∀ p ∈ splitOn sep s, p <:+: s ∧ sep ∉ p := by
  induction s with
  | nil =>
    intro p hp
    simp only [splitOn, List.mem_singleton] at hp
    subst hp
    exact ⟨List.infix_refl _, by simp⟩
  | cons c cs ih =>
    intro p hp
    rw [splitOn] at hp
    by_cases hc : (c == sep) = true
    · rw [if_pos hc] at hp
      rcases List.mem_cons.mp hp with hp | hp
      · subst hp; exact ⟨⟨[], c :: cs, by simp⟩, by simp⟩
      · obtain ⟨h1, h2⟩ := ih p hp
        exact ⟨List.IsInfix.trans h1 (List.suffix_cons c cs).isInfix, h2⟩
    · rw [if_neg hc] at hp
      cases hr : splitOn sep cs with
      | nil => exact absurd hr (splitOn_ne_nil sep cs)
      | cons q qs =>
        rw [hr] at hp ih
        simp only [] at hp
        rcases List.mem_cons.mp hp with hp | hp
        · subst hp
          obtain ⟨h1, h2⟩ := ih q (by simp)
          -- `q` is a prefix of `cs` here; we only need an infix
          refine ⟨?_, ?_⟩
          · -- c :: q is an infix of c :: cs because q is a *prefix* of cs
            have hq : q <+: cs := by
              clear ih hp h1 h2
              induction cs generalizing q qs with
              | nil => simp [splitOn] at hr; rw [← hr.1]; exact List.prefix_refl _
              | cons d ds ihd =>
                rw [splitOn] at hr
                by_cases hd : (d == sep) = true
                · rw [if_pos hd] at hr; injection hr with e1 _; rw [← e1]; exact List.nil_prefix
                · rw [if_neg hd] at hr
                  cases hr2 : splitOn sep ds with
                  | nil => exact absurd hr2 (splitOn_ne_nil sep ds)
                  | cons q2 qs2 =>
                    rw [hr2] at hr
                    simp only [] at hr
                    injection hr with e1 _
                    rw [← e1]
                    exact (List.prefix_cons_inj d).mpr (ihd q2 qs2 hr2)
            exact ((List.prefix_cons_inj c).mpr hq).isInfix
          · intro hm
            rcases List.mem_cons.mp hm with hm | hm
            · exact hc (by simp [hm])
            · exact h2 hm
        · obtain ⟨h1, h2⟩ := ih p (List.mem_cons_of_mem _ hp)
          exact ⟨List.IsInfix.trans h1 (List.suffix_cons c cs).isInfix, h2⟩

/-! ### integer parsers -/

theorem i32FromStr_range {s : Str} {n : Int} (h : i32FromStr s = some n) : i32Min ≤ n ∧ n ≤ i32Max := by
  unfold i32FromStr at h
  split at h
  · cases h
  · rename_i c r
    split at h
    · split at h
      · rename_i m _
        split at h
        · cases h
        · rename_i hlt
          injection h with h; subst h
          unfold i32Min i32Max at *; omega
      · cases h
    · split at h
      · split at h
        · rename_i m _
          split at h
          · cases h
          · rename_i hlt
            injection h with h; subst h
            unfold i32Min i32Max at *; omega
        · cases h
      · split at h
        · rename_i m _
          split at h
          · cases h
          · rename_i hlt
            injection h with h; subst h
            unfold i32Min i32Max at *; omega
        · cases h

theorem i32Parse_range {s : Str} {n : Int} (h : i32Parse s = some n) : -i32Max ≤ n ∧ n ≤ i32Max := by
  unfold i32Parse i32ParseWithLimits at h
  split at h
  · rename_i v _
    split at h
    · cases h
    · split at h
      · cases h
      · injection h with h; subst h; omega
  · cases h

theorem i32ParseE_range {s : Str} {n : Int} (h : i32ParseE s = .ok n) : -i32Max ≤ n ∧ n ≤ i32Max := by
  have := i32ParseE_toOption s
  rw [h] at this
  exact i32Parse_range this.symm

theorem u8FromStr_le {s : Str} {n : Nat} (h : u8FromStr s = some n) : n ≤ 255 := by
  unfold u8FromStr at h
  split at h
  · cases h
  · split at h
    · split at h
      · split at h
        · cases h
        · injection h with h; subst h; omega
      · cases h
    · split at h
      · split at h
        · cases h
        · injection h with h; subst h; omega
      · cases h

/-! ### float parsers -/

variable {α : Type} [Scalar α]

theorem floatParse_inLimit {s : Str} {x : α} (h : floatParse s = some x) : InLimit x := by
  unfold floatParse floatParseWithLimits at h
  split at h
  · cases h
  · split at h
    · cases h
    · split at h
      · cases h
      · split at h
        · cases h
        · rename_i h1 h2 h3
          injection h with h; subst h
          exact ⟨by simpa using h1, by simpa using h2, by simpa using h3⟩

theorem scalarParse_inLimit {s : Str} {x : α} (h : (scalarParse s : Except NumErr α) = .ok x) : InLimit x := by
  have := scalarParseWithLimits_toOption s (maxParseValue : α)
  unfold scalarParse at h
  rw [h] at this
  exact floatParse_inLimit (s := s) this.symm

/-- `f64::max(s, e)` is one of its arguments, and taking the maximum with `s` again changes nothing (no law). -/
theorem max_cases (s e : α) : Scalar.max s e = s ∨ Scalar.max s e = e := by
  unfold Scalar.max; split
  · exact Or.inr rfl
  · split
    · exact Or.inr rfl
    · exact Or.inl rfl

theorem max_max (s e : α) : Scalar.max s (Scalar.max s e) = Scalar.max s e := by
  by_cases h1 : lt s e = true
  · have : Scalar.max s e = e := by unfold Scalar.max; rw [if_pos h1]
    rw [this, this]
  · by_cases h2 : isNaN s = true
    · have : Scalar.max s e = e := by unfold Scalar.max; rw [if_neg h1, if_pos h2]
      rw [this, this]
    · have : Scalar.max s e = s := by unfold Scalar.max; rw [if_neg h1, if_neg h2]
      rw [this]
      unfold Scalar.max
      split
      · rfl
      · first | rfl | (split <;> rfl)

/-- `f64::clamp(x, lo, hi)` is one of `x`, `lo`, `hi`. -/
theorem clamp_cases (x lo hi : α) : clamp x lo hi = x ∨ clamp x lo hi = lo ∨ clamp x lo hi = hi := by
  unfold clamp
  simp only []
  split
  · split
    · exact Or.inr (Or.inr rfl)
    · exact Or.inr (Or.inl rfl)
  · split
    · exact Or.inr (Or.inr rfl)
    · exact Or.inl rfl

end DecodedInv
end Rosu
