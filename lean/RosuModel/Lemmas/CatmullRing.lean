/-
  Lemmas/CatmullRing.lean — the points `catmull_subpath` emits are the uniform Catmull-Rom polynomial in its
  standard basis form, over exact rational arithmetic (`ring`). Single Mathlib modules only.
-/
import Mathlib.Tactic.Ring
import Mathlib.Tactic.NormNum
import Mathlib.Algebra.Field.Rat
import RosuModel.Model.Curve
import RosuModel.Lemmas.ToyRat
namespace Rosu
open Rosu.Curve Rosu.ToyRat

/-- uniform Catmull-Rom spline through `v2 → v3` with neighbours `v1`, `v4`, standard basis form, at `t`. -/
def catmullRomStd (v1 v2 v3 v4 t : Rat) : Rat :=
  ((-t ^ 3 + 2 * t ^ 2 - t) * v1 + (3 * t ^ 3 - 5 * t ^ 2 + 2) * v2 + (-3 * t ^ 3 + 4 * t ^ 2 + t) * v3 +
    (t ^ 3 - t ^ 2) * v4) / 2

def catmullRomPt (v1 v2 v3 v4 : Pos Rat) (t : Rat) : Pos Rat :=
  ⟨catmullRomStd v1.x v2.x v3.x v4.x t, catmullRomStd v1.y v2.y v3.y v4.y t⟩

/-- **`catmull_points_on_spline`** (exact rational arithmetic): `catmull_subpath` emits, for `c = 0..49`, the
Catmull-Rom polynomial at `t = c/50` and at `t = (c+1)/50`. -/
theorem catmullSubpath_on_spline (v1 v2 v3 v4 : Pos Rat) :
    catmullSubpath v1 v2 v3 v4 =
      (List.range 50).flatMap fun (c : Nat) =>
        [catmullRomPt v1 v2 v3 v4 ((c : Rat) / 50), catmullRomPt v1 v2 v3 v4 (((c : Rat) + 1) / 50)] := by
  unfold catmullSubpath catmullPoint catmullRomPt catmullRomStd
  simp only [sMul, sAdd, sSub, sDiv, sNeg, sOfNat, sOfNat', sOfSci]
  congr 1
  funext c
  congr 1
  · congr 1 <;> (push_cast; ring)
  · congr 1
    congr 1 <;> (push_cast; ring)

end Rosu
