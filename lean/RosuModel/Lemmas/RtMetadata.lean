/-
  Lemmas/RtMetadata.lean — the `[Metadata]` block: what `encode_metadata` writes is read back by
  `parse_metadata` as the same ten fields (non-positive ids, which are not written, come back as the
  defaults −1 / 0). No number law is needed: the ids are integers.
-/
import RosuModel.Lemmas.EncodeLines
import RosuModel.Model.Encode
namespace Rosu
namespace RtMetadata
open Rosu Encode EncodeLines C11

/-- a metadata text the format can represent: equal to its own trim, no line feed. -/
def RepText (v : Str) : Prop := trim v = v ∧ '\n' ∉ v

/-- a metadata record the format can represent: the eight texts are representable and the ids are `i32`
values (anything the decoder produced is within ±(2³¹−1)). Empty texts are allowed. -/
structure RepMetadata (d : Metadata) : Prop where
  title : RepText d.title
  titleUnicode : RepText d.titleUnicode
  artist : RepText d.artist
  artistUnicode : RepText d.artistUnicode
  creator : RepText d.creator
  version : RepText d.version
  source : RepText d.source
  tags : RepText d.tags
  beatmapId : d.beatmapId ≤ i32Max
  beatmapSetId : d.beatmapSetId ≤ i32Max

/-- the record lines `encode_metadata` writes (without terminators), in order. -/
def metadataLines (d : Metadata) : List Str :=
  [kvl (str "Title") d.title] ++ optLine (!d.titleUnicode.isEmpty) (kvl (str "TitleUnicode") d.titleUnicode) ++
  [kvl (str "Artist") d.artist] ++ optLine (!d.artistUnicode.isEmpty) (kvl (str "ArtistUnicode") d.artistUnicode) ++
  [kvl (str "Creator") d.creator] ++ [kvl (str "Version") d.version] ++
  optLine (!d.source.isEmpty) (kvl (str "Source") d.source) ++ optLine (!d.tags.isEmpty) (kvl (str "Tags") d.tags) ++
  optLine (decide (d.beatmapId > 0)) (kvl (str "BeatmapID") (showInt d.beatmapId)) ++
  optLine (decide (d.beatmapSetId > 0)) (kvl (str "BeatmapSetID") (showInt d.beatmapSetId))

/-- the encoder's `[Metadata]` block is the header line followed by `metadataLines`. -/
theorem encodeMetadata_eq {F P : Type} (m : Beatmap F P) :
    encodeMetadata m = unlines (str "[Metadata]" :: metadataLines m.metadata) := by
  have hh : str "[Metadata]\n" = str "[Metadata]" ++ EncodeLines.nl := by decide
  unfold encodeMetadata metadataLines
  simp only [unlines_cons, unlines_append, unlines_optLine, unlines_nil, kvLine_eq, ite_isEmpty, decide_eq_true_eq, hh,
    List.append_assoc, List.append_nil]

/-! ### one line -/

/-- generic text line: the key is recognised and the value is the text. -/
theorem parse_text_line (st : Metadata) (key : Str) (k : MetadataKey) (v : Str)
    (hk : ':' ∉ key) (hkt : trim key = key) (hkey : MetadataKey.parse key = some k) (hv : trim v = v) :
    parseMetadata st (trimEnd (kvl key v)) =
      match k with
      | .title => ({ st with title := v }, true)
      | .titleUnicode => ({ st with titleUnicode := v }, true)
      | .artist => ({ st with artist := v }, true)
      | .artistUnicode => ({ st with artistUnicode := v }, true)
      | .creator => ({ st with creator := v }, true)
      | .version => ({ st with version := v }, true)
      | .source => ({ st with source := v }, true)
      | .tags => ({ st with tags := v }, true)
      | .beatmapId =>
        (match i32Parse v with
         | some n => ({ st with beatmapId := n }, true)
         | none => (st, false))
      | .beatmapSetId =>
        (match i32Parse v with
         | some n => ({ st with beatmapSetId := n }, true)
         | none => (st, false)) := by
  unfold parseMetadata
  rw [kvSplit_trimEnd_kvl key v hk hkt hv]
  simp only [hkey]
  cases k <;> rfl

theorem parse_title (st : Metadata) (v : Str) (hv : trim v = v) :
    parseMetadata st (trimEnd (kvl (str "Title") v)) = ({ st with title := v }, true) :=
  parse_text_line st _ .title v (by decide) (by decide) (by decide) hv
theorem parse_titleUnicode (st : Metadata) (v : Str) (hv : trim v = v) :
    parseMetadata st (trimEnd (kvl (str "TitleUnicode") v)) = ({ st with titleUnicode := v }, true) :=
  parse_text_line st _ .titleUnicode v (by decide) (by decide) (by decide) hv
theorem parse_artist (st : Metadata) (v : Str) (hv : trim v = v) :
    parseMetadata st (trimEnd (kvl (str "Artist") v)) = ({ st with artist := v }, true) :=
  parse_text_line st _ .artist v (by decide) (by decide) (by decide) hv
theorem parse_artistUnicode (st : Metadata) (v : Str) (hv : trim v = v) :
    parseMetadata st (trimEnd (kvl (str "ArtistUnicode") v)) = ({ st with artistUnicode := v }, true) :=
  parse_text_line st _ .artistUnicode v (by decide) (by decide) (by decide) hv
theorem parse_creator (st : Metadata) (v : Str) (hv : trim v = v) :
    parseMetadata st (trimEnd (kvl (str "Creator") v)) = ({ st with creator := v }, true) :=
  parse_text_line st _ .creator v (by decide) (by decide) (by decide) hv
theorem parse_version (st : Metadata) (v : Str) (hv : trim v = v) :
    parseMetadata st (trimEnd (kvl (str "Version") v)) = ({ st with version := v }, true) :=
  parse_text_line st _ .version v (by decide) (by decide) (by decide) hv
theorem parse_source (st : Metadata) (v : Str) (hv : trim v = v) :
    parseMetadata st (trimEnd (kvl (str "Source") v)) = ({ st with source := v }, true) :=
  parse_text_line st _ .source v (by decide) (by decide) (by decide) hv
theorem parse_tags (st : Metadata) (v : Str) (hv : trim v = v) :
    parseMetadata st (trimEnd (kvl (str "Tags") v)) = ({ st with tags := v }, true) :=
  parse_text_line st _ .tags v (by decide) (by decide) (by decide) hv

theorem parse_beatmapId (st : Metadata) (n : Int) (hlo : -i32Max ≤ n) (hhi : n ≤ i32Max) :
    parseMetadata st (trimEnd (kvl (str "BeatmapID") (showInt n))) = ({ st with beatmapId := n }, true) := by
  unfold showInt
  rw [parse_text_line st _ .beatmapId _ (by decide) (by decide) (by decide) (trim_intDigits n)]
  simp only [i32Parse_intDigits n hlo hhi]
theorem parse_beatmapSetId (st : Metadata) (n : Int) (hlo : -i32Max ≤ n) (hhi : n ≤ i32Max) :
    parseMetadata st (trimEnd (kvl (str "BeatmapSetID") (showInt n))) = ({ st with beatmapSetId := n }, true) := by
  unfold showInt
  rw [parse_text_line st _ .beatmapSetId _ (by decide) (by decide) (by decide) (trim_intDigits n)]
  simp only [i32Parse_intDigits n hlo hhi]

/-! ### the block -/

/-- what the format carries of a metadata record: non-positive ids are not written and come back as the
decoder's defaults. -/
def preservedMetadata (d : Metadata) : Metadata :=
  { d with beatmapId := if d.beatmapId > 0 then d.beatmapId else -1,
           beatmapSetId := if d.beatmapSetId > 0 then d.beatmapSetId else 0 }

/-- the lines of the block as the section parser receives them (end-trimmed by the reader). -/
def decodedLines (d : Metadata) : List Str := (metadataLines d).map trimEnd

/-- no line of the block contains a line feed (so `textLines` cuts the block exactly at the terminators). -/
theorem metadataLines_no_lf (d : Metadata) (h : RepMetadata d) : ∀ l ∈ metadataLines d, '\n' ∉ l := by
  have key : ∀ (k v : Str), '\n' ∉ k → '\n' ∉ v → '\n' ∉ kvl k v := by
    intro k v hk hv hm
    simp only [kvl, List.mem_append, List.mem_cons] at hm
    rcases hm with hm | hm | hm | hm
    · exact hk hm
    · exact absurd hm (by decide)
    · exact absurd hm (by decide)
    · exact hv hm
  have hint : ∀ n : Int, '\n' ∉ showInt n := fun n => intDigits_not_mem n '\n' (by decide)
  intro l hl
  simp only [metadataLines, List.mem_append, List.mem_singleton] at hl
  rcases hl with ((((((((hl | hl) | hl) | hl) | hl) | hl) | hl) | hl) | hl) | hl
  · subst hl; exact key _ _ (by decide) h.title.2
  · rw [(mem_optLine hl).2]; exact key _ _ (by decide) h.titleUnicode.2
  · subst hl; exact key _ _ (by decide) h.artist.2
  · rw [(mem_optLine hl).2]; exact key _ _ (by decide) h.artistUnicode.2
  · subst hl; exact key _ _ (by decide) h.creator.2
  · subst hl; exact key _ _ (by decide) h.version.2
  · rw [(mem_optLine hl).2]; exact key _ _ (by decide) h.source.2
  · rw [(mem_optLine hl).2]; exact key _ _ (by decide) h.tags.2
  · rw [(mem_optLine hl).2]; exact key _ _ (by decide) (hint _)
  · rw [(mem_optLine hl).2]; exact key _ _ (by decide) (hint _)

/-- every line of the block is a record line: neither a header nor skipped, whatever the texts contain
(`[General]`, `//…`, version-like text). -/
theorem metadata_lines_are_records (d : Metadata) (h : RepMetadata d) : ∀ r ∈ decodedLines d, RecordLine r := by
  intro r hr
  simp only [decodedLines, metadataLines, List.map_append, List.map_cons, List.map_nil, optLine_map,
    List.mem_append, List.mem_singleton] at hr
  rcases hr with ((((((((hr | hr) | hr) | hr) | hr) | hr) | hr) | hr) | hr) | hr
  · subst hr; exact recordLine_kvl 'T' _ _ (by decide) h.title.1
  · rw [(mem_optLine hr).2]; exact recordLine_kvl 'T' _ _ (by decide) h.titleUnicode.1
  · subst hr; exact recordLine_kvl 'A' _ _ (by decide) h.artist.1
  · rw [(mem_optLine hr).2]; exact recordLine_kvl 'A' _ _ (by decide) h.artistUnicode.1
  · subst hr; exact recordLine_kvl 'C' _ _ (by decide) h.creator.1
  · subst hr; exact recordLine_kvl 'V' _ _ (by decide) h.version.1
  · rw [(mem_optLine hr).2]; exact recordLine_kvl 'S' _ _ (by decide) h.source.1
  · rw [(mem_optLine hr).2]; exact recordLine_kvl 'T' _ _ (by decide) h.tags.1
  · rw [(mem_optLine hr).2]; exact recordLine_kvl 'B' _ _ (by decide) (trim_intDigits _)
  · rw [(mem_optLine hr).2]; exact recordLine_kvl 'B' _ _ (by decide) (trim_intDigits _)

/-- every line of the block is accepted by `parse_metadata`, in whatever state (C04 for this block). -/
theorem metadata_lines_accepted (d : Metadata) (h : RepMetadata d) :
    ∀ r ∈ decodedLines d, ∀ st, (parseMetadata st r).2 = true := by
  intro r hr st
  simp only [decodedLines, metadataLines, List.map_append, List.map_cons, List.map_nil, optLine_map,
    List.mem_append, List.mem_singleton] at hr
  rcases hr with ((((((((hr | hr) | hr) | hr) | hr) | hr) | hr) | hr) | hr) | hr
  · subst hr; rw [parse_title st _ h.title.1]
  · rw [(mem_optLine hr).2, parse_titleUnicode st _ h.titleUnicode.1]
  · subst hr; rw [parse_artist st _ h.artist.1]
  · rw [(mem_optLine hr).2, parse_artistUnicode st _ h.artistUnicode.1]
  · subst hr; rw [parse_creator st _ h.creator.1]
  · subst hr; rw [parse_version st _ h.version.1]
  · rw [(mem_optLine hr).2, parse_source st _ h.source.1]
  · rw [(mem_optLine hr).2, parse_tags st _ h.tags.1]
  · have hp : d.beatmapId > 0 := by simpa using (mem_optLine hr).1
    rw [(mem_optLine hr).2, parse_beatmapId st _ (by unfold i32Max; omega) h.beatmapId]
  · have hp : d.beatmapSetId > 0 := by simpa using (mem_optLine hr).1
    rw [(mem_optLine hr).2, parse_beatmapSetId st _ (by unfold i32Max; omega) h.beatmapSetId]

/-- the state after the block, run from the decoder's initial state. -/
theorem metadata_block_result (d : Metadata) (h : RepMetadata d) :
    runSection parseMetadata Metadata.default (decodedLines d) = preservedMetadata d := by
  have hid : d.beatmapId > 0 →
      ∀ st, parseMetadata st (trimEnd (kvl (str "BeatmapID") (showInt d.beatmapId))) = ({ st with beatmapId := d.beatmapId }, true) :=
    fun hp st => parse_beatmapId st _ (by unfold i32Max; omega) h.beatmapId
  have hsid : d.beatmapSetId > 0 →
      ∀ st, parseMetadata st (trimEnd (kvl (str "BeatmapSetID") (showInt d.beatmapSetId))) = ({ st with beatmapSetId := d.beatmapSetId }, true) :=
    fun hp st => parse_beatmapSetId st _ (by unfold i32Max; omega) h.beatmapSetId
  simp only [decodedLines, metadataLines, List.map_append, List.map_cons, List.map_nil, optLine_map, runSection_append,
    runSection_singleton, runSection_optLine,
    fun st => parse_title st _ h.title.1, fun st => parse_titleUnicode st _ h.titleUnicode.1,
    fun st => parse_artist st _ h.artist.1, fun st => parse_artistUnicode st _ h.artistUnicode.1,
    fun st => parse_creator st _ h.creator.1, fun st => parse_version st _ h.version.1,
    fun st => parse_source st _ h.source.1, fun st => parse_tags st _ h.tags.1]
  obtain ⟨t, tu, a, au, c, v, s, tg, id, sid⟩ := d
  simp only [preservedMetadata, Metadata.default] at hid hsid ⊢
  by_cases h1 : id > 0 <;> by_cases h2 : sid > 0 <;>
    simp only [h1, h2, decide_true, decide_false, if_true, if_false, hid, hsid, Bool.false_eq_true] <;>
    cases tu <;> cases au <;> cases s <;> cases tg <;> rfl

/-- **metadata_block_roundtrip** (C04 + C02 for the block): every line `encode_metadata` writes for a
representable record is a record line, is accepted by `parse_metadata`, and the block, run from the decoder's
initial state, yields the record on the preserved view — all ten fields, the id lines (written only when
positive) included; empty title / artist / creator / version (written as `Title: `) come back as `""`. -/
theorem metadata_block_roundtrip (d : Metadata) (h : RepMetadata d) :
    (∀ r ∈ decodedLines d, RecordLine r) ∧ Accepts parseMetadata Metadata.default (decodedLines d) ∧
    runSection parseMetadata Metadata.default (decodedLines d) = preservedMetadata d :=
  ⟨metadata_lines_are_records d h, accepts_of_forall _ _ (metadata_lines_accepted d h) _, metadata_block_result d h⟩

/-- decoding is idempotent on the preserved view: what comes back is again representable and is written and
read back unchanged. -/
theorem preserved_idem (d : Metadata) : preservedMetadata (preservedMetadata d) = preservedMetadata d := by
  obtain ⟨t, tu, a, au, c, v, s, tg, id, sid⟩ := d
  simp only [preservedMetadata]
  by_cases h1 : id > 0 <;> by_cases h2 : sid > 0 <;> simp [h1, h2]

theorem rep_preserved (d : Metadata) (h : RepMetadata d) : RepMetadata (preservedMetadata d) := by
  refine ⟨h.title, h.titleUnicode, h.artist, h.artistUnicode, h.creator, h.version, h.source, h.tags, ?_, ?_⟩
  · have := h.beatmapId
    simp only [preservedMetadata]; split
    · exact this
    · decide
  · have := h.beatmapSetId
    simp only [preservedMetadata]; split
    · exact this
    · decide

/-! ### edits (C03 for the block) -/

/-- the ten metadata fields. -/
inductive MetaField
  | title | titleUnicode | artist | artistUnicode | creator | version | source | tags | beatmapId | beatmapSetId
  deriving DecidableEq, Repr

/-- a single-field edit through the public fields of `Beatmap`. -/
inductive MetaEdit
  | title (v : Str) | titleUnicode (v : Str) | artist (v : Str) | artistUnicode (v : Str) | creator (v : Str)
  | version (v : Str) | source (v : Str) | tags (v : Str) | beatmapId (n : Int) | beatmapSetId (n : Int)

def MetaEdit.field : MetaEdit → MetaField
  | .title _ => .title | .titleUnicode _ => .titleUnicode | .artist _ => .artist | .artistUnicode _ => .artistUnicode
  | .creator _ => .creator | .version _ => .version | .source _ => .source | .tags _ => .tags
  | .beatmapId _ => .beatmapId | .beatmapSetId _ => .beatmapSetId

/-- the edited value (texts and integers in one carrier). -/
def MetaEdit.value : MetaEdit → Str ⊕ Int
  | .title v | .titleUnicode v | .artist v | .artistUnicode v | .creator v | .version v | .source v | .tags v => .inl v
  | .beatmapId n | .beatmapSetId n => .inr n

def MetaEdit.apply (e : MetaEdit) (d : Metadata) : Metadata :=
  match e with
  | .title v => { d with title := v } | .titleUnicode v => { d with titleUnicode := v }
  | .artist v => { d with artist := v } | .artistUnicode v => { d with artistUnicode := v }
  | .creator v => { d with creator := v } | .version v => { d with version := v }
  | .source v => { d with source := v } | .tags v => { d with tags := v }
  | .beatmapId n => { d with beatmapId := n } | .beatmapSetId n => { d with beatmapSetId := n }

def getField (f : MetaField) (d : Metadata) : Str ⊕ Int :=
  match f with
  | .title => .inl d.title | .titleUnicode => .inl d.titleUnicode | .artist => .inl d.artist
  | .artistUnicode => .inl d.artistUnicode | .creator => .inl d.creator | .version => .inl d.version
  | .source => .inl d.source | .tags => .inl d.tags | .beatmapId => .inr d.beatmapId | .beatmapSetId => .inr d.beatmapSetId

/-- values the format can represent: any text that is its own trim and has no line feed (colons, `//`,
brackets, header- or version-like text, the empty text included); ids positive `i32`. -/
def MetaEdit.Representable : MetaEdit → Prop
  | .title v | .titleUnicode v | .artist v | .artistUnicode v | .creator v | .version v | .source v | .tags v => RepText v
  | .beatmapId n | .beatmapSetId n => 0 < n ∧ n ≤ i32Max

/-- encode the block, read it back from the decoder's initial state. -/
def roundtrip (d : Metadata) : Metadata := runSection parseMetadata Metadata.default (decodedLines d)

theorem rep_apply (d : Metadata) (hd : RepMetadata d) (e : MetaEdit) (he : e.Representable) : RepMetadata (e.apply d) := by
  obtain ⟨h1, h2, h3, h4, h5, h6, h7, h8, h9, h10⟩ := hd
  cases e <;> simp only [MetaEdit.Representable] at he <;> simp only [MetaEdit.apply]
  · exact ⟨he, h2, h3, h4, h5, h6, h7, h8, h9, h10⟩
  · exact ⟨h1, he, h3, h4, h5, h6, h7, h8, h9, h10⟩
  · exact ⟨h1, h2, he, h4, h5, h6, h7, h8, h9, h10⟩
  · exact ⟨h1, h2, h3, he, h5, h6, h7, h8, h9, h10⟩
  · exact ⟨h1, h2, h3, h4, he, h6, h7, h8, h9, h10⟩
  · exact ⟨h1, h2, h3, h4, h5, he, h7, h8, h9, h10⟩
  · exact ⟨h1, h2, h3, h4, h5, h6, he, h8, h9, h10⟩
  · exact ⟨h1, h2, h3, h4, h5, h6, h7, he, h9, h10⟩
  · exact ⟨h1, h2, h3, h4, h5, h6, h7, h8, he.2, h10⟩
  · exact ⟨h1, h2, h3, h4, h5, h6, h7, h8, h9, he.2⟩

/-- **metadata_edit_survives**: after editing any one of the ten fields of a representable record to a
representable value, encoding the block and reading it back shows exactly the edited value. -/
theorem metadata_edit_survives (d : Metadata) (hd : RepMetadata d) (e : MetaEdit) (he : e.Representable) :
    getField e.field (roundtrip (e.apply d)) = e.value := by
  unfold roundtrip
  rw [metadata_block_result _ (rep_apply d hd e he)]
  cases e <;> simp only [MetaEdit.Representable] at he <;>
    simp [MetaEdit.apply, MetaEdit.field, MetaEdit.value, getField, preservedMetadata, he.1]

/-- **metadata_edit_frame**: … and each of the other nine fields reads exactly as it does when the unedited
record is encoded and read back. -/
theorem metadata_edit_frame (d : Metadata) (hd : RepMetadata d) (e : MetaEdit) (he : e.Representable)
    (f : MetaField) (hf : f ≠ e.field) :
    getField f (roundtrip (e.apply d)) = getField f (roundtrip d) := by
  unfold roundtrip
  rw [metadata_block_result _ (rep_apply d hd e he), metadata_block_result _ hd]
  cases e <;> cases f <;> first
    | exact absurd rfl hf
    | rfl

/-! ### non-vacuity -/

def sample : Metadata :=
  { title := str "Re:Zero // [General]", titleUnicode := str "osu file format v9", artist := [], artistUnicode := [],
    creator := str "a: b", version := str "[HitObjects]", source := [], tags := str "x  y", beatmapId := 2147483647,
    beatmapSetId := 0 }

example : RepMetadata sample := by
  refine ⟨?_, ?_, ?_, ?_, ?_, ?_, ?_, ?_, ?_, ?_⟩ <;> first | decide | (constructor <;> decide)

example : runSection parseMetadata Metadata.default (decodedLines sample) = sample := by decide

example : (MetaEdit.title (str "Re:Zero")).Representable ∧ (MetaEdit.source (str "[General]")).Representable ∧
    (MetaEdit.tags (str "osu file format v9")).Representable ∧ (MetaEdit.artist []).Representable ∧
    (MetaEdit.beatmapId 2147483647).Representable := by
  refine ⟨?_, ?_, ?_, ?_, ?_⟩ <;> constructor <;> decide

example : getField .title (roundtrip ((MetaEdit.title (str "Re:Zero")).apply sample)) = .inl (str "Re:Zero") := by decide

end RtMetadata
end Rosu
