/-
  Lemmas/CodecLaws.lean — the number-codec laws the round-trip theorems take as hypotheses (DESIGN 3.3), and what
  follows from them for rosu-map's `ParseNumber for f32/f64`. `Scalar.print` / `Scalar.parse` are abstract, so
  nothing here is proved of Rust's `Display` / `FromStr`; the laws are shown satisfiable by the toy codec of
  Lemmas/ToyCodec.lean and are exercised on the IEEE instance by the codec differential (lib/codecgen.py).
-/
import RosuModel.Lemmas.EncodeLines
import RosuModel.Model.ParseNum
namespace Rosu
open Scalar EncodeLines

/-- characters a printed number may contain: ASCII digits, sign, decimal point, exponent marker and the letters
of `inf` / `NaN`. -/
def numChar (c : Char) : Bool :=
  isDig c || c == '-' || c == '+' || c == '.' || c == 'e' || c == 'E' || c == 'i' || c == 'n' || c == 'f' ||
  c == 'N' || c == 'a'

/-- the laws of a number codec, for the values satisfying `R` (the values the theorem is about: e.g. the
finite ones): printing then parsing gives the value back, and a printed number is non-empty and consists of
number characters only (no separator `, : |`, no `/`, no quote or bracket, no white space or line feed). -/
structure CodecLaws (α : Type) [Scalar α] (R : α → Prop) : Prop where
  parse_print : ∀ x, R x → Scalar.parse (Scalar.print x) = some x
  print_clean : ∀ x, R x → ∀ c ∈ Scalar.print x, numChar c = true
  print_ne_nil : ∀ x, R x → Scalar.print x ≠ []

/-- integral values print like integers (`f64`: every `i32`; `f32`: up to 2²⁴) — needed only where the decoder
reads a float field with the integer parser (`AudioLeadIn`). -/
def IntPrintLaw (α : Type) [Scalar α] : Prop :=
  ∀ n : Int, -i32Max ≤ n → n ≤ i32Max → Scalar.print (Scalar.ofInt n : α) = intDigits n

/-- within rosu-map's parse limit ±(2³¹−1) and not NaN, as the decoder tests it. -/
def InLimit {α : Type} [Scalar α] (x : α) : Prop :=
  lt x (-(maxParseValue : α)) = false ∧ lt (maxParseValue : α) x = false ∧ isNaN x = false

theorem numChar_cases {c : Char} (h : numChar c = true) :
    isDig c = true ∨ c = '-' ∨ c = '+' ∨ c = '.' ∨ c = 'e' ∨ c = 'E' ∨ c = 'i' ∨ c = 'n' ∨ c = 'f' ∨ c = 'N' ∨ c = 'a' := by
  simpa [numChar, or_assoc] using h

theorem numChar_not_ws {c : Char} (h : numChar c = true) : isWs c = false := by
  rcases numChar_cases h with h | h | h | h | h | h | h | h | h | h | h
  · exact isDig_not_ws h
  all_goals (subst h; decide)

/-- a number character is none of the characters that structure a line. -/
theorem numChar_ne {c : Char} (h : numChar c = true) (d : Char) (hd : numChar d = false) : c ≠ d := by
  intro e; subst e; rw [h] at hd; cases hd

theorem numChar_isAlnum_or {c : Char} (h : numChar c = true) : c ≠ '[' ∧ c ≠ '/' ∧ isWs c = false :=
  ⟨numChar_ne h _ (by decide), numChar_ne h _ (by decide), numChar_not_ws h⟩

section
variable {α : Type} [Scalar α] {R : α → Prop}

theorem CodecLaws.not_mem (L : CodecLaws α R) {x : α} (hx : R x) (d : Char) (hd : numChar d = false) :
    d ∉ Scalar.print x := fun hm => numChar_ne (L.print_clean x hx d hm) d hd rfl

theorem CodecLaws.no_ws (L : CodecLaws α R) {x : α} (hx : R x) : ∀ c ∈ Scalar.print x, isWs c = false :=
  fun c hc => numChar_not_ws (L.print_clean x hx c hc)

theorem CodecLaws.trim_print (L : CodecLaws α R) {x : α} (hx : R x) : trim (Scalar.print x) = Scalar.print x :=
  trim_no_ws _ (L.no_ws hx)

theorem CodecLaws.hasDS_print (L : CodecLaws α R) {x : α} (hx : R x) : hasDS (Scalar.print x) = false :=
  hasDS_of_no_slash _ (L.not_mem hx '/' (by decide))

theorem CodecLaws.head (L : CodecLaws α R) {x : α} (hx : R x) :
    ∃ c r, Scalar.print x = c :: r ∧ numChar c = true := by
  cases h : Scalar.print x with
  | nil => exact absurd h (L.print_ne_nil x hx)
  | cons c r => exact ⟨c, r, rfl, L.print_clean x hx c (by rw [h]; simp)⟩

/-- **`f64::parse(x.to_string()) = Ok(x)`** (rosu-map's `ParseNumber`, limits included) for a lawful codec. -/
theorem floatParse_print (L : CodecLaws α R) {x : α} (hx : R x) (hl : InLimit x) :
    floatParse (Scalar.print x) = some x := by
  unfold floatParse floatParseWithLimits
  rw [L.trim_print hx, L.parse_print x hx]
  simp [hl.1, hl.2.1, hl.2.2]

theorem scalarParse_print (L : CodecLaws α R) {x : α} (hx : R x) (hl : InLimit x) :
    scalarParse (Scalar.print x) = .ok x := by
  unfold scalarParse scalarParseWithLimits
  rw [L.trim_print hx, L.parse_print x hx]
  simp [hl.1, hl.2.1, hl.2.2]

/-- a value inside the clamp interval (as `f64::clamp` tests it) is a fixpoint of the clamp. -/
theorem clamp_of_inside (x lo hi : α) (h1 : lt x lo = false) (h2 : lt hi x = false) : clamp x lo hi = x := by
  simp [clamp, h1, h2]

end

/-- the error-carrying integer parser on a printed `i32`. -/
theorem i32ParseE_intDigits (v : Int) (hlo : -i32Max ≤ v) (hhi : v ≤ i32Max) : i32ParseE (intDigits v) = .ok v := by
  unfold i32ParseE i32ParseWithLimitsE
  rw [trim_intDigits, i32FromStr_intDigits v (by unfold i32Min i32Max at *; omega) hhi]
  have h1 : ¬ v < -i32Max := by omega
  have h2 : ¬ v > i32Max := by omega
  simp [h1, h2]

end Rosu

namespace Rosu
open Scalar EncodeLines

/-! ### `key: number` lines in the comment-stripping sections -/

theorem hasDS_intDigits (n : Int) : hasDS (intDigits n) = false := hasDS_of_no_slash _ (intDigits_not_mem n '/' (by decide))
theorem hasDS_decDigits (n : Nat) : hasDS (decDigits n) = false := hasDS_of_no_slash _ (decDigits_not_mem n '/' (by decide))

theorem kvSplit_num_line {α : Type} [Scalar α] {R : α → Prop} (L : CodecLaws α R) (key : Str) {x : α} (hx : R x)
    (hk : ':' ∉ key) (hkt : trim key = key) (hdk : hasDS key = false) :
    kvSplit (trimComment (trimEnd (kvl key (Scalar.print x)))) = (key, Scalar.print x) :=
  kvSplit_trimComment_kvl key _ hk hkt (L.trim_print hx) hdk (L.hasDS_print hx)

theorem kvSplit_int_line (key : Str) (n : Int) (hk : ':' ∉ key) (hkt : trim key = key) (hdk : hasDS key = false) :
    kvSplit (trimComment (trimEnd (kvl key (intDigits n)))) = (key, intDigits n) :=
  kvSplit_trimComment_kvl key _ hk hkt (trim_intDigits n) hdk (hasDS_intDigits n)

theorem kvSplit_nat_line (key : Str) (n : Nat) (hk : ':' ∉ key) (hkt : trim key = key) (hdk : hasDS key = false) :
    kvSplit (trimComment (trimEnd (kvl key (decDigits n)))) = (key, decDigits n) :=
  kvSplit_trimComment_kvl key _ hk hkt (trim_decDigits n) hdk (hasDS_decDigits n)

theorem not_lf_kvl (k v : Str) (hk : '\n' ∉ k) (hv : '\n' ∉ v) : '\n' ∉ kvl k v := by
  intro hm
  simp only [kvl, List.mem_append, List.mem_cons] at hm
  rcases hm with hm | hm | hm | hm
  · exact hk hm
  · exact absurd hm (by decide)
  · exact absurd hm (by decide)
  · exact hv hm

end Rosu
