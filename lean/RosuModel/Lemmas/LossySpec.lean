/-
  Lemmas/LossySpec.lean — a separately stated specification of lossy UTF-8 decoding (Unicode standard,
  chapter 3: Table 3-7 "Well-Formed UTF-8 Byte Sequences", and "U+FFFD substitution of maximal subparts",
  the policy `String::from_utf8_lossy` documents), and the proof that the model's decoder
  (`Model/Utf.lean: utf8Lossy`, the `from_utf8` / `valid_up_to` / `error_len` loop) computes it.

  The specification is table-driven: it does not look at lead-byte classes or nest tests; it matches the
  input against the nine rows of Table 3-7, takes a completely matched row as a well-formed sequence
  (yielding its scalar value by the bit distribution of Table 3-6, written arithmetically), and otherwise
  replaces the longest prefix that still fits some row (at least one byte) by one U+FFFD.
-/
import RosuModel.Lemmas.UtfSpec
namespace Rosu.Lossy
open Rosu

/-- an inclusive byte range. -/
abbrev Range := Nat × Nat

/-- the range of a continuation byte. -/
def cont : Range := (0x80, 0xBF)

/-- **Table 3-7** of the Unicode standard: the well-formed UTF-8 byte sequences, one row per line. -/
def table37 : List (List Range) :=
  [ [(0x00, 0x7F)],                                   -- U+0000..U+007F
    [(0xC2, 0xDF), cont],                             -- U+0080..U+07FF
    [(0xE0, 0xE0), (0xA0, 0xBF), cont],               -- U+0800..U+0FFF
    [(0xE1, 0xEC), cont, cont],                       -- U+1000..U+CFFF
    [(0xED, 0xED), (0x80, 0x9F), cont],               -- U+D000..U+D7FF
    [(0xEE, 0xEF), cont, cont],                       -- U+E000..U+FFFF
    [(0xF0, 0xF0), (0x90, 0xBF), cont, cont],         -- U+10000..U+3FFFF
    [(0xF1, 0xF3), cont, cont, cont],                 -- U+40000..U+FFFFF
    [(0xF4, 0xF4), (0x80, 0x8F), cont, cont] ]        -- U+100000..U+10FFFF

/-- how many leading bytes of `bs` fit the row position by position (stops at the first byte outside its
range, at the end of the row, or at the end of the input). -/
def fitLen : List Range → List UInt8 → Nat
  | r :: row, b :: bs => if r.1 ≤ b.toNat ∧ b.toNat ≤ r.2 then fitLen row bs + 1 else 0
  | _, _ => 0

/-- the input starts with a well-formed sequence of this length: some row of Table 3-7 is matched completely. -/
def wellFormedLen (bs : List UInt8) : Option Nat :=
  (table37.find? fun row => fitLen row bs == row.length).map List.length

/-- length of the **maximal subpart** at an ill-formed position: the longest prefix of the input that is an
initial subsequence of a well-formed sequence, and at least one byte. -/
def maximalSubpartLen (bs : List UInt8) : Nat :=
  Nat.max 1 ((table37.map fun row => fitLen row bs).foldl Nat.max 0)

/-- payload modulus of the lead byte of a sequence with `n` continuation bytes (Table 3-6). -/
def leadMod : Nat → Nat
  | 0 => 128 | 1 => 32 | 2 => 16 | _ => 8

/-- the scalar value of a well-formed sequence (Table 3-6): the payload bits of the lead byte followed by
the low six bits of every continuation byte. -/
def scalarValue : List UInt8 → Nat
  | [] => 0
  | b0 :: conts => conts.foldl (fun acc b => acc * 64 + b.toNat % 64) (b0.toNat % leadMod conts.length)

/-- **the specification**: scan; a well-formed sequence yields its scalar value, anything else has its
maximal subpart replaced by one U+FFFD; continue behind what was consumed. -/
def lossySpec : List UInt8 → Str
  | [] => []
  | b :: rest =>
    match wellFormedLen (b :: rest) with
    | some n => Char.ofNat (scalarValue ((b :: rest).take n)) :: lossySpec (rest.drop (n - 1))
    | none => replacement :: lossySpec (rest.drop (maximalSubpartLen (b :: rest) - 1))
termination_by bs => bs.length
decreasing_by all_goals (simp only [List.length_drop, List.length_cons]; omega)

/-! ### elementary facts -/

theorem fitLen_nil_row (bs : List UInt8) : fitLen [] bs = 0 := by
  cases bs <;> rfl

theorem fitLen_nil (row : List Range) : fitLen row [] = 0 := by
  cases row <;> rfl

theorem fitLen_hit (lo hi : Nat) (row : List Range) (b : UInt8) (bs : List UInt8)
    (h : lo ≤ b.toNat ∧ b.toNat ≤ hi) : fitLen ((lo, hi) :: row) (b :: bs) = fitLen row bs + 1 := by
  simp [fitLen, h]

theorem fitLen_miss (lo hi : Nat) (row : List Range) (b : UInt8) (bs : List UInt8)
    (h : b.toNat < lo ∨ hi < b.toNat) : fitLen ((lo, hi) :: row) (b :: bs) = 0 := by
  have : ¬ (lo ≤ b.toNat ∧ b.toNat ≤ hi) := by omega
  simp [fitLen, this]

theorem fitLen_le_row (row : List Range) (bs : List UInt8) : fitLen row bs ≤ row.length := by
  induction row generalizing bs with
  | nil => rw [fitLen_nil_row]; exact Nat.zero_le _
  | cons r row ih =>
    cases bs with
    | nil => rw [fitLen_nil]; exact Nat.zero_le _
    | cons b bs =>
      unfold fitLen
      split
      · have := ih bs; simp only [List.length_cons]; omega
      · exact Nat.zero_le _

theorem fitLen_le_input (row : List Range) (bs : List UInt8) : fitLen row bs ≤ bs.length := by
  induction row generalizing bs with
  | nil => rw [fitLen_nil_row]; exact Nat.zero_le _
  | cons r row ih =>
    cases bs with
    | nil => rw [fitLen_nil]; exact Nat.zero_le _
    | cons b bs =>
      unfold fitLen
      split
      · have := ih bs; simp only [List.length_cons]; omega
      · exact Nat.zero_le _

/-- only the fitting prefix matters. -/
theorem fitLen_take (row : List Range) (bs : List UInt8) : fitLen row (bs.take (fitLen row bs)) = fitLen row bs := by
  induction row generalizing bs with
  | nil => simp [fitLen_nil_row]
  | cons r row ih =>
    cases bs with
    | nil => simp [fitLen_nil]
    | cons b bs =>
      by_cases h : r.1 ≤ b.toNat ∧ b.toNat ≤ r.2
      · have e : fitLen (r :: row) (b :: bs) = fitLen row bs + 1 := by simp [fitLen, h]
        rw [e, List.take_succ_cons]
        simp [fitLen, h, ih bs]
      · have e : fitLen (r :: row) (b :: bs) = 0 := by simp [fitLen, h]
        rw [e]; rfl

/-! ### the step form shared by the specification and the model -/

/-- the continuation ranges of the row of Table 3-7 whose lead range contains `b0` (the lead ranges of
the nine rows are pairwise disjoint), if any. -/
def leadRow (b0 : UInt8) : Option (List Range) :=
  if b0.toNat ≤ 0x7F then some []
  else if 0xC2 ≤ b0.toNat ∧ b0.toNat ≤ 0xDF then some [cont]
  else if b0.toNat = 0xE0 then some [(0xA0, 0xBF), cont]
  else if 0xE1 ≤ b0.toNat ∧ b0.toNat ≤ 0xEC then some [cont, cont]
  else if b0.toNat = 0xED then some [(0x80, 0x9F), cont]
  else if 0xEE ≤ b0.toNat ∧ b0.toNat ≤ 0xEF then some [cont, cont]
  else if b0.toNat = 0xF0 then some [(0x90, 0xBF), cont, cont]
  else if 0xF1 ≤ b0.toNat ∧ b0.toNat ≤ 0xF3 then some [cont, cont, cont]
  else if b0.toNat = 0xF4 then some [(0x80, 0x8F), cont, cont]
  else none

/-- evaluate the nine rows of the table on `b0 :: rest` once the class of `b0` is known (facts in context). -/
macro "table_eval" : tactic =>
  `(tactic| (simp (disch := omega) only [wellFormedLen, maximalSubpartLen, table37, cont, List.map, List.find?, fitLen_hit,
      fitLen_miss]))

set_option linter.unusedSimpArgs false in
theorem spec_lens (b0 : UInt8) (rest : List UInt8) :
    match leadRow b0 with
    | none => wellFormedLen (b0 :: rest) = none ∧ maximalSubpartLen (b0 :: rest) = 1
    | some tail =>
      wellFormedLen (b0 :: rest) = (if fitLen tail rest = tail.length then some (tail.length + 1) else none) ∧
      maximalSubpartLen (b0 :: rest) = fitLen tail rest + 1 := by
  by_cases c1 : b0.toNat ≤ 0x7F
  · have hr : leadRow b0 = some [] := by simp [leadRow, c1]
    rw [hr]; dsimp only
    table_eval
    simp [fitLen_nil_row]
  by_cases c2 : 0xC2 ≤ b0.toNat ∧ b0.toNat ≤ 0xDF
  · have hr : leadRow b0 = some [cont] := by simp [leadRow, c1, c2]
    rw [hr]; dsimp only
    table_eval
    by_cases ht : fitLen [(128, 191)] rest = 1
    · simp [ht]
    · have hb : (fitLen [(128, 191)] rest == 1) = false := by simpa using ht
      simp [ht, hb]
  by_cases c3 : b0.toNat = 0xE0
  · have hr : leadRow b0 = some [(0xA0, 0xBF), cont] := by simp [leadRow, c1, c2, c3]
    rw [hr]; dsimp only
    table_eval
    by_cases ht : fitLen [(160, 191), (128, 191)] rest = 2
    · simp [ht]
    · have hb : (fitLen [(160, 191), (128, 191)] rest == 2) = false := by simpa using ht
      simp [ht, hb]
  by_cases c4 : 0xE1 ≤ b0.toNat ∧ b0.toNat ≤ 0xEC
  · have hr : leadRow b0 = some [cont, cont] := by simp [leadRow, c1, c2, c3, c4]
    rw [hr]; dsimp only
    table_eval
    by_cases ht : fitLen [(128, 191), (128, 191)] rest = 2
    · simp [ht]
    · have hb : (fitLen [(128, 191), (128, 191)] rest == 2) = false := by simpa using ht
      simp [ht, hb]
  by_cases c5 : b0.toNat = 0xED
  · have hr : leadRow b0 = some [(0x80, 0x9F), cont] := by simp [leadRow, c1, c2, c3, c4, c5]
    rw [hr]; dsimp only
    table_eval
    by_cases ht : fitLen [(128, 159), (128, 191)] rest = 2
    · simp [ht]
    · have hb : (fitLen [(128, 159), (128, 191)] rest == 2) = false := by simpa using ht
      simp [ht, hb]
  by_cases c6 : 0xEE ≤ b0.toNat ∧ b0.toNat ≤ 0xEF
  · have hr : leadRow b0 = some [cont, cont] := by simp [leadRow, c1, c2, c3, c4, c5, c6]
    rw [hr]; dsimp only
    table_eval
    by_cases ht : fitLen [(128, 191), (128, 191)] rest = 2
    · simp [ht]
    · have hb : (fitLen [(128, 191), (128, 191)] rest == 2) = false := by simpa using ht
      simp [ht, hb]
  by_cases c7 : b0.toNat = 0xF0
  · have hr : leadRow b0 = some [(0x90, 0xBF), cont, cont] := by simp [leadRow, c1, c2, c3, c4, c5, c6, c7]
    rw [hr]; dsimp only
    table_eval
    by_cases ht : fitLen [(144, 191), (128, 191), (128, 191)] rest = 3
    · simp [ht]
    · have hb : (fitLen [(144, 191), (128, 191), (128, 191)] rest == 3) = false := by simpa using ht
      simp [ht, hb]
  by_cases c8 : 0xF1 ≤ b0.toNat ∧ b0.toNat ≤ 0xF3
  · have hr : leadRow b0 = some [cont, cont, cont] := by simp [leadRow, c1, c2, c3, c4, c5, c6, c7, c8]
    rw [hr]; dsimp only
    table_eval
    by_cases ht : fitLen [(128, 191), (128, 191), (128, 191)] rest = 3
    · simp [ht]
    · have hb : (fitLen [(128, 191), (128, 191), (128, 191)] rest == 3) = false := by simpa using ht
      simp [ht, hb]
  by_cases c9 : b0.toNat = 0xF4
  · have hr : leadRow b0 = some [(0x80, 0x8F), cont, cont] := by simp [leadRow, c1, c2, c3, c4, c5, c6, c7, c8, c9]
    rw [hr]; dsimp only
    table_eval
    by_cases ht : fitLen [(128, 143), (128, 191), (128, 191)] rest = 3
    · simp [ht]
    · have hb : (fitLen [(128, 143), (128, 191), (128, 191)] rest == 3) = false := by simpa using ht
      simp [ht, hb]
  have hr : leadRow b0 = none := by simp [leadRow, c1, c2, c3, c4, c5, c6, c7, c8, c9]
  rw [hr]; dsimp only
  table_eval
  simp

/-- one decoding step, with the continuation `rec` left open: the shape both the specification and the
model's decoder have at a non-empty input. -/
def stepForm (rec : List UInt8 → Str) (b0 : UInt8) (rest : List UInt8) : Str :=
  match leadRow b0 with
  | none => replacement :: rec rest
  | some tail =>
    (if fitLen tail rest = tail.length then Char.ofNat (scalarValue (b0 :: rest.take tail.length)) else replacement)
      :: rec (rest.drop (fitLen tail rest))

theorem lossySpec_cons (b0 : UInt8) (rest : List UInt8) : lossySpec (b0 :: rest) = stepForm lossySpec b0 rest := by
  rw [lossySpec]
  have h := spec_lens b0 rest
  unfold stepForm
  cases hr : leadRow b0 with
  | none =>
    rw [hr] at h
    simp only [h.1, h.2, Nat.sub_self, List.drop_zero]
  | some tail =>
    rw [hr] at h
    dsimp only at h
    rw [h.1, h.2]
    by_cases ht : fitLen tail rest = tail.length
    · simp only [ht, if_true, List.take_succ_cons, Nat.add_sub_cancel]
    · simp only [ht, if_false, Nat.add_sub_cancel]

/-! ### the model's decoder has the same step form -/

theorem isCont_eq (b : UInt8) : isCont b = decide (128 ≤ b.toNat ∧ b.toNat ≤ 191) := by
  unfold isCont
  simp only [UInt8.le_iff_toNat_le, UInt8.toNat_ofNat, Bool.decide_and]

theorem fuel_nil (fuel : Nat) : utf8LossyFuel fuel [] = [] := by
  cases fuel <;> rfl

theorem cp2_eq (b0 b1 : UInt8) : cp2 b0 b1 = Char.ofNat (scalarValue [b0, b1]) := by
  simp only [cp2, scalarValue, leadMod, List.length_cons, List.length_nil, List.foldl, u8_and31, u8_and63]
  rw [u8_or2 _ _ (by omega)]

theorem cp3_eq (b0 b1 b2 : UInt8) : cp3 b0 b1 b2 = Char.ofNat (scalarValue [b0, b1, b2]) := by
  simp only [cp3, scalarValue, leadMod, List.length_cons, List.length_nil, List.foldl, u8_and15, u8_and63]
  rw [u8_or3 _ _ _ (by omega) (by omega)]
  congr 1; omega

theorem cp4_eq (b0 b1 b2 b3 : UInt8) : cp4 b0 b1 b2 b3 = Char.ofNat (scalarValue [b0, b1, b2, b3]) := by
  simp only [cp4, scalarValue, leadMod, List.length_cons, List.length_nil, List.foldl, u8_and7, u8_and63]
  rw [u8_or4 _ _ _ _ (by omega) (by omega) (by omega)]
  congr 1; omega

theorem fit_cont_cons (b : UInt8) (row : List Range) (bs : List UInt8) :
    fitLen ((128, 191) :: row) (b :: bs) = if isCont b then fitLen row bs + 1 else 0 := by
  rw [isCont_eq]; simp [fitLen]

theorem model1 (b0 : UInt8) (fuel : Nat) (rest : List UInt8) (f1 : b0 < 0x80) :
    utf8LossyFuel (fuel + 1) (b0 :: rest) = Char.ofNat (scalarValue [b0]) :: utf8LossyFuel fuel rest := by
  have : b0.toNat % 128 = b0.toNat := by
    simp only [UInt8.lt_iff_toNat_lt, UInt8.toNat_ofNat] at f1; omega
  simp [utf8LossyFuel, f1, scalarValue, leadMod, this]

theorem model2 (b0 : UInt8) (fuel : Nat) (rest : List UInt8) (f1 : ¬ b0 < 0x80)
    (f2 : (0xC2 ≤ b0 && b0 ≤ 0xDF) = true) :
    utf8LossyFuel (fuel + 1) (b0 :: rest) =
      (if fitLen [cont] rest = 1 then Char.ofNat (scalarValue (b0 :: rest.take 1)) else replacement)
        :: utf8LossyFuel fuel (rest.drop (fitLen [cont] rest)) := by
  unfold cont
  rcases rest with _ | ⟨b1, r1⟩
  · simp [utf8LossyFuel, f1, f2, fitLen_nil, fuel_nil]
  · by_cases h1 : isCont b1 = true
    · simp [utf8LossyFuel, f1, f2, h1, fit_cont_cons, fitLen_nil_row, cp2_eq]
    · simp [utf8LossyFuel, f1, f2, h1, fit_cont_cons]

theorem model3 (b0 : UInt8) (lo hi : Nat) (fuel : Nat) (rest : List UInt8) (f1 : ¬ b0 < 0x80)
    (f2 : (0xC2 ≤ b0 && b0 ≤ 0xDF) = false) (f3 : (0xE0 ≤ b0 && b0 ≤ 0xEF) = true)
    (fs : ∀ b1, secondOk b0 b1 = decide (lo ≤ b1.toNat ∧ b1.toNat ≤ hi)) :
    utf8LossyFuel (fuel + 1) (b0 :: rest) =
      (if fitLen [(lo, hi), cont] rest = 2 then Char.ofNat (scalarValue (b0 :: rest.take 2)) else replacement)
        :: utf8LossyFuel fuel (rest.drop (fitLen [(lo, hi), cont] rest)) := by
  unfold cont
  rcases rest with _ | ⟨b1, _ | ⟨b2, r2⟩⟩
  · simp [utf8LossyFuel, f1, f2, f3, fitLen_nil, fuel_nil]
  · by_cases h1 : lo ≤ b1.toNat ∧ b1.toNat ≤ hi
    · simp [utf8LossyFuel, f1, f2, f3, fs, h1, fitLen, fuel_nil]
    · simp [utf8LossyFuel, f1, f2, f3, fs, h1, fitLen]
  · by_cases h1 : lo ≤ b1.toNat ∧ b1.toNat ≤ hi
    · by_cases h2 : isCont b2 = true
      · simp [utf8LossyFuel, f1, f2, f3, fs, h1, h2, fitLen_hit, fit_cont_cons, fitLen_nil_row, cp3_eq]
      · simp [utf8LossyFuel, f1, f2, f3, fs, h1, h2, fitLen_hit, fit_cont_cons]
    · simp [utf8LossyFuel, f1, f2, f3, fs, h1, fitLen]

theorem model4 (b0 : UInt8) (lo hi : Nat) (fuel : Nat) (rest : List UInt8) (f1 : ¬ b0 < 0x80)
    (f2 : (0xC2 ≤ b0 && b0 ≤ 0xDF) = false) (f3 : (0xE0 ≤ b0 && b0 ≤ 0xEF) = false)
    (f4 : (0xF0 ≤ b0 && b0 ≤ 0xF4) = true)
    (fs : ∀ b1, secondOk b0 b1 = decide (lo ≤ b1.toNat ∧ b1.toNat ≤ hi)) :
    utf8LossyFuel (fuel + 1) (b0 :: rest) =
      (if fitLen [(lo, hi), cont, cont] rest = 3 then Char.ofNat (scalarValue (b0 :: rest.take 3)) else replacement)
        :: utf8LossyFuel fuel (rest.drop (fitLen [(lo, hi), cont, cont] rest)) := by
  unfold cont
  rcases rest with _ | ⟨b1, _ | ⟨b2, _ | ⟨b3, r3⟩⟩⟩
  · simp [utf8LossyFuel, f1, f2, f3, f4, fitLen_nil, fuel_nil]
  · by_cases h1 : lo ≤ b1.toNat ∧ b1.toNat ≤ hi
    · simp [utf8LossyFuel, f1, f2, f3, f4, fs, h1, fitLen, fuel_nil]
    · simp [utf8LossyFuel, f1, f2, f3, f4, fs, h1, fitLen]
  · by_cases h1 : lo ≤ b1.toNat ∧ b1.toNat ≤ hi
    · by_cases h2 : isCont b2 = true
      · simp [utf8LossyFuel, f1, f2, f3, f4, fs, h1, h2, fitLen_hit, fit_cont_cons, fitLen_nil, fuel_nil]
      · simp [utf8LossyFuel, f1, f2, f3, f4, fs, h1, h2, fitLen_hit, fit_cont_cons]
    · simp [utf8LossyFuel, f1, f2, f3, f4, fs, h1, fitLen]
  · by_cases h1 : lo ≤ b1.toNat ∧ b1.toNat ≤ hi
    · by_cases h2 : isCont b2 = true
      · by_cases h3 : isCont b3 = true
        · simp [utf8LossyFuel, f1, f2, f3, f4, fs, h1, h2, h3, fitLen_hit, fit_cont_cons, fitLen_nil_row, cp4_eq]
        · simp [utf8LossyFuel, f1, f2, f3, f4, fs, h1, h2, h3, fitLen_hit, fit_cont_cons]
      · simp [utf8LossyFuel, f1, f2, f3, f4, fs, h1, h2, fitLen_hit, fit_cont_cons]
    · simp [utf8LossyFuel, f1, f2, f3, f4, fs, h1, fitLen]

/-- facts about UInt8 comparisons, by passing to `toNat`. -/
macro "u8facts" : tactic =>
  `(tactic| (simp only [UInt8.lt_iff_toNat_lt, UInt8.le_iff_toNat_le, UInt8.toNat_ofNat, Bool.and_eq_true, Bool.and_eq_false_iff,
      decide_eq_true_eq, decide_eq_false_iff_not, Nat.not_lt, Nat.not_le] <;> omega))

theorem secondOk_eq (b0 b1 : UInt8) :
    secondOk b0 b1 =
      if b0.toNat = 0xE0 then decide (160 ≤ b1.toNat ∧ b1.toNat ≤ 191)
      else if b0.toNat = 0xED then decide (128 ≤ b1.toNat ∧ b1.toNat ≤ 159)
      else if b0.toNat = 0xF0 then decide (144 ≤ b1.toNat ∧ b1.toNat ≤ 191)
      else if b0.toNat = 0xF4 then decide (128 ≤ b1.toNat ∧ b1.toNat ≤ 143)
      else decide (128 ≤ b1.toNat ∧ b1.toNat ≤ 191) := by
  unfold secondOk
  simp only [beq_iff_eq, ← UInt8.toNat_inj, UInt8.toNat_ofNat, UInt8.le_iff_toNat_le, Bool.decide_and, isCont_eq]

set_option linter.unusedSimpArgs false in
theorem model_cons (fuel : Nat) (b0 : UInt8) (rest : List UInt8) :
    utf8LossyFuel (fuel + 1) (b0 :: rest) = stepForm (utf8LossyFuel fuel) b0 rest := by
  unfold stepForm
  by_cases c1 : b0.toNat ≤ 0x7F
  · have hr : leadRow b0 = some [] := by simp [leadRow, c1]
    rw [hr]; dsimp only
    rw [model1 b0 fuel rest (by u8facts)]
    simp [fitLen_nil_row]
  have f1 : ¬ b0 < 0x80 := by u8facts
  by_cases c2 : 0xC2 ≤ b0.toNat ∧ b0.toNat ≤ 0xDF
  · have hr : leadRow b0 = some [cont] := by simp [leadRow, c1, c2]
    rw [hr]; dsimp only
    exact model2 b0 fuel rest f1 (by u8facts)
  have f2 : (0xC2 ≤ b0 && b0 ≤ 0xDF) = false := by u8facts
  by_cases c3 : b0.toNat = 0xE0
  · have hr : leadRow b0 = some [(0xA0, 0xBF), cont] := by simp [leadRow, c1, c2, c3]
    rw [hr]; dsimp only
    exact model3 b0 160 191 fuel rest f1 f2 (by u8facts) (by intro b1; rw [secondOk_eq]; (repeat (first | rw [if_pos (by omega)] | rw [if_neg (by omega)])))
  by_cases c4 : 0xE1 ≤ b0.toNat ∧ b0.toNat ≤ 0xEC
  · have hr : leadRow b0 = some [cont, cont] := by simp [leadRow, c1, c2, c3, c4]
    rw [hr]; dsimp only
    exact model3 b0 128 191 fuel rest f1 f2 (by u8facts) (by intro b1; rw [secondOk_eq]; (repeat (first | rw [if_pos (by omega)] | rw [if_neg (by omega)])))
  by_cases c5 : b0.toNat = 0xED
  · have hr : leadRow b0 = some [(0x80, 0x9F), cont] := by simp [leadRow, c1, c2, c3, c4, c5]
    rw [hr]; dsimp only
    exact model3 b0 128 159 fuel rest f1 f2 (by u8facts) (by intro b1; rw [secondOk_eq]; (repeat (first | rw [if_pos (by omega)] | rw [if_neg (by omega)])))
  by_cases c6 : 0xEE ≤ b0.toNat ∧ b0.toNat ≤ 0xEF
  · have hr : leadRow b0 = some [cont, cont] := by simp [leadRow, c1, c2, c3, c4, c5, c6]
    rw [hr]; dsimp only
    exact model3 b0 128 191 fuel rest f1 f2 (by u8facts) (by intro b1; rw [secondOk_eq]; (repeat (first | rw [if_pos (by omega)] | rw [if_neg (by omega)])))
  by_cases c7 : b0.toNat = 0xF0
  · have hr : leadRow b0 = some [(0x90, 0xBF), cont, cont] := by simp [leadRow, c1, c2, c3, c4, c5, c6, c7]
    rw [hr]; dsimp only
    exact model4 b0 144 191 fuel rest f1 f2 (by u8facts) (by u8facts) (by intro b1; rw [secondOk_eq]; (repeat (first | rw [if_pos (by omega)] | rw [if_neg (by omega)])))
  by_cases c8 : 0xF1 ≤ b0.toNat ∧ b0.toNat ≤ 0xF3
  · have hr : leadRow b0 = some [cont, cont, cont] := by simp [leadRow, c1, c2, c3, c4, c5, c6, c7, c8]
    rw [hr]; dsimp only
    exact model4 b0 128 191 fuel rest f1 f2 (by u8facts) (by u8facts) (by intro b1; rw [secondOk_eq]; (repeat (first | rw [if_pos (by omega)] | rw [if_neg (by omega)])))
  by_cases c9 : b0.toNat = 0xF4
  · have hr : leadRow b0 = some [(0x80, 0x8F), cont, cont] := by simp [leadRow, c1, c2, c3, c4, c5, c6, c7, c8, c9]
    rw [hr]; dsimp only
    exact model4 b0 128 143 fuel rest f1 f2 (by u8facts) (by u8facts) (by intro b1; rw [secondOk_eq]; (repeat (first | rw [if_pos (by omega)] | rw [if_neg (by omega)])))
  have hr : leadRow b0 = none := by simp [leadRow, c1, c2, c3, c4, c5, c6, c7, c8, c9]
  rw [hr]; dsimp only
  have f3 : (0xE0 ≤ b0 && b0 ≤ 0xEF) = false := by u8facts
  have f4 : (0xF0 ≤ b0 && b0 ≤ 0xF4) = false := by u8facts
  simp [utf8LossyFuel, f1, f2, f3, f4]

/-! ### the model's decoder computes the specification -/

theorem lossySpec_nil : lossySpec [] = [] := by rw [lossySpec]

theorem lossyFuel_eq_spec (fuel : Nat) (bs : List UInt8) (h : bs.length ≤ fuel) :
    utf8LossyFuel fuel bs = lossySpec bs := by
  induction fuel generalizing bs with
  | zero =>
    have : bs = [] := List.length_eq_zero_iff.mp (by omega)
    subst this; rw [lossySpec_nil]; rfl
  | succ n ih =>
    cases bs with
    | nil => rw [fuel_nil, lossySpec_nil]
    | cons b0 rest =>
      rw [model_cons, lossySpec_cons]
      unfold stepForm
      simp only [List.length_cons] at h
      cases leadRow b0 with
      | none => simp only; rw [ih rest (by omega)]
      | some tail =>
        simp only
        rw [ih (rest.drop _) (by simp only [List.length_drop]; omega)]

/-! ### what the pieces of the specification mean -/

/-- "the input starts with a well-formed sequence" is exactly "some row of Table 3-7 is matched completely". -/
theorem wellFormedLen_eq_none (bs : List UInt8) :
    wellFormedLen bs = none ↔ ∀ row ∈ table37, fitLen row bs ≠ row.length := by
  unfold wellFormedLen
  simp only [Option.map_eq_none_iff, List.find?_eq_none, beq_iff_eq]

theorem wellFormedLen_some (bs : List UInt8) (n : Nat) (h : wellFormedLen bs = some n) :
    ∃ row ∈ table37, row.length = n ∧ fitLen row bs = n := by
  unfold wellFormedLen at h
  simp only [Option.map_eq_some_iff] at h
  obtain ⟨row, hfind, hlen⟩ := h
  refine ⟨row, List.mem_of_find?_eq_some hfind, hlen, ?_⟩
  have := List.find?_some hfind
  simp only [beq_iff_eq] at this
  rw [this, hlen]

theorem foldl_max_ge (l : List Nat) (init : Nat) : init ≤ l.foldl Nat.max init ∧ ∀ x ∈ l, x ≤ l.foldl Nat.max init := by
  induction l generalizing init with
  | nil => simp
  | cons a l ih =>
    simp only [List.foldl_cons, List.mem_cons, forall_eq_or_imp]
    have h1 := (ih (Nat.max init a)).1
    have h2 := (ih (Nat.max init a)).2
    have h3 : init ≤ Nat.max init a := Nat.le_max_left _ _
    have h4 : a ≤ Nat.max init a := Nat.le_max_right _ _
    exact ⟨Nat.le_trans h3 h1, Nat.le_trans h4 h1, h2⟩

theorem foldl_max_mem (l : List Nat) (init : Nat) : l.foldl Nat.max init = init ∨ l.foldl Nat.max init ∈ l := by
  induction l generalizing init with
  | nil => simp
  | cons a l ih =>
    simp only [List.foldl_cons, List.mem_cons]
    rcases ih (Nat.max init a) with h | h
    · rw [h]
      rcases Nat.le_total init a with hle | hle
      · right; left; exact Nat.max_eq_right hle
      · left; exact Nat.max_eq_left hle
    · right; right; exact h

/-- the maximal subpart is at least one byte, is at least as long as every prefix that fits a row, … -/
theorem maximalSubpartLen_ge (bs : List UInt8) :
    1 ≤ maximalSubpartLen bs ∧ ∀ row ∈ table37, fitLen row bs ≤ maximalSubpartLen bs := by
  unfold maximalSubpartLen
  refine ⟨Nat.le_max_left _ _, ?_⟩
  intro row hrow
  have := (foldl_max_ge (table37.map fun row => fitLen row bs) 0).2 (fitLen row bs) (List.mem_map.mpr ⟨row, hrow, rfl⟩)
  exact Nat.le_trans this (Nat.le_max_right _ _)

/-- … and is attained: it is one byte, or the fit of some row (a proper initial part of a well-formed sequence
when the position is ill-formed). -/
theorem maximalSubpartLen_attained (bs : List UInt8) :
    maximalSubpartLen bs = 1 ∨ ∃ row ∈ table37, fitLen row bs = maximalSubpartLen bs := by
  unfold maximalSubpartLen
  rcases foldl_max_mem (table37.map fun row => fitLen row bs) 0 with h | h
  · left; rw [h]; rfl
  · obtain ⟨row, hrow, he⟩ := List.mem_map.mp h
    rcases Nat.le_total 1 ((table37.map fun row => fitLen row bs).foldl Nat.max 0) with hle | hle
    · right; exact ⟨row, hrow, by rw [he]; exact (Nat.max_eq_right hle).symm⟩
    · left; exact Nat.max_eq_left hle

/-! ### Table 3-7 only admits Unicode scalar values -/

theorem fit_full_iff (r : Range) (row : List Range) (b : UInt8) (bs : List UInt8) :
    fitLen (r :: row) (b :: bs) = (r :: row).length ↔ (r.1 ≤ b.toNat ∧ b.toNat ≤ r.2) ∧ fitLen row bs = row.length := by
  obtain ⟨lo, hi⟩ := r
  by_cases h : lo ≤ b.toNat ∧ b.toNat ≤ hi
  · rw [fitLen_hit lo hi row b bs h]; simp [h]
  · rw [fitLen_miss lo hi row b bs (by omega)]; simp [h]

/-- a sequence matching a row of Table 3-7 denotes a Unicode scalar value: never a surrogate, never above
U+10FFFF (this is what the restricted second-byte ranges of the `E0`, `ED`, `F0`, `F4` rows are for). -/
theorem scalarValue_valid (row : List Range) (hrow : row ∈ table37) (seq : List UInt8)
    (hlen : seq.length = row.length) (hfit : fitLen row seq = row.length) : (scalarValue seq).isValidChar := by
  simp only [table37, List.mem_cons, List.not_mem_nil, or_false] at hrow
  rcases hrow with rfl | rfl | rfl | rfl | rfl | rfl | rfl | rfl | rfl
  all_goals
    simp only [List.length_cons, List.length_nil] at hlen
    first
      | (obtain ⟨b0, rfl⟩ := List.length_eq_one_iff.mp hlen)
      | (obtain ⟨b0, b1, rfl⟩ := List.length_eq_two.mp hlen)
      | (obtain ⟨b0, b1, b2, rfl⟩ := List.length_eq_three.mp hlen)
      | (rcases seq with _ | ⟨b0, _ | ⟨b1, _ | ⟨b2, _ | ⟨b3, _ | ⟨b4, r⟩⟩⟩⟩⟩ <;> simp at hlen)
    simp only [fit_full_iff, cont, fitLen_nil_row, List.length_nil, and_true] at hfit
    simp only [scalarValue, leadMod, List.length_cons, List.length_nil, List.foldl, Nat.isValidChar]
    omega

/-! ### compositionality: an ASCII byte ends whatever precedes it -/

theorem leadRow_high (b0 : UInt8) (tail : List Range) (h : leadRow b0 = some tail) : ∀ r ∈ tail, 128 ≤ r.1 := by
  unfold leadRow at h
  (repeat' split at h) <;> first | (cases h; simp [cont]) | cases h

theorem fitLen_append_ascii (row : List Range) (hrow : ∀ r ∈ row, 128 ≤ r.1) (a : List UInt8) (c : UInt8)
    (hc : c.toNat ≤ 127) (b : List UInt8) : fitLen row (a ++ c :: b) = fitLen row a := by
  induction row generalizing a with
  | nil => rw [fitLen_nil_row, fitLen_nil_row]
  | cons r row ih =>
    have hr := hrow r (by simp)
    cases a with
    | nil =>
      rw [fitLen_nil]
      simp only [List.nil_append]
      unfold fitLen
      have : ¬ (r.1 ≤ c.toNat ∧ c.toNat ≤ r.2) := by omega
      simp [this]
    | cons x a =>
      simp only [List.cons_append]
      unfold fitLen
      rw [ih (fun r' h' => hrow r' (by simp [h'])) a]

theorem lossySpec_ascii_cons (c : UInt8) (hc : c.toNat ≤ 127) (b : List UInt8) :
    lossySpec (c :: b) = Char.ofNat c.toNat :: lossySpec b := by
  rw [lossySpec_cons]
  unfold stepForm
  have hr : leadRow c = some [] := by simp [leadRow, hc]
  rw [hr]
  have : c.toNat % 128 = c.toNat := by omega
  simp [fitLen_nil_row, scalarValue, leadMod, this]

/-- **decoding is compositional at ASCII bytes**: an ASCII byte (a line feed in particular) is never part of
a multi-byte sequence or of a maximal subpart, so what precedes it and what follows it decode independently. -/
theorem lossySpec_append_ascii (a : List UInt8) (c : UInt8) (hc : c.toNat ≤ 127) (b : List UInt8) :
    lossySpec (a ++ c :: b) = lossySpec a ++ Char.ofNat c.toNat :: lossySpec b := by
  generalize hn : a.length = n
  induction n using Nat.strongRecOn generalizing a with
  | _ n ih =>
    cases a with
    | nil => simp only [List.nil_append, lossySpec_nil]; exact lossySpec_ascii_cons c hc b
    | cons b0 rest =>
      simp only [List.cons_append, List.length_cons] at hn ⊢
      rw [lossySpec_cons, lossySpec_cons]
      unfold stepForm
      cases hr : leadRow b0 with
      | none =>
        simp only [List.cons_append]
        rw [ih rest.length (by omega) rest rfl]
      | some tail =>
        have hfit := fitLen_append_ascii tail (leadRow_high b0 tail hr) rest c hc b
        have hle := fitLen_le_input tail rest
        simp only [hfit, List.cons_append]
        have hdrop : (rest ++ c :: b).drop (fitLen tail rest) = rest.drop (fitLen tail rest) ++ c :: b := by
          rw [List.drop_append_of_le_length hle]
        rw [hdrop, ih (rest.drop (fitLen tail rest)).length (by simp only [List.length_drop]; omega) _ rfl]
        by_cases ht : fitLen tail rest = tail.length
        · have : (rest ++ c :: b).take tail.length = rest.take tail.length := by
            rw [List.take_append_of_le_length (by omega)]
          simp only [ht, if_true, this]
        · simp only [ht, if_false]

end Rosu.Lossy
