/-
  Lemmas/RtGeneral.lean — the `[General]` block under the codec laws, with the encoder's special rules:
  `SampleSet` is written from the first sample point (not from `default_sample_bank`), `CountdownOffset` only
  when positive, `SpecialStyle` only in mania, `EpilepsyWarning` / `SamplesMatchPlaybackRate` only when set;
  `AudioLeadIn` is printed as a float and read with the integer parser.
-/
import RosuModel.Lemmas.CodecLaws
import RosuModel.Lemmas.ToyCodec
import RosuModel.Model.Encode
namespace Rosu
namespace RtGeneral
open Rosu Encode EncodeLines C11 Scalar

variable {F P : Type} [Scalar F] [Scalar P] {RP : P → Prop}

/-- `parse_general` as a section step: the state after the call and whether the call returned `Ok`. -/
def generalStep (st : GeneralState F P) (l : Str) : GeneralState F P × Bool :=
  ((parseGeneral st l).2, (parseGeneral st l).1.isOk)

/-- the bank the encoder writes as `SampleSet`: that of the first sample point, `Normal` if there is none. -/
def sampleSetOf {F : Type} (cp : ControlPoints F) : SampleBank :=
  match cp.samplePoints.head? with
  | some sp => sp.sampleBank
  | none => SampleBank.normal

def generalLines (g : GeneralState F P) (sampleSet : SampleBank) : List Str :=
  [kvl (str "AudioFilename") g.audioFile, kvl (str "AudioLeadIn") (showF g.audioLeadIn),
   kvl (str "PreviewTime") (showInt g.previewTime), kvl (str "Countdown") (showNat g.countdown.idx),
   kvl (str "SampleSet") (showNat sampleSet.idx), kvl (str "StackLeniency") (showP g.stackLeniency),
   kvl (str "Mode") (showNat g.mode.idx), kvl (str "LetterboxInBreaks") (b01 g.letterboxInBreaks)] ++
  optLine g.epilepsyWarning (kvl (str "EpilepsyWarning") ['1']) ++
  optLine (decide (g.countdownOffset > 0)) (kvl (str "CountdownOffset") (showInt g.countdownOffset)) ++
  optLine (g.mode == GameMode.mania) (kvl (str "SpecialStyle") (b01 g.specialStyle)) ++
  [kvl (str "WidescreenStoryboard") (b01 g.widescreenStoryboard)] ++
  optLine g.samplesMatchPlaybackRate (kvl (str "SamplesMatchPlaybackRate") ['1'])

theorem encodeGeneral_eq (m : Beatmap F P) :
    encodeGeneral m = unlines (str "[General]" :: generalLines m.general (sampleSetOf m.controlPoints)) := by
  have hh : str "[General]\n" = str "[General]" ++ EncodeLines.nl := by decide
  unfold encodeGeneral generalLines sampleSetOf
  simp only [unlines_cons, unlines_append, unlines_optLine, kvLine_eq, hh, decide_eq_true_eq,
    List.append_assoc, List.cons_append, List.nil_append]
  rfl

/-! ### one line -/

theorem b01_facts (b : Bool) : trim (b01 b) = b01 b ∧ hasDS (b01 b) = false ∧ '\n' ∉ b01 b ∧
    i32ParseE (b01 b) = .ok (if b then 1 else 0) := by
  cases b <;> exact ⟨by decide, by decide, by decide, rfl⟩

theorem kvSplit_flag_line (key : Str) (b : Bool) (hk : ':' ∉ key) (hkt : trim key = key) (hdk : hasDS key = false) :
    kvSplit (trimComment (trimEnd (kvl key (b01 b)))) = (key, b01 b) :=
  kvSplit_trimComment_kvl key _ hk hkt (b01_facts b).1 hdk (b01_facts b).2.1

theorem flag_eq (b : Bool) : ((if b then (1 : Int) else 0) == 1) = b := by cases b <;> rfl

/-- a file name the `[General]` section can carry: its own trim, no line feed, no `//` (the section strips
comments), no backslash (the decoder standardises path separators). -/
structure RepAudioName (n : Str) : Prop where
  trimmed : trim n = n
  noLf : '\n' ∉ n
  noDS : hasDS n = false
  noBackslash : '\\' ∉ n

theorem parse_audioFilename (st : GeneralState F P) (n : Str) (h : RepAudioName n) :
    parseGeneral st (trimEnd (kvl (str "AudioFilename") n)) = (.ok (), { st with audioFile := n }) := by
  simp only [parseGeneral, kvSplit_trimComment_kvl (str "AudioFilename") n (by decide) (by decide) h.trimmed (by decide) h.noDS,
    show GeneralKey.parse (str "AudioFilename") = some .audioFilename from by decide, toStandardizedPath,
    replaceChar_of_none _ _ _ h.noBackslash]

theorem parse_audioLeadIn (LI : IntPrintLaw F) (st : GeneralState F P) (n : Int) (hlo : -i32Max ≤ n) (hhi : n ≤ i32Max) :
    parseGeneral st (trimEnd (kvl (str "AudioLeadIn") (showF (Scalar.ofInt n : F)))) =
      (.ok (), { st with audioLeadIn := Scalar.ofInt n }) := by
  simp only [parseGeneral, showF, LI n hlo hhi, kvSplit_int_line (str "AudioLeadIn") n (by decide) (by decide) (by decide),
    show GeneralKey.parse (str "AudioLeadIn") = some .audioLeadIn from by decide, withI32, i32ParseE_intDigits n hlo hhi]

theorem parse_previewTime (st : GeneralState F P) (n : Int) (hlo : -i32Max ≤ n) (hhi : n ≤ i32Max) :
    parseGeneral st (trimEnd (kvl (str "PreviewTime") (showInt n))) = (.ok (), { st with previewTime := n }) := by
  simp only [parseGeneral, showInt, kvSplit_int_line (str "PreviewTime") n (by decide) (by decide) (by decide),
    show GeneralKey.parse (str "PreviewTime") = some .previewTime from by decide, withI32, i32ParseE_intDigits n hlo hhi]

theorem parse_countdownOffset (st : GeneralState F P) (n : Int) (hlo : -i32Max ≤ n) (hhi : n ≤ i32Max) :
    parseGeneral st (trimEnd (kvl (str "CountdownOffset") (showInt n))) = (.ok (), { st with countdownOffset := n }) := by
  simp only [parseGeneral, showInt, kvSplit_int_line (str "CountdownOffset") n (by decide) (by decide) (by decide),
    show GeneralKey.parse (str "CountdownOffset") = some .countdownOffset from by decide, withI32, i32ParseE_intDigits n hlo hhi]

theorem parse_countdown (st : GeneralState F P) (c : CountdownType) :
    parseGeneral st (trimEnd (kvl (str "Countdown") (showNat c.idx))) = (.ok (), { st with countdown := c }) := by
  have hp : CountdownType.parse (decDigits c.idx) = some c := by cases c <;> decide
  simp only [parseGeneral, showNat, kvSplit_nat_line (str "Countdown") _ (by decide) (by decide) (by decide),
    show GeneralKey.parse (str "Countdown") = some .countdown from by decide, hp]

theorem parse_sampleSet (st : GeneralState F P) (b : SampleBank) :
    parseGeneral st (trimEnd (kvl (str "SampleSet") (showNat b.idx))) = (.ok (), { st with defaultSampleBank := b }) := by
  have hp : SampleBank.parse (decDigits b.idx) = some b := by cases b <;> decide
  simp only [parseGeneral, showNat, kvSplit_nat_line (str "SampleSet") _ (by decide) (by decide) (by decide),
    show GeneralKey.parse (str "SampleSet") = some .sampleSet from by decide, hp]

theorem parse_mode (st : GeneralState F P) (m : GameMode) :
    parseGeneral st (trimEnd (kvl (str "Mode") (showNat m.idx))) = (.ok (), { st with mode := m }) := by
  have hp : GameMode.parse (decDigits m.idx) = some m := by cases m <;> decide
  simp only [parseGeneral, showNat, kvSplit_nat_line (str "Mode") _ (by decide) (by decide) (by decide),
    show GeneralKey.parse (str "Mode") = some .mode from by decide, hp]

theorem parse_stackLeniency (LP : CodecLaws P RP) (st : GeneralState F P) (x : P) (hx : RP x) (hl : InLimit x) :
    parseGeneral st (trimEnd (kvl (str "StackLeniency") (showP x))) = (.ok (), { st with stackLeniency := x }) := by
  simp only [parseGeneral, showP, kvSplit_num_line LP (str "StackLeniency") hx (by decide) (by decide) (by decide),
    show GeneralKey.parse (str "StackLeniency") = some .stackLeniency from by decide, scalarParse_print LP hx hl]

theorem parse_letterbox (st : GeneralState F P) (b : Bool) :
    parseGeneral st (trimEnd (kvl (str "LetterboxInBreaks") (b01 b))) = (.ok (), { st with letterboxInBreaks := b }) := by
  simp only [parseGeneral, kvSplit_flag_line (str "LetterboxInBreaks") b (by decide) (by decide) (by decide),
    show GeneralKey.parse (str "LetterboxInBreaks") = some .letterboxInBreaks from by decide, withI32, (b01_facts b).2.2.2,
    flag_eq]

theorem parse_specialStyle (st : GeneralState F P) (b : Bool) :
    parseGeneral st (trimEnd (kvl (str "SpecialStyle") (b01 b))) = (.ok (), { st with specialStyle := b }) := by
  simp only [parseGeneral, kvSplit_flag_line (str "SpecialStyle") b (by decide) (by decide) (by decide),
    show GeneralKey.parse (str "SpecialStyle") = some .specialStyle from by decide, withI32, (b01_facts b).2.2.2, flag_eq]

theorem parse_widescreen (st : GeneralState F P) (b : Bool) :
    parseGeneral st (trimEnd (kvl (str "WidescreenStoryboard") (b01 b))) = (.ok (), { st with widescreenStoryboard := b }) := by
  simp only [parseGeneral, kvSplit_flag_line (str "WidescreenStoryboard") b (by decide) (by decide) (by decide),
    show GeneralKey.parse (str "WidescreenStoryboard") = some .widescreenStoryboard from by decide, withI32,
    (b01_facts b).2.2.2, flag_eq]

theorem parse_epilepsy (st : GeneralState F P) :
    parseGeneral st (trimEnd (kvl (str "EpilepsyWarning") ['1'])) = (.ok (), { st with epilepsyWarning := true }) := by
  have := kvSplit_flag_line (str "EpilepsyWarning") true (by decide) (by decide) (by decide)
  simp only [b01, if_true] at this
  simp only [parseGeneral, this, show GeneralKey.parse (str "EpilepsyWarning") = some .epilepsyWarning from by decide, withI32,
    show i32ParseE ['1'] = .ok 1 from rfl]
  rfl

theorem parse_samplesMatch (st : GeneralState F P) :
    parseGeneral st (trimEnd (kvl (str "SamplesMatchPlaybackRate") ['1'])) =
      (.ok (), { st with samplesMatchPlaybackRate := true }) := by
  have := kvSplit_flag_line (str "SamplesMatchPlaybackRate") true (by decide) (by decide) (by decide)
  simp only [b01, if_true] at this
  simp only [parseGeneral, this, show GeneralKey.parse (str "SamplesMatchPlaybackRate") = some .samplesMatchPlaybackRate from by decide,
    withI32, show i32ParseE ['1'] = .ok 1 from rfl]
  rfl

/-! ### the block -/

theorem step_of_parse {st st' : GeneralState F P} {l : Str} (h : parseGeneral st l = (.ok (), st')) :
    generalStep st l = (st', true) := by
  simp [generalStep, h, Except.isOk, Except.toBool]

/-- a general record the format can represent. `audio_lead_in` must be integral (the decoder reads it with the
integer parser); the offset only needs to fit (non-positive offsets are not written). -/
structure RepGeneral (RP : P → Prop) (g : GeneralState F P) : Prop where
  audioFile : RepAudioName g.audioFile
  audioLeadIn : ∃ n : Int, -i32Max ≤ n ∧ n ≤ i32Max ∧ g.audioLeadIn = Scalar.ofInt n
  previewTime : -i32Max ≤ g.previewTime ∧ g.previewTime ≤ i32Max
  stackLeniency : RP g.stackLeniency ∧ InLimit g.stackLeniency
  countdownOffset : g.countdownOffset ≤ i32Max

/-- what the `[General]` block carries of a general record: `default_sample_bank` is replaced by the bank of the
first sample point (that is what `SampleSet` is written from), `default_sample_volume` is never written (default
100), `special_style` is written in mania only, a non-positive `countdown_offset` is not written. -/
def preservedGeneral (g : GeneralState F P) (sampleSet : SampleBank) : GeneralState F P :=
  { g with defaultSampleBank := sampleSet, defaultSampleVolume := 100,
           specialStyle := (g.mode == GameMode.mania) && g.specialStyle,
           countdownOffset := if g.countdownOffset > 0 then g.countdownOffset else 0 }

def decodedLines (g : GeneralState F P) (sampleSet : SampleBank) : List Str := (generalLines g sampleSet).map trimEnd

theorem general_lines_spec (LI : IntPrintLaw F) (LP : CodecLaws P RP) (g : GeneralState F P) (ss : SampleBank)
    (h : RepGeneral RP g) :
    ∀ r ∈ decodedLines g ss, RecordLine r ∧ ∀ st : GeneralState F P, (generalStep st r).2 = true := by
  obtain ⟨n, hn1, hn2, hn⟩ := h.audioLeadIn
  intro r hr
  simp only [decodedLines, generalLines, List.map_append, List.map_cons, List.map_nil, optLine_map, List.mem_append,
    List.mem_cons, List.not_mem_nil, or_false] at hr
  rcases hr with (((((hr | hr | hr | hr | hr | hr | hr | hr) | hr) | hr) | hr) | hr) | hr
  · subst hr
    exact ⟨recordLine_kvl 'A' _ _ (by decide) h.audioFile.trimmed,
      fun st => by rw [step_of_parse (parse_audioFilename st _ h.audioFile)]⟩
  · subst hr
    rw [hn]
    refine ⟨?_, fun st => by rw [step_of_parse (parse_audioLeadIn LI st n hn1 hn2)]⟩
    rw [showF, LI n hn1 hn2]
    exact recordLine_kvl 'A' _ _ (by decide) (trim_intDigits n)
  · subst hr
    exact ⟨recordLine_kvl 'P' _ _ (by decide) (trim_intDigits _),
      fun st => by rw [step_of_parse (parse_previewTime st _ h.previewTime.1 h.previewTime.2)]⟩
  · subst hr
    exact ⟨recordLine_kvl 'C' _ _ (by decide) (trim_decDigits _), fun st => by rw [step_of_parse (parse_countdown st _)]⟩
  · subst hr
    exact ⟨recordLine_kvl 'S' _ _ (by decide) (trim_decDigits _), fun st => by rw [step_of_parse (parse_sampleSet st _)]⟩
  · subst hr
    exact ⟨recordLine_kvl 'S' _ _ (by decide) (LP.trim_print h.stackLeniency.1),
      fun st => by rw [step_of_parse (parse_stackLeniency LP st _ h.stackLeniency.1 h.stackLeniency.2)]⟩
  · subst hr
    exact ⟨recordLine_kvl 'M' _ _ (by decide) (trim_decDigits _), fun st => by rw [step_of_parse (parse_mode st _)]⟩
  · subst hr
    exact ⟨recordLine_kvl 'L' _ _ (by decide) (b01_facts _).1, fun st => by rw [step_of_parse (parse_letterbox st _)]⟩
  · rw [(mem_optLine hr).2]
    exact ⟨recordLine_kvl 'E' _ _ (by decide) (by decide), fun st => by rw [step_of_parse (parse_epilepsy st)]⟩
  · have hp : g.countdownOffset > 0 := by simpa using (mem_optLine hr).1
    rw [(mem_optLine hr).2]
    exact ⟨recordLine_kvl 'C' _ _ (by decide) (trim_intDigits _),
      fun st => by rw [step_of_parse (parse_countdownOffset st _ (by unfold i32Max; omega) h.countdownOffset)]⟩
  · rw [(mem_optLine hr).2]
    exact ⟨recordLine_kvl 'S' _ _ (by decide) (b01_facts _).1, fun st => by rw [step_of_parse (parse_specialStyle st _)]⟩
  · subst hr
    exact ⟨recordLine_kvl 'W' _ _ (by decide) (b01_facts _).1, fun st => by rw [step_of_parse (parse_widescreen st _)]⟩
  · rw [(mem_optLine hr).2]
    exact ⟨recordLine_kvl 'S' _ _ (by decide) (by decide), fun st => by rw [step_of_parse (parse_samplesMatch st)]⟩

theorem generalLines_no_lf (LI : IntPrintLaw F) (LP : CodecLaws P RP) (g : GeneralState F P) (ss : SampleBank)
    (h : RepGeneral RP g) : ∀ l ∈ generalLines g ss, '\n' ∉ l := by
  obtain ⟨n, hn1, hn2, hn⟩ := h.audioLeadIn
  have hi : ∀ v : Int, '\n' ∉ showInt v := fun v => intDigits_not_mem v _ (by decide)
  have hd : ∀ v : Nat, '\n' ∉ showNat v := fun v => decDigits_not_mem v _ (by decide)
  intro l hl
  simp only [generalLines, List.mem_append, List.mem_cons, List.not_mem_nil, or_false] at hl
  rcases hl with (((((hl | hl | hl | hl | hl | hl | hl | hl) | hl) | hl) | hl) | hl) | hl
  · subst hl; exact not_lf_kvl _ _ (by decide) h.audioFile.noLf
  · subst hl; rw [hn, showF, LI n hn1 hn2]; exact not_lf_kvl _ _ (by decide) (hi n)
  · subst hl; exact not_lf_kvl _ _ (by decide) (hi _)
  · subst hl; exact not_lf_kvl _ _ (by decide) (hd _)
  · subst hl; exact not_lf_kvl _ _ (by decide) (hd _)
  · subst hl; exact not_lf_kvl _ _ (by decide) (LP.not_mem h.stackLeniency.1 _ (by decide))
  · subst hl; exact not_lf_kvl _ _ (by decide) (hd _)
  · subst hl; exact not_lf_kvl _ _ (by decide) (b01_facts _).2.2.1
  · rw [(mem_optLine hl).2]; exact not_lf_kvl _ _ (by decide) (by decide)
  · rw [(mem_optLine hl).2]; exact not_lf_kvl _ _ (by decide) (hi _)
  · rw [(mem_optLine hl).2]; exact not_lf_kvl _ _ (by decide) (b01_facts _).2.2.1
  · subst hl; exact not_lf_kvl _ _ (by decide) (b01_facts _).2.2.1
  · rw [(mem_optLine hl).2]; exact not_lf_kvl _ _ (by decide) (by decide)

theorem general_block_result (LI : IntPrintLaw F) (LP : CodecLaws P RP) (g : GeneralState F P) (ss : SampleBank)
    (h : RepGeneral RP g) :
    runSection generalStep (GeneralState.default : GeneralState F P) (decodedLines g ss) = preservedGeneral g ss := by
  obtain ⟨n, hn1, hn2, hn⟩ := h.audioLeadIn
  have hco : g.countdownOffset > 0 → ∀ st : GeneralState F P,
      generalStep st (trimEnd (kvl (str "CountdownOffset") (showInt g.countdownOffset))) =
        ({ st with countdownOffset := g.countdownOffset }, true) :=
    fun hp st => step_of_parse (parse_countdownOffset st _ (by unfold i32Max; omega) h.countdownOffset)
  simp only [decodedLines, generalLines, List.map_append, List.map_cons, List.map_nil, optLine_map, runSection_append,
    runSection_cons, runSection_nil, runSection_optLine, hn,
    fun st : GeneralState F P => step_of_parse (parse_audioFilename st _ h.audioFile),
    fun st : GeneralState F P => step_of_parse (parse_audioLeadIn LI st n hn1 hn2),
    fun st : GeneralState F P => step_of_parse (parse_previewTime st _ h.previewTime.1 h.previewTime.2),
    fun st : GeneralState F P => step_of_parse (parse_countdown st g.countdown),
    fun st : GeneralState F P => step_of_parse (parse_sampleSet st ss),
    fun st : GeneralState F P => step_of_parse (parse_stackLeniency LP st _ h.stackLeniency.1 h.stackLeniency.2),
    fun st : GeneralState F P => step_of_parse (parse_mode st g.mode),
    fun st : GeneralState F P => step_of_parse (parse_letterbox st g.letterboxInBreaks),
    fun st : GeneralState F P => step_of_parse (parse_epilepsy st),
    fun st : GeneralState F P => step_of_parse (parse_specialStyle st g.specialStyle),
    fun st : GeneralState F P => step_of_parse (parse_widescreen st g.widescreenStoryboard),
    fun st : GeneralState F P => step_of_parse (parse_samplesMatch st)]
  obtain ⟨af, ali, pt, dsb, dsv, sl, md, lb, sps, ws, ew, smp, cd, co⟩ := g
  simp only at hn hco ⊢
  subst hn
  simp only [preservedGeneral, GeneralState.default]
  by_cases hp : co > 0
  · simp only [hp, decide_true, if_true, hco hp]
    cases ew <;> cases smp <;> cases md <;> rfl
  · simp only [hp, decide_false, if_false, Bool.false_eq_true]
    cases ew <;> cases smp <;> cases md <;> rfl

/-- **general_block_roundtrip** (C04 + C02 for the block, under the codec laws): every line `encode_general`
writes is a record line accepted by `parse_general`, and the block, run from the decoder's initial state, yields
the record on the preserved view — audio file, lead-in, preview time, countdown, stack leniency, mode, the five
flags (with the encoder's rules: `SpecialStyle` in mania only, `EpilepsyWarning` / `SamplesMatchPlaybackRate`
only when set) and a positive countdown offset; `default_sample_bank` comes back as the first sample point's bank. -/
theorem general_block_roundtrip (LI : IntPrintLaw F) (LP : CodecLaws P RP) (g : GeneralState F P) (ss : SampleBank)
    (h : RepGeneral RP g) :
    (∀ r ∈ decodedLines g ss, RecordLine r) ∧
    Accepts generalStep (GeneralState.default : GeneralState F P) (decodedLines g ss) ∧
    runSection generalStep (GeneralState.default : GeneralState F P) (decodedLines g ss) = preservedGeneral g ss :=
  ⟨fun r hr => (general_lines_spec LI LP g ss h r hr).1,
   accepts_of_forall _ _ (fun r hr => (general_lines_spec LI LP g ss h r hr).2) _, general_block_result LI LP g ss h⟩

/-! ### non-vacuity (toy codec) -/

def sample : GeneralState ZC ZC :=
  { audioFile := str "dir/a b:c.mp3", audioLeadIn := ⟨-2147483647⟩, previewTime := 2147483647,
    defaultSampleBank := SampleBank.drum, defaultSampleVolume := 35, stackLeniency := ⟨7⟩, mode := GameMode.mania,
    letterboxInBreaks := true, specialStyle := true, widescreenStoryboard := false, epilepsyWarning := true,
    samplesMatchPlaybackRate := false, countdown := CountdownType.doubleSpeed, countdownOffset := 3 }

theorem sample_rep : RepGeneral ZC.Rep sample :=
  ⟨⟨by decide, by decide, by decide, by decide⟩, ⟨-2147483647, by decide, by decide, rfl⟩, by decide,
   ⟨by decide, by decide⟩, by decide⟩

example : runSection generalStep GeneralState.default (decodedLines sample SampleBank.soft) =
    { sample with defaultSampleBank := SampleBank.soft, defaultSampleVolume := 100 } :=
  general_block_result ZC.intPrintLaw ZC.laws sample SampleBank.soft sample_rep

example : decodedLines sample SampleBank.soft =
    [str "AudioFilename: dir/a b:c.mp3", str "AudioLeadIn: -2147483647", str "PreviewTime: 2147483647", str "Countdown: 3",
     str "SampleSet: 2", str "StackLeniency: 7", str "Mode: 3", str "LetterboxInBreaks: 1", str "EpilepsyWarning: 1",
     str "CountdownOffset: 3", str "SpecialStyle: 1", str "WidescreenStoryboard: 0"] := by decide

end RtGeneral
end Rosu
