/-
  Lemmas/CurveTotal.lean — index safety of the curve computation (property C01).

  `Safe Q r`: the outcome `r` is a value satisfying `Q`, or fuel exhaustion — never `CErr.panic`.
  Proved here, for every `Scalar` instance (no arithmetic law: index safety is control flow), every fuel and all
  well-formed scratch buffers: `approximate_bezier`, `approximate_catmull`, `approximate_circular_arc`,
  `calculate_subpath`, the joint de-duplication, the segment loop of `calculate_path`, `calculate_path` itself.
-/
import RosuModel.Model.Curve
import RosuModel.Lemmas.Outcome
import RosuModel.Lemmas.BezierPure
namespace Rosu
open Rosu.Curve

/-! ### outcomes that are not a panic -/

section Safe
variable {α β : Type}

/-- the outcome is a value satisfying `Q`, or fuel exhaustion; never a panic. -/
def Safe (Q : α → Prop) : Outcome α → Prop
  | .ok a => Q a
  | .error e => e = .fuel

theorem Safe.ok {Q : α → Prop} {a : α} (h : Q a) : Safe Q (.ok a) := h

theorem Safe.fuel {Q : α → Prop} : Safe Q (.error .fuel) := rfl

theorem Safe.of_eq {Q : α → Prop} {r : Outcome α} {a : α} (h : r = .ok a) (q : Q a) : Safe Q r := by
  rw [h]; exact q

theorem Safe.of_exists {r : Outcome α} (h : ∃ a, r = .ok a) : Safe (fun _ => True) r := by
  obtain ⟨a, h⟩ := h; rw [h]; exact True.intro

theorem Safe.mono {Q S : α → Prop} {r : Outcome α} (h : Safe Q r) (hqs : ∀ a, Q a → S a) : Safe S r := by
  cases r with
  | ok a => exact hqs a h
  | error e => exact h

theorem Safe.bind {Q : α → Prop} {S : β → Prop} {r : Outcome α} {f : α → Outcome β}
    (h : Safe Q r) (hf : ∀ a, Q a → Safe S (f a)) : Safe S (r >>= f) := by
  cases r with
  | ok a => exact hf a h
  | error e => exact h

theorem Safe.bind' {Q : α → Prop} {S : β → Prop} {r : Outcome α} {f : α → Outcome β}
    (h : Safe Q r) (hf : ∀ a, r = .ok a → Q a → Safe S (f a)) : Safe S (r >>= f) := by
  cases r with
  | ok a => exact hf a rfl h
  | error e => exact h

/-- a safe outcome is not a panic. -/
theorem Safe.no_panic {Q : α → Prop} {r : Outcome α} (h : Safe Q r) : r ≠ .error .panic := by
  cases r with
  | ok a => intro h'; cases h'
  | error e => intro h'; cases h'; cases h

/-- a safe outcome is a value or fuel exhaustion. -/
theorem Safe.cases {Q : α → Prop} {r : Outcome α} (h : Safe Q r) : (∃ a, r = .ok a ∧ Q a) ∨ r = .error .fuel := by
  cases r with
  | ok a => exact Or.inl ⟨a, rfl, h⟩
  | error e => cases h; exact Or.inr rfl

theorem Safe.of_no_panic {r : Outcome α} (h : r ≠ .error .panic) : Safe (fun _ => True) r := by
  cases r with
  | ok a => exact True.intro
  | error e => cases e with
    | panic => exact absurd rfl h
    | fuel => rfl

/-- what an `ok` safe outcome satisfies. -/
theorem Safe.elim_ok {Q : α → Prop} {r : Outcome α} {a : α} (h : Safe Q r) (hr : r = .ok a) : Q a := by
  rw [hr] at h; exact h

end Safe

/-! ### Bezier -/

section Bezier
variable {P : Type} [Scalar P]

theorem bezierSubdivide_ok (points l r mid : List (Pos P)) (hc : 1 ≤ points.length)
    (hl : points.length ≤ l.length) (hr : points.length ≤ r.length) (hm : points.length ≤ mid.length) :
    ∃ l2 r2 m2, bezierSubdivide points l r mid = .ok (l2, r2, m2) ∧
      l2.length = l.length ∧ r2.length = r.length ∧ m2.length = mid.length := by
  obtain ⟨l2, r2, m2, _, _, _, e1, _, g1, g2, g3, _⟩ :=
    bezierSubdivide_agree points l r mid l r mid hc hl hr hm hl hr hm
  exact ⟨l2, r2, m2, e1, g1, g2, g3⟩

theorem bezierApproximate_ok (points l r mid : List (Pos P)) (hc : 1 ≤ points.length)
    (hl : points.length ≤ l.length) (hr : points.length ≤ r.length) (hm : points.length ≤ mid.length) :
    ∃ piece l2 r2 m2, bezierApproximate points l r mid = .ok (piece, l2, r2, m2) ∧
      l2.length = l.length ∧ r2.length = r.length ∧ m2.length = mid.length := by
  obtain ⟨piece, l2, r2, m2, _, _, _, e1, _, g1, g2, g3, _⟩ :=
    bezierApproximate_agree points l r mid l r mid hc hl hr hm hl hr hm
  exact ⟨piece, l2, r2, m2, e1, g1, g2, g3⟩

omit [Scalar P] in
theorem Safe.push {Q : BezierBuffers P → Prop} (piece : List (Pos P))
    {r : Outcome (List (Pos P) × BezierBuffers P)} (h : Safe (fun x => Q x.2) r) :
    Safe (fun x => Q x.2) (do let x ← r; pure (piece ++ x.1, x.2)) := by
  cases r with
  | ok a => exact h
  | error e => exact h

/-- **the flattening loop cannot panic**: with every stacked / recycled polygon of length `p ≥ 1` and the four
scratch vectors holding at least `p` cells, every index, slice and `copy_from_slice` of the loop is in range;
the loop ends with a value (scratch vector lengths unchanged) or runs out of fuel. -/
theorem bsplineLoop_safe (p : Nat) (hp : 1 ≤ p) : ∀ (fuel : Nat) (stack free : List (List (Pos P)))
    (b : BezierBuffers P), (∀ x ∈ stack, x.length = p) → (∀ x ∈ free, x.length = p) → b.Big p →
    Safe (fun x => b.SameLen x.2) (bsplineLoop p fuel { stack := stack, free := free, bufs := b }) := by
  intro fuel
  induction fuel with
  | zero =>
    intro stack free b _ _ _
    cases stack with
    | nil => exact ⟨rfl, rfl, rfl, rfl⟩
    | cons x t => rfl
  | succ fuel ih =>
    intro stack free b hst hfr hb
    cases stack with
    | nil => exact ⟨rfl, rfl, rfl, rfl⟩
    | cons parent rest =>
      have hpl : parent.length = p := hst parent (by simp)
      have hrest : ∀ x ∈ rest, x.length = p := fun x hx => hst x (by simp [hx])
      obtain ⟨b1, b2, b3, b4⟩ := hb
      by_cases hflat : bezierIsFlatEnough parent = true
      · obtain ⟨piece, l2, r2, m2, e1, g1, g2, g3⟩ :=
          bezierApproximate_ok parent b.left b.right b.midpoints (by omega) (by omega) (by omega) (by omega)
        have hrec := ih rest (parent :: free)
          { b with left := l2, right := r2, midpoints := m2 } hrest
          (fun x hx => by
            rcases List.mem_cons.mp hx with h | h
            · rw [h]; exact hpl
            · exact hfr x h)
          ⟨by simp only; omega, by simp only; omega, by simp only; omega, b4⟩
        simp only [bsplineLoop, hflat, if_true, e1, Outcome.ok_bind]
        have hsl : b.SameLen { b with left := l2, right := r2, midpoints := m2 } := ⟨g1, g2, g3, rfl⟩
        exact Safe.push piece (hrec.mono (fun x hx => hsl.trans hx))
      · have hflat' : bezierIsFlatEnough parent = false := by
          cases h : bezierIsFlatEnough parent
          · rfl
          · exact absurd h hflat
        have main : ∀ (rc : List (Pos P)) (fr2 : List (List (Pos P))), rc.length = p →
            (∀ x ∈ fr2, x.length = p) →
            Safe (fun x => b.SameLen x.2)
              (do let x ← bezierSubdivide parent b.leftChild rc b.midpoints
                  let s ← sliceTo x.1 p
                  let parent ← copyFromSlice parent s
                  bsplineLoop p fuel ⟨parent :: x.2.1 :: rest, fr2, { b with leftChild := x.1, midpoints := x.2.2 }⟩) := by
          intro rc fr2 hrc hfr2
          obtain ⟨lc2, rc2, m2, e1, g1, g2, g3⟩ :=
            bezierSubdivide_ok parent b.leftChild rc b.midpoints (by omega) (by omega) (by omega) (by omega)
          have s1 := sliceTo_eq lc2 p (by omega)
          have c1 : copyFromSlice parent (lc2.take p) = .ok (lc2.take p) := by
            simp [copyFromSlice, hpl]; omega
          have hrec := ih (lc2.take p :: rc2 :: rest) fr2
            { b with leftChild := lc2, midpoints := m2 }
            (fun x hx => by
              rcases List.mem_cons.mp hx with h | h
              · rw [h]; simp; omega
              · rcases List.mem_cons.mp h with h | h
                · rw [h]; omega
                · exact hrest x h)
            hfr2
            ⟨b1, b2, by simp only; omega, by simp only; omega⟩
          simp only [e1, s1, c1, Outcome.ok_bind]
          have hsl : b.SameLen { b with leftChild := lc2, midpoints := m2 } := ⟨rfl, rfl, g3, g1⟩
          exact hrec.mono (fun x hx => hsl.trans hx)
        simp only [bsplineLoop, hflat', Bool.false_eq_true, if_false]
        cases free with
        | nil => exact main _ [] (by simp) (by simp)
        | cons f fr => exact main f fr (hfr f (by simp)) (fun x hx => hfr x (by simp [hx]))

/-- **`approximate_bezier` cannot panic** on a non-empty control polygon and well-formed scratch buffers, and it
leaves them well-formed. -/
theorem approximateBezier_safe (fuel : Nat) (pts : List (Pos P)) (h1 : 1 ≤ pts.length) (b : BezierBuffers P)
    (hb : b.WF) : Safe (fun x => x.2.WF) (approximateBezier fuel pts b) := by
  have hw := BezierBuffers.extendExact_wf b pts.length hb
  have hlen := BezierBuffers.extendExact_len b pts.length
  have big : (b.extendExact pts.length).Big pts.length := by
    obtain ⟨w1, w2, w3⟩ := hw
    exact ⟨hlen, by omega, by omega, by omega⟩
  have key := bsplineLoop_safe pts.length h1 fuel [pts] [] (b.extendExact pts.length)
    (fun x hx => by simp at hx; rw [hx]) (fun x hx => by simp at hx) big
  unfold approximateBezier approximateBspline
  refine Safe.bind key ?_
  rintro ⟨out, b2⟩ ⟨s1, s2, s3, s4⟩
  simp only at s1 s2 s3 s4
  have hu := usub_eq pts.length 1 h1
  have hg := getI_eq pts (pts.length - 1) (by omega)
  simp only [hu, hg, Outcome.ok_bind, Outcome.pure_eq_ok]
  obtain ⟨w1, w2, w3⟩ := hw
  exact ⟨by rw [s2, s1, w1], by rw [s3, s1, w2], by rw [s4, s1, w3]⟩

end Bezier

/-! ### fuel of the Bezier flattening

The loop pops a polygon, emits it when `bezier_is_flat_enough`, otherwise replaces it by its two halves. Whether a
polygon is flat enough is arithmetic; what is structural is the bookkeeping: if a *finite subdivision tree* exists
for the control polygon (`SubdivTree pts n`: `n` nodes, every leaf flat enough), then `n` rounds suffice, whatever the
scratch buffers hold. The halves are those computed on zeroed scratch vectors — by `bezierSubdivide_agree` they do not
depend on the scratch contents. -/

section Fuel
variable {P : Type} [Scalar P]

/-- zeroed scratch vector. -/
def zeros (n : Nat) : List (Pos P) := List.replicate n Pos.zero

/-- a finite subdivision tree with `n` nodes whose leaves are all flat enough. -/
inductive SubdivTree : List (Pos P) → Nat → Prop
  | leaf {x : List (Pos P)} : bezierIsFlatEnough x = true → SubdivTree x 1
  | node {x l2 r2 m2 : List (Pos P)} {a b : Nat} : bezierIsFlatEnough x = false →
      bezierSubdivide x (zeros x.length) (zeros x.length) (zeros x.length) = .ok (l2, r2, m2) →
      SubdivTree (l2.take x.length) a → SubdivTree (r2.take x.length) b → SubdivTree x (1 + a + b)

theorem SubdivTree.pos {x : List (Pos P)} {n : Nat} (h : SubdivTree x n) : 1 ≤ n := by
  cases h <;> omega

/-- the polygons on the stack have subdivision trees with `n` nodes in total. -/
inductive StackCost : List (List (Pos P)) → Nat → Prop
  | nil : StackCost [] 0
  | cons {x : List (Pos P)} {rest : List (List (Pos P))} {n m : Nat} :
      SubdivTree x n → StackCost rest m → StackCost (x :: rest) (n + m)

/-- **structural fuel bound of the flattening loop**: `n` rounds suffice when the stacked polygons have
subdivision trees with `n` nodes in total. -/
theorem bsplineLoop_fuel (p : Nat) (hp : 1 ≤ p) : ∀ (fuel : Nat) (stack free : List (List (Pos P)))
    (b : BezierBuffers P) (n : Nat), StackCost stack n → n ≤ fuel →
    (∀ x ∈ stack, x.length = p) → (∀ x ∈ free, x.length = p) → b.Big p →
    ∃ r, bsplineLoop p fuel { stack := stack, free := free, bufs := b } = .ok r := by
  intro fuel
  induction fuel with
  | zero =>
    intro stack free b n hc hn _ _ _
    cases hc with
    | nil => exact ⟨_, rfl⟩
    | cons hx _ => have := hx.pos; omega
  | succ fuel ih =>
    intro stack free b n hc hn hst hfr hb
    cases hc with
    | nil => exact ⟨_, rfl⟩
    | @cons parent rest n1 m htree hrestc =>
      have hpl : parent.length = p := hst parent (by simp)
      have hrest : ∀ x ∈ rest, x.length = p := fun x hx => hst x (by simp [hx])
      obtain ⟨b1, b2, b3, b4⟩ := hb
      cases htree with
      | leaf hflat =>
        obtain ⟨piece, l2, r2, m2, e1, g1, g2, g3⟩ :=
          bezierApproximate_ok parent b.left b.right b.midpoints (by omega) (by omega) (by omega) (by omega)
        obtain ⟨r, hr⟩ := ih rest (parent :: free)
          { b with left := l2, right := r2, midpoints := m2 } m hrestc (by omega) hrest
          (fun x hx => by
            rcases List.mem_cons.mp hx with h | h
            · rw [h]; exact hpl
            · exact hfr x h)
          ⟨by simp only; omega, by simp only; omega, by simp only; omega, b4⟩
        simp only [bsplineLoop, hflat, if_true, e1, Outcome.ok_bind, hr]
        exact ⟨_, rfl⟩
      | @node _ zl zr zm a c hflat hsub hta htc =>
        have main : ∀ (rc : List (Pos P)) (fr2 : List (List (Pos P))), rc.length = p →
            (∀ x ∈ fr2, x.length = p) →
            ∃ r, (do let x ← bezierSubdivide parent b.leftChild rc b.midpoints
                     let s ← sliceTo x.1 p
                     let parent ← copyFromSlice parent s
                     bsplineLoop p fuel ⟨parent :: x.2.1 :: rest, fr2,
                       { b with leftChild := x.1, midpoints := x.2.2 }⟩) = .ok r := by
          intro rc fr2 hrc hfr2
          have hz : (zeros parent.length : List (Pos P)).length = parent.length := by simp [zeros]
          obtain ⟨lc2, rc2, m2, zl', zr', zm', e1, e2, g1, g2, g3, _, _, _, tl, tr⟩ :=
            bezierSubdivide_agree parent b.leftChild rc b.midpoints (zeros parent.length) (zeros parent.length)
              (zeros parent.length) (by omega) (by omega) (by omega) (by omega) (by omega) (by omega) (by omega)
          rw [hsub] at e2
          cases e2
          have hrc2 : rc2 = zr.take parent.length := by
            rw [← tr, List.take_of_length_le (by omega)]
          have s1 := sliceTo_eq lc2 p (by omega)
          have c1 : copyFromSlice parent (lc2.take p) = .ok (lc2.take p) := by
            simp [copyFromSlice, hpl]; omega
          have hcost : StackCost (lc2.take p :: rc2 :: rest) (a + (c + m)) := by
            refine StackCost.cons ?_ (StackCost.cons ?_ hrestc)
            · rw [← hpl, tl]; exact hta
            · rw [hrc2]; exact htc
          obtain ⟨r, hr⟩ := ih (lc2.take p :: rc2 :: rest) fr2
            { b with leftChild := lc2, midpoints := m2 } _ hcost (by omega)
            (fun x hx => by
              rcases List.mem_cons.mp hx with h | h
              · rw [h]; simp; omega
              · rcases List.mem_cons.mp h with h | h
                · rw [h]; omega
                · exact hrest x h)
            hfr2
            ⟨b1, b2, by simp only; omega, by simp only; omega⟩
          simp only [e1, s1, c1, Outcome.ok_bind]
          exact ⟨r, hr⟩
        simp only [bsplineLoop, hflat, Bool.false_eq_true, if_false]
        cases free with
        | nil => exact main _ [] (by simp) (by simp)
        | cons f fr => exact main f fr (hfr f (by simp)) (fun x hx => hfr x (by simp [hx]))

/-- **`bezier_fuel_suffices` (structural part)**: if the control polygon has a finite subdivision tree with `n`
nodes, `approximate_bezier` with fuel `≥ n` returns a value — no fuel exhaustion, no panic — on all well-formed
scratch buffers. -/
theorem approximateBezier_fuel_suffices (fuel : Nat) (pts : List (Pos P)) (h1 : 1 ≤ pts.length) (n : Nat)
    (htree : SubdivTree pts n) (hn : n ≤ fuel) (b : BezierBuffers P) (hb : b.WF) :
    ∃ r, approximateBezier fuel pts b = .ok r := by
  have hw := BezierBuffers.extendExact_wf b pts.length hb
  have hlen := BezierBuffers.extendExact_len b pts.length
  have big : (b.extendExact pts.length).Big pts.length := by
    obtain ⟨w1, w2, w3⟩ := hw
    exact ⟨hlen, by omega, by omega, by omega⟩
  obtain ⟨r, hr⟩ := bsplineLoop_fuel pts.length h1 fuel [pts] [] (b.extendExact pts.length) (n + 0)
    (StackCost.cons htree StackCost.nil) (by omega)
    (fun x hx => by simp at hx; rw [hx]) (fun x hx => by simp at hx) big
  unfold approximateBezier approximateBspline
  have hu := usub_eq pts.length 1 h1
  have hg := getI_eq pts (pts.length - 1) (by omega)
  simp only [hr, hu, hg, Outcome.ok_bind, Outcome.pure_eq_ok]
  exact ⟨_, rfl⟩

/-- "after at most `k` rounds of halving every piece is flat enough". -/
def FlatAfter : Nat → List (Pos P) → Prop
  | 0, x => bezierIsFlatEnough x = true
  | k + 1, x => bezierIsFlatEnough x = true ∨
      ∃ l2 r2 m2, bezierSubdivide x (zeros x.length) (zeros x.length) (zeros x.length) = .ok (l2, r2, m2) ∧
        FlatAfter k (l2.take x.length) ∧ FlatAfter k (r2.take x.length)

theorem FlatAfter.tree : ∀ (k : Nat) (x : List (Pos P)), FlatAfter k x → ∃ n, n ≤ 2 ^ (k + 1) - 1 ∧ SubdivTree x n := by
  intro k
  induction k with
  | zero => intro x h; exact ⟨1, by simp, SubdivTree.leaf h⟩
  | succ k ih =>
    intro x h
    have hpow : 2 ^ (k + 1 + 1) = 2 * 2 ^ (k + 1) := by rw [Nat.pow_succ]; omega
    have hpos : 1 ≤ 2 ^ (k + 1) := Nat.one_le_two_pow
    by_cases hflat : bezierIsFlatEnough x = true
    · exact ⟨1, by omega, SubdivTree.leaf hflat⟩
    · rcases h with h | ⟨l2, r2, m2, hs, ha, hb⟩
      · exact absurd h hflat
      · obtain ⟨a, hale, hta⟩ := ih _ ha
        obtain ⟨c, hcle, htc⟩ := ih _ hb
        have hflat' : bezierIsFlatEnough x = false := by
          cases h : bezierIsFlatEnough x
          · rfl
          · exact absurd h hflat
        exact ⟨1 + a + c, by omega, SubdivTree.node hflat' hs hta htc⟩

/-- **`bezier_fuel_suffices`**: if every piece is flat enough after at most `k` halvings, fuel `2^(k+1) − 1` suffices.
That such a `k` exists (second differences quarter at each halving, so `k ≈ log₄(|Δ²| / 0.25)` under the decoder's
coordinate bound) is a fact about the arithmetic — a hypothesis here, not proved for IEEE. -/
theorem bezier_fuel_suffices (fuel k : Nat) (pts : List (Pos P)) (h1 : 1 ≤ pts.length) (hk : FlatAfter k pts)
    (hf : 2 ^ (k + 1) - 1 ≤ fuel) (b : BezierBuffers P) (hb : b.WF) :
    ∃ r, approximateBezier fuel pts b = .ok r := by
  obtain ⟨n, hn, ht⟩ := FlatAfter.tree k pts hk
  exact approximateBezier_fuel_suffices fuel pts h1 n ht (by omega) b hb

end Fuel

/-! ### Catmull, circular arc, sub-path dispatch -/

section Path
variable {P F : Type} [Scalar P] [Scalar F] [Cvt P F] [Trig F] [Trig P]

omit [Scalar F] [Cvt P F] [Trig F] [Trig P] in
/-- **`approximate_catmull` cannot panic** on a non-empty list: `points.len() - 1` does not underflow, `points[0]`
exists, every later read is a `get(i)` with a fallback. -/
theorem approximateCatmull_ok (points : List (Pos P)) (h : 1 ≤ points.length) :
    ∃ r, approximateCatmull points = .ok r := by
  unfold approximateCatmull
  split
  · exact ⟨_, rfl⟩
  · rw [usub_eq _ _ h, Outcome.ok_bind, getI_eq _ _ (by omega), Outcome.ok_bind]
    exact ⟨_, rfl⟩

omit [Scalar P] [Cvt P F] [Trig P] in
theorem thetaLoop_safe (fuel : Nat) : ∀ (te ts : F), Safe (fun _ => True) (thetaLoop fuel te ts) := by
  induction fuel with
  | zero => intro te ts; unfold thetaLoop; split <;> first | rfl | exact True.intro
  | succ n ih =>
    intro te ts
    unfold thetaLoop
    split
    · exact ih _ _
    · exact True.intro

omit [Trig P] in
theorem circularArcProperties_safe (fuel : Nat) (a b c : Pos P) :
    Safe (fun _ => True) (circularArcProperties (F := F) fuel a b c) := by
  unfold circularArcProperties
  split
  · exact True.intro
  · simp only []
    split
    · exact True.intro
    · refine Safe.bind (thetaLoop_safe (F := F) fuel _ _) ?_
      intro te _
      split <;> exact True.intro

omit [Trig F] in
theorem arcSubPoints_ge_two (pr : ArcProps P F) : 2 ≤ arcSubPoints pr := by
  unfold arcSubPoints
  split
  · exact Nat.le_refl _
  · simp only []
    split
    · exact Nat.le_refl _
    · exact Nat.le_max_right _ _

/-- **`approximate_circular_arc` cannot panic**: `sub_points - 1` does not underflow (`sub_points ≥ 2`). -/
theorem approximateCircularArc_safe (fuel : Nat) (a b c : Pos P) :
    Safe (fun _ => True) (approximateCircularArc (F := F) fuel a b c) := by
  unfold approximateCircularArc
  refine Safe.bind (circularArcProperties_safe fuel a b c) ?_
  intro pr _
  cases pr with
  | none => exact True.intro
  | some pr =>
    simp only []
    split
    · exact True.intro
    · rw [usub_eq _ _ (by have := arcSubPoints_ge_two pr; omega), Outcome.ok_bind]
      exact True.intro

/-- **`calculate_subpath` cannot panic** on a segment of at least one vertex (the caller passes at least two) and
well-formed scratch buffers, which it leaves well-formed. -/
theorem calculateSubpath_safe (fuel : Nat) (mode : GameMode) (seg : List (Pos P)) (h1 : 1 ≤ seg.length)
    (kind : SplineType) (o : F) (b : BezierBuffers P) (hb : b.WF) :
    Safe (fun r => r.2.2.WF) (calculateSubpath fuel mode seg kind o b) := by
  have hbez : Safe (fun r : List (Pos P) × F × BezierBuffers P => r.2.2.WF)
      (do let (out, bufs) ← approximateBezier fuel seg b; pure (out, o, bufs)) := by
    refine Safe.bind (approximateBezier_safe fuel seg h1 b hb) ?_
    rintro ⟨out, b2⟩ hw
    exact hw
  unfold calculateSubpath
  cases kind with
  | linear => exact hb
  | bspline => exact hbez
  | catmull =>
    obtain ⟨sub, hsub⟩ := approximateCatmull_ok seg h1
    simp only [hsub, Outcome.ok_bind]
    split
    · exact hb
    · exact hb
  | perfectCurve =>
    simp only []
    split
    · refine Safe.bind (approximateCircularArc_safe (F := F) fuel _ _ _) ?_
      intro arc _
      cases arc with
      | some pts => exact hb
      | none => exact hbez
    · simp only [Outcome.pure_eq_ok, Outcome.ok_bind]
      exact hbez

omit [Scalar F] [Cvt P F] [Trig F] [Trig P] in
/-- **the joint de-duplication cannot panic**: `path[path_len - 1]` is read only when `path_len ≥ 1` and
`path.get(path_len)` is `Some`. -/
theorem dedupJoint_ok (path : List (Pos P)) (n : Nat) : ∃ r, dedupJoint path n = .ok r := by
  unfold dedupJoint
  by_cases hn : n ≥ 1
  · cases hp : path[n]? with
    | none =>
      simp only [hn, if_true, Outcome.pure_eq_ok, Outcome.ok_bind, Bool.false_eq_true, if_false]
      exact ⟨_, rfl⟩
    | some first =>
      have hlt : n < path.length := by
        rcases Nat.lt_or_ge n path.length with h | h
        · exact h
        · rw [List.getElem?_eq_none h] at hp; cases hp
      simp only [hn, if_true, getI_eq path (n - 1) (by omega), Outcome.ok_bind, Outcome.pure_eq_ok]
      split <;> exact ⟨_, rfl⟩
  · simp only [hn, if_false, Outcome.pure_eq_ok, Outcome.ok_bind, Bool.false_eq_true]
    exact ⟨_, rfl⟩

/-- **one turn of the segment loop cannot panic**: with `start ≤ i < points.len()` the slice `vertices[start..=i]`
is in range and non-empty, `points[i]` and `points[start]` exist, and the callee is safe. The invariant
(`start ≤ i`, well-formed scratch) is re-established for the next index. -/
theorem segBody_safe (fuel : Nat) (mode : GameMode) (points : List (PathControlPoint P)) (vertices : List (Pos P))
    (hv : vertices.length = points.length) (st : SegState P F) (i : Nat) (hi : i < points.length)
    (hs : st.start ≤ i) (hw : st.bezier.WF) :
    Safe (fun st' => st'.start ≤ i ∧ st'.bezier.WF) (segBody fuel mode points vertices st i) := by
  unfold segBody
  rw [getI_eq points i hi, Outcome.ok_bind]
  split
  · exact ⟨hs, hw⟩
  · have hsl : sliceIncl vertices st.start i = .ok ((vertices.drop st.start).take (i + 1 - st.start)) := by
      simp only [sliceIncl, Outcome.pure_eq_ok]
      rw [if_pos]
      omega
    rw [hsl, Outcome.ok_bind]
    have hlen : ((vertices.drop st.start).take (i + 1 - st.start)).length = i + 1 - st.start := by
      rw [List.length_take, List.length_drop]; omega
    generalize (vertices.drop st.start).take (i + 1 - st.start) = seg at hlen
    match seg, hlen with
    | [], hlen => simp at hlen; omega
    | [v], _ => exact ⟨Nat.le_refl _, hw⟩
    | v :: w :: rest, _ =>
      simp only []
      rw [getI_eq points st.start (by omega), Outcome.ok_bind]
      refine Safe.bind (calculateSubpath_safe fuel mode (v :: w :: rest) (by simp) _ st.optLen st.bezier hw) ?_
      rintro ⟨out, o, bz⟩ hbz
      simp only []
      obtain ⟨p, hp⟩ := dedupJoint_ok (st.path ++ out) st.path.length
      rw [hp, Outcome.ok_bind]
      exact ⟨Nat.le_refl _, hbz⟩

theorem segFold_safe (fuel : Nat) (mode : GameMode) (points : List (PathControlPoint P)) (vertices : List (Pos P))
    (hv : vertices.length = points.length) : ∀ (k s : Nat) (st : SegState P F), s + k ≤ points.length →
    st.start ≤ s → st.bezier.WF →
    Safe (fun st' => st'.bezier.WF) ((List.range' s k).foldlM (segBody fuel mode points vertices) st) := by
  intro k
  induction k with
  | zero => intro s st _ _ hw; exact hw
  | succ k ih =>
    intro s st hk hs hw
    rw [List.range'_succ, List.foldlM_cons]
    refine Safe.bind (segBody_safe fuel mode points vertices hv st s (by omega) hs hw) ?_
    intro st' ⟨hs', hw'⟩
    exact ih (s + 1) st' (by omega) (by omega) hw'

/-- **`calculate_path` cannot panic**, for every arithmetic, mode, control-point list, fuel and all well-formed
buffers; it leaves the buffers well-formed. -/
theorem calculatePath_safe (fuel : Nat) (mode : GameMode) (points : List (PathControlPoint P))
    (bufs : CurveBuffers P F) (hw : bufs.bezier.WF) :
    Safe (fun r => r.1.bezier.WF) (calculatePath fuel mode points bufs) := by
  unfold calculatePath
  split
  · exact hw
  · simp only []
    rw [List.range_eq_range']
    refine Safe.bind (segFold_safe fuel mode points (points.map (·.pos)) (by simp) points.length 0
      { path := [], optLen := (0 : F), bezier := bufs.bezier, start := 0 } (by omega) (Nat.le_refl _) hw) ?_
    intro st hst
    exact hst

end Path

end Rosu
