/-
  Lemmas/RtTiming.lean — the `[TimingPoints]` block `encode_timing_points` writes, as a list of lines:

  * `groupStep` / `groupEntries` / `groupLines`: the entries `(time, beat, props, 0|1)` the group loop writes, with the
    redundancy suppression, and `encodeGroups_eq` / `encodeTimingPoints_eq`: the model's text IS those lines, each followed
    by a line feed (no law needed);
  * `RepCp`, `RepGroup`, `LastOk`: what has to hold of the (collected) control points for every entry to be
    representable (`entries_rep`), and `entry_accepted`: a representable entry's line is accepted by
    `parse_timing_points` in any state and read back as the values written (codec laws);
  * `timingGroups_mem`: the groups are the timing points plus the times of the three other lists.
-/
import RosuModel.Lemmas.RtTimingLine
import RosuModel.Props.C13
namespace Rosu
namespace RtTiming
open Rosu Encode EncodeLines Scalar
set_option linter.unusedSectionVars false

variable {F P : Type} [Scalar F] [Scalar P] {R : F → Prop}

/-! ### the group loop as a list of entries -/

/-- one written line: the two floats, the integer properties and the timing-change flag. -/
structure Entry (F : Type) where
  time : F
  beat : F
  props : Props F
  timing : Bool

/-- the text of an entry (without the line terminator). -/
def Entry.line (e : Entry F) : Str := tpLine (showF e.time) (showF e.beat) e.props e.timing

/-- one iteration of the group loop of `encode_timing_points`: the entries written and `last_props` afterwards. -/
def groupStep (mode : GameMode) (cp : ControlPoints F) (g : Group F) (last : Props F) : List (Entry F) × Props F :=
  let props := Props.new g.time cp last g.timing.isSome mode
  match g.timing with
  | some t =>
    if props.isRedundant { props with sliderVelocity := 1 } then
      ([⟨t.time, t.beatLen, props, true⟩], { props with sliderVelocity := 1 })
    else
      ([⟨t.time, t.beatLen, props, true⟩, ⟨g.time, (-100 : F) / props.sliderVelocity, props, false⟩], props)
  | none =>
    if props.isRedundant last then ([], last)
    else ([⟨g.time, (-100 : F) / props.sliderVelocity, props, false⟩], props)

def groupEntries (mode : GameMode) (cp : ControlPoints F) : List (Group F) → Props F → List (Entry F)
  | [], _ => []
  | g :: rest, last => (groupStep mode cp g last).1 ++ groupEntries mode cp rest (groupStep mode cp g last).2

def groupLines (mode : GameMode) (cp : ControlPoints F) (gs : List (Group F)) (last : Props F) : List Str :=
  (groupEntries mode cp gs last).map Entry.line

theorem entry_text (a b : F) (p : Props F) (tc : Bool) :
    showF a ++ [','] ++ showF b ++ [','] ++ propsTail p tc = (Entry.line ⟨a, b, p, tc⟩) ++ EncodeLines.nl :=
  tpLine_eq _ _ p tc

/-- **the group loop writes exactly those lines**, each followed by a line feed. -/
theorem encodeGroups_eq (mode : GameMode) (cp : ControlPoints F) (gs : List (Group F)) (last : Props F) :
    encodeGroups mode cp gs last = unlines (groupLines mode cp gs last) := by
  induction gs generalizing last with
  | nil => rfl
  | cons g rest ih =>
    rw [encodeGroups]
    simp only [groupLines, groupEntries, groupStep, List.map_append, unlines_append]
    cases ht : g.timing with
    | none =>
      simp only [Option.isSome_none]
      by_cases hr : (Props.new g.time cp last false mode).isRedundant last = true
      · simp only [hr, if_true, List.map_nil, unlines_nil, List.nil_append]
        exact ih _
      · simp only [hr, Bool.false_eq_true, if_false, List.map_cons, List.map_nil, unlines_cons, unlines_nil,
          List.append_nil, List.nil_append]
        rw [← entry_text, ih]
        simp only [groupLines, List.append_assoc]
    | some t =>
      simp only [Option.isSome_some]
      by_cases hr : (Props.new g.time cp last true mode).isRedundant
          { Props.new g.time cp last true mode with sliderVelocity := 1 } = true
      · simp only [hr, if_true, List.map_cons, List.map_nil, unlines_cons, unlines_nil, List.append_nil]
        rw [← entry_text, ih]
        simp only [groupLines, List.append_assoc]
      · simp only [hr, Bool.false_eq_true, if_false, List.map_cons, List.map_nil, unlines_cons, unlines_nil,
          List.append_nil]
        rw [← entry_text, ← entry_text, ih]
        simp only [groupLines, List.append_assoc]

/-! ### membership of lookups -/

theorem lookupChecked_mem {α : Type} (key : α → Int) (t : Int) (l : List α) (x : α)
    (h : lookupChecked key t l = some x) : x ∈ l := by
  unfold lookupChecked at h
  split at h
  · exact List.mem_of_getElem? h
  · split at h
    · cases h
    · exact List.mem_of_getElem? h

theorem lookupSaturating_mem {α : Type} (key : α → Int) (t : Int) (l : List α) (x : α)
    (h : lookupSaturating key t l = some x) : x ∈ l := by
  unfold lookupSaturating at h
  split at h <;> exact List.mem_of_getElem? h

/-! ### `ControlPointProperties::new` -/

/-- the scratch sample of `ControlPointProperties::new` after `SamplePoint::apply`: bank, custom bank and the
clamped volume of the sample point. -/
theorem apply_scratch (sp : SamplePoint F) :
    (sp.apply (HitSampleInfo.new (.default .normal) none 0 0)).bank = sp.sampleBank ∧
    (sp.apply (HitSampleInfo.new (.default .normal) none 0 0)).customSampleBank = sp.customSampleBank ∧
    (sp.apply (HitSampleInfo.new (.default .normal) none 0 0)).volume = clampVolume sp.sampleVolume := by
  unfold SamplePoint.apply HitSampleInfo.new
  simp only [Option.getD_none, Option.isSome_none]
  by_cases h : sp.customSampleBank ≥ 2 <;> simp [h]

/-- the sample point `ControlPointProperties::new` uses at `time`. -/
def samplePointFor (cp : ControlPoints F) (time : F) : SamplePoint F := (cp.samplePointAt time).getD SamplePoint.default

/-- the slider-velocity field of the properties: scroll speed in taiko / mania, slider velocity otherwise. -/
def svFor (mode : GameMode) (cp : ControlPoints F) (time : F) : F :=
  match mode with
  | .taiko | .mania => ((cp.effectPointAt time).map (·.scrollSpeed)).getD (1 : F)
  | _ => ((cp.difficultyPointAt time).map (·.sliderVelocity)).getD (1 : F)

/-- **the six properties, field by field.** -/
theorem props_new_fields (time : F) (cp : ControlPoints F) (last : Props F) (upd : Bool) (mode : GameMode) :
    let p := Props.new time cp last upd mode
    p.sliderVelocity = svFor mode cp time ∧
    p.timingSignature = (((cp.timingPointAt time).map (·.timeSignature)).getD TimeSignature.simpleQuadruple).numerator ∧
    p.sampleBank = (if upd then (samplePointFor cp time).sampleBank.idx else last.sampleBank) ∧
    p.customSampleBank = (if (samplePointFor cp time).customSampleBank ≥ 0 then (samplePointFor cp time).customSampleBank
      else last.customSampleBank) ∧
    p.sampleVolume = clampVolume (samplePointFor cp time).sampleVolume ∧
    p.effectFlags = ((if ((cp.effectPointAt time).map (·.kiai)).getD false then 1 else 0) |||
      (if ((cp.timingPointAt time).map (·.omitFirstBarLine)).getD false then 8 else 0)) := by
  obtain ⟨h1, h2, h3⟩ := apply_scratch (samplePointFor cp time)
  simp only [samplePointFor] at h1 h2 h3
  refine ⟨?_, rfl, ?_, ?_, ?_, rfl⟩
  · cases mode <;> rfl
  · simp only [Props.new, samplePointFor, h1]
  · simp only [Props.new, samplePointFor, h2]
    rfl
  · simp only [Props.new, samplePointFor, h3]

/-! ### representability -/

/-- a slider velocity (scroll speed) the format can carry: it is written as the beat length `-100 / v`. -/
def SvOk (R : F → Prop) (v : F) : Prop := R ((-100 : F) / v) ∧ BeatLimit ((-100 : F) / v)

/-- where the slider-velocity field comes from: scroll speeds in taiko / mania, slider velocities otherwise. -/
def svSource (mode : GameMode) (cp : ControlPoints F) : List F :=
  match mode with
  | .taiko | .mania => cp.effectPoints.map (·.scrollSpeed)
  | _ => cp.difficultyPoints.map (·.sliderVelocity)

/-- the values of the collected control points that reach integer fields or the inherited beat length:
signature numerators the decoder accepts (`1 ≤ n ≤ 2³¹−1`; in the Rust `NonZeroU32`, so only the upper bound can fail,
and only for an edited map), custom sample banks within `i32` (type invariant of the Rust), and every slider velocity /
scroll speed (and the default `1`) writable as `-100 / v`. -/
structure RepCp (R : F → Prop) (mode : GameMode) (cp : ControlPoints F) : Prop where
  sig : ∀ t ∈ cp.timingPoints, 1 ≤ t.timeSignature.numerator ∧ (t.timeSignature.numerator : Int) ≤ i32Max
  custom : ∀ s ∈ cp.samplePoints, s.customSampleBank ≤ i32Max
  sv : ∀ v ∈ (1 : F) :: svSource mode cp, SvOk R v

/-- what is used of `last_props`: its bank number and custom bank. -/
structure LastOk (p : Props F) : Prop where
  bank : (p.sampleBank : Int) ≤ i32Max
  custom : -i32Max ≤ p.customSampleBank ∧ p.customSampleBank ≤ i32Max

theorem lastOk_default : LastOk (Props.default : Props F) :=
  ⟨by show ((0 : Nat) : Int) ≤ i32Max; decide, by show -i32Max ≤ (0 : Int); decide, by show (0 : Int) ≤ i32Max; decide⟩

theorem lastOk_of_rep {p : Props F} (h : RepProps p) : LastOk p := ⟨h.bank, h.custom⟩

theorem svFor_mem (mode : GameMode) (cp : ControlPoints F) (time : F) : svFor mode cp time ∈ (1 : F) :: svSource mode cp := by
  have he : ∀ o : Option (EffectPoint F), (∀ x, o = some x → x ∈ cp.effectPoints) →
      (o.map (·.scrollSpeed)).getD (1 : F) ∈ (1 : F) :: cp.effectPoints.map (·.scrollSpeed) := by
    intro o ho
    cases o with
    | none => simp
    | some x => simp only [Option.map_some, Option.getD_some, List.mem_cons, List.mem_map]; exact Or.inr ⟨x, ho x rfl, rfl⟩
  have hd : ∀ o : Option (DifficultyPoint F), (∀ x, o = some x → x ∈ cp.difficultyPoints) →
      (o.map (·.sliderVelocity)).getD (1 : F) ∈ (1 : F) :: cp.difficultyPoints.map (·.sliderVelocity) := by
    intro o ho
    cases o with
    | none => simp
    | some x => simp only [Option.map_some, Option.getD_some, List.mem_cons, List.mem_map]; exact Or.inr ⟨x, ho x rfl, rfl⟩
  cases mode
  · exact hd _ (fun x hx => lookupChecked_mem _ _ _ x hx)
  · exact he _ (fun x hx => lookupChecked_mem _ _ _ x hx)
  · exact hd _ (fun x hx => lookupChecked_mem _ _ _ x hx)
  · exact he _ (fun x hx => lookupChecked_mem _ _ _ x hx)

theorem flags_le (a b : Bool) : (((if a then 1 else 0) ||| (if b then 8 else 0) : Nat) : Int) ≤ i32Max := by
  cases a <;> cases b <;> decide

/-- **the properties of a group are representable** when the control points are. -/
theorem props_new_rep {mode : GameMode} {cp : ControlPoints F} (hc : RepCp R mode cp) (time : F) {last : Props F}
    (hl : LastOk last) (upd : Bool) :
    RepProps (Props.new time cp last upd mode) ∧ SvOk R (Props.new time cp last upd mode).sliderVelocity := by
  obtain ⟨h1, h2, h3, h4, h5, h6⟩ := props_new_fields time cp last upd mode
  have hsp : (samplePointFor cp time).customSampleBank ≤ i32Max := by
    unfold samplePointFor
    cases h : cp.samplePointAt time with
    | none => simp only [Option.getD_none, SamplePoint.default]; decide
    | some s => exact hc.custom s (lookupSaturating_mem _ _ _ s h)
  refine ⟨⟨?_, ?_, ?_, ?_, ?_⟩, ?_⟩
  · rw [h2]
    cases h : cp.timingPointAt time with
    | none => simp only [Option.map_none, Option.getD_none, TimeSignature.simpleQuadruple]; decide
    | some t => exact hc.sig t (lookupSaturating_mem _ _ _ t h)
  · rw [h3]
    cases upd with
    | false => exact hl.bank
    | true =>
      simp only [if_true]
      cases (samplePointFor cp time).sampleBank <;> decide
  · rw [h4]
    split
    · rename_i hge
      exact ⟨by unfold i32Max; omega, hsp⟩
    · exact hl.custom
  · rw [h5]
    have := C12_clampVolume_range (samplePointFor cp time).sampleVolume
    unfold i32Max
    omega
  · rw [h6]
    exact flags_le _ _
  · rw [h1]
    exact hc.sv _ (svFor_mem mode cp time)
where
  C12_clampVolume_range (v : Int) : 0 ≤ clampVolume v ∧ clampVolume v ≤ 100 := by
    unfold clampVolume
    split
    · omega
    · split <;> omega

/-- a group the format can carry: its time, and (for a timing group) the timing point's time and beat length, are
representable by the codec and within the decoder's limits; the beat length is not NaN. -/
def RepGroup (R : F → Prop) (g : Group F) : Prop :=
  R g.time ∧ InLimit g.time ∧
  ∀ t, g.timing = some t → R t.time ∧ InLimit t.time ∧ R t.beatLen ∧ BeatLimit t.beatLen ∧ isNaN t.beatLen = false

/-- an entry whose line the decoder reads back. -/
structure RepEntry (R : F → Prop) (e : Entry F) : Prop where
  time : R e.time ∧ InLimit e.time
  beat : R e.beat ∧ BeatLimit e.beat
  nan : e.timing = true → isNaN e.beat = false
  props : RepProps e.props

theorem groupStep_rep {mode : GameMode} {cp : ControlPoints F} (hc : RepCp R mode cp) {g : Group F} (hg : RepGroup R g)
    {last : Props F} (hl : LastOk last) :
    (∀ e ∈ (groupStep mode cp g last).1, RepEntry R e) ∧ LastOk (groupStep mode cp g last).2 := by
  obtain ⟨hp, hs⟩ := props_new_rep hc g.time hl g.timing.isSome
  have inh : RepEntry R ⟨g.time, (-100 : F) / (Props.new g.time cp last g.timing.isSome mode).sliderVelocity,
      Props.new g.time cp last g.timing.isSome mode, false⟩ :=
    ⟨⟨hg.1, hg.2.1⟩, hs, (fun h => by cases h), hp⟩
  unfold groupStep
  simp only []
  cases ht : g.timing with
  | none =>
    rw [ht] at hp inh
    simp only [Option.isSome_none] at hp inh ⊢
    split
    · exact ⟨(fun e he => by cases he), hl⟩
    · refine ⟨fun e he => ?_, lastOk_of_rep hp⟩
      rw [List.mem_singleton] at he
      rw [he]; exact inh
  | some t =>
    rw [ht] at hp inh
    simp only [Option.isSome_some] at hp inh ⊢
    obtain ⟨t1, t2, t3, t4, t5⟩ := hg.2.2 t ht
    have tim : RepEntry R ⟨t.time, t.beatLen, Props.new g.time cp last true mode, true⟩ :=
      ⟨⟨t1, t2⟩, ⟨t3, t4⟩, fun _ => t5, hp⟩
    split
    · refine ⟨fun e he => ?_, ⟨hp.bank, hp.custom⟩⟩
      rw [List.mem_singleton] at he
      rw [he]; exact tim
    · refine ⟨fun e he => ?_, lastOk_of_rep hp⟩
      simp only [List.mem_cons, List.not_mem_nil, or_false] at he
      rcases he with he | he
      · rw [he]; exact tim
      · rw [he]; exact inh

/-- **every entry of the block is representable** when the control points and the groups are. -/
theorem entries_rep {mode : GameMode} {cp : ControlPoints F} (hc : RepCp R mode cp) (gs : List (Group F))
    (hg : ∀ g ∈ gs, RepGroup R g) {last : Props F} (hl : LastOk last) :
    ∀ e ∈ groupEntries mode cp gs last, RepEntry R e := by
  induction gs generalizing last with
  | nil => intro e he; cases he
  | cons g rest ih =>
    obtain ⟨h1, h2⟩ := groupStep_rep hc (hg g (by simp)) hl
    intro e he
    simp only [groupEntries, List.mem_append] at he
    rcases he with he | he
    · exact h1 e he
    · exact ih (fun x hx => hg x (by simp [hx])) h2 e he

/-! ### acceptance of one entry -/

/-- what `parse_timing_points` reads from an entry's line. -/
def Entry.read (dflt : SampleBank) (e : Entry F) : TpLine F := readBack dflt e.time e.beat e.props e.timing

theorem entry_fields (L : CodecLaws F R) (g : GeneralState F P) (e : Entry F) (he : RepEntry R e) :
    parseTpFields g (trimEnd e.line) = .ok (e.read g.defaultSampleBank) :=
  parseTpFields_tpLine L g e.time e.beat e.props e.timing he.time.1 he.time.2 he.beat.1 he.beat.2 he.nan he.props

/-- **a representable entry's line is accepted in any decoder state**, and applied as the values written. -/
theorem entry_accepted (L : CodecLaws F R) (e : Entry F) (he : RepEntry R e) (st : TimingPointsState F P) :
    parseTimingPoints st (trimEnd e.line) = (.ok (), applyTpLine st (e.read st.general.defaultSampleBank)) := by
  unfold parseTimingPoints
  rw [entry_fields L st.general e he]

theorem entry_shape (L : CodecLaws F R) (e : Entry F) (he : RepEntry R e) : '\n' ∉ e.line ∧ RecordLine (trimEnd e.line) :=
  tpLine_shape L e.time e.beat e.props e.timing he.time.1 he.beat.1

/-! ### the groups of a collection -/

/-- the groups `encode_timing_points` builds: one per timing point (sorted by time), plus one for every time of a
difficulty, effect or sample point that has none yet. -/
def timingGroups (cp : ControlPoints F) : List (Group F) :=
  (cp.difficultyPoints.map (·.time) ++ cp.effectPoints.map (·.time) ++ cp.samplePoints.map (·.time)).foldl insertGroup
    ((cp.timingPoints.map fun t => ({ time := t.time, timing := some t } : Group F)).mergeSort
      (fun a b => decide (totalKey a.time ≤ totalKey b.time)))

theorem insertGroup_mem (gs : List (Group F)) (time : F) (g : Group F) (h : g ∈ insertGroup gs time) :
    g ∈ gs ∨ g = { time := time, timing := none } := by
  unfold insertGroup at h
  have hb := C13.searchKey_bound (key := fun g : Group F => totalKey g.time) (totalKey time) gs
  split at h
  · exact Or.inl h
  · rename_i i hs
    rw [hs] at hb
    rcases (List.mem_insertIdx hb).mp h with h | h
    · exact Or.inr h
    · exact Or.inl h

theorem foldl_insertGroup_mem (times : List F) (gs : List (Group F)) (g : Group F) (h : g ∈ times.foldl insertGroup gs) :
    g ∈ gs ∨ ∃ t ∈ times, g = { time := t, timing := none } := by
  induction times generalizing gs with
  | nil => exact Or.inl h
  | cons t rest ih =>
    rw [List.foldl_cons] at h
    rcases ih _ h with h | ⟨u, hu, rfl⟩
    · rcases insertGroup_mem gs t g h with h | h
      · exact Or.inl h
      · exact Or.inr ⟨t, by simp, h⟩
    · exact Or.inr ⟨u, by simp [hu], rfl⟩

/-- **the groups are the timing points and the other points' times.** -/
theorem timingGroups_mem (cp : ControlPoints F) (g : Group F) (h : g ∈ timingGroups cp) :
    (∃ t ∈ cp.timingPoints, g = { time := t.time, timing := some t }) ∨
    (g.timing = none ∧ (g.time ∈ cp.difficultyPoints.map (·.time) ∨ g.time ∈ cp.effectPoints.map (·.time) ∨
      g.time ∈ cp.samplePoints.map (·.time))) := by
  unfold timingGroups at h
  rcases foldl_insertGroup_mem _ _ g h with h | ⟨t, ht, rfl⟩
  · rw [List.mem_mergeSort, List.mem_map] at h
    obtain ⟨t, ht, rfl⟩ := h
    exact Or.inl ⟨t, ht, rfl⟩
  · simp only [List.mem_append] at ht
    refine Or.inr ⟨rfl, ?_⟩
    rcases ht with (ht | ht) | ht
    · exact Or.inl ht
    · exact Or.inr (Or.inl ht)
    · exact Or.inr (Or.inr ht)

/-- the times and beat lengths of a collection that reach the two float fields: every point's time, and every timing
point's beat length (not NaN). -/
structure RepTimes (R : F → Prop) (cp : ControlPoints F) : Prop where
  timing : ∀ t ∈ cp.timingPoints, R t.time ∧ InLimit t.time ∧ R t.beatLen ∧ BeatLimit t.beatLen ∧ isNaN t.beatLen = false
  difficulty : ∀ p ∈ cp.difficultyPoints, R p.time ∧ InLimit p.time
  effect : ∀ p ∈ cp.effectPoints, R p.time ∧ InLimit p.time
  sample : ∀ p ∈ cp.samplePoints, R p.time ∧ InLimit p.time

theorem timingGroups_rep (cp : ControlPoints F) (h : RepTimes R cp) : ∀ g ∈ timingGroups cp, RepGroup R g := by
  intro g hg
  rcases timingGroups_mem cp g hg with ⟨t, ht, rfl⟩ | ⟨hn, ht⟩
  · obtain ⟨h1, h2, h3, h4, h5⟩ := h.timing t ht
    refine ⟨h1, h2, fun u hu => ?_⟩
    simp only [Option.some.injEq] at hu
    subst hu
    exact ⟨h1, h2, h3, h4, h5⟩
  · have : R g.time ∧ InLimit g.time := by
      rcases ht with ht | ht | ht
      · obtain ⟨p, hp, e⟩ := List.mem_map.mp ht; rw [← e]; exact h.difficulty p hp
      · obtain ⟨p, hp, e⟩ := List.mem_map.mp ht; rw [← e]; exact h.effect p hp
      · obtain ⟨p, hp, e⟩ := List.mem_map.mp ht; rw [← e]; exact h.sample p hp
    refine ⟨this.1, this.2, fun u hu => ?_⟩
    rw [hn] at hu
    cases hu

/-! ### where an entry comes from -/

/-- an entry written for group `g`: its properties are `ControlPointProperties::new` at the group's time; it is either
the timing line of the group's timing point (`time,beat_len`) or the inherited line (`group time, -100 / velocity`). -/
def EntryOf (mode : GameMode) (cp : ControlPoints F) (g : Group F) (e : Entry F) : Prop :=
  (∃ last, e.props = Props.new g.time cp last g.timing.isSome mode) ∧
  ((e.timing = true ∧ ∃ t, g.timing = some t ∧ e.time = t.time ∧ e.beat = t.beatLen) ∨
   (e.timing = false ∧ e.time = g.time ∧ e.beat = (-100 : F) / e.props.sliderVelocity))

theorem groupStep_form (mode : GameMode) (cp : ControlPoints F) (g : Group F) (last : Props F) :
    ∀ e ∈ (groupStep mode cp g last).1, EntryOf mode cp g e := by
  unfold groupStep
  simp only []
  cases ht : g.timing with
  | none =>
    simp only [Option.isSome_none]
    split
    · intro e he; cases he
    · intro e he
      rw [List.mem_singleton] at he
      subst he
      exact ⟨⟨last, by rw [ht]; rfl⟩, Or.inr ⟨rfl, rfl, rfl⟩⟩
  | some t =>
    simp only [Option.isSome_some]
    have tim : EntryOf mode cp g ⟨t.time, t.beatLen, Props.new g.time cp last true mode, true⟩ :=
      ⟨⟨last, by rw [ht]; rfl⟩, Or.inl ⟨rfl, t, ht, rfl, rfl⟩⟩
    have inh : EntryOf mode cp g ⟨g.time, (-100 : F) / (Props.new g.time cp last true mode).sliderVelocity,
        Props.new g.time cp last true mode, false⟩ :=
      ⟨⟨last, by rw [ht]; rfl⟩, Or.inr ⟨rfl, rfl, rfl⟩⟩
    split
    · intro e he
      rw [List.mem_singleton] at he
      subst he; exact tim
    · intro e he
      simp only [List.mem_cons, List.not_mem_nil, or_false] at he
      rcases he with he | he
      · subst he; exact tim
      · subst he; exact inh

/-- **every entry of the block belongs to one of the groups** and has the form above. -/
theorem groupEntries_form (mode : GameMode) (cp : ControlPoints F) (gs : List (Group F)) (last : Props F) :
    ∀ e ∈ groupEntries mode cp gs last, ∃ g ∈ gs, EntryOf mode cp g e := by
  induction gs generalizing last with
  | nil => intro e he; cases he
  | cons g rest ih =>
    intro e he
    simp only [groupEntries, List.mem_append] at he
    rcases he with he | he
    · exact ⟨g, by simp, groupStep_form mode cp g last e he⟩
    · obtain ⟨g', hg', h⟩ := ih _ e he
      exact ⟨g', by simp [hg'], h⟩

/-- the text of an entry, field by field. -/
theorem entry_line_fields (e : Entry F) :
    e.line = showF e.time ++ [','] ++ showF e.beat ++ [','] ++ showNat e.props.timingSignature ++ [','] ++
      showNat e.props.sampleBank ++ [','] ++ showInt e.props.customSampleBank ++ [','] ++ showInt e.props.sampleVolume ++
      [','] ++ b01 e.timing ++ [','] ++ showNat e.props.effectFlags := by
  simp [Entry.line, tpLine, tailStr, List.append_assoc]

end RtTiming
end Rosu
