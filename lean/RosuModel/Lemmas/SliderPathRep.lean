/-
  Lemmas/SliderPathRep.lean — the representability class `RepPath` of slider control-point lists (what the legacy path
  string carries), the per-segment conditions the decoder needs (`SegsOK`), and the bridge between them: the explicit
  segments into which `add_path_data` cuts a representable list satisfy the per-segment conditions (`cut_ok`).
-/
import RosuModel.Lemmas.SliderPathEnc
import RosuModel.Lemmas.RtObjects
import RosuModel.Model.HitObjectLine
namespace Rosu
namespace SliderRt
open Rosu Encode Scalar RtObjects

variable {P : Type} [Scalar P]

/-! ### the class -/

/-- a path type its letter carries: a degree only on a B-spline, positive and within `i32`. -/
def WfType (t : PathType) : Prop :=
  match t.kind with
  | .bspline => (match t.degree with | none => True | some d => 0 < d ∧ d ≤ i32Max)
  | _ => t.degree = none

instance (t : PathType) : Decidable (WfType t) :=
  match t with
  | ⟨.bspline, none⟩ => isTrue trivial
  | ⟨.bspline, some d⟩ => inferInstanceAs (Decidable (0 < d ∧ d ≤ i32Max))
  | ⟨.catmull, d⟩ => inferInstanceAs (Decidable (d = none))
  | ⟨.linear, d⟩ => inferInstanceAs (Decidable (d = none))
  | ⟨.perfectCurve, d⟩ => inferInstanceAs (Decidable (d = none))

/-- a control point (other than the first) the path string carries: the absolute coordinates `pos + p` are
representable, within ±131072 and integral, and subtracting the object's position gives the relative coordinates back
(exact in `f32` for every decoded point: all values are integers below 2²⁴). -/
structure RepPoint (RP : P → Prop) (pos : Pos P) (q : PathControlPoint P) : Prop where
  x : RepCoord RP (pos.x + q.pos.x)
  y : RepCoord RP (pos.y + q.pos.y)
  backX : (pos.x + q.pos.x) - pos.x = q.pos.x
  backY : (pos.y + q.pos.y) - pos.y = q.pos.y

/-- the next control point exists and carries a type. -/
def nextTyped (rest : List (PathControlPoint P)) : Bool :=
  match rest with | [] => false | c :: _ => c.pathType.isSome

/-- `ends_segment`: there is no next control point, or it carries a type. -/
def endsSeg (rest : List (PathControlPoint P)) : Bool :=
  match rest with | [] => true | c :: _ => c.pathType.isSome

/-- a perfect-curve control point needs exactly three points in its segment (itself, one untyped point, and either a
typed point — shared with the next segment — or the untyped last point of the path), not collinear as `is_linear`
computes it: any other shape is decoded as Bezier or linear. -/
def PShape (t : PathType) (b : Pos P) (rest : List (PathControlPoint P)) : Prop :=
  t = PathType.perfect →
    match rest with
    | c :: d :: rest' => c.pathType = none ∧ (d.pathType.isSome = true ∨ rest' = []) ∧ isLinear b c.pos d.pos = false
    | _ => False

/-- the conditions on the control points after the first. `T` is the type of the closest typed point before, `a` the
previous control point.
* an untyped point repeating its predecessor's position (as `==` sees it) is allowed only where the decoder does not
  split: as the last point of the path; directly before a typed point, the two positions being identical (the encoder
  then writes that point's type explicitly); or in a Catmull segment after an untyped point;
* a typed point has a well-formed type and the perfect-curve shape; if its type could be written implicitly (same type
  as before, not a perfect curve, followed by an untyped point) it is not Catmull (consecutive Catmull segments cannot
  be written), equals itself under `==` (no NaN) and does **not** repeat its predecessor's position (finding F17). -/
def ChainOK : PathType → PathControlPoint P → List (PathControlPoint P) → Prop
  | _, _, [] => True
  | T, a, b :: rest =>
    match b.pathType with
    | none =>
      (Pos.eq b.pos a.pos = true →
        rest = [] ∨ (nextTyped rest = true ∧ b.pos = a.pos) ∨ (T = PathType.catmull ∧ a.pathType = none)) ∧
      ChainOK T b rest
    | some t =>
      WfType t ∧ PShape t b.pos rest ∧
      ((t = T ∧ t ≠ PathType.perfect ∧ endsSeg rest = false) →
        t ≠ PathType.catmull ∧ Pos.eq b.pos b.pos = true ∧ Pos.eq b.pos a.pos = false) ∧
      ChainOK t b rest

/-- **the control-point lists the path string carries.** The first control point is the origin and carries a type;
every other point has representable integral absolute coordinates; `ChainOK` — which is where finding **F17** (a point
repeated at a segment start, the typed first point included) and consecutive Catmull segments are excluded. -/
def RepPath (RP : P → Prop) (pos : Pos P) : List (PathControlPoint P) → Prop
  | [] => False
  | p0 :: rest =>
    p0.pos = Pos.zero ∧
    (match p0.pathType with
     | none => False
     | some t0 => WfType t0 ∧ PShape t0 p0.pos rest ∧ ChainOK t0 p0 rest) ∧
    ∀ q ∈ rest, RepPoint RP pos q

/-! ### what the decoder needs of one explicit segment -/

/-- the vertices the decoder reads for the control points after a segment's head. -/
def expand (body : List (PathControlPoint P)) : List (PathControlPoint P) :=
  body.flatMap fun q => if q.pathType.isSome then [⟨q.pos, none⟩, ⟨q.pos, none⟩] else [⟨q.pos, none⟩]

omit [Scalar P] in
theorem expand_cons (q : PathControlPoint P) (rest : List (PathControlPoint P)) :
    expand (q :: rest) = (if q.pathType.isSome then [⟨q.pos, none⟩, ⟨q.pos, none⟩] else [⟨q.pos, none⟩]) ++ expand rest := by
  simp [expand]

/-- the condition on a body point `q` with predecessor position `u` (`pu`: the predecessor is an untyped body point). -/
def HeadOK (T : PathType) (u : Pos P) (pu : Bool) (q : PathControlPoint P) (rest : List (PathControlPoint P)) : Prop :=
  match q.pathType with
  | none => Pos.eq q.pos u = false ∨ rest = [] ∨ (T = PathType.catmull ∧ pu = true)
  | some t => t = T ∧ T ≠ PathType.catmull ∧ rest ≠ [] ∧ Pos.eq q.pos q.pos = true ∧ Pos.eq q.pos u = false

def BodyOK (T : PathType) : Pos P → Bool → List (PathControlPoint P) → Prop
  | _, _, [] => True
  | u, pu, q :: rest => HeadOK T u pu q rest ∧ BodyOK T q.pos q.pathType.isNone rest

/-- the end point handed over from the next segment. -/
def evOf (more : List (ESeg P)) : List (PathControlPoint P) :=
  match more with | [] => [] | s :: _ => [⟨s.head, none⟩]

def SegOK (s : ESeg P) (ev : List (PathControlPoint P)) : Prop :=
  WfType s.ty ∧ BodyOK s.ty s.head false s.body ∧
  (s.ty = PathType.perfect → ∃ b c, expand s.body ++ ev = [b, c] ∧ isLinear s.head b.pos c.pos = false)

def SegsOK : List (ESeg P) → Prop
  | [] => True
  | s :: more => SegOK s (evOf more) ∧ SegsOK more

/-! ### index facts of the loop -/

omit [Scalar P] in
theorem drop_head (cps : List (PathControlPoint P)) (i : Nat) (b : PathControlPoint P) (rest : List (PathControlPoint P))
    (h : cps.drop i = b :: rest) : cps[i]? = some b ∧ cps[i + 1]? = rest.head? ∧ cps.drop (i + 1) = rest := by
  have h1 : cps.drop (i + 1) = rest := by
    have : cps.drop (i + 1) = (cps.drop i).drop 1 := by rw [List.drop_drop]
    rw [this, h]; rfl
  refine ⟨?_, ?_, h1⟩
  · have := List.head?_drop (l := cps) (i := i)
    rw [h] at this
    simpa using this.symm
  · have := List.head?_drop (l := cps) (i := i + 1)
    rw [h1] at this
    exact this.symm

omit [Scalar P] in
theorem needs0_eq (cps : List (PathControlPoint P)) (i : Nat) (T t : PathType) (b : PathControlPoint P)
    (rest : List (PathControlPoint P)) (hb : b.pathType = some t) (hnext : cps[i + 1]? = rest.head?) :
    needs0 cps i (some T) b = (decide (t ≠ T) || decide (t = PathType.perfect) || endsSeg rest) := by
  unfold needs0 endsSeg
  rw [hnext, hb]
  cases rest with
  | nil => simp
  | cons c r =>
    simp only [List.head?_cons]
    by_cases h1 : t = T
    · subst h1
      by_cases h2 : t = PathType.perfect <;> simp [h2]
    · simp [h1]

theorem needsAt_of_needs0 (pos : Pos P) (cps : List (PathControlPoint P)) (i : Nat) (last : Option PathType)
    (b : PathControlPoint P) (h : needs0 cps i last b = true) : needsAt pos cps i last b = true := by
  unfold needsAt
  split
  · split
    · split <;> simp [h]
    · exact h
  · exact h

theorem needs0_of_not_needsAt (pos : Pos P) (cps : List (PathControlPoint P)) (i : Nat) (last : Option PathType)
    (b : PathControlPoint P) (h : needsAt pos cps i last b = false) : needs0 cps i last b = false := by
  cases h0 : needs0 cps i last b with
  | false => rfl
  | true => rw [needsAt_of_needs0 pos cps i last b h0] at h; cases h

/-- the duplicated-pair rule: after two control points at the same position a type is written explicitly. -/
theorem needsAt_of_repeat (pos : Pos P) (cps : List (PathControlPoint P)) (i : Nat) (last : Option PathType)
    (c a b : PathControlPoint P) (hi : 1 < i) (hb : cps[i - 1]? = some b) (ha : cps[i - 2]? = some a)
    (hpos : b.pos = a.pos) : needsAt pos cps i last c = true := by
  unfold needsAt
  simp only [hi, if_true, hb, ha, hpos, beq_self_eq_true, Bool.and_self]

/-! ### the cut of a representable list -/

theorem splitSegs_untyped (pos : Pos P) (cps : List (PathControlPoint P)) (i : Nat) (last : Option PathType)
    (q : PathControlPoint P) (rest : List (PathControlPoint P)) (hq : q.pathType = none) :
    splitSegs pos cps i last (q :: rest) =
      (q :: (splitSegs pos cps (i + 1) last rest).1, (splitSegs pos cps (i + 1) last rest).2) := by
  rw [splitSegs]; simp only [hq]

theorem splitSegs_explicit (pos : Pos P) (cps : List (PathControlPoint P)) (i : Nat) (last : Option PathType)
    (q : PathControlPoint P) (rest : List (PathControlPoint P)) (t : PathType) (hq : q.pathType = some t)
    (hn : needsAt pos cps i last q = true) :
    splitSegs pos cps i last (q :: rest) =
      ([], ⟨t, q.pos, (splitSegs pos cps (i + 1) (some t) rest).1⟩ :: (splitSegs pos cps (i + 1) (some t) rest).2) := by
  rw [splitSegs]; simp only [hq, hn, if_true]

theorem splitSegs_implicit (pos : Pos P) (cps : List (PathControlPoint P)) (i : Nat) (last : Option PathType)
    (q : PathControlPoint P) (rest : List (PathControlPoint P)) (t : PathType) (hq : q.pathType = some t)
    (hn : needsAt pos cps i last q = false) :
    splitSegs pos cps i last (q :: rest) =
      (q :: (splitSegs pos cps (i + 1) last rest).1, (splitSegs pos cps (i + 1) last rest).2) := by
  rw [splitSegs]; simp only [hq, hn, Bool.false_eq_true, if_false]

/-- the segment a typed, explicitly written control point opens is in order once its remainder is. -/
theorem seg_ok_of (pos : Pos P) (cps : List (PathControlPoint P)) (i : Nat) (t : PathType) (b : PathControlPoint P)
    (rest : List (PathControlPoint P)) (hdrop : cps.drop (i + 1) = rest) (hw : WfType t) (hp : PShape t b.pos rest)
    (hbody : BodyOK t b.pos false (splitSegs pos cps (i + 1) (some t) rest).1)
    (hsegs : SegsOK (splitSegs pos cps (i + 1) (some t) rest).2) :
    SegsOK (⟨t, b.pos, (splitSegs pos cps (i + 1) (some t) rest).1⟩ :: (splitSegs pos cps (i + 1) (some t) rest).2) := by
  refine ⟨⟨hw, hbody, ?_⟩, hsegs⟩
  intro hperf
  simp only at hperf
  have hp' := hp hperf
  match rest, hp', hdrop with
  | c :: d :: rest', ⟨hc, hd, hlin⟩, hdrop =>
    rw [splitSegs_untyped pos cps (i + 1) (some t) c (d :: rest') hc]
    simp only
    obtain ⟨_, hnext, hdrop2⟩ := drop_head cps (i + 1) c (d :: rest') hdrop
    cases hdt : d.pathType with
    | some td =>
      have hn0 : needs0 cps (i + 1 + 1) (some t) d = true := by
        obtain ⟨_, hnext2, _⟩ := drop_head cps (i + 1 + 1) d rest' hdrop2
        rw [needs0_eq cps (i + 1 + 1) t td d rest' hdt hnext2, hperf]
        by_cases h : td = PathType.perfect <;> simp [h]
      rw [splitSegs_explicit pos cps (i + 1 + 1) (some t) d rest' td hdt (needsAt_of_needs0 pos cps _ _ d hn0)]
      refine ⟨⟨c.pos, none⟩, ⟨d.pos, none⟩, ?_, hlin⟩
      simp [expand, hc, evOf]
    | none =>
      have hr : rest' = [] := by
        rcases hd with hd | hd
        · rw [hdt] at hd; cases hd
        · exact hd
      subst hr
      rw [splitSegs_untyped pos cps (i + 1 + 1) (some t) d [] hdt]
      refine ⟨⟨c.pos, none⟩, ⟨d.pos, none⟩, ?_, hlin⟩
      simp [expand, hc, hdt, splitSegs, evOf]

/-- **the cut of a representable list is in order**: for the control points `rest = cps[i..]` (`i ≥ 1`, previous
point `a`, closest type before `T`) satisfying `ChainOK`, the points before the first explicitly written type satisfy
`BodyOK` and the explicit segments satisfy `SegsOK`. -/
theorem cut_ok (pos : Pos P) (cps : List (PathControlPoint P)) (rest : List (PathControlPoint P)) :
    ∀ (i : Nat) (T : PathType) (a : PathControlPoint P), 1 ≤ i → cps.drop i = rest → cps[i - 1]? = some a →
      ChainOK T a rest →
      BodyOK T a.pos a.pathType.isNone (splitSegs pos cps i (some T) rest).1 ∧
      SegsOK (splitSegs pos cps i (some T) rest).2 := by
  induction rest with
  | nil => intro i T a _ _ _ _; exact ⟨trivial, trivial⟩
  | cons b rest ih =>
    intro i T a hi hdrop ha hchain
    obtain ⟨hbi, hnext, hdrop'⟩ := drop_head cps i b rest hdrop
    have hprev : cps[i + 1 - 1]? = some b := by simpa using hbi
    rw [ChainOK] at hchain
    cases hb : b.pathType with
    | none =>
      simp only [hb] at hchain
      obtain ⟨hrep, hchain'⟩ := hchain
      obtain ⟨ihb, ihs⟩ := ih (i + 1) T b (by omega) hdrop' hprev hchain'
      rw [splitSegs_untyped pos cps i (some T) b rest hb]
      refine ⟨⟨?_, ihb⟩, ihs⟩
      -- the head condition
      simp only [HeadOK, hb]
      cases he : Pos.eq b.pos a.pos with
      | false => exact Or.inl rfl
      | true =>
        rcases hrep he with h | ⟨h1, h2⟩ | ⟨h1, h2⟩
        · subst h; exact Or.inr (Or.inl rfl)
        · -- the next point is typed and written explicitly
          refine Or.inr (Or.inl ?_)
          cases rest with
          | nil => rfl
          | cons c rest' =>
            simp only [nextTyped] at h1
            cases hc : c.pathType with
            | none => rw [hc] at h1; cases h1
            | some tc =>
              have hn : needsAt pos cps (i + 1) (some T) c = true :=
                needsAt_of_repeat pos cps (i + 1) (some T) c a b (by omega) hprev (by simpa using ha) h2
              rw [splitSegs_explicit pos cps (i + 1) (some T) c rest' tc hc hn]
        · exact Or.inr (Or.inr ⟨h1, by simp [h2]⟩)
    | some t =>
      simp only [hb] at hchain
      obtain ⟨hw, hp, himp, hchain'⟩ := hchain
      cases hn : needsAt pos cps i (some T) b with
      | true =>
        obtain ⟨ihb, ihs⟩ := ih (i + 1) t b (by omega) hdrop' hprev hchain'
        rw [hb] at ihb
        rw [splitSegs_explicit pos cps i (some T) b rest t hb hn]
        exact ⟨trivial, seg_ok_of pos cps i t b rest hdrop' hw hp ihb ihs⟩
      | false =>
        have hn0 := needs0_of_not_needsAt pos cps i (some T) b hn
        rw [needs0_eq cps i T t b rest hb hnext] at hn0
        simp only [Bool.or_eq_false_iff, decide_eq_false_iff_not, Decidable.not_not] at hn0
        obtain ⟨⟨h1, h2⟩, h3⟩ := hn0
        obtain ⟨k1, k2, k3⟩ := himp ⟨h1, h2, h3⟩
        subst h1
        obtain ⟨ihb, ihs⟩ := ih (i + 1) t b (by omega) hdrop' hprev hchain'
        rw [splitSegs_implicit pos cps i (some t) b rest t hb hn]
        refine ⟨⟨?_, ihb⟩, ihs⟩
        simp only [HeadOK, hb]
        refine ⟨trivial, k1, ?_, k2, k3⟩
        -- the next point is untyped, hence in the same body
        cases rest with
        | nil => simp [endsSeg] at h3
        | cons c rest' =>
          simp only [endsSeg] at h3
          have hc : c.pathType = none := by
            cases hc : c.pathType with
            | none => rfl
            | some _ => rw [hc] at h3; cases h3
          rw [splitSegs_untyped pos cps (i + 1) (some t) c rest' hc]
          simp

/-- **the explicit segments of a representable path**: the first control point opens the first segment; the segments
are in order and their control points are the path's. -/
theorem repPath_cut (RP : P → Prop) (pos : Pos P) (p0 : PathControlPoint P) (rest : List (PathControlPoint P))
    (h : RepPath RP pos (p0 :: rest)) :
    ∃ t0, p0.pathType = some t0 ∧
      SegsOK (⟨t0, p0.pos, (splitSegs pos (p0 :: rest) 1 (some t0) rest).1⟩ :: (splitSegs pos (p0 :: rest) 1 (some t0) rest).2) ∧
      (⟨t0, p0.pos, (splitSegs pos (p0 :: rest) 1 (some t0) rest).1⟩ :: (splitSegs pos (p0 :: rest) 1 (some t0) rest).2).flatMap
        ESeg.points = p0 :: rest := by
  obtain ⟨_, h2, _⟩ := h
  cases h0 : p0.pathType with
  | none => rw [h0] at h2; cases h2
  | some t0 =>
    rw [h0] at h2
    obtain ⟨hw, hp, hchain⟩ := h2
    refine ⟨t0, rfl, ?_, ?_⟩
    · obtain ⟨ihb, ihs⟩ := cut_ok pos (p0 :: rest) rest 1 t0 p0 (Nat.le_refl _) rfl rfl hchain
      rw [h0] at ihb
      exact seg_ok_of pos (p0 :: rest) 0 t0 p0 rest rfl hw hp ihb ihs
    · have := splitSegs_points pos (p0 :: rest) rest 1 (some t0)
      simp only [List.flatMap_cons, ESeg.points, List.cons_append]
      rw [this]
      congr 1
      cases p0 with
      | mk p ty => simp only at h0; rw [h0]

end SliderRt
end Rosu
