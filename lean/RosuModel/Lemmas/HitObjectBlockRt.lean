/-
  Lemmas/HitObjectBlockRt.lean — `Lemmas/HitObjectBlock.lean` with the per-object detail: for a list of representable
  objects, the lines `encode_hit_objects` writes, read back by `parse_hit_objects` from a state with an empty path buffer,
  append one object per line and each appended object is *what the line format carries of the written one* (`ObjBack`):
  start time; circle: position, combo offset, `new_combo` or-ed with the decoder's forcing rule; slider: position, combo data,
  control points, repeat count, written length as stored, node sample lists, velocity 1; spinner: duration, `new_combo`,
  centre position; hold: column, duration; samples as `convert_sound_type` rebuilds them. The forcing rule only looks at the
  previous line ("first object, or after a spinner"), so the relation is threaded through the list by one Boolean
  (`ObjsBack`).
-/
import RosuModel.Lemmas.HitObjectBlock
set_option linter.unusedSectionVars false
namespace Rosu
namespace SliderRt
open Rosu Encode EncodeLines Scalar RtObjects C11

section
variable {F P : Type} [Scalar F] [Scalar P] [Cvt P F] [Trig F] [Trig P] {RF : F → Prop} {RP : P → Prop}

/-- is this object a spinner (the only thing the next line's `new_combo` forcing rule reads of it). -/
def isSpinnerKind (k : HitObjectKind F P) : Bool :=
  match k with | .spinner _ => true | _ => false

/-- **what comes back for one object** — `o` is the object `parse_hit_objects` pushes for the line written for `h`;
`forced` = the decoder's forcing rule for `new_combo` (first object of the block, or the previous object is a spinner). -/
def ObjBack (mode : GameMode) (forced : Bool) (h o : HitObject F P) : Prop :=
  o.startTime = h.startTime ∧
  match h.kind with
  | .circle c =>
    o.kind = .circle ⟨c.pos, forced || c.newCombo, if c.newCombo then c.comboOffset else 0⟩ ∧
    o.samples = decodedSamples h.samples mode
  | .slider s =>
    ∃ dist : F, (s.path.expectedDist = some dist ∨ (s.path.expectedDist = none ∧ curveDist s = .ok dist)) ∧
      o.kind = .slider
        { pos := s.pos, newCombo := forced || s.newCombo, comboOffset := if s.newCombo then s.comboOffset else 0,
          path := { mode := mode, controlPoints := s.path.controlPoints, expectedDist := lenOf dist },
          nodeSamples := decodedNodes s h.samples, repeatCount := s.repeatCount, velocity := 1 } ∧
      o.samples = (objInfo h.samples).convertSoundType (soundTypeOf h.samples : Nat)
  | .spinner sp =>
    o.kind = .spinner ⟨⟨(512 : P) / 2, (384 : P) / 2⟩, sp.duration, sp.newCombo⟩ ∧
    o.samples = decodedSamples h.samples mode
  | .hold ho =>
    o.kind = .hold ⟨ho.posX, ho.duration⟩ ∧ o.samples = decodedSamples h.samples mode

/-- the relation over a whole block: same length, `ObjBack` position by position, the forcing flag passed along. -/
def ObjsBack (mode : GameMode) : Bool → List (HitObject F P) → List (HitObject F P) → Prop
  | _, [], [] => True
  | forced, h :: hs, o :: os => ObjBack mode forced h o ∧ ObjsBack mode (isSpinnerKind h.kind) hs os
  | _, _, _ => False

theorem ObjsBack.length_eq (mode : GameMode) : ∀ (forced : Bool) (hs os : List (HitObject F P)),
    ObjsBack mode forced hs os → os.length = hs.length
  | _, [], [], _ => rfl
  | _, [], _ :: _, h => h.elim
  | _, _ :: _, [], h => h.elim
  | _, h :: hs, o :: os, hb => by
    simp only [List.length_cons]
    rw [ObjsBack.length_eq mode _ hs os hb.2]

theorem ObjBack.timeKind (mode : GameMode) (forced : Bool) (h o : HitObject F P) (hb : ObjBack mode forced h o) :
    timeKind o = timeKind h := by
  obtain ⟨h1, h2⟩ := hb
  unfold SliderRt.timeKind
  rw [h1]
  cases hk : h.kind with
  | circle c => rw [hk] at h2; simp only [] at h2; rw [h2.1] <;> rfl
  | slider s => rw [hk] at h2; simp only [] at h2; obtain ⟨d, _, h3, _⟩ := h2; rw [h3] <;> rfl
  | spinner sp => rw [hk] at h2; simp only [] at h2; rw [h2.1] <;> rfl
  | hold ho => rw [hk] at h2; simp only [] at h2; rw [h2.1] <;> rfl

/-- the forcing flag of a decoder state. -/
def forcedOf (st : HOCore F P) : Bool := st.lastObject.isNone || lastWasSpinner st

/-- **one representable object, with the detail**: in a state with an empty path buffer its line is accepted and appends
an object `o` with `ObjBack mode (forcedOf st) h o`; the buffer stays empty and the next forcing flag is "this was a
spinner". (Acceptance alone holds in any state.) -/
theorem object_line_back (LF : CodecLaws F RF) (LP : CodecLaws P RP) (LC : CoordLaws F P RP) (mode : GameMode) (h : HitObject F P)
    (hr : RepObject RF RP mode h) :
    ∃ l, encodeObject mode h = .ok (l ++ EncodeLines.nl) ∧ '\n' ∉ l ∧ RecordLine (trimEnd l) ∧
      (∀ st : HOCore F P, (parseHitObjectLine mode st (trimEnd l)).2 = true) ∧
      ∀ st : HOCore F P, st.curvePoints = [] → ∃ o, (parseHitObjectLine mode st (trimEnd l)).2 = true ∧
        (parseHitObjectLine mode st (trimEnd l)).1.hitObjects = st.hitObjects ++ [o] ∧ ObjBack mode (forcedOf st) h o ∧
        (parseHitObjectLine mode st (trimEnd l)).1.curvePoints = [] ∧
        forcedOf (parseHitObjectLine mode st (trimEnd l)).1 = isSpinnerKind h.kind := by
  cases hr with
  | circle c hk hr =>
    refine ⟨circleLine mode h c, (circle_line_roundtrip LF LP mode h c hk hr {}).1,
      (circle_line_roundtrip LF LP mode h c hk hr {}).2.1, (circle_line_roundtrip LF LP mode h c hk hr {}).2.2.1,
      fun st => by rw [(circle_line_roundtrip LF LP mode h c hk hr st).2.2.2], fun st h0 => ?_⟩
    rw [(circle_line_roundtrip LF LP mode h c hk hr st).2.2.2]
    refine ⟨_, rfl, rfl, ⟨rfl, ?_⟩, h0, ?_⟩
    · rw [hk]; exact ⟨rfl, rfl⟩
    · rw [hk]; rfl
  | slider s dist hk hr =>
    refine ⟨sliderLine mode h s dist, (slider_line_roundtrip LF LP LC mode h s dist hk hr {}).1,
      (slider_line_roundtrip LF LP LC mode h s dist hk hr {}).2.1, (slider_line_roundtrip LF LP LC mode h s dist hk hr {}).2.2.1,
      fun st => by obtain ⟨vs, hp⟩ := (slider_line_roundtrip LF LP LC mode h s dist hk hr st).2.2.2; rw [hp], fun st h0 => ?_⟩
    obtain ⟨vs, hp⟩ := (slider_line_roundtrip LF LP LC mode h s dist hk hr st).2.2.2
    rw [hp]
    refine ⟨_, rfl, rfl, ⟨rfl, ?_⟩, rfl, ?_⟩
    · rw [hk]
      refine ⟨dist, hr.written, ?_, rfl⟩
      simp only [decodedSlider, h0, List.nil_append, forcedOf]
    · rw [hk]; rfl
  | spinner sp hk hr =>
    refine ⟨spinnerLine mode h sp, (spinner_line_roundtrip LF LP mode h sp hk hr {}).1,
      (spinner_line_roundtrip LF LP mode h sp hk hr {}).2.1, (spinner_line_roundtrip LF LP mode h sp hk hr {}).2.2.1,
      fun st => by rw [(spinner_line_roundtrip LF LP mode h sp hk hr st).2.2.2], fun st h0 => ?_⟩
    rw [(spinner_line_roundtrip LF LP mode h sp hk hr st).2.2.2]
    refine ⟨_, rfl, rfl, ⟨rfl, ?_⟩, h0, ?_⟩
    · rw [hk]; exact ⟨rfl, rfl⟩
    · rw [hk]; rfl
  | hold ho hk hr =>
    refine ⟨holdLine mode h ho, (hold_line_roundtrip LF LP mode h ho hk hr {}).1,
      (hold_line_roundtrip LF LP mode h ho hk hr {}).2.1, (hold_line_roundtrip LF LP mode h ho hk hr {}).2.2.1,
      fun st => by rw [(hold_line_roundtrip LF LP mode h ho hk hr st).2.2.2], fun st h0 => ?_⟩
    rw [(hold_line_roundtrip LF LP mode h ho hk hr st).2.2.2]
    refine ⟨_, rfl, rfl, ⟨rfl, ?_⟩, h0, ?_⟩
    · rw [hk]; exact ⟨rfl, rfl⟩
    · rw [hk]; rfl

/-- **the lines of a list of representable objects, with the detail**: `block_lines` of Lemmas/HitObjectBlock.lean (one
LF-free record line per object, each accepted in ANY decoder state), and in addition, run from a state whose path buffer
is empty — every reachable state —, the appended objects are related to the written ones by `ObjsBack`. -/
theorem block_lines_back (LF : CodecLaws F RF) (LP : CodecLaws P RP) (LC : CoordLaws F P RP) (mode : GameMode) :
    ∀ objs : List (HitObject F P), (∀ h ∈ objs, RepObject RF RP mode h) →
      ∃ H : List Str, encodeObjects mode objs = .ok (unlines H) ∧ H.length = objs.length ∧
        (∀ l ∈ H, '\n' ∉ l ∧ RecordLine (trimEnd l)) ∧
        (∀ l ∈ H, ∀ st : HOCore F P, (parseHitObjectLine mode st (trimEnd l)).2 = true) ∧
        ∀ st : HOCore F P, st.curvePoints = [] →
          ∃ os, (runSection (parseHitObjectLine mode) st (H.map trimEnd)).hitObjects = st.hitObjects ++ os ∧
            ObjsBack mode (forcedOf st) objs os ∧
            (runSection (parseHitObjectLine mode) st (H.map trimEnd)).curvePoints = [] := by
  intro objs
  induction objs with
  | nil =>
    intro _
    refine ⟨[], ?_, rfl, ?_, ?_, fun st h0 => ⟨[], ?_, trivial, h0⟩⟩
    · rw [encodeObjects]; rfl
    · intro l hl; cases hl
    · intro l hl; cases hl
    · simp [runSection]
  | cons h rest ih =>
    intro hall
    obtain ⟨l, h1, h2, h3, h5, h4⟩ := object_line_back LF LP LC mode h (hall h (by simp))
    obtain ⟨H, g1, g2, g3, g5, g4⟩ := ih (fun x hx => hall x (by simp [hx]))
    refine ⟨l :: H, ?_, by simp [g2], ?_, ?_, fun st h0 => ?_⟩
    · rw [encodeObjects]
      simp only [h1, g1, bind, Except.bind, pure, Except.pure, unlines_cons]
    · intro x hx
      rcases List.mem_cons.mp hx with hx | hx
      · subst hx; exact ⟨h2, h3⟩
      · exact g3 x hx
    · intro x hx
      rcases List.mem_cons.mp hx with hx | hx
      · subst hx; exact h5
      · exact g5 x hx
    · obtain ⟨o, a1, a2, a3, a4, a5⟩ := h4 st h0
      obtain ⟨os, b2, b3, b4⟩ := g4 (parseHitObjectLine mode st (trimEnd l)).1 a4
      simp only [List.map_cons, runSection_cons]
      refine ⟨o :: os, ?_, ⟨a3, ?_⟩, b4⟩
      · rw [b2, a2]; simp
      · rw [← a5]; exact b3

end

end SliderRt
end Rosu
