/-
  Lemmas/SliderEx.lean — `RepPath` / `RepSlider` are decidable (given decidable equality on the scalar and a decidable
  representability predicate), and worked instances on the toy codec `ZC` (positions are the integers themselves):
  the hypotheses of the slider theorems are satisfiable on non-trivial multi-segment paths, and the excluded shapes
  (finding F17 and its relatives) really fall outside the class.
-/
import RosuModel.Lemmas.SliderObject
set_option linter.unusedSectionVars false
namespace Rosu
namespace SliderRt
open Rosu Encode EncodeLines Scalar RtObjects C14

section
variable {P : Type} [Scalar P] [DecidableEq P] {RP : P → Prop} [DecidablePred RP]

instance : DecidableEq (Pos P) := fun a b =>
  match a, b with
  | ⟨ax, ay⟩, ⟨bx, by'⟩ =>
    if h : ax = bx ∧ ay = by' then isTrue (by rw [h.1, h.2])
    else isFalse (fun e => h (by cases e; exact ⟨rfl, rfl⟩))

instance (x : P) : Decidable (RepCoord RP x) :=
  decidable_of_iff (RP x ∧ InCoord x ∧ Scalar.ofInt (Scalar.toI32 x) = x)
    ⟨fun h => ⟨h.1, h.2.1, h.2.2⟩, fun h => ⟨h.rep, h.lim, h.integral⟩⟩

instance (pos : Pos P) (q : PathControlPoint P) : Decidable (RepPoint RP pos q) :=
  decidable_of_iff (RepCoord RP (pos.x + q.pos.x) ∧ RepCoord RP (pos.y + q.pos.y) ∧
      (pos.x + q.pos.x) - pos.x = q.pos.x ∧ (pos.y + q.pos.y) - pos.y = q.pos.y)
    ⟨fun h => ⟨h.1, h.2.1, h.2.2.1, h.2.2.2⟩, fun h => ⟨h.x, h.y, h.backX, h.backY⟩⟩

instance decPShape (t : PathType) (b : Pos P) : ∀ rest : List (PathControlPoint P), Decidable (PShape t b rest)
  | [] => inferInstanceAs (Decidable (t = PathType.perfect → False))
  | [_] => inferInstanceAs (Decidable (t = PathType.perfect → False))
  | c :: d :: rest' => inferInstanceAs (Decidable (t = PathType.perfect →
      c.pathType = none ∧ (d.pathType.isSome = true ∨ rest' = []) ∧ isLinear b c.pos d.pos = false))

instance decChainOK : ∀ (T : PathType) (a : PathControlPoint P) (rest : List (PathControlPoint P)), Decidable (ChainOK T a rest)
  | _, _, [] => isTrue trivial
  | T, a, b :: rest =>
    match hb : b.pathType with
    | none =>
      have : Decidable (ChainOK T b rest) := decChainOK T b rest
      decidable_of_iff ((Pos.eq b.pos a.pos = true →
          rest = [] ∨ (nextTyped rest = true ∧ b.pos = a.pos) ∨ (T = PathType.catmull ∧ a.pathType = none)) ∧
          ChainOK T b rest) (by rw [ChainOK]; simp only [hb])
    | some t =>
      have : Decidable (ChainOK t b rest) := decChainOK t b rest
      decidable_of_iff (WfType t ∧ PShape t b.pos rest ∧
          ((t = T ∧ t ≠ PathType.perfect ∧ endsSeg rest = false) →
            t ≠ PathType.catmull ∧ Pos.eq b.pos b.pos = true ∧ Pos.eq b.pos a.pos = false) ∧
          ChainOK t b rest) (by rw [ChainOK]; simp only [hb])

instance decRepPath (pos : Pos P) : ∀ cps : List (PathControlPoint P), Decidable (RepPath RP pos cps)
  | [] => isFalse (fun h => h)
  | p0 :: rest =>
    match h0 : p0.pathType with
    | none => isFalse (fun h => by have := h.2.1; rw [h0] at this; exact this)
    | some t0 =>
      decidable_of_iff (p0.pos = Pos.zero ∧ (WfType t0 ∧ PShape t0 p0.pos rest ∧ ChainOK t0 p0 rest) ∧
          ∀ q ∈ rest, RepPoint RP pos q) (by unfold RepPath; simp only [h0])

end

/-! ### worked instances (toy codec) -/

/-- control point `(x, y)` with an optional type. -/
def zc (x y : Int) (t : Option PathType := none) : PathControlPoint ZC := ⟨⟨⟨x⟩, ⟨y⟩⟩, t⟩

def exPos : Pos ZC := ⟨⟨100⟩, ⟨100⟩⟩

/-- a multi-segment path: an implicit Bezier segment start (`(100,0)`, written twice), an explicit linear segment,
a repeated point directly before a typed one, a three-point perfect curve. -/
def exPath : List (PathControlPoint ZC) :=
  [zc 0 0 (some PathType.bezier), zc 50 50, zc 100 0 (some PathType.bezier), zc 150 50, zc 200 0 (some PathType.linear),
   zc 250 50, zc 250 50, zc 300 0 (some PathType.perfect), zc 350 60, zc 400 0]

theorem exPath_rep : RepPath ZC.Rep exPos exPath := by decide

example : pathText exPos exPath =
    str "B|150:150|200:100|200:100|250:150|L|300:100|350:150|350:150|P|400:100|450:160|500:100" := by decide

example (st : PathScratch ZC) :
    (convertPathStr ZC st (pathText exPos exPath) exPos).1.curvePoints = st.curvePoints ++ exPath :=
  (path_roundtrip (F := ZC) ZC.laws ZC.coordLaws exPos exPath exPath_rep st).2.2.2.2

/-- single-point paths (`B,`), a B-spline degree, Catmull with a repeated interior point. -/
example : RepPath ZC.Rep exPos [zc 0 0 (some PathType.linear)] := by decide
example : pathText exPos [zc 0 0 (some PathType.linear)] = str "L" := by decide
example : RepPath ZC.Rep exPos [zc 0 0 (some ⟨.bspline, some 3⟩), zc 10 0, zc 20 5, zc 30 0] := by decide
example : RepPath ZC.Rep exPos [zc 0 0 (some PathType.catmull), zc 10 0, zc 10 0, zc 30 0] := by decide

/-! the excluded shapes -/

/-- finding F17: a typed point that could be written implicitly and repeats its predecessor's position. -/
example : ¬ RepPath ZC.Rep exPos [zc 0 0 (some PathType.bezier), zc 50 50, zc 50 50 (some PathType.bezier), zc 90 0] := by decide
/-- … its relative at index 0, reachable by decoding `C|100:100|100:100|200:100` at `(100,100)`: the second control
point repeats the (typed) first one and is not the last of its segment — the round trip drops it. -/
example : ¬ RepPath ZC.Rep exPos [zc 0 0 (some PathType.catmull), zc 0 0, zc 100 0] := by decide
/-- consecutive Catmull segments (excluded by the property text). -/
example : ¬ RepPath ZC.Rep exPos [zc 0 0 (some PathType.catmull), zc 50 50, zc 90 0 (some PathType.catmull), zc 100 100] := by decide
/-- a perfect curve that is not exactly three points (the decoder turns it into a Bezier curve). -/
example : ¬ RepPath ZC.Rep exPos [zc 0 0 (some PathType.perfect), zc 50 50, zc 90 0, zc 100 100] := by decide
/-- an untyped point repeating its predecessor in the middle of a Bezier segment (the decoder would split there). -/
example : ¬ RepPath ZC.Rep exPos [zc 0 0 (some PathType.bezier), zc 50 50, zc 50 50, zc 90 0] := by decide
/-- … but at the end of the path, or directly before a typed point, the repeat is carried. -/
example : RepPath ZC.Rep exPos [zc 0 0 (some PathType.bezier), zc 50 50, zc 50 50] := by decide
example : RepPath ZC.Rep exPos [zc 0 0 (some PathType.bezier), zc 50 50, zc 50 50, zc 90 0 (some PathType.bezier), zc 95 5] := by decide

/-! a whole slider line -/

def exSlider : HitObjectSlider ZC ZC :=
  { pos := exPos, newCombo := true, comboOffset := 2, path := { mode := GameMode.osu, controlPoints := exPath, expectedDist := some ⟨420⟩ },
    nodeSamples := [sampleSamples, [HitSampleInfo.new (.default .normal) (some .drum) 0 0]], repeatCount := 1, velocity := ⟨1⟩ }

def exSliderObj : HitObject ZC ZC := ⟨⟨1000⟩, .slider exSlider, sampleSamples⟩

theorem exSlider_rep : RepSlider ZC.Rep ZC.Rep GameMode.osu exSliderObj exSlider ⟨420⟩ :=
  ⟨⟨by decide, by decide, rfl⟩, ⟨by decide, by decide, rfl⟩, ⟨by decide, by decide⟩, by decide, exPath_rep, by decide,
   ⟨by decide, by decide⟩, Or.inl rfl, sampleSamples_rep _⟩

set_option maxRecDepth 8000 in
example : sliderLine GameMode.osu exSliderObj exSlider ⟨420⟩ =
    str "100,100,1000,38,2,B|150:150|200:100|200:100|250:150|L|300:100|350:150|350:150|P|400:100|450:160|500:100,2,420,2|0|0,2:3|3:0|0:0,2:3:0:0:" := by
  decide

example (st : HOCore ZC ZC) := slider_line_roundtrip ZC.laws ZC.laws ZC.coordLaws GameMode.osu exSliderObj exSlider ⟨420⟩ rfl
  exSlider_rep st

end SliderRt
end Rosu
