/-
  Lemmas/FloatErrRange.lean — the companions of Lemmas/FloatErrMul.lean that make the standard model usable on
  *symbolic* doubles known only through bounds:

  * **no overflow from a bound on the exact value**: `mul_finite_float`, `div_finite_float`
    (`|exact| < 2¹⁰²³` ⟹ the rounded result is finite) — via `rwa_inRange64`: the target exponent of a value below
    `2¹⁰²³` is at most 970, so even the carry of the rounding stays below the exponent limit 971 of binary64;
  * `mul_ok`, `div_ok`: finiteness and the relative model together, from `2⁻¹⁰²² ≤ |exact| < 2¹⁰²³`;
  * `toRat_neg`, `neg_isFinite`: negation is exact;
  * `finite_of_between`: a double between two finite doubles (IEEE `<=`) is finite;
  * `lt_zero_of_toRat_neg`: a finite double of negative value is `< 0` in the IEEE order;
  * `squeeze_rel`: a value squeezed between `x` and `x(1+δ)` is `x(1+δ')` with `|δ'| ≤ |δ|` (what a `clamp` to bounds on
    the far side of the exact value does to a relative error);
  * `rel_bounds`, `tiny_le`, `lt_huge`, `u53_*`: bookkeeping for the range side conditions;
  * `finite_of_add_finite`, `finite_of_sub_finite`, `finite_of_mul_finite`, `finite_of_div_finite`: a finite result has
    finite operands (so "the final result does not overflow" is the only finiteness hypothesis an expression needs).
-/
import RosuModel.Lemmas.FloatErrMul
namespace Rosu.FErr
open Float.Model Float.Model.UnpackedFloat Rosu.FMR Rosu.FRM Rosu.FAM

/-! ### no overflow -/

theorem inRange64_fin (s : Sign) (m : Nat) (e : Int) (hm : 0 < m) (he : e ≤ 971) :
    InRange Format.binary64 (.finite s m e hm) := by
  have h1 : (Format.binary64.exponentBias : Int) = 1023 := by decide
  have h2 : (Format.binary64.mantissaBitsWithoutImplicit : Int) = 52 := by decide
  have h3 : ((2 ^ Format.binary64.exponentBits : Nat) : Int) = 2048 := by decide
  show e + _ + _ + 1 < _
  rw [h1, h2, h3]; omega

/-- the rounding of an exact value below `2¹⁰²³` fits the exponent range of binary64. -/
theorem rwa_inRange64 (s : Sign) (N D : Nat) (hD : 0 < D) (e : Int) (he : e ≤ tgt Format.binary64 (N / D) e)
    (hV : (N : ℚ) / (D : ℚ) * (2 : ℚ) ^ e < (2 : ℚ) ^ (1023 : Int)) :
    InRange Format.binary64 (roundWithAccuracy Format.binary64 s (N / D) e (accuracyOfFraction (N % D) D)) := by
  obtain ⟨hs, _⟩ := rwa_shape Format.binary64 s N D hD e he
  obtain ⟨R, _, _, h2⟩ := rwa_err Format.binary64 s N D hD e he
  have hte : tgt Format.binary64 (N / D) e ≤ 970 := by
    rcases h2 with h | h
    · rw [h, b64_minExponent]; omega
    · have := lt_of_le_of_lt h hV
      rw [b64_mantissaBits, ← zpow_natCast, ← zpow_add₀ (two_ne_zero),
        zpow_lt_zpow_iff_right₀ (by norm_num : (1 : ℚ) < 2)] at this
      omega
  rcases hs with ⟨_, h⟩ | ⟨_, _, _, ⟨p, h⟩⟩ | ⟨_, _, ⟨p, h⟩⟩ <;> rw [h]
  · trivial
  · exact inRange64_fin _ _ _ _ (by omega)
  · exact inRange64_fin _ _ _ _ (by omega)

theorem uval_abs_fin (s : Sign) (m : Nat) (e : Int) (hm : 0 < m) :
    |uval (.finite s m e hm)| = (m : ℚ) * (2 : ℚ) ^ e := by
  simp only [uval]
  rw [abs_mul, abs_mul, sgnQ_abs, one_mul, abs_of_nonneg (Nat.cast_nonneg m), abs_of_pos (two_zpow_pos e)]

/-- **multiplication does not overflow** when the exact product is below `2¹⁰²³`. -/
theorem mul_finite_float (a b : Float) (ha : a.isFinite = true) (hb : b.isFinite = true)
    (h : |toRat a * toRat b| < (2 : ℚ) ^ (1023 : Int)) : (a * b).isFinite = true := by
  show (a * b).toModel.unpack.isFinite = true
  have ha' : a.toModel.unpack.isFinite = true := ha
  have hb' : b.toModel.unpack.isFinite = true := hb
  have hca := float_canon a
  have hcb := float_canon b
  have hc := mul_canon Format.binary64 _ _ hca hcb
  obtain ⟨hf, _⟩ := mul_err_unpacked Format.binary64 _ _ hca hcb ha hb
  rw [float_mul_unpack]
  unfold toRat at h
  generalize a.toModel.unpack = ua at *
  generalize b.toModel.unpack = ub at *
  rcases repack_cases Format.binary64 (by decide) _ hc with ⟨h1, _⟩ | ⟨s, m, e, p, h0, hnr, _⟩
  · rw [h1]; exact hf
  · exfalso
    apply hnr
    cases ua with
    | notANumber => cases ha'
    | infinity sa => cases ha'
    | zero sa =>
      cases ub with
      | notANumber => cases hb'
      | infinity sb => cases hb'
      | zero sb => cases h0
      | finite s₂ m₂ e₂ h₂ => cases h0
    | finite s₁ m₁ e₁ h₁ =>
      cases ub with
      | notANumber => cases hb'
      | infinity sb => cases hb'
      | zero sb => cases h0
      | finite s₂ m₂ e₂ h₂ =>
        have hg := mul_tgt_ge Format.binary64 hca hcb h₁ h₂
        rw [mul_fin, rwa_exact_eq]
        refine rwa_inRange64 _ _ 1 (by omega) _ (by rw [Nat.div_one]; exact hg) ?_
        rw [abs_mul, uval_abs_fin, uval_abs_fin] at h
        rw [zpow_add₀ (two_ne_zero)]
        push_cast
        calc (m₁ : ℚ) * (m₂ : ℚ) / 1 * ((2 : ℚ) ^ e₁ * (2 : ℚ) ^ e₂)
            = (m₁ : ℚ) * (2 : ℚ) ^ e₁ * ((m₂ : ℚ) * (2 : ℚ) ^ e₂) := by ring
          _ < _ := h

/-- a finite double of non-zero value unpacks to `finite`. -/
theorem unpack_fin_of_ne_zero (b : Float) (hb : b.isFinite = true) (h0 : toRat b ≠ 0) :
    ∃ s m e hm, b.toModel.unpack = .finite s m e hm := by
  have hb' : b.toModel.unpack.isFinite = true := hb
  unfold toRat at h0
  generalize b.toModel.unpack = ub at *
  match ub, hb', h0 with
  | .finite s m e hm, _, _ => exact ⟨s, m, e, hm, rfl⟩
  | .zero s, _, h0 => exact absurd rfl h0

/-- **division does not overflow** when the divisor is not zero and the exact quotient is below `2¹⁰²³`. -/
theorem div_finite_float (a b : Float) (ha : a.isFinite = true) (hb : b.isFinite = true) (hb0 : toRat b ≠ 0)
    (h : |toRat a / toRat b| < (2 : ℚ) ^ (1023 : Int)) : (a / b).isFinite = true := by
  show (a / b).toModel.unpack.isFinite = true
  have ha' : a.toModel.unpack.isFinite = true := ha
  obtain ⟨s₂, m₂, e₂, h₂, hbu⟩ := unpack_fin_of_ne_zero b hb hb0
  have hc := div_canon Format.binary64 a.toModel.unpack b.toModel.unpack
  rw [float_div_unpack]
  unfold toRat at h
  rw [hbu] at h hc ⊢
  obtain ⟨hf, _⟩ := div_err_unpacked Format.binary64 a.toModel.unpack ha' s₂ m₂ e₂ h₂
  generalize a.toModel.unpack = ua at *
  rcases repack_cases Format.binary64 (by decide) _ hc with ⟨h1, _⟩ | ⟨s, m, e, p, h0, hnr, _⟩
  · rw [h1]; exact hf
  · exfalso
    apply hnr
    match ua, ha', h0, h with
    | .finite s₁ m₁ e₁ h₁, _, h0, h =>
      have hg := div_tgt_ge Format.binary64 m₁ m₂ e₁ e₂ h₁ h₂
      rw [div_fin]
      refine rwa_inRange64 _ _ m₂ h₂ _ hg ?_
      rw [abs_div, uval_abs_fin, uval_abs_fin] at h
      have hle := divT_le Format.binary64 m₁ m₂ e₁ e₂
      have hp : (2 : ℚ) ^ (e₁ - e₂ - divT Format.binary64 m₁ e₁ m₂ e₂).toNat *
          (2 : ℚ) ^ divT Format.binary64 m₁ e₁ m₂ e₂ = (2 : ℚ) ^ e₁ / (2 : ℚ) ^ e₂ := by
        rw [← zpow_natCast, ← zpow_add₀ (two_ne_zero), ← zpow_sub₀ (two_ne_zero)]; congr 1; omega
      have hm2 : (m₂ : ℚ) ≠ 0 := by exact_mod_cast (by omega : m₂ ≠ 0)
      have h2 : (2 : ℚ) ^ e₂ ≠ 0 := (two_zpow_pos e₂).ne'
      unfold divN
      push_cast
      calc (m₁ : ℚ) * (2 : ℚ) ^ (e₁ - e₂ - divT Format.binary64 m₁ e₁ m₂ e₂).toNat / (m₂ : ℚ) *
            (2 : ℚ) ^ divT Format.binary64 m₁ e₁ m₂ e₂
          = (m₁ : ℚ) / (m₂ : ℚ) * ((2 : ℚ) ^ (e₁ - e₂ - divT Format.binary64 m₁ e₁ m₂ e₂).toNat *
            (2 : ℚ) ^ divT Format.binary64 m₁ e₁ m₂ e₂) := by ring
        _ = (m₁ : ℚ) / (m₂ : ℚ) * ((2 : ℚ) ^ e₁ / (2 : ℚ) ^ e₂) := by rw [hp]
        _ = (m₁ : ℚ) * (2 : ℚ) ^ e₁ / ((m₂ : ℚ) * (2 : ℚ) ^ e₂) := by field_simp
        _ < _ := h

/-- **`a * b` with `2⁻¹⁰²² ≤ |a·b| < 2¹⁰²³`**: finite, and `fl(a·b) = a·b·(1+δ)`, `|δ| ≤ 2⁻⁵³`. -/
theorem mul_ok (a b : Float) (ha : a.isFinite = true) (hb : b.isFinite = true)
    (hlo : (2 : ℚ) ^ (-1022 : Int) ≤ |toRat a * toRat b|) (hhi : |toRat a * toRat b| < (2 : ℚ) ^ (1023 : Int)) :
    (a * b).isFinite = true ∧
      ∃ δ : ℚ, |δ| ≤ (2 : ℚ) ^ (-53 : Int) ∧ toRat (a * b) = toRat a * toRat b * (1 + δ) :=
  ⟨mul_finite_float a b ha hb hhi, mul_err_float a b ha hb (mul_finite_float a b ha hb hhi) hlo⟩

/-- **`a / b` with `b ≠ 0`, `2⁻¹⁰²² ≤ |a/b| < 2¹⁰²³`**: finite, and `fl(a/b) = (a/b)(1+δ)`, `|δ| ≤ 2⁻⁵³`. -/
theorem div_ok (a b : Float) (ha : a.isFinite = true) (hb : b.isFinite = true) (hb0 : toRat b ≠ 0)
    (hlo : (2 : ℚ) ^ (-1022 : Int) ≤ |toRat a / toRat b|) (hhi : |toRat a / toRat b| < (2 : ℚ) ^ (1023 : Int)) :
    (a / b).isFinite = true ∧
      ∃ δ : ℚ, |δ| ≤ (2 : ℚ) ^ (-53 : Int) ∧ toRat (a / b) = toRat a / toRat b * (1 + δ) :=
  ⟨div_finite_float a b ha hb hb0 hhi, div_err_float a b ha hb (div_finite_float a b ha hb hb0 hhi) hlo⟩

/-! ### negation -/

theorem float_inRange (x : Float) : InRange Format.binary64 x.toModel.unpack :=
  unpack_inRange Format.binary64 (by decide) x.toModel.toBits.toBitVec

theorem float_neg_unpack (x : Float) :
    (-x).toModel.unpack = repack Format.binary64 x.toModel.unpack.neg := rfl

theorem float_neg_unpack_eq (x : Float) : (-x).toModel.unpack = x.toModel.unpack.neg := by
  rw [float_neg_unpack]
  have hc := float_canon x
  have hr := float_inRange x
  generalize x.toModel.unpack = u at *
  have hcn : Canon Format.binary64 u.neg := by cases u <;> trivial
  rcases repack_cases Format.binary64 (by decide) _ hcn with ⟨h1, _⟩ | ⟨s, m, e, p, h0, hnr, _⟩
  · exact h1
  · exfalso; apply hnr
    cases u <;> trivial

/-- **negation is exact.** -/
theorem toRat_neg (x : Float) : toRat (-x) = -toRat x := by
  unfold toRat
  rw [float_neg_unpack_eq]
  cases x.toModel.unpack with
  | notANumber => simp [UnpackedFloat.neg, uval]
  | infinity s => simp [UnpackedFloat.neg, uval]
  | zero s => simp [UnpackedFloat.neg, uval]
  | finite s m e hm => simp only [UnpackedFloat.neg, uval, sgnQ_neg]; ring

theorem neg_isFinite (x : Float) : (-x).isFinite = x.isFinite := by
  show (-x).toModel.unpack.isFinite = x.toModel.unpack.isFinite
  rw [float_neg_unpack_eq]
  cases x.toModel.unpack <;> rfl

/-! ### order facts -/

theorem ufinite_of_between (lo x hi : UnpackedFloat) (hlo : lo.isFinite = true) (hhi : hi.isFinite = true)
    (h1 : lo.le x = true) (h2 : x.le hi = true) : x.isFinite = true := by
  cases leKind_of_le h1 <;> first | rfl | cases hlo | skip
  all_goals cases leKind_of_le h2 <;> first | rfl | cases hhi

/-- a double between two finite doubles is finite. -/
theorem finite_of_between (lo x hi : Float) (hlo : lo.isFinite = true) (hhi : hi.isFinite = true)
    (h1 : Scalar.le lo x = true) (h2 : Scalar.le x hi = true) : x.isFinite = true := by
  rw [FMO.le_float] at h1 h2
  exact ufinite_of_between _ _ _ hlo hhi h1 h2

theorem not_nan_of_finite (x : Float) (h : x.isFinite = true) : Scalar.isNaN x = false := by
  have h' : x.toModel.unpack.isFinite = true := h
  show x.toModel.unpack.isNaN = false
  cases hx : x.toModel.unpack <;> rw [hx] at h' <;> first | rfl | cases h'

/-- a finite double of negative value is below zero in the IEEE order. -/
theorem lt_zero_of_toRat_neg (x : Float) (hf : x.isFinite = true) (h : toRat x < 0) :
    Scalar.lt x (0 : Float) = true := by
  cases hl : Scalar.lt x (0 : Float)
  · have := toRat_nonneg x (FMO.le_of_not_lt x 0 (not_nan_of_finite x hf) (by decide +kernel) hl) hf
    linarith
  · rfl

/-- IEEE `<` between finite doubles gives `≤` of the values. -/
theorem toRat_le_of_lt (x y : Float) (hx : x.isFinite = true) (hy : y.isFinite = true)
    (h : Scalar.lt x y = true) : toRat x ≤ toRat y :=
  toRat_le_of_le x y hx hy (FMO.le_of_lt x y h)

/-! ### bookkeeping -/

/-- a value squeezed between `x` and `x(1+δ)` is `x(1+δ')`, `|δ'| ≤ |δ|`. -/
theorem squeeze_rel (x u δ c : ℚ) (hx : 0 < x) (hδ : |δ| ≤ u)
    (h : (x * (1 + δ) ≤ c ∧ c ≤ x) ∨ (x ≤ c ∧ c ≤ x * (1 + δ))) : ∃ δ' : ℚ, |δ'| ≤ u ∧ c = x * (1 + δ') := by
  refine ⟨c / x - 1, ?_, by field_simp; ring⟩
  rw [abs_le] at hδ ⊢
  obtain ⟨d1, d2⟩ := hδ
  rcases h with ⟨h1, h2⟩ | ⟨h1, h2⟩
  · constructor
    · rw [le_sub_iff_add_le, le_div_iff₀ hx]; nlinarith
    · rw [sub_le_iff_le_add, div_le_iff₀ hx]; nlinarith
  · constructor
    · rw [le_sub_iff_add_le, le_div_iff₀ hx]; nlinarith
    · rw [sub_le_iff_le_add, div_le_iff₀ hx]; nlinarith

theorem u53_pos : (0 : ℚ) < (2 : ℚ) ^ (-53 : Int) := two_zpow_pos _
theorem u53_le : (2 : ℚ) ^ (-53 : Int) ≤ 1 / 1000000 := by norm_num

/-- crude bounds of a perturbed positive value: `V ∈ [L, H]` ⟹ `V(1+δ) ∈ [L/2, 2H]`. -/
theorem rel_bounds (V δ L H : ℚ) (hL : 0 ≤ L) (h1 : L ≤ V) (h2 : V ≤ H) (hδ : |δ| ≤ (2 : ℚ) ^ (-53 : Int)) :
    L / 2 ≤ V * (1 + δ) ∧ V * (1 + δ) ≤ 2 * H := by
  have hu := u53_le
  rw [abs_le] at hδ
  generalize (2 : ℚ) ^ (-53 : Int) = u at *
  obtain ⟨d1, d2⟩ := hδ
  have hV : 0 ≤ V := le_trans hL h1
  have p1 := mul_nonneg hV (by linarith : (0 : ℚ) ≤ δ + 1 / 2)
  have p2 := mul_nonneg hV (by linarith : (0 : ℚ) ≤ 1 / 2 - δ)
  constructor <;> nlinarith

theorem tiny_le (x : ℚ) (h : (2 : ℚ) ^ (-40 : Int) ≤ x) : (2 : ℚ) ^ (-1022 : Int) ≤ x :=
  le_trans (zpow_le_zpow_right₀ (by norm_num) (by norm_num)) h

theorem lt_huge (x : ℚ) (h : x ≤ (2 : ℚ) ^ (40 : Int)) : x < (2 : ℚ) ^ (1023 : Int) :=
  lt_of_le_of_lt h (zpow_lt_zpow_right₀ (by norm_num) (by norm_num))

/-! ### a finite result has finite operands -/

theorem repack_finite (r : UnpackedFloat) (hc : Canon Format.binary64 r)
    (h : (repack Format.binary64 r).isFinite = true) : r.isFinite = true := by
  rcases repack_cases Format.binary64 (by decide) r hc with ⟨h1, _⟩ | ⟨s, m, e, p, _, _, h1⟩
  · rw [h1] at h; exact h
  · rw [h1] at h; cases h

theorem uadd_finite (spec : Format) (a b : UnpackedFloat) (h : (UnpackedFloat.add spec a b).isFinite = true) :
    a.isFinite = true ∧ b.isFinite = true := by
  cases a <;> cases b <;> first | exact ⟨rfl, rfl⟩ | cases h | skip
  all_goals (rename_i s s'; cases s <;> cases s' <;> cases h)

theorem usub_finite (spec : Format) (a b : UnpackedFloat) (h : (UnpackedFloat.sub spec a b).isFinite = true) :
    a.isFinite = true ∧ b.isFinite = true := by
  cases a <;> cases b <;> first | exact ⟨rfl, rfl⟩ | cases h | skip
  all_goals (rename_i s s'; cases s <;> cases s' <;> cases h)

theorem umul_finite (spec : Format) (a b : UnpackedFloat) (h : (UnpackedFloat.mul spec a b).isFinite = true) :
    a.isFinite = true ∧ b.isFinite = true := by
  cases a <;> cases b <;> first | exact ⟨rfl, rfl⟩ | cases h

theorem udiv_finite (spec : Format) (a b : UnpackedFloat) (h : (UnpackedFloat.div spec a b).isFinite = true) :
    a.isFinite = true := by
  cases a <;> cases b <;> first | rfl | cases h

/-- a finite sum has finite summands (`±∞ + x` is `±∞` or NaN). -/
theorem finite_of_add_finite (a b : Float) (h : (a + b).isFinite = true) : a.isFinite = true ∧ b.isFinite = true := by
  have h' : (a + b).toModel.unpack.isFinite = true := h
  rw [float_add_unpack] at h'
  exact uadd_finite _ _ _ (repack_finite _ (add_canon _ _ _ (float_canon a) (float_canon b)) h')

theorem finite_of_sub_finite (a b : Float) (h : (a - b).isFinite = true) : a.isFinite = true ∧ b.isFinite = true := by
  have h' : (a - b).toModel.unpack.isFinite = true := h
  rw [float_sub_unpack] at h'
  exact usub_finite _ _ _ (repack_finite _ (sub_canon _ _ _ (float_canon a) (float_canon b)) h')

theorem finite_of_mul_finite (a b : Float) (h : (a * b).isFinite = true) : a.isFinite = true ∧ b.isFinite = true := by
  have h' : (a * b).toModel.unpack.isFinite = true := h
  rw [float_mul_unpack] at h'
  exact umul_finite _ _ _ (repack_finite _ (mul_canon _ _ _ (float_canon a) (float_canon b)) h')

/-- a finite quotient has a finite numerator (the divisor may be `±∞`: `x / ±∞ = ±0`). -/
theorem finite_of_div_finite (a b : Float) (h : (a / b).isFinite = true) : a.isFinite = true := by
  have h' : (a / b).toModel.unpack.isFinite = true := h
  rw [float_div_unpack] at h'
  exact udiv_finite _ _ _ (repack_finite _ (div_canon _ _ _) h')

/-- the absolute form of the addition / subtraction error. -/
theorem sub_err_abs_float (a b : Float) (ha : a.isFinite = true) (hb : b.isFinite = true)
    (hab : (a - b).isFinite = true) :
    |toRat (a - b) - (toRat a - toRat b)| ≤ (2 : ℚ) ^ (-53 : Int) * |toRat a - toRat b| := by
  obtain ⟨δ, hδ, hv⟩ := sub_err_float a b ha hb hab
  have : toRat (a - b) - (toRat a - toRat b) = δ * (toRat a - toRat b) := by rw [hv]; ring
  rw [this, abs_mul]
  exact mul_le_mul_of_nonneg_right hδ (abs_nonneg _)

end Rosu.FErr
