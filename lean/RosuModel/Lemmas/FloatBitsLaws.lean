/-
  Lemmas/FloatBitsLaws.lean — sign / NaN / order facts of the bit-level conversions of Model/FloatBits.lean
  (`upBits` = `f64::from(f32)`, `downBits` = `f64 as f32`) and of the `Float.Model` operations `*`, `+`, `-`, `sqrt`,
  for the driver's instances `Scalar Float`, `Scalar Float32`, `Cvt Float32 Float` (Model/FloatInst.lean).

  Everything is about the predicate `NN u := (+0).le u = true` on `UnpackedFloat` (both zeros, positive finite values,
  `+∞`) and about NaN-ness; no statement about *which* value an operation returns is needed.

  * unpacked level: `repack_nn` (`unpack ∘ pack` keeps `+0 ≤ ·`; companion of `FMO.unpack_pack_isNaN`),
    `mul_self_isNaN`/`mul_self_nn` (`u·u` is a NaN iff `u` is, else `≥ +0`), `sqrt_nn`, `sqrt_isNaN_iff`
    (`sqrt u` is a NaN iff `+0 ≤ u` fails), `sub_finite_not_nan`, `add_nan_left/right`;
  * Nat level: `roundRat_le_inf` (from `FCL.roundRat_spec`), `upBits_spec`, `downBits_spec` (result is a pattern of the
    target width; NaN iff NaN; sign bit kept for non-NaN — a NaN becomes the canonical *positive* NaN, so the sign claim
    is false for negative NaNs, see the `example` —; zero ↦ zero);
  * `Float`/`Float32` level: `up_isNaN`, `up_nonneg`, `down_isNaN`, `down_nonneg`, `mul_self_isNaN_float32`,
    `mul_self_nonneg_float32`, `sqrt_nonneg_float`, `sqrt_isNaN_iff_float`, `add_isNaN_left/right_float(32)`,
    `sub_not_nan_float32`.
-/
import RosuModel.Lemmas.FloatModelAdd
import RosuModel.Lemmas.FloatModelCompare
import RosuModel.Lemmas.FloatCodecLawsSpec
namespace Rosu.FB
open Rosu Float.Model Float.Model.UnpackedFloat

/-! ### `+0 ≤ u` on unpacked values and on patterns -/

/-- `+0 ≤ u` in the IEEE order (true of both zeros, positive finite values and `+∞`). -/
abbrev NN (u : UnpackedFloat) : Prop := (UnpackedFloat.zero .positive).le u = true

theorem nn_zero (s : Sign) : NN (.zero s) := rfl
theorem nn_inf : NN (.infinity .positive) := rfl
theorem nn_fin (m : Nat) (e : Int) (h : 0 < m) : NN (.finite .positive m e h) := rfl
theorem nn_not_nan {u : UnpackedFloat} (h : NN u) : u.isNaN = false := FMR.isNaN_le_false _ _ h

theorem signOf_zero : FM.signOf 0 = .positive := rfl
theorem signOf_ne {t : Nat} (h : t ≠ 0) : FM.signOf t = .negative := by
  unfold FM.signOf; rw [if_neg h]

theorem unpackNat_nn_of (M E n : Nat) (hE : 1 ≤ E) (hn : (FM.unpackNat M E n).isNaN = false)
    (h : n / 2 ^ (M + E) = 0 ∨ (n / 2 ^ M % 2 ^ E = 0 ∧ n % 2 ^ M = 0)) : NN (FM.unpackNat M E n) := by
  have h2 : 2 ≤ 2 ^ E := by
    calc 2 = 2 ^ 1 := rfl
      _ ≤ 2 ^ E := Nat.pow_le_pow_right (by decide) hE
  by_cases ht : n / 2 ^ (M + E) = 0
  · unfold FM.unpackNat at hn ⊢
    rw [ht, signOf_zero] at *
    split
    · split
      · exact nn_inf
      · rename_i h1 h2; rw [if_pos h1, if_neg h2] at hn; cases hn
    · split
      · split
        · exact nn_zero _
        · exact nn_fin _ _ _
      · exact nn_fin _ _ _
  · rcases h with h | ⟨h1, h2'⟩
    · exact absurd h ht
    · unfold FM.unpackNat
      rw [if_neg (by omega), if_pos h1, dif_pos h2']
      exact nn_zero _

theorem unpackNat_nn_to (M E n : Nat) (h : NN (FM.unpackNat M E n)) :
    n / 2 ^ (M + E) = 0 ∨ (n / 2 ^ M % 2 ^ E = 0 ∧ n % 2 ^ M = 0) := by
  by_cases ht : n / 2 ^ (M + E) = 0
  · exact Or.inl ht
  · right
    unfold FM.unpackNat at h
    rw [signOf_ne ht] at h
    split at h
    · split at h <;> cases h
    · split at h
      · split at h
        · rename_i h1 h2; exact ⟨h1, h2⟩
        · cases h
      · cases h

/-! ### `unpack ∘ pack` keeps `+0 ≤ ·` -/

theorem repack_nn (spec : Format) (hE : 2 ≤ spec.exponentBits) (u : UnpackedFloat) (h : NN u) :
    NN (FMR.repack spec u) := by
  rcases FMR.nonneg_cases u h with ⟨s, rfl⟩ | ⟨m, e, hm, rfl⟩ | rfl
  · unfold FMR.repack; rw [FM.unpack_pack_zero hE]; exact nn_zero s
  · have hnan : (FMR.repack spec (.finite .positive m e hm)).isNaN = false := FMO.unpack_pack_isNaN spec _
    unfold FMR.repack at hnan ⊢
    rw [FM.unpack_eq_unpackNat] at hnan ⊢
    refine unpackNat_nn_of _ _ _ (by omega) hnan (Or.inl ?_)
    rw [FM.pack_finite]
    have key : ∀ (ef : BitVec spec.exponentBits) (fr : BitVec spec.mantissaBitsWithoutImplicit),
        (packComponents spec .positive ef fr).toNat /
          2 ^ (spec.mantissaBitsWithoutImplicit + spec.exponentBits) = 0 := by
      intro ef fr
      rw [FM.toNat_packComponents]
      exact (FM.fields_of_sum (t := 0) ef.isLt fr.isLt).2.2
    split
    · exact key _ _
    · split
      · exact key _ _
      · exact key _ _
  · unfold FMR.repack; rw [FM.unpack_pack_infinity]; exact nn_inf

theorem repack_isNaN (spec : Format) (u : UnpackedFloat) : (FMR.repack spec u).isNaN = u.isNaN :=
  FMO.unpack_pack_isNaN spec u

/-! ### rounding, multiplication, square root, subtraction on unpacked values -/

theorem rwa_pos_nn (spec : Format) (m : Nat) (e : Int) (acc : Accuracy) :
    NN (roundWithAccuracy spec .positive m e acc) := by
  unfold roundWithAccuracy
  simp only []
  split <;> rfl

theorem sign_mul_self (s : Sign) : s * s = .positive := by cases s <;> rfl

/-- a product `u · u` is a NaN exactly when `u` is, and otherwise `+0 ≤ u · u`. -/
theorem mul_self_isNaN (spec : Format) (u : UnpackedFloat) : (UnpackedFloat.mul spec u u).isNaN = u.isNaN := by
  rcases u with s | _ | s | ⟨s, m, e, hm⟩
  · rfl
  · rfl
  · rfl
  · simp only [UnpackedFloat.mul]; exact FMO.roundWithAccuracy_not_nan _ _ _ _ _

theorem mul_self_nn (spec : Format) (u : UnpackedFloat) (h : u.isNaN = false) : NN (UnpackedFloat.mul spec u u) := by
  rcases u with s | _ | s | ⟨s, m, e, hm⟩
  · show NN (.infinity (s * s)); rw [sign_mul_self]; exact nn_inf
  · cases h
  · exact nn_zero _
  · simp only [UnpackedFloat.mul]; rw [sign_mul_self]; exact rwa_pos_nn _ _ _ _

/-- `sqrt` keeps `+0 ≤ ·` (`sqrt(−0) = −0`, `sqrt(+∞) = +∞`). -/
theorem sqrt_nn (spec : Format) (u : UnpackedFloat) (h : NN u) : NN (UnpackedFloat.sqrt spec u) := by
  rcases FMR.nonneg_cases u h with ⟨s, rfl⟩ | ⟨m, e, hm, rfl⟩ | rfl
  · exact nn_zero s
  · simp only [UnpackedFloat.sqrt]; exact rwa_pos_nn _ _ _ _
  · exact nn_inf

theorem sqrt_nan (spec : Format) : UnpackedFloat.sqrt spec .notANumber = .notANumber := rfl

/-- the only other NaN results of `sqrt`: arguments `< 0` (not `−0`). -/
theorem sqrt_isNaN_iff (spec : Format) (u : UnpackedFloat) :
    (UnpackedFloat.sqrt spec u).isNaN = true ↔ ¬ NN u := by
  rcases u with s | _ | s | ⟨s, m, e, hm⟩
  · cases s <;> simp [UnpackedFloat.sqrt, UnpackedFloat.isNaN, NN, UnpackedFloat.le, UnpackedFloat.compare]
  · simp [UnpackedFloat.sqrt, UnpackedFloat.isNaN, NN, UnpackedFloat.le, UnpackedFloat.compare]
  · cases s <;> simp [UnpackedFloat.sqrt, UnpackedFloat.isNaN, NN, UnpackedFloat.le, UnpackedFloat.compare]
  · cases s
    · simp [UnpackedFloat.sqrt, UnpackedFloat.isNaN, NN, UnpackedFloat.le, UnpackedFloat.compare]
    · simp only [UnpackedFloat.sqrt]
      rw [FMO.roundWithAccuracy_not_nan]
      simp [NN, UnpackedFloat.le, UnpackedFloat.compare]

theorem round_not_nan (spec : Format) (s : Sign) (m : Nat) (e : Int) : (round spec s m e).isNaN = false := by
  simp only [round, decreaseExponent]
  exact FMO.roundWithAccuracy_not_nan _ _ _ _ _

theorem normalize_not_nan (spec : Format) (z e : Int) (zs : Sign) : (normalize spec z e zs).isNaN = false := by
  unfold normalize
  split
  · exact round_not_nan _ _ _ _
  · rfl
  · exact round_not_nan _ _ _ _

/-- the difference of two finite values (zeros included) is not a NaN (it may overflow to `±∞` when packed). -/
theorem sub_finite_not_nan (spec : Format) (a b : UnpackedFloat) (ha : a.isFinite = true) (hb : b.isFinite = true) :
    (UnpackedFloat.sub spec a b).isNaN = false := by
  rcases a with s | _ | s | ⟨s, m, e, hm⟩
  · cases ha
  · cases ha
  · rcases b with s' | _ | s' | ⟨s', m', e', hm'⟩
    · cases hb
    · cases hb
    · simp only [UnpackedFloat.sub]; split <;> rfl
    · rfl
  · rcases b with s' | _ | s' | ⟨s', m', e', hm'⟩
    · cases hb
    · cases hb
    · rfl
    · simp only [UnpackedFloat.sub]; exact normalize_not_nan _ _ _ _

theorem add_nan_left (spec : Format) (b : UnpackedFloat) : UnpackedFloat.add spec .notANumber b = .notANumber := rfl
theorem add_nan_right (spec : Format) (a : UnpackedFloat) : UnpackedFloat.add spec a .notANumber = .notANumber := by
  cases a <;> rfl
/-! ### Nat level: the bit-level conversions `upBits`, `downBits` -/

theorem inf64 : fmt64.infBits = 0x7FF0000000000000 := by decide
theorem nan64 : fmt64.nanBits = 0x7FF8000000000000 := by decide
theorem inf32 : fmt32.infBits = 0x7F800000 := by decide
theorem nan32 : fmt32.nanBits = 0x7FC00000 := by decide

theorem roundRat_le_inf (f : FloatFmt) (hp : 2 ≤ f.p) (he : 2 ≤ f.ebits) (num den : Nat) (hden : 0 < den) :
    roundRat f num den ≤ f.infBits := by
  by_cases hn : num = 0
  · subst hn; unfold roundRat; rw [if_pos rfl]; exact Nat.zero_le _
  · rcases FCL.roundRat_spec f hp he num den (by omega) hden with h | h | h <;> omega

theorem sub_mul_lt {m k : Nat} (hk : k ≤ 52) (h1 : 2 ^ k ≤ m) (h2 : m < 2 ^ (k + 1)) :
    (m - 2 ^ k) * 2 ^ (52 - k) < 2 ^ 52 := by
  have h3 : m - 2 ^ k < 2 ^ k := by rw [Nat.pow_succ] at h2; omega
  calc (m - 2 ^ k) * 2 ^ (52 - k) < 2 ^ k * 2 ^ (52 - k) := Nat.mul_lt_mul_of_pos_right h3 (Nat.pow_pos (by decide))
    _ = 2 ^ 52 := by rw [← Nat.pow_add]; congr 1; omega

/-- `upBits` on a binary32 pattern: a binary64 pattern with the same sign bit (unless a NaN: the result is then the
canonical NaN), zero iff zero, NaN iff NaN,
infinite iff infinite. -/
theorem upBits_spec (b : Nat) (hb : b < 2 ^ 32) :
    upBits b < 2 ^ 64 ∧ (b % 2 ^ 31 ≤ 0x7F800000 → upBits b / 2 ^ 63 = b / 2 ^ 31) ∧
    (upBits b % 2 ^ 63 = 0 ↔ b % 2 ^ 31 = 0) ∧
    (0x7FF0000000000000 < upBits b % 2 ^ 63 ↔ 0x7F800000 < b % 2 ^ 31) ∧
    (upBits b % 2 ^ 63 = 0x7FF0000000000000 ↔ b % 2 ^ 31 = 0x7F800000) := by
  unfold upBits
  simp only [inf64, nan64]
  split
  · split <;> (simp only [Nat.reducePow] at *; omega)
  · split
    · split
      · simp only [Nat.reducePow] at *; omega
      · rename_i h1 h2 hm
        have hm23 : b % 2 ^ 23 < 2 ^ 23 := Nat.mod_lt _ (by decide)
        have hk : (b % 2 ^ 23).log2 < 23 := (Nat.log2_lt hm).mpr hm23
        have hr := sub_mul_lt (m := b % 2 ^ 23) (k := (b % 2 ^ 23).log2) (by omega) (Nat.log2_self_le hm)
          Nat.lt_log2_self
        generalize (b % 2 ^ 23 - 2 ^ (b % 2 ^ 23).log2) * 2 ^ (52 - (b % 2 ^ 23).log2) = r at hr
        generalize (b % 2 ^ 23).log2 = k at hk
        simp only [Nat.reducePow] at *; omega
    · simp only [Nat.reducePow] at *; omega

/-- `downBits` on a binary64 pattern: a binary32 pattern with the same sign bit (unless a NaN), NaN iff NaN,
zero stays zero (a non-zero magnitude may round to zero or to infinity). -/
theorem downBits_spec (b : Nat) (hb : b < 2 ^ 64) :
    downBits b < 2 ^ 32 ∧ (b % 2 ^ 63 ≤ 0x7FF0000000000000 → downBits b / 2 ^ 31 = b / 2 ^ 63) ∧
    (b % 2 ^ 63 = 0 → downBits b % 2 ^ 31 = 0) ∧
    (0x7F800000 < downBits b % 2 ^ 31 ↔ 0x7FF0000000000000 < b % 2 ^ 63) := by
  unfold downBits
  simp only [inf64, inf32, nan32]
  split
  · simp only [Nat.reducePow] at *; omega
  · split
    · simp only [Nat.reducePow] at *; omega
    · split
      · simp only [Nat.reducePow] at *; omega
      · generalize decompose fmt64 (b % 2 ^ 63) = p
        obtain ⟨m, e⟩ := p
        simp only []
        split
        · have := roundRat_le_inf fmt32 (by decide) (by decide) (m * 2 ^ e.toNat) 1 (by decide)
          rw [inf32] at this
          generalize roundRat fmt32 (m * 2 ^ e.toNat) 1 = r at this
          simp only [Nat.reducePow] at *; omega
        · have := roundRat_le_inf fmt32 (by decide) (by decide) m (2 ^ (-e).toNat) (Nat.pow_pos (by decide))
          rw [inf32] at this
          generalize roundRat fmt32 m (2 ^ (-e).toNat) = r at this
          simp only [Nat.reducePow] at *; omega

/-! ### `Float` / `Float32`: the operations seen through `unpack` -/

theorem le_zero_float (x : Float) : Scalar.le (0 : Float) x = true ↔ NN x.toModel.unpack := by
  rw [FMO.le_float]; exact Iff.rfl

theorem le_zero_float32 (x : Float32) : Scalar.le (0 : Float32) x = true ↔ NN x.toModel.unpack := by
  rw [FMO.le_float32]; exact Iff.rfl

theorem float_ofBits_unpack (u : UInt64) :
    (Float.ofBits u).toModel.unpack = FMR.repack Format.binary64 (FM.unpackNat 52 11 u.toNat) := by
  show FMR.repack Format.binary64 (UnpackedFloat.unpack Format.binary64 u.toBitVec) = _
  rw [FM.unpack_eq_unpackNat]; rfl

theorem float32_ofBits_unpack (u : UInt32) :
    (Float32.ofBits u).toModel.unpack = FMR.repack Format.binary32 (FM.unpackNat 23 8 u.toNat) := by
  show FMR.repack Format.binary32 (UnpackedFloat.unpack Format.binary32 u.toBitVec) = _
  rw [FM.unpack_eq_unpackNat]; rfl

theorem float32_mul_unpack (a b : Float32) :
    (a * b).toModel.unpack =
      FMR.repack Format.binary32 (UnpackedFloat.mul Format.binary32 a.toModel.unpack b.toModel.unpack) := rfl

theorem float32_sub_unpack (a b : Float32) :
    (a - b).toModel.unpack =
      FMR.repack Format.binary32 (UnpackedFloat.sub Format.binary32 a.toModel.unpack b.toModel.unpack) := rfl

theorem float32_add_unpack (a b : Float32) :
    (a + b).toModel.unpack =
      FMR.repack Format.binary32 (UnpackedFloat.add Format.binary32 a.toModel.unpack b.toModel.unpack) := rfl

theorem float_sqrt_unpack (a : Float) :
    (Scalar.sqrt a : Float).toModel.unpack =
      FMR.repack Format.binary64 (UnpackedFloat.sqrt Format.binary64 a.toModel.unpack) := rfl

/-- pattern view of `+0 ≤ x` for a binary32 value. -/
theorem nn_pattern32 (x : Float32) (h : NN x.toModel.unpack) :
    x.toBits.toNat % 2 ^ 31 ≤ 0x7F800000 ∧ (x.toBits.toNat / 2 ^ 31 = 0 ∨ x.toBits.toNat % 2 ^ 31 = 0) := by
  refine ⟨FM.float32_not_nan_pattern x (nn_not_nan h), ?_⟩
  rw [FM.float32_unpack] at h
  have := unpackNat_nn_to _ _ _ h
  simp only [Nat.reducePow, Nat.reduceAdd] at *
  omega

theorem nn_pattern64 (x : Float) (h : NN x.toModel.unpack) :
    x.toBits.toNat % 2 ^ 63 ≤ 0x7FF0000000000000 ∧ (x.toBits.toNat / 2 ^ 63 = 0 ∨ x.toBits.toNat % 2 ^ 63 = 0) := by
  refine ⟨FM.float_not_nan_pattern x (nn_not_nan h), ?_⟩
  rw [FM.float_unpack] at h
  have := unpackNat_nn_to _ _ _ h
  simp only [Nat.reducePow, Nat.reduceAdd] at *
  omega

/-- `Float.ofBits` of a pattern: NaN iff the magnitude exceeds the infinity pattern. -/
theorem ofBits_isNaN64 (n : Nat) (hn : n < 2 ^ 64) :
    (Float.ofBits (UInt64.ofNat n)).isNaN = true ↔ 0x7FF0000000000000 < n % 2 ^ 63 := by
  show (Float.ofBits (UInt64.ofNat n)).toModel.unpack.isNaN = true ↔ _
  rw [float_ofBits_unpack, repack_isNaN, FM.unpackNat_isNaN, UInt64.toNat_ofNat', Nat.mod_eq_of_lt hn]
  simp only [Nat.reducePow, Nat.reduceSub] at *
  omega

theorem ofBits_isNaN32 (n : Nat) (hn : n < 2 ^ 32) :
    (Float32.ofBits (UInt32.ofNat n)).isNaN = true ↔ 0x7F800000 < n % 2 ^ 31 := by
  show (Float32.ofBits (UInt32.ofNat n)).toModel.unpack.isNaN = true ↔ _
  rw [float32_ofBits_unpack, repack_isNaN, FM.unpackNat_isNaN, UInt32.toNat_ofNat', Nat.mod_eq_of_lt hn]
  simp only [Nat.reducePow, Nat.reduceSub] at *
  omega

/-- `Float.ofBits` of a non-NaN pattern with clear sign bit, or of a zero pattern, is `≥ +0`. -/
theorem ofBits_nn64 (n : Nat) (hn : n < 2 ^ 64) (h1 : n % 2 ^ 63 ≤ 0x7FF0000000000000)
    (h2 : n / 2 ^ 63 = 0 ∨ n % 2 ^ 63 = 0) : NN (Float.ofBits (UInt64.ofNat n)).toModel.unpack := by
  rw [float_ofBits_unpack, UInt64.toNat_ofNat', Nat.mod_eq_of_lt hn]
  refine repack_nn _ (by decide) _ (unpackNat_nn_of _ _ _ (by decide) ?_ ?_)
  · cases hc : (FM.unpackNat 52 11 n).isNaN
    · rfl
    · have := (FM.unpackNat_isNaN _ _ _).mp hc
      simp only [Nat.reducePow, Nat.reduceSub] at *
      omega
  · simp only [Nat.reducePow, Nat.reduceAdd] at *
    omega

theorem ofBits_nn32 (n : Nat) (hn : n < 2 ^ 32) (h1 : n % 2 ^ 31 ≤ 0x7F800000)
    (h2 : n / 2 ^ 31 = 0 ∨ n % 2 ^ 31 = 0) : NN (Float32.ofBits (UInt32.ofNat n)).toModel.unpack := by
  rw [float32_ofBits_unpack, UInt32.toNat_ofNat', Nat.mod_eq_of_lt hn]
  refine repack_nn _ (by decide) _ (unpackNat_nn_of _ _ _ (by decide) ?_ ?_)
  · cases hc : (FM.unpackNat 23 8 n).isNaN
    · rfl
    · have := (FM.unpackNat_isNaN _ _ _).mp hc
      simp only [Nat.reducePow, Nat.reduceSub] at *
      omega
  · simp only [Nat.reducePow, Nat.reduceAdd] at *
    omega

/-! ### the conversions of the driver's `Cvt Float32 Float` instance -/

theorem up_eq (x : Float32) : (Cvt.up x : Float) = Float.ofBits (UInt64.ofNat (upBits x.toBits.toNat)) := rfl
theorem down_eq (y : Float) : (Cvt.down y : Float32) = Float32.ofBits (UInt32.ofNat (downBits y.toBits.toNat)) := rfl

theorem bool_eq_of_iff {a b : Bool} (h : a = true ↔ b = true) : a = b := by
  cases a <;> cases b <;> simp_all

/-- **`f64::from(x)` is a NaN exactly when `x` is.** -/
theorem up_isNaN (x : Float32) : Scalar.isNaN (Cvt.up x : Float) = Scalar.isNaN x := by
  apply bool_eq_of_iff
  have hb := x.toBits.toNat_lt
  obtain ⟨h1, _, _, h4, _⟩ := upBits_spec _ hb
  show (Cvt.up x : Float).isNaN = true ↔ x.isNaN = true
  rw [up_eq, ofBits_isNaN64 _ h1, h4]
  constructor
  · intro h
    cases hc : x.isNaN
    · have := FM.float32_not_nan_pattern x hc; omega
    · rfl
  · exact FM.float32_isNaN_of_pattern x

/-- **`0 ≤ x → 0 ≤ f64::from(x)`** (both zeros, positive values, `+∞`). -/
theorem up_nonneg (x : Float32) (h : Scalar.le (0 : Float32) x = true) : Scalar.le (0 : Float) (Cvt.up x) = true := by
  rw [le_zero_float32] at h
  rw [le_zero_float, up_eq]
  have hb := x.toBits.toNat_lt
  obtain ⟨h1, h2, h3, h4, _⟩ := upBits_spec _ hb
  obtain ⟨p1, p2⟩ := nn_pattern32 x h
  refine ofBits_nn64 _ h1 (by omega) ?_
  rw [h2 p1]
  rcases p2 with p | p
  · exact Or.inl p
  · exact Or.inr (h3.mpr p)

/-- **`x as f32` is a NaN exactly when `x` is.** -/
theorem down_isNaN (y : Float) : Scalar.isNaN (Cvt.down y : Float32) = Scalar.isNaN y := by
  apply bool_eq_of_iff
  have hb := y.toBits.toNat_lt
  obtain ⟨h1, _, _, h4⟩ := downBits_spec _ hb
  show (Cvt.down y : Float32).isNaN = true ↔ y.isNaN = true
  rw [down_eq, ofBits_isNaN32 _ h1, h4]
  constructor
  · intro h
    cases hc : y.isNaN
    · have := FM.float_not_nan_pattern y hc; omega
    · rfl
  · exact FM.float_isNaN_of_pattern y

/-- **`0 ≤ y → 0 ≤ y as f32`** (the magnitude may round to zero or overflow to `+∞`; the sign stays). -/
theorem down_nonneg (y : Float) (h : Scalar.le (0 : Float) y = true) :
    Scalar.le (0 : Float32) (Cvt.down y) = true := by
  rw [le_zero_float] at h
  rw [le_zero_float32, down_eq]
  have hb := y.toBits.toNat_lt
  obtain ⟨h1, h2, h3, h4⟩ := downBits_spec _ hb
  obtain ⟨p1, p2⟩ := nn_pattern64 y h
  refine ofBits_nn32 _ h1 (by omega) ?_
  rw [h2 p1]
  rcases p2 with p | p
  · exact Or.inl p
  · exact Or.inr (h3 p)

/-! ### squares, sums, square roots, differences of `Float32` / `Float` values -/

/-- `x * x` is a NaN exactly when `x` is (`∞ · ∞ = +∞`; an overflowing square is `+∞`). -/
theorem mul_self_isNaN_float32 (x : Float32) : Scalar.isNaN (x * x) = Scalar.isNaN x := by
  show (x * x).toModel.unpack.isNaN = x.toModel.unpack.isNaN
  rw [float32_mul_unpack, repack_isNaN, mul_self_isNaN]

theorem mul_self_nonneg_of_not_nan_float32 (x : Float32) (h : Scalar.isNaN x = false) :
    Scalar.le (0 : Float32) (x * x) = true := by
  rw [le_zero_float32, float32_mul_unpack]
  exact repack_nn _ (by decide) _ (mul_self_nn _ _ h)

/-- **a square is a NaN or `≥ 0`.** -/
theorem mul_self_nonneg_float32 (x : Float32) :
    Scalar.isNaN (x * x) = true ∨ Scalar.le (0 : Float32) (x * x) = true := by
  cases h : Scalar.isNaN x
  · exact Or.inr (mul_self_nonneg_of_not_nan_float32 x h)
  · exact Or.inl (by rw [mul_self_isNaN_float32, h])

theorem add_isNaN_left_float32 (a b : Float32) (h : Scalar.isNaN a = true) : Scalar.isNaN (a + b) = true := by
  show (a + b).toModel.unpack.isNaN = true
  rw [float32_add_unpack, repack_isNaN, FMR.eq_nan_of_isNaN _ h]; rfl

theorem add_isNaN_right_float32 (a b : Float32) (h : Scalar.isNaN b = true) : Scalar.isNaN (a + b) = true := by
  show (a + b).toModel.unpack.isNaN = true
  rw [float32_add_unpack, repack_isNaN, FMR.eq_nan_of_isNaN _ h, add_nan_right]; rfl

theorem float_add_unpack (a b : Float) :
    (a + b).toModel.unpack =
      FMR.repack Format.binary64 (UnpackedFloat.add Format.binary64 a.toModel.unpack b.toModel.unpack) := rfl

theorem add_isNaN_left_float (a b : Float) (h : Scalar.isNaN a = true) : Scalar.isNaN (a + b) = true := by
  show (a + b).toModel.unpack.isNaN = true
  rw [float_add_unpack, repack_isNaN, FMR.eq_nan_of_isNaN _ h]; rfl

theorem add_isNaN_right_float (a b : Float) (h : Scalar.isNaN b = true) : Scalar.isNaN (a + b) = true := by
  show (a + b).toModel.unpack.isNaN = true
  rw [float_add_unpack, repack_isNaN, FMR.eq_nan_of_isNaN _ h, add_nan_right]; rfl

/-- **`0 ≤ y → 0 ≤ sqrt y`** in binary64 (`sqrt(−0) = −0`, which is `≥ 0` in the IEEE order). -/
theorem sqrt_nonneg_float (y : Float) (h : Scalar.le (0 : Float) y = true) :
    Scalar.le (0 : Float) (Scalar.sqrt y) = true := by
  rw [le_zero_float] at h
  rw [le_zero_float, float_sqrt_unpack]
  exact repack_nn _ (by decide) _ (sqrt_nn _ _ h)

/-- `sqrt y` is a NaN exactly when `0 ≤ y` fails (NaN, negative non-zero, `−∞`). -/
theorem sqrt_isNaN_iff_float (y : Float) :
    Scalar.isNaN (Scalar.sqrt y : Float) = true ↔ Scalar.le (0 : Float) y = false := by
  show (Scalar.sqrt y : Float).toModel.unpack.isNaN = true ↔ _
  rw [float_sqrt_unpack, repack_isNaN, sqrt_isNaN_iff, ← le_zero_float]
  cases Scalar.le (0 : Float) y <;> simp

theorem sqrt_isNaN_float (y : Float) (h : Scalar.isNaN y = true) : Scalar.isNaN (Scalar.sqrt y : Float) = true := by
  rw [sqrt_isNaN_iff_float]
  cases hc : Scalar.le (0 : Float) y
  · rfl
  · have := nn_not_nan ((le_zero_float y).mp hc)
    have h' : y.toModel.unpack.isNaN = true := h
    rw [this] at h'; cases h'

/-- the difference of two finite `f32` values is not a NaN (it may be `±∞`). -/
theorem sub_not_nan_float32 (a b : Float32) (ha : a.toModel.unpack.isFinite = true)
    (hb : b.toModel.unpack.isFinite = true) : Scalar.isNaN (a - b) = false := by
  show (a - b).toModel.unpack.isNaN = false
  rw [float32_sub_unpack, repack_isNaN]
  exact sub_finite_not_nan _ _ _ ha hb

/-! ### non-vacuity / sharpness (closed instances evaluated by the kernel) -/

/-- the sign bit of a NaN is *not* kept by `upBits` / `downBits` (canonical NaN). -/
example : upBits 0xFFC00000 = 0x7FF8000000000000 ∧ downBits 0xFFF8000000000000 = 0x7FC00000 := by decide +kernel
/-- `−0` is `≥ 0` and stays `−0` through both conversions and `sqrt`. -/
example : Scalar.le (0 : Float32) (Float32.ofBits 0x80000000) = true ∧
    (Cvt.up (Float32.ofBits 0x80000000) : Float).toBits = 0x8000000000000000 ∧
    (Scalar.sqrt (Float.ofBits 0x8000000000000000) : Float).toBits = 0x8000000000000000 ∧
    (Cvt.down (Float.ofBits 0x8000000000000000) : Float32).toBits = 0x80000000 := by decide +kernel
/-- a positive double below half the least `f32` subnormal rounds to `+0`, one above `f32::MAX` to `+∞`. -/
example : (Cvt.down (Float.ofBits 0x3680000000000000) : Float32).toBits = 0 ∧
    (Cvt.down (Float.ofBits 0x47F0000000000000) : Float32).toBits = 0x7F800000 := by decide +kernel
/-- an overflowing square is `+∞`, the square of `−∞` is `+∞`, `sqrt` of a negative number is a NaN. -/
example : ((Float32.ofBits 0x7F7FFFFF) * (Float32.ofBits 0x7F7FFFFF)).toBits = 0x7F800000 ∧
    ((Float32.ofBits 0xFF800000) * (Float32.ofBits 0xFF800000)).toBits = 0x7F800000 ∧
    (Scalar.sqrt (-1 : Float) : Float).isNaN = true := by decide +kernel

end Rosu.FB
