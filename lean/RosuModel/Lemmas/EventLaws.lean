/-
  Lemmas/EventLaws.lean — the arithmetic facts the law-dependent theorems of C20 use, as an explicit
  hypothesis (DESIGN.md 3.3), and the exact instance `Scalar Rat` showing they are satisfiable.
  They are *false* for IEEE f64 (`add_mul` by rounding, `lt_of_not_le` by NaN): theorems taking
  `OrderedFieldLaws F` speak about exact arithmetic only.
-/
import RosuModel.Model.Scalar
namespace Rosu.C20
open Rosu

/-- exactly the ordered-field facts used by Props/C20.lean, part 2. -/
structure OrderedFieldLaws (F : Type) [Scalar F] : Prop where
  one_mul : ∀ a : F, (1 : F) * a = a
  add_mul : ∀ a b c : F, (a + b) * c = a * c + b * c
  add_assoc : ∀ a b c : F, (a + b) + c = a + (b + c)
  ofInt_succ : ∀ n : Int, (Scalar.ofInt (n + 1) : F) = Scalar.ofInt n + 1
  ofNat_succ : ∀ n : Nat, (Scalar.ofNat (n + 1) : F) = Scalar.ofNat n + 1
  not_le_of_lt : ∀ a b : F, Scalar.lt a b = true → Scalar.le b a = false
  lt_of_not_le : ∀ a b : F, Scalar.le b a = false → Scalar.lt a b = true
  lt_trans : ∀ a b c : F, Scalar.lt a b = true → Scalar.lt b c = true → Scalar.lt a c = true
  lt_add_pos : ∀ d t : F, Scalar.lt 0 t = true → Scalar.lt d (d + t) = true
  div_lt_div_right : ∀ a b c : F, Scalar.lt 0 c = true → Scalar.lt a b = true → Scalar.lt (a / c) (b / c) = true
  mul_lt_mul_right : ∀ a b c : F, Scalar.lt 0 c = true → Scalar.lt a b = true → Scalar.lt (a * c) (b * c) = true
  add_lt_add_left : ∀ a b c : F, Scalar.lt a b = true → Scalar.lt (c + a) (c + b) = true
  sub_lt_sub_left : ∀ a b c : F, Scalar.lt a b = true → Scalar.lt (c - b) (c - a) = true

/-- exact rational arithmetic as a `Scalar` (order and field operations are the real ones; `sqrt`, the
casts and the text codec are placeholders — nothing in C20 uses them). Not a global instance. -/
@[reducible] def ratScalar : Scalar Rat where
  ofNat n := (n : Rat)
  ofSci m s e := OfScientific.ofScientific m s e
  lt a b := decide (a < b)
  le a b := decide (a ≤ b)
  eq a b := decide (a = b)
  isNaN _ := false
  abs x := if x < 0 then -x else x
  sqrt x := x
  ceil x := (x.ceil : Rat)
  eps := 0
  ofInt n := (n : Rat)
  toI32 x := x.floor
  toUsize x := x.floor.toNat
  totalKey x := x.floor
  parse _ := none
  print _ := []

attribute [local instance] ratScalar

theorem rat_ofNat (n : Nat) : (Scalar.ofNat n : Rat) = (n : Rat) := rfl
theorem rat_lt (a b : Rat) : (Scalar.lt a b = true) = (a < b) := by
  show (decide (a < b) = true) = (a < b); simp
theorem rat_le_false (a b : Rat) : (Scalar.le a b = false) = ¬ (a ≤ b) := by
  show (decide (a ≤ b) = false) = ¬ (a ≤ b); simp

/-- the laws are satisfiable: exact rational arithmetic has them. -/
theorem rat_laws : OrderedFieldLaws Rat where
  one_mul a := by show (((1 : Nat) : Rat)) * a = a; grind
  add_mul a b c := by grind
  add_assoc a b c := by grind
  ofInt_succ n := by show ((n + 1 : Int) : Rat) = (n : Rat) + ((1 : Nat) : Rat); grind
  ofNat_succ n := by show ((n + 1 : Nat) : Rat) = (n : Rat) + ((1 : Nat) : Rat); grind
  not_le_of_lt a b := by rw [rat_lt, rat_le_false]; grind
  lt_of_not_le a b := by rw [rat_lt, rat_le_false]; grind
  lt_trans a b c := by simp only [rat_lt]; grind
  lt_add_pos d t := by
    simp only [rat_lt]; show ((0 : Nat) : Rat) < t → d < d + t; grind
  div_lt_div_right a b c := by
    simp only [rat_lt]; show ((0 : Nat) : Rat) < c → a < b → a / c < b / c
    intro hc h
    rw [Rat.div_def, Rat.div_def]
    exact Rat.mul_lt_mul_of_pos_right h (Rat.inv_pos.mpr (by grind))
  mul_lt_mul_right a b c := by
    simp only [rat_lt]; show ((0 : Nat) : Rat) < c → a < b → a * c < b * c
    intro hc h
    exact Rat.mul_lt_mul_of_pos_right h (by grind)
  add_lt_add_left a b c := by simp only [rat_lt]; grind
  sub_lt_sub_left a b c := by simp only [rat_lt]; grind

end Rosu.C20
