/-
  Lemmas/DecodedInvSections.lean — the `Decoded` invariant of DESIGN 5.4 for the six record sections: per section a
  predicate on the decoder state that holds of the initial state and is preserved by ONE call of that section's line
  parser on ANY line feed free line (accepted or rejected).

  No codec law is used. The only hypotheses are `ConstFacts`: closed facts about the handful of float constants the
  decoder itself writes into the state (defaults `1`, `1.4`, `5`, `0.7`, clamp bounds `0.4 3.6 0.5 8`): they are within
  the parse limit, `<` is irreflexive on them and `0.4 < 3.6`, `0.5 < 8` are not reversed. These hold of IEEE floats by
  evaluation (Lean's `Float` is opaque to the kernel, so they stay hypotheses) and of the toy scalar by `decide`.
-/
import RosuModel.Lemmas.DecodedInvText
import RosuModel.Lemmas.RtFile
namespace Rosu
namespace DecodedInv
open Rosu EncodeLines Scalar

variable {F P : Type} [Scalar F] [Scalar P]

/-! ### the constants the decoder writes itself -/

/-- closed facts about the decoder's own float constants (no quantifier over values). -/
structure ConstFacts (F P : Type) [Scalar F] [Scalar P] : Prop where
  one : InLimit (1 : F)
  sm0 : InLimit (1.4 : F)
  smLo : InLimit (0.4 : F)
  smHi : InLimit (3.6 : F)
  trLo : InLimit (0.5 : F)
  trHi : InLimit (8 : F)
  smOrd : lt (0.4 : F) (0.4 : F) = false ∧ lt (3.6 : F) (0.4 : F) = false ∧ lt (3.6 : F) (3.6 : F) = false
  trOrd : lt (0.5 : F) (0.5 : F) = false ∧ lt (8 : F) (0.5 : F) = false ∧ lt (8 : F) (8 : F) = false
  smDef : lt (1.4 : F) (0.4 : F) = false ∧ lt (3.6 : F) (1.4 : F) = false
  trDef : lt (1 : F) (0.5 : F) = false ∧ lt (8 : F) (1 : F) = false
  zero : (0 : F) = Scalar.ofInt 0
  five : InLimit (5 : P)
  sl0 : InLimit (0.7 : P)

/-- the facts hold of the toy scalar (`0.4 = 0`, `3.6 = 3`, `1.4 = 1`, `0.5 = 0`, `0.7 = 0`). -/
theorem ZC.constFacts : ConstFacts ZC ZC :=
  ⟨by decide, by decide, by decide, by decide, by decide, by decide, by decide, by decide, by decide, by decide, rfl,
   by decide, by decide⟩

/-- what `clamp` guarantees, from three order facts about the two bounds only. -/
theorem clamp_inv (x lo hi : F) (hx : InLimit x) (hlo : InLimit lo) (hhi : InLimit hi)
    (o : lt lo lo = false ∧ lt hi lo = false ∧ lt hi hi = false) :
    InLimit (clamp x lo hi) ∧ lt (clamp x lo hi) lo = false ∧ lt hi (clamp x lo hi) = false := by
  by_cases h1 : lt x lo = true
  · have e : clamp x lo hi = lo := by unfold clamp; simp [h1, o.2.1]
    rw [e]; exact ⟨hlo, o.1, o.2.1⟩
  · have h1' : lt x lo = false := by simpa using h1
    by_cases h2 : lt hi x = true
    · have e : clamp x lo hi = hi := by unfold clamp; simp [h1', h2]
      rw [e]; exact ⟨hhi, o.2.1, o.2.2⟩
    · have h2' : lt hi x = false := by simpa using h2
      have e : clamp x lo hi = x := by unfold clamp; simp [h1', h2']
      rw [e]; exact ⟨hx, h1', h2'⟩

/-! ### [Metadata] — the invariant is `RepMetadata` itself -/

theorem metadata_create : RtMetadata.RepMetadata Metadata.default := by
  refine ⟨?_, ?_, ?_, ?_, ?_, ?_, ?_, ?_, ?_, ?_⟩ <;> first | decide | (constructor <;> decide)

/-- **one `parse_metadata` call keeps every text trimmed and LF-free and both ids within the limit**, whatever the
line (accepted or rejected), as long as the line itself has no line feed. -/
theorem inv_parseMetadata (st : Metadata) (line : Str) (hl : '\n' ∉ line) (h : RtMetadata.RepMetadata st) :
    RtMetadata.RepMetadata (parseMetadata st line).1 := by
  obtain ⟨h1, h2, h3, h4, h5, h6, h7, h8, h9, h10⟩ := h
  have kv := kvSplit_facts line
  have hv : RtMetadata.RepText (kvSplit line).2 := ⟨kv.2.1, not_mem_of_infix kv.2.2.2.1 hl⟩
  unfold parseMetadata
  generalize kvSplit line = p at hv
  obtain ⟨k, v⟩ := p
  simp only [] at hv ⊢
  split
  · exact ⟨h1, h2, h3, h4, h5, h6, h7, h8, h9, h10⟩
  · exact ⟨hv, h2, h3, h4, h5, h6, h7, h8, h9, h10⟩
  · exact ⟨h1, hv, h3, h4, h5, h6, h7, h8, h9, h10⟩
  · exact ⟨h1, h2, hv, h4, h5, h6, h7, h8, h9, h10⟩
  · exact ⟨h1, h2, h3, hv, h5, h6, h7, h8, h9, h10⟩
  · exact ⟨h1, h2, h3, h4, hv, h6, h7, h8, h9, h10⟩
  · exact ⟨h1, h2, h3, h4, h5, hv, h7, h8, h9, h10⟩
  · exact ⟨h1, h2, h3, h4, h5, h6, hv, h8, h9, h10⟩
  · exact ⟨h1, h2, h3, h4, h5, h6, h7, hv, h9, h10⟩
  · split
    · rename_i n hn
      exact ⟨h1, h2, h3, h4, h5, h6, h7, h8, (i32Parse_range hn).2, h10⟩
    · exact ⟨h1, h2, h3, h4, h5, h6, h7, h8, h9, h10⟩
  · split
    · rename_i n hn
      exact ⟨h1, h2, h3, h4, h5, h6, h7, h8, h9, (i32Parse_range hn).2⟩
    · exact ⟨h1, h2, h3, h4, h5, h6, h7, h8, h9, h10⟩

/-! ### [Colours] — the invariant is `RepColors` itself -/

theorem colors_create : RtColours.RepColors Colors.default :=
  ⟨fun _ h => absurd h List.not_mem_nil, fun _ h => absurd h List.not_mem_nil, List.nodup_nil⟩

theorem colorParse_rep {s : Str} {c : Color} (h : Color.parse s = some c) : RtColours.RepColor c := by
  unfold Color.parse at h
  split at h
  · split at h
    · rename_i r g b _ r' g' b' hr hg hb
      injection h with h; subst h
      exact ⟨u8FromStr_le hr, u8FromStr_le hg, u8FromStr_le hb⟩
    · cases h
  · split at h
    · rename_i r g b _ _ r' g' b' hr hg hb
      injection h with h; subst h
      exact ⟨u8FromStr_le hr, u8FromStr_le hg, u8FromStr_le hb⟩
    · cases h
  · cases h

theorem setCustomColor_mem {name : Str} {c : Color} {xs : List CustomColor} {x : CustomColor}
    (h : x ∈ setCustomColor name c xs) : (∃ y ∈ xs, x.name = y.name ∧ (x = y ∨ x.color = c)) ∨ x = ⟨name, c⟩ := by
  induction xs with
  | nil =>
    simp only [setCustomColor, List.mem_singleton] at h
    exact Or.inr h
  | cons y ys ih =>
    rw [setCustomColor] at h
    split at h
    · rcases List.mem_cons.mp h with h | h
      · exact Or.inl ⟨y, List.mem_cons_self, by rw [h], Or.inr (by rw [h])⟩
      · exact Or.inl ⟨x, List.mem_cons_of_mem _ h, rfl, Or.inl rfl⟩
    · rcases List.mem_cons.mp h with h | h
      · exact Or.inl ⟨y, List.mem_cons_self, by rw [h], Or.inl h⟩
      · rcases ih h with ⟨z, hz, e⟩ | e
        · exact Or.inl ⟨z, List.mem_cons_of_mem _ hz, e⟩
        · exact Or.inr e

/-- **one `parse_colors` call keeps the colours representable**: byte-sized components; custom names that are their own
trim, without `:`, line feed or `//` (the section strips comments before it splits), not starting with `Combo`;
pairwise distinct names (C11.custom_names_nodup). -/
theorem inv_parseColors (st : Colors) (line : Str) (hl : '\n' ∉ line) (h : RtColours.RepColors st) :
    RtColours.RepColors (parseColors st line).1 := by
  refine ⟨?_, ?_, C11.custom_names_nodup st line h.distinct⟩
  · -- combo colours
    unfold parseColors
    generalize kvSplit (trimComment line) = p
    obtain ⟨k, v⟩ := p
    simp only []
    split
    · exact h.combos
    · rename_i c hc
      split
      · intro x hx
        rcases List.mem_append.mp hx with hx | hx
        · exact h.combos x hx
        · rw [List.mem_singleton.mp hx]; exact colorParse_rep hc
      · exact h.combos
  · -- custom colours
    have kv := kvSplit_facts (trimComment line)
    have hk1 : trim (kvSplit (trimComment line)).1 = (kvSplit (trimComment line)).1 := kv.1
    have hk2 : ':' ∉ (kvSplit (trimComment line)).1 := kv.2.2.2.2
    have hk3 : '\n' ∉ (kvSplit (trimComment line)).1 := not_mem_of_infix kv.2.2.1 (not_mem_trimComment hl)
    have hk4 : hasDS (kvSplit (trimComment line)).1 = false := hasDS_of_infix kv.2.2.1 (hasDS_trimComment line)
    unfold parseColors
    generalize kvSplit (trimComment line) = p at hk1 hk2 hk3 hk4
    obtain ⟨k, v⟩ := p
    simp only [] at hk1 hk2 hk3 hk4 ⊢
    split
    · exact h.customs
    · rename_i c hc
      split
      · exact h.customs
      · rename_i hnc
        have hnc' : startsWith k (str "Combo") = false := by simpa using hnc
        intro x hx
        rcases setCustomColor_mem hx with ⟨y, hy, hn, e | e⟩ | e
        · rw [e]; exact h.customs y hy
        · have hy' := h.customs y hy
          exact ⟨by rw [hn]; exact hy'.trimmed, by rw [hn]; exact hy'.noColon, by rw [hn]; exact hy'.noLf,
            by rw [hn]; exact hy'.noDS, by rw [hn]; exact hy'.notCombo, by rw [e]; exact colorParse_rep hc⟩
        · rw [e]
          exact ⟨hk1, hk2, hk3, hk4, hnc', colorParse_rep hc⟩

/-- every stored colour has alpha 255 (the decoder ignores the alpha field), so on a decoded record the preserved view
`RtColours.preservedColors` is the identity. -/
def ColorsOpaque (c : Colors) : Prop :=
  (∀ x ∈ c.customComboColors, x.a = 255) ∧ (∀ x ∈ c.customColors, x.color.a = 255)

theorem opaque_create : ColorsOpaque Colors.default :=
  ⟨fun _ h => absurd h List.not_mem_nil, fun _ h => absurd h List.not_mem_nil⟩

theorem opaque_parseColors (st : Colors) (line : Str) (h : ColorsOpaque st) : ColorsOpaque (parseColors st line).1 := by
  unfold parseColors
  generalize kvSplit (trimComment line) = p
  obtain ⟨k, v⟩ := p
  simp only []
  split
  · exact h
  · rename_i c hc
    have ha := C11.color_alpha_ignored _ _ hc
    split
    · refine ⟨?_, h.2⟩
      intro x hx
      rcases List.mem_append.mp hx with hx | hx
      · exact h.1 x hx
      · rw [List.mem_singleton.mp hx]; exact ha
    · refine ⟨h.1, ?_⟩
      intro x hx
      rcases setCustomColor_mem hx with ⟨y, hy, _, e | e⟩ | e
      · rw [e]; exact h.2 y hy
      · rw [e]; exact ha
      · rw [e]; exact ha

theorem preservedColors_of_opaque (c : Colors) (h : ColorsOpaque c) : RtColours.preservedColors c = c :=
  RtColours.preservedColors_of_opaque c h.1 h.2

/-! ### [Editor] -/

/-- what the decoder guarantees of an editor record (no law): bookmarks are `i32` values, beat divisor and grid size are
within the parse limit, both floats are within the limit and not NaN. -/
structure DecInvEditor (e : Editor F) : Prop where
  bookmarks : ∀ b ∈ e.bookmarks, i32Min ≤ b ∧ b ≤ i32Max
  distanceSpacing : InLimit e.distanceSpacing
  beatDivisor : -i32Max ≤ e.beatDivisor ∧ e.beatDivisor ≤ i32Max
  gridSize : -i32Max ≤ e.gridSize ∧ e.gridSize ≤ i32Max
  timelineZoom : InLimit e.timelineZoom

theorem editor_create (C : ConstFacts F P) : DecInvEditor (Editor.default : Editor F) :=
  ⟨fun _ h => absurd h List.not_mem_nil, C.one, (by decide : -i32Max ≤ (4 : Int) ∧ (4 : Int) ≤ i32Max),
   (by decide : -i32Max ≤ (0 : Int) ∧ (0 : Int) ≤ i32Max), C.one⟩

theorem inv_parseEditor (st : Editor F) (line : Str) (h : DecInvEditor st) : DecInvEditor (parseEditor st line).1 := by
  obtain ⟨h1, h2, h3, h4, h5⟩ := h
  unfold parseEditor
  generalize kvSplit (trimComment line) = p
  obtain ⟨k, v⟩ := p
  simp only []
  split
  · exact ⟨h1, h2, h3, h4, h5⟩
  · refine ⟨?_, h2, h3, h4, h5⟩
    intro b hb
    obtain ⟨s, _, hs⟩ := List.mem_filterMap.mp hb
    exact i32FromStr_range hs
  · split
    · rename_i x hx; exact ⟨h1, floatParse_inLimit hx, h3, h4, h5⟩
    · exact ⟨h1, h2, h3, h4, h5⟩
  · split
    · rename_i n hn; exact ⟨h1, h2, i32Parse_range hn, h4, h5⟩
    · exact ⟨h1, h2, h3, h4, h5⟩
  · split
    · rename_i n hn; exact ⟨h1, h2, h3, i32Parse_range hn, h5⟩
    · exact ⟨h1, h2, h3, h4, h5⟩
  · split
    · rename_i x hx; exact ⟨h1, h2, h3, h4, floatParse_inLimit hx⟩
    · exact ⟨h1, h2, h3, h4, h5⟩

/-! ### [Difficulty] -/

/-- what the decoder guarantees of a difficulty record (no law): six values within the limit and not NaN; the slider
multiplier and the tick rate inside their clamp intervals as `f64::clamp` tests them. -/
structure DecInvDifficulty (d : Difficulty F P) : Prop where
  hp : InLimit d.hpDrainRate
  cs : InLimit d.circleSize
  od : InLimit d.overallDifficulty
  ar : InLimit d.approachRate
  sm : InLimit d.sliderMultiplier
  smIn : lt d.sliderMultiplier (0.4 : F) = false ∧ lt (3.6 : F) d.sliderMultiplier = false
  tr : InLimit d.sliderTickRate
  trIn : lt d.sliderTickRate (0.5 : F) = false ∧ lt (8 : F) d.sliderTickRate = false

theorem difficulty_create (C : ConstFacts F P) : DecInvDifficulty (DifficultyState.create : DifficultyState F P).difficulty :=
  ⟨C.five, C.five, C.five, C.five, C.sm0, C.smDef, C.one, C.trDef⟩

theorem inv_parseDifficulty (C : ConstFacts F P) (st : DifficultyState F P) (line : Str) (h : DecInvDifficulty st.difficulty) :
    DecInvDifficulty (parseDifficulty st line).1.difficulty := by
  obtain ⟨h1, h2, h3, h4, h5, h6, h7, h8⟩ := h
  unfold parseDifficulty
  generalize kvSplit (trimComment line) = p
  obtain ⟨k, v⟩ := p
  simp only []
  split
  · exact ⟨h1, h2, h3, h4, h5, h6, h7, h8⟩
  · split
    · rename_i x hx; exact ⟨floatParse_inLimit hx, h2, h3, h4, h5, h6, h7, h8⟩
    · exact ⟨h1, h2, h3, h4, h5, h6, h7, h8⟩
  · split
    · rename_i x hx; exact ⟨h1, floatParse_inLimit hx, h3, h4, h5, h6, h7, h8⟩
    · exact ⟨h1, h2, h3, h4, h5, h6, h7, h8⟩
  · split
    · rename_i x hx
      simp only []
      split
      · exact ⟨h1, h2, floatParse_inLimit hx, floatParse_inLimit hx, h5, h6, h7, h8⟩
      · exact ⟨h1, h2, floatParse_inLimit hx, h4, h5, h6, h7, h8⟩
    · exact ⟨h1, h2, h3, h4, h5, h6, h7, h8⟩
  · split
    · rename_i x hx; exact ⟨h1, h2, h3, floatParse_inLimit hx, h5, h6, h7, h8⟩
    · exact ⟨h1, h2, h3, h4, h5, h6, h7, h8⟩
  · split
    · rename_i x hx
      have := clamp_inv x (0.4 : F) (3.6 : F) (floatParse_inLimit hx) C.smLo C.smHi C.smOrd
      exact ⟨h1, h2, h3, h4, this.1, this.2, h7, h8⟩
    · exact ⟨h1, h2, h3, h4, h5, h6, h7, h8⟩
  · split
    · rename_i x hx
      have := clamp_inv x (0.5 : F) (8 : F) (floatParse_inLimit hx) C.trLo C.trHi C.trOrd
      exact ⟨h1, h2, h3, h4, h5, h6, this.1, this.2⟩
    · exact ⟨h1, h2, h3, h4, h5, h6, h7, h8⟩

/-! ### [General] -/

/-- what the decoder guarantees of a general record (no law). The audio file name is its own trim, has no line feed and
no backslash — but it MAY contain `//` (two consecutive path separators after standardisation: finding F16). -/
structure DecInvGeneral (g : GeneralState F P) : Prop where
  audioTrimmed : trim g.audioFile = g.audioFile
  audioNoLf : '\n' ∉ g.audioFile
  audioNoBackslash : '\\' ∉ g.audioFile
  audioLeadIn : ∃ n : Int, -i32Max ≤ n ∧ n ≤ i32Max ∧ g.audioLeadIn = Scalar.ofInt n
  previewTime : -i32Max ≤ g.previewTime ∧ g.previewTime ≤ i32Max
  stackLeniency : InLimit g.stackLeniency
  countdownOffset : -i32Max ≤ g.countdownOffset ∧ g.countdownOffset ≤ i32Max
  sampleVolume : -i32Max ≤ g.defaultSampleVolume ∧ g.defaultSampleVolume ≤ i32Max

theorem general_create (C : ConstFacts F P) : DecInvGeneral (GeneralState.default : GeneralState F P) :=
  ⟨rfl, List.not_mem_nil, List.not_mem_nil, ⟨0, by decide, by decide, C.zero⟩,
   (by decide : -i32Max ≤ (-1 : Int) ∧ (-1 : Int) ≤ i32Max), C.sl0,
   (by decide : -i32Max ≤ (0 : Int) ∧ (0 : Int) ≤ i32Max), (by decide : -i32Max ≤ (100 : Int) ∧ (100 : Int) ≤ i32Max)⟩

theorem inv_parseGeneral (st : GeneralState F P) (line : Str) (hl : '\n' ∉ line) (h : DecInvGeneral st) :
    DecInvGeneral (parseGeneral st line).2 := by
  obtain ⟨h1, h2, h3, h4, h5, h6, h7, h8⟩ := h
  have kv := kvSplit_facts (trimComment line)
  have hv1 : trim (kvSplit (trimComment line)).2 = (kvSplit (trimComment line)).2 := kv.2.1
  have hv2 : '\n' ∉ (kvSplit (trimComment line)).2 := not_mem_of_infix kv.2.2.2.1 (not_mem_trimComment hl)
  unfold parseGeneral
  generalize kvSplit (trimComment line) = p at hv1 hv2
  obtain ⟨k, v⟩ := p
  simp only [] at hv1 hv2 ⊢
  have wi : ∀ (f : Int → GeneralState F P), (∀ n, -i32Max ≤ n ∧ n ≤ i32Max → DecInvGeneral (f n)) →
      DecInvGeneral (withI32 st v f).2 := by
    intro f hf
    unfold withI32
    split
    · rename_i n hn; exact hf n (i32ParseE_range hn)
    · exact ⟨h1, h2, h3, h4, h5, h6, h7, h8⟩
  split
  · exact ⟨h1, h2, h3, h4, h5, h6, h7, h8⟩
  · rename_i key _
    cases key <;> simp only []
    · -- AudioFilename
      refine ⟨?_, not_mem_std (by decide) hv2, no_backslash_std _, h4, h5, h6, h7, h8⟩
      rw [← hv1]; exact trim_std_trim v
    · exact wi _ (fun n hn => ⟨h1, h2, h3, ⟨n, hn.1, hn.2, rfl⟩, h5, h6, h7, h8⟩)
    · exact wi _ (fun n hn => ⟨h1, h2, h3, h4, hn, h6, h7, h8⟩)
    · split
      · exact ⟨h1, h2, h3, h4, h5, h6, h7, h8⟩
      · exact ⟨h1, h2, h3, h4, h5, h6, h7, h8⟩
    · exact wi _ (fun n hn => ⟨h1, h2, h3, h4, h5, h6, h7, hn⟩)
    · split
      · rename_i x hx; exact ⟨h1, h2, h3, h4, h5, scalarParse_inLimit hx, h7, h8⟩
      · exact ⟨h1, h2, h3, h4, h5, h6, h7, h8⟩
    · split
      · exact ⟨h1, h2, h3, h4, h5, h6, h7, h8⟩
      · exact ⟨h1, h2, h3, h4, h5, h6, h7, h8⟩
    · exact wi _ (fun n _ => ⟨h1, h2, h3, h4, h5, h6, h7, h8⟩)
    · exact wi _ (fun n _ => ⟨h1, h2, h3, h4, h5, h6, h7, h8⟩)
    · exact wi _ (fun n _ => ⟨h1, h2, h3, h4, h5, h6, h7, h8⟩)
    · exact wi _ (fun n _ => ⟨h1, h2, h3, h4, h5, h6, h7, h8⟩)
    · exact wi _ (fun n _ => ⟨h1, h2, h3, h4, h5, h6, h7, h8⟩)
    · split
      · exact ⟨h1, h2, h3, h4, h5, h6, h7, h8⟩
      · exact ⟨h1, h2, h3, h4, h5, h6, h7, h8⟩
    · exact wi _ (fun n hn => ⟨h1, h2, h3, h4, h5, h6, hn, h8⟩)

/-! ### [Events] -/

/-- what the decoder guarantees of a stored file name (no law): no comma (it is one comma-separated field), no line feed,
no backslash (standardised), no outer double quote (trimmed) — but it MAY contain `//` (F16). -/
structure FileNameInv (n : Str) : Prop where
  noComma : ',' ∉ n
  noLf : '\n' ∉ n
  noBackslash : '\\' ∉ n
  head : n.head? ≠ some '"'
  last : n.getLast? ≠ some '"'

theorem fileNameInv_nil : FileNameInv [] := ⟨by simp, by simp, by simp, by simp, by simp⟩

theorem fileNameInv_clean {f : Str} (hc : ',' ∉ f) (hl : '\n' ∉ f) : FileNameInv (cleanFilename f) :=
  ⟨not_mem_cleanFilename (by decide) hc, not_mem_cleanFilename (by decide) hl, no_backslash_cleanFilename f,
   cleanFilename_head f, cleanFilename_last f⟩

/-- a break as the decoder stores it (no law): both ends within the limit and not NaN; the end is `max(start, end)`, so
taking the maximum again changes nothing. -/
structure BreakInv (b : BreakPeriod F) : Prop where
  start : InLimit b.startTime
  stop : InLimit b.endTime
  ordered : Scalar.max b.startTime b.endTime = b.endTime

structure DecInvEvents (e : Events F) : Prop where
  background : FileNameInv e.backgroundFile
  breaks : ∀ b ∈ e.breaks, BreakInv b

theorem events_create : DecInvEvents (Events.default : Events F) := ⟨fileNameInv_nil, fun _ h => absurd h List.not_mem_nil⟩

theorem inv_parseEvents (st : Events F) (line : Str) (hl : '\n' ∉ line) (h : DecInvEvents st) :
    DecInvEvents (parseEvents st line).1 := by
  obtain ⟨h1, h2⟩ := h
  have hf : ∀ p ∈ splitOn ',' (trimComment line), ',' ∉ p ∧ '\n' ∉ p := fun p hp =>
    ⟨(splitOn_facts ',' _ p hp).2, not_mem_of_infix (splitOn_facts ',' _ p hp).1 (not_mem_trimComment hl)⟩
  unfold parseEvents
  split
  · rename_i ty s e rest hs
    rw [hs] at hf
    have he := hf e (by simp)
    split
    · exact ⟨h1, h2⟩
    · split
      · split
        · rename_i f _
          have hf' := hf f (by simp)
          exact ⟨fileNameInv_clean hf'.1 hf'.2, h2⟩
        · exact ⟨h1, h2⟩
      · exact ⟨h1, h2⟩
    · simp only []
      split
      · exact ⟨fileNameInv_clean he.1 he.2, h2⟩
      · exact ⟨h1, h2⟩
    · exact ⟨fileNameInv_clean he.1 he.2, h2⟩
    · split
      · exact ⟨h1, h2⟩
      · rename_i sv hsv
        split
        · exact ⟨h1, h2⟩
        · rename_i ev hev
          refine ⟨h1, ?_⟩
          intro b hb
          rcases List.mem_append.mp hb with hb | hb
          · exact h2 b hb
          · rw [List.mem_singleton.mp hb]
            refine ⟨floatParse_inLimit hsv, ?_, max_max sv ev⟩
            rcases max_cases sv ev with e' | e' <;> simp only [e']
            · exact floatParse_inLimit hsv
            · exact floatParse_inLimit hev
    · exact ⟨h1, h2⟩
  · exact ⟨h1, h2⟩

end DecodedInv
end Rosu
