/-
  Lemmas/SliderPathDec.lean — `convert_path_str` applied to the path string `add_path_data` writes
  (`path_roundtrip`): type letters, coordinates (`f32` `Display` read back with `f64` `FromStr`: `CoordLaws`), one
  explicit segment through `convert_points`, the cut of the `|`-pieces into segments, and the run over all segments.
-/
import RosuModel.Lemmas.SliderPathEmit
set_option linter.unusedSectionVars false
namespace Rosu
namespace SliderRt
open Rosu Encode EncodeLines Scalar RtObjects C14

/-! ### type letters -/

theorem newFromStr_letter (t : PathType) (h : WfType t) : PathType.newFromStr (pathTypeLetter t) = t := by
  obtain ⟨k, d⟩ := t
  cases k with
  | bspline =>
    cases d with
    | none => rfl
    | some d =>
      simp only [WfType] at h
      have h1 : i32FromStr (intDigits d) = some d := i32FromStr_intDigits d (by unfold i32Min; omega) h.2
      simp only [pathTypeLetter, showInt, PathType.newFromStr, beq_self_eq_true, if_true, h1]
      rw [if_pos h.1]
  | catmull => simp only [WfType] at h; subst h; rfl
  | linear => simp only [WfType] at h; subst h; rfl
  | perfectCurve => simp only [WfType] at h; subst h; rfl

theorem letter_cases (t : PathType) :
    ∃ c r, pathTypeLetter t = c :: r ∧ (c = 'B' ∨ c = 'C' ∨ c = 'P' ∨ c = 'L') ∧ ∀ x ∈ r, isDig x = true ∨ x = '-' := by
  obtain ⟨k, d⟩ := t
  cases k with
  | bspline =>
    cases d with
    | none => exact ⟨'B', [], rfl, Or.inl rfl, fun x hx => by cases hx⟩
    | some d => exact ⟨'B', intDigits d, rfl, Or.inl rfl, intDigits_chars d⟩
  | catmull => exact ⟨'C', [], rfl, Or.inr (Or.inl rfl), fun x hx => by cases hx⟩
  | linear => exact ⟨'L', [], rfl, Or.inr (Or.inr (Or.inr rfl)), fun x hx => by cases hx⟩
  | perfectCurve => exact ⟨'P', [], rfl, Or.inr (Or.inr (Or.inl rfl)), fun x hx => by cases hx⟩

theorem letter_isLetter (t : PathType) : isLetterPiece (pathTypeLetter t) = true := by
  obtain ⟨c, r, h, hc, _⟩ := letter_cases t
  rw [h]
  rcases hc with hc | hc | hc | hc <;> subst hc <;> rfl

/-- characters of a path string: number characters, `:`, and the four type letters. -/
def PathChar (c : Char) : Prop := numChar c = true ∨ c = ':' ∨ c = 'B' ∨ c = 'C' ∨ c = 'P' ∨ c = 'L'

theorem letter_chars (t : PathType) : ∀ c ∈ pathTypeLetter t, PathChar c := by
  obtain ⟨c0, r, h, hc, hr⟩ := letter_cases t
  rw [h]
  intro c hm
  rcases List.mem_cons.mp hm with hm | hm
  · subst hm
    rcases hc with hc | hc | hc | hc <;> subst hc <;> simp [PathChar]
  · rcases hr c hm with h1 | h1
    · exact Or.inl (by simp [numChar, h1])
    · subst h1; exact Or.inl (by decide)

theorem pathChar_facts {c : Char} (h : PathChar c) :
    c ≠ '|' ∧ c ≠ ',' ∧ c ≠ '/' ∧ c ≠ '\n' ∧ c ≠ '[' ∧ isWs c = false := by
  rcases h with h | h | h | h | h | h
  · exact ⟨numChar_ne h _ (by decide), numChar_ne h _ (by decide), numChar_ne h _ (by decide), numChar_ne h _ (by decide),
      numChar_ne h _ (by decide), numChar_not_ws h⟩
  all_goals (subst h; exact ⟨by decide, by decide, by decide, by decide, by decide, by decide⟩)

/-! ### coordinates -/

section
variable {F P : Type} [Scalar F] [Scalar P] [Cvt P F] {RP : P → Prop}

/-- **the cross-codec law for path coordinates.** A control-point coordinate is written with `f32`'s `Display` and read
back with `f64`'s `FromStr` (`read_point` parses `f64`, then `as i32 as f32`): for an integral in-range value the `f64`
read is in range and truncates to the same integer; and the printed text does not start with an ASCII letter (it is
not `inf` / `NaN`), so the piece is not taken for a type letter. Satisfied by the toy codec (`ZC.coordLaws`); for
Rust it is a recorded assumption like `CodecLaws`. -/
structure CoordLaws (F P : Type) [Scalar F] [Scalar P] (RP : P → Prop) : Prop where
  cross : ∀ a : P, RP a → InCoord a → Scalar.ofInt (Scalar.toI32 a) = a →
    ∃ b : F, Scalar.parse (Scalar.print a) = some b ∧ InCoord b ∧ Scalar.toI32 b = Scalar.toI32 a
  head_not_letter : ∀ a : P, RP a → InCoord a → firstIsAsciiAlpha (Scalar.print a) = some false

theorem coordRead (LP : CodecLaws P RP) (LC : CoordLaws F P RP) {a : P} (ha : RepCoord RP a) :
    ∃ b : F, floatParseWithLimits (Scalar.print a) (Scalar.ofInt maxCoordinate : F) = some b ∧
      (Scalar.ofInt (Scalar.toI32 b) : P) = a := by
  obtain ⟨b, h1, h2, h3⟩ := LC.cross a ha.rep ha.lim ha.integral
  refine ⟨b, ?_, by rw [h3, ha.integral]⟩
  unfold floatParseWithLimits
  rw [LP.trim_print ha.rep, h1]
  simp [h2.1, h2.2.1, h2.2.2]

theorem coords_eq (pos : Pos P) (q : PathControlPoint P) :
    coords pos q = Scalar.print (pos.x + q.pos.x) ++ ':' :: Scalar.print (pos.y + q.pos.y) := by
  simp [coords, showP]

/-- **`read_point`** on a written control point gives its relative position back. -/
theorem readPoint_coords (LP : CodecLaws P RP) (LC : CoordLaws F P RP) (pos : Pos P) (q : PathControlPoint P)
    (hq : RepPoint RP pos q) : readPoint (F := F) (coords pos q) pos = some ⟨q.pos, none⟩ := by
  obtain ⟨bx, hbx, hbx'⟩ := coordRead (F := F) LP LC hq.x
  obtain ⟨by', hby, hby'⟩ := coordRead (F := F) LP LC hq.y
  have hsplit : splitOn ':' (coords pos q) = [Scalar.print (pos.x + q.pos.x), Scalar.print (pos.y + q.pos.y)] := by
    rw [coords_eq, splitOn_append_sep ':' _ _ (LP.not_mem hq.x.rep ':' (by decide)),
      splitOn_no_sep ':' _ (LP.not_mem hq.y.rep ':' (by decide))]
  unfold readPoint
  simp only [hsplit, hbx, hby, hbx', hby']
  have : ((⟨pos.x + q.pos.x, pos.y + q.pos.y⟩ : Pos P) - pos) = q.pos := by
    show (⟨(pos.x + q.pos.x) - pos.x, (pos.y + q.pos.y) - pos.y⟩ : Pos P) = q.pos
    rw [hq.backX, hq.backY]
  rw [this]

theorem coords_chars (LP : CodecLaws P RP) (pos : Pos P) (q : PathControlPoint P) (hq : RepPoint RP pos q) :
    ∀ c ∈ coords pos q, PathChar c := by
  intro c hc
  rw [coords_eq] at hc
  rcases List.mem_append.mp hc with h | h
  · exact Or.inl (LP.print_clean _ hq.x.rep c h)
  · rcases List.mem_cons.mp h with h | h
    · exact Or.inr (Or.inl h)
    · exact Or.inl (LP.print_clean _ hq.y.rep c h)

theorem coords_not_letter (LP : CodecLaws P RP) (LC : CoordLaws F P RP) (pos : Pos P) (q : PathControlPoint P)
    (hq : RepPoint RP pos q) : isLetterPiece (coords pos q) = false ∧ coords pos q ≠ [] := by
  obtain ⟨c, r, h, _⟩ := LP.head hq.x.rep
  have hl := LC.head_not_letter _ hq.x.rep hq.x.lim
  rw [coords_eq, h]
  rw [h] at hl
  constructor
  · simp only [isLetterPiece, List.cons_append]
    simp only [firstIsAsciiAlpha] at hl ⊢
    rw [hl]
  · simp

/-- the same property read off a control point with another type tag. -/
theorem repPoint_retag {pos : Pos P} {p : Pos P} {t t' : Option PathType} (h : RepPoint RP pos ⟨p, t⟩) :
    RepPoint RP pos ⟨p, t'⟩ := ⟨h.x, h.y, h.backX, h.backY⟩

theorem readPoints_body (LP : CodecLaws P RP) (LC : CoordLaws F P RP) (pos : Pos P) (body : List (PathControlPoint P))
    (hb : ∀ q ∈ body, RepPoint RP pos q) : readPoints F pos (bodyPieces pos body) = some (expand body) := by
  induction body with
  | nil => rfl
  | cons q rest ih =>
    have hq := readPoint_coords (F := F) LP LC pos q (hb q (by simp))
    have ih' := ih (fun x hx => hb x (by simp [hx]))
    rw [bodyPieces_cons, expand_cons]
    cases hqt : q.pathType with
    | none => simp [readPoints, hq, ih']
    | some t => simp [readPoints, hq, ih']

theorem bodyPieces_facts (LP : CodecLaws P RP) (LC : CoordLaws F P RP) (pos : Pos P) (body : List (PathControlPoint P))
    (hb : ∀ q ∈ body, RepPoint RP pos q) :
    ∀ p ∈ bodyPieces pos body, isLetterPiece p = false ∧ p ≠ [] ∧ ∀ c ∈ p, PathChar c := by
  intro p hp
  simp only [bodyPieces, List.mem_flatMap] at hp
  obtain ⟨q, hq, hp⟩ := hp
  have h1 := coords_not_letter (F := F) LP LC pos q (hb q hq)
  have h2 := coords_chars LP pos q (hb q hq)
  split at hp <;> simp only [List.mem_cons, List.not_mem_nil, or_false, or_self] at hp <;> subst hp <;>
    exact ⟨h1.1, h1.2, h2⟩

/-! ### one explicit segment through `convert_points` -/

theorem eff_type (T : PathType) (raw : List (PathControlPoint P))
    (hP : T = PathType.perfect → ∃ a b c, raw = [a, b, c] ∧ isLinear a.pos b.pos c.pos = false) :
    effectivePathType T raw = T := by
  unfold effectivePathType
  by_cases h : T = PathType.perfect
  · obtain ⟨a, b, c, hr, hl⟩ := hP h
    subst hr
    simp [h, hl]
  · simp [h]

/-- the pieces of a segment, first or not. -/
def segPiecesF (pos : Pos P) (s : ESeg P) (first : Bool) : List Str :=
  pathTypeLetter s.ty :: ((if first then [] else [coords pos ⟨s.head, none⟩]) ++ bodyPieces pos s.body)

theorem segPiecesF_false (pos : Pos P) (s : ESeg P) : segPiecesF pos s false = segPieces pos s := by
  simp [segPiecesF, segPieces]

/-- the end point `convert_points` is handed: the coordinates of the next segment's head. -/
def epOf (pos : Pos P) (more : List (ESeg P)) : Option Str :=
  match more with | [] => none | s :: _ => some (coords pos ⟨s.head, none⟩)

/-- **one explicit segment**: `convert_points` on the pieces of a segment in order (the first one starting at the
origin) succeeds and appends exactly the segment's control points. -/
theorem convert_seg (LP : CodecLaws P RP) (LC : CoordLaws F P RP) (pos : Pos P) (st : PathScratch P) (s : ESeg P)
    (more : List (ESeg P)) (first : Bool) (hs : SegOK s (evOf more)) (hbody : ∀ q ∈ s.body, RepPoint RP pos q)
    (hhead : if first then s.head = Pos.zero else RepPoint RP pos ⟨s.head, none⟩)
    (hnext : ∀ s' ∈ more.head?, RepPoint RP pos ⟨s'.head, none⟩) :
    (convertPoints F st (segPiecesF pos s first) (epOf pos more) first pos).2 = true ∧
    (convertPoints F st (segPiecesF pos s first) (epOf pos more) first pos).1.curvePoints = st.curvePoints ++ s.points := by
  obtain ⟨hw, hbok, hperf⟩ := hs
  -- the reads
  have hev : readEnd F (epOf pos more) pos = some (evOf more) := by
    cases more with
    | nil => rfl
    | cons s' _ =>
      simp only [epOf, readEnd, evOf]
      rw [readPoint_coords (F := F) LP LC pos ⟨s'.head, none⟩ (hnext s' (by simp))]
      rfl
  have hbodyR := readPoints_body (F := F) LP LC pos s.body hbody
  have hown : readPoints F pos ((if first then [] else [coords pos ⟨s.head, none⟩]) ++ bodyPieces pos s.body) =
      some ((if first then [] else [(⟨s.head, none⟩ : PathControlPoint P)]) ++ expand s.body) := by
    cases first with
    | true => simpa using hbodyR
    | false =>
      simp only [Bool.false_eq_true, if_false] at hhead ⊢
      simp [readPoints, readPoint_coords (F := F) LP LC pos ⟨s.head, none⟩ hhead, hbodyR]
  have hraw : segVertices first ((if first then [] else [(⟨s.head, none⟩ : PathControlPoint P)]) ++ expand s.body) (evOf more) =
      ⟨s.head, none⟩ :: (expand s.body ++ evOf more) := by
    cases first with
    | true =>
      simp only [if_true] at hhead
      simp [segVertices, hhead]
    | false => simp [segVertices]
  have hne : first = true ∨ (if first then [] else [coords pos ⟨s.head, none⟩]) ++ bodyPieces pos s.body ≠ [] := by
    cases first with
    | true => exact Or.inl rfl
    | false => exact Or.inr (by simp)
  have hspec := convertPoints_spec (F := F) st (pathTypeLetter s.ty) _ (epOf pos more) first pos _ (evOf more) hown hev hne
  simp only [hraw] at hspec
  have hpt : effectivePathType (PathType.newFromStr (pathTypeLetter s.ty)) (⟨s.head, none⟩ :: (expand s.body ++ evOf more)) = s.ty := by
    rw [newFromStr_letter s.ty hw]
    apply eff_type
    intro hp
    obtain ⟨b, c, hbc, hl⟩ := hperf hp
    exact ⟨⟨s.head, none⟩, b, c, by rw [hbc], hl⟩
  rw [hpt] at hspec
  have hlen : (⟨s.head, none⟩ :: (expand s.body ++ evOf more) : List (PathControlPoint P)).length - (evOf more).length =
      1 + (expand s.body).length := by
    simp only [List.length_cons, List.length_append]; omega
  rw [hlen] at hspec
  refine ⟨hspec.1, ?_⟩
  show (convertPoints F st (pathTypeLetter s.ty :: _) (epOf pos more) first pos).1.curvePoints = _
  rw [hspec.2]
  congr 1
  exact emit_seg s.ty s.head s.body (evOf more) hbok

/-! ### cutting the pieces into segments -/

/-- the cuts `convert_path_str` makes in the pieces of a list of explicit segments (`cur`: the pieces of the
segment in progress). -/
def segCuts (pos : Pos P) : List Str → List (ESeg P) → List (List Str × Option Str)
  | cur, [] => [(cur, none)]
  | cur, s :: more => (cur, some (coords pos ⟨s.head, none⟩)) :: segCuts pos (segPieces pos s) more

theorem cut_nonletter (cs : List Str) (h : ∀ p ∈ cs, isLetterPiece p = false) :
    ∀ (seg l : List Str), cutSegments seg (cs ++ l) = cutSegments (seg ++ cs) l := by
  induction cs with
  | nil => intro seg l; simp
  | cons p cs ih =>
    intro seg l
    have hp : isLetterPiece p = false := h p (by simp)
    simp only [List.cons_append]
    rw [cutSegments]
    simp only [hp, Bool.false_eq_true, if_false]
    rw [ih (fun x hx => h x (by simp [hx]))]
    simp

theorem cut_segs (LP : CodecLaws P RP) (LC : CoordLaws F P RP) (pos : Pos P) :
    ∀ (more : List (ESeg P)) (cur : List Str),
      (∀ q ∈ more.flatMap ESeg.points, RepPoint RP pos q) →
      cutSegments cur (segsPieces pos more) = segCuts pos cur more := by
  intro more
  induction more with
  | nil => intro cur _; rfl
  | cons s more ih =>
    intro cur hrep
    have hhead : RepPoint RP pos ⟨s.head, none⟩ :=
      repPoint_retag (hrep ⟨s.head, some s.ty⟩ (by simp [ESeg.points]))
    have hb : ∀ q ∈ s.body, RepPoint RP pos q := fun q hq => hrep q (by simp [ESeg.points, hq])
    have hmore : ∀ q ∈ more.flatMap ESeg.points, RepPoint RP pos q := fun q hq => hrep q (by
      simp only [List.flatMap_cons, List.mem_append]; exact Or.inr hq)
    simp only [segsPieces, List.flatMap_cons, segPieces, List.cons_append]
    rw [cutSegments]
    simp only [letter_isLetter, if_true, List.head?_cons, segCuts]
    congr 1
    have hnl : ∀ p ∈ coords pos ⟨s.head, none⟩ :: bodyPieces pos s.body, isLetterPiece p = false := by
      intro p hp
      rcases List.mem_cons.mp hp with hp | hp
      · subst hp; exact (coords_not_letter (F := F) LP LC pos _ hhead).1
      · exact (bodyPieces_facts (F := F) LP LC pos s.body hb p hp).1
    have := cut_nonletter _ hnl [pathTypeLetter s.ty] (List.flatMap (segPieces pos) more)
    simp only [List.cons_append, List.nil_append] at this
    rw [this]
    exact ih _ hmore

/-- **the run over all segments**: `convert_points` over the cuts of a list of explicit segments in order succeeds and
appends their control points. -/
theorem run_segs (LP : CodecLaws P RP) (LC : CoordLaws F P RP) (pos : Pos P) :
    ∀ (more : List (ESeg P)) (s : ESeg P) (st : PathScratch P) (first : Bool),
      SegsOK (s :: more) → (∀ q ∈ s.body ++ more.flatMap ESeg.points, RepPoint RP pos q) →
      (if first then s.head = Pos.zero else RepPoint RP pos ⟨s.head, none⟩) →
      (runSegments F pos st first (segCuts pos (segPiecesF pos s first) more)).2 = true ∧
      (runSegments F pos st first (segCuts pos (segPiecesF pos s first) more)).1.curvePoints =
        st.curvePoints ++ (s :: more).flatMap ESeg.points := by
  intro more
  induction more with
  | nil =>
    intro s st first hok hrep hhead
    have hc := convert_seg (F := F) LP LC pos st s [] first hok.1 (fun q hq => hrep q (by simp [hq])) hhead (by simp)
    simp only [epOf] at hc
    simp only [segCuts, runSegments]
    cases hcp : convertPoints F st (segPiecesF pos s first) none first pos with
    | mk st' ok =>
      rw [hcp] at hc
      obtain ⟨h1, h2⟩ := hc
      simp only at h1 h2
      subst h1
      simp [h2]
  | cons s' more ih =>
    intro s st first hok hrep hhead
    have hs'head : RepPoint RP pos ⟨s'.head, none⟩ :=
      repPoint_retag (hrep ⟨s'.head, some s'.ty⟩ (by simp [ESeg.points]))
    have hc := convert_seg (F := F) LP LC pos st s (s' :: more) first hok.1 (fun q hq => hrep q (by simp [hq])) hhead
      (by simpa using hs'head)
    simp only [epOf] at hc
    simp only [segCuts, runSegments]
    cases hcp : convertPoints F st (segPiecesF pos s first) (some (coords pos ⟨s'.head, none⟩)) first pos with
    | mk st' ok =>
      rw [hcp] at hc
      obtain ⟨h1, h2⟩ := hc
      simp only at h1 h2
      subst h1
      simp only
      have := ih s' st' false hok.2 (fun q hq => hrep q (by
        simp only [List.flatMap_cons, ESeg.points, List.mem_append, List.mem_cons] at hq ⊢
        rcases hq with hq | hq
        · exact Or.inr (Or.inl (Or.inr hq))
        · exact Or.inr (Or.inr hq))) (by simpa using hs'head)
      rw [segPiecesF_false] at this
      refine ⟨this.1, ?_⟩
      rw [this.2, h2]
      simp [List.append_assoc]

/-! ### the whole path string -/

/-- pieces joined by `|`. -/
def joinBar : List Str → Str
  | [] => []
  | [p] => p
  | p :: q :: r => p ++ '|' :: joinBar (q :: r)

theorem term_eq_joinBar (l : List Str) (h : l ≠ []) : term l = joinBar l ++ [','] := by
  induction l with
  | nil => exact absurd rfl h
  | cons p l ih =>
    cases l with
    | nil => rfl
    | cons q r =>
      simp only [term, joinBar, ih (by simp), List.cons_append, List.append_assoc]

theorem splitOn_joinBar (l : List Str) (h : ∀ p ∈ l, '|' ∉ p) (hne : l ≠ []) : splitOn '|' (joinBar l) = l := by
  induction l with
  | nil => exact absurd rfl hne
  | cons p l ih =>
    cases l with
    | nil => simpa [joinBar] using splitOn_no_sep '|' p (h p (by simp))
    | cons q r =>
      simp only [joinBar]
      rw [splitOn_append_sep '|' p _ (h p (by simp)), ih (fun x hx => h x (by simp [hx])) (by simp)]

theorem joinBar_chars (l : List Str) (p : Char → Prop) (hp : p '|') (h : ∀ x ∈ l, ∀ c ∈ x, p c) : ∀ c ∈ joinBar l, p c := by
  induction l with
  | nil => intro c hc; cases hc
  | cons x l ih =>
    cases l with
    | nil => exact h x (by simp)
    | cons y r =>
      intro c hc
      simp only [joinBar, List.mem_append, List.mem_cons] at hc
      rcases hc with hc | hc | hc
      · exact h x (by simp) c hc
      · subst hc; exact hp
      · exact ih (fun z hz => h z (by simp [hz])) c hc

/-- the pieces `add_path_data` writes for a path whose first point carries the type `t0`. -/
def pathPieces (pos : Pos P) (p0 : PathControlPoint P) (rest : List (PathControlPoint P)) (t0 : PathType) : List Str :=
  pathTypeLetter t0 :: cutPieces pos (splitSegs pos (p0 :: rest) 1 (some t0) rest)

/-- **the path string** of a control-point list: what `add_path_data` writes up to the `,` that ends the field. -/
def pathText (pos : Pos P) (cps : List (PathControlPoint P)) : Str :=
  (pathPointsLoop pos cps cps.length 0 none cps).dropLast

/-- **path_roundtrip.** For a representable control-point list, under the codec laws: the control-point part of
`add_path_data` is `pathText` followed by `,`; `pathText` is made of number characters, `:`, `|` and type letters only
and starts with a type letter; and `convert_path_str` applied to it at the object's position, from any scratch state,
succeeds and appends exactly the control points — positions (relative to the object) and path types. -/
theorem path_roundtrip (LP : CodecLaws P RP) (LC : CoordLaws F P RP) (pos : Pos P) (cps : List (PathControlPoint P))
    (h : RepPath RP pos cps) (st : PathScratch P) :
    pathPointsLoop pos cps cps.length 0 none cps = pathText pos cps ++ [','] ∧
    (∀ c ∈ pathText pos cps, PathChar c ∨ c = '|') ∧
    (∃ c r, pathText pos cps = c :: r ∧ (c = 'B' ∨ c = 'C' ∨ c = 'P' ∨ c = 'L')) ∧
    (convertPathStr F st (pathText pos cps) pos).2 = true ∧
    (convertPathStr F st (pathText pos cps) pos).1.curvePoints = st.curvePoints ++ cps := by
  cases cps with
  | nil => exact absurd h (by simp [RepPath])
  | cons p0 rest =>
    obtain ⟨t0, h0, hsegs, hflat⟩ := repPath_cut RP pos p0 rest h
    have hp0 : p0.pos = Pos.zero := h.1
    have hrest : ∀ q ∈ rest, RepPoint RP pos q := h.2.2
    -- abbreviations
    generalize hr : splitSegs pos (p0 :: rest) 1 (some t0) rest = r at hsegs hflat
    have hpts : r.1 ++ r.2.flatMap ESeg.points = rest := by
      rw [← hr]; exact splitSegs_points pos (p0 :: rest) rest 1 (some t0)
    have hrep1 : ∀ q ∈ r.1 ++ r.2.flatMap ESeg.points, RepPoint RP pos q := by rw [hpts]; exact hrest
    have hrep2 : ∀ q ∈ r.2.flatMap ESeg.points, RepPoint RP pos q := fun q hq => hrep1 q (by simp [hq])
    have hloop : pathPointsLoop pos (p0 :: rest) (p0 :: rest).length 0 none (p0 :: rest) =
        term (pathTypeLetter t0 :: cutPieces pos r) := by
      rw [pathPointsLoop_eq pos p0 rest t0 h0, hr]
    have hterm := term_eq_joinBar (pathTypeLetter t0 :: cutPieces pos r) (by simp)
    have htext : pathText pos (p0 :: rest) = joinBar (pathTypeLetter t0 :: cutPieces pos r) := by
      unfold pathText
      rw [hloop, hterm]
      simp
    -- facts about the pieces
    have hcp : ∀ p ∈ cutPieces pos r, p ≠ [] ∧ ∀ c ∈ p, PathChar c := by
      intro p hp
      simp only [cutPieces, List.mem_append] at hp
      rcases hp with hp | hp
      · have := bodyPieces_facts (F := F) LP LC pos r.1 (fun q hq => hrep1 q (by simp [hq])) p hp
        exact ⟨this.2.1, this.2.2⟩
      · simp only [segsPieces, List.mem_flatMap] at hp
        obtain ⟨s, hs, hp⟩ := hp
        have hsp : ∀ q ∈ s.points, RepPoint RP pos q := fun q hq => hrep2 q (List.mem_flatMap.mpr ⟨s, hs, hq⟩)
        simp only [segPieces, List.mem_cons] at hp
        rcases hp with hp | hp | hp
        · subst hp
          obtain ⟨c, r', hl, _⟩ := letter_cases s.ty
          exact ⟨by rw [hl]; simp, letter_chars s.ty⟩
        · subst hp
          have hh : RepPoint RP pos ⟨s.head, none⟩ := repPoint_retag (hsp ⟨s.head, some s.ty⟩ (by simp [ESeg.points]))
          exact ⟨(coords_not_letter (F := F) LP LC pos _ hh).2, coords_chars LP pos _ hh⟩
        · have := bodyPieces_facts (F := F) LP LC pos s.body (fun q hq => hsp q (by simp [ESeg.points, hq])) p hp
          exact ⟨this.2.1, this.2.2⟩
    have hall : ∀ p ∈ pathTypeLetter t0 :: cutPieces pos r, ∀ c ∈ p, PathChar c := by
      intro p hp
      rcases List.mem_cons.mp hp with hp | hp
      · subst hp; exact letter_chars t0
      · exact (hcp p hp).2
    have hsplit : splitOn '|' (pathText pos (p0 :: rest)) = pathTypeLetter t0 :: cutPieces pos r := by
      rw [htext]
      exact splitOn_joinBar _ (fun p hp hm => (pathChar_facts (hall p hp _ hm)).1 rfl) (by simp)
    refine ⟨by rw [hloop, hterm, htext], ?_, ?_, ?_⟩
    · rw [htext]
      exact joinBar_chars _ (fun c => PathChar c ∨ c = '|') (Or.inr rfl) (fun x hx c hc => Or.inl (hall x hx c hc))
    · obtain ⟨c, r', hl, hc, _⟩ := letter_cases t0
      rw [htext, hl]
      cases hcut : cutPieces pos r with
      | nil => exact ⟨c, r', rfl, hc⟩
      | cons q qs => exact ⟨c, r' ++ '|' :: joinBar (q :: qs), by simp [joinBar], hc⟩
    · -- the decoder
      have hspec := (convertPathStr_spec (F := F) st (pathText pos (p0 :: rest)) pos _ _ hsplit).2
        (fun p hp => (hcp p hp).1)
      have hcut : cutSegments [pathTypeLetter t0] (cutPieces pos r) =
          segCuts pos (segPiecesF pos ⟨t0, p0.pos, r.1⟩ true) r.2 := by
        simp only [cutPieces]
        rw [cut_nonletter _ (fun p hp => (bodyPieces_facts (F := F) LP LC pos r.1
          (fun q hq => hrep1 q (by simp [hq])) p hp).1), cut_segs (F := F) LP LC pos r.2 _ hrep2]
        simp [segPiecesF]
      have hrun := run_segs (F := F) LP LC pos r.2 ⟨t0, p0.pos, r.1⟩ st true hsegs hrep1 (by simpa using hp0)
      rw [hcut] at hspec
      rw [hspec]
      cases hrs : runSegments F pos st true (segCuts pos (segPiecesF pos ⟨t0, p0.pos, r.1⟩ true) r.2) with
      | mk st' ok =>
        rw [hrs] at hrun
        obtain ⟨h1, h2⟩ := hrun
        simp only at h1 h2
        subst h1
        simp only
        exact ⟨trivial, by rw [h2, hflat]⟩

end

/-! ### the toy codec satisfies the cross-codec law -/

theorem firstAlpha_intDigits (n : Int) : firstIsAsciiAlpha (intDigits n) = some false := by
  cases h : intDigits n with
  | nil => exact absurd h (intDigits_ne_nil n)
  | cons c r =>
    have hc := intDigits_chars n c (by rw [h]; simp)
    simp only [firstIsAsciiAlpha, Option.some.injEq]
    rcases hc with hc | hc
    · rw [isDig_iff] at hc
      have h1 : ¬ ('a' ≤ c) := by
        intro hle
        have : 'a'.toNat ≤ c.toNat := hle
        have : 'a'.toNat = 97 := rfl
        omega
      have h2 : ¬ ('A' ≤ c) := by
        intro hle
        have : 'A'.toNat ≤ c.toNat := hle
        have : 'A'.toNat = 65 := rfl
        omega
      simp [h1, h2]
    · subst hc; decide

theorem ZC.coordLaws : CoordLaws ZC ZC ZC.Rep where
  cross := fun a ha hl _ => ⟨a, ZC.laws.parse_print a ha, hl, rfl⟩
  head_not_letter := fun a _ _ => firstAlpha_intDigits a.v

end SliderRt
end Rosu
