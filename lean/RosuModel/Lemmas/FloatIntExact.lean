/-
  Lemmas/FloatIntExact.lean — IEEE double arithmetic is EXACT on integers below 2^53 (namespace `Rosu.FIE`): theorems about the
  driver's `Float` (the `Scalar Float` instance of Model/FloatInst.lean; Lean 4.33's logical float model), no hypotheses
  beyond the size bounds.

  * `up_ofInt`, `up_ofInt_zero`: the unpacked form of `Float.ofInt z`, `|z| < 2^53` (canonical `(|z|·2^(52−log2|z|), log2|z|−52)`,
    sign of `z`; `Float.ofInt 0` is `+0.0`).
  * `uadd_int` (any format; the `+` twin of `FTR.usub_int`), **`add_int_exact_float`**, **`sub_int_exact_float`**:
    `Float.ofInt a ± Float.ofInt b = Float.ofInt (a ± b)` for `|a|, |b|, |a ± b| < 2^53` (equality of doubles, i.e. of bit
    patterns; a zero result is `+0.0 = Float.ofInt 0`, never `−0.0`).
  * `bits_ofInt`, `intPat_lt` (the pattern of a positive integer is strictly increasing in the integer), `fval_ofInt`,
    `totalKey_ofInt`.
  * **comparisons**: `lt_ofInt`, `le_ofInt`, `eq_ofInt` (`Scalar.lt/le/eq (Float.ofInt a) (Float.ofInt b) = decide (a </≤/= b)`),
    `totalKey_lt_ofInt` / `_le_` / `_eq_` (the `total_cmp` key is strictly monotone in the integer — there is no sign-of-zero
    caveat on this domain because `−0.0` is not a `Float.ofInt` value; `Float.ofInt 0` has key `0`, `Float.ofInt (-1)` a negative
    key), `ofInt_inj`, **`isNaN_ofInt`** (`Float.ofInt z` is never NaN).
  The bound is sharp (`2^53 + 1` is not representable: last `example`).
-/
import RosuModel.Lemmas.FloatTrunc
import RosuModel.Lemmas.FloatModelOfInt
import RosuModel.Lemmas.FloatModelOrder
namespace Rosu.FIE
open Rosu Float.Model Float.Model.UnpackedFloat FMR FMO FTR

/-- **the unpacked `f64` of a non-zero integer** `|z| < 2^53`. -/
theorem up_ofInt (z : Int) (h0 : z ≠ 0) (hz : z.natAbs < 2 ^ 53) :
    IsFin (Float.ofInt z).toModel.unpack (isign z) (z.natAbs * 2 ^ (52 - z.natAbs.log2)) ((z.natAbs.log2 : Int) - 52) := by
  cases z with
  | ofNat n =>
    have hn : (Int.ofNat n).natAbs = n := rfl
    rw [hn] at hz ⊢
    have hn0 : 0 < n := by
      rcases Nat.eq_zero_or_pos n with h | h
      · subst h; exact absurd rfl h0
      · exact h
    obtain ⟨b1, b2, b3⟩ := FM.intM_bounds hn0 hz
    have hs : isign (Int.ofNat n) = .positive := by
      unfold isign; rw [if_neg]; exact Int.not_lt.mpr (Int.natCast_nonneg n)
    rw [hs]
    show IsFin (Float.ofNat n).toModel.unpack _ _ _
    rw [FM.float_ofNat_model hn0 hz]
    refine ⟨Nat.mul_pos hn0 (Nat.pow_pos (by decide)), ?_⟩
    exact FM.unpack_pack_normal (spec := Format.binary64) (by decide) _ _ _ _ b1 b2
      (by show 0 < ((n.log2 : Int) - 52) + ((1023 : Nat) : Int) + ((52 : Nat) : Int); omega)
      (by show ((n.log2 : Int) - 52) + ((1023 : Nat) : Int) + ((52 : Nat) : Int) < ((2047 : Nat) : Int); omega)
  | negSucc n =>
    have hn : (Int.negSucc n).natAbs = n + 1 := rfl
    rw [hn] at hz ⊢
    obtain ⟨b1, b2, b3⟩ := FM.intM_bounds ((show 0 < n + 1 by omega)) hz
    have hs : isign (Int.negSucc n) = .negative := by
      unfold isign; rw [if_pos (Int.negSucc_lt_zero n)]
    rw [hs]
    have h3 : 0 < (((n + 1).log2 : Int) - 52) + ((1023 : Nat) : Int) + ((52 : Nat) : Int) := by omega
    have h4 : (((n + 1).log2 : Int) - 52) + ((1023 : Nat) : Int) + ((52 : Nat) : Int) < ((2047 : Nat) : Int) := by omega
    show IsFin (Float.Model.pack (Float.ofNat (n + 1)).toModel.unpack.neg).unpack _ _ _
    rw [FM.float_ofNat_model ((show 0 < n + 1 by omega)) hz]
    show IsFin (UnpackedFloat.unpack Format.binary64 (pack Format.binary64
      (UnpackedFloat.unpack Format.binary64 (pack Format.binary64 _)).neg)) _ _ _
    rw [FM.unpack_pack_normal (spec := Format.binary64) (by decide) _ _ _ _ b1 b2 h3 h4]
    refine ⟨Nat.mul_pos ((show 0 < n + 1 by omega)) (Nat.pow_pos (by decide)), ?_⟩
    exact FM.unpack_pack_normal (spec := Format.binary64) (by decide) .negative _ _ _ b1 b2 h3 h4


theorem ofInt_zero_eq : Float.ofInt 0 = FMO.pzero64 := by decide +kernel

theorem up_ofInt_zero : (Float.ofInt 0).toModel.unpack = .zero .positive := by
  rw [ofInt_zero_eq]; exact FX.unpack_zero64 .positive

/-! ## exact sums and differences of integer-valued unpacked floats (any format) -/

theorem uadd_fin (spec : Format) (s₁ s₂ : Sign) (m₁ m₂ : Nat) (e₁ e₂ : Int) (h₁ h₂) :
    UnpackedFloat.add spec (.finite s₁ m₁ e₁ h₁) (.finite s₂ m₂ e₂ h₂) =
      normalize spec (s₁.apply ((m₁ * 2 ^ (e₁ - min e₁ e₂).toNat : Nat) : Int) +
        s₂.apply ((m₂ * 2 ^ (e₂ - min e₁ e₂).toNat : Nat) : Int)) (min e₁ e₂) .positive := by
  simp only [UnpackedFloat.add, decreaseExponent, Nat.shiftLeft_eq]

/-- **the sum of two integer-valued floats is exact** as long as the result has at most `M + 1` bits. -/
theorem uadd_int (spec : Format) (hE : 2 ≤ spec.exponentBits) (s₁ s₂ : Sign) (A B p q : Nat) (h₁ h₂) (d : Int)
    (hd : s₁.apply (A : Int) + s₂.apply (B : Int) = d) (hd0 : d ≠ 0)
    (hlt : d.natAbs < 2 ^ (spec.mantissaBitsWithoutImplicit + 1)) :
    UnpackedFloat.add spec (.finite s₁ (A * 2 ^ p) (-(p : Int)) h₁) (.finite s₂ (B * 2 ^ q) (-(q : Int)) h₂) =
      .finite (isign d) (d.natAbs * 2 ^ (spec.mantissaBitsWithoutImplicit - d.natAbs.log2))
        ((d.natAbs.log2 : Int) - spec.mantissaBitsWithoutImplicit)
        (Nat.mul_pos (by omega) (Nat.pow_pos (by decide))) := by
  rw [uadd_fin]
  obtain ⟨k, hk, hpk, hqk⟩ : ∃ k : Nat, min (-(p : Int)) (-(q : Int)) = -(k : Int) ∧ p ≤ k ∧ q ≤ k :=
    ⟨max p q, by omega, by omega, by omega⟩
  rw [hk, show (-(p : Int) - -(k : Int)).toNat = k - p by omega, show (-(q : Int) - -(k : Int)).toNat = k - q by omega,
    apply_scaled s₁ A p k hpk, apply_scaled s₂ B q k hqk, ← Int.add_mul, hd]
  have hpow : (0 : Int) < ((2 ^ k : Nat) : Int) := Int.natCast_pos.mpr (Nat.pow_pos (by decide))
  unfold isign
  by_cases hneg : d < 0
  · rw [if_pos hneg, normalize_neg _ _ _ _ (Int.mul_neg_of_neg_of_pos hneg hpow)]
    have : (-(d * ((2 ^ k : Nat) : Int))).toNat = d.natAbs * 2 ^ k := by
      rw [← Int.neg_mul, show -d = (d.natAbs : Int) by omega, ← Int.natCast_mul, Int.toNat_natCast]
    rw [this]
    exact round_int_scaled spec hE .negative d.natAbs k (by omega) hlt
  · rw [if_neg hneg, normalize_pos _ _ _ _ (Int.mul_pos (by omega) hpow)]
    have : (d * ((2 ^ k : Nat) : Int)).toNat = d.natAbs * 2 ^ k := by
      rw [show d = (d.natAbs : Int) by omega, ← Int.natCast_mul, Int.toNat_natCast]
      simp
    rw [this]
    exact round_int_scaled spec hE .positive d.natAbs k (by omega) hlt

theorem uadd_fin_cancel (spec : Format) (s₁ s₂ : Sign) (A B p q : Nat) (h₁ h₂)
    (hd : s₁.apply (A : Int) + s₂.apply (B : Int) = 0) :
    UnpackedFloat.add spec (.finite s₁ (A * 2 ^ p) (-(p : Int)) h₁) (.finite s₂ (B * 2 ^ q) (-(q : Int)) h₂) =
      .zero .positive := by
  rw [uadd_fin]
  obtain ⟨k, hk, hpk, hqk⟩ : ∃ k : Nat, min (-(p : Int)) (-(q : Int)) = -(k : Int) ∧ p ≤ k ∧ q ≤ k :=
    ⟨max p q, by omega, by omega, by omega⟩
  rw [hk, show (-(p : Int) - -(k : Int)).toNat = k - p by omega, show (-(q : Int) - -(k : Int)).toNat = k - q by omega,
    apply_scaled s₁ A p k hpk, apply_scaled s₂ B q k hqk, ← Int.add_mul, hd, Int.zero_mul, normalize_zero]

/-! ## `Float.ofInt a ± Float.ofInt b` -/

theorem log2_le_52 {n : Nat} (h0 : n ≠ 0) (h : n < 2 ^ 53) : n.log2 ≤ 52 := by
  have := (Nat.log2_lt h0).mpr h; omega

/-- **sums of integers are exact in `f64`**: for integers with `|a|, |b|, |a + b| < 2^53`,
`(a as f64) + (b as f64) = (a + b) as f64` (no rounding; a zero sum is `+0.0`). -/
theorem add_int_exact_float (a b : Int) (ha : a.natAbs < 2 ^ 53) (hb : b.natAbs < 2 ^ 53) (hd : (a + b).natAbs < 2 ^ 53) :
    Float.ofInt a + Float.ofInt b = Float.ofInt (a + b) := by
  rw [FX.add_float, ← FX.pack_unpack_float (Float.ofInt (a + b))]
  congr 2
  by_cases ha0 : a = 0
  · subst ha0
    rw [up_ofInt_zero, Int.zero_add]
    by_cases hb0 : b = 0
    · subst hb0; rw [up_ofInt_zero]; rfl
    · obtain ⟨hm, e⟩ := up_ofInt b hb0 hb
      rw [e]; rfl
  · obtain ⟨hma, ea⟩ := up_ofInt a ha0 ha
    by_cases hb0 : b = 0
    · subst hb0
      rw [up_ofInt_zero, Int.add_zero, ea]; rfl
    · obtain ⟨hmb, eb⟩ := up_ofInt b hb0 hb
      rw [ea, eb]
      have hla := log2_le_52 (n := a.natAbs) (by omega) ha
      have hlb := log2_le_52 (n := b.natAbs) (by omega) hb
      have e1 : (a.natAbs.log2 : Int) - 52 = (-((52 - a.natAbs.log2 : Nat) : Int)) := by omega
      have e2 : (b.natAbs.log2 : Int) - 52 = (-((52 - b.natAbs.log2 : Nat) : Int)) := by omega
      by_cases hd0 : a + b = 0
      · rw [hd0, up_ofInt_zero]
        simp only [e1, e2]
        exact uadd_fin_cancel Format.binary64 (isign a) (isign b) a.natAbs b.natAbs _ _ _ _
          (by rw [isign_apply, isign_apply]; exact hd0)
      · obtain ⟨hmd, ed⟩ := up_ofInt (a + b) hd0 hd
        rw [ed]
        have h := uadd_int Format.binary64 (by decide) (isign a) (isign b) a.natAbs b.natAbs (52 - a.natAbs.log2)
          (52 - b.natAbs.log2) hma hmb
          (a + b) (by rw [isign_apply, isign_apply]) hd0 hd
        simp only [← e1, ← e2] at h
        exact h

/-- **differences of integers are exact in `f64`**: `|a|, |b|, |a − b| < 2^53`. -/
theorem sub_int_exact_float (a b : Int) (ha : a.natAbs < 2 ^ 53) (hb : b.natAbs < 2 ^ 53) (hd : (a - b).natAbs < 2 ^ 53) :
    Float.ofInt a - Float.ofInt b = Float.ofInt (a - b) := by
  rw [FMO.sub_float, ← FX.pack_unpack_float (Float.ofInt (a - b))]
  congr 2
  by_cases ha0 : a = 0
  · subst ha0
    rw [up_ofInt_zero]
    by_cases hb0 : b = 0
    · subst hb0; rw [up_ofInt_zero]; rfl
    · obtain ⟨hm, e⟩ := up_ofInt b hb0 hb
      obtain ⟨hm', e'⟩ := up_ofInt (0 - b) (by omega) hd
      rw [e, e']
      show UnpackedFloat.finite (-isign b) _ _ _ = _
      simp only [Int.zero_sub, isign_neg hb0, Int.natAbs_neg]
  · obtain ⟨hma, ea⟩ := up_ofInt a ha0 ha
    by_cases hb0 : b = 0
    · subst hb0
      rw [up_ofInt_zero, Int.sub_zero, ea]; rfl
    · obtain ⟨hmb, eb⟩ := up_ofInt b hb0 hb
      rw [ea, eb]
      by_cases hd0 : a - b = 0
      · have hab : a = b := by omega
        subst hab
        rw [Int.sub_self, up_ofInt_zero, usub_fin]
        simp only [Int.min_self, Int.sub_self, normalize_zero]
      · obtain ⟨hmd, ed⟩ := up_ofInt (a - b) hd0 hd
        rw [ed]
        have hla := log2_le_52 (n := a.natAbs) (by omega) ha
        have hlb := log2_le_52 (n := b.natAbs) (by omega) hb
        have h := usub_int Format.binary64 (by decide) (isign a) (isign b) a.natAbs b.natAbs (52 - a.natAbs.log2)
          (52 - b.natAbs.log2) hma hmb
          (a - b) (by rw [isign_apply, isign_apply]) hd0 hd
        have e1 : (-((52 - a.natAbs.log2 : Nat) : Int)) = (a.natAbs.log2 : Int) - 52 := by omega
        have e2 : (-((52 - b.natAbs.log2 : Nat) : Int)) = (b.natAbs.log2 : Int) - 52 := by omega
        simp only [e1, e2] at h
        exact h


/-! ## bit patterns and comparisons of `Float.ofInt` values -/


/-- the pattern of `Float.ofInt z`, `|z| < 2^53`: `+0.0` for `0`, otherwise sign bit + `FM.intPat |z|`. -/
theorem bits_ofInt (z : Int) (hz : z.natAbs < 2 ^ 53) :
    (Float.ofInt z).toBits.toNat =
      if z = 0 then 0 else if z < 0 then 2 ^ 63 + FM.intPat z.natAbs else FM.intPat z.natAbs := by
  rw [FM.float_ofInt_bits z hz]
  unfold FCL.intBits
  by_cases h0 : z = 0
  · subst h0
    have hr : roundRat fmt64 0 1 = 0 := by unfold roundRat; simp
    simp [hr]
  · rw [if_neg h0, FM.roundRat_int_eq (by omega) hz, sign64]

theorem intPat_pos_lt {n : Nat} (hn : 0 < n) (hlt : n < 2 ^ 53) : 0 < FM.intPat n ∧ FM.intPat n < 2 ^ 63 := by
  obtain ⟨_, _, f3, f4⟩ := FM.intPat_fields hn hlt
  exact ⟨f3, by omega⟩

/-- `FM.intPat` is strictly increasing on `(0, 2^53)`: the pattern order of positive doubles is their value order. -/
theorem intPat_lt {n1 n2 : Nat} (h1 : 0 < n1) (h12 : n1 < n2) (h2 : n2 < 2 ^ 53) : FM.intPat n1 < FM.intPat n2 := by
  obtain ⟨a1, a2, a3⟩ := FM.intM_bounds h1 (by omega : n1 < 2 ^ 53)
  obtain ⟨b1, b2, b3⟩ := FM.intM_bounds (by omega : 0 < n2) h2
  have l1 := (Nat.log2_eq_iff (n := n1) (k := n1.log2) (by omega)).mp rfl
  have l2 := (Nat.log2_eq_iff (n := n2) (k := n2.log2) (by omega)).mp rfl
  have hle : n1.log2 ≤ n2.log2 := by
    apply Nat.le_of_not_lt
    intro hc
    have : 2 ^ (n2.log2 + 1) ≤ 2 ^ n1.log2 := Nat.pow_le_pow_right (by decide) hc
    omega
  unfold FM.intPat
  rcases Nat.lt_or_eq_of_le hle with hl | hl
  · generalize n1 * 2 ^ (52 - n1.log2) = m1 at *
    generalize n2 * 2 ^ (52 - n2.log2) = m2 at *
    generalize n1.log2 = L1 at *
    generalize n2.log2 = L2 at *
    omega
  · rw [hl] at a1 a2 ⊢
    have hm : n1 * 2 ^ (52 - n2.log2) < n2 * 2 ^ (52 - n2.log2) :=
      Nat.mul_lt_mul_of_pos_right h12 (Nat.pow_pos (by decide))
    generalize n1 * 2 ^ (52 - n2.log2) = m1 at *
    generalize n2 * 2 ^ (52 - n2.log2) = m2 at *
    omega

/-- the signed magnitude of the pattern of `Float.ofInt z`. -/
def ikey (z : Int) : Int :=
  if z < 0 then -(FM.intPat z.natAbs : Int) else if z = 0 then 0 else (FM.intPat z.natAbs : Int)

/-- the `total_cmp` key of `Float.ofInt z`. -/
def tkey (z : Int) : Int :=
  if z < 0 then -(FM.intPat z.natAbs : Int) - 1 else if z = 0 then 0 else (FM.intPat z.natAbs : Int)

theorem ikey_mono {a b : Int} (ha : a.natAbs < 2 ^ 53) (hb : b.natAbs < 2 ^ 53) (h : a < b) : ikey a < ikey b := by
  unfold ikey
  by_cases ha0 : a < 0
  · rw [if_pos ha0]
    have pa := intPat_pos_lt (n := a.natAbs) (by omega) ha
    by_cases hb0 : b < 0
    · rw [if_pos hb0]
      have := intPat_lt (n1 := b.natAbs) (n2 := a.natAbs) (by omega) (by omega) ha
      omega
    · rw [if_neg hb0]
      by_cases hbz : b = 0
      · rw [if_pos hbz]; omega
      · rw [if_neg hbz]; omega
  · rw [if_neg ha0, if_neg (by omega : ¬ b < 0), if_neg (by omega : ¬ b = 0)]
    have pb := intPat_pos_lt (n := b.natAbs) (by omega) hb
    by_cases haz : a = 0
    · rw [if_pos haz]; omega
    · rw [if_neg haz]
      have := intPat_lt (n1 := a.natAbs) (n2 := b.natAbs) (by omega) (by omega) hb
      omega

theorem tkey_mono {a b : Int} (ha : a.natAbs < 2 ^ 53) (hb : b.natAbs < 2 ^ 53) (h : a < b) : tkey a < tkey b := by
  unfold tkey
  by_cases ha0 : a < 0
  · rw [if_pos ha0]
    have pa := intPat_pos_lt (n := a.natAbs) (by omega) ha
    by_cases hb0 : b < 0
    · rw [if_pos hb0]
      have := intPat_lt (n1 := b.natAbs) (n2 := a.natAbs) (by omega) (by omega) ha
      omega
    · rw [if_neg hb0]
      by_cases hbz : b = 0
      · rw [if_pos hbz]; omega
      · rw [if_neg hbz]; omega
  · rw [if_neg ha0, if_neg (by omega : ¬ b < 0), if_neg (by omega : ¬ b = 0)]
    have pb := intPat_pos_lt (n := b.natAbs) (by omega) hb
    by_cases haz : a = 0
    · rw [if_pos haz]; omega
    · rw [if_neg haz]
      have := intPat_lt (n1 := a.natAbs) (n2 := b.natAbs) (by omega) (by omega) hb
      omega

theorem ikey_lt_iff {a b : Int} (ha : a.natAbs < 2 ^ 53) (hb : b.natAbs < 2 ^ 53) : ikey a < ikey b ↔ a < b := by
  constructor
  · intro h
    apply Int.lt_of_not_ge
    intro hge
    rcases Int.lt_or_eq_of_le hge with h1 | h1
    · have := ikey_mono hb ha h1; omega
    · subst h1; omega
  · exact ikey_mono ha hb

theorem tkey_lt_iff {a b : Int} (ha : a.natAbs < 2 ^ 53) (hb : b.natAbs < 2 ^ 53) : tkey a < tkey b ↔ a < b := by
  constructor
  · intro h
    apply Int.lt_of_not_ge
    intro hge
    rcases Int.lt_or_eq_of_le hge with h1 | h1
    · have := tkey_mono hb ha h1; omega
    · subst h1; omega
  · exact tkey_mono ha hb

/-- **`Float.ofInt z` is never NaN** (`|z| < 2^53`). -/
theorem isNaN_ofInt (z : Int) (hz : z.natAbs < 2 ^ 53) : (Float.ofInt z).isNaN = false := by
  show (Float.ofInt z).toModel.unpack.isNaN = false
  by_cases h0 : z = 0
  · subst h0; rw [up_ofInt_zero]; rfl
  · obtain ⟨hm, e⟩ := up_ofInt z h0 hz
    rw [e]; rfl

theorem fval_ofInt (z : Int) (hz : z.natAbs < 2 ^ 53) : FM.fval (Float.ofInt z) = ikey z := by
  unfold FM.fval FM.sval ikey
  rw [bits_ofInt z hz]
  by_cases h0 : z = 0
  · subst h0; decide
  · rw [if_neg h0]
    have p := intPat_pos_lt (n := z.natAbs) (by omega) hz
    by_cases hneg : z < 0
    · rw [if_pos hneg, if_pos hneg]
      have e1 : (2 ^ 63 + FM.intPat z.natAbs) / 2 ^ 63 = 1 := by omega
      have e2 : (2 ^ 63 + FM.intPat z.natAbs) % 2 ^ 63 = FM.intPat z.natAbs := by omega
      rw [e1, e2]; rfl
    · rw [if_neg hneg, if_neg hneg, if_neg h0]
      have e1 : FM.intPat z.natAbs / 2 ^ 63 = 0 := by omega
      have e2 : FM.intPat z.natAbs % 2 ^ 63 = FM.intPat z.natAbs := by omega
      rw [e1, e2]; rfl

theorem totalKey_ofInt (z : Int) (hz : z.natAbs < 2 ^ 53) : Scalar.totalKey (Float.ofInt z) = tkey z := by
  show f64TotalKey (Float.ofInt z) = _
  unfold f64TotalKey tkey
  simp only []
  rw [bits_ofInt z hz]
  by_cases h0 : z = 0
  · subst h0; decide
  · rw [if_neg h0]
    have p := intPat_pos_lt (n := z.natAbs) (by omega) hz
    by_cases hneg : z < 0
    · rw [if_pos hneg, if_pos hneg, if_neg (by omega)]
      omega
    · rw [if_neg hneg, if_neg hneg, if_pos (by omega), if_neg h0]

/-! ### the comparisons of the driver's `Scalar Float` instance on integer values -/

theorem scalar_lt_eq (x y : Float) : Scalar.lt x y = Float.lt x y := by
  show decide (x.lt y = true) = _
  rw [Bool.decide_eq_true]

theorem scalar_le_eq (x y : Float) : Scalar.le x y = Float.le x y := by
  show decide (x.le y = true) = _
  rw [Bool.decide_eq_true]

/-- **IEEE `<` on `Float.ofInt` values is `<` on the integers.** -/
theorem lt_ofInt (a b : Int) (ha : a.natAbs < 2 ^ 53) (hb : b.natAbs < 2 ^ 53) :
    Scalar.lt (Float.ofInt a) (Float.ofInt b) = decide (a < b) := by
  rw [scalar_lt_eq, Bool.eq_iff_iff, FM.float_lt_iff _ _ (isNaN_ofInt a ha) (isNaN_ofInt b hb), fval_ofInt a ha,
    fval_ofInt b hb, ikey_lt_iff ha hb, decide_eq_true_iff]

/-- **IEEE `<=` on `Float.ofInt` values is `≤` on the integers.** -/
theorem le_ofInt (a b : Int) (ha : a.natAbs < 2 ^ 53) (hb : b.natAbs < 2 ^ 53) :
    Scalar.le (Float.ofInt a) (Float.ofInt b) = decide (a ≤ b) := by
  rw [scalar_le_eq, Bool.eq_iff_iff, FM.float_le_iff _ _ (isNaN_ofInt a ha) (isNaN_ofInt b hb), fval_ofInt a ha,
    fval_ofInt b hb, decide_eq_true_iff]
  have := ikey_lt_iff hb ha
  omega

/-- **IEEE `==` on `Float.ofInt` values is `=` on the integers** (`Float.ofInt 0` is `+0.0`; `−0.0`, which would also compare
equal to it, is not a `Float.ofInt` value). -/
theorem eq_ofInt (a b : Int) (ha : a.natAbs < 2 ^ 53) (hb : b.natAbs < 2 ^ 53) :
    Scalar.eq (Float.ofInt a) (Float.ofInt b) = decide (a = b) := by
  show Float.beq _ _ = _
  rw [Bool.eq_iff_iff, FM.float_beq_iff _ _ (isNaN_ofInt a ha) (isNaN_ofInt b hb), fval_ofInt a ha,
    fval_ofInt b hb, decide_eq_true_iff]
  have h1 := ikey_lt_iff hb ha
  have h2 := ikey_lt_iff ha hb
  constructor
  · intro h; omega
  · intro h; subst h; rfl

theorem isNaN_ofInt_scalar (z : Int) (hz : z.natAbs < 2 ^ 53) : Scalar.isNaN (Float.ofInt z) = false :=
  isNaN_ofInt z hz

/-- **the `total_cmp` order of `Float.ofInt` values is the integer order** (strictly: `Float.ofInt 0` is `+0.0`, whose key `0`
lies strictly between the keys of `Float.ofInt (-1)` and `Float.ofInt 1`; `−0.0`, with key `−1`, is not a `Float.ofInt` value). -/
theorem totalKey_lt_ofInt (a b : Int) (ha : a.natAbs < 2 ^ 53) (hb : b.natAbs < 2 ^ 53) :
    Scalar.totalKey (Float.ofInt a) < Scalar.totalKey (Float.ofInt b) ↔ a < b := by
  rw [totalKey_ofInt a ha, totalKey_ofInt b hb, tkey_lt_iff ha hb]

theorem totalKey_le_ofInt (a b : Int) (ha : a.natAbs < 2 ^ 53) (hb : b.natAbs < 2 ^ 53) :
    Scalar.totalKey (Float.ofInt a) ≤ Scalar.totalKey (Float.ofInt b) ↔ a ≤ b := by
  have := totalKey_lt_ofInt b a hb ha
  omega

theorem totalKey_eq_ofInt (a b : Int) (ha : a.natAbs < 2 ^ 53) (hb : b.natAbs < 2 ^ 53) :
    Scalar.totalKey (Float.ofInt a) = Scalar.totalKey (Float.ofInt b) ↔ a = b := by
  have h1 := totalKey_lt_ofInt b a hb ha
  have h2 := totalKey_lt_ofInt a b ha hb
  omega

/-- `Float.ofInt` is injective below `2^53`. -/
theorem ofInt_inj (a b : Int) (ha : a.natAbs < 2 ^ 53) (hb : b.natAbs < 2 ^ 53) (h : Float.ofInt a = Float.ofInt b) : a = b :=
  (totalKey_eq_ofInt a b ha hb).mp (by rw [h])

/-- the `Scalar` instance's `ofInt`, and its numeric literals, are `Float.ofInt`. -/
theorem scalar_ofInt (z : Int) : (Scalar.ofInt z : Float) = Float.ofInt z := rfl
theorem scalar_ofNat (n : Nat) : (OfNat.ofNat n : Float) = Float.ofInt (n : Int) := rfl

/-- closed instances, by the kernel. -/
example : Float.ofInt 4503599627370495 + Float.ofInt 4503599627370495 = Float.ofInt 9007199254740990 ∧
    Float.ofInt 1000 + Float.ofInt (-1000) = Float.ofInt 0 ∧ (Float.ofInt 0).toBits = 0 ∧
    Float.ofInt (-7) - Float.ofInt (-7) = Float.ofInt 0 ∧
    Scalar.lt (Float.ofInt (-1)) (Float.ofInt 0) = true ∧ Scalar.totalKey (Float.ofInt 0) = 0 := by decide +kernel

/-- the bound is sharp: `2^53 + 1` is not representable (`2^53 + 1` rounds to `2^53`). -/
example : Float.ofInt 9007199254740992 + Float.ofInt 1 ≠ Float.ofInt 9007199254740993 ∨
    Float.ofInt 9007199254740993 = Float.ofInt 9007199254740992 := by decide +kernel

end Rosu.FIE
