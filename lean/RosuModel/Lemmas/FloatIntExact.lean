import RosuModel.Lemmas.FloatTrunc
import RosuModel.Lemmas.FloatModelOfInt
namespace Rosu.FIE
open Rosu Float.Model Float.Model.UnpackedFloat FMR FMO FTR

/-- **the unpacked `f64` of a non-zero integer** `|z| < 2^53`. -/
theorem up_ofInt (z : Int) (h0 : z ≠ 0) (hz : z.natAbs < 2 ^ 53) :
    IsFin (Float.ofInt z).toModel.unpack (isign z) (z.natAbs * 2 ^ (52 - z.natAbs.log2)) ((z.natAbs.log2 : Int) - 52) := by
  cases z with
  | ofNat n =>
    have hn : (Int.ofNat n).natAbs = n := rfl
    rw [hn] at hz ⊢
    have hn0 : 0 < n := by
      rcases Nat.eq_zero_or_pos n with h | h
      · subst h; exact absurd rfl h0
      · exact h
    obtain ⟨b1, b2, b3⟩ := FM.intM_bounds hn0 hz
    have hs : isign (Int.ofNat n) = .positive := by
      unfold isign; rw [if_neg]; exact Int.not_lt.mpr (Int.natCast_nonneg n)
    rw [hs]
    show IsFin (Float.ofNat n).toModel.unpack _ _ _
    rw [FM.float_ofNat_model hn0 hz]
    refine ⟨Nat.mul_pos hn0 (Nat.pow_pos (by decide)), ?_⟩
    exact FM.unpack_pack_normal (spec := Format.binary64) (by decide) _ _ _ _ b1 b2
      (by show 0 < ((n.log2 : Int) - 52) + ((1023 : Nat) : Int) + ((52 : Nat) : Int); omega)
      (by show ((n.log2 : Int) - 52) + ((1023 : Nat) : Int) + ((52 : Nat) : Int) < ((2047 : Nat) : Int); omega)
  | negSucc n =>
    have hn : (Int.negSucc n).natAbs = n + 1 := rfl
    rw [hn] at hz ⊢
    obtain ⟨b1, b2, b3⟩ := FM.intM_bounds ((show 0 < n + 1 by omega)) hz
    have hs : isign (Int.negSucc n) = .negative := by
      unfold isign; rw [if_pos (Int.negSucc_lt_zero n)]
    rw [hs]
    have h3 : 0 < (((n + 1).log2 : Int) - 52) + ((1023 : Nat) : Int) + ((52 : Nat) : Int) := by omega
    have h4 : (((n + 1).log2 : Int) - 52) + ((1023 : Nat) : Int) + ((52 : Nat) : Int) < ((2047 : Nat) : Int) := by omega
    show IsFin (Float.Model.pack (Float.ofNat (n + 1)).toModel.unpack.neg).unpack _ _ _
    rw [FM.float_ofNat_model ((show 0 < n + 1 by omega)) hz]
    show IsFin (UnpackedFloat.unpack Format.binary64 (pack Format.binary64
      (UnpackedFloat.unpack Format.binary64 (pack Format.binary64 _)).neg)) _ _ _
    rw [FM.unpack_pack_normal (spec := Format.binary64) (by decide) _ _ _ _ b1 b2 h3 h4]
    refine ⟨Nat.mul_pos ((show 0 < n + 1 by omega)) (Nat.pow_pos (by decide)), ?_⟩
    exact FM.unpack_pack_normal (spec := Format.binary64) (by decide) .negative _ _ _ b1 b2 h3 h4


theorem ofInt_zero_eq : Float.ofInt 0 = FMO.pzero64 := by decide +kernel

theorem up_ofInt_zero : (Float.ofInt 0).toModel.unpack = .zero .positive := by
  rw [ofInt_zero_eq]; exact FX.unpack_zero64 .positive

/-! ## exact sums and differences of integer-valued unpacked floats (any format) -/

theorem uadd_fin (spec : Format) (s₁ s₂ : Sign) (m₁ m₂ : Nat) (e₁ e₂ : Int) (h₁ h₂) :
    UnpackedFloat.add spec (.finite s₁ m₁ e₁ h₁) (.finite s₂ m₂ e₂ h₂) =
      normalize spec (s₁.apply ((m₁ * 2 ^ (e₁ - min e₁ e₂).toNat : Nat) : Int) +
        s₂.apply ((m₂ * 2 ^ (e₂ - min e₁ e₂).toNat : Nat) : Int)) (min e₁ e₂) .positive := by
  simp only [UnpackedFloat.add, decreaseExponent, Nat.shiftLeft_eq]

/-- **the sum of two integer-valued floats is exact** as long as the result has at most `M + 1` bits. -/
theorem uadd_int (spec : Format) (hE : 2 ≤ spec.exponentBits) (s₁ s₂ : Sign) (A B p q : Nat) (h₁ h₂) (d : Int)
    (hd : s₁.apply (A : Int) + s₂.apply (B : Int) = d) (hd0 : d ≠ 0)
    (hlt : d.natAbs < 2 ^ (spec.mantissaBitsWithoutImplicit + 1)) :
    UnpackedFloat.add spec (.finite s₁ (A * 2 ^ p) (-(p : Int)) h₁) (.finite s₂ (B * 2 ^ q) (-(q : Int)) h₂) =
      .finite (isign d) (d.natAbs * 2 ^ (spec.mantissaBitsWithoutImplicit - d.natAbs.log2))
        ((d.natAbs.log2 : Int) - spec.mantissaBitsWithoutImplicit)
        (Nat.mul_pos (by omega) (Nat.pow_pos (by decide))) := by
  rw [uadd_fin]
  obtain ⟨k, hk, hpk, hqk⟩ : ∃ k : Nat, min (-(p : Int)) (-(q : Int)) = -(k : Int) ∧ p ≤ k ∧ q ≤ k :=
    ⟨max p q, by omega, by omega, by omega⟩
  rw [hk, show (-(p : Int) - -(k : Int)).toNat = k - p by omega, show (-(q : Int) - -(k : Int)).toNat = k - q by omega,
    apply_scaled s₁ A p k hpk, apply_scaled s₂ B q k hqk, ← Int.add_mul, hd]
  have hpow : (0 : Int) < ((2 ^ k : Nat) : Int) := Int.natCast_pos.mpr (Nat.pow_pos (by decide))
  unfold isign
  by_cases hneg : d < 0
  · rw [if_pos hneg, normalize_neg _ _ _ _ (Int.mul_neg_of_neg_of_pos hneg hpow)]
    have : (-(d * ((2 ^ k : Nat) : Int))).toNat = d.natAbs * 2 ^ k := by
      rw [← Int.neg_mul, show -d = (d.natAbs : Int) by omega, ← Int.natCast_mul, Int.toNat_natCast]
    rw [this]
    exact round_int_scaled spec hE .negative d.natAbs k (by omega) hlt
  · rw [if_neg hneg, normalize_pos _ _ _ _ (Int.mul_pos (by omega) hpow)]
    have : (d * ((2 ^ k : Nat) : Int)).toNat = d.natAbs * 2 ^ k := by
      rw [show d = (d.natAbs : Int) by omega, ← Int.natCast_mul, Int.toNat_natCast]
      simp
    rw [this]
    exact round_int_scaled spec hE .positive d.natAbs k (by omega) hlt

theorem uadd_fin_cancel (spec : Format) (s₁ s₂ : Sign) (A B p q : Nat) (h₁ h₂)
    (hd : s₁.apply (A : Int) + s₂.apply (B : Int) = 0) :
    UnpackedFloat.add spec (.finite s₁ (A * 2 ^ p) (-(p : Int)) h₁) (.finite s₂ (B * 2 ^ q) (-(q : Int)) h₂) =
      .zero .positive := by
  rw [uadd_fin]
  obtain ⟨k, hk, hpk, hqk⟩ : ∃ k : Nat, min (-(p : Int)) (-(q : Int)) = -(k : Int) ∧ p ≤ k ∧ q ≤ k :=
    ⟨max p q, by omega, by omega, by omega⟩
  rw [hk, show (-(p : Int) - -(k : Int)).toNat = k - p by omega, show (-(q : Int) - -(k : Int)).toNat = k - q by omega,
    apply_scaled s₁ A p k hpk, apply_scaled s₂ B q k hqk, ← Int.add_mul, hd, Int.zero_mul, normalize_zero]

/-! ## `Float.ofInt a ± Float.ofInt b` -/

theorem log2_le_52 {n : Nat} (h0 : n ≠ 0) (h : n < 2 ^ 53) : n.log2 ≤ 52 := by
  have := (Nat.log2_lt h0).mpr h; omega

/-- **sums of integers are exact in `f64`**: for integers with `|a|, |b|, |a + b| < 2^53`,
`(a as f64) + (b as f64) = (a + b) as f64` (no rounding; a zero sum is `+0.0`). -/
theorem add_int_exact_float (a b : Int) (ha : a.natAbs < 2 ^ 53) (hb : b.natAbs < 2 ^ 53) (hd : (a + b).natAbs < 2 ^ 53) :
    Float.ofInt a + Float.ofInt b = Float.ofInt (a + b) := by
  rw [FX.add_float, ← FX.pack_unpack_float (Float.ofInt (a + b))]
  congr 2
  by_cases ha0 : a = 0
  · subst ha0
    rw [up_ofInt_zero, Int.zero_add]
    by_cases hb0 : b = 0
    · subst hb0; rw [up_ofInt_zero]; rfl
    · obtain ⟨hm, e⟩ := up_ofInt b hb0 hb
      rw [e]; rfl
  · obtain ⟨hma, ea⟩ := up_ofInt a ha0 ha
    by_cases hb0 : b = 0
    · subst hb0
      rw [up_ofInt_zero, Int.add_zero, ea]; rfl
    · obtain ⟨hmb, eb⟩ := up_ofInt b hb0 hb
      rw [ea, eb]
      have hla := log2_le_52 (n := a.natAbs) (by omega) ha
      have hlb := log2_le_52 (n := b.natAbs) (by omega) hb
      have e1 : (a.natAbs.log2 : Int) - 52 = (-((52 - a.natAbs.log2 : Nat) : Int)) := by omega
      have e2 : (b.natAbs.log2 : Int) - 52 = (-((52 - b.natAbs.log2 : Nat) : Int)) := by omega
      by_cases hd0 : a + b = 0
      · rw [hd0, up_ofInt_zero]
        simp only [e1, e2]
        exact uadd_fin_cancel Format.binary64 (isign a) (isign b) a.natAbs b.natAbs _ _ _ _
          (by rw [isign_apply, isign_apply]; exact hd0)
      · obtain ⟨hmd, ed⟩ := up_ofInt (a + b) hd0 hd
        rw [ed]
        have h := uadd_int Format.binary64 (by decide) (isign a) (isign b) a.natAbs b.natAbs (52 - a.natAbs.log2)
          (52 - b.natAbs.log2) hma hmb
          (a + b) (by rw [isign_apply, isign_apply]) hd0 hd
        simp only [← e1, ← e2] at h
        exact h

/-- **differences of integers are exact in `f64`**: `|a|, |b|, |a − b| < 2^53`. -/
theorem sub_int_exact_float (a b : Int) (ha : a.natAbs < 2 ^ 53) (hb : b.natAbs < 2 ^ 53) (hd : (a - b).natAbs < 2 ^ 53) :
    Float.ofInt a - Float.ofInt b = Float.ofInt (a - b) := by
  rw [FMO.sub_float, ← FX.pack_unpack_float (Float.ofInt (a - b))]
  congr 2
  by_cases ha0 : a = 0
  · subst ha0
    rw [up_ofInt_zero]
    by_cases hb0 : b = 0
    · subst hb0; rw [up_ofInt_zero]; rfl
    · obtain ⟨hm, e⟩ := up_ofInt b hb0 hb
      obtain ⟨hm', e'⟩ := up_ofInt (0 - b) (by omega) hd
      rw [e, e']
      show UnpackedFloat.finite (-isign b) _ _ _ = _
      simp only [Int.zero_sub, isign_neg hb0, Int.natAbs_neg]
  · obtain ⟨hma, ea⟩ := up_ofInt a ha0 ha
    by_cases hb0 : b = 0
    · subst hb0
      rw [up_ofInt_zero, Int.sub_zero, ea]; rfl
    · obtain ⟨hmb, eb⟩ := up_ofInt b hb0 hb
      rw [ea, eb]
      by_cases hd0 : a - b = 0
      · have hab : a = b := by omega
        subst hab
        rw [Int.sub_self, up_ofInt_zero, usub_fin]
        simp only [Int.min_self, Int.sub_self, normalize_zero]
      · obtain ⟨hmd, ed⟩ := up_ofInt (a - b) hd0 hd
        rw [ed]
        have hla := log2_le_52 (n := a.natAbs) (by omega) ha
        have hlb := log2_le_52 (n := b.natAbs) (by omega) hb
        have h := usub_int Format.binary64 (by decide) (isign a) (isign b) a.natAbs b.natAbs (52 - a.natAbs.log2)
          (52 - b.natAbs.log2) hma hmb
          (a - b) (by rw [isign_apply, isign_apply]) hd0 hd
        have e1 : (-((52 - a.natAbs.log2 : Nat) : Int)) = (a.natAbs.log2 : Int) - 52 := by omega
        have e2 : (-((52 - b.natAbs.log2 : Nat) : Int)) = (b.natAbs.log2 : Int) - 52 := by omega
        simp only [e1, e2] at h
        exact h

end Rosu.FIE
