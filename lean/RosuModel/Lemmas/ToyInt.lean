/-
  Lemmas/ToyInt.lean — a toy arithmetic on `Int` (`sqrt` = absolute value, `EPSILON` = 1), used only for
  non-vacuity examples of the structural theorems: those use no arithmetic law, so any instance will do, and
  this one evaluates in the kernel (`decide` / `rfl`).
-/
import RosuModel.Model.Curve
namespace Rosu.Toy

instance : Scalar Int where
  ofNat n := n
  ofSci m s e := if s then (m : Int) / (10 ^ e : Nat) else (m : Int) * (10 ^ e : Nat)
  lt a b := decide (a < b)
  le a b := decide (a ≤ b)
  eq a b := decide (a = b)
  isNaN _ := false
  abs a := a.natAbs
  sqrt a := a.natAbs
  ceil a := a
  eps := 1
  ofInt a := a
  toI32 a := a
  toUsize a := a.toNat
  totalKey a := a
  parse _ := none
  print _ := []

instance : Cvt Int Int where
  up a := a
  down a := a

instance : Trig Int where
  sin _ := 0
  cos _ := 1
  acos _ := 0
  atan2 _ _ := 0
  pi := 3

abbrev pt (x y : Int) : Pos Int := ⟨x, y⟩
abbrev cp (x y : Int) (t : Option PathType := none) : PathControlPoint Int := ⟨⟨x, y⟩, t⟩

end Rosu.Toy
