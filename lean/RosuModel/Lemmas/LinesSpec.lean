/-
  Lemmas/LinesSpec.lean — closed forms of the lines the reader yields on a fault-free stream:
  structural line splitting at the byte 0x0A (`rawLines`; for UTF-16LE with one extra byte,
  `rawLinesLE` / `leDangling`). Shared by C09 and C10.
-/
import RosuModel.Lemmas.ReaderSpec
namespace Rosu

/-- prepend an element to the first line. -/
def consHead {α : Type} (a : α) : List (List α) → List (List α)
  | [] => [[a]]
  | l :: ls => (a :: l) :: ls

/-- cut after every element satisfying `isLF` (the terminator stays with its line); no empty last line. -/
def linesBy {α : Type} (isLF : α → Bool) : List α → List (List α)
  | [] => []
  | a :: as => if isLF a then [a] :: linesBy isLF as else consHead a (linesBy isLF as)

def isLFb (b : UInt8) : Bool := b == 0x0A

/-- the raw lines `read_until(b'\n')` cuts a byte stream into. -/
def rawLines (bs : List UInt8) : List (List UInt8) := linesBy isLFb bs

theorem linesBy_ne_nil {α : Type} (isLF : α → Bool) (l : List α) (h : l ≠ []) : linesBy isLF l ≠ [] := by
  cases l with
  | nil => exact absurd rfl h
  | cons a as =>
    simp only [linesBy]
    split
    · simp
    · cases linesBy isLF as <;> simp [consHead]

theorem consHead_append {α : Type} (a : α) (l m : List (List α)) (h : l ≠ []) :
    consHead a (l ++ m) = consHead a l ++ m := by
  cases l with
  | nil => exact absurd rfl h
  | cons x xs => rfl

/-- everything after a line terminator is cut independently of what precedes it. -/
theorem linesBy_append_lf {α : Type} (isLF : α → Bool) (a : List α) (lf : α) (b : List α) (h : isLF lf = true) :
    linesBy isLF (a ++ lf :: b) = linesBy isLF (a ++ [lf]) ++ linesBy isLF b := by
  induction a with
  | nil => simp [linesBy, h]
  | cons x a ih =>
    simp only [List.cons_append, linesBy]
    split
    · simp [ih]
    · rw [ih, consHead_append _ _ _ (linesBy_ne_nil _ _ (by simp))]

/-- a block without terminator in front of a stream joins the first line. -/
theorem linesBy_append_nonLF {α : Type} (isLF : α → Bool) (p rest : List α)
    (hp : ∀ x ∈ p, isLF x = false) (hne : p ≠ []) :
    linesBy isLF (p ++ rest) =
      match linesBy isLF rest with
      | [] => [p]
      | l :: ls => (p ++ l) :: ls := by
  induction p with
  | nil => exact absurd rfl hne
  | cons x p ih =>
    have hx : isLF x = false := hp x (by simp)
    simp only [List.cons_append, linesBy, hx, Bool.false_eq_true, if_false]
    cases p with
    | nil =>
      simp only [List.nil_append]
      cases linesBy isLF rest <;> rfl
    | cons y p' =>
      rw [ih (fun z hz => hp z (by simp [hz])) (by simp)]
      cases linesBy isLF rest <;> rfl

theorem rawLines_split (bs : List UInt8) :
    rawLines bs =
      match splitAtLF bs with
      | (p, some rest) => p :: rawLines rest
      | (p, none) => if p.isEmpty then [] else [p] := by
  induction bs with
  | nil => simp [rawLines, linesBy, splitAtLF]
  | cons x xs ih =>
    unfold rawLines at ih ⊢
    simp only [linesBy, splitAtLF, isLFb]
    by_cases hx : (x == 0x0A) = true
    · simp [hx]
    · simp only [hx, Bool.false_eq_true, if_false, ih]
      cases hs : splitAtLF xs with
      | mk p o =>
        cases o with
        | some r => rfl
        | none =>
          simp only []
          cases p <;> simp [consHead]

theorem linesSpec_nil (enc : Encoding) : linesSpec enc none [] = ([], none) := by
  rw [linesSpec_unfold]; simp [rawSpec, untilSpec, splitAtLF]

/-- **UTF-8 / UTF-16BE:** the lines are the decoded, end-trimmed raw lines; no error. -/
theorem linesSpec_rawLines (enc : Encoding) (henc : (enc == Encoding.utf16le) = false) (bs : List UInt8) :
    linesSpec enc none bs = ((rawLines bs).map (currLine enc), none) := by
  suffices h : ∀ n, ∀ bs : List UInt8, bs.length ≤ n →
      linesSpec enc none bs = ((rawLines bs).map (currLine enc), none) from h _ bs (Nat.le_refl _)
  intro n
  induction n with
  | zero =>
    intro bs hl
    have : bs = [] := List.eq_nil_of_length_eq_zero (by omega)
    subst this
    rw [linesSpec_nil]; rfl
  | succ n ih =>
    intro bs hl
    rw [linesSpec_unfold, rawLines_split]
    cases hq : rawSpec enc bs none with
    | mk r rest =>
      have hlt : ∀ buf, r = .ok (some buf) → rest.length < bs.length := fun buf e => rawSpec_some_lt (e ▸ hq)
      unfold rawSpec untilSpec at hq
      cases hs : splitAtLF bs with
      | mk p o =>
        rw [hs] at hq
        cases o with
        | some r0 =>
          have hne := splitAtLF_some_ne_nil hs
          have : p.isEmpty = false := by cases p <;> simp_all
          simp [this, henc] at hq
          obtain ⟨h1, h2⟩ := hq
          subst h1; subst h2
          have := hlt p rfl
          simp only []
          rw [ih r0 (by omega)]
          simp
        | none =>
          by_cases hp : p.isEmpty = true
          · simp [hp] at hq
            obtain ⟨h1, h2⟩ := hq
            subst h1; subst h2
            simp [hp]
          · simp [hp, henc] at hq
            obtain ⟨h1, h2⟩ := hq
            subst h1; subst h2
            simp [hp, linesSpec_nil]

/-! ### UTF-16LE: one more byte after each 0x0A -/

/-- the UTF-16LE reader ends on a 0x0A byte with no byte after it. -/
def leDangling : List UInt8 → Bool
  | [] => false
  | b :: bs =>
    if b == 0x0A then
      match bs with
      | [] => true
      | _ :: r => leDangling r
    else leDangling bs

def rawLinesLE : List UInt8 → List (List UInt8)
  | [] => []
  | b :: bs =>
    if b == 0x0A then
      match bs with
      | [] => [[b]]
      | c :: r => [b, c] :: rawLinesLE r
    else consHead b (rawLinesLE bs)

theorem leDangling_split (bs : List UInt8) :
    leDangling bs =
      match splitAtLF bs with
      | (_, some []) => true
      | (_, some (_ :: r)) => leDangling r
      | (_, none) => false := by
  induction bs with
  | nil => simp [leDangling, splitAtLF]
  | cons x xs ih =>
    by_cases hx : (x == 0x0A) = true
    · cases xs <;> simp [leDangling, splitAtLF, hx]
    · have e : leDangling (x :: xs) = leDangling xs := by cases xs <;> simp [leDangling, hx]
      rw [e, ih]
      simp only [splitAtLF, hx, Bool.false_eq_true, if_false]
      cases hs : splitAtLF xs with
      | mk p o =>
        cases o with
        | none => rfl
        | some r => cases r <;> rfl

theorem rawLinesLE_split (bs : List UInt8) :
    rawLinesLE bs =
      match splitAtLF bs with
      | (p, some []) => [p]
      | (p, some (c :: r)) => (p ++ [c]) :: rawLinesLE r
      | (p, none) => if p.isEmpty then [] else [p] := by
  induction bs with
  | nil => simp [rawLinesLE, splitAtLF]
  | cons x xs ih =>
    by_cases hx : (x == 0x0A) = true
    · cases xs <;> simp [rawLinesLE, splitAtLF, hx]
    · have e : rawLinesLE (x :: xs) = consHead x (rawLinesLE xs) := by cases xs <;> simp [rawLinesLE, hx]
      rw [e, ih]
      simp only [splitAtLF, hx, Bool.false_eq_true, if_false]
      cases hs : splitAtLF xs with
      | mk p o =>
        cases o with
        | none => simp only []; cases p <;> simp [consHead]
        | some r => cases r <;> rfl

/-- **UTF-16LE:** reading ends with `UnexpectedEof` exactly on a dangling 0x0A; otherwise the lines
are the decoded raw lines. -/
theorem linesSpec_rawLinesLE (bs : List UInt8) :
    (linesSpec .utf16le none bs).2 = (if leDangling bs then some IoKind.unexpectedEof else none) ∧
    (leDangling bs = false →
      (linesSpec .utf16le none bs).1 = (rawLinesLE bs).map (currLine .utf16le)) := by
  suffices h : ∀ n, ∀ bs : List UInt8, bs.length ≤ n →
      (linesSpec .utf16le none bs).2 = (if leDangling bs then some IoKind.unexpectedEof else none) ∧
      (leDangling bs = false →
        (linesSpec .utf16le none bs).1 = (rawLinesLE bs).map (currLine .utf16le)) from h _ bs (Nat.le_refl _)
  intro n
  induction n with
  | zero =>
    intro bs hl
    have : bs = [] := List.eq_nil_of_length_eq_zero (by omega)
    subst this
    rw [linesSpec_nil]; simp [leDangling, rawLinesLE]
  | succ n ih =>
    intro bs hl
    rw [linesSpec_unfold, rawLinesLE_split, leDangling_split]
    cases hq : rawSpec .utf16le bs none with
    | mk r rest =>
      have hlt : ∀ buf, r = .ok (some buf) → rest.length < bs.length := fun buf e => rawSpec_some_lt (e ▸ hq)
      unfold rawSpec untilSpec at hq
      cases hs : splitAtLF bs with
      | mk p o =>
        rw [hs] at hq
        cases o with
        | some r0 =>
          have hne := splitAtLF_some_ne_nil hs
          have hends := splitAtLF_some_ends hs
          have : p.isEmpty = false := by cases p <;> simp_all
          cases r0 with
          | nil =>
            simp [this, hends, byteSpec] at hq
            obtain ⟨h1, h2⟩ := hq
            subst h1; subst h2
            simp
          | cons c r1 =>
            simp [this, hends, byteSpec] at hq
            obtain ⟨h1, h2⟩ := hq
            subst h1; subst h2
            have := hlt _ rfl
            obtain ⟨i1, i2⟩ := ih r1 (by omega)
            simp only []
            refine ⟨i1, fun hd => ?_⟩
            rw [i2 hd]; simp
        | none =>
          have hno := (splitAtLF_none_noLF hs).2
          by_cases hp : p.isEmpty = true
          · simp [hp] at hq
            obtain ⟨h1, h2⟩ := hq
            subst h1; subst h2
            simp [hp]
          · simp [hp, hno] at hq
            obtain ⟨h1, h2⟩ := hq
            subst h1; subst h2
            simp [hp, linesSpec_nil]

end Rosu
