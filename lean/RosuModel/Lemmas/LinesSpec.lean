/-
  Lemmas/LinesSpec.lean — closed forms of the lines the reader yields on a fault-free stream:
  structural line splitting at the byte 0x0A for UTF-8 (`rawLines`), and for UTF-16 the first
  line as a structural scan with index parity (`scanBE`, `scanLE`). Shared by C09 and C10.
-/
import RosuModel.Lemmas.ReaderSpec
namespace Rosu

/-- prepend an element to the first line. -/
def consHead {α : Type} (a : α) : List (List α) → List (List α)
  | [] => [[a]]
  | l :: ls => (a :: l) :: ls

/-- cut after every element satisfying `isLF` (the terminator stays with its line); no empty last line. -/
def linesBy {α : Type} (isLF : α → Bool) : List α → List (List α)
  | [] => []
  | a :: as => if isLF a then [a] :: linesBy isLF as else consHead a (linesBy isLF as)

def isLFb (b : UInt8) : Bool := b == 0x0A

/-- the raw lines `read_until(b'\n')` cuts a byte stream into. -/
def rawLines (bs : List UInt8) : List (List UInt8) := linesBy isLFb bs

theorem linesBy_ne_nil {α : Type} (isLF : α → Bool) (l : List α) (h : l ≠ []) : linesBy isLF l ≠ [] := by
  cases l with
  | nil => exact absurd rfl h
  | cons a as =>
    simp only [linesBy]
    split
    · simp
    · cases linesBy isLF as <;> simp [consHead]

theorem consHead_append {α : Type} (a : α) (l m : List (List α)) (h : l ≠ []) :
    consHead a (l ++ m) = consHead a l ++ m := by
  cases l with
  | nil => exact absurd rfl h
  | cons x xs => rfl

/-- everything after a line terminator is cut independently of what precedes it. -/
theorem linesBy_append_lf {α : Type} (isLF : α → Bool) (a : List α) (lf : α) (b : List α) (h : isLF lf = true) :
    linesBy isLF (a ++ lf :: b) = linesBy isLF (a ++ [lf]) ++ linesBy isLF b := by
  induction a with
  | nil => simp [linesBy, h]
  | cons x a ih =>
    simp only [List.cons_append, linesBy]
    split
    · simp [ih]
    · rw [ih, consHead_append _ _ _ (linesBy_ne_nil _ _ (by simp))]

/-- a block without terminator in front of a stream joins the first line. -/
theorem linesBy_append_nonLF {α : Type} (isLF : α → Bool) (p rest : List α)
    (hp : ∀ x ∈ p, isLF x = false) (hne : p ≠ []) :
    linesBy isLF (p ++ rest) =
      match linesBy isLF rest with
      | [] => [p]
      | l :: ls => (p ++ l) :: ls := by
  induction p with
  | nil => exact absurd rfl hne
  | cons x p ih =>
    have hx : isLF x = false := hp x (by simp)
    simp only [List.cons_append, linesBy, hx, Bool.false_eq_true, if_false]
    cases p with
    | nil =>
      simp only [List.nil_append]
      cases linesBy isLF rest <;> rfl
    | cons y p' =>
      rw [ih (fun z hz => hp z (by simp [hz])) (by simp)]
      cases linesBy isLF rest <;> rfl

theorem rawLines_split (bs : List UInt8) :
    rawLines bs =
      match splitAtLF bs with
      | (p, some rest) => p :: rawLines rest
      | (p, none) => if p.isEmpty then [] else [p] := by
  induction bs with
  | nil => simp [rawLines, linesBy, splitAtLF]
  | cons x xs ih =>
    unfold rawLines at ih ⊢
    simp only [linesBy, splitAtLF, isLFb]
    by_cases hx : (x == 0x0A) = true
    · simp [hx]
    · simp only [hx, Bool.false_eq_true, if_false, ih]
      cases hs : splitAtLF xs with
      | mk p o =>
        cases o with
        | some r => rfl
        | none =>
          simp only []
          cases p <;> simp [consHead]

/-! ### the shape of a `splitAtLF` result -/

/-- generic `splitAtLF`. -/
def splitG {α : Type} (isLF : α → Bool) : List α → List α × Option (List α)
  | [] => ([], none)
  | a :: as => if isLF a then ([a], some as) else (a :: (splitG isLF as).1, (splitG isLF as).2)

theorem splitAtLF_eq_splitG (bs : List UInt8) : splitAtLF bs = splitG isLFb bs := by
  induction bs with
  | nil => rfl
  | cons x xs ih =>
    simp only [splitAtLF, splitG, isLFb]
    by_cases hx : (x == 0x0A) = true
    · simp [hx]
    · simp only [hx, Bool.false_eq_true, if_false, ih]

theorem splitG_some_form {α : Type} (isLF : α → Bool) (l p rest : List α) (h : splitG isLF l = (p, some rest)) :
    ∃ p' x, p = p' ++ [x] ∧ isLF x = true ∧ (∀ y ∈ p', isLF y = false) ∧ l = p ++ rest := by
  induction l generalizing p with
  | nil => simp [splitG] at h
  | cons a as ih =>
    simp only [splitG] at h
    by_cases ha : isLF a = true
    · simp [ha] at h
      exact ⟨[], a, by simp [h.1], ha, by simp, by simp [← h.1, h.2]⟩
    · simp only [ha, Bool.false_eq_true, if_false] at h
      cases hs : splitG isLF as with
      | mk p0 o =>
        rw [hs] at h
        simp at h
        obtain ⟨h1, h2⟩ := h
        subst h1; subst h2
        obtain ⟨p', x, e1, e2, e3, e4⟩ := ih p0 hs
        refine ⟨a :: p', x, by simp [e1], e2, ?_, by simp [e4]⟩
        intro y hy
        simp only [List.mem_cons] at hy
        cases hy with
        | inl h => subst h; simpa using ha
        | inr h => exact e3 y h

theorem splitG_none_form {α : Type} (isLF : α → Bool) (l p : List α) (h : splitG isLF l = (p, none)) :
    p = l ∧ ∀ y ∈ l, isLF y = false := by
  induction l generalizing p with
  | nil => simp [splitG] at h; simp [h]
  | cons a as ih =>
    simp only [splitG] at h
    by_cases ha : isLF a = true
    · simp [ha] at h
    · simp only [ha, Bool.false_eq_true, if_false] at h
      cases hs : splitG isLF as with
      | mk p0 o =>
        rw [hs] at h
        simp at h
        obtain ⟨h1, h2⟩ := h
        subst h1; subst h2
        obtain ⟨e1, e2⟩ := ih p0 hs
        refine ⟨by rw [e1], ?_⟩
        intro y hy
        simp only [List.mem_cons] at hy
        cases hy with
        | inl h => subst h; simpa using ha
        | inr h => exact e2 y h

theorem linesBy_splitG {α : Type} (isLF : α → Bool) (l : List α) :
    linesBy isLF l =
      match splitG isLF l with
      | (p, some rest) => p :: linesBy isLF rest
      | (p, none) => if p.isEmpty then [] else [p] := by
  induction l with
  | nil => simp [linesBy, splitG]
  | cons x xs ih =>
    simp only [linesBy, splitG]
    by_cases hx : isLF x = true
    · simp [hx]
    · simp only [hx, Bool.false_eq_true, if_false, ih]
      cases hs : splitG isLF xs with
      | mk p o =>
        cases o with
        | some r => rfl
        | none =>
          simp only []
          cases p <;> simp [consHead]

theorem endsWithLF_append_lf (a : List UInt8) : endsWithLF (a ++ [0x0A]) = true := by
  simp [endsWithLF]

theorem endsWithLF_append_nonLF (a p : List UInt8) (hne : p ≠ []) (hp : ∀ y ∈ p, isLFb y = false) :
    endsWithLF (a ++ p) = false := by
  have hl : (a ++ p).getLast? = p.getLast? := by
    cases p with
    | nil => exact absurd rfl hne
    | cons x xs =>
      cases hg : (x :: xs).getLast? with
      | none => simp at hg
      | some z => simp [List.getLast?_append, hg]
  unfold endsWithLF
  rw [hl]
  cases hg : p.getLast? with
  | none => rfl
  | some z =>
    have hz : z ∈ p := List.mem_of_getLast? hg
    have := hp z hz
    simp only [isLFb] at this
    simp only [beq_eq_false_iff_ne, ne_eq, Option.some.injEq]
    intro e; subst e; simp at this

theorem linesSpec_nil (enc : Encoding) : linesSpec enc none [] = ([], none) := by
  rw [linesSpec_unfold]; simp [rawSpec, rawLoop, untilSpec, splitAtLF]

/-! ### UTF-8: one `read_until` per line -/

theorem rawSpec_utf8 (bs : List UInt8) :
    rawSpec .utf8 bs none =
      match splitAtLF bs with
      | (p, some rest) => (.ok (some p), rest)
      | (p, none) => (if p.isEmpty then .ok none else .ok (some p), []) := by
  unfold rawSpec
  simp only [rawLoop, untilSpec, List.nil_append]
  cases hs : splitAtLF bs with
  | mk p o =>
    cases o with
    | some rest =>
      have hne := splitAtLF_some_ne_nil hs
      have hends := splitAtLF_some_ends hs
      have h1 : ¬ p.length = ([] : List UInt8).length := by
        simp; exact hne
      have h2 : p.isEmpty = false := by cases p <;> simp_all
      simp [hends, h2]
    | none =>
      have hno := (splitAtLF_none_noLF hs).2
      by_cases hp : p.isEmpty = true
      · have : p = [] := by cases p <;> simp_all
        subst this; simp
      · have h1 : ¬ p.length = ([] : List UInt8).length := by
          cases p <;> simp_all
        simp [hno, hp]

/-- **UTF-8:** the lines are the decoded, end-trimmed raw lines; no error. -/
theorem linesSpec_rawLines (bs : List UInt8) :
    linesSpec .utf8 none bs = ((rawLines bs).map (currLine .utf8), none) := by
  suffices h : ∀ n, ∀ bs : List UInt8, bs.length ≤ n →
      linesSpec .utf8 none bs = ((rawLines bs).map (currLine .utf8), none) from h _ bs (Nat.le_refl _)
  intro n
  induction n with
  | zero =>
    intro bs hl
    have : bs = [] := List.eq_nil_of_length_eq_zero (by omega)
    subst this
    rw [linesSpec_nil]; rfl
  | succ n ih =>
    intro bs hl
    rw [linesSpec_unfold, rawLines_split]
    have hq := rawSpec_utf8 bs
    cases hs : splitAtLF bs with
    | mk p o =>
      rw [hs] at hq
      cases o with
      | some r0 =>
        simp only [] at hq
        have := rawSpec_some_lt hq
        rw [hq]
        simp only []
        rw [ih r0 (by omega)]
        simp
      | none =>
        simp only [] at hq
        rw [hq]
        by_cases hp : p.isEmpty = true
        · simp [hp]
        · simp [hp, linesSpec_nil]

/-! ### UTF-16: the line ends at the first aligned `00 0A` / `0A 00` -/

/-- UTF-16BE: scan with the line buffer so far; the line ends at a 0x0A at an odd index whose
predecessor is 0x00. Returns the whole line buffer and the bytes after it. -/
def scanBE : List UInt8 → List UInt8 → List UInt8 × List UInt8
  | buf, [] => (buf, [])
  | buf, b :: rest =>
    if b == 0x0A && (buf.length % 2 == 1 && buf.getLast? == some 0) then (buf ++ [b], rest)
    else scanBE (buf ++ [b]) rest

/-- UTF-16LE: the line ends at a 0x0A at an even index followed by 0x00 (or by end of input). -/
def scanLE : List UInt8 → List UInt8 → List UInt8 × List UInt8
  | buf, [] => (buf, [])
  | buf, b :: rest =>
    if b == 0x0A && buf.length % 2 == 0 then
      match rest with
      | [] => (buf ++ [b], [])
      | c :: rest' => if c == 0 then (buf ++ [b, c], rest') else scanLE (buf ++ [b, c]) rest'
    else scanLE (buf ++ [b]) rest

theorem scanBE_skip (buf p x : List UInt8) (hp : ∀ y ∈ p, isLFb y = false) :
    scanBE buf (p ++ x) = scanBE (buf ++ p) x := by
  induction p generalizing buf with
  | nil => simp
  | cons a p ih =>
    have ha : (a == 0x0A) = false := hp a (by simp)
    simp only [List.cons_append, scanBE, ha, Bool.false_and, Bool.false_eq_true, if_false]
    rw [ih _ (fun y hy => hp y (by simp [hy]))]
    simp

theorem scanLE_skip (buf p x : List UInt8) (hp : ∀ y ∈ p, isLFb y = false) :
    scanLE buf (p ++ x) = scanLE (buf ++ p) x := by
  induction p generalizing buf with
  | nil => simp
  | cons a p ih =>
    have ha : (a == 0x0A) = false := hp a (by simp)
    have e : scanLE buf (a :: (p ++ x)) = scanLE (buf ++ [a]) (p ++ x) := by
      cases hr : p ++ x <;> simp [scanLE, ha]
    simp only [List.cons_append, e]
    rw [ih _ (fun y hy => hp y (by simp [hy]))]
    simp

theorem rawLoop_scanBE (f : Nat) (bs buf : List UInt8) (hf : bs.length < f) :
    rawLoop .utf16be none f bs buf = (.ok (scanBE buf bs).1, (scanBE buf bs).2) := by
  induction f generalizing bs buf with
  | zero => omega
  | succ n ih =>
    simp only [rawLoop, untilSpec]
    cases hs : splitAtLF bs with
    | mk p o =>
      have hs' := hs
      rw [splitAtLF_eq_splitG] at hs'
      cases o with
      | none =>
        obtain ⟨e1, e2⟩ := splitG_none_form _ _ _ hs'
        subst e1
        simp only []
        by_cases hp : p = []
        · subst hp; simp [scanBE]
        · have h1 : ¬ (buf ++ p).length = buf.length := by
            have := List.length_pos_iff.mpr hp
            simp; omega
          have h2 := endsWithLF_append_nonLF buf p hp e2
          have h3 := scanBE_skip buf p [] e2
          simp only [List.append_nil] at h3
          simp [h2, h3, scanBE]
      | some rest =>
        obtain ⟨p', x, e1, e2, e3, e4⟩ := splitG_some_form _ _ _ _ hs'
        have hx : x = 0x0A := by simpa [isLFb] using e2
        subst hx; subst e1
        have h1 : ¬ (buf ++ (p' ++ [0x0A])).length = buf.length := by simp
        have h2 : endsWithLF (buf ++ (p' ++ [0x0A])) = true := by
          rw [← List.append_assoc]; exact endsWithLF_append_lf _
        have hd : (buf ++ (p' ++ [0x0A])).dropLast = buf ++ p' := by
          rw [← List.append_assoc]; simp
        have hlen : rest.length < n := by
          rw [e4] at hf; simp at hf; omega
        simp only [h1, if_false, h2, Bool.not_true, Bool.false_eq_true, hd]
        rw [e4, List.append_assoc, scanBE_skip buf p' _ e3]
        simp only [List.singleton_append, scanBE, BEq.rfl, Bool.true_and]
        split
        · simp [List.append_assoc]
        · rw [ih rest _ hlen]; simp [List.append_assoc]

theorem rawLoop_scanLE (f : Nat) (bs buf : List UInt8) (hf : bs.length < f) :
    rawLoop .utf16le none f bs buf = (.ok (scanLE buf bs).1, (scanLE buf bs).2) := by
  induction f generalizing bs buf with
  | zero => omega
  | succ n ih =>
    simp only [rawLoop, untilSpec]
    cases hs : splitAtLF bs with
    | mk p o =>
      have hs' := hs
      rw [splitAtLF_eq_splitG] at hs'
      cases o with
      | none =>
        obtain ⟨e1, e2⟩ := splitG_none_form _ _ _ hs'
        subst e1
        simp only []
        by_cases hp : p = []
        · subst hp; simp [scanLE]
        · have h1 : ¬ (buf ++ p).length = buf.length := by
            have := List.length_pos_iff.mpr hp
            simp; omega
          have h2 := endsWithLF_append_nonLF buf p hp e2
          have h3 := scanLE_skip buf p [] e2
          simp only [List.append_nil] at h3
          simp [h2, h3, scanLE]
      | some rest =>
        obtain ⟨p', x, e1, e2, e3, e4⟩ := splitG_some_form _ _ _ _ hs'
        have hx : x = 0x0A := by simpa [isLFb] using e2
        subst hx; subst e1
        have h1 : ¬ (buf ++ (p' ++ [0x0A])).length = buf.length := by simp
        have h2 : endsWithLF (buf ++ (p' ++ [0x0A])) = true := by
          rw [← List.append_assoc]; exact endsWithLF_append_lf _
        have hd : (buf ++ (p' ++ [0x0A])).dropLast = buf ++ p' := by
          rw [← List.append_assoc]; simp
        have hlen : rest.length < n := by
          rw [e4] at hf; simp at hf; omega
        simp only [h1, if_false, h2, Bool.not_true, Bool.false_eq_true, hd]
        rw [e4, List.append_assoc, scanLE_skip buf p' _ e3]
        simp only [List.singleton_append]
        by_cases hev : ((buf ++ p').length % 2 == 0) = true
        · simp only [hev, if_true]
          cases rest with
          | nil => simp [scanLE, nextByteSpec, List.append_assoc]
          | cons c rest' =>
            simp only [nextByteSpec, scanLE, BEq.rfl, hev, Bool.true_and, if_true]
            by_cases hc : (c == 0) = true
            · simp [hc, List.append_assoc]
            · simp only [hc, Bool.false_eq_true, if_false]
              rw [ih rest' _ (by simp at hlen; omega)]
              simp [List.append_assoc]
        · simp only [hev, Bool.false_eq_true, if_false]
          have hev' : ¬ (buf.length + p'.length) % 2 = 0 := by simpa using hev
          have e : scanLE (buf ++ p') (0x0A :: rest) = scanLE (buf ++ p' ++ [0x0A]) rest := by
            cases rest <;> simp [scanLE, hev']
          rw [e, ih rest _ hlen]; simp [List.append_assoc]

/-- `read_line` on a fault-free UTF-16 stream: the scan from an empty buffer. -/
theorem rawSpec_utf16 (le : Bool) (bs : List UInt8) :
    rawSpec (if le then .utf16le else .utf16be) bs none =
      (if ((if le then scanLE [] bs else scanBE [] bs).1).isEmpty then .ok none
        else .ok (some (if le then scanLE [] bs else scanBE [] bs).1),
       (if le then scanLE [] bs else scanBE [] bs).2) := by
  unfold rawSpec
  cases le with
  | true => simp only [if_true]; rw [rawLoop_scanLE _ _ _ (Nat.lt_succ_self _)]
  | false => simp only [Bool.false_eq_true, if_false]; rw [rawLoop_scanBE _ _ _ (Nat.lt_succ_self _)]

end Rosu
