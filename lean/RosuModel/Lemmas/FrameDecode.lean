/-
  Lemmas/FrameDecode.lean — what the hit-object and control-point part of the `Beatmap` decoder state is read from.

  `objView` is the part of `BeatmapState` the two list sections write: the hit-object core (objects, path scratch,
  last object) and the pending group and control points of the timing state. Lines of the six record sections do not
  touch it. A `[TimingPoints]` line changes it as a function of the line, the view, and three `[General]` values
  (`tpKey`: mode — scroll speed in taiko / mania —, default sample bank and default sample volume, used when a line
  leaves those fields out). A `[HitObjects]` line changes it as a function of the line, the view and the mode
  (Catmull handling in `convert_points`). Finalisation reads the view, the mode, the slider multiplier (velocity) and
  the breaks (forced new combos), and nothing else.
-/
import RosuModel.Lemmas.RtFile
import RosuModel.Model.Finalize
namespace Rosu
namespace FrameDec
open Rosu EncodeLines C11 RtFile

set_option linter.unusedSectionVars false

variable {F P : Type} [Scalar F] [Scalar P] [Cvt P F]

/-- what the `[TimingPoints]` and `[HitObjects]` parsers read of the `[General]` record. -/
structure TpKey where
  mode : GameMode
  defaultSampleBank : SampleBank
  defaultSampleVolume : Int

def tpKey (g : GeneralState F P) : TpKey := ⟨g.mode, g.defaultSampleBank, g.defaultSampleVolume⟩

/-- the hit-object and control-point part of the decoder state. -/
structure ObjView (F P : Type) where
  core : HOCore F P
  pendingTime : F
  pending : Pending F
  controlPoints : ControlPoints F

def objView (st : BeatmapState F P) : ObjView F P :=
  { core := st.hitObjects.core, pendingTime := st.hitObjects.timingPoints.pendingTime,
    pending := st.hitObjects.timingPoints.pending, controlPoints := st.hitObjects.timingPoints.controlPoints }

/-! ### record sections leave the view alone -/

theorem objView_general (st : BeatmapState F P) (rs : List Str) :
    objView (rs.foldl (BeatmapState.step .general) st) = objView st := by
  induction rs generalizing st with
  | nil => rfl
  | cons r rs ih =>
    rw [List.foldl_cons, ih]
    simp [objView, BeatmapState.step, HitObjectsState.step, tpParseGeneral_general]

theorem objView_editor (st : BeatmapState F P) (rs : List Str) :
    objView (rs.foldl (BeatmapState.step .editor) st) = objView st := by
  induction rs generalizing st with
  | nil => rfl
  | cons r rs ih => rw [List.foldl_cons, ih]; rfl

theorem objView_metadata (st : BeatmapState F P) (rs : List Str) :
    objView (rs.foldl (BeatmapState.step .metadata) st) = objView st := by
  induction rs generalizing st with
  | nil => rfl
  | cons r rs ih => rw [List.foldl_cons, ih]; rfl

theorem objView_colors (st : BeatmapState F P) (rs : List Str) :
    objView (rs.foldl (BeatmapState.step .colors) st) = objView st := by
  induction rs generalizing st with
  | nil => rfl
  | cons r rs ih => rw [List.foldl_cons, ih]; rfl

theorem objView_difficulty (st : BeatmapState F P) (rs : List Str) :
    objView (rs.foldl (BeatmapState.step .difficulty) st) = objView st := by
  induction rs generalizing st with
  | nil => rfl
  | cons r rs ih => rw [List.foldl_cons, ih]; rfl

theorem objView_events (st : BeatmapState F P) (rs : List Str) :
    objView (rs.foldl (BeatmapState.step .events) st) = objView st := by
  induction rs generalizing st with
  | nil => rfl
  | cons r rs ih => rw [List.foldl_cons, ih]; rfl

/-! ### a timing-point line: the general record enters through `tpKey` only -/

/-- the same timing state with another general record. -/
def withGeneral (tp : TimingPointsState F P) (g : GeneralState F P) : TimingPointsState F P := { tp with general := g }

theorem maybeFlush_withGeneral (st : TimingPointsState F P) (g : GeneralState F P) (t : F) :
    maybeFlush (withGeneral st g) t = withGeneral (maybeFlush st t) g := by
  unfold maybeFlush
  by_cases h : sameGroup t st.pendingTime = true
  · simp [withGeneral, h]
  · simp [withGeneral, h, flushPendingPoints]

theorem addTimingCP_withGeneral (st : TimingPointsState F P) (g : GeneralState F P) (t : F) (p : TimingPoint F) (tc : Bool) :
    addTimingCP (withGeneral st g) t p tc = withGeneral (addTimingCP st t p tc) g := by
  unfold addTimingCP; rw [maybeFlush_withGeneral]; rfl
theorem addDifficultyCP_withGeneral (st : TimingPointsState F P) (g : GeneralState F P) (t : F) (p : DifficultyPoint F) (tc : Bool) :
    addDifficultyCP (withGeneral st g) t p tc = withGeneral (addDifficultyCP st t p tc) g := by
  unfold addDifficultyCP; rw [maybeFlush_withGeneral]; rfl
theorem addSampleCP_withGeneral (st : TimingPointsState F P) (g : GeneralState F P) (t : F) (p : SamplePoint F) (tc : Bool) :
    addSampleCP (withGeneral st g) t p tc = withGeneral (addSampleCP st t p tc) g := by
  unfold addSampleCP; rw [maybeFlush_withGeneral]; rfl
theorem addEffectCP_withGeneral (st : TimingPointsState F P) (g : GeneralState F P) (t : F) (p : EffectPoint F) (tc : Bool) :
    addEffectCP (withGeneral st g) t p tc = withGeneral (addEffectCP st t p tc) g := by
  unfold addEffectCP; rw [maybeFlush_withGeneral]; rfl

theorem applyTpLine_withGeneral (st : TimingPointsState F P) (g : GeneralState F P) (l : TpLine F)
    (hm : g.mode = st.general.mode) : applyTpLine (withGeneral st g) l = withGeneral (applyTpLine st l) g := by
  unfold applyTpLine
  cases htc : l.timingChange
  · simp only [Bool.false_eq_true, if_false, addDifficultyCP_withGeneral, addSampleCP_withGeneral,
      addSampleCP_general, addDifficultyCP_general, addEffectCP_withGeneral]
    simp only [withGeneral, hm]
  · simp only [if_true, addTimingCP_withGeneral, addDifficultyCP_withGeneral, addSampleCP_withGeneral,
      addSampleCP_general, addDifficultyCP_general, addTimingCP_general, addEffectCP_withGeneral]
    simp only [withGeneral, hm]

theorem parseTpRaw_congr (g g' : GeneralState F P) (hb : g'.defaultSampleBank = g.defaultSampleBank)
    (hv : g'.defaultSampleVolume = g.defaultSampleVolume) (fields : List Str) :
    parseTpRaw g' fields = parseTpRaw g fields := by
  unfold parseTpRaw
  rw [hb, hv]

theorem parseTimingPoints_withGeneral (st : TimingPointsState F P) (g : GeneralState F P) (line : Str)
    (hk : tpKey g = tpKey st.general) :
    (parseTimingPoints (withGeneral st g) line).2 = withGeneral (parseTimingPoints st line).2 g := by
  have hm : g.mode = st.general.mode := congrArg TpKey.mode hk
  have hb : g.defaultSampleBank = st.general.defaultSampleBank := congrArg TpKey.defaultSampleBank hk
  have hv : g.defaultSampleVolume = st.general.defaultSampleVolume := congrArg TpKey.defaultSampleVolume hk
  unfold parseTimingPoints parseTpFields
  have e : (withGeneral st g).general = g := rfl
  rw [e, parseTpRaw_congr st.general g hb hv]
  cases parseTpRaw st.general (splitOn ',' (trimComment line)) with
  | error e => rfl
  | ok l =>
    simp only []
    cases checkNaN l with
    | error e => rfl
    | ok l' => exact applyTpLine_withGeneral st g l' hm

/-- two decoder states that agree on the view and on what the list parsers read of the general record. -/
def SameObj (a b : BeatmapState F P) : Prop :=
  objView a = objView b ∧ tpKey (recView a).general = tpKey (recView b).general

theorem tp_eq_withGeneral (a b : BeatmapState F P) (h : objView a = objView b) :
    b.hitObjects.timingPoints = withGeneral a.hitObjects.timingPoints b.hitObjects.timingPoints.general := by
  have h1 := congrArg ObjView.pendingTime h
  have h2 := congrArg ObjView.pending h
  have h3 := congrArg ObjView.controlPoints h
  simp only [objView] at h1 h2 h3
  cases hb : b.hitObjects.timingPoints with
  | mk g pt pd cp =>
    rw [hb] at h1 h2 h3
    simp only [withGeneral, h1, h2, h3]

/-- **a `[TimingPoints]` line** keeps two such states in agreement. -/
theorem sameObj_timing_step (a b : BeatmapState F P) (h : SameObj a b) (l : Str) :
    SameObj (BeatmapState.step .timingPoints a l) (BeatmapState.step .timingPoints b l) := by
  obtain ⟨hv, hk⟩ := h
  have hk' : tpKey b.hitObjects.timingPoints.general = tpKey a.hitObjects.timingPoints.general := hk.symm
  have e := tp_eq_withGeneral a b hv
  have hp := parseTimingPoints_withGeneral a.hitObjects.timingPoints b.hitObjects.timingPoints.general l hk'
  rw [← e] at hp
  have hcore : a.hitObjects.core = b.hitObjects.core := congrArg ObjView.core hv
  constructor
  · simp only [objView, BeatmapState.step, HitObjectsState.step, hp, withGeneral, hcore]
  · simp only [recView, BeatmapState.step, HitObjectsState.step, parseTimingPoints_general]
    exact hk

theorem sameObj_timing (T : List Str) (a b : BeatmapState F P) (h : SameObj a b) :
    SameObj (T.foldl (BeatmapState.step .timingPoints) a) (T.foldl (BeatmapState.step .timingPoints) b) := by
  induction T generalizing a b with
  | nil => exact h
  | cons l T ih => exact ih _ _ (sameObj_timing_step a b h l)

/-- **a `[HitObjects]` line** likewise (it reads the mode and the hit-object core). -/
theorem sameObj_hitObjects_step (a b : BeatmapState F P) (h : SameObj a b) (l : Str) :
    SameObj (BeatmapState.step .hitObjects a l) (BeatmapState.step .hitObjects b l) := by
  obtain ⟨hv, hk⟩ := h
  have hm : a.hitObjects.timingPoints.general.mode = b.hitObjects.timingPoints.general.mode := congrArg TpKey.mode hk
  have h0 := congrArg ObjView.core hv
  have h1 := congrArg ObjView.pendingTime hv
  have h2 := congrArg ObjView.pending hv
  have h3 := congrArg ObjView.controlPoints hv
  simp only [objView] at h0 h1 h2 h3
  constructor
  · simp only [objView, BeatmapState.step, HitObjectsState.step, hm, h0, h1, h2, h3]
  · exact hk

theorem sameObj_hitObjects (H : List Str) (a b : BeatmapState F P) (h : SameObj a b) :
    SameObj (H.foldl (BeatmapState.step .hitObjects) a) (H.foldl (BeatmapState.step .hitObjects) b) := by
  induction H generalizing a b with
  | nil => exact h
  | cons l H ih => exact ih _ _ (sameObj_hitObjects_step a b h l)

/-- `[Colours]` lines (different on the two sides) do not disturb the agreement. -/
theorem sameObj_colors (C C' : List Str) (a b : BeatmapState F P) (h : SameObj a b) :
    SameObj (C.foldl (BeatmapState.step .colors) a) (C'.foldl (BeatmapState.step .colors) b) := by
  unfold SameObj
  rw [objView_colors, objView_colors, view_colors, view_colors]
  exact h

/-! ### the state after the five leading record blocks -/

/-- after `[General]` … `[Events]`, the view is still the initial one and the record fields are the five blocks' results. -/
theorem after_records (v : Int) (G E M D Ev : List Str) :
    let st : BeatmapState F P := Ev.foldl (BeatmapState.step .events) (D.foldl (BeatmapState.step .difficulty)
      (M.foldl (BeatmapState.step .metadata) (E.foldl (BeatmapState.step .editor)
        (G.foldl (BeatmapState.step .general) (BeatmapState.create v)))))
    objView st = objView (BeatmapState.create 0 : BeatmapState F P) ∧
    (recView st).general = runSection RtGeneral.generalStep (GeneralState.default : GeneralState F P) G ∧
    (recView st).difficulty = runSection parseDifficulty (DifficultyState.create : DifficultyState F P) D ∧
    (recView st).events = runSection parseEvents (Events.default : Events F) Ev := by
  intro st
  refine ⟨?_, ?_, ?_, ?_⟩
  · simp only [st, objView_events, objView_difficulty, objView_metadata, objView_editor, objView_general]
    rfl
  all_goals
    simp only [st, view_events, view_difficulty, view_metadata, view_editor, view_general, recView_create]

/-- the record fields the finaliser reads are not touched by the three trailing blocks. -/
theorem after_lists (T C H : List Str) (st : BeatmapState F P) :
    let st' := H.foldl (BeatmapState.step .hitObjects) (C.foldl (BeatmapState.step .colors)
      (T.foldl (BeatmapState.step .timingPoints) st))
    (recView st').general = (recView st).general ∧ (recView st').difficulty = (recView st).difficulty ∧
    (recView st').events = (recView st).events := by
  intro st'
  simp only [st', view_hitObjects, view_colors, view_timingPoints, and_self]

/-! ### finalisation -/

variable [Trig F] [Trig P]

/-- the hit objects and control points of a decoded map. -/
def listView (m : Beatmap F P) : List (HitObject F P) × ControlPoints F := (m.hitObjects, m.controlPoints)

/-- **finalisation reads the view, the mode, the slider multiplier and the breaks**: two decoder states that agree on
these finalise to the same hit objects and control points — or fail in the same way. -/
theorem finish_listView_congr (a b : BeatmapState F P) (hv : objView a = objView b)
    (hm : (recView a).general.mode = (recView b).general.mode)
    (hs : (recView a).difficulty.difficulty.sliderMultiplier = (recView b).difficulty.difficulty.sliderMultiplier)
    (hb : (recView a).events.breaks = (recView b).events.breaks) :
    a.finish.map listView = b.finish.map listView := by
  have h0 := congrArg ObjView.core hv
  have h1 := congrArg ObjView.pendingTime hv
  have h2 := congrArg ObjView.pending hv
  have h3 := congrArg ObjView.controlPoints hv
  simp only [objView] at h0 h1 h2 h3
  simp only [recView] at hm hs hb
  simp only [BeatmapState.finish, HitObjectsState.finish, TimingPointsState.finish, flushPendingPoints, bind, Except.bind,
    pure, Except.pure, h0, h2, h3, hm, hs, hb]
  cases finalizeObjects b.hitObjects.timingPoints.general.mode b.hitObjects.difficulty.difficulty.sliderMultiplier
      (flushInto b.hitObjects.timingPoints.controlPoints b.hitObjects.timingPoints.pending)
      (postProcessBreaks b.hitObjects.events.breaks (sortByStartTime b.hitObjects.core.hitObjects) 0) emptyBuffers with
  | error e => rfl
  | ok objs => rfl

/-! ### the encoded text, read back -/

variable {RF : F → Prop} {RP : P → Prop}

/-- the lines the framing driver is handed when the encoded text of a map (record sections representable, list
blocks LF-terminated LF-free lines) is read back from its UTF-8 bytes — for any decoder. (The step inside
`RtFile.file_record_roundtrip`, stated on its own.) -/
theorem decodeBytes_encoded {σ : Type} (Dc : LineDecoder σ) (LF : CodecLaws F RF) (LP : CodecLaws P RP) (LI : IntPrintLaw F)
    (m : Beatmap F P) (hm : RepRecords RF RP m) (t : Str) (T H : List Str) (h : Encode.encode m = .ok t)
    (hT : Encode.encodeTimingPoints m = .ok (unlines (str "[TimingPoints]" :: T)))
    (hH : Encode.encodeHitObjects m = .ok (unlines (str "[HitObjects]" :: H)))
    (sT : ListBlockShape T) (sH : ListBlockShape H) :
    decodeBytes Dc (utf8Encode t) = .ok (frame Dc
      (fileLines m.formatVersion (RtGeneral.decodedLines m.general (RtGeneral.sampleSetOf m.controlPoints))
        (RtEditor.decodedLines m.editor) (RtMetadata.decodedLines m.metadata) (RtDifficulty.decodedLines m.difficulty)
        (RtEvents.decodedLines m.events) (T.map trimEnd) (RtColours.decodedLines m.colors) (H.map trimEnd))) := by
  have ht := encode_eq_unlines m t T H h hT hH
  have hhead : t.head? ≠ some (Char.ofNat 0xFEFF) := by
    rw [ht]
    have : ∀ rest, (unlines (versionLine m.formatVersion :: rest)).head? = some 'o' := by
      intro rest
      have e : versionLine m.formatVersion = 'o' :: (str "su file format v" ++ Encode.showInt m.formatVersion) := rfl
      rw [unlines_cons, e]
      rfl
    unfold fileLines
    rw [this]
    decide
  have hlines : (textLines t).map trimEnd =
      fileLines m.formatVersion (RtGeneral.decodedLines m.general (RtGeneral.sampleSetOf m.controlPoints))
        (RtEditor.decodedLines m.editor) (RtMetadata.decodedLines m.metadata) (RtDifficulty.decodedLines m.difficulty)
        (RtEvents.decodedLines m.events) (T.map trimEnd) (RtColours.decodedLines m.colors) (H.map trimEnd) := by
    rw [ht]
    exact (lines_of_unlines _ (fileLines_no_lf _ _ _ _ _ _ _ _ _
      (RtGeneral.generalLines_no_lf LI LP _ _ hm.general) (RtEditor.editorLines_no_lf LF _ hm.editor)
      (RtMetadata.metadataLines_no_lf _ hm.metadata) (RtDifficulty.difficultyLines_no_lf LF LP _ hm.difficulty)
      (RtEvents.eventLines_no_lf LF _ hm.events) (fun l hl => (sT l hl).1) (RtColours.colourLines_no_lf _ hm.colors)
      (fun l hl => (sH l hl).1))).trans (fileLines_map_trimEnd _ _ _ _ _ _ _ _ _)
  rw [decodeBytes_utf8_text Dc t hhead, hlines]

end FrameDec
end Rosu
