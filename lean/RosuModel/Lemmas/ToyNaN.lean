/-
  Lemmas/ToyNaN.lean — a tiny decidable `Scalar` **with a NaN**: `ZN` = an integer or `nan`. Arithmetic propagates `nan`,
  division by zero gives `nan`, every comparison with `nan` is false (as IEEE), `parse` reads `"nan"` and decimal integers.
  Used only to show that the NaN-related law hypotheses of C12 (`NanLaws`) are satisfiable on a scalar that really has a
  NaN, with evaluated examples. Core Lean only.
-/
import RosuModel.Model.Scalar
import RosuModel.Model.Num
namespace Rosu

/-- an integer, or `nan` (`v = none`). -/
structure ZN where
  v : Option Int
  deriving DecidableEq, Repr

namespace ZN

def nan : ZN := ⟨none⟩
def num (n : Int) : ZN := ⟨some n⟩

def map₂ (f : Int → Int → Option Int) (a b : ZN) : ZN :=
  match a.v, b.v with
  | some x, some y => ⟨f x y⟩
  | _, _ => nan

def rel (r : Int → Int → Bool) (a b : ZN) : Bool :=
  match a.v, b.v with
  | some x, some y => r x y
  | _, _ => false

end ZN

instance : Scalar ZN where
  add := ZN.map₂ fun x y => some (x + y)
  sub := ZN.map₂ fun x y => some (x - y)
  mul := ZN.map₂ fun x y => some (x * y)
  div := ZN.map₂ fun x y => if y = 0 then none else some (x / y)
  neg a := ⟨a.v.map fun x => -x⟩
  ofNat n := ZN.num n
  ofSci m s e := ZN.num (if s then (m : Int) / (10 ^ e : Nat) else (m : Int) * (10 ^ e : Nat))
  lt := ZN.rel fun x y => decide (x < y)
  le := ZN.rel fun x y => decide (x ≤ y)
  eq := ZN.rel fun x y => decide (x = y)
  isNaN a := a.v.isNone
  abs a := ⟨a.v.map fun x => (x.natAbs : Int)⟩
  sqrt a := a
  ceil a := a
  eps := ZN.num 1
  ofInt n := ZN.num n
  toI32 a := a.v.getD 0
  toUsize a := (a.v.getD 0).toNat
  totalKey a := a.v.getD 4611686018427387904
  parse s := if s = ['n', 'a', 'n'] then some ZN.nan else (i32FromStr s).map ZN.num
  print _ := []

end Rosu
