/-
  Lemmas/LossyRel.lean — the same specification once more, as an inductive relation that follows the wording
  of the Unicode standard (chapter 3, "U+FFFD Substitution of Maximal Subparts"):

    * a *well-formed* sequence is one that matches a row of Table 3-7 exactly;
    * at a position where no well-formed sequence starts, the *maximal subpart* is the longest prefix of
      the remaining input that is an initial subsequence of a well-formed sequence, or of length one;
    * decoding replaces every well-formed sequence by its scalar value and every maximal subpart by U+FFFD.

  `lossyDecodes_iff : LossyDecodes bs out ↔ out = lossySpec bs` — the relation is functional and
  `lossySpec` (hence, by `utf8Lossy_eq_spec`, the model's decoder) computes it.
-/
import RosuModel.Lemmas.LossySpec
namespace Rosu.Lossy
open Rosu

/-- `seq` matches the row exactly: same length, every byte in its range. -/
def Matches (row : List Range) (seq : List UInt8) : Prop :=
  seq.length = row.length ∧ fitLen row seq = row.length

/-- a well-formed UTF-8 code unit sequence (of one scalar value): Table 3-7. -/
def WellFormed (seq : List UInt8) : Prop := ∃ row ∈ table37, Matches row seq

/-- an initial subsequence of a well-formed sequence. -/
def WFInitial (p : List UInt8) : Prop := ∃ s, WellFormed (p ++ s)

/-- **lossy decoding, declaratively.** -/
inductive LossyDecodes : List UInt8 → Str → Prop
  | done : LossyDecodes [] []
  | scalar {seq rest : List UInt8} {out : Str} :
      WellFormed seq → LossyDecodes rest out →
      LossyDecodes (seq ++ rest) (Char.ofNat (scalarValue seq) :: out)
  | subst {sub rest : List UInt8} {out : Str} :
      (∀ seq, WellFormed seq → ¬ seq <+: sub ++ rest) →                       -- no well-formed sequence starts here
      sub ≠ [] → (sub.length = 1 ∨ WFInitial sub) →                            -- length one, or initial part of one
      (∀ p, p <+: sub ++ rest → WFInitial p → p.length ≤ sub.length) →         -- and the longest such
      LossyDecodes rest out →
      LossyDecodes (sub ++ rest) (replacement :: out)

/-! ### facts about fitting -/

theorem table_rows_nonempty : ∀ row ∈ table37, 1 ≤ row.length := by decide

theorem table_rows_ranges : ∀ row ∈ table37, ∀ r ∈ row, r.1 ≤ r.2 ∧ r.2 < 256 := by decide

/-- if all of `p ++ s` fits, all of `p` fits. -/
theorem fitLen_prefix_full (row : List Range) (p s : List UInt8) (h : fitLen row (p ++ s) = (p ++ s).length) :
    fitLen row p = p.length := by
  induction row generalizing p with
  | nil =>
    rw [fitLen_nil_row] at h ⊢
    simp only [List.length_append] at h; omega
  | cons r row ih =>
    cases p with
    | nil => rw [fitLen_nil]; rfl
    | cons b p =>
      obtain ⟨lo, hi⟩ := r
      simp only [List.cons_append, List.length_cons] at h ⊢
      by_cases hb : lo ≤ b.toNat ∧ b.toNat ≤ hi
      · rw [fitLen_hit lo hi row b _ hb] at h ⊢
        rw [ih p (by omega)]
      · rw [fitLen_miss lo hi row b _ (by omega)] at h; omega

/-- if all of `p` fits, then at least `p` fits of any extension of `p`. -/
theorem fitLen_append_ge (row : List Range) (p t : List UInt8) (h : fitLen row p = p.length) :
    p.length ≤ fitLen row (p ++ t) := by
  induction row generalizing p with
  | nil => rw [fitLen_nil_row] at h; omega
  | cons r row ih =>
    cases p with
    | nil => exact Nat.zero_le _
    | cons b p =>
      obtain ⟨lo, hi⟩ := r
      simp only [List.cons_append, List.length_cons] at h ⊢
      by_cases hb : lo ≤ b.toNat ∧ b.toNat ≤ hi
      · rw [fitLen_hit lo hi row b _ hb] at h ⊢
        have := ih p (by omega); omega
      · rw [fitLen_miss lo hi row b _ (by omega)] at h; omega

/-- a complete match stays one when more input follows. -/
theorem matches_append (row : List Range) (seq t : List UInt8) (h : Matches row seq) :
    fitLen row (seq ++ t) = row.length := by
  have h1 := fitLen_append_ge row seq t (by rw [h.2, h.1])
  have h2 := fitLen_le_row row (seq ++ t)
  rw [h.1] at h1; omega

/-- the part of the input that fits a row can be completed to a full match of that row. -/
theorem fit_completes (row : List Range) (hr : ∀ r ∈ row, r.1 ≤ r.2 ∧ r.2 < 256) (bs : List UInt8) :
    ∃ s, Matches row (bs.take (fitLen row bs) ++ s) := by
  induction row generalizing bs with
  | nil => exact ⟨[], by simp [Matches, fitLen_nil_row]⟩
  | cons r row ih =>
    obtain ⟨lo, hi⟩ := r
    have hr0 := hr (lo, hi) (by simp)
    have hr' : ∀ r ∈ row, r.1 ≤ r.2 ∧ r.2 < 256 := fun r h => hr r (by simp [h])
    have fresh : ∃ s, Matches ((lo, hi) :: row) s := by
      obtain ⟨s, hs⟩ := ih hr' []
      rw [fitLen_nil] at hs
      simp only [List.take_zero, List.nil_append] at hs
      have hb : lo ≤ (UInt8.ofNat lo).toNat ∧ (UInt8.ofNat lo).toNat ≤ hi := by
        rw [UInt8.toNat_ofNat']; simp only at hr0; omega
      refine ⟨UInt8.ofNat lo :: s, ?_, ?_⟩
      · simp only [List.length_cons, hs.1]
      · rw [fitLen_hit lo hi row _ _ hb, hs.2]; rfl
    cases bs with
    | nil => rw [fitLen_nil]; simpa using fresh
    | cons b bs =>
      by_cases hb : lo ≤ b.toNat ∧ b.toNat ≤ hi
      · rw [fitLen_hit lo hi row b bs hb]
        obtain ⟨s, hs⟩ := ih hr' bs
        refine ⟨s, ?_, ?_⟩
        · simp only [List.take_succ_cons, List.cons_append, List.length_cons, hs.1]
        · simp only [List.take_succ_cons, List.cons_append]
          rw [fitLen_hit lo hi row b _ hb, hs.2]; rfl
      · rw [fitLen_miss lo hi row b bs (by omega)]; simpa using fresh

/-- the lead ranges of Table 3-7 are pairwise disjoint: at most one row is matched completely. -/
theorem full_fit_unique (row row' : List Range) (h : row ∈ table37) (h' : row' ∈ table37) (bs : List UInt8)
    (hf : fitLen row bs = row.length) (hf' : fitLen row' bs = row'.length) : row = row' := by
  cases bs with
  | nil =>
    rw [fitLen_nil] at hf
    have := table_rows_nonempty row h; omega
  | cons b0 rest =>
    simp only [table37, List.mem_cons, List.not_mem_nil, or_false] at h h'
    rcases h with rfl | rfl | rfl | rfl | rfl | rfl | rfl | rfl | rfl <;>
      rcases h' with rfl | rfl | rfl | rfl | rfl | rfl | rfl | rfl | rfl <;>
      first
        | rfl
        | (exfalso
           have a := ((fit_full_iff _ _ _ _).mp hf).1
           have b := ((fit_full_iff _ _ _ _).mp hf').1
           simp only at a b
           omega)

/-- a completely matched row is what `wellFormedLen` reports. -/
theorem wellFormedLen_of_fit (row : List Range) (h : row ∈ table37) (bs : List UInt8)
    (hf : fitLen row bs = row.length) : wellFormedLen bs = some row.length := by
  cases hw : wellFormedLen bs with
  | none => exact absurd hf ((wellFormedLen_eq_none bs).mp hw row h)
  | some n =>
    obtain ⟨row', h', hlen, hfit⟩ := wellFormedLen_some bs n hw
    have := full_fit_unique row row' h h' bs hf (by rw [hfit, hlen])
    rw [this, hlen]

/-! ### the function satisfies the relation -/

theorem take_len_fit (row : List Range) (bs : List UInt8) : (bs.take (fitLen row bs)).length = fitLen row bs := by
  rw [List.length_take]; exact Nat.min_eq_left (fitLen_le_input row bs)

/-- a prefix of the input that is an initial part of a well-formed sequence fits some row at least that far. -/
theorem wfInitial_fit (p t : List UInt8) (h : WFInitial p) : ∃ row ∈ table37, p.length ≤ fitLen row (p ++ t) := by
  obtain ⟨s, row, hrow, hlen, hfit⟩ := h
  exact ⟨row, hrow, fitLen_append_ge row p t (fitLen_prefix_full row p s (by rw [hfit, hlen]))⟩

theorem lossyDecodes_spec (bs : List UInt8) : LossyDecodes bs (lossySpec bs) := by
  generalize hn : bs.length = n
  induction n using Nat.strongRecOn generalizing bs with
  | _ n ih =>
    cases bs with
    | nil => rw [lossySpec_nil]; exact .done
    | cons b rest =>
      rw [lossySpec]
      simp only [List.length_cons] at hn
      cases hw : wellFormedLen (b :: rest) with
      | some k =>
        obtain ⟨row, hrow, hlen, hfit⟩ := wellFormedLen_some _ k hw
        have hk : 1 ≤ k := hlen ▸ table_rows_nonempty row hrow
        obtain ⟨m, rfl⟩ : ∃ m, k = m + 1 := ⟨k - 1, by omega⟩
        have hwf : WellFormed ((b :: rest).take (m + 1)) :=
          ⟨row, hrow, by rw [← hfit, take_len_fit, hfit, hlen], by rw [← hfit, fitLen_take, hfit, hlen]⟩
        have hrec := ih (rest.drop m).length (by simp only [List.length_drop]; omega) (rest.drop m) rfl
        have := LossyDecodes.scalar hwf hrec
        simp only [List.take_succ_cons, List.cons_append, List.take_append_drop] at this
        simpa using this
      | none =>
        simp only
        have hge := maximalSubpartLen_ge (b :: rest)
        obtain ⟨m, hm⟩ : ∃ m, maximalSubpartLen (b :: rest) = m + 1 := ⟨maximalSubpartLen (b :: rest) - 1, by omega⟩
        rw [hm] at hge ⊢
        have hrec := ih (rest.drop m).length (by simp only [List.length_drop]; omega) (rest.drop m) rfl
        have hsplit : (b :: rest).take (m + 1) ++ rest.drop m = b :: rest := by
          simp only [List.take_succ_cons, List.cons_append, List.take_append_drop]
        have hnone := (wellFormedLen_eq_none _).mp hw
        have key := LossyDecodes.subst (sub := (b :: rest).take (m + 1)) (rest := rest.drop m) (out := lossySpec (rest.drop m))
          (by
            rw [hsplit]
            rintro seq ⟨row, hrow, hmatch⟩ ⟨t, ht⟩
            exact hnone row hrow (by rw [← ht]; exact matches_append row seq t hmatch))
          (by simp)
          (by
            rcases maximalSubpartLen_attained (b :: rest) with h1 | ⟨row, hrow, hfit⟩
            · left; rw [hm] at h1; simp only [List.take_succ_cons, List.length_cons, List.length_take]; omega
            · right
              rw [hm] at hfit
              obtain ⟨s, hs⟩ := fit_completes row (table_rows_ranges row hrow) (b :: rest)
              rw [hfit] at hs
              exact ⟨s, row, hrow, hs⟩)
          (by
            rw [hsplit]
            rintro p ⟨t, ht⟩ hp
            obtain ⟨row, hrow, hfit⟩ := wfInitial_fit p t hp
            rw [ht] at hfit
            have := hge.2 row hrow
            simp only [List.take_succ_cons, List.length_cons, List.length_take]
            have hlen : m ≤ rest.length := by
              have := fitLen_le_input row (b :: rest)
              rcases maximalSubpartLen_attained (b :: rest) with h1 | ⟨row', hrow', hfit'⟩
              · omega
              · have := fitLen_le_input row' (b :: rest); simp only [List.length_cons] at this; omega
            omega)
          hrec
        rw [hsplit] at key
        simpa using key

/-! ### the relation is functional -/

theorem lossyDecodes_unique (bs : List UInt8) (out : Str) (h : LossyDecodes bs out) : out = lossySpec bs := by
  induction h with
  | done => rw [lossySpec_nil]
  | @scalar seq rest out hwf _ ih =>
    obtain ⟨row, hrow, hlen, hfit⟩ := hwf
    have hk := table_rows_nonempty row hrow
    cases seq with
    | nil => simp only [List.length_nil] at hlen; omega
    | cons b seq' =>
      have hw : wellFormedLen (b :: (seq' ++ rest)) = some row.length :=
        wellFormedLen_of_fit row hrow _ (matches_append row (b :: seq') rest ⟨hlen, hfit⟩)
      have hl : row.length = seq'.length + 1 := by simpa using hlen.symm
      simp only [List.cons_append]
      rw [lossySpec, hw]
      simp only [hl, List.take_succ_cons, Nat.add_sub_cancel, List.take_left', List.drop_left']
      rw [ih]
  | @subst sub rest out hno hne hone hmax _ ih =>
    cases sub with
    | nil => exact absurd rfl hne
    | cons b sub' =>
      simp only [List.cons_append] at hno hmax ⊢
      have hw : wellFormedLen (b :: (sub' ++ rest)) = none := by
        rw [wellFormedLen_eq_none]
        intro row hrow hfit
        refine hno ((b :: (sub' ++ rest)).take row.length) ⟨row, hrow, ?_, ?_⟩ (List.take_prefix _ _)
        · rw [← hfit, take_len_fit]
        · rw [← hfit, fitLen_take]
      have hm : maximalSubpartLen (b :: (sub' ++ rest)) = sub'.length + 1 := by
        apply Nat.le_antisymm
        · rcases maximalSubpartLen_attained (b :: (sub' ++ rest)) with h1 | ⟨row, hrow, hfit⟩
          · omega
          · have := hmax ((b :: (sub' ++ rest)).take (fitLen row (b :: (sub' ++ rest)))) (List.take_prefix _ _)
              (by
                obtain ⟨s, hs⟩ := fit_completes row (table_rows_ranges row hrow) (b :: (sub' ++ rest))
                exact ⟨s, row, hrow, hs⟩)
            rw [take_len_fit, hfit] at this
            simpa using this
        · rcases hone with h1 | hinit
          · have := (maximalSubpartLen_ge (b :: (sub' ++ rest))).1
            simp only [List.length_cons] at h1; omega
          · obtain ⟨row, hrow, hfit⟩ := wfInitial_fit (b :: sub') rest hinit
            have := (maximalSubpartLen_ge (b :: (sub' ++ rest))).2 row hrow
            simp only [List.cons_append, List.length_cons] at hfit; omega
      rw [lossySpec, hw]
      simp only [hm, Nat.add_sub_cancel, List.drop_left']
      rw [ih]

/-- **the declarative relation and the table-driven function are the same specification.** -/
theorem lossyDecodes_iff (bs : List UInt8) (out : Str) : LossyDecodes bs out ↔ out = lossySpec bs :=
  ⟨lossyDecodes_unique bs out, fun h => h ▸ lossyDecodes_spec bs⟩

end Rosu.Lossy
