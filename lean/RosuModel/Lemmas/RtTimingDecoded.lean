/-
  Lemmas/RtTimingDecoded.lean — which clauses of `RtTiming.RepTimingMap` a DECODED map satisfies by construction
  (no law needed, so this holds of the IEEE instance): every control point of a decoded map has its time within the parse
  limit ±(2³¹−1) and not NaN, every timing point a signature numerator in `1 … 2³¹−1`, every sample point a custom bank
  within ±(2³¹−1); and all four lists are strictly sorted. (Beat lengths / velocities inside their clamps: `C12.clamps`,
  under the clamp laws.) What is NOT covered — and can fail — are the sample points `collect_samples` adds at computed times.
-/
import RosuModel.Lemmas.RtTimingFile
namespace Rosu
namespace RtTiming
open Rosu Encode EncodeLines Scalar
set_option linter.unusedSectionVars false

variable {F P : Type} [Scalar F] [Scalar P]

/-- the decoder's own limits on what it stores. -/
def limitPred : C12.PointPred F :=
  { t := fun p => InLimit p.time ∧ 1 ≤ p.timeSignature.numerator ∧ (p.timeSignature.numerator : Int) ≤ i32Max,
    d := fun p => InLimit p.time,
    e := fun p => InLimit p.time,
    s := fun p => InLimit p.time ∧ -i32Max ≤ p.customSampleBank ∧ p.customSampleBank ≤ i32Max }

theorem scalarParse_ok_inLimit {s : Str} {x : F} (h : (scalarParse s : Except NumErr F) = .ok x) : InLimit x := by
  unfold scalarParse scalarParseWithLimits at h
  split at h
  · cases h
  · rename_i n _
    by_cases h1 : lt n (-(maxParseValue : F)) = true
    · simp [h1] at h
    · by_cases h2 : lt (maxParseValue : F) n = true
      · simp [h1, h2] at h
      · by_cases h3 : isNaN n = true
        · simp [h1, h2, h3] at h
        · simp only [h1, h2, h3, Bool.false_eq_true, if_false] at h
          cases h
          exact ⟨by simpa using h1, by simpa using h2, by simpa using h3⟩

theorem i32ParseE_ok_range {s : Str} {n : Int} (h : i32ParseE s = .ok n) : -i32Max ≤ n ∧ n ≤ i32Max := by
  unfold i32ParseE i32ParseWithLimitsE at h
  split at h
  · cases h
  · rename_i v _
    by_cases h1 : v < -i32Max
    · simp [h1] at h
    · by_cases h2 : v > i32Max
      · simp [h1, h2] at h
      · simp only [h1, h2, if_false] at h
        cases h
        omega

theorem parseTimeSignature_ok_range {f : Option Str} {ts : TimeSignature} (h : parseTimeSignature f = .ok ts) :
    1 ≤ ts.numerator ∧ (ts.numerator : Int) ≤ i32Max := by
  have four : 1 ≤ TimeSignature.simpleQuadruple.numerator ∧ (TimeSignature.simpleQuadruple.numerator : Int) ≤ i32Max := by
    decide
  unfold parseTimeSignature at h
  split at h
  · cases h; exact four
  · split at h
    · cases h; exact four
    · split at h
      · cases h
      · rename_i n hn
        obtain ⟨_, hhi⟩ := i32ParseE_ok_range hn
        unfold TimeSignature.new at h
        split at h
        · rename_i ts' hts
          cases h
          split at hts
          · cases hts
            simp only
            omega
          · cases hts
        · cases h

theorem optI32_ok_range {f : Option Str} {o : Option Int} (h : optI32 f = .ok o) :
    -i32Max ≤ o.getD 0 ∧ o.getD 0 ≤ i32Max := by
  unfold optI32 at h
  split at h
  · cases h; decide
  · split at h
    · rename_i n hn
      cases h
      exact i32ParseE_ok_range hn
    · cases h

theorem effectPoint_time (mode : GameMode) (l : TpLine F) : (l.effectPoint mode).time = l.time := by
  unfold TpLine.effectPoint
  simp only []
  split <;> rfl

/-- **an accepted line only carries values within the decoder's limits.** -/
theorem accepted_line_limits (g : GeneralState F P) (mode : GameMode) (s : Str) (l : TpLine F)
    (h : parseTpFields g s = .ok l) : C12.LineAll limitPred mode l := by
  unfold parseTpFields at h
  cases hr : parseTpRaw g (splitOn ',' (trimComment s)) with
  | error e => rw [hr] at h; cases h
  | ok l' =>
    rw [hr] at h
    simp only [] at h
    have hl : l = l' := by
      unfold checkNaN at h
      split at h
      · cases h
      · exact (Except.ok.inj h).symm
    subst hl
    match hf : splitOn ',' (trimComment s), hr with
    | [], hr => cases hr
    | [_], hr => cases hr
    | a :: b :: rest, hr =>
      obtain ⟨time, beatLen, ts, ssn, cn, vn, flags, h1, _, h3, _, h5, _, _, rfl⟩ := C12.parseTpRaw_ok hr
      have ht := scalarParse_ok_inLimit h1
      have hs := parseTimeSignature_ok_range h3
      have hc := optI32_ok_range h5
      refine ⟨fun _ => ⟨ht, hs.1, hs.2⟩, ht, ?_, ⟨ht, hc.1, hc.2⟩⟩
      show InLimit (TpLine.effectPoint mode _).time
      rw [effectPoint_time]
      exact ht

/-- one `parse_timing_points` call keeps the invariant. -/
theorem inv_parseTimingPoints {st : TimingPointsState F P} (h : C12.Inv limitPred st) (line : Str) :
    C12.Inv limitPred (parseTimingPoints st line).2 := by
  unfold parseTimingPoints
  cases hp : parseTpFields st.general line with
  | error e => exact h
  | ok l => exact C12.inv_applyTpLine h l (accepted_line_limits st.general _ line l hp)

/-! ### through the framing driver -/

/-- a property of the decoder state that holds initially and is kept by every parser call holds after `decode`. -/
theorem frame_invariant {σ : Type} (D : LineDecoder σ) (I : σ → Prop) (hc : ∀ v, I (D.create v))
    (hs : ∀ s st l, I st → I (D.step s st l)) (ls : List Str) : I (frame D ls) := by
  have hfeed : ∀ (ls : List Str) (acc : Option Section × σ), I acc.2 → I (C05.feedAll D acc ls).2 := by
    intro ls
    induction ls with
    | nil => intro acc h; exact h
    | cons l rest ih =>
      intro acc h
      rw [C05.feedAll_cons]
      apply ih
      unfold C05.feedStep
      split
      · exact h
      · split
        · exact h
        · split
          · exact hs _ _ _ h
          · exact h
  rw [C05.frame_eq_spec]
  unfold C05.spec
  split
  · exact hc _
  · split
    · exact hfeed _ _ (hc _)
    · exact hfeed _ _ (hc _)

variable [Cvt P F] [Trig F] [Trig P]

omit [Trig F] [Trig P] in
theorem inv_beatmap_step (s : Section) (st : BeatmapState F P) (l : Str)
    (h : C12.Inv limitPred st.hitObjects.timingPoints) :
    C12.Inv limitPred (BeatmapState.step s st l).hitObjects.timingPoints := by
  cases s
  case general => exact C12.inv_parseGeneral h l
  case timingPoints => exact inv_parseTimingPoints h l
  all_goals exact h

/-- **decoded_points_in_limits.** Whatever lines are decoded, the control points of the resulting map are strictly sorted
and within the decoder's limits: times within ±(2³¹−1) and not NaN, signature numerators in `1 … 2³¹−1`, custom banks
within ±(2³¹−1). No law is used: this holds of the IEEE instance. -/
theorem decoded_points_in_limits (x : List Str) (m : Beatmap F P)
    (h : (frame (beatmapDecoder : LineDecoder (BeatmapState F P)) x).finish = .ok m) :
    C13.Sorted m.controlPoints ∧ C12.CpAll limitPred m.controlPoints := by
  have hinv := frame_invariant (beatmapDecoder : LineDecoder (BeatmapState F P))
    (fun st => C12.Inv limitPred st.hitObjects.timingPoints) (fun _ => C12.inv_create limitPred)
    (fun s st l hI => inv_beatmap_step s st l hI) x
  have hcp : m.controlPoints = (frame (beatmapDecoder : LineDecoder (BeatmapState F P)) x).hitObjects.timingPoints.finish.2 := by
    generalize frame (beatmapDecoder : LineDecoder (BeatmapState F P)) x = st at h
    unfold BeatmapState.finish at h
    cases hho : st.hitObjects.finish with
    | error e => simp [hho, bind, Except.bind] at h
    | ok ho =>
      simp only [hho, bind, Except.bind, pure, Except.pure] at h
      injection h with h
      subst h
      unfold HitObjectsState.finish at hho
      simp only [bind, Except.bind, pure, Except.pure] at hho
      split at hho
      · cases hho
      · injection hho with hho
        subst hho
        rfl
  rw [hcp]
  exact C12.inv_finish hinv

end RtTiming
end Rosu
