/-
  Lemmas/OptLenZero.lean — when `calculate_path` leaves `optimized_len` at `0.0` (structural, every `Scalar`).

  `optimized_len` is written in one place only: the osu!-mode simplification of a Catmull sub-path
  (`calculate_subpath`, arm `SplineType::Catmull`, `if mode == GameMode::Osu`). Hence, for every arithmetic, every
  fuel and all buffers: if the mode is not osu!, or no control point carries the Catmull path type, then a successful
  `calculate_path` returns `optimized_len = 0.0` (the value `Curve::new` initialised it with).

  `Ret Q r` ("if `r` is a value, it satisfies `Q`") is the partial-correctness companion of `Safe`
  (Lemmas/CurveTotal.lean); it needs no well-formedness of the scratch buffers.
-/
import RosuModel.Model.Curve
import RosuModel.Lemmas.Outcome
namespace Rosu
open Rosu.Curve

/-! ### partial correctness of outcomes -/

section Ret
variable {α β : Type}

/-- if the outcome is a value, the value satisfies `Q` (nothing is said about panics / fuel). -/
def Ret (Q : α → Prop) (r : Outcome α) : Prop := ∀ a, r = .ok a → Q a

theorem Ret.ok {Q : α → Prop} {a : α} (h : Q a) : Ret Q (.ok a) := by
  intro b hb; cases hb; exact h

theorem Ret.pure {Q : α → Prop} {a : α} (h : Q a) : Ret Q (pure a) := Ret.ok h

theorem Ret.error {Q : α → Prop} (e : CErr) : Ret Q (.error e) := by
  intro b hb; cases hb

theorem Ret.throw {Q : α → Prop} (e : CErr) : Ret Q (throw e) := Ret.error e

theorem Ret.trivial (r : Outcome α) : Ret (fun _ => True) r := fun _ _ => True.intro

theorem Ret.bind {Q : α → Prop} {S : β → Prop} {r : Outcome α} {f : α → Outcome β}
    (h : Ret Q r) (hf : ∀ a, Q a → Ret S (f a)) : Ret S (r >>= f) := by
  cases r with
  | ok a => exact hf a (h a rfl)
  | error e => exact Ret.error e

/-- bind after an outcome about which nothing is known. -/
theorem Ret.bind_any {S : β → Prop} {r : Outcome α} {f : α → Outcome β}
    (hf : ∀ a, Ret S (f a)) : Ret S (r >>= f) :=
  Ret.bind (Ret.trivial r) (fun a _ => hf a)

end Ret

/-! ### `optimized_len` is only written by the osu!-mode Catmull simplification -/

section Opt
variable {P F : Type} [Scalar P] [Scalar F] [Cvt P F] [Trig F] [Trig P]

/-- no control point carries the Catmull path type (`PathType::CATMULL`, the letter `C` — or an unknown letter — in a
`.osu` file). -/
def NoCatmull (points : List (PathControlPoint P)) : Prop :=
  ∀ cp ∈ points, ∀ t, cp.pathType = some t → t.kind ≠ SplineType.catmull

/-- `calculate_subpath` returns the `optimized_len` it was given unless the mode is osu! **and** the segment is a
Catmull segment. -/
theorem calculateSubpath_optLen_eq (fuel : Nat) (mode : GameMode) (seg : List (Pos P)) (kind : SplineType)
    (optLen : F) (bufs : BezierBuffers P) (hc : mode ≠ GameMode.osu ∨ kind ≠ SplineType.catmull) :
    Ret (fun r => r.2.1 = optLen) (calculateSubpath fuel mode seg kind optLen bufs) := by
  unfold calculateSubpath
  cases kind with
  | linear => exact Ret.pure rfl
  | perfectCurve =>
    simp only []
    have harc : ∀ arc : Option (List (Pos P)), Ret (fun r : List (Pos P) × F × BezierBuffers P => r.2.1 = optLen)
        (match arc with
          | some pts => pure (pts, optLen, bufs)
          | none => do
            let (out, bufs) ← approximateBezier fuel seg bufs
            pure (out, optLen, bufs)) := by
      intro arc
      cases arc with
      | some pts => exact Ret.pure rfl
      | none =>
        simp only []
        refine Ret.bind_any ?_
        rintro ⟨out, b⟩
        exact Ret.pure rfl
    split
    · exact Ret.bind_any harc
    · exact Ret.bind_any harc
  | bspline =>
    simp only []
    refine Ret.bind_any ?_
    rintro ⟨out, b⟩
    exact Ret.pure rfl
  | catmull =>
    have hm : mode ≠ GameMode.osu := by
      rcases hc with h | h
      · exact h
      · exact absurd rfl h
    simp only []
    refine Ret.bind_any ?_
    intro sub
    rw [if_pos hm]
    exact Ret.pure rfl

/-- one round of the segment loop of `calculate_path` keeps `optimized_len`. -/
theorem segBody_optLen_eq (fuel : Nat) (mode : GameMode) (points : List (PathControlPoint P))
    (vertices : List (Pos P)) (st : SegState P F) (i : Nat)
    (hc : mode ≠ GameMode.osu ∨ NoCatmull points) :
    Ret (fun st' => st'.optLen = st.optLen) (segBody fuel mode points vertices st i) := by
  unfold segBody
  refine Ret.bind_any ?_
  intro pt
  split
  · exact Ret.pure rfl
  · refine Ret.bind_any ?_
    intro seg
    split
    · exact Ret.throw _
    · exact Ret.pure rfl
    · intro st' hst'
      -- the start point of the segment decides the spline type
      cases hsp : getI points st.start with
      | error e => rw [hsp] at hst'; cases hst'
      | ok sp =>
        rw [hsp] at hst'
        simp only [Outcome.ok_bind] at hst'
        have hkind : mode ≠ GameMode.osu ∨
            (match sp.pathType with | none => SplineType.linear | some t => t.kind) ≠ SplineType.catmull := by
          rcases hc with h | h
          · exact Or.inl h
          · right
            have hmem : sp ∈ points := List.mem_of_getElem? ((getI_ok_iff _ _ _).mp hsp)
            cases hpt : sp.pathType with
            | none => simp
            | some t => exact h sp hmem t hpt
        have hsub := calculateSubpath_optLen_eq fuel mode seg
          (match sp.pathType with | none => SplineType.linear | some t => t.kind) st.optLen st.bezier hkind
        revert hst'
        refine (Ret.bind (S := fun st' : SegState P F => st'.optLen = st.optLen) hsub ?_) st'
        rintro ⟨out, o, bez⟩ ho
        simp only [] at ho
        refine Ret.bind_any ?_
        intro path
        exact Ret.pure ho

theorem segFold_optLen_eq (fuel : Nat) (mode : GameMode) (points : List (PathControlPoint P))
    (vertices : List (Pos P)) (hc : mode ≠ GameMode.osu ∨ NoCatmull points) (is : List Nat) (st : SegState P F) :
    Ret (fun st' => st'.optLen = st.optLen) (is.foldlM (segBody fuel mode points vertices) st) := by
  induction is generalizing st with
  | nil => exact Ret.pure rfl
  | cons i rest ih =>
    rw [List.foldlM_cons]
    refine Ret.bind (segBody_optLen_eq fuel mode points vertices st i hc) ?_
    intro st1 h1
    intro st' hst'
    rw [ih st1 st' hst', h1]

/-- **`calculate_path` returns `optimized_len = 0.0`** whenever the mode is not osu! or no control point has the
Catmull type — every arithmetic, every fuel, any (stale, ill-formed) buffers. -/
theorem calculatePath_optLen_zero (fuel : Nat) (mode : GameMode) (points : List (PathControlPoint P))
    (bufs b : CurveBuffers P F) (opt : F) (hc : mode ≠ GameMode.osu ∨ NoCatmull points)
    (h : calculatePath fuel mode points bufs = .ok (b, opt)) : opt = (0 : F) := by
  unfold calculatePath at h
  split at h
  · cases h; rfl
  · revert h
    refine (Ret.bind (S := fun r : CurveBuffers P F × F => r.2 = (0 : F))
      (segFold_optLen_eq fuel mode points (points.map (·.pos)) hc (List.range points.length)
        { path := [], optLen := (0 : F), bezier := bufs.bezier, start := 0 }) ?_) (b, opt)
    intro st hst
    exact Ret.pure hst

end Opt

end Rosu
