/-
  Lemmas/RtTimelineGroups.lean — the group list `encode_timing_points` builds from a sorted collection: strictly increasing
  in the `total_cmp` key (`timingGroups_sorted`), carrying exactly the timing points, in order (`timingGroups_timing`), and
  with a group at the key of every control point of every kind (`timingGroups_cover`).
-/
import RosuModel.Lemmas.RtTimelineRun
namespace Rosu
namespace RtTiming
open Rosu Encode Scalar
set_option linter.unusedSectionVars false

variable {F : Type} [Scalar F]

/-- the `total_cmp` key of a group. -/
def gkey (g : Group F) : Int := totalKey g.time

theorem searchKey_found {α : Type} (key : α → Int) (t : Int) (l : List α) (i : Nat)
    (h : searchKey key t l = .found i) : ∃ x ∈ l, key x = t := by
  induction l generalizing i with
  | nil => simp [searchKey] at h
  | cons x xs ih =>
    rw [searchKey] at h
    by_cases h1 : key x < t
    · simp only [h1, if_true] at h
      cases hs : searchKey key t xs with
      | found j =>
        obtain ⟨y, hy, hk⟩ := ih j hs
        exact ⟨y, by simp [hy], hk⟩
      | notFound j => rw [hs] at h; simp [SearchRes.shift] at h
    · by_cases h2 : key x = t
      · exact ⟨x, by simp, h2⟩
      · simp [h1, h2] at h

theorem filterMap_insertIdx_none {α β : Type} (f : α → Option β) (x : α) (hx : f x = none) (l : List α) (i : Nat) :
    (l.insertIdx i x).filterMap f = l.filterMap f := by
  induction l generalizing i with
  | nil =>
    cases i with
    | zero => simp [hx]
    | succ j => simp
  | cons y ys ih =>
    cases i with
    | zero => simp [hx]
    | succ j =>
      rw [List.insertIdx_succ_cons]
      simp only [List.filterMap_cons, ih]

theorem insertGroup_eq (gs : List (Group F)) (time : F) :
    insertGroup gs time = gs ∨ insertGroup gs time = insertOrReplace gkey ({ time := time, timing := none } : Group F) gs := by
  unfold insertGroup insertOrReplace
  have hk : gkey ({ time := time, timing := none } : Group F) = totalKey time := rfl
  rw [hk]
  have e : (fun g : Group F => totalKey g.time) = gkey := rfl
  rw [e]
  cases searchKey gkey (totalKey time) gs with
  | found i => exact Or.inl rfl
  | notFound i => exact Or.inr rfl

theorem insertGroup_sorted (gs : List (Group F)) (time : F) (h : C13.SortedBy gkey gs) :
    C13.SortedBy gkey (insertGroup gs time) := by
  rcases insertGroup_eq gs time with e | e
  · rw [e]; exact h
  · rw [e]; exact C13.insertOrReplace_sorted _ h

theorem insertGroup_timing (gs : List (Group F)) (time : F) :
    (insertGroup gs time).filterMap (·.timing) = gs.filterMap (·.timing) := by
  unfold insertGroup
  split
  · rfl
  · exact filterMap_insertIdx_none _ _ rfl _ _

theorem insertGroup_mono (gs : List (Group F)) (time : F) (g : Group F) (hg : g ∈ gs) : g ∈ insertGroup gs time := by
  unfold insertGroup
  have hb := C13.searchKey_bound (key := fun g : Group F => totalKey g.time) (totalKey time) gs
  split
  · exact hg
  · rename_i i hs
    rw [hs] at hb
    exact (List.mem_insertIdx hb).mpr (Or.inr hg)

theorem insertGroup_has (gs : List (Group F)) (time : F) : ∃ g ∈ insertGroup gs time, gkey g = totalKey time := by
  unfold insertGroup
  have hb := C13.searchKey_bound (key := fun g : Group F => totalKey g.time) (totalKey time) gs
  split
  · rename_i i hs
    exact searchKey_found _ _ _ i hs
  · rename_i i hs
    rw [hs] at hb
    exact ⟨_, (List.mem_insertIdx hb).mpr (Or.inl rfl), rfl⟩

theorem foldl_insertGroup_props (times : List F) (gs : List (Group F)) (h : C13.SortedBy gkey gs) :
    C13.SortedBy gkey (times.foldl insertGroup gs) ∧
    (times.foldl insertGroup gs).filterMap (·.timing) = gs.filterMap (·.timing) ∧
    (∀ g ∈ gs, g ∈ times.foldl insertGroup gs) ∧
    (∀ t ∈ times, ∃ g ∈ times.foldl insertGroup gs, gkey g = totalKey t) := by
  induction times generalizing gs with
  | nil => exact ⟨h, rfl, fun g hg => hg, fun t ht => by cases ht⟩
  | cons t rest ih =>
    obtain ⟨h1, h2, h3, h4⟩ := ih (insertGroup gs t) (insertGroup_sorted gs t h)
    rw [List.foldl_cons]
    refine ⟨h1, h2.trans (insertGroup_timing gs t), fun g hg => h3 g (insertGroup_mono gs t g hg), ?_⟩
    intro u hu
    rcases List.mem_cons.mp hu with rfl | hu
    · obtain ⟨g, hg, hk⟩ := insertGroup_has gs u
      exact ⟨g, h3 g hg, hk⟩
    · exact h4 u hu

/-- the timing groups of a sorted collection, before the other times are inserted: the timing points in order. -/
theorem initGroups_eq {cp : ControlPoints F} (hs : C13.Sorted cp) :
    (cp.timingPoints.map fun t => ({ time := t.time, timing := some t } : Group F)).mergeSort
      (fun a b => decide (totalKey a.time ≤ totalKey b.time)) =
    cp.timingPoints.map fun t => ({ time := t.time, timing := some t } : Group F) := by
  apply List.mergeSort_of_pairwise
  rw [List.pairwise_map]
  have := hs.timing
  unfold C13.SortedBy at this
  refine this.imp ?_
  intro a b hab
  simp only [decide_eq_true_eq]
  have : TimingPoint.key a < TimingPoint.key b := hab
  unfold TimingPoint.key at this
  omega

/-- **the groups of a sorted collection**: strictly increasing keys; the timing points, in order; every group's timing
point sits at the group's time and is a stored timing point; and there is a group at the key of every stored point. -/
theorem timingGroups_spec {cp : ControlPoints F} (hs : C13.Sorted cp) :
    C13.SortedBy gkey (timingGroups cp) ∧
    (timingGroups cp).filterMap (·.timing) = cp.timingPoints ∧
    (∀ g ∈ timingGroups cp, ∀ t, g.timing = some t → g.time = t.time ∧ t ∈ cp.timingPoints) ∧
    (∀ p ∈ cp.timingPoints, ∃ g ∈ timingGroups cp, gkey g = p.key) ∧
    (∀ p ∈ cp.difficultyPoints, ∃ g ∈ timingGroups cp, gkey g = p.key) ∧
    (∀ p ∈ cp.effectPoints, ∃ g ∈ timingGroups cp, gkey g = p.key) ∧
    (∀ p ∈ cp.samplePoints, ∃ g ∈ timingGroups cp, gkey g = p.key) := by
  have hinit : C13.SortedBy gkey (cp.timingPoints.map fun t => ({ time := t.time, timing := some t } : Group F)) := by
    unfold C13.SortedBy
    rw [List.pairwise_map]
    exact hs.timing
  have hfm : (cp.timingPoints.map fun t => ({ time := t.time, timing := some t } : Group F)).filterMap (·.timing) =
      cp.timingPoints := by
    rw [List.filterMap_map]
    have : ((fun g : Group F => g.timing) ∘ fun t => ({ time := t.time, timing := some t } : Group F)) = some := rfl
    rw [this, List.filterMap_some]
  obtain ⟨h1, h2, h3, h4⟩ := foldl_insertGroup_props
    (cp.difficultyPoints.map (·.time) ++ cp.effectPoints.map (·.time) ++ cp.samplePoints.map (·.time)) _ hinit
  unfold timingGroups
  rw [initGroups_eq hs]
  refine ⟨h1, h2.trans hfm, ?_, ?_, ?_, ?_, ?_⟩
  · intro g hg t ht
    have hg' : g ∈ timingGroups cp := by unfold timingGroups; rw [initGroups_eq hs]; exact hg
    rcases timingGroups_mem cp g hg' with ⟨u, hu, rfl⟩ | ⟨hn, _⟩
    · simp only [Option.some.injEq] at ht
      subst ht
      exact ⟨rfl, hu⟩
    · rw [hn] at ht; cases ht
  · intro p hp
    exact ⟨_, h3 _ (List.mem_map.mpr ⟨p, hp, rfl⟩), rfl⟩
  · intro p hp
    exact h4 p.time (by simp only [List.mem_append, List.mem_map]; exact Or.inl (Or.inl ⟨p, hp, rfl⟩))
  · intro p hp
    exact h4 p.time (by simp only [List.mem_append, List.mem_map]; exact Or.inl (Or.inr ⟨p, hp, rfl⟩))
  · intro p hp
    exact h4 p.time (by simp only [List.mem_append, List.mem_map]; exact Or.inr ⟨p, hp, rfl⟩)

end RtTiming
end Rosu
