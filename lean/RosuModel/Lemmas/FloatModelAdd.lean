/-
  Lemmas/FloatModelAdd.lean — IEEE monotonicity of `UnpackedFloat.add` (Lean ≥ 4.33 `Float.Model`), generically
  in the `Format`:

  * `add_ge`: for canonical operands, `a` not a NaN and `+0 ≤ x`, the unpacked sum `add spec a x` is a NaN (only
    for `-∞ + +∞`) or canonical and `a ≤ add spec a x` in the order of `UnpackedFloat.compare`
    (from `round_ge`/`round_le` in Lemmas/FloatModelRound.lean).
  * `unpack_canon`/`unpack_inRange`: every bit pattern unpacks to a canonical float whose exponent fits;
    `repack_canon`: `unpack ∘ pack` is the identity on canonical floats except for the overflow to ±∞
    (pack/unpack theory: Lemmas/FloatModelBits.lean); `le_repack`: the order survives packing.
  * `le_add_unpacked`: the statement on bit patterns that `Float`/`Float32` instantiate (Props/C16Ieee.lean).
-/
import RosuModel.Lemmas.FloatModelRound
import RosuModel.Lemmas.FloatModelBits
namespace Rosu.FMR
open Float.Model Float.Model.UnpackedFloat

/-- canonical form of an unpacked float of format `spec` (only finite floats carry a condition). -/
def Canon (spec : Format) : UnpackedFloat → Prop
  | .finite _ m e _ => CanonFin spec m e
  | _ => True

theorem IsFin.canon {spec : Format} {u : UnpackedFloat} {s : Sign} {m : Nat} {e : Int}
    (h : IsFin u s m e) (hc : CanonFin spec m e) : Canon spec u := by
  obtain ⟨_, rfl⟩ := h; exact hc


theorem normalize_pos (spec : Format) (z e : Int) (zs : Sign) (h : 0 < z) :
    normalize spec z e zs = round spec .positive z.toNat e := by
  unfold normalize; rw [Int.compare_eq_gt.mpr h]

theorem normalize_neg (spec : Format) (z e : Int) (zs : Sign) (h : z < 0) :
    normalize spec z e zs = round spec .negative (-z).toNat e := by
  unfold normalize; rw [Int.compare_eq_lt.mpr h]

theorem normalize_zero (spec : Format) (e : Int) (zs : Sign) :
    normalize spec 0 e zs = .zero zs := by
  unfold normalize; rw [Int.compare_eq_eq.mpr rfl]

theorem add_fin (spec : Format) (s₁ s₂ : Sign) (m₁ m₂ : Nat) (e₁ e₂ : Int) (h₁ h₂) :
    UnpackedFloat.add spec (.finite s₁ m₁ e₁ h₁) (.finite s₂ m₂ e₂ h₂) =
      normalize spec (s₁.apply ((m₁ * 2 ^ (e₁ - min e₁ e₂).toNat : Nat) : Int) +
        s₂.apply ((m₂ * 2 ^ (e₂ - min e₁ e₂).toNat : Nat) : Int)) (min e₁ e₂) .positive := by
  simp only [UnpackedFloat.add, decreaseExponent, Nat.shiftLeft_eq]



/-- `+0 ≤ x` singles out the zeros, the positive finite floats and `+∞`. -/
theorem nonneg_cases (x : UnpackedFloat) (h : (UnpackedFloat.zero .positive).le x = true) :
    (∃ s, x = .zero s) ∨ (∃ m e hm, x = .finite .positive m e hm) ∨ x = .infinity .positive := by
  match x, h with
  | .zero s, _ => exact Or.inl ⟨s, rfl⟩
  | .finite .positive m e hm, _ => exact Or.inr (Or.inl ⟨m, e, hm, rfl⟩)
  | .infinity .positive, _ => exact Or.inr (Or.inr rfl)

theorem le_refl_of_not_nan (a : UnpackedFloat) (h : a.isNaN = false) : a.le a = true := by
  match a, h with
  | .zero _, _ => rfl
  | .infinity .positive, _ => rfl
  | .infinity .negative, _ => rfl
  | .finite .positive m e hm, _ => exact le_fin_pos (lexLE_refl e m) hm hm
  | .finite .negative m e hm, _ => exact le_fin_neg (lexLE_refl e m) hm hm

theorem le_pos_infinity (a : UnpackedFloat) (h : a.isNaN = false) : a.le (.infinity .positive) = true := by
  match a, h with
  | .zero _, _ => rfl
  | .infinity .positive, _ => rfl
  | .infinity .negative, _ => rfl
  | .finite .positive m e hm, _ => rfl
  | .finite .negative m e hm, _ => rfl


theorem add_fin_pos_pos (spec : Format) (ma mx : Nat) (ea ex : Int) (ha hx)
    (hca : CanonFin spec ma ea) :
    ∃ mr er, IsFin (UnpackedFloat.add spec (.finite .positive ma ea ha) (.finite .positive mx ex hx)) .positive mr er ∧
      CanonFin spec mr er ∧ LexLE ea ma er mr := by
  rw [add_fin]
  simp only [Sign.apply]
  have hpos : 0 < ma * 2 ^ (ea - min ea ex).toNat := Nat.mul_pos ha (Nat.two_pow_pos _)
  rw [normalize_pos _ _ _ _ (by omega), ← Int.natCast_add, Int.toNat_natCast]
  exact round_ge spec .positive _ _ ma ea hca ha (ea - min ea ex).toNat (by omega) (Nat.le_add_right _ _)

theorem add_fin_neg_pos (spec : Format) (ma mx : Nat) (ea ex : Int) (ha hx)
    (hca : CanonFin spec ma ea) :
    let r := UnpackedFloat.add spec (.finite .negative ma ea ha) (.finite .positive mx ex hx)
    (∃ s, r = .zero s) ∨ (∃ mr er, IsFin r .positive mr er ∧ CanonFin spec mr er) ∨
      (∃ mr er, IsFin r .negative mr er ∧ CanonFin spec mr er ∧ LexLE er mr ea ma) := by
  intro r
  have hr : r = normalize spec (-((ma * 2 ^ (ea - min ea ex).toNat : Nat) : Int) +
      ((mx * 2 ^ (ex - min ea ex).toNat : Nat) : Int)) (min ea ex) .positive := add_fin ..
  generalize hA : ma * 2 ^ (ea - min ea ex).toNat = A at hr
  generalize hX : mx * 2 ^ (ex - min ea ex).toNat = X at hr
  rcases Int.lt_trichotomy (-(A : Int) + (X : Int)) 0 with h | h | h
  · -- the sum stays negative: `|a + x| = A - X ≤ A`
    rw [normalize_neg _ _ _ _ h] at hr
    have hM : (-(-(A : Int) + (X : Int))).toNat ≠ 0 := by omega
    have hle : (-(-(A : Int) + (X : Int))).toNat ≤ ma * 2 ^ (ea - min ea ex).toNat := by omega
    rcases round_le spec .negative _ hM (min ea ex) ma ea hca (ea - min ea ex).toNat (by omega) hle with
      hz | ⟨mr, er, hfin, hcan, hlex⟩
    · exact Or.inl ⟨_, hr.trans hz⟩
    · rw [← hr] at hfin
      exact Or.inr (Or.inr ⟨mr, er, hfin, hcan, hlex⟩)
  · rw [h, normalize_zero] at hr
    exact Or.inl ⟨_, hr⟩
  · rw [normalize_pos _ _ _ _ h] at hr
    have hM : (-(A : Int) + (X : Int)).toNat ≠ 0 := by omega
    obtain ⟨q, _, _, _, h4⟩ := round_cases spec .positive _ hM (min ea ex)
    rw [← hr] at h4
    rcases h4 with ⟨_, hz⟩ | ⟨_, _, hcan, hfin⟩ | ⟨_, hcan, hfin⟩
    · exact Or.inl ⟨_, hz⟩
    · exact Or.inr (Or.inl ⟨_, _, hfin, hcan⟩)
    · exact Or.inr (Or.inl ⟨_, _, hfin, hcan⟩)


theorem le_fin_neg_zero (m : Nat) (e : Int) (hm) (s : Sign) :
    (UnpackedFloat.finite .negative m e hm).le (.zero s) = true := rfl

theorem le_fin_neg_fin_pos (m m' : Nat) (e e' : Int) (hm hm') :
    (UnpackedFloat.finite .negative m e hm).le (.finite .positive m' e' hm') = true := rfl

/-- **IEEE addition of a non-negative number never decreases** (unpacked level, before packing): for canonical
operands, `a` not a NaN and `+0 ≤ x`, the sum is a NaN (only for `-∞ + +∞`) or canonical and `≥ a`. -/
theorem add_ge (spec : Format) (a x : UnpackedFloat) (ha : Canon spec a) (hx : Canon spec x)
    (hna : a.isNaN = false) (hx0 : (UnpackedFloat.zero .positive).le x = true) :
    (UnpackedFloat.add spec a x).isNaN = true ∨
      (Canon spec (UnpackedFloat.add spec a x) ∧ a.le (UnpackedFloat.add spec a x) = true) := by
  rcases nonneg_cases x hx0 with ⟨sx, rfl⟩ | ⟨mx, ex, hmx, rfl⟩ | rfl
  · -- x = ±0
    match a, hna, ha with
    | .zero .positive, _, _ => cases sx <;> exact Or.inr ⟨trivial, rfl⟩
    | .zero .negative, _, _ => cases sx <;> exact Or.inr ⟨trivial, rfl⟩
    | .infinity s, _, _ => exact Or.inr ⟨trivial, le_refl_of_not_nan _ rfl⟩
    | .finite s m e hm, _, hc => exact Or.inr ⟨hc, le_refl_of_not_nan _ rfl⟩
  · -- x finite positive
    match a, hna, ha with
    | .zero s, _, _ => exact Or.inr ⟨hx, rfl⟩
    | .infinity s, _, _ => exact Or.inr ⟨trivial, le_refl_of_not_nan _ rfl⟩
    | .finite .positive ma ea hma, _, hc =>
      obtain ⟨mr, er, ⟨hpos, hr⟩, hcan, hlex⟩ := add_fin_pos_pos spec ma mx ea ex hma hmx hc
      rw [hr]
      exact Or.inr ⟨hcan, le_fin_pos hlex hma hpos⟩
    | .finite .negative ma ea hma, _, hc =>
      rcases add_fin_neg_pos spec ma mx ea ex hma hmx hc with ⟨s, hr⟩ | ⟨mr, er, ⟨hpos, hr⟩, hcan⟩ |
        ⟨mr, er, ⟨hpos, hr⟩, hcan, hlex⟩
      · rw [hr]; exact Or.inr ⟨trivial, rfl⟩
      · rw [hr]; exact Or.inr ⟨hcan, rfl⟩
      · rw [hr]; exact Or.inr ⟨hcan, le_fin_neg hlex hma hpos⟩
  · -- x = +∞
    match a, hna with
    | .zero s, _ => exact Or.inr ⟨trivial, rfl⟩
    | .infinity .positive, _ => exact Or.inr ⟨trivial, rfl⟩
    | .infinity .negative, _ => exact Or.inl rfl
    | .finite .positive m e hm, _ => exact Or.inr ⟨trivial, rfl⟩
    | .finite .negative m e hm, _ => exact Or.inr ⟨trivial, rfl⟩


/-! ### packing the result: `unpack ∘ pack` -/

/-- the exponent fits the packed format (otherwise `pack` overflows to an infinity). -/
def InRange (spec : Format) : UnpackedFloat → Prop
  | .finite _ _ e _ =>
    e + (spec.exponentBias : Int) + (spec.mantissaBitsWithoutImplicit : Int) + 1 < ((2 ^ spec.exponentBits : Nat) : Int)
  | _ => True

/-- what `Float.Model.add` etc. return after packing, seen unpacked again. -/
def repack (spec : Format) (u : UnpackedFloat) : UnpackedFloat := UnpackedFloat.unpack spec (pack spec u)

theorem minExponent_eq (spec : Format) :
    spec.minExponent = 1 - ((spec.exponentBias : Int) + (spec.mantissaBitsWithoutImplicit : Int)) := by
  have hpos : 0 < 2 ^ (spec.exponentBits - 1) := Nat.two_pow_pos _
  have hcast : (2 : Int) ^ (spec.exponentBits - 1) = ((2 ^ (spec.exponentBits - 1) : Nat) : Int) := by
    rw [Int.natCast_pow]; rfl
  unfold Format.minExponent Format.exponentBias Format.mantissaBits
  rw [hcast]
  generalize 2 ^ (spec.exponentBits - 1) = P at hpos
  omega

theorem mantissaBits_sub_one (spec : Format) : spec.mantissaBits - 1 = spec.mantissaBitsWithoutImplicit := by
  unfold Format.mantissaBits; omega

theorem repack_nan (spec : Format) : repack spec .notANumber = .notANumber := by
  have hM := spec.hm
  show UnpackedFloat.unpack spec (packComponents spec .positive (-1#_) (1#_ <<< (spec.mantissaBitsWithoutImplicit - 1))) = _
  unfold UnpackedFloat.unpack
  simp only [unpackExponent_packComponents, unpackMantissa_packComponents, if_true]
  rw [if_neg]
  intro h
  have := congrArg BitVec.toNat h
  rw [BitVec.toNat_shiftLeft, BitVec.toNat_ofNat, BitVec.toNat_zero] at this
  have h1 : 1 % 2 ^ spec.mantissaBitsWithoutImplicit = 1 :=
    Nat.mod_eq_of_lt (Nat.one_lt_two_pow (by omega))
  rw [h1, Nat.shiftLeft_eq, Nat.one_mul, Nat.mod_eq_of_lt (Nat.pow_lt_pow_right (by omega) (by omega))] at this
  have := Nat.two_pow_pos (spec.mantissaBitsWithoutImplicit - 1)
  omega

/-- every unpacked bit pattern is canonical. -/
theorem unpack_canon (spec : Format) (b : BitVec spec.numBits) : Canon spec (UnpackedFloat.unpack spec b) := by
  rw [FM.unpack_eq_unpackNat]
  unfold FM.unpackNat
  have hb : 0 < 2 ^ (spec.exponentBits - 1) := Nat.two_pow_pos _
  have hM : 0 < 2 ^ spec.mantissaBitsWithoutImplicit := Nat.two_pow_pos _
  have hlt : b.toNat % 2 ^ spec.mantissaBitsWithoutImplicit < 2 ^ spec.mantissaBitsWithoutImplicit := Nat.mod_lt _ hM
  have hpow : 2 ^ spec.mantissaBits = 2 * 2 ^ spec.mantissaBitsWithoutImplicit := by
    unfold Format.mantissaBits; rw [Nat.pow_add]
  split
  · split <;> trivial
  · split
    · split
      · trivial
      · refine ⟨by omega, ?_, Or.inr ?_⟩
        · rw [minExponent_eq]; unfold Format.exponentBias; omega
        · rw [minExponent_eq]; unfold Format.exponentBias; omega
    · refine ⟨by omega, ?_, Or.inl ?_⟩
      · rw [minExponent_eq]; unfold Format.exponentBias; omega
      · rw [mantissaBits_sub_one]; omega

/-- every unpacked bit pattern has an exponent that fits. -/
theorem unpack_inRange (spec : Format) (hE : 2 ≤ spec.exponentBits) (b : BitVec spec.numBits) :
    InRange spec (UnpackedFloat.unpack spec b) := by
  rw [FM.unpack_eq_unpackNat]
  unfold FM.unpackNat
  have h4 := FM.four_le_pow hE
  have hb : 0 < 2 ^ (spec.exponentBits - 1) := Nat.two_pow_pos _
  have hlt : b.toNat / 2 ^ spec.mantissaBitsWithoutImplicit % 2 ^ spec.exponentBits < 2 ^ spec.exponentBits :=
    Nat.mod_lt _ (by omega)
  split
  · split <;> trivial
  · split
    · split
      · trivial
      · show _ < _
        unfold Format.exponentBias; omega
    · show _ < _
      unfold Format.exponentBias; omega


/-- `unpack ∘ pack` on a canonical float: the identity, except that a finite float whose exponent does not fit
overflows to the infinity of its sign. -/
theorem repack_canon (spec : Format) (hE : 2 ≤ spec.exponentBits) (r : UnpackedFloat) (hc : Canon spec r) :
    repack spec r = r ∨
      ∃ s m e h, r = .finite s m e h ∧ ¬ InRange spec r ∧ repack spec r = .infinity s := by
  match r, hc with
  | .notANumber, _ => exact Or.inl (repack_nan spec)
  | .infinity s, _ => exact Or.inl (FM.unpack_pack_infinity s)
  | .zero s, _ => exact Or.inl (FM.unpack_pack_zero hE s)
  | .finite s m e hm, hc =>
    have hQ : 0 < 2 ^ spec.exponentBits := Nat.two_pow_pos _
    have hge := hc.ge
    rw [minExponent_eq] at hge
    by_cases hr : InRange spec (.finite s m e hm)
    · left
      have hr' : e + (spec.exponentBias : Int) + (spec.mantissaBitsWithoutImplicit : Int) + 1 <
          ((2 ^ spec.exponentBits : Nat) : Int) := hr
      by_cases hn : 2 ^ spec.mantissaBitsWithoutImplicit ≤ m
      · refine FM.unpack_pack_normal hE s m e hm hn ?_ (by omega) ?_
        · have := hc.lt; unfold Format.mantissaBits at this; rwa [Nat.add_comm] at this
        · generalize 2 ^ spec.exponentBits = Q at hQ hr'; omega
      · refine FM.unpack_pack_subnormal hE s m e hm (by omega) ?_
        rcases hc.norm with h | h
        · rw [mantissaBits_sub_one] at h; omega
        · rw [h, minExponent_eq]
    · right
      refine ⟨s, m, e, hm, rfl, hr, ?_⟩
      have hr' : ¬ e + (spec.exponentBias : Int) + (spec.mantissaBitsWithoutImplicit : Int) + 1 <
          ((2 ^ spec.exponentBits : Nat) : Int) := hr
      unfold repack
      rw [FM.pack_finite, if_pos (by generalize 2 ^ spec.exponentBits = Q at hQ hr'; omega)]
      exact FM.unpack_pack_infinity s

/-- the order survives packing: a float in range that is `≤` a canonical result is `≤` the packed result. -/
theorem le_repack (spec : Format) (hE : 2 ≤ spec.exponentBits) (a r : UnpackedFloat)
    (har : InRange spec a) (hc : Canon spec r) (h : a.le r = true) : a.le (repack spec r) = true := by
  rcases repack_canon spec hE r hc with he | ⟨s, m, e, hm, rfl, hnr, he⟩
  · rw [he]; exact h
  · rw [he]
    match a, s, h, har with
    | .zero _, .positive, _, _ => rfl
    | .infinity .positive, .positive, _, _ => rfl
    | .infinity .negative, .positive, _, _ => rfl
    | .infinity .negative, .negative, _, _ => rfl
    | .finite .positive _ _ _, .positive, _, _ => rfl
    | .finite .negative _ _ _, .positive, _, _ => rfl
    | .finite .negative ma ea hma, .negative, h, har =>
      -- `a ≤ r` for negative finite floats means `er ≤ ea`: `r` cannot overflow when `a` does not
      exfalso
      apply hnr
      have har' : ea + (spec.exponentBias : Int) + (spec.mantissaBitsWithoutImplicit : Int) + 1 <
          ((2 ^ spec.exponentBits : Nat) : Int) := har
      show e + (spec.exponentBias : Int) + (spec.mantissaBitsWithoutImplicit : Int) + 1 <
          ((2 ^ spec.exponentBits : Nat) : Int)
      have hle : e ≤ ea := by
        rcases Int.lt_or_le ea e with hlt | hge
        · unfold UnpackedFloat.le UnpackedFloat.compare at h
          simp [Int.compare_eq_lt.mpr hlt] at h
        · exact hge
      omega


theorem eq_nan_of_isNaN (r : UnpackedFloat) (h : r.isNaN = true) : r = .notANumber := by
  match r, h with
  | .notANumber, _ => rfl

/-- **IEEE addition of a non-negative number never decreases** (every format with at least two exponent bits;
operands and result as the packed operations of `Float.Model`/`Float32.Model` see them): for bit patterns
`ba`, `bx` with `a` not a NaN and `+0 ≤ x`, `a ≤ a + x` unless the packed sum is a NaN. -/
theorem le_add_unpacked (spec : Format) (hE : 2 ≤ spec.exponentBits) (ba bx : BitVec spec.numBits)
    (hna : (UnpackedFloat.unpack spec ba).isNaN = false)
    (hx0 : (UnpackedFloat.zero .positive).le (UnpackedFloat.unpack spec bx) = true)
    (hs : (repack spec (UnpackedFloat.add spec (UnpackedFloat.unpack spec ba) (UnpackedFloat.unpack spec bx))).isNaN
      = false) :
    (UnpackedFloat.unpack spec ba).le
      (repack spec (UnpackedFloat.add spec (UnpackedFloat.unpack spec ba) (UnpackedFloat.unpack spec bx))) = true := by
  rcases add_ge spec _ _ (unpack_canon spec ba) (unpack_canon spec bx) hna hx0 with h | ⟨hc, hle⟩
  · rw [eq_nan_of_isNaN _ h, repack_nan] at hs
    cases hs
  · exact le_repack spec hE _ _ (unpack_inRange spec hE ba) hc hle


/-! ### non-negative sums, and the only NaN sum -/

theorem isNaN_le_false (a r : UnpackedFloat) (h : a.le r = true) : r.isNaN = false := by
  match r, h with
  | .zero _, _ => rfl
  | .infinity _, _ => rfl
  | .finite _ _ _ _, _ => rfl
  | .notANumber, h =>
    exfalso
    match a, h with
    | .notANumber, h => cases h
    | .zero _, h => cases h
    | .infinity _, h => cases h
    | .finite _ _ _ _, h => cases h

/-- the sum of two non-negative floats is non-negative (and not a NaN). -/
theorem add_nonneg (spec : Format) (a x : UnpackedFloat) (ha : Canon spec a) (hx : Canon spec x)
    (ha0 : (UnpackedFloat.zero .positive).le a = true) (hx0 : (UnpackedFloat.zero .positive).le x = true) :
    Canon spec (UnpackedFloat.add spec a x) ∧
      (UnpackedFloat.zero .positive).le (UnpackedFloat.add spec a x) = true := by
  rcases nonneg_cases a ha0 with ⟨sa, rfl⟩ | ⟨ma, ea, hma, rfl⟩ | rfl <;>
  rcases nonneg_cases x hx0 with ⟨sx, rfl⟩ | ⟨mx, ex, hmx, rfl⟩ | rfl
  · cases sa <;> cases sx <;> exact ⟨trivial, rfl⟩
  · exact ⟨hx, rfl⟩
  · exact ⟨trivial, rfl⟩
  · exact ⟨ha, rfl⟩
  · obtain ⟨mr, er, ⟨hpos, hr⟩, hcan, _⟩ := add_fin_pos_pos spec ma mx ea ex hma hmx ha
    rw [hr]; exact ⟨hcan, rfl⟩
  · exact ⟨trivial, rfl⟩
  · exact ⟨trivial, rfl⟩
  · exact ⟨trivial, rfl⟩
  · exact ⟨trivial, rfl⟩

/-- for `a` not a NaN and `+0 ≤ x` the only NaN sum is `-∞ + +∞`. -/
theorem add_nan_only (spec : Format) (a x : UnpackedFloat) (ha : Canon spec a)
    (hna : a.isNaN = false) (hx0 : (UnpackedFloat.zero .positive).le x = true)
    (h : (UnpackedFloat.add spec a x).isNaN = true) : a = .infinity .negative ∧ x = .infinity .positive := by
  rcases nonneg_cases x hx0 with ⟨sx, rfl⟩ | ⟨mx, ex, hmx, rfl⟩ | rfl
  · match a, hna, h with
    | .zero .positive, _, h => cases sx <;> cases h
    | .zero .negative, _, h => cases sx <;> cases h
    | .infinity s, _, h => cases h
    | .finite s m e hm, _, h => cases h
  · match a, hna, ha, h with
    | .zero s, _, _, h => cases h
    | .infinity s, _, _, h => cases h
    | .finite .positive ma ea hma, _, hc, h =>
      obtain ⟨mr, er, ⟨hpos, hr⟩, _, _⟩ := add_fin_pos_pos spec ma mx ea ex hma hmx hc
      rw [hr] at h; cases h
    | .finite .negative ma ea hma, _, hc, h =>
      rcases add_fin_neg_pos spec ma mx ea ex hma hmx hc with ⟨s, hr⟩ | ⟨mr, er, ⟨hpos, hr⟩, _⟩ |
        ⟨mr, er, ⟨hpos, hr⟩, _, _⟩ <;> (rw [hr] at h; cases h)
  · match a, hna, h with
    | .zero s, _, h => cases h
    | .infinity .positive, _, h => cases h
    | .infinity .negative, _, _ => exact ⟨rfl, rfl⟩
    | .finite .positive m e hm, _, h => cases h
    | .finite .negative m e hm, _, h => cases h

/-- packed version of `add_nonneg`. -/
theorem add_nonneg_unpacked (spec : Format) (hE : 2 ≤ spec.exponentBits) (ba bx : BitVec spec.numBits)
    (ha0 : (UnpackedFloat.zero .positive).le (UnpackedFloat.unpack spec ba) = true)
    (hx0 : (UnpackedFloat.zero .positive).le (UnpackedFloat.unpack spec bx) = true) :
    (UnpackedFloat.zero .positive).le
      (repack spec (UnpackedFloat.add spec (UnpackedFloat.unpack spec ba) (UnpackedFloat.unpack spec bx))) = true := by
  obtain ⟨hc, hle⟩ := add_nonneg spec _ _ (unpack_canon spec ba) (unpack_canon spec bx) ha0 hx0
  exact le_repack spec hE _ _ trivial hc hle

/-- packed version of `add_nan_only`. -/
theorem add_nan_unpacked (spec : Format) (hE : 2 ≤ spec.exponentBits) (ba bx : BitVec spec.numBits)
    (hna : (UnpackedFloat.unpack spec ba).isNaN = false)
    (hx0 : (UnpackedFloat.zero .positive).le (UnpackedFloat.unpack spec bx) = true)
    (hs : (repack spec (UnpackedFloat.add spec (UnpackedFloat.unpack spec ba) (UnpackedFloat.unpack spec bx))).isNaN
      = true) :
    UnpackedFloat.unpack spec ba = .infinity .negative ∧ UnpackedFloat.unpack spec bx = .infinity .positive := by
  apply add_nan_only spec _ _ (unpack_canon spec ba) hna hx0
  rcases add_ge spec _ _ (unpack_canon spec ba) (unpack_canon spec bx) hna hx0 with h | ⟨hc, hle⟩
  · exact h
  · have := isNaN_le_false _ _ (le_repack spec hE _ _ (unpack_inRange spec hE ba) hc hle)
    rw [this] at hs; cases hs

/-- results of `round` are canonical. -/
theorem round_canon (spec : Format) (s : Sign) (M : Nat) (hM : M ≠ 0) (e0 : Int) :
    Canon spec (round spec s M e0) := by
  obtain ⟨q, _, _, _, h4⟩ := round_cases spec s M hM e0
  rcases h4 with ⟨_, hz⟩ | ⟨_, _, hcan, hfin⟩ | ⟨_, hcan, hfin⟩
  · rw [hz]; trivial
  · exact hfin.canon hcan
  · exact hfin.canon hcan

end Rosu.FMR
