/-
  Lemmas/FloatCodecLawsPow.lean — integer-exponent powers as numerator / denominator pairs of naturals, and
  comparisons of a positive rational `num/den` with `c · 2^e` by cross-multiplication (core Lean only).
  `pN b e / pD b e = b^e` for `e : Int`; exactly one of the two parts is different from 1.
-/
import RosuModel.Model.FloatCodec
namespace Rosu
namespace FCL

/-- numerator part of `b^e`. -/
def pN (b : Nat) (e : Int) : Nat := b ^ e.toNat
/-- denominator part of `b^e`. -/
def pD (b : Nat) (e : Int) : Nat := b ^ (-e).toNat

theorem pN_pos {b : Nat} (hb : 0 < b) (e : Int) : 0 < pN b e := Nat.pow_pos hb
theorem pD_pos {b : Nat} (hb : 0 < b) (e : Int) : 0 < pD b e := Nat.pow_pos hb

/-- `b^u / b^v = b^e` when `u - v = e`. -/
theorem pow_law (b : Nat) (u v : Nat) (e : Int) (h : (u : Int) - v = e) : b ^ u * pD b e = b ^ v * pN b e := by
  simp only [pN, pD, ← Nat.pow_add]
  congr 1; omega

/-- `b^(e+j) = b^j · b^e`. -/
theorem shift_law (b : Nat) (e : Int) (j : Nat) : pN b (e + j) * pD b e = b ^ j * (pN b e * pD b (e + j)) := by
  simp only [pN, pD, ← Nat.pow_add]
  congr 1; omega

/-- `c · 2^e ≤ num/den`. -/
def LeS (c : Nat) (e : Int) (num den : Nat) : Prop := c * (den * pN 2 e) ≤ num * pD 2 e
/-- `num/den < c · 2^e`. -/
def LtS (num den : Nat) (c : Nat) (e : Int) : Prop := num * pD 2 e < c * (den * pN 2 e)

instance (c e num den) : Decidable (LeS c e num den) := by unfold LeS; infer_instance
instance (c e num den) : Decidable (LtS num den c e) := by unfold LtS; infer_instance

theorem not_LtS {num den c : Nat} {e : Int} : ¬ LtS num den c e ↔ LeS c e num den := by
  unfold LtS LeS; omega

/-- `c · 2^(e+j) ≤ x ↔ (c · 2^j) · 2^e ≤ x`. -/
theorem LeS_shift (c : Nat) (e : Int) (j : Nat) (num den : Nat) :
    LeS c (e + j) num den ↔ LeS (c * 2 ^ j) e num den := by
  unfold LeS
  have h := shift_law 2 e j
  have hp : 0 < pD 2 e := pD_pos (by decide) e
  have hq : 0 < pD 2 (e + j) := pD_pos (by decide) (e + j)
  -- multiply the left inequality by pD e, the right one by pD (e+j)
  have A : c * (den * pN 2 (e + ↑j)) ≤ num * pD 2 (e + ↑j) ↔
      c * (den * pN 2 (e + ↑j)) * pD 2 e ≤ num * pD 2 (e + ↑j) * pD 2 e := (Nat.mul_le_mul_right_iff hp).symm
  have B : c * 2 ^ j * (den * pN 2 e) ≤ num * pD 2 e ↔
      c * 2 ^ j * (den * pN 2 e) * pD 2 (e + ↑j) ≤ num * pD 2 e * pD 2 (e + ↑j) := (Nat.mul_le_mul_right_iff hq).symm
  rw [A, B]
  have e1 : c * (den * pN 2 (e + ↑j)) * pD 2 e = c * den * (pN 2 (e + j) * pD 2 e) := by
    simp only [Nat.mul_assoc]
  have e2 : c * 2 ^ j * (den * pN 2 e) * pD 2 (e + ↑j) = c * den * (2 ^ j * (pN 2 e * pD 2 (e + j))) := by
    simp only [Nat.mul_assoc, Nat.mul_left_comm, Nat.mul_comm]
  have e3 : num * pD 2 (e + ↑j) * pD 2 e = num * pD 2 e * pD 2 (e + ↑j) := by
    simp only [Nat.mul_assoc, Nat.mul_comm (pD 2 e)]
  rw [e1, e2, e3, h]

theorem LtS_shift (num den : Nat) (c : Nat) (e : Int) (j : Nat) :
    LtS num den c (e + j) ↔ LtS num den (c * 2 ^ j) e := by
  rw [← Decidable.not_iff_not, not_LtS, not_LtS]; exact LeS_shift c e j num den

/-- `num/den ≤ c · 2^e`. -/
def GeS (num den : Nat) (c : Nat) (e : Int) : Prop := num * pD 2 e ≤ c * (den * pN 2 e)
/-- `c · 2^e < num/den`. -/
def GtS (c : Nat) (e : Int) (num den : Nat) : Prop := c * (den * pN 2 e) < num * pD 2 e

theorem not_GtS {num den c : Nat} {e : Int} : ¬ GtS c e num den ↔ GeS num den c e := by
  unfold GtS GeS; omega

/-- the same comparisons at a lower exponent: `e' = e + j`. -/
theorem LeS_at {c : Nat} {e e' : Int} (j : Nat) (h : e' = e + j) (num den : Nat) :
    LeS c e' num den ↔ LeS (c * 2 ^ j) e num den := by subst h; exact LeS_shift c e j num den
theorem LtS_at {c : Nat} {e e' : Int} (j : Nat) (h : e' = e + j) (num den : Nat) :
    LtS num den c e' ↔ LtS num den (c * 2 ^ j) e := by subst h; exact LtS_shift num den c e j

theorem GtS_at {c : Nat} {e e' : Int} (j : Nat) (h : e' = e + j) (num den : Nat) :
    GtS c e' num den ↔ GtS (c * 2 ^ j) e num den := by
  subst h
  unfold GtS
  have h := shift_law 2 e j
  have hp : 0 < pD 2 e := pD_pos (by decide) e
  have hq : 0 < pD 2 (e + j) := pD_pos (by decide) (e + j)
  have A : c * (den * pN 2 (e + ↑j)) < num * pD 2 (e + ↑j) ↔
      c * (den * pN 2 (e + ↑j)) * pD 2 e < num * pD 2 (e + ↑j) * pD 2 e := (Nat.mul_lt_mul_right hp).symm
  have B : c * 2 ^ j * (den * pN 2 e) < num * pD 2 e ↔
      c * 2 ^ j * (den * pN 2 e) * pD 2 (e + ↑j) < num * pD 2 e * pD 2 (e + ↑j) := (Nat.mul_lt_mul_right hq).symm
  rw [A, B]
  have e1 : c * (den * pN 2 (e + ↑j)) * pD 2 e = c * den * (pN 2 (e + j) * pD 2 e) := by
    simp only [Nat.mul_assoc]
  have e2 : c * 2 ^ j * (den * pN 2 e) * pD 2 (e + ↑j) = c * den * (2 ^ j * (pN 2 e * pD 2 (e + j))) := by
    simp only [Nat.mul_assoc, Nat.mul_left_comm, Nat.mul_comm]
  have e3 : num * pD 2 (e + ↑j) * pD 2 e = num * pD 2 e * pD 2 (e + ↑j) := by
    simp only [Nat.mul_assoc, Nat.mul_comm (pD 2 e)]
  rw [e1, e2, e3, h]

theorem GeS_at {c : Nat} {e e' : Int} (j : Nat) (h : e' = e + j) (num den : Nat) :
    GeS num den c e' ↔ GeS num den (c * 2 ^ j) e := by
  rw [← not_GtS, ← not_GtS, GtS_at j h]

/-! ### `bitLen` -/

theorem bitLen_pos {n : Nat} (h : 0 < n) : 0 < bitLen n := by
  unfold bitLen; rw [if_neg (by omega)]; omega

theorem lt_pow_bitLen (n : Nat) : n < 2 ^ bitLen n := by
  unfold bitLen
  split
  · omega
  · exact Nat.lt_log2_self

theorem pow_bitLen_le {n : Nat} (h : 0 < n) : 2 ^ (bitLen n - 1) ≤ n := by
  unfold bitLen
  rw [if_neg (by omega)]
  exact Nat.log2_self_le (by omega)

end FCL
end Rosu
