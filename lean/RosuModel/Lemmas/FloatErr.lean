/-
  Lemmas/FloatErr.lean — a **rounding-error layer** for Lean ≥ 4.33's logical float model (`Float.Model`), on top of
  the order / monotonicity theory of Lemmas/FloatModel*.lean, FloatRoundMono.lean, FloatArithMono.lean.

  * `uval : UnpackedFloat → ℚ`, `toRat : Float → ℚ`: the exact value `± m · 2^e` of a finite double (0 for `±0`; by
    convention 0 for `±∞` / NaN — every statement below that mentions such an operand excludes it by `isFinite`).
  * `round_shape` / `uval_round`: `UnpackedFloat.round spec s M e` has the value `± rq · 2^te` where `te` is the target
    exponent of the exact value `M · 2^e` and `rq` is `M · 2^e / 2^te` rounded to nearest-even (`FRM.rne`);
  * `rq_half_ulp`: `|rq · 2^te − M · 2^e| ≤ 2^te / 2` (half an ulp, every input, underflow included);
    `rq_exact`: no error when the grid `2^e` of the input is not finer than the target grid (`te ≤ e`);
    `rq_rel`: `|rq · 2^te − M · 2^e| ≤ M · 2^e · 2^(−p)` (`p` = `mantissaBits`) whenever `minExponent ≤ e` — the inputs
    of `add` / `sub` always satisfy this, so **addition has no underflow error**.
  * `add_err_unpacked` (every `Format`), **`add_err_float`**: the STANDARD MODEL of floating-point addition,
      `a`, `b`, `a + b` finite  ⟹  `toRat (a + b) = (toRat a + toRat b) · (1 + δ)`, `|δ| ≤ 2⁻⁵³`
    (all sign combinations, zeros, subnormals, cancellation); `add_err_abs_float` in the form `|·| ≤ 2⁻⁵³ · |a + b|`.
  * `toRat_pos`, `toRat_nonneg`, `toRat_of_unpack`, `toRat_le_of_le`, `toRat_lt_of_lt`: sign and **monotonicity** of
    the value (the IEEE order on finite doubles is the order of the values).
  * `bernoulli`, `one_add_pow_le`, `pow_sum_ge_two`: the elementary estimates of `(1 ± u)^n` the accumulated bounds use.
-/
import RosuModel.Lemmas.FloatArithMono
import Mathlib.Algebra.Order.Field.Rat
import Mathlib.Algebra.Order.Field.Basic
import Mathlib.Tactic.Linarith
import Mathlib.Tactic.Ring
import Mathlib.Tactic.Positivity
import Mathlib.Tactic.FieldSimp
import Mathlib.Tactic.NormNum
namespace Rosu.FErr
open Float.Model Float.Model.UnpackedFloat Rosu.FMR Rosu.FRM Rosu.FAM

/-! ### round-to-nearest-even is *nearest* (natural numbers) -/

/-- `rne N D` is within `1/2` of `N / D`:  `|rne · D − N| ≤ D / 2`, without fractions. -/
theorem rne_near (N D : Nat) (hD : 0 < D) :
    2 * (rne N D * D) ≤ 2 * N + D ∧ 2 * N ≤ 2 * (rne N D * D) + D := by
  rw [rne_eq N D hD]
  have h1 := Nat.div_add_mod N D
  have h2 : N % D < D := Nat.mod_lt _ hD
  generalize N / D = q at *
  generalize N % D = r at *
  have hc : q * D = D * q := Nat.mul_comm _ _
  split
  · omega
  · split
    · rcases Nat.mod_two_eq_zero_or_one q with h | h <;> rw [h]
      · rw [Nat.add_zero]; omega
      · rw [Nat.add_mul, Nat.one_mul]; omega
    · rw [Nat.add_mul, Nat.one_mul]; omega

/-- the mantissa `round` produces on the grid of the target exponent: the exact value `M · 2^e` divided by `2^te`,
rounded to nearest-even. -/
def rq (spec : Format) (M : Nat) (e : Int) : Nat :=
  rne (M * 2 ^ (e - tgt spec M e).toNat) (2 ^ (tgt spec M e - e).toNat)

/-- **`round` is the renormalisation of the nearest-even mantissa** `rq` at the target exponent of the exact value. -/
theorem round_shape (spec : Format) (s : Sign) (M : Nat) (hM : M ≠ 0) (e : Int) :
    Shape spec s (round spec s M e) (rq spec M e) (tgt spec M e) := by
  have hg := round_tgt_ge spec M hM e
  have ht : tgt spec (M * 2 ^ (e - tgt spec M e).toNat) (e - ((e - tgt spec M e).toNat : Int)) = tgt spec M e := by
    unfold tgt; rw [totalExponent_shift hM]
  have h := (rwa_shape spec s (M * 2 ^ (e - tgt spec M e).toNat) 1 (by omega)
    (e - ((e - tgt spec M e).toNat : Int)) (by rw [Nat.div_one]; exact hg)).1
  rw [← rwa_exact_eq, ← round_eq_rwa, Nat.div_one, ht, Nat.one_mul] at h
  have hd : (tgt spec M e - (e - ((e - tgt spec M e).toNat : Int))).toNat = (tgt spec M e - e).toNat := by omega
  rw [hd] at h
  exact h

/-! ### exact values -/

/-- the sign as a rational. -/
def sgnQ : Sign → ℚ
  | .positive => 1
  | .negative => -1

/-- **the exact value of an unpacked float**: `± m · 2^e` for a finite one, `0` for the zeros (and, by convention, `0`
for `±∞` and NaN, which carry no rational value). -/
def uval : UnpackedFloat → ℚ
  | .finite s m e _ => sgnQ s * (m : ℚ) * (2 : ℚ) ^ e
  | _ => 0

theorem two_zpow_pos (e : Int) : (0 : ℚ) < (2 : ℚ) ^ e := zpow_pos (by norm_num) e

theorem uval_of_shape {spec : Format} {s : Sign} {r : UnpackedFloat} {q : Nat} {te : Int}
    (h : Shape spec s r q te) : uval r = sgnQ s * ((q : ℚ) * (2 : ℚ) ^ te) := by
  rcases h with ⟨rfl, rfl⟩ | ⟨_, _, _, ⟨p, rfl⟩⟩ | ⟨rfl, _, ⟨p, rfl⟩⟩
  · simp [FErr.uval]
  · simp only [FErr.uval]; ring
  · obtain ⟨n, hn⟩ : ∃ n, spec.mantissaBits = n + 1 := ⟨spec.mantissaBits - 1, by have := mantissaBits_pos spec; omega⟩
    simp only [FErr.uval, hn, Nat.add_sub_cancel]
    rw [zpow_add₀ (two_ne_zero), zpow_one]
    push_cast
    ring

theorem uval_round (spec : Format) (s : Sign) (M : Nat) (hM : M ≠ 0) (e : Int) :
    uval (round spec s M e) = sgnQ s * ((rq spec M e : ℚ) * (2 : ℚ) ^ tgt spec M e) :=
  uval_of_shape (round_shape spec s M hM e)

/-- the exponents involved in `round`: with `k = (e − te)⁺`, `d = (te − e)⁺`, `e' = e − k` one has `e = e' + k` and
`te = e' + d`. -/
theorem zpow_split (e te : Int) :
    (2 : ℚ) ^ e = (2 : ℚ) ^ (e - ((e - te).toNat : Int)) * (2 : ℚ) ^ (e - te).toNat ∧
    (2 : ℚ) ^ te = (2 : ℚ) ^ (e - ((e - te).toNat : Int)) * (2 : ℚ) ^ (te - e).toNat := by
  constructor
  · rw [← zpow_natCast, ← zpow_add₀ (two_ne_zero)]; congr 1; omega
  · rw [← zpow_natCast (2 : ℚ) (te - e).toNat, ← zpow_add₀ (two_ne_zero)]; congr 1; omega

/-- **half an ulp**: the rounded value is within half a unit of the target grid of the exact value — every input,
gradual underflow included. -/
theorem rq_half_ulp (spec : Format) (M : Nat) (e : Int) :
    |(rq spec M e : ℚ) * (2 : ℚ) ^ tgt spec M e - (M : ℚ) * (2 : ℚ) ^ e| ≤ (2 : ℚ) ^ tgt spec M e / 2 := by
  obtain ⟨h1, h2⟩ := zpow_split e (tgt spec M e)
  obtain ⟨n1, n2⟩ := rne_near (M * 2 ^ (e - tgt spec M e).toNat) (2 ^ (tgt spec M e - e).toNat) (Nat.two_pow_pos _)
  have hP := two_zpow_pos (e - ((e - tgt spec M e).toNat : Int))
  rw [h1, h2]
  generalize (2 : ℚ) ^ (e - ((e - tgt spec M e).toNat : Int)) = P at hP
  have c1 : (2 * ((rq spec M e : ℚ) * (2 : ℚ) ^ (tgt spec M e - e).toNat) : ℚ) ≤
      2 * ((M : ℚ) * (2 : ℚ) ^ (e - tgt spec M e).toNat) + (2 : ℚ) ^ (tgt spec M e - e).toNat := by
    unfold rq; exact_mod_cast n1
  have c2 : (2 * ((M : ℚ) * (2 : ℚ) ^ (e - tgt spec M e).toNat) : ℚ) ≤
      2 * ((rq spec M e : ℚ) * (2 : ℚ) ^ (tgt spec M e - e).toNat) + (2 : ℚ) ^ (tgt spec M e - e).toNat := by
    unfold rq; exact_mod_cast n2
  generalize ((rq spec M e : Nat) : ℚ) = q at *
  generalize (2 : ℚ) ^ (tgt spec M e - e).toNat = D at *
  generalize (2 : ℚ) ^ (e - tgt spec M e).toNat = K at *
  have e1 : q * (P * D) - (M : ℚ) * (P * K) = (q * D - M * K) * P := by ring
  rw [e1, abs_mul, abs_of_pos hP]
  have : |q * D - (M : ℚ) * K| ≤ D / 2 := by rw [abs_le]; constructor <;> linarith
  calc |q * D - (M : ℚ) * K| * P ≤ D / 2 * P := mul_le_mul_of_nonneg_right this hP.le
    _ = P * D / 2 := by ring

/-- **no error on a coarse input**: if the input grid `2^e` is not finer than the target grid, `round` is exact. -/
theorem rq_exact (spec : Format) (M : Nat) (e : Int) (h : tgt spec M e ≤ e) :
    (rq spec M e : ℚ) * (2 : ℚ) ^ tgt spec M e = (M : ℚ) * (2 : ℚ) ^ e := by
  obtain ⟨h1, h2⟩ := zpow_split e (tgt spec M e)
  have hd : (tgt spec M e - e).toNat = 0 := by omega
  obtain ⟨n1, n2⟩ := rne_near (M * 2 ^ (e - tgt spec M e).toNat) (2 ^ (tgt spec M e - e).toNat) (Nat.two_pow_pos _)
  have hq : rq spec M e = M * 2 ^ (e - tgt spec M e).toNat := by
    unfold rq; rw [hd] at n1 n2 ⊢; simp only [Nat.pow_zero, Nat.mul_one] at n1 n2 ⊢; omega
  rw [h1, h2, hd, hq]; push_cast; ring

/-- **relative error `2^(−p)`** (`p` = mantissa bits incl. the implicit one) for inputs on a grid `2^e` with
`minExponent ≤ e`: in the subnormal range the result is exact, above it the half ulp is at most `2^(−p)` of the value. -/
theorem rq_rel (spec : Format) (M : Nat) (hM : M ≠ 0) (e : Int) (he : spec.minExponent ≤ e) :
    |(rq spec M e : ℚ) * (2 : ℚ) ^ tgt spec M e - (M : ℚ) * (2 : ℚ) ^ e| ≤
      (M : ℚ) * (2 : ℚ) ^ e * (2 : ℚ) ^ (-(spec.mantissaBits : Int)) := by
  have hV : (0 : ℚ) ≤ (M : ℚ) * (2 : ℚ) ^ e * (2 : ℚ) ^ (-(spec.mantissaBits : Int)) :=
    mul_nonneg (mul_nonneg (Nat.cast_nonneg M) (two_zpow_pos e).le) (two_zpow_pos _).le
  rcases lt_or_ge spec.minExponent (tgt spec M e) with hlt | hge
  · refine le_trans (rq_half_ulp spec M e) ?_
    have hfl := fl_ge spec M hM e hlt
    unfold fl aligned dropBits at hfl
    rw [Nat.le_div_iff_mul_le (Nat.two_pow_pos _)] at hfl
    obtain ⟨h1, h2⟩ := zpow_split e (tgt spec M e)
    have hP := two_zpow_pos (e - ((e - tgt spec M e).toNat : Int))
    have c : ((2 : ℚ) ^ (spec.mantissaBits - 1) * (2 : ℚ) ^ (tgt spec M e - e).toNat : ℚ) ≤
        (M : ℚ) * (2 : ℚ) ^ (e - tgt spec M e).toNat := by exact_mod_cast hfl
    obtain ⟨n, hn⟩ : ∃ n, spec.mantissaBits = n + 1 := ⟨spec.mantissaBits - 1, by have := mantissaBits_pos spec; omega⟩
    rw [hn, Nat.add_sub_cancel] at c
    rw [h1, h2, hn, zpow_neg, zpow_natCast]
    generalize (2 : ℚ) ^ (e - ((e - tgt spec M e).toNat : Int)) = P at hP
    generalize (2 : ℚ) ^ (tgt spec M e - e).toNat = D at *
    generalize (2 : ℚ) ^ (e - tgt spec M e).toNat = K at *
    have hn2 : (0 : ℚ) < (2 : ℚ) ^ n := by positivity
    rw [pow_succ]
    have : P * D / 2 = ((2 : ℚ) ^ n * D * P) * ((2 : ℚ) ^ n * 2)⁻¹ := by field_simp
    rw [this]
    apply mul_le_mul_of_nonneg_right _ (by positivity)
    calc (2 : ℚ) ^ n * D * P ≤ (M : ℚ) * K * P := mul_le_mul_of_nonneg_right c hP.le
      _ = (M : ℚ) * (P * K) := by ring
  · have := tgt_ge_min spec M e
    rw [rq_exact spec M e (by omega), sub_self, abs_zero]
    exact hV

end Rosu.FErr
