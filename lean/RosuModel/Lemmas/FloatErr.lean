/-
  Lemmas/FloatErr.lean — a **rounding-error layer** for Lean ≥ 4.33's logical float model (`Float.Model`), on top of
  the order / monotonicity theory of Lemmas/FloatModel*.lean, FloatRoundMono.lean, FloatArithMono.lean.

  * `uval : UnpackedFloat → ℚ`, `toRat : Float → ℚ`: the exact value `± m · 2^e` of a finite double (0 for `±0`; by
    convention 0 for `±∞` / NaN — every statement below that mentions such an operand excludes it by `isFinite`).
  * `round_shape` / `uval_round`: `UnpackedFloat.round spec s M e` has the value `± rq · 2^te` where `te` is the target
    exponent of the exact value `M · 2^e` and `rq` is `M · 2^e / 2^te` rounded to nearest-even (`FRM.rne`);
  * `rq_half_ulp`: `|rq · 2^te − M · 2^e| ≤ 2^te / 2` (half an ulp, every input, underflow included);
    `rq_exact`: no error when the grid `2^e` of the input is not finer than the target grid (`te ≤ e`);
    `rq_rel`: `|rq · 2^te − M · 2^e| ≤ M · 2^e · 2^(−p)` (`p` = `mantissaBits`) whenever `minExponent ≤ e` — the inputs
    of `add` / `sub` always satisfy this, so **addition has no underflow error**.
  * `add_err_unpacked` (every `Format`), **`add_err_float`**: the STANDARD MODEL of floating-point addition,
      `a`, `b`, `a + b` finite  ⟹  `toRat (a + b) = (toRat a + toRat b) · (1 + δ)`, `|δ| ≤ 2⁻⁵³`
    (all sign combinations, zeros, subnormals, cancellation); `add_err_abs_float` in the form `|·| ≤ 2⁻⁵³ · |a + b|`.
  * `sub_err_unpacked`, `sub_err_float`: the same for subtraction.
  * `toRat_pos`, `toRat_nonneg`, `toRat_of_unpack`, `toRat_le_of_le`, `toRat_lt_of_lt`: sign and **monotonicity** of
    the value (the IEEE order on finite doubles is the order of the values).
  * `bernoulli`, `one_add_pow_le`, `pow_sum_ge_two`: the elementary estimates of `(1 ± u)^n` the accumulated bounds use.
-/
import RosuModel.Lemmas.FloatArithMono
import Mathlib.Algebra.Order.Field.Rat
import Mathlib.Algebra.Order.Field.Basic
import Mathlib.Tactic.Linarith
import Mathlib.Tactic.Ring
import Mathlib.Tactic.Positivity
import Mathlib.Tactic.FieldSimp
import Mathlib.Tactic.NormNum
namespace Rosu.FErr
open Float.Model Float.Model.UnpackedFloat Rosu.FMR Rosu.FRM Rosu.FAM

/-! ### round-to-nearest-even is *nearest* (natural numbers) -/

/-- `rne N D` is within `1/2` of `N / D`:  `|rne · D − N| ≤ D / 2`, without fractions. -/
theorem rne_near (N D : Nat) (hD : 0 < D) :
    2 * (rne N D * D) ≤ 2 * N + D ∧ 2 * N ≤ 2 * (rne N D * D) + D := by
  rw [rne_eq N D hD]
  have h1 := Nat.div_add_mod N D
  have h2 : N % D < D := Nat.mod_lt _ hD
  generalize N / D = q at *
  generalize N % D = r at *
  have hc : q * D = D * q := Nat.mul_comm _ _
  split
  · omega
  · split
    · rcases Nat.mod_two_eq_zero_or_one q with h | h <;> rw [h]
      · rw [Nat.add_zero]; omega
      · rw [Nat.add_mul, Nat.one_mul]; omega
    · rw [Nat.add_mul, Nat.one_mul]; omega

/-- the mantissa `round` produces on the grid of the target exponent: the exact value `M · 2^e` divided by `2^te`,
rounded to nearest-even. -/
def rq (spec : Format) (M : Nat) (e : Int) : Nat :=
  rne (M * 2 ^ (e - tgt spec M e).toNat) (2 ^ (tgt spec M e - e).toNat)

/-- **`round` is the renormalisation of the nearest-even mantissa** `rq` at the target exponent of the exact value. -/
theorem round_shape (spec : Format) (s : Sign) (M : Nat) (hM : M ≠ 0) (e : Int) :
    Shape spec s (round spec s M e) (rq spec M e) (tgt spec M e) := by
  have hg := round_tgt_ge spec M hM e
  have ht : tgt spec (M * 2 ^ (e - tgt spec M e).toNat) (e - ((e - tgt spec M e).toNat : Int)) = tgt spec M e := by
    unfold tgt; rw [totalExponent_shift hM]
  have h := (rwa_shape spec s (M * 2 ^ (e - tgt spec M e).toNat) 1 (by omega)
    (e - ((e - tgt spec M e).toNat : Int)) (by rw [Nat.div_one]; exact hg)).1
  rw [← rwa_exact_eq, ← round_eq_rwa, Nat.div_one, ht, Nat.one_mul] at h
  have hd : (tgt spec M e - (e - ((e - tgt spec M e).toNat : Int))).toNat = (tgt spec M e - e).toNat := by omega
  rw [hd] at h
  exact h

/-! ### exact values -/

/-- the sign as a rational. -/
def sgnQ : Sign → ℚ
  | .positive => 1
  | .negative => -1

/-- **the exact value of an unpacked float**: `± m · 2^e` for a finite one, `0` for the zeros (and, by convention, `0`
for `±∞` and NaN, which carry no rational value). -/
def uval : UnpackedFloat → ℚ
  | .finite s m e _ => sgnQ s * (m : ℚ) * (2 : ℚ) ^ e
  | _ => 0

theorem two_zpow_pos (e : Int) : (0 : ℚ) < (2 : ℚ) ^ e := zpow_pos (by norm_num) e

theorem uval_of_shape {spec : Format} {s : Sign} {r : UnpackedFloat} {q : Nat} {te : Int}
    (h : Shape spec s r q te) : uval r = sgnQ s * ((q : ℚ) * (2 : ℚ) ^ te) := by
  rcases h with ⟨rfl, rfl⟩ | ⟨_, _, _, ⟨p, rfl⟩⟩ | ⟨rfl, _, ⟨p, rfl⟩⟩
  · simp [FErr.uval]
  · simp only [FErr.uval]; ring
  · obtain ⟨n, hn⟩ : ∃ n, spec.mantissaBits = n + 1 := ⟨spec.mantissaBits - 1, by have := mantissaBits_pos spec; omega⟩
    simp only [FErr.uval, hn, Nat.add_sub_cancel]
    rw [zpow_add₀ (two_ne_zero), zpow_one]
    push_cast
    ring

theorem uval_round (spec : Format) (s : Sign) (M : Nat) (hM : M ≠ 0) (e : Int) :
    uval (round spec s M e) = sgnQ s * ((rq spec M e : ℚ) * (2 : ℚ) ^ tgt spec M e) :=
  uval_of_shape (round_shape spec s M hM e)

/-- the exponents involved in `round`: with `k = (e − te)⁺`, `d = (te − e)⁺`, `e' = e − k` one has `e = e' + k` and
`te = e' + d`. -/
theorem zpow_split (e te : Int) :
    (2 : ℚ) ^ e = (2 : ℚ) ^ (e - ((e - te).toNat : Int)) * (2 : ℚ) ^ (e - te).toNat ∧
    (2 : ℚ) ^ te = (2 : ℚ) ^ (e - ((e - te).toNat : Int)) * (2 : ℚ) ^ (te - e).toNat := by
  constructor
  · rw [← zpow_natCast, ← zpow_add₀ (two_ne_zero)]; congr 1; omega
  · rw [← zpow_natCast (2 : ℚ) (te - e).toNat, ← zpow_add₀ (two_ne_zero)]; congr 1; omega

/-- **half an ulp**: the rounded value is within half a unit of the target grid of the exact value — every input,
gradual underflow included. -/
theorem rq_half_ulp (spec : Format) (M : Nat) (e : Int) :
    |(rq spec M e : ℚ) * (2 : ℚ) ^ tgt spec M e - (M : ℚ) * (2 : ℚ) ^ e| ≤ (2 : ℚ) ^ tgt spec M e / 2 := by
  obtain ⟨h1, h2⟩ := zpow_split e (tgt spec M e)
  obtain ⟨n1, n2⟩ := rne_near (M * 2 ^ (e - tgt spec M e).toNat) (2 ^ (tgt spec M e - e).toNat) (Nat.two_pow_pos _)
  have hP := two_zpow_pos (e - ((e - tgt spec M e).toNat : Int))
  rw [h1, h2]
  generalize (2 : ℚ) ^ (e - ((e - tgt spec M e).toNat : Int)) = P at hP
  have c1 : (2 * ((rq spec M e : ℚ) * (2 : ℚ) ^ (tgt spec M e - e).toNat) : ℚ) ≤
      2 * ((M : ℚ) * (2 : ℚ) ^ (e - tgt spec M e).toNat) + (2 : ℚ) ^ (tgt spec M e - e).toNat := by
    unfold rq; exact_mod_cast n1
  have c2 : (2 * ((M : ℚ) * (2 : ℚ) ^ (e - tgt spec M e).toNat) : ℚ) ≤
      2 * ((rq spec M e : ℚ) * (2 : ℚ) ^ (tgt spec M e - e).toNat) + (2 : ℚ) ^ (tgt spec M e - e).toNat := by
    unfold rq; exact_mod_cast n2
  generalize ((rq spec M e : Nat) : ℚ) = q at *
  generalize (2 : ℚ) ^ (tgt spec M e - e).toNat = D at *
  generalize (2 : ℚ) ^ (e - tgt spec M e).toNat = K at *
  have e1 : q * (P * D) - (M : ℚ) * (P * K) = (q * D - M * K) * P := by ring
  rw [e1, abs_mul, abs_of_pos hP]
  have : |q * D - (M : ℚ) * K| ≤ D / 2 := by rw [abs_le]; constructor <;> linarith
  calc |q * D - (M : ℚ) * K| * P ≤ D / 2 * P := mul_le_mul_of_nonneg_right this hP.le
    _ = P * D / 2 := by ring

/-- **no error on a coarse input**: if the input grid `2^e` is not finer than the target grid, `round` is exact. -/
theorem rq_exact (spec : Format) (M : Nat) (e : Int) (h : tgt spec M e ≤ e) :
    (rq spec M e : ℚ) * (2 : ℚ) ^ tgt spec M e = (M : ℚ) * (2 : ℚ) ^ e := by
  obtain ⟨h1, h2⟩ := zpow_split e (tgt spec M e)
  have hd : (tgt spec M e - e).toNat = 0 := by omega
  obtain ⟨n1, n2⟩ := rne_near (M * 2 ^ (e - tgt spec M e).toNat) (2 ^ (tgt spec M e - e).toNat) (Nat.two_pow_pos _)
  have hq : rq spec M e = M * 2 ^ (e - tgt spec M e).toNat := by
    unfold rq; rw [hd] at n1 n2 ⊢; simp only [Nat.pow_zero, Nat.mul_one] at n1 n2 ⊢; omega
  rw [h1, h2, hd, hq]; push_cast; ring

/-- **relative error `2^(−p)`** (`p` = mantissa bits incl. the implicit one) for inputs on a grid `2^e` with
`minExponent ≤ e`: in the subnormal range the result is exact, above it the half ulp is at most `2^(−p)` of the value. -/
theorem rq_rel (spec : Format) (M : Nat) (hM : M ≠ 0) (e : Int) (he : spec.minExponent ≤ e) :
    |(rq spec M e : ℚ) * (2 : ℚ) ^ tgt spec M e - (M : ℚ) * (2 : ℚ) ^ e| ≤
      (M : ℚ) * (2 : ℚ) ^ e * (2 : ℚ) ^ (-(spec.mantissaBits : Int)) := by
  have hV : (0 : ℚ) ≤ (M : ℚ) * (2 : ℚ) ^ e * (2 : ℚ) ^ (-(spec.mantissaBits : Int)) :=
    mul_nonneg (mul_nonneg (Nat.cast_nonneg M) (two_zpow_pos e).le) (two_zpow_pos _).le
  rcases lt_or_ge spec.minExponent (tgt spec M e) with hlt | hge
  · refine le_trans (rq_half_ulp spec M e) ?_
    have hfl := fl_ge spec M hM e hlt
    unfold fl aligned dropBits at hfl
    rw [Nat.le_div_iff_mul_le (Nat.two_pow_pos _)] at hfl
    obtain ⟨h1, h2⟩ := zpow_split e (tgt spec M e)
    have hP := two_zpow_pos (e - ((e - tgt spec M e).toNat : Int))
    have c : ((2 : ℚ) ^ (spec.mantissaBits - 1) * (2 : ℚ) ^ (tgt spec M e - e).toNat : ℚ) ≤
        (M : ℚ) * (2 : ℚ) ^ (e - tgt spec M e).toNat := by exact_mod_cast hfl
    obtain ⟨n, hn⟩ : ∃ n, spec.mantissaBits = n + 1 := ⟨spec.mantissaBits - 1, by have := mantissaBits_pos spec; omega⟩
    rw [hn, Nat.add_sub_cancel] at c
    rw [h1, h2, hn, zpow_neg, zpow_natCast]
    generalize (2 : ℚ) ^ (e - ((e - tgt spec M e).toNat : Int)) = P at hP
    generalize (2 : ℚ) ^ (tgt spec M e - e).toNat = D at *
    generalize (2 : ℚ) ^ (e - tgt spec M e).toNat = K at *
    have hn2 : (0 : ℚ) < (2 : ℚ) ^ n := by positivity
    rw [pow_succ]
    have : P * D / 2 = ((2 : ℚ) ^ n * D * P) * ((2 : ℚ) ^ n * 2)⁻¹ := by field_simp
    rw [this]
    apply mul_le_mul_of_nonneg_right _ (by positivity)
    calc (2 : ℚ) ^ n * D * P ≤ (M : ℚ) * K * P := mul_le_mul_of_nonneg_right c hP.le
      _ = (M : ℚ) * (P * K) := by ring
  · have := tgt_ge_min spec M e
    rw [rq_exact spec M e (by omega), sub_self, abs_zero]
    exact hV

/-! ### from an absolute to a relative error -/

/-- `|r − V| ≤ V · u` with `V > 0` is `r = V · (1 + δ)`, `|δ| ≤ u`. -/
theorem rel_of_abs (r V u : ℚ) (hV : 0 < V) (h : |r - V| ≤ V * u) : ∃ δ : ℚ, |δ| ≤ u ∧ r = V * (1 + δ) := by
  refine ⟨(r - V) / V, ?_, by field_simp; ring⟩
  rw [abs_div, abs_of_pos hV, div_le_iff₀ hV, mul_comm]
  exact h

/-! ### `normalize` and `add` -/

theorem sgnQ_apply (s : Sign) (n : Nat) : ((s.apply (n : Int) : Int) : ℚ) = sgnQ s * (n : ℚ) := by
  cases s <;> simp [Sign.apply, sgnQ]

/-- the value of a finite float read on a finer grid `2^E`, `E ≤ e` (the alignment step of `add`). -/
theorem uval_fin_grid (s : Sign) (m : Nat) (e : Int) (hm : 0 < m) (E : Int) (hE : E ≤ e) :
    uval (.finite s m e hm) = ((s.apply ((m * 2 ^ (e - E).toNat : Nat) : Int) : Int) : ℚ) * (2 : ℚ) ^ E := by
  have h2 : (2 : ℚ) ^ e = (2 : ℚ) ^ E * (2 : ℚ) ^ (e - E).toNat := by
    rw [← zpow_natCast, ← zpow_add₀ (two_ne_zero)]; congr 1; omega
  rw [sgnQ_apply]
  simp only [uval]
  rw [h2]; push_cast; ring

/-- **`normalize` (the rounding of `add` / `sub`) has relative error `2^(−p)`** on every grid `2^e` with
`minExponent ≤ e`, whatever the sign of the exact value `Z · 2^e`; the result is a zero or finite. -/
theorem uval_normalize (spec : Format) (Z : Int) (e : Int) (zs : Sign) (he : spec.minExponent ≤ e) :
    (normalize spec Z e zs).isFinite = true ∧
    ∃ δ : ℚ, |δ| ≤ (2 : ℚ) ^ (-(spec.mantissaBits : Int)) ∧
      uval (normalize spec Z e zs) = (Z : ℚ) * (2 : ℚ) ^ e * (1 + δ) := by
  have hu : (0 : ℚ) ≤ (2 : ℚ) ^ (-(spec.mantissaBits : Int)) := (two_zpow_pos _).le
  have hfin : ∀ (s : Sign) (M : Nat), M ≠ 0 → (round spec s M e).isFinite = true := by
    intro s M hM
    rcases round_zeroOrFin spec s M hM e with h | ⟨m', e', p', h⟩ <;> rw [h] <;> rfl
  rcases lt_trichotomy Z 0 with h | h | h
  · have hM : (-Z).toNat ≠ 0 := by omega
    rw [normalize_neg _ _ _ _ h]
    refine ⟨hfin _ _ hM, ?_⟩
    have hc : (((-Z).toNat : Nat) : ℚ) = -(Z : ℚ) := by
      have h' : (((-Z).toNat : Nat) : Int) = -Z := Int.toNat_of_nonneg (by omega)
      rw [← Int.cast_natCast, h', Int.cast_neg]
    have hV : (0 : ℚ) < (((-Z).toNat : Nat) : ℚ) * (2 : ℚ) ^ e :=
      mul_pos (by exact_mod_cast Nat.pos_of_ne_zero hM) (two_zpow_pos e)
    obtain ⟨δ, hδ, hr⟩ := rel_of_abs _ _ _ hV (rq_rel spec _ hM e he)
    refine ⟨δ, hδ, ?_⟩
    rw [uval_round spec _ _ hM, hr, hc]
    simp only [sgnQ]; ring
  · subst h
    rw [normalize_zero]
    exact ⟨rfl, 0, by rw [abs_zero]; exact hu, by simp [uval]⟩
  · have hM : Z.toNat ≠ 0 := by omega
    rw [normalize_pos _ _ _ _ h]
    refine ⟨hfin _ _ hM, ?_⟩
    have hc : ((Z.toNat : Nat) : ℚ) = (Z : ℚ) := by
      have h' : ((Z.toNat : Nat) : Int) = Z := Int.toNat_of_nonneg (by omega)
      rw [← Int.cast_natCast, h']
    have hV : (0 : ℚ) < ((Z.toNat : Nat) : ℚ) * (2 : ℚ) ^ e :=
      mul_pos (by exact_mod_cast Nat.pos_of_ne_zero hM) (two_zpow_pos e)
    obtain ⟨δ, hδ, hr⟩ := rel_of_abs _ _ _ hV (rq_rel spec _ hM e he)
    refine ⟨δ, hδ, ?_⟩
    rw [uval_round spec _ _ hM, hr, hc]
    simp only [sgnQ]; ring

/-- **the standard model of floating-point addition, every format** (unpacked level, before `pack`): for canonical
finite operands the sum is a zero or finite and its value is `(a + b) · (1 + δ)` with `|δ| ≤ 2^(−p)` — all sign
combinations, zeros, subnormals (no underflow error), cancellation. -/
theorem add_err_unpacked (spec : Format) (a b : UnpackedFloat) (ha : Canon spec a) (hb : Canon spec b)
    (fa : a.isFinite = true) (fb : b.isFinite = true) :
    (UnpackedFloat.add spec a b).isFinite = true ∧
    ∃ δ : ℚ, |δ| ≤ (2 : ℚ) ^ (-(spec.mantissaBits : Int)) ∧
      uval (UnpackedFloat.add spec a b) = (uval a + uval b) * (1 + δ) := by
  have hu : (0 : ℚ) ≤ (2 : ℚ) ^ (-(spec.mantissaBits : Int)) := (two_zpow_pos _).le
  match a, b, ha, hb, fa, fb with
  | .zero s, .zero s', _, _, _, _ =>
    have hz : ∃ s'', UnpackedFloat.add spec (.zero s) (.zero s') = .zero s'' := by
      cases s <;> cases s' <;> exact ⟨_, rfl⟩
    obtain ⟨s'', hz⟩ := hz
    rw [hz]
    exact ⟨rfl, 0, by rw [abs_zero]; exact hu, by simp [uval]⟩
  | .zero s, .finite s' m e hm, _, _, _, _ =>
    exact ⟨rfl, 0, by rw [abs_zero]; exact hu, by simp [uval, UnpackedFloat.add]⟩
  | .finite s m e hm, .zero s', _, _, _, _ =>
    exact ⟨rfl, 0, by rw [abs_zero]; exact hu, by simp [uval, UnpackedFloat.add]⟩
  | .finite s₁ m₁ e₁ h₁, .finite s₂ m₂ e₂ h₂, ha, hb, _, _ =>
    have hga : spec.minExponent ≤ e₁ := CanonFin.ge ha
    have hgb : spec.minExponent ≤ e₂ := CanonFin.ge hb
    rw [add_fin]
    obtain ⟨hf, δ, hδ, hv⟩ := uval_normalize spec
      (s₁.apply ((m₁ * 2 ^ (e₁ - min e₁ e₂).toNat : Nat) : Int) + s₂.apply ((m₂ * 2 ^ (e₂ - min e₁ e₂).toNat : Nat) : Int))
      (min e₁ e₂) .positive (by omega)
    refine ⟨hf, δ, hδ, ?_⟩
    rw [hv, uval_fin_grid s₁ m₁ e₁ h₁ (min e₁ e₂) (by omega), uval_fin_grid s₂ m₂ e₂ h₂ (min e₁ e₂) (by omega)]
    push_cast; ring

/-! ### `Float` (binary64) -/

/-- **the exact value of a double** (`± m · 2^e`; `0` for `±0`, and by convention for `±∞` / NaN). -/
def toRat (x : Float) : ℚ := uval x.toModel.unpack

theorem isFinite_iff (x : Float) : x.isFinite = true ↔ x.toModel.unpack.isFinite = true := Iff.rfl

theorem toRat_of_unpack {x : Float} {s : Sign} {m : Nat} {e : Int} {hm : 0 < m}
    (h : x.toModel.unpack = .finite s m e hm) : toRat x = sgnQ s * (m : ℚ) * (2 : ℚ) ^ e := by
  unfold toRat; rw [h]; rfl

theorem toRat_zero : toRat (0 : Float) = 0 := rfl

/-- **the standard model of floating-point addition for doubles**: if `a`, `b` are finite and `a + b` does not
overflow, then `a + b = (a + b)_exact · (1 + δ)` with `|δ| ≤ 2⁻⁵³` (unit roundoff of binary64, round to nearest-even;
addition has no underflow error). -/
theorem add_err_float (a b : Float) (ha : a.isFinite = true) (hb : b.isFinite = true)
    (hab : (a + b).isFinite = true) :
    ∃ δ : ℚ, |δ| ≤ (2 : ℚ) ^ (-53 : Int) ∧ toRat (a + b) = (toRat a + toRat b) * (1 + δ) := by
  have hab' : (a + b).toModel.unpack.isFinite = true := hab
  have hc := add_canon Format.binary64 _ _ (float_canon a) (float_canon b)
  obtain ⟨_, δ, hδ, hv⟩ := add_err_unpacked Format.binary64 _ _ (float_canon a) (float_canon b) ha hb
  refine ⟨δ, hδ, ?_⟩
  unfold toRat
  rw [float_add_unpack] at hab' ⊢
  rcases repack_cases Format.binary64 (by decide) _ hc with ⟨h1, _⟩ | ⟨s, m, e, p, _, _, h1⟩
  · rw [h1]; exact hv
  · rw [h1] at hab'; cases hab'

/-- the same as an absolute bound: `|fl(a + b) − (a + b)| ≤ 2⁻⁵³ · |a + b|`. -/
theorem add_err_abs_float (a b : Float) (ha : a.isFinite = true) (hb : b.isFinite = true)
    (hab : (a + b).isFinite = true) :
    |toRat (a + b) - (toRat a + toRat b)| ≤ (2 : ℚ) ^ (-53 : Int) * |toRat a + toRat b| := by
  obtain ⟨δ, hδ, hv⟩ := add_err_float a b ha hb hab
  have : toRat (a + b) - (toRat a + toRat b) = δ * (toRat a + toRat b) := by rw [hv]; ring
  rw [this, abs_mul]
  exact mul_le_mul_of_nonneg_right hδ (abs_nonneg _)

/-- a double that is `> 0` in the IEEE order and finite has a positive value. -/
theorem toRat_pos (x : Float) (h : Scalar.lt (0 : Float) x = true) (hf : x.isFinite = true) : 0 < toRat x := by
  have hf' : x.toModel.unpack.isFinite = true := hf
  rw [FMO.lt_float, float_zero_unpack] at h
  rcases pos_cases _ h with ⟨m, e, hm, hx⟩ | hx
  · rw [toRat_of_unpack hx]
    simp only [sgnQ, one_mul]
    exact mul_pos (by exact_mod_cast hm) (two_zpow_pos e)
  · rw [hx] at hf'; cases hf'

/-! ### monotonicity of the value -/

theorem valLE_rat {m₁ m₂ : Nat} {e₁ e₂ : Int} (h : ValLE m₁ e₁ m₂ e₂) :
    (m₁ : ℚ) * (2 : ℚ) ^ e₁ ≤ (m₂ : ℚ) * (2 : ℚ) ^ e₂ := by
  unfold ValLE at h
  have h1 : (2 : ℚ) ^ e₁ = (2 : ℚ) ^ (min e₁ e₂) * (2 : ℚ) ^ (e₁ - min e₁ e₂).toNat := by
    rw [← zpow_natCast, ← zpow_add₀ (two_ne_zero)]; congr 1; omega
  have h2 : (2 : ℚ) ^ e₂ = (2 : ℚ) ^ (min e₁ e₂) * (2 : ℚ) ^ (e₂ - min e₁ e₂).toNat := by
    rw [← zpow_natCast, ← zpow_add₀ (two_ne_zero)]; congr 1; omega
  have hc : ((m₁ : ℚ) * (2 : ℚ) ^ (e₁ - min e₁ e₂).toNat) ≤ (m₂ : ℚ) * (2 : ℚ) ^ (e₂ - min e₁ e₂).toNat := by
    exact_mod_cast h
  have hP := two_zpow_pos (min e₁ e₂)
  rw [h1, h2]
  calc (m₁ : ℚ) * ((2 : ℚ) ^ (min e₁ e₂) * (2 : ℚ) ^ (e₁ - min e₁ e₂).toNat)
      = ((m₁ : ℚ) * (2 : ℚ) ^ (e₁ - min e₁ e₂).toNat) * (2 : ℚ) ^ (min e₁ e₂) := by ring
    _ ≤ ((m₂ : ℚ) * (2 : ℚ) ^ (e₂ - min e₁ e₂).toNat) * (2 : ℚ) ^ (min e₁ e₂) :=
        mul_le_mul_of_nonneg_right hc hP.le
    _ = _ := by ring

theorem uval_fin_pos (m : Nat) (e : Int) (hm : 0 < m) : 0 < uval (.finite .positive m e hm) := by
  simp only [uval, sgnQ, one_mul]
  exact mul_pos (by exact_mod_cast hm) (two_zpow_pos e)

theorem uval_fin_neg (m : Nat) (e : Int) (hm : 0 < m) : uval (.finite .negative m e hm) < 0 := by
  have := uval_fin_pos m e hm
  simp only [uval, sgnQ, one_mul] at this ⊢
  linarith

/-- **the IEEE order on canonical finite floats is the order of their values.** -/
theorem uval_le_of_le (spec : Format) (a b : UnpackedFloat) (ha : Canon spec a) (hb : Canon spec b)
    (fa : a.isFinite = true) (fb : b.isFinite = true) (h : a.le b = true) : uval a ≤ uval b := by
  match a, b, ha, hb, fa, fb, h with
  | .zero _, .zero _, _, _, _, _, _ => exact le_refl _
  | .zero _, .finite .positive m e hm, _, _, _, _, _ => exact (uval_fin_pos m e hm).le
  | .finite .negative m e hm, .zero _, _, _, _, _, _ => exact (uval_fin_neg m e hm).le
  | .finite .negative m e hm, .finite .positive m' e' hm', _, _, _, _, _ =>
    exact le_trans (uval_fin_neg m e hm).le (uval_fin_pos m' e' hm').le
  | .finite .positive m e hm, .finite .positive m' e' hm', ha, hb, _, _, h =>
    have := valLE_rat ((le_fin_pos_iff_valLE hm hm' ha hb).mp h)
    simp only [uval, sgnQ, one_mul]; exact this
  | .finite .negative m e hm, .finite .negative m' e' hm', ha, hb, _, _, h =>
    have := valLE_rat ((le_fin_neg_iff_valLE hm hm' ha hb).mp h)
    simp only [uval, sgnQ]; linarith

/-- **monotonicity of `toRat`**: IEEE `<=` between finite doubles is `≤` of the exact values. -/
theorem toRat_le_of_le (x y : Float) (hx : x.isFinite = true) (hy : y.isFinite = true)
    (h : Scalar.le x y = true) : toRat x ≤ toRat y := by
  rw [FMO.le_float] at h
  exact uval_le_of_le Format.binary64 _ _ (float_canon x) (float_canon y) hx hy h

theorem toRat_nonneg (x : Float) (h : Scalar.le (0 : Float) x = true) (hf : x.isFinite = true) : 0 ≤ toRat x :=
  toRat_le_of_le 0 x rfl hf h

/-! ### elementary estimates of `(1 ± u)^n` -/

/-- Bernoulli: `1 + n·x ≤ (1 + x)^n` for `x ≥ −1`. -/
theorem bernoulli (x : ℚ) (hx : -1 ≤ x) (n : Nat) : 1 + (n : ℚ) * x ≤ (1 + x) ^ n := by
  induction n with
  | zero => simp
  | succ n ih =>
    rw [pow_succ]
    have h1 : (0 : ℚ) ≤ 1 + x := by linarith
    have h2 : (0 : ℚ) ≤ (n : ℚ) * (x * x) := mul_nonneg (Nat.cast_nonneg n) (mul_self_nonneg x)
    calc 1 + ((n + 1 : Nat) : ℚ) * x ≤ (1 + (n : ℚ) * x) * (1 + x) := by push_cast; nlinarith
      _ ≤ (1 + x) ^ n * (1 + x) := mul_le_mul_of_nonneg_right ih h1

/-- `(1 + u)^n + (1 − u)^n ≥ 2` for `0 ≤ u ≤ 1`: the lower deviation `1 − (1 − u)^n` is at most the upper one. -/
theorem pow_sum_ge_two (u : ℚ) (h0 : 0 ≤ u) (h1 : u ≤ 1) (n : Nat) : 2 ≤ (1 + u) ^ n + (1 - u) ^ n := by
  have a := bernoulli u (by linarith) n
  have b := bernoulli (-u) (by linarith) n
  have : (1 : ℚ) + -u = 1 - u := by ring
  rw [this] at b
  linarith

/-- `(1 + u)^n ≤ 1 + 2·n·u` as long as `n·u ≤ 1`. -/
theorem one_add_pow_le (u : ℚ) (h0 : 0 ≤ u) (n : Nat) (hn : (n : ℚ) * u ≤ 1) :
    (1 + u) ^ n ≤ 1 + 2 * (n : ℚ) * u := by
  suffices h : ∀ k : Nat, (k : ℚ) * u ≤ 1 → (1 + u) ^ k ≤ 1 + (k : ℚ) * u + ((k : ℚ) * u) ^ 2 by
    have := h n hn
    have h2 : ((n : ℚ) * u) ^ 2 ≤ (n : ℚ) * u := by
      have hnn : (0 : ℚ) ≤ (n : ℚ) * u := mul_nonneg (Nat.cast_nonneg n) h0
      nlinarith
    linarith
  intro k
  induction k with
  | zero => intro _; simp
  | succ k ih =>
    intro hk
    have hk0 : (0 : ℚ) ≤ (k : ℚ) := Nat.cast_nonneg k
    have hku : (k : ℚ) * u ≤ 1 := by push_cast at hk; nlinarith
    have ih' := ih hku
    have h1 : (0 : ℚ) ≤ 1 + u := by linarith
    rw [pow_succ]
    calc (1 + u) ^ k * (1 + u) ≤ (1 + (k : ℚ) * u + ((k : ℚ) * u) ^ 2) * (1 + u) :=
          mul_le_mul_of_nonneg_right ih' h1
      _ ≤ 1 + ((k + 1 : Nat) : ℚ) * u + (((k + 1 : Nat) : ℚ) * u) ^ 2 := by
          push_cast
          have hkk : (k : ℚ) * ((k : ℚ) * u) ≤ (k : ℚ) * 1 := mul_le_mul_of_nonneg_left hku hk0
          have hu2 : (0 : ℚ) ≤ u * u := mul_self_nonneg u
          nlinarith [mul_nonneg hu2 (sub_nonneg.mpr hkk), mul_nonneg hu2 hk0]

/-! ### subtraction (same rounding, `normalize` of the exact difference) -/

theorem sgnQ_neg (s : Sign) : sgnQ (-s) = -sgnQ s := by
  cases s
  · show (1 : ℚ) = - -1; norm_num
  · show (-1 : ℚ) = -1; rfl

/-- **the standard model of floating-point subtraction, every format** (unpacked level). -/
theorem sub_err_unpacked (spec : Format) (a b : UnpackedFloat) (ha : Canon spec a) (hb : Canon spec b)
    (fa : a.isFinite = true) (fb : b.isFinite = true) :
    (UnpackedFloat.sub spec a b).isFinite = true ∧
    ∃ δ : ℚ, |δ| ≤ (2 : ℚ) ^ (-(spec.mantissaBits : Int)) ∧
      uval (UnpackedFloat.sub spec a b) = (uval a - uval b) * (1 + δ) := by
  have hu : (0 : ℚ) ≤ (2 : ℚ) ^ (-(spec.mantissaBits : Int)) := (two_zpow_pos _).le
  match a, b, ha, hb, fa, fb with
  | .zero s, .zero s', _, _, _, _ =>
    have hz : ∃ s'', UnpackedFloat.sub spec (.zero s) (.zero s') = .zero s'' := by
      cases s <;> cases s' <;> exact ⟨_, rfl⟩
    obtain ⟨s'', hz⟩ := hz
    rw [hz]
    exact ⟨rfl, 0, by rw [abs_zero]; exact hu, by simp [uval]⟩
  | .zero s, .finite s' m e hm, _, _, _, _ =>
    exact ⟨rfl, 0, by rw [abs_zero]; exact hu, by simp [uval, UnpackedFloat.sub, sgnQ_neg]⟩
  | .finite s m e hm, .zero s', _, _, _, _ =>
    exact ⟨rfl, 0, by rw [abs_zero]; exact hu, by simp [uval, UnpackedFloat.sub]⟩
  | .finite s₁ m₁ e₁ h₁, .finite s₂ m₂ e₂ h₂, ha, hb, _, _ =>
    have hga : spec.minExponent ≤ e₁ := CanonFin.ge ha
    have hgb : spec.minExponent ≤ e₂ := CanonFin.ge hb
    rw [sub_fin]
    obtain ⟨hf, δ, hδ, hv⟩ := uval_normalize spec
      (s₁.apply ((m₁ * 2 ^ (e₁ - min e₁ e₂).toNat : Nat) : Int) - s₂.apply ((m₂ * 2 ^ (e₂ - min e₁ e₂).toNat : Nat) : Int))
      (min e₁ e₂) .positive (by omega)
    refine ⟨hf, δ, hδ, ?_⟩
    rw [hv, uval_fin_grid s₁ m₁ e₁ h₁ (min e₁ e₂) (by omega), uval_fin_grid s₂ m₂ e₂ h₂ (min e₁ e₂) (by omega)]
    push_cast; ring

/-- **the standard model of floating-point subtraction for doubles**: `a`, `b`, `a − b` finite ⟹
`toRat (a − b) = (toRat a − toRat b)(1 + δ)`, `|δ| ≤ 2⁻⁵³`. -/
theorem sub_err_float (a b : Float) (ha : a.isFinite = true) (hb : b.isFinite = true)
    (hab : (a - b).isFinite = true) :
    ∃ δ : ℚ, |δ| ≤ (2 : ℚ) ^ (-53 : Int) ∧ toRat (a - b) = (toRat a - toRat b) * (1 + δ) := by
  have hab' : (a - b).toModel.unpack.isFinite = true := hab
  have hc := sub_canon Format.binary64 _ _ (float_canon a) (float_canon b)
  obtain ⟨_, δ, hδ, hv⟩ := sub_err_unpacked Format.binary64 _ _ (float_canon a) (float_canon b) ha hb
  refine ⟨δ, hδ, ?_⟩
  unfold toRat
  rw [float_sub_unpack] at hab' ⊢
  rcases repack_cases Format.binary64 (by decide) _ hc with ⟨h1, _⟩ | ⟨s, m, e, p, _, _, h1⟩
  · rw [h1]; exact hv
  · rw [h1] at hab'; cases hab'

/-! ### non-vacuity (closed doubles, evaluated by the kernel) -/

section Examples

/-- the hypotheses of `add_err_float` on `0.1 + 0.2`. -/
example : (0.1 : Float).isFinite = true ∧ (0.2 : Float).isFinite = true ∧ ((0.1 : Float) + 0.2).isFinite = true := by
  decide +kernel

/-- an instance: `∃ δ, |δ| ≤ 2⁻⁵³ ∧ toRat (0.1 + 0.2) = (toRat 0.1 + toRat 0.2)(1 + δ)`. -/
example : ∃ δ : ℚ, |δ| ≤ (2 : ℚ) ^ (-53 : Int) ∧
    toRat ((0.1 : Float) + 0.2) = (toRat (0.1 : Float) + toRat (0.2 : Float)) * (1 + δ) :=
  add_err_float _ _ (by decide +kernel) (by decide +kernel) (by decide +kernel)

theorem unpack_0_1 : (0.1 : Float).toModel.unpack = .finite .positive 7205759403792794 (-56) (by decide) := by
  have : (0.1 : Float) = Float.ofBits 0x3FB999999999999A := by decide +kernel
  rw [this, FM.float_unpack_ofBits _ (by decide)]; rfl

theorem unpack_0_2 : (0.2 : Float).toModel.unpack = .finite .positive 7205759403792794 (-55) (by decide) := by
  have : (0.2 : Float) = Float.ofBits 0x3FC999999999999A := by decide +kernel
  rw [this, FM.float_unpack_ofBits _ (by decide)]; rfl

theorem unpack_0_1_add_0_2 :
    ((0.1 : Float) + 0.2).toModel.unpack = .finite .positive 5404319552844596 (-54) (by decide) := by
  have : (0.1 : Float) + 0.2 = Float.ofBits 0x3FD3333333333334 := by decide +kernel
  rw [this, FM.float_unpack_ofBits _ (by decide)]; rfl

/-- … with the `δ` computed: `0.1 + 0.2 = 0.30000000000000004`, `δ = 1/10808639105689191 ≈ 0.83 · 2⁻⁵³` — the bound
`2⁻⁵³` is nearly attained, and `δ ≠ 0`: the sum is not exact. -/
example : toRat ((0.1 : Float) + 0.2) =
      (toRat (0.1 : Float) + toRat (0.2 : Float)) * (1 + 1 / 10808639105689191) ∧
    |(1 / 10808639105689191 : ℚ)| ≤ (2 : ℚ) ^ (-53 : Int) := by
  rw [toRat_of_unpack unpack_0_1_add_0_2, toRat_of_unpack unpack_0_1, toRat_of_unpack unpack_0_2]
  constructor
  · norm_num [sgnQ]
  · rw [abs_of_pos (by norm_num)]; norm_num

/-- the no-overflow hypothesis is needed: the largest double added to itself is `+∞`. -/
example : (Float.ofBits 0x7FEFFFFFFFFFFFFF).isFinite = true ∧
    (Float.ofBits 0x7FEFFFFFFFFFFFFF + Float.ofBits 0x7FEFFFFFFFFFFFFF).isFinite = false := by decide +kernel

/-- no underflow error: the sum of the two smallest positive doubles is exact (`rq_exact`). -/
example : Float.ofBits 1 + Float.ofBits 1 = Float.ofBits 2 := by decide +kernel

/-- `sub_err_float` on a cancelling difference (exact, Sterbenz): hypotheses and instance. -/
example : ∃ δ : ℚ, |δ| ≤ (2 : ℚ) ^ (-53 : Int) ∧
    toRat ((0.3 : Float) - 0.2) = (toRat (0.3 : Float) - toRat (0.2 : Float)) * (1 + δ) :=
  sub_err_float _ _ (by decide +kernel) (by decide +kernel) (by decide +kernel)

/-- monotonicity / sign on closed doubles. -/
example : Scalar.le (0.1 : Float) (0.2 : Float) = true ∧ toRat (0.1 : Float) ≤ toRat (0.2 : Float) :=
  ⟨by decide +kernel, toRat_le_of_le _ _ (by decide +kernel) (by decide +kernel) (by decide +kernel)⟩

end Examples

end Rosu.FErr
