/-
  Lemmas/FloatArithMono.lean — **monotonicity of the rounded IEEE operations** of Lean ≥ 4.33's `Float.Model`, from
  `rwa_mono` (Lemmas/FloatRoundMono.lean): on unpacked canonical values, generically in the `Format`, then for the
  driver's `Float` and `Float32`.

  * `mul_mono`      : `a ≤ b`, `+0 ≤ c`            ⟹ `a·c ≤ b·c`     (`mul_le_mul_right_float`/`32`)
  * `div_mono`      : `a ≤ b`, `+0 < c`            ⟹ `a/c ≤ b/c`     (`div_le_div_right_float`/`32`; `c = −0` is a counterexample for `0 ≤ c`)
  * `add_mono_right`: `x ≤ y`                      ⟹ `s + x ≤ s + y` (`add_le_add_left_float`/`32`)
  * `sub_anti_right`: `x ≤ y`, `s` finite non-zero ⟹ `s − y ≤ s − x` (`sub_le_sub_left_float`/`32`)
  each under the only side condition IEEE needs: neither result is a NaN (`∞·0`, `∞/∞`, `∞−∞`). Underflow to `±0`,
  subnormals, the carry into the next binade and overflow to `±∞` (`repack_mono`) are covered.
  * `round_mono`, `normalize_mono`: the rounding of `add`/`sub` is monotone in the exact signed value;
    `round_canon_id`: rounding a canonical number gives it back;
  * `mul_canon`, `div_canon`, `add_canon`, `sub_canon`: results are canonical; `repack_isNaN`;
  * `not_nan_of_mul_float` …: a NaN operand gives a NaN.
-/
import RosuModel.Lemmas.FloatRoundMono
import RosuModel.Lemmas.FloatModelCompare
namespace Rosu.FAM
open Float.Model Float.Model.UnpackedFloat Rosu.FMR Rosu.FRM

/-! ### order helpers on unpacked values -/

theorem le_neg_infinity (b : UnpackedFloat) (h : b.isNaN = false) : (UnpackedFloat.infinity .negative).le b = true := by
  match b, h with
  | .zero _, _ => rfl
  | .infinity .positive, _ => rfl
  | .infinity .negative, _ => rfl
  | .finite .positive m e hm, _ => rfl
  | .finite .negative m e hm, _ => rfl

/-- a zero, a negative finite number or `-∞`. -/
def NonPos : UnpackedFloat → Prop
  | .zero _ => True
  | .finite .negative .. => True
  | .infinity .negative => True
  | _ => False

/-- a zero, a positive finite number or `+∞`. -/
def NonNeg : UnpackedFloat → Prop
  | .zero _ => True
  | .finite .positive .. => True
  | .infinity .positive => True
  | _ => False

theorem le_of_nonpos_nonneg {u v : UnpackedFloat} (hu : NonPos u) (hv : NonNeg v) : u.le v = true := by
  match u, v, hu, hv with
  | .zero _, .zero _, _, _ => rfl
  | .zero _, .finite .positive .., _, _ => rfl
  | .zero _, .infinity .positive, _, _ => rfl
  | .finite .negative .., .zero _, _, _ => rfl
  | .finite .negative .., .finite .positive .., _, _ => rfl
  | .finite .negative .., .infinity .positive, _, _ => rfl
  | .infinity .negative, .zero _, _, _ => rfl
  | .infinity .negative, .finite .positive .., _, _ => rfl
  | .infinity .negative, .infinity .positive, _, _ => rfl

/-- a result of sign `s` that is a zero or finite. -/
def ZeroOrFin (s : Sign) (r : UnpackedFloat) : Prop := r = .zero s ∨ ∃ m e h, r = .finite s m e h

theorem ZeroOrFin.nonneg {r : UnpackedFloat} (h : ZeroOrFin .positive r) : NonNeg r := by
  rcases h with rfl | ⟨m, e, h, rfl⟩ <;> trivial

theorem ZeroOrFin.nonpos {r : UnpackedFloat} (h : ZeroOrFin .negative r) : NonPos r := by
  rcases h with rfl | ⟨m, e, h, rfl⟩ <;> trivial

theorem Shape.zeroOrFin {spec : Format} {s : Sign} {r : UnpackedFloat} {q : Nat} {te : Int}
    (h : Shape spec s r q te) : ZeroOrFin s r := by
  rcases h with ⟨_, rfl⟩ | ⟨_, _, _, ⟨p, rfl⟩⟩ | ⟨_, _, ⟨p, rfl⟩⟩
  · exact Or.inl rfl
  · exact Or.inr ⟨_, _, _, rfl⟩
  · exact Or.inr ⟨_, _, _, rfl⟩

theorem Shape.canon {spec : Format} {s : Sign} {r : UnpackedFloat} {q : Nat} {te : Int}
    (h : Shape spec s r q te) : Canon spec r := by
  rcases h with ⟨_, rfl⟩ | ⟨_, _, hc, hf⟩ | ⟨_, hc, hf⟩
  · trivial
  · exact hf.canon hc
  · exact hf.canon hc

/-! ### exact mantissas as rationals with denominator one -/

theorem rwa_exact_eq (spec : Format) (s : Sign) (M : Nat) (e : Int) :
    roundWithAccuracy spec s M e .exact = roundWithAccuracy spec s (M / 1) e (accuracyOfFraction (M % 1) 1) := by
  rw [Nat.div_one, Nat.mod_one]; rfl

/-- `roundWithAccuracy … .exact` is monotone in the exact value. -/
theorem rwa_exact_mono (spec : Format) (s : Sign) (M₁ M₂ : Nat) (e₁ e₂ E : Int) (hE₁ : E ≤ e₁) (hE₂ : E ≤ e₂)
    (hv : M₁ * 2 ^ (e₁ - E).toNat ≤ M₂ * 2 ^ (e₂ - E).toNat)
    (he₁ : e₁ ≤ tgt spec M₁ e₁) (he₂ : e₂ ≤ tgt spec M₂ e₂) :
    SLE s (roundWithAccuracy spec s M₁ e₁ .exact) (roundWithAccuracy spec s M₂ e₂ .exact) := by
  rw [rwa_exact_eq spec s M₁, rwa_exact_eq spec s M₂]
  refine rwa_mono spec s M₁ 1 M₂ 1 e₁ e₂ E (by omega) (by omega) hE₁ hE₂ ?_ ?_ ?_
  · unfold QLE; simpa using hv
  · rw [Nat.div_one]; exact he₁
  · rw [Nat.div_one]; exact he₂

theorem rwa_exact_shape (spec : Format) (s : Sign) (M : Nat) (e : Int) (he : e ≤ tgt spec M e) :
    ZeroOrFin s (roundWithAccuracy spec s M e .exact) ∧ Canon spec (roundWithAccuracy spec s M e .exact) := by
  rw [rwa_exact_eq]
  have hs : Shape spec s _ _ _ := (rwa_shape spec s M 1 (by omega) e (by rw [Nat.div_one]; exact he)).1
  exact ⟨Shape.zeroOrFin hs, Shape.canon hs⟩

/-! ### multiplication -/

theorem minExponent_nonpos (spec : Format) : spec.minExponent ≤ 0 := by
  rw [minExponent_eq]; have := spec.hm; omega

theorem log2_mul_ge (a b : Nat) (ha : 0 < a) (hb : 0 < b) : a.log2 + b.log2 ≤ (a * b).log2 := by
  rw [Nat.le_log2 (Nat.mul_ne_zero (by omega) (by omega)), Nat.pow_add]
  exact Nat.mul_le_mul (Nat.log2_self_le (by omega)) (Nat.log2_self_le (by omega))

/-- the product of two canonical mantissas sits at an exponent not above its target exponent. -/
theorem mul_tgt_ge (spec : Format) {ma mc : Nat} {ea ec : Int} (ha : CanonFin spec ma ea) (hc : CanonFin spec mc ec)
    (hma : 0 < ma) (hmc : 0 < mc) : ea + ec ≤ tgt spec (ma * mc) (ea + ec) := by
  have hMB := mantissaBits_pos spec
  have h0 := minExponent_nonpos spec
  have hl := log2_mul_ge ma mc hma hmc
  have hga := ha.ge
  have hgc := hc.ge
  unfold tgt Format.targetExponent totalExponent
  rcases ha.norm with hn | hn
  · have : spec.mantissaBits - 1 ≤ ma.log2 := (Nat.le_log2 (by omega)).2 hn
    omega
  · rcases hc.norm with hn' | hn'
    · have : spec.mantissaBits - 1 ≤ mc.log2 := (Nat.le_log2 (by omega)).2 hn'
      omega
    · omega

theorem mul_fin (spec : Format) (s₁ s₂ : Sign) (m₁ m₂ : Nat) (e₁ e₂ : Int) (h₁ h₂) :
    UnpackedFloat.mul spec (.finite s₁ m₁ e₁ h₁) (.finite s₂ m₂ e₂ h₂) =
      roundWithAccuracy spec (s₁ * s₂) (m₁ * m₂) (e₁ + e₂) .exact := rfl

theorem sign_mul_pos (s : Sign) : s * Sign.positive = s := by cases s <;> rfl
theorem sign_div_pos (s : Sign) : s / Sign.positive = s := by cases s <;> rfl

/-- `a ≤ b` for unpacked numbers, by kinds. -/
inductive LeKind : UnpackedFloat → UnpackedFloat → Prop
  | negInf (b) (hb : b.isNaN = false) : LeKind (.infinity .negative) b
  | posInf (a) (ha : a.isNaN = false) : LeKind a (.infinity .positive)
  | zeroZero (s s') : LeKind (.zero s) (.zero s')
  | zeroPos (s m e h) : LeKind (.zero s) (.finite .positive m e h)
  | negZero (s m e h) : LeKind (.finite .negative m e h) (.zero s)
  | negPos (m e h m' e' h') : LeKind (.finite .negative m e h) (.finite .positive m' e' h')
  | posPos (m e h m' e' h') (hl : LexLE e m e' m') : LeKind (.finite .positive m e h) (.finite .positive m' e' h')
  | negNeg (m e h m' e' h') (hl : LexLE e' m' e m) : LeKind (.finite .negative m e h) (.finite .negative m' e' h')

theorem leKind_of_le {a b : UnpackedFloat} (h : a.le b = true) : LeKind a b := by
  match a, b, h with
  | .infinity .negative, .infinity .negative, _ => exact .negInf _ rfl
  | .infinity .negative, .infinity .positive, _ => exact .negInf _ rfl
  | .infinity .negative, .zero _, _ => exact .negInf _ rfl
  | .infinity .negative, .finite .., _ => exact .negInf _ rfl
  | .infinity .positive, .infinity .positive, _ => exact .posInf _ rfl
  | .zero _, .infinity .positive, _ => exact .posInf _ rfl
  | .finite .., .infinity .positive, _ => exact .posInf _ rfl
  | .zero _, .zero _, _ => exact .zeroZero _ _
  | .zero _, .finite .positive .., _ => exact .zeroPos ..
  | .finite .negative .., .zero _, _ => exact .negZero ..
  | .finite .negative .., .finite .positive .., _ => exact .negPos ..
  | .finite .positive m e hm, .finite .positive m' e' hm', h => exact .posPos _ _ _ _ _ _ ((le_fin_pos_iff hm hm').mp h)
  | .finite .negative m e hm, .finite .negative m' e' hm', h => exact .negNeg _ _ _ _ _ _ ((le_fin_neg_iff hm hm').mp h)

/-- a canonical finite number times a canonical positive finite number: sign, shape, canonical form. -/
theorem mul_fin_pos_shape (spec : Format) (s : Sign) {ma mc : Nat} {ea ec : Int} (hma hmc)
    (ha : CanonFin spec ma ea) (hc : CanonFin spec mc ec) :
    UnpackedFloat.mul spec (.finite s ma ea hma) (.finite .positive mc ec hmc) =
      roundWithAccuracy spec s (ma * mc) (ea + ec) .exact ∧
    ZeroOrFin s (UnpackedFloat.mul spec (.finite s ma ea hma) (.finite .positive mc ec hmc)) := by
  have h : UnpackedFloat.mul spec (.finite s ma ea hma) (.finite .positive mc ec hmc) =
      roundWithAccuracy spec s (ma * mc) (ea + ec) .exact := by rw [mul_fin, sign_mul_pos]
  rw [h]
  exact ⟨rfl, (rwa_exact_shape spec s _ _ (mul_tgt_ge spec ha hc hma hmc)).1⟩

/-- products of canonical numbers are canonical. -/
theorem mul_canon (spec : Format) (a c : UnpackedFloat) (ha : Canon spec a) (hc : Canon spec c) :
    Canon spec (UnpackedFloat.mul spec a c) := by
  match a, c, ha, hc with
  | .notANumber, _, _, _ => trivial
  | .infinity _, .notANumber, _, _ => trivial
  | .zero _, .notANumber, _, _ => trivial
  | .finite .., .notANumber, _, _ => trivial
  | .infinity _, .infinity _, _, _ => trivial
  | .infinity _, .finite .., _, _ => trivial
  | .finite .., .infinity _, _, _ => trivial
  | .infinity _, .zero _, _, _ => trivial
  | .zero _, .infinity _, _, _ => trivial
  | .finite .., .zero _, _, _ => trivial
  | .zero _, .finite .., _, _ => trivial
  | .zero _, .zero _, _, _ => trivial
  | .finite s₁ m₁ e₁ h₁, .finite s₂ m₂ e₂ h₂, ha, hc =>
    rw [mul_fin]
    exact (rwa_exact_shape spec _ _ _ (mul_tgt_ge spec ha hc h₁ h₂)).2

theorem valLE_scale {ma mb : Nat} {ea eb : Int} (h : ValLE ma ea mb eb) (mc : Nat) (ec : Int) :
    ma * mc * 2 ^ (ea + ec - (min ea eb + ec)).toNat ≤ mb * mc * 2 ^ (eb + ec - (min ea eb + ec)).toNat := by
  unfold ValLE at h
  have e1 : ea + ec - (min ea eb + ec) = ea - min ea eb := by omega
  have e2 : eb + ec - (min ea eb + ec) = eb - min ea eb := by omega
  rw [e1, e2, Nat.mul_right_comm ma, Nat.mul_right_comm mb]
  exact Nat.mul_le_mul_right _ h

/-- **multiplication by a non-negative number is monotone** (unpacked level, before packing). -/
theorem mul_mono (spec : Format) (a b c : UnpackedFloat) (ha : Canon spec a) (hb : Canon spec b) (hc : Canon spec c)
    (hab : a.le b = true) (hc0 : (UnpackedFloat.zero .positive).le c = true)
    (hna : (UnpackedFloat.mul spec a c).isNaN = false) (hnb : (UnpackedFloat.mul spec b c).isNaN = false) :
    (UnpackedFloat.mul spec a c).le (UnpackedFloat.mul spec b c) = true := by
  rcases nonneg_cases c hc0 with ⟨sc, rfl⟩ | ⟨mc, ec, hmc, rfl⟩ | rfl
  · -- c = ±0: both products are zeros
    cases leKind_of_le hab with
    | negInf b hb' => cases hna
    | posInf a ha' => cases hnb
    | zeroZero s s' => rfl
    | zeroPos s m e h => rfl
    | negZero s m e h => rfl
    | negPos m e h m' e' h' => rfl
    | posPos m e h m' e' h' hl => rfl
    | negNeg m e h m' e' h' hl => rfl
  · -- c finite positive
    cases leKind_of_le hab with
    | negInf b hb' => exact le_neg_infinity _ hnb
    | posInf a ha' =>
      have : UnpackedFloat.mul spec (.infinity .positive) (.finite .positive mc ec hmc) = .infinity .positive := rfl
      rw [this]; exact le_pos_infinity _ hna
    | zeroZero s s' => rfl
    | zeroPos s m e h =>
      exact le_of_nonpos_nonneg (u := .zero _) trivial (mul_fin_pos_shape spec .positive h hmc hb hc).2.nonneg
    | negZero s m e h =>
      exact le_of_nonpos_nonneg (v := .zero _) (mul_fin_pos_shape spec .negative h hmc ha hc).2.nonpos trivial
    | negPos m e h m' e' h' =>
      exact le_of_nonpos_nonneg (mul_fin_pos_shape spec .negative h hmc ha hc).2.nonpos
        (mul_fin_pos_shape spec .positive h' hmc hb hc).2.nonneg
    | posPos m e h m' e' h' hl =>
      rw [(mul_fin_pos_shape spec .positive h hmc ha hc).1, (mul_fin_pos_shape spec .positive h' hmc hb hc).1]
      exact rwa_exact_mono spec .positive _ _ _ _ (min e e' + ec) (by omega) (by omega)
        (valLE_scale ((lexLE_iff_valLE ha hb).mp hl) mc ec)
        (mul_tgt_ge spec ha hc h hmc) (mul_tgt_ge spec hb hc h' hmc)
    | negNeg m e h m' e' h' hl =>
      rw [(mul_fin_pos_shape spec .negative h hmc ha hc).1, (mul_fin_pos_shape spec .negative h' hmc hb hc).1]
      have := rwa_exact_mono spec .negative (m' * mc) (m * mc) (e' + ec) (e + ec) (min e' e + ec) (by omega) (by omega)
        (valLE_scale ((lexLE_iff_valLE hb ha).mp hl) mc ec)
        (mul_tgt_ge spec hb hc h' hmc) (mul_tgt_ge spec ha hc h hmc)
      exact this
  · -- c = +∞
    cases leKind_of_le hab with
    | negInf b hb' => exact le_neg_infinity _ hnb
    | posInf a ha' => exact le_pos_infinity _ hna
    | zeroZero s s' => cases hna
    | zeroPos s m e h => cases hna
    | negZero s m e h => cases hnb
    | negPos m e h m' e' h' => rfl
    | posPos m e h m' e' h' hl => rfl
    | negNeg m e h m' e' h' hl => rfl

/-! ### division -/

/-- the exponent `divCore` works at. -/
def divT (spec : Format) (m₁ : Nat) (e₁ : Int) (m₂ : Nat) (e₂ : Int) : Int :=
  min (e₁ - e₂) (spec.targetExponent (totalExponent m₁ e₁ - totalExponent m₂ e₂))

/-- the numerator `divCore` divides (the mantissa shifted left far enough). -/
def divN (spec : Format) (m₁ : Nat) (e₁ : Int) (m₂ : Nat) (e₂ : Int) : Nat :=
  m₁ * 2 ^ (e₁ - e₂ - divT spec m₁ e₁ m₂ e₂).toNat

theorem div_fin (spec : Format) (s₁ s₂ : Sign) (m₁ m₂ : Nat) (e₁ e₂ : Int) (h₁ h₂) :
    UnpackedFloat.div spec (.finite s₁ m₁ e₁ h₁) (.finite s₂ m₂ e₂ h₂) =
      roundWithAccuracy spec (s₁ / s₂) (divN spec m₁ e₁ m₂ e₂ / m₂) (divT spec m₁ e₁ m₂ e₂)
        (accuracyOfFraction (divN spec m₁ e₁ m₂ e₂ % m₂) m₂) := by
  simp only [UnpackedFloat.div, divCore, Nat.shiftLeft_eq]
  rfl

/-- the quotient mantissa sits at an exponent not above its target exponent. -/
theorem div_tgt_ge (spec : Format) (m₁ m₂ : Nat) (e₁ e₂ : Int) (h₁ : 0 < m₁) (h₂ : 0 < m₂) :
    divT spec m₁ e₁ m₂ e₂ ≤ tgt spec (divN spec m₁ e₁ m₂ e₂ / m₂) (divT spec m₁ e₁ m₂ e₂) := by
  have hMB := mantissaBits_pos spec
  by_cases hmin : divT spec m₁ e₁ m₂ e₂ ≤ spec.minExponent
  · exact Int.le_trans hmin (tgt_ge_min spec _ _)
  · -- the quotient has a full mantissa
    have hq : 2 ^ (spec.mantissaBits - 1) ≤ divN spec m₁ e₁ m₂ e₂ / m₂ := by
      rw [Nat.le_div_iff_mul_le h₂]
      have hsh : spec.mantissaBits + m₂.log2 ≤ m₁.log2 + (e₁ - e₂ - divT spec m₁ e₁ m₂ e₂).toNat := by
        revert hmin
        unfold divT Format.targetExponent totalExponent
        omega
      have l1 : 2 ^ m₁.log2 ≤ m₁ := Nat.log2_self_le (by omega)
      have u2 : m₂ < 2 ^ (m₂.log2 + 1) := Nat.lt_log2_self
      calc 2 ^ (spec.mantissaBits - 1) * m₂ ≤ 2 ^ (spec.mantissaBits - 1) * 2 ^ (m₂.log2 + 1) :=
            Nat.mul_le_mul_left _ (Nat.le_of_lt u2)
        _ = 2 ^ (spec.mantissaBits + m₂.log2) := by rw [← Nat.pow_add]; congr 1; omega
        _ ≤ 2 ^ (m₁.log2 + (e₁ - e₂ - divT spec m₁ e₁ m₂ e₂).toNat) := Nat.pow_le_pow_right (by omega) hsh
        _ = 2 ^ m₁.log2 * 2 ^ (e₁ - e₂ - divT spec m₁ e₁ m₂ e₂).toNat := Nat.pow_add ..
        _ ≤ divN spec m₁ e₁ m₂ e₂ := Nat.mul_le_mul_right _ l1
    have hp := Nat.two_pow_pos (spec.mantissaBits - 1)
    have hl : spec.mantissaBits - 1 ≤ (divN spec m₁ e₁ m₂ e₂ / m₂).log2 := (Nat.le_log2 (by omega)).2 hq
    unfold tgt Format.targetExponent totalExponent
    omega

/-- a finite number divided by a positive finite number: the rounding it is, its sign and shape. -/
theorem div_fin_pos_shape (spec : Format) (s : Sign) (ma mc : Nat) (ea ec : Int) (hma hmc) :
    UnpackedFloat.div spec (.finite s ma ea hma) (.finite .positive mc ec hmc) =
      roundWithAccuracy spec s (divN spec ma ea mc ec / mc) (divT spec ma ea mc ec)
        (accuracyOfFraction (divN spec ma ea mc ec % mc) mc) ∧
    ZeroOrFin s (UnpackedFloat.div spec (.finite s ma ea hma) (.finite .positive mc ec hmc)) := by
  have h := div_fin spec s .positive ma mc ea ec hma hmc
  rw [sign_div_pos] at h
  rw [h]
  have hs : Shape spec s _ _ _ := (rwa_shape spec s _ mc hmc _ (div_tgt_ge spec ma mc ea ec hma hmc)).1
  exact ⟨rfl, Shape.zeroOrFin hs⟩

/-- quotients of canonical numbers are canonical (canonicity of the operands is not even needed). -/
theorem div_canon (spec : Format) (a c : UnpackedFloat) : Canon spec (UnpackedFloat.div spec a c) := by
  match a, c with
  | .notANumber, _ => trivial
  | .infinity _, .notANumber => trivial
  | .zero _, .notANumber => trivial
  | .finite .., .notANumber => trivial
  | .infinity _, .infinity _ => trivial
  | .infinity _, .finite .. => trivial
  | .finite .., .infinity _ => trivial
  | .infinity _, .zero _ => trivial
  | .zero _, .infinity _ => trivial
  | .finite .., .zero _ => trivial
  | .zero _, .finite .. => trivial
  | .zero _, .zero _ => trivial
  | .finite s₁ m₁ e₁ h₁, .finite s₂ m₂ e₂ h₂ =>
    rw [div_fin]
    have hs : Shape spec (s₁ / s₂) _ _ _ :=
      (rwa_shape spec (s₁ / s₂) _ m₂ h₂ _ (div_tgt_ge spec m₁ m₂ e₁ e₂ h₁ h₂)).1
    exact Shape.canon hs

theorem divT_le (spec : Format) (m₁ m₂ : Nat) (e₁ e₂ : Int) : divT spec m₁ e₁ m₂ e₂ ≤ e₁ - e₂ := by
  unfold divT; omega

/-- the exact quotients are ordered like the numerators. -/
theorem valLE_div {ma mb : Nat} {ea eb : Int} (h : ValLE ma ea mb eb) (spec : Format) (mc : Nat) (ec : Int) :
    QLE (divN spec ma ea mc ec) mc (divT spec ma ea mc ec) (divN spec mb eb mc ec) mc (divT spec mb eb mc ec)
      (min (divT spec ma ea mc ec) (divT spec mb eb mc ec)) := by
  unfold ValLE at h
  unfold QLE divN
  have ha := divT_le spec ma mc ea ec
  have hb := divT_le spec mb mc eb ec
  generalize divT spec ma ea mc ec = ta at *
  generalize divT spec mb eb mc ec = tb at *
  obtain ⟨G, hG⟩ : ∃ G : Nat, (G : Int) = min ea eb - ec - min ta tb := ⟨(min ea eb - ec - min ta tb).toNat, by omega⟩
  have e1 : 2 ^ (ea - ec - ta).toNat * 2 ^ (ta - min ta tb).toNat = 2 ^ (ea - min ea eb).toNat * 2 ^ G := by
    rw [← Nat.pow_add, ← Nat.pow_add]; congr 1; omega
  have e2 : 2 ^ (eb - ec - tb).toNat * 2 ^ (tb - min ta tb).toNat = 2 ^ (eb - min ea eb).toNat * 2 ^ G := by
    rw [← Nat.pow_add, ← Nat.pow_add]; congr 1; omega
  calc ma * 2 ^ (ea - ec - ta).toNat * mc * 2 ^ (ta - min ta tb).toNat
      = ma * (2 ^ (ea - ec - ta).toNat * 2 ^ (ta - min ta tb).toNat) * mc := by ac_rfl
    _ = ma * 2 ^ (ea - min ea eb).toNat * (2 ^ G * mc) := by rw [e1]; ac_rfl
    _ ≤ mb * 2 ^ (eb - min ea eb).toNat * (2 ^ G * mc) := Nat.mul_le_mul_right _ h
    _ = mb * (2 ^ (eb - ec - tb).toNat * 2 ^ (tb - min ta tb).toNat) * mc := by rw [e2]; ac_rfl
    _ = mb * 2 ^ (eb - ec - tb).toNat * mc * 2 ^ (tb - min ta tb).toNat := by ac_rfl

theorem pos_cases (c : UnpackedFloat) (h : (UnpackedFloat.zero .positive).lt c = true) :
    (∃ m e hm, c = .finite .positive m e hm) ∨ c = .infinity .positive := by
  match c, h with
  | .finite .positive m e hm, _ => exact Or.inl ⟨m, e, hm, rfl⟩
  | .infinity .positive, _ => exact Or.inr rfl

/-- **division by a positive number is monotone** (unpacked level, before packing). -/
theorem div_mono (spec : Format) (a b c : UnpackedFloat) (ha : Canon spec a) (hb : Canon spec b)
    (hab : a.le b = true) (hc0 : (UnpackedFloat.zero .positive).lt c = true)
    (hna : (UnpackedFloat.div spec a c).isNaN = false) (hnb : (UnpackedFloat.div spec b c).isNaN = false) :
    (UnpackedFloat.div spec a c).le (UnpackedFloat.div spec b c) = true := by
  rcases pos_cases c hc0 with ⟨mc, ec, hmc, rfl⟩ | rfl
  · cases leKind_of_le hab with
    | negInf b hb' => exact le_neg_infinity _ hnb
    | posInf a ha' =>
      have : UnpackedFloat.div spec (.infinity .positive) (.finite .positive mc ec hmc) = .infinity .positive := rfl
      rw [this]; exact le_pos_infinity _ hna
    | zeroZero s s' => rfl
    | zeroPos s m e h =>
      exact le_of_nonpos_nonneg (u := .zero _) trivial (div_fin_pos_shape spec .positive m mc e ec h hmc).2.nonneg
    | negZero s m e h =>
      exact le_of_nonpos_nonneg (v := .zero _) (div_fin_pos_shape spec .negative m mc e ec h hmc).2.nonpos trivial
    | negPos m e h m' e' h' =>
      exact le_of_nonpos_nonneg (div_fin_pos_shape spec .negative m mc e ec h hmc).2.nonpos
        (div_fin_pos_shape spec .positive m' mc e' ec h' hmc).2.nonneg
    | posPos m e h m' e' h' hl =>
      rw [(div_fin_pos_shape spec .positive m mc e ec h hmc).1, (div_fin_pos_shape spec .positive m' mc e' ec h' hmc).1]
      exact rwa_mono spec .positive _ mc _ mc _ _ _ hmc hmc (Int.min_le_left _ _) (Int.min_le_right _ _)
        (valLE_div ((lexLE_iff_valLE ha hb).mp hl) spec mc ec)
        (div_tgt_ge spec m mc e ec h hmc) (div_tgt_ge spec m' mc e' ec h' hmc)
    | negNeg m e h m' e' h' hl =>
      rw [(div_fin_pos_shape spec .negative m mc e ec h hmc).1, (div_fin_pos_shape spec .negative m' mc e' ec h' hmc).1]
      exact rwa_mono spec .negative _ mc _ mc _ _ _ hmc hmc (Int.min_le_left _ _) (Int.min_le_right _ _)
        (valLE_div ((lexLE_iff_valLE hb ha).mp hl) spec mc ec)
        (div_tgt_ge spec m' mc e' ec h' hmc) (div_tgt_ge spec m mc e ec h hmc)
  · cases leKind_of_le hab with
    | negInf b hb' => cases hna
    | posInf a ha' => cases hnb
    | zeroZero s s' => rfl
    | zeroPos s m e h => rfl
    | negZero s m e h => rfl
    | negPos m e h m' e' h' => rfl
    | posPos m e h m' e' h' hl => rfl
    | negNeg m e h m' e' h' hl => rfl

/-! ### `round` and `normalize` (the rounding of `add`/`sub`) -/

theorem round_eq_rwa (spec : Format) (s : Sign) (M : Nat) (e : Int) :
    round spec s M e = roundWithAccuracy spec s (M * 2 ^ (e - tgt spec M e).toNat)
      (e - ((e - tgt spec M e).toNat : Int)) .exact := by
  unfold round decreaseExponent
  simp only [Nat.shiftLeft_eq]
  rfl

theorem round_tgt_ge (spec : Format) (M : Nat) (hM : M ≠ 0) (e : Int) :
    e - ((e - tgt spec M e).toNat : Int) ≤
      tgt spec (M * 2 ^ (e - tgt spec M e).toNat) (e - ((e - tgt spec M e).toNat : Int)) := by
  have : tgt spec (M * 2 ^ (e - tgt spec M e).toNat) (e - ((e - tgt spec M e).toNat : Int)) = tgt spec M e := by
    unfold tgt; rw [totalExponent_shift hM]
  rw [this]; omega

theorem round_zeroOrFin (spec : Format) (s : Sign) (M : Nat) (hM : M ≠ 0) (e : Int) :
    ZeroOrFin s (round spec s M e) := by
  rw [round_eq_rwa]
  exact (rwa_exact_shape spec s _ _ (round_tgt_ge spec M hM e)).1

/-- **`round` is monotone in the exact value.** -/
theorem round_mono (spec : Format) (s : Sign) (M₁ M₂ : Nat) (h₁ : M₁ ≠ 0) (h₂ : M₂ ≠ 0) (e₁ e₂ E : Int)
    (hE₁ : E ≤ e₁) (hE₂ : E ≤ e₂) (hv : M₁ * 2 ^ (e₁ - E).toNat ≤ M₂ * 2 ^ (e₂ - E).toNat) :
    SLE s (round spec s M₁ e₁) (round spec s M₂ e₂) := by
  rw [round_eq_rwa spec s M₁, round_eq_rwa spec s M₂]
  generalize hk₁ : (e₁ - tgt spec M₁ e₁).toNat = k₁
  generalize hk₂ : (e₂ - tgt spec M₂ e₂).toNat = k₂
  have g₁ := round_tgt_ge spec M₁ h₁ e₁
  have g₂ := round_tgt_ge spec M₂ h₂ e₂
  rw [hk₁] at g₁
  rw [hk₂] at g₂
  -- a common base below all four exponents
  obtain ⟨d, hd⟩ : ∃ d : Nat, (d : Int) = E - min E (min (e₁ - k₁) (e₂ - k₂)) := ⟨_, Int.toNat_of_nonneg (by omega)⟩
  refine rwa_exact_mono spec s _ _ _ _ (min E (min (e₁ - k₁) (e₂ - k₂))) (by omega) (by omega) ?_ g₁ g₂
  have e1 : 2 ^ k₁ * 2 ^ (e₁ - ↑k₁ - min E (min (e₁ - ↑k₁) (e₂ - ↑k₂))).toNat = 2 ^ (e₁ - E).toNat * 2 ^ d := by
    rw [← Nat.pow_add, ← Nat.pow_add]; congr 1; omega
  have e2 : 2 ^ k₂ * 2 ^ (e₂ - ↑k₂ - min E (min (e₁ - ↑k₁) (e₂ - ↑k₂))).toNat = 2 ^ (e₂ - E).toNat * 2 ^ d := by
    rw [← Nat.pow_add, ← Nat.pow_add]; congr 1; omega
  rw [Nat.mul_assoc, Nat.mul_assoc, e1, e2, ← Nat.mul_assoc, ← Nat.mul_assoc]
  exact Nat.mul_le_mul_right _ hv

/-- rounding a canonical number gives it back. -/
theorem round_canon_id (spec : Format) (s : Sign) (m : Nat) (e : Int) (hm : 0 < m) (hc : CanonFin spec m e) :
    round spec s m e = .finite s m e hm := by
  obtain ⟨q, _, _, h3, h4⟩ := round_spec spec s m (by omega) e
  have ht := hc.tgt_eq hm
  have hfl : fl spec m e = m := by unfold fl aligned dropBits; rw [ht]; simp
  have hq : q = m := by
    rw [h3 (by unfold dropBits; rw [ht]; simp [Nat.mod_one]), hfl]
  rw [h4, hq, ht]
  obtain ⟨_, h⟩ := stage2_small spec s m e hm hc.lt hc.ge
  exact h

/-- **`normalize` is monotone in the exact signed value.** -/
theorem normalize_mono (spec : Format) (Z₁ Z₂ : Int) (e₁ e₂ E : Int) (hE₁ : E ≤ e₁) (hE₂ : E ≤ e₂) (z₁ z₂ : Sign)
    (hv : Z₁ * ((2 ^ (e₁ - E).toNat : Nat) : Int) ≤ Z₂ * ((2 ^ (e₂ - E).toNat : Nat) : Int)) :
    (normalize spec Z₁ e₁ z₁).le (normalize spec Z₂ e₂ z₂) = true := by
  have p1 : (0 : Int) < ((2 ^ (e₁ - E).toNat : Nat) : Int) := Int.natCast_pos.mpr (Nat.two_pow_pos _)
  have p2 : (0 : Int) < ((2 ^ (e₂ - E).toNat : Nat) : Int) := Int.natCast_pos.mpr (Nat.two_pow_pos _)
  generalize hP₁ : ((2 ^ (e₁ - E).toNat : Nat)) = P₁ at *
  generalize hP₂ : ((2 ^ (e₂ - E).toNat : Nat)) = P₂ at *
  rcases Int.lt_trichotomy Z₁ 0 with n1 | n1 | n1 <;> rcases Int.lt_trichotomy Z₂ 0 with n2 | n2 | n2
  · -- both negative
    rw [normalize_neg _ _ _ _ n1, normalize_neg _ _ _ _ n2]
    obtain ⟨a, ha⟩ : ∃ a : Nat, Z₁ = -(a : Int) := ⟨(-Z₁).toNat, by omega⟩
    obtain ⟨b, hb⟩ : ∃ b : Nat, Z₂ = -(b : Int) := ⟨(-Z₂).toNat, by omega⟩
    subst ha; subst hb
    rw [Int.neg_neg, Int.neg_neg, Int.toNat_natCast, Int.toNat_natCast]
    rw [Int.neg_mul, Int.neg_mul] at hv
    have hv' : ((b * P₂ : Nat) : Int) ≤ ((a * P₁ : Nat) : Int) := by
      rw [Int.natCast_mul, Int.natCast_mul]; omega
    exact round_mono spec .negative b a (by omega) (by omega) e₂ e₁ E hE₂ hE₁
      (by rw [hP₁, hP₂]; exact Int.ofNat_le.mp hv')
  · subst n2; rw [normalize_neg _ _ _ _ n1, normalize_zero]
    exact le_of_nonpos_nonneg (v := .zero _) (round_zeroOrFin spec .negative _ (by omega) _).nonpos trivial
  · rw [normalize_neg _ _ _ _ n1, normalize_pos _ _ _ _ n2]
    exact le_of_nonpos_nonneg (round_zeroOrFin spec .negative _ (by omega) _).nonpos
      (round_zeroOrFin spec .positive _ (by omega) _).nonneg
  · exfalso; subst n1
    have := Int.mul_neg_of_neg_of_pos n2 p2
    omega
  · subst n1; subst n2; rw [normalize_zero, normalize_zero]; rfl
  · subst n1; rw [normalize_zero, normalize_pos _ _ _ _ n2]
    exact le_of_nonpos_nonneg (u := .zero _) trivial (round_zeroOrFin spec .positive _ (by omega) _).nonneg
  · exfalso
    have h1 := Int.mul_pos n1 p1
    have h2 := Int.mul_neg_of_neg_of_pos n2 p2
    omega
  · exfalso; subst n2
    have h1 := Int.mul_pos n1 p1
    omega
  · rw [normalize_pos _ _ _ _ n1, normalize_pos _ _ _ _ n2]
    obtain ⟨a, ha⟩ : ∃ a : Nat, Z₁ = (a : Int) := ⟨Z₁.toNat, by omega⟩
    obtain ⟨b, hb⟩ : ∃ b : Nat, Z₂ = (b : Int) := ⟨Z₂.toNat, by omega⟩
    subst ha; subst hb
    rw [Int.toNat_natCast, Int.toNat_natCast]
    have hv' : ((a * P₁ : Nat) : Int) ≤ ((b * P₂ : Nat) : Int) := by
      rw [Int.natCast_mul, Int.natCast_mul]; exact hv
    exact round_mono spec .positive a b (by omega) (by omega) e₁ e₂ E hE₁ hE₂
      (by rw [hP₁, hP₂]; exact Int.ofNat_le.mp hv')

/-! ### addition and subtraction: the exact signed value of a zero or finite operand -/

/-- a zero or a finite number. -/
def IsZF : UnpackedFloat → Prop
  | .zero _ => True
  | .finite .. => True
  | _ => False

/-- the exponent of a finite number (`es` for a zero). -/
def zfexp (es : Int) : UnpackedFloat → Int
  | .finite _ _ e _ => e
  | _ => es

/-- the signed mantissa of a zero or finite number on the grid `2^E`. -/
def zfval (u : UnpackedFloat) (E : Int) : Int :=
  match u with
  | .finite s m e _ => s.apply ((m * 2 ^ (e - E).toNat : Nat) : Int)
  | _ => 0

theorem pow_split (a b c : Int) (h₁ : c ≤ b) (h₂ : b ≤ a) : 2 ^ (a - b).toNat * 2 ^ (b - c).toNat = 2 ^ (a - c).toNat := by
  rw [← Nat.pow_add]; congr 1; omega

theorem zfval_scale (es : Int) (u : UnpackedFloat) (E₀ E₁ : Int) (h₀ : E₀ ≤ E₁) (h₁ : E₁ ≤ zfexp es u) :
    zfval u E₁ * ((2 ^ (E₁ - E₀).toNat : Nat) : Int) = zfval u E₀ := by
  match u, h₁ with
  | .finite s m e _, h₁ =>
    have h₁' : E₁ ≤ e := h₁
    cases s <;> simp only [zfval, Sign.apply]
    · rw [Int.neg_mul, ← Int.natCast_mul, Nat.mul_assoc, pow_split _ _ _ h₀ h₁']
    · rw [← Int.natCast_mul, Nat.mul_assoc, pow_split _ _ _ h₀ h₁']
  | .zero _, _ => simp [zfval]
  | .infinity _, _ => simp [zfval]
  | .notANumber, _ => simp [zfval]

/-- the order of zeros and canonical finite numbers is the order of the exact signed values. -/
theorem zfval_le (spec : Format) (es : Int) {x y : UnpackedFloat} (hxy : x.le y = true) (hx : IsZF x) (hy : IsZF y)
    (hcx : Canon spec x) (hcy : Canon spec y) (E : Int) (h₁ : E ≤ zfexp es x) (h₂ : E ≤ zfexp es y) :
    zfval x E ≤ zfval y E := by
  cases leKind_of_le hxy with
  | negInf b hb' => cases hx
  | posInf a ha' => cases hy
  | zeroZero s s' => exact Int.le_refl _
  | zeroPos s m e h => simp only [zfval, Sign.apply]; omega
  | negZero s m e h => simp only [zfval, Sign.apply]; omega
  | negPos m e h m' e' h' => simp only [zfval, Sign.apply]; omega
  | posPos m e h m' e' h' hl =>
    have hv := (lexLE_iff_valLE hcx hcy).mp hl
    unfold ValLE at hv
    have h₁' : E ≤ e := h₁
    have h₂' : E ≤ e' := h₂
    simp only [zfval, Sign.apply]
    apply Int.ofNat_le.mpr
    rw [← pow_split e (min e e') E (by omega) (by omega), ← pow_split e' (min e e') E (by omega) (by omega),
      ← Nat.mul_assoc, ← Nat.mul_assoc]
    exact Nat.mul_le_mul_right _ hv
  | negNeg m e h m' e' h' hl =>
    have hv := (lexLE_iff_valLE hcy hcx).mp hl
    unfold ValLE at hv
    have h₁' : E ≤ e := h₁
    have h₂' : E ≤ e' := h₂
    simp only [zfval, Sign.apply]
    apply Int.neg_le_neg
    apply Int.ofNat_le.mpr
    rw [← pow_split e (min e' e) E (by omega) (by omega), ← pow_split e' (min e' e) E (by omega) (by omega),
      ← Nat.mul_assoc, ← Nat.mul_assoc]
    exact Nat.mul_le_mul_right _ hv

theorem normalize_canon_val (spec : Format) (s : Sign) (m : Nat) (e : Int) (hm : 0 < m) (hc : CanonFin spec m e)
    (z : Sign) : normalize spec (s.apply (m : Int)) e z = .finite s m e hm := by
  cases s
  · have : Sign.negative.apply (m : Int) = -(m : Int) := rfl
    rw [this, normalize_neg _ _ _ _ (by omega), Int.neg_neg, Int.toNat_natCast]
    exact round_canon_id spec _ m e hm hc
  · have : Sign.positive.apply (m : Int) = (m : Int) := rfl
    rw [this, normalize_pos _ _ _ _ (by omega), Int.toNat_natCast]
    exact round_canon_id spec _ m e hm hc

/-- a canonical finite number plus a zero or a finite number, as the rounding of the exact sum. -/
theorem add_fin_zf (spec : Format) (ss : Sign) (ms : Nat) (es : Int) (hms) (hcs : CanonFin spec ms es)
    (x : UnpackedFloat) (hx : IsZF x) :
    UnpackedFloat.add spec (.finite ss ms es hms) x =
      normalize spec (zfval (.finite ss ms es hms) (min es (zfexp es x)) + zfval x (min es (zfexp es x)))
        (min es (zfexp es x)) .positive := by
  match x, hx with
  | .zero sx, _ =>
    have : UnpackedFloat.add spec (.finite ss ms es hms) (.zero sx) = .finite ss ms es hms := rfl
    rw [this]
    simp only [zfexp, zfval, Int.min_self, Int.sub_self, Int.toNat_zero, Nat.pow_zero, Nat.mul_one, Int.add_zero]
    exact (normalize_canon_val spec ss ms es hms hcs .positive).symm
  | .finite sx mx ex hmx, _ => exact add_fin spec ss sx ms mx es ex hms hmx

theorem sub_fin (spec : Format) (s₁ s₂ : Sign) (m₁ m₂ : Nat) (e₁ e₂ : Int) (h₁ h₂) :
    UnpackedFloat.sub spec (.finite s₁ m₁ e₁ h₁) (.finite s₂ m₂ e₂ h₂) =
      normalize spec (s₁.apply ((m₁ * 2 ^ (e₁ - min e₁ e₂).toNat : Nat) : Int) -
        s₂.apply ((m₂ * 2 ^ (e₂ - min e₁ e₂).toNat : Nat) : Int)) (min e₁ e₂) .positive := by
  simp only [UnpackedFloat.sub, decreaseExponent, Nat.shiftLeft_eq]

theorem sub_fin_zf (spec : Format) (ss : Sign) (ms : Nat) (es : Int) (hms) (hcs : CanonFin spec ms es)
    (x : UnpackedFloat) (hx : IsZF x) :
    UnpackedFloat.sub spec (.finite ss ms es hms) x =
      normalize spec (zfval (.finite ss ms es hms) (min es (zfexp es x)) - zfval x (min es (zfexp es x)))
        (min es (zfexp es x)) .positive := by
  match x, hx with
  | .zero sx, _ =>
    have : UnpackedFloat.sub spec (.finite ss ms es hms) (.zero sx) = .finite ss ms es hms := rfl
    rw [this]
    simp only [zfexp, zfval, Int.min_self, Int.sub_self, Int.toNat_zero, Nat.pow_zero, Nat.mul_one, Int.sub_zero]
    exact (normalize_canon_val spec ss ms es hms hcs .positive).symm
  | .finite sx mx ex hmx, _ => exact sub_fin spec ss sx ms mx es ex hms hmx

/-- `s + x ≤ s + y` and `s − y ≤ s − x` for a canonical finite `s` and zeros / canonical finite numbers `x ≤ y`. -/
theorem add_sub_mono_fin_zf (spec : Format) (ss : Sign) (ms : Nat) (es : Int) (hms) (hcs : CanonFin spec ms es)
    {x y : UnpackedFloat} (hxy : x.le y = true) (hx : IsZF x) (hy : IsZF y) (hcx : Canon spec x) (hcy : Canon spec y) :
    (UnpackedFloat.add spec (.finite ss ms es hms) x).le (UnpackedFloat.add spec (.finite ss ms es hms) y) = true ∧
    (UnpackedFloat.sub spec (.finite ss ms es hms) y).le (UnpackedFloat.sub spec (.finite ss ms es hms) x) = true := by
  rw [add_fin_zf spec ss ms es hms hcs x hx, add_fin_zf spec ss ms es hms hcs y hy,
    sub_fin_zf spec ss ms es hms hcs x hx, sub_fin_zf spec ss ms es hms hcs y hy]
  generalize hmx : min es (zfexp es x) = mx
  generalize hmy : min es (zfexp es y) = my
  have hsx := zfval_scale es (.finite ss ms es hms) (min mx my) mx (by omega) (by show mx ≤ es; omega)
  have hsy := zfval_scale es (.finite ss ms es hms) (min mx my) my (by omega) (by show my ≤ es; omega)
  have hxx := zfval_scale es x (min mx my) mx (by omega) (by omega)
  have hyy := zfval_scale es y (min mx my) my (by omega) (by omega)
  have hle := zfval_le spec es hxy hx hy hcx hcy (min mx my) (by omega) (by omega)
  constructor
  · apply normalize_mono spec _ _ mx my (min mx my) (by omega) (by omega)
    rw [Int.add_mul, Int.add_mul, hsx, hsy, hxx, hyy]
    omega
  · apply normalize_mono spec _ _ my mx (min mx my) (by omega) (by omega)
    rw [Int.sub_mul, Int.sub_mul, hsx, hsy, hxx, hyy]
    omega

/-! ### addition: every left operand; subtraction from a finite number -/

theorem add_inf_left (spec : Format) (ss : Sign) (x : UnpackedFloat)
    (h : (UnpackedFloat.add spec (.infinity ss) x).isNaN = false) :
    UnpackedFloat.add spec (.infinity ss) x = .infinity ss := by
  match x, h with
  | .infinity sx, h => cases ss <;> cases sx <;> first | rfl | cases h
  | .zero _, _ => rfl
  | .finite .., _ => rfl

theorem zero_le_irrel (s s' : Sign) (y : UnpackedFloat) :
    (UnpackedFloat.zero s).le y = (UnpackedFloat.zero s').le y := by
  match y with
  | .notANumber => rfl
  | .infinity .positive => rfl
  | .infinity .negative => rfl
  | .zero _ => rfl
  | .finite .positive .. => rfl
  | .finite .negative .. => rfl

theorem le_zero_irrel (s s' : Sign) (x : UnpackedFloat) :
    x.le (UnpackedFloat.zero s) = x.le (UnpackedFloat.zero s') := by
  match x with
  | .notANumber => rfl
  | .infinity .positive => rfl
  | .infinity .negative => rfl
  | .zero _ => rfl
  | .finite .positive .. => rfl
  | .finite .negative .. => rfl

/-- equal up to the sign of a zero. -/
def ZSim (u v : UnpackedFloat) : Prop := u = v ∨ ∃ s s', u = .zero s ∧ v = .zero s'

theorem le_of_zsim {x y x' y' : UnpackedFloat} (h : x.le y = true) (hx : ZSim x x') (hy : ZSim y y') :
    x'.le y' = true := by
  rcases hx with rfl | ⟨s, s', rfl, rfl⟩ <;> rcases hy with rfl | ⟨t, t', rfl, rfl⟩
  · exact h
  · rw [le_zero_irrel t' t]; exact h
  · rw [zero_le_irrel s' s]; exact h
  · rfl

theorem add_zero_left (spec : Format) (sz : Sign) (x : UnpackedFloat) :
    ZSim x (UnpackedFloat.add spec (.zero sz) x) := by
  match x with
  | .notANumber => exact Or.inl rfl
  | .infinity _ => exact Or.inl rfl
  | .zero sx => cases sz <;> cases sx <;> exact Or.inr ⟨_, _, rfl, rfl⟩
  | .finite .. => exact Or.inl rfl

theorem isZF_of_leKind {x y : UnpackedFloat} (h : LeKind x y) :
    x = .infinity .negative ∨ y = .infinity .positive ∨ (IsZF x ∧ IsZF y) := by
  cases h with
  | negInf => exact Or.inl rfl
  | posInf => exact Or.inr (Or.inl rfl)
  | _ => exact Or.inr (Or.inr ⟨trivial, trivial⟩)

/-- **addition is monotone in its right operand** (unpacked level, before packing). -/
theorem add_mono_right (spec : Format) (s x y : UnpackedFloat) (hs : Canon spec s) (hx : Canon spec x) (hy : Canon spec y)
    (hxy : x.le y = true)
    (hnx : (UnpackedFloat.add spec s x).isNaN = false) (hny : (UnpackedFloat.add spec s y).isNaN = false) :
    (UnpackedFloat.add spec s x).le (UnpackedFloat.add spec s y) = true := by
  match s, hs with
  | .notANumber, _ => cases hnx
  | .infinity ss, _ =>
    rw [add_inf_left spec ss x hnx, add_inf_left spec ss y hny]
    exact le_refl_of_not_nan _ rfl
  | .zero sz, _ => exact le_of_zsim hxy (add_zero_left spec sz x) (add_zero_left spec sz y)
  | .finite ss ms es hms, hcs =>
    rcases isZF_of_leKind (leKind_of_le hxy) with rfl | rfl | ⟨zx, zy⟩
    · exact le_neg_infinity _ hny
    · exact le_pos_infinity _ hnx
    · exact (add_sub_mono_fin_zf spec ss ms es hms hcs hxy zx zy hx hy).1

/-- **subtraction from a finite number is antitone in the subtrahend** (unpacked level, before packing). -/
theorem sub_anti_right (spec : Format) (ss : Sign) (ms : Nat) (es : Int) (hms) (hcs : CanonFin spec ms es)
    (x y : UnpackedFloat) (hx : Canon spec x) (hy : Canon spec y) (hxy : x.le y = true)
    (hnx : (UnpackedFloat.sub spec (.finite ss ms es hms) x).isNaN = false)
    (hny : (UnpackedFloat.sub spec (.finite ss ms es hms) y).isNaN = false) :
    (UnpackedFloat.sub spec (.finite ss ms es hms) y).le (UnpackedFloat.sub spec (.finite ss ms es hms) x) = true := by
  rcases isZF_of_leKind (leKind_of_le hxy) with rfl | rfl | ⟨zx, zy⟩
  · exact le_pos_infinity _ hny
  · exact le_neg_infinity _ hnx
  · exact (add_sub_mono_fin_zf spec ss ms es hms hcs hxy zx zy hx hy).2

/-- sums / differences of canonical numbers are canonical. -/
theorem normalize_canon (spec : Format) (Z : Int) (e : Int) (z : Sign) : Canon spec (normalize spec Z e z) := by
  rcases Int.lt_trichotomy Z 0 with h | h | h
  · rw [normalize_neg _ _ _ _ h]; exact round_canon spec _ _ (by omega) _
  · subst h; rw [normalize_zero]; trivial
  · rw [normalize_pos _ _ _ _ h]; exact round_canon spec _ _ (by omega) _

theorem add_canon (spec : Format) (a x : UnpackedFloat) (ha : Canon spec a) (hx : Canon spec x) :
    Canon spec (UnpackedFloat.add spec a x) := by
  match a, x, ha, hx with
  | .notANumber, _, _, _ => trivial
  | .infinity _, .notANumber, _, _ => trivial
  | .zero _, .notANumber, _, _ => trivial
  | .finite .., .notANumber, _, _ => trivial
  | .infinity s, .infinity s', _, _ => cases s <;> cases s' <;> trivial
  | .infinity _, .finite .., _, _ => trivial
  | .infinity _, .zero _, _, _ => trivial
  | .finite .., .infinity _, _, _ => trivial
  | .zero _, .infinity _, _, _ => trivial
  | .zero s, .zero s', _, _ => cases s <;> cases s' <;> trivial
  | .zero _, .finite .., _, hx => exact hx
  | .finite .., .zero _, ha, _ => exact ha
  | .finite s₁ m₁ e₁ h₁, .finite s₂ m₂ e₂ h₂, _, _ => rw [add_fin]; exact normalize_canon ..

theorem sub_canon (spec : Format) (a x : UnpackedFloat) (ha : Canon spec a) (hx : Canon spec x) :
    Canon spec (UnpackedFloat.sub spec a x) := by
  match a, x, ha, hx with
  | .notANumber, _, _, _ => trivial
  | .infinity _, .notANumber, _, _ => trivial
  | .zero _, .notANumber, _, _ => trivial
  | .finite .., .notANumber, _, _ => trivial
  | .infinity s, .infinity s', _, _ => cases s <;> cases s' <;> trivial
  | .infinity _, .finite .., _, _ => trivial
  | .infinity _, .zero _, _, _ => trivial
  | .finite .., .infinity _, _, _ => trivial
  | .zero _, .infinity _, _, _ => trivial
  | .zero s, .zero s', _, _ => cases s <;> cases s' <;> trivial
  | .zero _, .finite .., _, hx => exact hx
  | .finite .., .zero _, ha, _ => exact ha
  | .finite s₁ m₁ e₁ h₁, .finite s₂ m₂ e₂ h₂, _, _ => rw [sub_fin]; exact normalize_canon ..

/-! ### packing the results -/

theorem repack_cases (spec : Format) (hE : 2 ≤ spec.exponentBits) (r : UnpackedFloat) (hc : Canon spec r) :
    (repack spec r = r ∧ InRange spec r) ∨
      ∃ s m e h, r = .finite s m e h ∧ ¬ InRange spec r ∧ repack spec r = .infinity s := by
  rcases repack_canon spec hE r hc with h | h
  · left
    refine ⟨h, ?_⟩
    have := unpack_inRange spec hE (pack spec r)
    unfold repack at h
    rw [h] at this; exact this
  · exact Or.inr h

theorem repack_not_nan (spec : Format) (hE : 2 ≤ spec.exponentBits) (r : UnpackedFloat) (hc : Canon spec r)
    (h : r.isNaN = false) : (repack spec r).isNaN = false := by
  rcases repack_cases spec hE r hc with ⟨h1, _⟩ | ⟨s, m, e, hm, _, _, h1⟩ <;> rw [h1]
  · exact h
  · rfl

theorem repack_isNaN (spec : Format) (hE : 2 ≤ spec.exponentBits) (r : UnpackedFloat) (hc : Canon spec r) :
    (repack spec r).isNaN = r.isNaN := by
  cases h : r.isNaN
  · exact repack_not_nan spec hE r hc h
  · rw [eq_nan_of_isNaN r h, repack_nan]; rfl

theorem inRange_of_exp_le (spec : Format) {s s' : Sign} {m m' : Nat} {e e' : Int} {h h'} (hle : e ≤ e')
    (hr : InRange spec (.finite s' m' e' h')) : InRange spec (.finite s m e h) := by
  have hr' : e' + (spec.exponentBias : Int) + (spec.mantissaBitsWithoutImplicit : Int) + 1 <
      ((2 ^ spec.exponentBits : Nat) : Int) := hr
  show e + (spec.exponentBias : Int) + (spec.mantissaBitsWithoutImplicit : Int) + 1 <
      ((2 ^ spec.exponentBits : Nat) : Int)
  omega

/-- **the order survives packing** (overflow to `±∞` included). -/
theorem repack_mono (spec : Format) (hE : 2 ≤ spec.exponentBits) (r₁ r₂ : UnpackedFloat)
    (hc₁ : Canon spec r₁) (hc₂ : Canon spec r₂) (h : r₁.le r₂ = true) :
    (repack spec r₁).le (repack spec r₂) = true := by
  have hn₂ : r₂.isNaN = false := isNaN_le_false _ _ h
  have hn₁ : r₁.isNaN = false := by
    match r₁, h with
    | .zero _, _ => rfl
    | .infinity _, _ => rfl
    | .finite .., _ => rfl
  rcases repack_cases spec hE r₁ hc₁ with ⟨h1, i1⟩ | ⟨s₁, m₁, e₁, p₁, rfl, o1, h1⟩ <;>
    rcases repack_cases spec hE r₂ hc₂ with ⟨h2, i2⟩ | ⟨s₂, m₂, e₂, p₂, rfl, o2, h2⟩ <;> rw [h1, h2]
  · exact h
  · -- `r₂` overflows
    cases s₂ with
    | positive => exact le_pos_infinity _ hn₁
    | negative =>
      cases leKind_of_le h with
      | negInf b hb' => rfl
      | negNeg m e hm m' e' hm' hl =>
        exfalso; apply o2
        refine inRange_of_exp_le spec ?_ i1
        rcases hl with hl | ⟨hl, _⟩ <;> omega
  · -- `r₁` overflows
    cases s₁ with
    | negative => exact le_neg_infinity _ (by rw [← h2]; exact repack_not_nan spec hE _ hc₂ hn₂)
    | positive =>
      cases leKind_of_le h with
      | posInf a ha' => rfl
      | posPos m e hm m' e' hm' hl =>
        exfalso; apply o1
        refine inRange_of_exp_le spec ?_ i2
        rcases hl with hl | ⟨hl, _⟩ <;> omega
  · cases s₁ with
    | negative => cases s₂ <;> rfl
    | positive =>
      cases leKind_of_le h with
      | posPos m e hm m' e' hm' hl => rfl

/-! ### `Float` -/

theorem float_mul_unpack (a c : Float) :
    (a * c).toModel.unpack =
      repack Format.binary64 (UnpackedFloat.mul Format.binary64 a.toModel.unpack c.toModel.unpack) := rfl

theorem float_div_unpack (a c : Float) :
    (a / c).toModel.unpack =
      repack Format.binary64 (UnpackedFloat.div Format.binary64 a.toModel.unpack c.toModel.unpack) := rfl

theorem float_add_unpack (a c : Float) :
    (a + c).toModel.unpack =
      repack Format.binary64 (UnpackedFloat.add Format.binary64 a.toModel.unpack c.toModel.unpack) := rfl

theorem float_sub_unpack (a c : Float) :
    (a - c).toModel.unpack =
      repack Format.binary64 (UnpackedFloat.sub Format.binary64 a.toModel.unpack c.toModel.unpack) := rfl

theorem float_zero_unpack : (0 : Float).toModel.unpack = .zero .positive := rfl

theorem float_canon (x : Float) : Canon Format.binary64 x.toModel.unpack :=
  unpack_canon Format.binary64 x.toModel.toBits.toBitVec

theorem mul_nan_right (spec : Format) (a : UnpackedFloat) : UnpackedFloat.mul spec a .notANumber = .notANumber := by
  cases a <;> rfl
theorem div_nan_right (spec : Format) (a : UnpackedFloat) : UnpackedFloat.div spec a .notANumber = .notANumber := by
  cases a <;> rfl
theorem add_nan_right (spec : Format) (a : UnpackedFloat) : UnpackedFloat.add spec a .notANumber = .notANumber := by
  cases a <;> rfl
theorem sub_nan_right (spec : Format) (a : UnpackedFloat) : UnpackedFloat.sub spec a .notANumber = .notANumber := by
  cases a <;> rfl

/-- a binary operation that maps a NaN operand to NaN: a non-NaN packed result has non-NaN operands. -/
theorem operands_not_nan (spec : Format) (op : UnpackedFloat → UnpackedFloat → UnpackedFloat)
    (hl : ∀ c, op .notANumber c = .notANumber) (hr : ∀ a, op a .notANumber = .notANumber)
    (a c : UnpackedFloat) (h : (repack spec (op a c)).isNaN = false) : a.isNaN = false ∧ c.isNaN = false := by
  constructor
  · cases ha : a.isNaN
    · rfl
    · rw [eq_nan_of_isNaN a ha, hl, repack_nan] at h; cases h
  · cases hc : c.isNaN
    · rfl
    · rw [eq_nan_of_isNaN c hc, hr, repack_nan] at h; cases h

/-- NaN propagates through `*`, `/`, `+`, `-` of binary64. -/
theorem not_nan_of_mul_float (a c : Float) (h : Scalar.isNaN (a * c) = false) :
    Scalar.isNaN a = false ∧ Scalar.isNaN c = false :=
  operands_not_nan Format.binary64 (UnpackedFloat.mul Format.binary64) (fun _ => rfl) (mul_nan_right _) _ _ h

theorem not_nan_of_div_float (a c : Float) (h : Scalar.isNaN (a / c) = false) :
    Scalar.isNaN a = false ∧ Scalar.isNaN c = false :=
  operands_not_nan Format.binary64 (UnpackedFloat.div Format.binary64) (fun _ => rfl) (div_nan_right _) _ _ h

theorem not_nan_of_add_float (a c : Float) (h : Scalar.isNaN (a + c) = false) :
    Scalar.isNaN a = false ∧ Scalar.isNaN c = false :=
  operands_not_nan Format.binary64 (UnpackedFloat.add Format.binary64) (fun _ => rfl) (add_nan_right _) _ _ h

theorem not_nan_of_sub_float (a c : Float) (h : Scalar.isNaN (a - c) = false) :
    Scalar.isNaN a = false ∧ Scalar.isNaN c = false :=
  operands_not_nan Format.binary64 (UnpackedFloat.sub Format.binary64) (fun _ => rfl) (sub_nan_right _) _ _ h

/-- **binary64 multiplication by a non-negative number is monotone**: `a ≤ b`, `0 ≤ c` (so `c` may be `±0` or `+∞`)
and neither product a NaN (`±∞ · 0`) ⟹ `a·c ≤ b·c` — after rounding, with underflow and overflow. -/
theorem mul_le_mul_right_float (a b c : Float) (hab : Scalar.le a b = true) (hc : Scalar.le (0 : Float) c = true)
    (hna : Scalar.isNaN (a * c) = false) (hnb : Scalar.isNaN (b * c) = false) :
    Scalar.le (a * c) (b * c) = true := by
  rw [FMO.le_float] at hab hc ⊢
  rw [float_zero_unpack] at hc
  have ca := float_canon a
  have cb := float_canon b
  have cc := float_canon c
  have c1 := mul_canon Format.binary64 _ _ ca cc
  have c2 := mul_canon Format.binary64 _ _ cb cc
  have n1 : (repack Format.binary64 _).isNaN = false := hna
  have n2 : (repack Format.binary64 _).isNaN = false := hnb
  rw [repack_isNaN _ (by decide) _ c1] at n1
  rw [repack_isNaN _ (by decide) _ c2] at n2
  rw [float_mul_unpack, float_mul_unpack]
  exact repack_mono _ (by decide) _ _ c1 c2 (mul_mono _ _ _ _ ca cb cc hab hc n1 n2)

/-- **binary64 division by a positive number is monotone**: `a ≤ b`, `0 < c` (possibly `+∞`) and neither quotient a
NaN (`±∞ / ∞`) ⟹ `a/c ≤ b/c`. (`0 ≤ c` is not enough: `c = −0` reverses the order.) -/
theorem div_le_div_right_float (a b c : Float) (hab : Scalar.le a b = true) (hc : Scalar.lt (0 : Float) c = true)
    (hna : Scalar.isNaN (a / c) = false) (hnb : Scalar.isNaN (b / c) = false) :
    Scalar.le (a / c) (b / c) = true := by
  rw [FMO.le_float] at hab ⊢
  rw [FMO.lt_float, float_zero_unpack] at hc
  have ca := float_canon a
  have cb := float_canon b
  have c1 := div_canon Format.binary64 a.toModel.unpack c.toModel.unpack
  have c2 := div_canon Format.binary64 b.toModel.unpack c.toModel.unpack
  have n1 : (repack Format.binary64 _).isNaN = false := hna
  have n2 : (repack Format.binary64 _).isNaN = false := hnb
  rw [repack_isNaN _ (by decide) _ c1] at n1
  rw [repack_isNaN _ (by decide) _ c2] at n2
  rw [float_div_unpack, float_div_unpack]
  exact repack_mono _ (by decide) _ _ c1 c2 (div_mono _ _ _ _ ca cb hab hc n1 n2)

/-- **binary64 addition is monotone in its right operand**: `x ≤ y` and neither sum a NaN (`∞ − ∞`) ⟹ `s + x ≤ s + y`. -/
theorem add_le_add_left_float (s x y : Float) (hxy : Scalar.le x y = true)
    (hnx : Scalar.isNaN (s + x) = false) (hny : Scalar.isNaN (s + y) = false) :
    Scalar.le (s + x) (s + y) = true := by
  rw [FMO.le_float] at hxy ⊢
  have cs := float_canon s
  have cx := float_canon x
  have cy := float_canon y
  have c1 := add_canon Format.binary64 _ _ cs cx
  have c2 := add_canon Format.binary64 _ _ cs cy
  have n1 : (repack Format.binary64 _).isNaN = false := hnx
  have n2 : (repack Format.binary64 _).isNaN = false := hny
  rw [repack_isNaN _ (by decide) _ c1] at n1
  rw [repack_isNaN _ (by decide) _ c2] at n2
  rw [float_add_unpack, float_add_unpack]
  exact repack_mono _ (by decide) _ _ c1 c2 (add_mono_right _ _ _ _ cs cx cy hxy n1 n2)

/-- **binary64 subtraction from a finite non-zero number is antitone in the subtrahend**: `x ≤ y` ⟹ `s − y ≤ s − x`. -/
theorem sub_le_sub_left_float (s x y : Float) (hs : FMO.isFiniteNonzero s.toModel.unpack = true)
    (hxy : Scalar.le x y = true)
    (hnx : Scalar.isNaN (s - x) = false) (hny : Scalar.isNaN (s - y) = false) :
    Scalar.le (s - y) (s - x) = true := by
  rw [FMO.le_float] at hxy ⊢
  have cs := float_canon s
  have cx := float_canon x
  have cy := float_canon y
  have c1 := sub_canon Format.binary64 _ _ cs cx
  have c2 := sub_canon Format.binary64 _ _ cs cy
  have n1 : (repack Format.binary64 _).isNaN = false := hnx
  have n2 : (repack Format.binary64 _).isNaN = false := hny
  rw [repack_isNaN _ (by decide) _ c1] at n1
  rw [repack_isNaN _ (by decide) _ c2] at n2
  rw [float_sub_unpack, float_sub_unpack]
  refine repack_mono _ (by decide) _ _ c2 c1 ?_
  revert cs n1 n2 c1 c2 hs
  generalize s.toModel.unpack = u
  intro hs cs c1 c2 n1 n2
  match u, hs, cs with
  | .finite ss ms es hms, _, cs => exact sub_anti_right _ ss ms es hms cs _ _ cx cy hxy n1 n2

/-! ### `Float32` -/

theorem float32_mul_unpack (a c : Float32) :
    (a * c).toModel.unpack =
      repack Format.binary32 (UnpackedFloat.mul Format.binary32 a.toModel.unpack c.toModel.unpack) := rfl

theorem float32_div_unpack (a c : Float32) :
    (a / c).toModel.unpack =
      repack Format.binary32 (UnpackedFloat.div Format.binary32 a.toModel.unpack c.toModel.unpack) := rfl

theorem float32_add_unpack (a c : Float32) :
    (a + c).toModel.unpack =
      repack Format.binary32 (UnpackedFloat.add Format.binary32 a.toModel.unpack c.toModel.unpack) := rfl

theorem float32_sub_unpack (a c : Float32) :
    (a - c).toModel.unpack =
      repack Format.binary32 (UnpackedFloat.sub Format.binary32 a.toModel.unpack c.toModel.unpack) := rfl

theorem float32_zero_unpack : (0 : Float32).toModel.unpack = .zero .positive := rfl

theorem float32_canon (x : Float32) : Canon Format.binary32 x.toModel.unpack :=
  unpack_canon Format.binary32 x.toModel.toBits.toBitVec

/-- the same for binary32. -/
theorem not_nan_of_mul_float32 (a c : Float32) (h : Scalar.isNaN (a * c) = false) :
    Scalar.isNaN a = false ∧ Scalar.isNaN c = false :=
  operands_not_nan Format.binary32 (UnpackedFloat.mul Format.binary32) (fun _ => rfl) (mul_nan_right _) _ _ h

theorem not_nan_of_div_float32 (a c : Float32) (h : Scalar.isNaN (a / c) = false) :
    Scalar.isNaN a = false ∧ Scalar.isNaN c = false :=
  operands_not_nan Format.binary32 (UnpackedFloat.div Format.binary32) (fun _ => rfl) (div_nan_right _) _ _ h

theorem not_nan_of_add_float32 (a c : Float32) (h : Scalar.isNaN (a + c) = false) :
    Scalar.isNaN a = false ∧ Scalar.isNaN c = false :=
  operands_not_nan Format.binary32 (UnpackedFloat.add Format.binary32) (fun _ => rfl) (add_nan_right _) _ _ h

theorem not_nan_of_sub_float32 (a c : Float32) (h : Scalar.isNaN (a - c) = false) :
    Scalar.isNaN a = false ∧ Scalar.isNaN c = false :=
  operands_not_nan Format.binary32 (UnpackedFloat.sub Format.binary32) (fun _ => rfl) (sub_nan_right _) _ _ h

/-- **binary32 multiplication by a non-negative number is monotone**: `a ≤ b`, `0 ≤ c` (so `c` may be `±0` or `+∞`)
and neither product a NaN (`±∞ · 0`) ⟹ `a·c ≤ b·c` — after rounding, with underflow and overflow. -/
theorem mul_le_mul_right_float32 (a b c : Float32) (hab : Scalar.le a b = true) (hc : Scalar.le (0 : Float32) c = true)
    (hna : Scalar.isNaN (a * c) = false) (hnb : Scalar.isNaN (b * c) = false) :
    Scalar.le (a * c) (b * c) = true := by
  rw [FMO.le_float32] at hab hc ⊢
  rw [float32_zero_unpack] at hc
  have ca := float32_canon a
  have cb := float32_canon b
  have cc := float32_canon c
  have c1 := mul_canon Format.binary32 _ _ ca cc
  have c2 := mul_canon Format.binary32 _ _ cb cc
  have n1 : (repack Format.binary32 _).isNaN = false := hna
  have n2 : (repack Format.binary32 _).isNaN = false := hnb
  rw [repack_isNaN _ (by decide) _ c1] at n1
  rw [repack_isNaN _ (by decide) _ c2] at n2
  rw [float32_mul_unpack, float32_mul_unpack]
  exact repack_mono _ (by decide) _ _ c1 c2 (mul_mono _ _ _ _ ca cb cc hab hc n1 n2)

/-- **binary32 division by a positive number is monotone**: `a ≤ b`, `0 < c` (possibly `+∞`) and neither quotient a
NaN (`±∞ / ∞`) ⟹ `a/c ≤ b/c`. (`0 ≤ c` is not enough: `c = −0` reverses the order.) -/
theorem div_le_div_right_float32 (a b c : Float32) (hab : Scalar.le a b = true) (hc : Scalar.lt (0 : Float32) c = true)
    (hna : Scalar.isNaN (a / c) = false) (hnb : Scalar.isNaN (b / c) = false) :
    Scalar.le (a / c) (b / c) = true := by
  rw [FMO.le_float32] at hab ⊢
  rw [FMO.lt_float32, float32_zero_unpack] at hc
  have ca := float32_canon a
  have cb := float32_canon b
  have c1 := div_canon Format.binary32 a.toModel.unpack c.toModel.unpack
  have c2 := div_canon Format.binary32 b.toModel.unpack c.toModel.unpack
  have n1 : (repack Format.binary32 _).isNaN = false := hna
  have n2 : (repack Format.binary32 _).isNaN = false := hnb
  rw [repack_isNaN _ (by decide) _ c1] at n1
  rw [repack_isNaN _ (by decide) _ c2] at n2
  rw [float32_div_unpack, float32_div_unpack]
  exact repack_mono _ (by decide) _ _ c1 c2 (div_mono _ _ _ _ ca cb hab hc n1 n2)

/-- **binary32 addition is monotone in its right operand**: `x ≤ y` and neither sum a NaN (`∞ − ∞`) ⟹ `s + x ≤ s + y`. -/
theorem add_le_add_left_float32 (s x y : Float32) (hxy : Scalar.le x y = true)
    (hnx : Scalar.isNaN (s + x) = false) (hny : Scalar.isNaN (s + y) = false) :
    Scalar.le (s + x) (s + y) = true := by
  rw [FMO.le_float32] at hxy ⊢
  have cs := float32_canon s
  have cx := float32_canon x
  have cy := float32_canon y
  have c1 := add_canon Format.binary32 _ _ cs cx
  have c2 := add_canon Format.binary32 _ _ cs cy
  have n1 : (repack Format.binary32 _).isNaN = false := hnx
  have n2 : (repack Format.binary32 _).isNaN = false := hny
  rw [repack_isNaN _ (by decide) _ c1] at n1
  rw [repack_isNaN _ (by decide) _ c2] at n2
  rw [float32_add_unpack, float32_add_unpack]
  exact repack_mono _ (by decide) _ _ c1 c2 (add_mono_right _ _ _ _ cs cx cy hxy n1 n2)

/-- **binary32 subtraction from a finite non-zero number is antitone in the subtrahend**: `x ≤ y` ⟹ `s − y ≤ s − x`. -/
theorem sub_le_sub_left_float32 (s x y : Float32) (hs : FMO.isFiniteNonzero s.toModel.unpack = true)
    (hxy : Scalar.le x y = true)
    (hnx : Scalar.isNaN (s - x) = false) (hny : Scalar.isNaN (s - y) = false) :
    Scalar.le (s - y) (s - x) = true := by
  rw [FMO.le_float32] at hxy ⊢
  have cs := float32_canon s
  have cx := float32_canon x
  have cy := float32_canon y
  have c1 := sub_canon Format.binary32 _ _ cs cx
  have c2 := sub_canon Format.binary32 _ _ cs cy
  have n1 : (repack Format.binary32 _).isNaN = false := hnx
  have n2 : (repack Format.binary32 _).isNaN = false := hny
  rw [repack_isNaN _ (by decide) _ c1] at n1
  rw [repack_isNaN _ (by decide) _ c2] at n2
  rw [float32_sub_unpack, float32_sub_unpack]
  refine repack_mono _ (by decide) _ _ c2 c1 ?_
  revert cs n1 n2 c1 c2 hs
  generalize s.toModel.unpack = u
  intro hs cs c1 c2 n1 n2
  match u, hs, cs with
  | .finite ss ms es hms, _, cs => exact sub_anti_right _ ss ms es hms cs _ _ cx cy hxy n1 n2

/-! ### non-vacuity and sharpness (closed instances, evaluated by the kernel) -/

section Examples
/-- hypotheses of `mul_le_mul_right_float`: ordinary; a negative and a positive factor; underflow to `±0`; overflow. -/
example : Scalar.le (0.1 : Float) 0.3 = true ∧ Scalar.le (0 : Float) 3.7 = true ∧
    Scalar.isNaN ((0.1 : Float) * 3.7) = false ∧ Scalar.isNaN ((0.3 : Float) * 3.7) = false := by decide +kernel
example : Scalar.le (-2.5 : Float) 1e-300 = true ∧ Scalar.le (0 : Float) 1e-300 = true ∧
    Scalar.isNaN ((-2.5 : Float) * 1e-300) = false ∧ Scalar.isNaN ((1e-300 : Float) * 1e-300) = false := by decide +kernel
example : Scalar.le (1e200 : Float) 1e300 = true ∧ Scalar.le (0 : Float) 1e200 = true ∧
    Scalar.isNaN ((1e200 : Float) * 1e200) = false ∧ Scalar.isNaN ((1e300 : Float) * 1e200) = false := by decide +kernel
/-- the NaN side condition is needed: `1 ≤ +∞`, `0 ≤ 0`, but `+∞ · 0` is a NaN. -/
example : Scalar.le (1 : Float) (Float.ofBits 0x7FF0000000000000) = true ∧ Scalar.le (0 : Float) 0 = true ∧
    Scalar.le ((1 : Float) * 0) (Float.ofBits 0x7FF0000000000000 * 0) = false := by decide +kernel
/-- hypotheses of `div_le_div_right_float`; a quotient that is not exact. -/
example : Scalar.le (300 : Float) 600 = true ∧ Scalar.lt (0 : Float) 1000 = true ∧
    Scalar.isNaN ((300 : Float) / 1000) = false ∧ Scalar.isNaN ((600 : Float) / 1000) = false := by decide +kernel
example : Scalar.le (-1 : Float) 2 = true ∧ Scalar.lt (0 : Float) 3 = true ∧
    Scalar.isNaN ((-1 : Float) / 3) = false ∧ Scalar.isNaN ((2 : Float) / 3) = false := by decide +kernel
/-- `0 ≤ c` is not enough for division: `c = −0` satisfies it and reverses the order. -/
example : Scalar.le (-1 : Float) 1 = true ∧ Scalar.le (0 : Float) (Float.ofBits 0x8000000000000000) = true ∧
    Scalar.le ((-1 : Float) / Float.ofBits 0x8000000000000000) ((1 : Float) / Float.ofBits 0x8000000000000000) = false := by
  decide +kernel
/-- hypotheses of `add_le_add_left_float` (cancellation, different binades) and of `sub_le_sub_left_float`. -/
example : Scalar.le (-0.1 : Float) 1e-20 = true ∧ Scalar.isNaN ((0.1 : Float) + -0.1) = false ∧
    Scalar.isNaN ((0.1 : Float) + 1e-20) = false := by decide +kernel
example : FMO.isFiniteNonzero (1 : Float).toModel.unpack = true ∧ Scalar.le (0.3 : Float) 0.6 = true ∧
    Scalar.isNaN ((1 : Float) - 0.3) = false ∧ Scalar.isNaN ((1 : Float) - 0.6) = false := by decide +kernel
example : Scalar.le (0.1 : Float32) 0.3 = true ∧ Scalar.le (0 : Float32) 3.7 = true ∧
    Scalar.isNaN ((0.1 : Float32) * 3.7) = false ∧ Scalar.isNaN ((0.3 : Float32) * 3.7) = false := by decide +kernel
end Examples

end Rosu.FAM
