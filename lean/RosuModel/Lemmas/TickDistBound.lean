/-
  Lemmas/TickDistBound.lean — **interval arithmetic for IEEE binary64** (`Float` of Lean ≥ 4.33, kernel-transparent), on
  top of the monotonicity lemmas of Lemmas/FloatArithMono.lean, and the ranges it gives for the quantities the encoder
  hands to `SliderEventsIter::new` (Props/C01IeeeFuel.lean).

  * `mul_comm_float`: the rounded product is commutative (all doubles, NaN / `±∞` / `±0` included), hence
    `mul_le_mul_left_float` (`c ≤ d`, `0 ≤ x` ⟹ `x·c ≤ x·d`);
  * `div_anti` / **`div_le_div_left_float`**: the rounded quotient is *antitone in a positive denominator*:
    `0 ≤ a`, `0 < c ≤ d` ⟹ `a/d ≤ a/c` (after rounding, with underflow; `FAM` had monotonicity in the numerator only);
  * `PosFin x` (a positive finite double), `posFin_of_bounds`, `mul_posFin_not_nan`, `div_posFin_not_nan`;
  * **`mul_between_float`**: `0 < a ≤ x ≤ b`, `0 < c ≤ y ≤ d` (`b`, `d` finite) ⟹ `a·c ≤ x·y ≤ b·d`;
    **`div_between_float`**: … ⟹ `a/d ≤ x/y ≤ b/c` — the endpoint products / quotients are the *rounded* ones, so closed
    endpoints are evaluated by the kernel;
  * `sub_le_self_float`: `len − m ≤ len` for finite `len ≠ 0` and finite `m ≥ 0`.
-/
import RosuModel.Lemmas.FloatArithMono
import RosuModel.Lemmas.FloatExactOps
import RosuModel.Lemmas.FloatBitsLaws
import RosuModel.Model.Encode
import RosuModel.Model.FloatInst
namespace Rosu.TDB
open Rosu Float.Model Float.Model.UnpackedFloat Rosu.FMR Rosu.FRM Rosu.FAM

/-! ## 1. commutativity of the rounded product -/

theorem sign_mul_comm (s t : Sign) : s * t = t * s := by cases s <;> cases t <;> rfl

/-- `UnpackedFloat.mul` is commutative (every pair of operands). -/
theorem umul_comm (spec : Format) (a b : UnpackedFloat) : UnpackedFloat.mul spec a b = UnpackedFloat.mul spec b a := by
  rcases a with s | _ | s | ⟨s, m, e, hm⟩ <;> rcases b with s' | _ | s' | ⟨s', m', e', hm'⟩ <;>
    first
    | rfl
    | (simp only [UnpackedFloat.mul]; rw [sign_mul_comm]; done)
    | (simp only [UnpackedFloat.mul]; rw [sign_mul_comm s s', Nat.mul_comm m m', Int.add_comm e e'])

/-- **`x * y = y * x` for every pair of doubles.** -/
theorem mul_comm_float (x y : Float) : x * y = y * x := by
  rw [FX.mul_float, FX.mul_float, umul_comm]

/-- **binary64 multiplication by a non-negative number on the left is monotone**. -/
theorem mul_le_mul_left_float (x c d : Float) (hcd : Scalar.le c d = true) (hx : Scalar.le (0 : Float) x = true)
    (hnc : Scalar.isNaN (x * c) = false) (hnd : Scalar.isNaN (x * d) = false) :
    Scalar.le (x * c) (x * d) = true := by
  rw [mul_comm_float x c] at hnc ⊢
  rw [mul_comm_float x d] at hnd ⊢
  exact mul_le_mul_right_float c d x hcd hx hnc hnd

/-! ## 2. the rounded quotient is antitone in a positive denominator -/

/-- the exact quotients `a / d ≤ a / c` for `c ≤ d` (same numerator). -/
theorem valLE_div_left {mc md : Nat} {ec ed : Int} (h : ValLE mc ec md ed) (spec : Format) (ma : Nat) (ea : Int) :
    QLE (divN spec ma ea md ed) md (divT spec ma ea md ed) (divN spec ma ea mc ec) mc (divT spec ma ea mc ec)
      (min (divT spec ma ea md ed) (divT spec ma ea mc ec)) := by
  unfold ValLE at h
  unfold QLE divN
  have hd := divT_le spec ma md ea ed
  have hc := divT_le spec ma mc ea ec
  generalize divT spec ma ea md ed = td at *
  generalize divT spec ma ea mc ec = tc at *
  obtain ⟨G, hG⟩ : ∃ G : Nat, (G : Int) = ea - max ec ed - min td tc := ⟨(ea - max ec ed - min td tc).toNat, by omega⟩
  have e1 : 2 ^ (ea - ed - td).toNat * 2 ^ (td - min td tc).toNat = 2 ^ (ec - min ec ed).toNat * 2 ^ G := by
    rw [← Nat.pow_add, ← Nat.pow_add]; congr 1; omega
  have e2 : 2 ^ (ea - ec - tc).toNat * 2 ^ (tc - min td tc).toNat = 2 ^ (ed - min ec ed).toNat * 2 ^ G := by
    rw [← Nat.pow_add, ← Nat.pow_add]; congr 1; omega
  calc ma * 2 ^ (ea - ed - td).toNat * mc * 2 ^ (td - min td tc).toNat
      = mc * (2 ^ (ea - ed - td).toNat * 2 ^ (td - min td tc).toNat) * ma := by ac_rfl
    _ = mc * 2 ^ (ec - min ec ed).toNat * (2 ^ G * ma) := by rw [e1]; ac_rfl
    _ ≤ md * 2 ^ (ed - min ec ed).toNat * (2 ^ G * ma) := Nat.mul_le_mul_right _ h
    _ = md * (2 ^ (ea - ec - tc).toNat * 2 ^ (tc - min td tc).toNat) * ma := by rw [e2]; ac_rfl
    _ = ma * 2 ^ (ea - ec - tc).toNat * md * 2 ^ (tc - min td tc).toNat := by ac_rfl

/-- a non-negative number: a zero, a positive finite number or `+∞`. -/
theorem nonneg_cases (a : UnpackedFloat) (h : (UnpackedFloat.zero .positive).le a = true) :
    (∃ s, a = .zero s) ∨ (∃ m e hm, a = .finite .positive m e hm) ∨ a = .infinity .positive := by
  match a, h with
  | .zero s, _ => exact Or.inl ⟨s, rfl⟩
  | .finite .positive m e hm, _ => exact Or.inr (Or.inl ⟨m, e, hm, rfl⟩)
  | .infinity .positive, _ => exact Or.inr (Or.inr rfl)

/-- **division of a non-negative number is antitone in a positive denominator** (unpacked level, before packing). -/
theorem div_anti (spec : Format) (a c d : UnpackedFloat) (hc : Canon spec c) (hd : Canon spec d)
    (ha0 : (UnpackedFloat.zero .positive).le a = true)
    (hc0 : (UnpackedFloat.zero .positive).lt c = true) (hcd : c.le d = true)
    (hnc : (UnpackedFloat.div spec a c).isNaN = false) (hnd : (UnpackedFloat.div spec a d).isNaN = false) :
    (UnpackedFloat.div spec a d).le (UnpackedFloat.div spec a c) = true := by
  rcases pos_cases c hc0 with ⟨mc, ec, hmc, rfl⟩ | rfl
  · -- `c` finite positive; `d` finite positive or `+∞`
    cases leKind_of_le hcd with
    | posInf _ _ =>
      rcases nonneg_cases a ha0 with ⟨s, rfl⟩ | ⟨m, e, hm, rfl⟩ | rfl
      · rfl
      · exact le_of_nonpos_nonneg (u := .zero _) trivial (div_fin_pos_shape spec .positive m mc e ec hm hmc).2.nonneg
      · cases hnd
    | posPos _ _ _ md ed hmd hl =>
      rcases nonneg_cases a ha0 with ⟨s, rfl⟩ | ⟨m, e, hm, rfl⟩ | rfl
      · rfl
      · rw [(div_fin_pos_shape spec .positive m md e ed hm hmd).1, (div_fin_pos_shape spec .positive m mc e ec hm hmc).1]
        exact rwa_mono spec .positive _ md _ mc _ _ _ hmd hmc (Int.min_le_left _ _) (Int.min_le_right _ _)
          (valLE_div_left ((lexLE_iff_valLE hc hd).mp hl) spec m e)
          (div_tgt_ge spec m md e ed hm hmd) (div_tgt_ge spec m mc e ec hm hmc)
      · rfl
  · -- `c = +∞`, so `d = +∞`
    cases leKind_of_le hcd with
    | posInf _ _ =>
      rcases nonneg_cases a ha0 with ⟨s, rfl⟩ | ⟨m, e, hm, rfl⟩ | rfl
      · rfl
      · rfl
      · cases hnd

/-- **binary64 division of a non-negative number is antitone in a positive denominator**: `0 ≤ a`, `0 < c ≤ d` and
neither quotient a NaN (`∞/∞`) ⟹ `a/d ≤ a/c` — after rounding, with underflow to `+0`. -/
theorem div_le_div_left_float (a c d : Float) (ha : Scalar.le (0 : Float) a = true)
    (hc : Scalar.lt (0 : Float) c = true) (hcd : Scalar.le c d = true)
    (hnc : Scalar.isNaN (a / c) = false) (hnd : Scalar.isNaN (a / d) = false) :
    Scalar.le (a / d) (a / c) = true := by
  rw [FMO.le_float] at ha hcd ⊢
  rw [FMO.lt_float, float_zero_unpack] at hc
  rw [float_zero_unpack] at ha
  have cc := float_canon c
  have cd := float_canon d
  have c1 := div_canon Format.binary64 a.toModel.unpack d.toModel.unpack
  have c2 := div_canon Format.binary64 a.toModel.unpack c.toModel.unpack
  have n1 : (repack Format.binary64 _).isNaN = false := hnd
  have n2 : (repack Format.binary64 _).isNaN = false := hnc
  rw [repack_isNaN _ (by decide) _ c1] at n1
  rw [repack_isNaN _ (by decide) _ c2] at n2
  rw [float_div_unpack, float_div_unpack]
  exact repack_mono _ (by decide) _ _ c1 c2 (div_anti _ _ _ _ cc cd ha hc hcd n2 n1)

/-! ## 3. positive finite doubles -/

/-- a positive finite unpacked value. -/
def posFinU : UnpackedFloat → Bool
  | .finite .positive .. => true
  | _ => false

/-- a positive finite double (decidable on closed terms: `by decide +kernel`). -/
abbrev PosFin (x : Float) : Prop := posFinU x.toModel.unpack = true

theorem posFinU_cases {u : UnpackedFloat} (h : posFinU u = true) : ∃ m e hm, u = .finite .positive m e hm := by
  match u, h with
  | .finite .positive m e hm, _ => exact ⟨m, e, hm, rfl⟩

theorem PosFin.pos {x : Float} (h : PosFin x) : Scalar.lt (0 : Float) x = true := by
  rw [FMO.lt_float, float_zero_unpack]
  obtain ⟨m, e, hm, hu⟩ := posFinU_cases h
  rw [hu]; rfl

theorem PosFin.not_nan {x : Float} (h : PosFin x) : Scalar.isNaN x = false := (FMO.not_nan_of_lt h.pos).2

theorem PosFin.nonneg {x : Float} (h : PosFin x) : Scalar.le (0 : Float) x = true := FMO.le_of_lt _ _ h.pos

theorem PosFin.finiteNonzero {x : Float} (h : PosFin x) : FMO.isFiniteNonzero x.toModel.unpack = true := by
  obtain ⟨m, e, hm, hu⟩ := posFinU_cases h
  rw [hu]; rfl

theorem PosFin.finite {x : Float} (h : PosFin x) : x.toModel.unpack.isFinite = true := by
  obtain ⟨m, e, hm, hu⟩ := posFinU_cases h
  rw [hu]; rfl

/-- a positive number not above a positive finite one is positive finite. -/
theorem posFin_of_bounds (x b : Float) (hx : Scalar.lt (0 : Float) x = true) (hxb : Scalar.le x b = true)
    (hb : PosFin b) : PosFin x := by
  rw [FMO.lt_float, float_zero_unpack] at hx
  rw [FMO.le_float] at hxb
  obtain ⟨m, e, hm, hu⟩ := posFinU_cases hb
  rw [hu] at hxb
  show posFinU x.toModel.unpack = true
  rcases pos_cases _ hx with ⟨m', e', hm', h'⟩ | h'
  · rw [h']; rfl
  · rw [h'] at hxb; cases hxb

/-- the product of two positive finite doubles is a number (possibly `+0` by underflow or `+∞` by overflow). -/
theorem mul_posFin_not_nan (x y : Float) (hx : PosFin x) (hy : PosFin y) : Scalar.isNaN (x * y) = false := by
  show (x * y).toModel.unpack.isNaN = false
  rw [float_mul_unpack, repack_isNaN _ (by decide) _ (mul_canon Format.binary64 _ _ (float_canon x) (float_canon y))]
  obtain ⟨m, e, hm, hu⟩ := posFinU_cases hx
  obtain ⟨m', e', hm', hu'⟩ := posFinU_cases hy
  rw [hu, hu']
  exact FMO.roundWithAccuracy_not_nan _ _ _ _ _

/-- the quotient of two positive finite doubles is a number. -/
theorem div_posFin_not_nan (x y : Float) (hx : PosFin x) (hy : PosFin y) : Scalar.isNaN (x / y) = false :=
  FMO.isNaN_div_float x y hx.finiteNonzero hy.not_nan

/-! ## 4. intervals `0 < lo ≤ x ≤ hi < ∞` -/

/-- `0 < lo ≤ x ≤ hi`, `hi` finite. -/
structure Btw (lo hi x : Float) : Prop where
  pos : Scalar.lt (0 : Float) lo = true
  lo_le : Scalar.le lo x = true
  le_hi : Scalar.le x hi = true
  fin : PosFin hi

/-- the side conditions on closed endpoints, as one check (`by decide +kernel`). -/
def okB (lo hi : Float) : Bool := Scalar.lt (0 : Float) lo && posFinU hi.toModel.unpack

theorem okB_spec {lo hi : Float} (h : okB lo hi = true) : Scalar.lt (0 : Float) lo = true ∧ PosFin hi := by
  unfold okB at h
  rw [Bool.and_eq_true] at h
  exact h

namespace Btw
variable {lo hi x lo' hi' y : Float}

theorem x_pos (h : Btw lo hi x) : Scalar.lt (0 : Float) x = true := FMO.lt_of_lt_of_le _ _ _ h.pos h.lo_le
theorem x_posFin (h : Btw lo hi x) : PosFin x := posFin_of_bounds x hi h.x_pos h.le_hi h.fin
theorem lo_posFin (h : Btw lo hi x) : PosFin lo := posFin_of_bounds lo hi h.pos (FMO.le_trans _ _ _ h.lo_le h.le_hi) h.fin
theorem x_not_nan (h : Btw lo hi x) : Scalar.isNaN x = false := h.x_posFin.not_nan

/-- a closed positive finite constant. -/
theorem const (c : Float) (h : okB c c = true) : Btw c c c :=
  ⟨(okB_spec h).1, FMO.le_refl _ (okB_spec h).2.not_nan, FMO.le_refl _ (okB_spec h).2.not_nan, (okB_spec h).2⟩

/-- from the two comparisons and the check on the endpoints. -/
theorem of_le (h1 : Scalar.le lo x = true) (h2 : Scalar.le x hi = true) (h : okB lo hi = true) : Btw lo hi x :=
  ⟨(okB_spec h).1, h1, h2, (okB_spec h).2⟩

/-- widen an interval. -/
theorem weaken (h : Btw lo hi x) (h1 : Scalar.le lo' lo = true) (h2 : Scalar.le hi hi' = true)
    (hok : okB lo' hi' = true) : Btw lo' hi' x :=
  ⟨(okB_spec hok).1, FMO.le_trans _ _ _ h1 h.lo_le, FMO.le_trans _ _ _ h.le_hi h2, (okB_spec hok).2⟩

/-- **the rounded product of two bounded positive numbers**: `a·c ≤ x·y ≤ b·d`. -/
theorem mul_le (hx : Btw lo hi x) (hy : Btw lo' hi' y) :
    Scalar.le (lo * lo') (x * y) = true ∧ Scalar.le (x * y) (hi * hi') = true := by
  have pa := hx.lo_posFin
  have px := hx.x_posFin
  have pb := hx.fin
  have pc := hy.lo_posFin
  have py := hy.x_posFin
  have pd := hy.fin
  have s1 := mul_le_mul_right_float lo x lo' hx.lo_le pc.nonneg (mul_posFin_not_nan _ _ pa pc) (mul_posFin_not_nan _ _ px pc)
  have s2 := mul_le_mul_left_float x lo' y hy.lo_le px.nonneg (mul_posFin_not_nan _ _ px pc) (mul_posFin_not_nan _ _ px py)
  have s3 := mul_le_mul_right_float x hi y hx.le_hi py.nonneg (mul_posFin_not_nan _ _ px py) (mul_posFin_not_nan _ _ pb py)
  have s4 := mul_le_mul_left_float hi y hi' hy.le_hi pb.nonneg (mul_posFin_not_nan _ _ pb py) (mul_posFin_not_nan _ _ pb pd)
  exact ⟨FMO.le_trans _ _ _ s1 s2, FMO.le_trans _ _ _ s3 s4⟩

/-- … as an interval, once the closed endpoints are checked (`0 < a·c`: no underflow; `b·d` finite: no overflow). -/
theorem mul (hx : Btw lo hi x) (hy : Btw lo' hi' y) (hok : okB (lo * lo') (hi * hi') = true) :
    Btw (lo * lo') (hi * hi') (x * y) :=
  of_le (mul_le hx hy).1 (mul_le hx hy).2 hok

/-- **the rounded quotient of two bounded positive numbers**: `a/d ≤ x/y ≤ b/c`. -/
theorem div_le (hx : Btw lo hi x) (hy : Btw lo' hi' y) :
    Scalar.le (lo / hi') (x / y) = true ∧ Scalar.le (x / y) (hi / lo') = true := by
  have pa := hx.lo_posFin
  have px := hx.x_posFin
  have pb := hx.fin
  have pc := hy.lo_posFin
  have py := hy.x_posFin
  have pd := hy.fin
  have s1 := div_le_div_right_float lo x hi' hx.lo_le pd.pos (div_posFin_not_nan _ _ pa pd) (div_posFin_not_nan _ _ px pd)
  have s2 := div_le_div_left_float x y hi' px.nonneg py.pos hy.le_hi (div_posFin_not_nan _ _ px py)
    (div_posFin_not_nan _ _ px pd)
  have s3 := div_le_div_right_float x hi y hx.le_hi py.pos (div_posFin_not_nan _ _ px py) (div_posFin_not_nan _ _ pb py)
  have s4 := div_le_div_left_float hi lo' y pb.nonneg pc.pos hy.lo_le (div_posFin_not_nan _ _ pb pc)
    (div_posFin_not_nan _ _ pb py)
  exact ⟨FMO.le_trans _ _ _ s1 s2, FMO.le_trans _ _ _ s3 s4⟩

theorem div (hx : Btw lo hi x) (hy : Btw lo' hi' y) (hok : okB (lo / hi') (hi / lo') = true) :
    Btw (lo / hi') (hi / lo') (x / y) :=
  of_le (div_le hx hy).1 (div_le hx hy).2 hok

end Btw

/-- `clamp x lo hi` of a number lies in `[lo, hi]` (for `0 < lo`, `hi` finite, `¬ hi < lo`). -/
theorem clamp_btw (x lo hi : Float) (hx : Scalar.isNaN x = false) (hok : okB lo hi = true)
    (hord : Scalar.lt hi lo = false) : Btw lo hi (Scalar.clamp x lo hi) := by
  obtain ⟨h1, h2⟩ := FMO.clamp_between x lo hi hx (FMO.not_nan_of_lt (okB_spec hok).1).2 (okB_spec hok).2.not_nan hord
  exact Btw.of_le h1 h2 hok

/-! ## 5. `len − m ≤ len` -/

/-- for a finite non-zero `len` and a finite `m ≥ 0`: `len − m` is a number `≤ len` (monotonicity of the rounded
subtraction, `len − 0 = len`). -/
theorem sub_le_self_float (len m : Float) (hl : FMO.isFiniteNonzero len.toModel.unpack = true)
    (hm0 : Scalar.le (0 : Float) m = true) (hmf : m.toModel.unpack.isFinite = true) :
    Scalar.le (len - m) len = true := by
  have hlf : len.toModel.unpack.isFinite = true := by
    revert hl; generalize len.toModel.unpack = u; intro hl
    rcases u with s | _ | s | ⟨s, mm, e, hm⟩ <;> first | rfl | cases hl
  have n1 : Scalar.isNaN (len - m) = false := by
    show (len - m).toModel.unpack.isNaN = false
    rw [float_sub_unpack, repack_isNaN _ (by decide) _
      (sub_canon Format.binary64 _ _ (float_canon len) (float_canon m))]
    exact FB.sub_finite_not_nan _ _ _ hlf hmf
  have n0 : Scalar.isNaN (len - 0) = false := by
    rw [FX.sub_zero_float]; exact FX.not_nan_of_finite64 len hlf
  have := sub_le_sub_left_float len 0 m hl hm0 n0 n1
  rw [FX.sub_zero_float] at this
  exact this

/-! ## 6. the quantities of the finaliser and of the encoder (`F = Float`, `P = Float32`)

Ranges of the factors, for decoded maps (Props/C01IeeeFuel.lean): slider multiplier `[0.4, 3.6]`, tick rate `[0.5, 8]`,
beat length `[6, 60000]` (default `1000`), slider velocity `[0.1, 10]` (default `1`). -/

/-- `f64::from(BASE_SCORING_DIST)`. -/
abbrev up100 : Float := (Cvt.up (100 : Float32) : Float)

theorem up100_eq : up100 = 100 := by decide +kernel

/-- the `bpm_multiplier` of `get_precision_adjusted_beat_len` lies in `[0.1, 100]` for **every** stored slider velocity
(NaN, `0`, `±∞` included: then it is `1`) and every mode; hence the adjusted beat length in `[6·0.1, 60000·100]`. -/
theorem precisionAdjustedBeatLen_btw (sv beatLen : Float) (mode : GameMode) (hb : Btw 6 60000 beatLen) :
    Btw ((6 : Float) * 0.1) (60000 * 100) (precisionAdjustedBeatLen sv beatLen mode) := by
  unfold precisionAdjustedBeatLen
  simp only []
  refine Btw.mul hb ?_ (by decide +kernel)
  split
  · rename_i hlt
    have hnn : Scalar.isNaN (-((-100 : Float) / sv)) = false := by
      rw [FMO.isNaN_neg_float]; exact (FMO.not_nan_of_lt hlt).1
    have h100 : Btw (100 : Float) 100 100 := Btw.const _ (by decide +kernel)
    cases mode <;> simp only []
    · exact (Btw.div (clamp_btw _ 10 10000 hnn (by decide +kernel) (by decide +kernel)) h100 (by decide +kernel)).weaken
        (by decide +kernel) (by decide +kernel) (by decide +kernel)
    · exact (Btw.div (clamp_btw _ 10 1000 hnn (by decide +kernel) (by decide +kernel)) h100 (by decide +kernel)).weaken
        (by decide +kernel) (by decide +kernel) (by decide +kernel)
    · exact (Btw.div (clamp_btw _ 10 10000 hnn (by decide +kernel) (by decide +kernel)) h100 (by decide +kernel)).weaken
        (by decide +kernel) (by decide +kernel) (by decide +kernel)
    · exact (Btw.div (clamp_btw _ 10 1000 hnn (by decide +kernel) (by decide +kernel)) h100 (by decide +kernel)).weaken
        (by decide +kernel) (by decide +kernel) (by decide +kernel)
  · exact (Btw.const (1 : Float) (by decide +kernel)).weaken (by decide +kernel) (by decide +kernel) (by decide +kernel)

/-- the endpoints of the velocity range: `100·0.4 / (60000·100) ≈ 6.67e-6` and `100·3.6 / (6·0.1) ≈ 600`. -/
def velLo : Float := up100 * 0.4 / (60000 * 100)
def velHi : Float := up100 * 3.6 / (6 * 0.1)

/-- **the velocity the finaliser stores in a slider**: `100·SM / get_precision_adjusted_beat_len(sv, beat_len, mode)`
for `SM ∈ [0.4, 3.6]`, `beat_len ∈ [6, 60000]`, any `sv`, any mode, lies in `[velLo, velHi]`. -/
theorem velocity_btw (sm sv beatLen : Float) (mode : GameMode) (hsm : Btw 0.4 3.6 sm) (hb : Btw 6 60000 beatLen) :
    Btw velLo velHi (up100 * sm / precisionAdjustedBeatLen sv beatLen mode) :=
  Btw.div (Btw.mul (Btw.const up100 (by decide +kernel)) hsm (by decide +kernel))
    (precisionAdjustedBeatLen_btw sv beatLen mode hb) (by decide +kernel)

/-- `1 / sv` (format versions below 8) or `1`, for `sv ∈ [0.1, 10]`. -/
theorem mult_btw (old : Prop) [Decidable old] (sv : Float) (hsv : Btw 0.1 10 sv) :
    Btw ((1 : Float) / 10) (1 / 0.1) (if old then Scalar.recip sv else 1) := by
  split
  · exact Btw.div (Btw.const (1 : Float) (by decide +kernel)) hsv (by decide +kernel)
  · exact (Btw.const (1 : Float) (by decide +kernel)).weaken (by decide +kernel) (by decide +kernel) (by decide +kernel)

/-- the endpoints for osu! mode (`slider_events`): `≈ 5e-7` and `7.2e8`. -/
def osuLo : Float := velLo * 6 / 8 * (1 / 10)
def osuHi : Float := velHi * 60000 / 0.5 * (1 / 0.1)

/-- **`tick_dist = velocity · beat_len / slider_tick_rate · mult`** of `slider_events`. -/
theorem osu_tickDist_btw (vel beatLen tr mult : Float) (hv : Btw velLo velHi vel) (hb : Btw 6 60000 beatLen)
    (htr : Btw 0.5 8 tr) (hm : Btw ((1 : Float) / 10) (1 / 0.1) mult) :
    Btw osuLo osuHi (vel * beatLen / tr * mult) :=
  Btw.mul (Btw.div (Btw.mul hv hb (by decide +kernel)) htr (by decide +kernel)) hm (by decide +kernel)

/-- the endpoints for catch mode (`juicestream_events`): `0.5` and `7200`. -/
def catchLo : Float := up100 * 0.4 / 8 * (1 / 10)
def catchHi : Float := up100 * 3.6 / 0.5 * (1 / 0.1)

/-- **`tick_dist = 100 · SM / slider_tick_rate · mult`** of `juicestream_events`. -/
theorem catch_tickDist_btw (sm tr mult : Float) (hsm : Btw 0.4 3.6 sm) (htr : Btw 0.5 8 tr)
    (hm : Btw ((1 : Float) / 10) (1 / 0.1) mult) :
    Btw catchLo catchHi (up100 * sm / tr * mult) :=
  Btw.mul (Btw.div (Btw.mul (Btw.const up100 (by decide +kernel)) hsm (by decide +kernel)) htr (by decide +kernel)) hm
    (by decide +kernel)

/-- the closed endpoints in decimal: `6.6e-6 ≤ velLo`, `velHi ≤ 601`, `4.9e-7 ≤ osuLo`, `osuHi ≤ 7.3e8`,
`catchLo = 0.5`, `catchHi = 7200`. -/
theorem endpoints_decimal :
    Scalar.le (6.6e-6 : Float) velLo = true ∧ Scalar.le velHi (601 : Float) = true ∧
    Scalar.le (4.9e-7 : Float) osuLo = true ∧ Scalar.le osuHi (7.3e8 : Float) = true ∧
    catchLo = 0.5 ∧ catchHi = 7200 := by decide +kernel

/-- `min_dist_from_end = velocity · 10` is a finite number `≥ 0`. -/
theorem minDist_finite (vel : Float) (hv : Btw velLo velHi vel) :
    Scalar.le (0 : Float) (vel * 10) = true ∧ (vel * 10).toModel.unpack.isFinite = true := by
  have h := Btw.mul hv (Btw.const (10 : Float) (by decide +kernel)) (by decide +kernel)
  exact ⟨h.x_posFin.nonneg, h.x_posFin.finite⟩

end Rosu.TDB
