/-
  Lemmas/RtTimelineMain.lean — the timing round trip, assembled: `addGroup_step` (one group's lines, added by the decoder:
  the timing point is appended, the effective velocity / kiai change exactly from the group's key on, to the group's
  properties), `dec_agree` (induction over the groups: the re-decoded collection has the same timing points and the same
  effective values at every key), `timing_roundtrip` (from the decoder's state machine run over the values written).
-/
import RosuModel.Lemmas.RtTimelineStep
import RosuModel.Lemmas.RtTimingDecoded
namespace Rosu
namespace RtTiming
open Rosu Encode Scalar
set_option linter.unusedSectionVars false

variable {F : Type} [Scalar F]

/-! ### redundancy means equal values (exact arithmetic) -/

theorem dRed_sv (E : EpsLaws F) (p e : DifficultyPoint F) (h : p.isRedundant e = true) :
    p.sliderVelocity = e.sliderVelocity := by
  simp only [DifficultyPoint.isRedundant, Bool.and_eq_true] at h
  exact E.eq_of_close _ _ h.2

theorem eRed_scroll (E : EpsLaws F) (p e : EffectPoint F) (h : p.isRedundant e = true) : p.scrollSpeed = e.scrollSpeed := by
  simp only [EffectPoint.isRedundant, Bool.and_eq_true] at h
  exact E.eq_of_close _ _ h.2

theorem eRed_kiai (p e : EffectPoint F) (h : p.isRedundant e = true) : p.kiai = e.kiai := by
  simp only [EffectPoint.isRedundant, Bool.and_eq_true, beq_iff_eq] at h
  exact h.1

theorem effectPoint_fields (mode : GameMode) (l : TpLine F) :
    (l.effectPoint mode).time = l.time ∧ (l.effectPoint mode).kiai = l.kiai ∧
    (l.effectPoint mode).scrollSpeed =
      (match mode with
       | .taiko | .mania => clamp l.speedMultiplier (0.01 : F) (10 : F)
       | _ => 1) := by
  cases mode <;> exact ⟨rfl, rfl, rfl⟩

/-! ### one group -/

variable {P : Type} [Scalar P]

/-- keys of the three lists the timelines are read from, all at most `B`. -/
structure KeysLe (cp : ControlPoints F) (B : Int) : Prop where
  t : ∀ p ∈ cp.timingPoints, p.key ≤ B
  d : ∀ p ∈ cp.difficultyPoints, p.key ≤ B
  e : ∀ p ∈ cp.effectPoints, p.key ≤ B

/-- **addGroup_step.** A group (key `T`, beyond every key the decoder has stored) that wrote at least one line; the decoder
adds the group resolved from the values read. Then: the group's timing point (if any) is appended to the timing points; the
effective slider velocity (scroll speed) and kiai flag change exactly from `T` on, to the values of the group's properties;
no key beyond `T` is stored. -/
theorem addGroup_step (E : EpsLaws F) {mode : GameMode} {cp : ControlPoints F} (H : TimelineHyps mode cp) (g : Group F)
    (hwf : ∀ t, g.timing = some t → g.time = t.time ∧ t ∈ cp.timingPoints) (last : Props F) (dflt : SampleBank)
    (cpd : ControlPoints F) (B : Int) (hk : KeysLe cpd B) (hB : B < gkey g)
    (hne : (groupStep mode cp g last).1 ≠ []) :
    let props := Props.new g.time cp last g.timing.isSome mode
    let cpd' := C12.addGroup mode cpd ((groupStep mode cp g last).1.map (Entry.read dflt))
    cpd'.timingPoints = cpd.timingPoints ++ g.timing.toList ∧
    (∀ k, svK mode cpd' k = if k < gkey g then svK mode cpd k else props.sliderVelocity) ∧
    (∀ k, kiaiK cpd'.effectPoints k = if k < gkey g then kiaiK cpd.effectPoints k else flagKiai props.effectFlags) ∧
    KeysLe cpd' (gkey g) := by
  intro props cpd'
  obtain ⟨w1, w2, w3⟩ := winner_facts E H g hwf last dflt
  obtain ⟨l1, l2, l3⟩ := flushInto_lists cpd (C12.resolve mode ((groupStep mode cp g last).1.map (Entry.read dflt)))
  have hres := resolve_step mode cp g last dflt hne
  rw [hres] at l1 l2 l3
  simp only [optAdd] at l2 l3
  have hT : cpd'.timingPoints = cpd.timingPoints ++ g.timing.toList := by
    show (flushInto cpd (C12.resolve mode _)).timingPoints = _
    rw [hres, l1]
    cases ht : g.timing with
    | none => simp [optAdd]
    | some t =>
      obtain ⟨h1, h2⟩ := hwf t ht
      have hclamp := (H.beat t h2).1
      obtain ⟨_, r2, _⟩ := timing_entry_rt mode H.sorted h2 hclamp last dflt
      simp only [Option.map_some, optAdd, Option.toList_some, Option.isSome_some, h1]
      rw [r2]
      apply C13.insertOrReplace_append
      intro y hy
      have := hk.t y hy
      have e : TimingPoint.key t = gkey g := by unfold TimingPoint.key gkey; rw [h1]
      omega
  have kd : DifficultyPoint.key (winnerOf mode cp g last dflt).difficultyPoint = gkey g := by
    show totalKey (winnerOf mode cp g last dflt).time = _
    rw [w1]; rfl
  have ke : EffectPoint.key ((winnerOf mode cp g last dflt).effectPoint mode) = gkey g := by
    show totalKey ((winnerOf mode cp g last dflt).effectPoint mode).time = _
    rw [(effectPoint_fields mode _).1, w1]; rfl
  have hD : ∀ k, dsvK cpd'.difficultyPoints k =
      if k < gkey g then dsvK cpd.difficultyPoints k else clamp props.sliderVelocity (0.1 : F) (10 : F) := by
    intro k
    show dsvK (flushInto cpd (C12.resolve mode _)).difficultyPoints k = _
    rw [hres, l2]
    unfold dsvK
    rw [add_beyond_value _ _ _ (dRed_sv E) _ _ (fun y hy => by rw [kd]; have := hk.d y hy; omega), kd]
    simp only [TpLine.difficultyPoint, DifficultyPoint.new, w2]
    rfl
  have hEs : ∀ k, scrollK cpd'.effectPoints k =
      if k < gkey g then scrollK cpd.effectPoints k else ((winnerOf mode cp g last dflt).effectPoint mode).scrollSpeed := by
    intro k
    show scrollK (flushInto cpd (C12.resolve mode _)).effectPoints k = _
    rw [hres, l3]
    unfold scrollK
    rw [add_beyond_value _ _ _ (eRed_scroll E) _ _ (fun y hy => by rw [ke]; have := hk.e y hy; omega), ke]
  have hEk : ∀ k, kiaiK cpd'.effectPoints k =
      if k < gkey g then kiaiK cpd.effectPoints k else flagKiai props.effectFlags := by
    intro k
    show kiaiK (flushInto cpd (C12.resolve mode _)).effectPoints k = _
    rw [hres, l3]
    unfold kiaiK
    rw [add_beyond_value _ _ _ eRed_kiai _ _ (fun y hy => by rw [ke]; have := hk.e y hy; omega), ke,
      (effectPoint_fields mode _).2.1, w3]
  have hfix := (H.sv props.sliderVelocity (by
    show (Props.new g.time cp last g.timing.isSome mode).sliderVelocity ∈ _
    rw [(props_new_fields g.time cp last g.timing.isSome mode).1]
    exact svFor_mem mode cp g.time)).2
  refine ⟨hT, ?_, hEk, ⟨?_, ?_, ?_⟩⟩
  · intro k
    have hs := (effectPoint_fields mode (winnerOf mode cp g last dflt)).2.2
    cases mode
    · show dsvK _ k = if k < gkey g then dsvK _ k else _
      rw [hD k]; simp only [] at hfix; rw [hfix]
    · show scrollK _ k = if k < gkey g then scrollK _ k else _
      rw [hEs k, hs, w2]; simp only [] at hfix; rw [hfix]
    · show dsvK _ k = if k < gkey g then dsvK _ k else _
      rw [hD k]; simp only [] at hfix; rw [hfix]
    · show scrollK _ k = if k < gkey g then scrollK _ k else _
      rw [hEs k, hs, w2]; simp only [] at hfix; rw [hfix]
  · intro p hp
    rw [hT] at hp
    rcases List.mem_append.mp hp with hp | hp
    · have := hk.t p hp; omega
    · cases ht : g.timing with
      | none => rw [ht] at hp; cases hp
      | some t =>
        rw [ht] at hp
        simp only [Option.toList_some, List.mem_singleton] at hp
        obtain ⟨h1, _⟩ := hwf t ht
        rw [hp]
        show totalKey t.time ≤ totalKey g.time
        rw [h1]
        omega
  · intro p hp
    have hp' : p ∈ (flushInto cpd (C12.resolve mode _)).difficultyPoints := hp
    rw [hres, l2] at hp'
    rcases addChecked_keys _ _ _ _ p hp' with h | h
    · have := hk.d p h; omega
    · rw [h, kd]; omega
  · intro p hp
    have hp' : p ∈ (flushInto cpd (C12.resolve mode _)).effectPoints := hp
    rw [hres, l3] at hp'
    rcases addChecked_keys _ _ _ _ p hp' with h | h
    · have := hk.e p h; omega
    · rw [h, ke]; omega

/-! ### all groups -/

/-- `k` is the key of a stored point of some kind. -/
def IsKey (cp : ControlPoints F) (k : Int) : Prop :=
  (∃ p ∈ cp.timingPoints, p.key = k) ∨ (∃ p ∈ cp.difficultyPoints, p.key = k) ∨ (∃ p ∈ cp.effectPoints, p.key = k) ∨
  (∃ p ∈ cp.samplePoints, p.key = k)

/-- the effective values of a sorted collection do not change while no stored key is crossed. -/
theorem truth_const {mode : GameMode} {cp : ControlPoints F} (hs : C13.Sorted cp) (T k : Int) (hTk : T ≤ k)
    (hcov : ∀ x, IsKey cp x → x ≤ T ∨ k < x) :
    svK mode cp k = svK mode cp T ∧ kiaiK cp.effectPoints k = kiaiK cp.effectPoints T := by
  have hd : lookupChecked DifficultyPoint.key k cp.difficultyPoints = lookupChecked DifficultyPoint.key T cp.difficultyPoints := by
    apply lookup_const hs.difficulty
    intro p hp
    rcases hcov p.key (Or.inr (Or.inl ⟨p, hp, rfl⟩)) with h | h
    · constructor <;> intro <;> omega
    · constructor <;> intro <;> omega
  have he : lookupChecked EffectPoint.key k cp.effectPoints = lookupChecked EffectPoint.key T cp.effectPoints := by
    apply lookup_const hs.effect
    intro p hp
    rcases hcov p.key (Or.inr (Or.inr (Or.inl ⟨p, hp, rfl⟩))) with h | h
    · constructor <;> intro <;> omega
    · constructor <;> intro <;> omega
  refine ⟨?_, by unfold kiaiK valueAt; rw [he]⟩
  cases mode
  · show dsvK _ k = dsvK _ T
    unfold dsvK valueAt; rw [hd]
  · show scrollK _ k = scrollK _ T
    unfold scrollK valueAt; rw [he]
  · show dsvK _ k = dsvK _ T
    unfold dsvK valueAt; rw [hd]
  · show scrollK _ k = scrollK _ T
    unfold scrollK valueAt; rw [he]

/-- the properties of a group carry the true effective values at the group's key. -/
theorem props_truth (mode : GameMode) (cp : ControlPoints F) (g : Group F) (last : Props F) (upd : Bool) :
    (Props.new g.time cp last upd mode).sliderVelocity = svK mode cp (gkey g) ∧
    flagKiai (Props.new g.time cp last upd mode).effectFlags = kiaiK cp.effectPoints (gkey g) := by
  obtain ⟨k1, k2, _⟩ := inherited_props mode cp g.time last upd
  exact ⟨k2.trans (svFor_eq_svK mode cp g.time), k1.trans (kiaiAt_eq_kiaiK cp g.time)⟩

/-- **dec_agree.** Induction over the groups (strictly increasing keys, all beyond `B`; every stored key of the original is
`≤ B` or a group key): if the decoder's collection so far stores no key beyond `B`, agrees with the original below the
remaining groups, and — once a line has been written — has `last_props`' velocity and kiai in effect from `B` on, then after
all groups it agrees with the original at every key and its timing points are the old ones plus the groups' timing points. -/
theorem dec_agree (E : EpsLaws F) {mode : GameMode} {cp : ControlPoints F} (H : TimelineHyps mode cp) (dflt : SampleBank)
    (gs : List (Group F)) (hsorted : C13.SortedBy gkey gs)
    (hwf : ∀ g ∈ gs, ∀ t, g.timing = some t → g.time = t.time ∧ t ∈ cp.timingPoints) :
    ∀ (last : Props F) (cpd : ControlPoints F) (B : Int), (∀ g ∈ gs, B < gkey g) → KeysLe cpd B →
      (∀ x, IsKey cp x → x ≤ B ∨ ∃ g ∈ gs, x = gkey g) →
      (∀ k, (∀ g ∈ gs, k < gkey g) → svK mode cpd k = svK mode cp k ∧ kiaiK cpd.effectPoints k = kiaiK cp.effectPoints k) →
      (last.timingSignature ≠ 0 → ∀ k, B ≤ k →
        svK mode cpd k = last.sliderVelocity ∧ kiaiK cpd.effectPoints k = flagKiai last.effectFlags) →
      (∀ k, svK mode (decGroups mode cp dflt gs last cpd) k = svK mode cp k ∧
        kiaiK (decGroups mode cp dflt gs last cpd).effectPoints k = kiaiK cp.effectPoints k) ∧
      (decGroups mode cp dflt gs last cpd).timingPoints = cpd.timingPoints ++ gs.filterMap (·.timing) := by
  induction gs with
  | nil =>
    intro last cpd B _ _ _ hag _
    exact ⟨fun k => hag k (fun g hg => by cases hg), by simp [decGroups]⟩
  | cons g rest ih =>
    intro last cpd B hB hk hcov hag hC
    obtain ⟨hg, hrest⟩ := C13.sortedBy_cons.mp hsorted
    have hBT : B < gkey g := hB g (by simp)
    have hlast := groupStep_last E mode cp g last
    obtain ⟨p1, p2⟩ := props_truth mode cp g last g.timing.isSome
    have p3 := props_sig_ne_zero H g.time last g.timing.isSome
    have htruth : ∀ k, gkey g ≤ k → (∀ g' ∈ rest, k < gkey g') →
        svK mode cp k = svK mode cp (gkey g) ∧ kiaiK cp.effectPoints k = kiaiK cp.effectPoints (gkey g) := by
      intro k hk1 hk2
      apply truth_const H.sorted _ _ hk1
      intro x hx
      rcases hcov x hx with h | ⟨g', hg', rfl⟩
      · left; omega
      · rcases List.mem_cons.mp hg' with rfl | hg'
        · left; omega
        · right; exact hk2 g' hg'
    have hcov' : ∀ x, IsKey cp x → x ≤ gkey g ∨ ∃ g' ∈ rest, x = gkey g' := by
      intro x hx
      rcases hcov x hx with h | ⟨g', hg', rfl⟩
      · left; omega
      · rcases List.mem_cons.mp hg' with rfl | hg'
        · left; omega
        · right; exact ⟨g', hg', rfl⟩
    simp only [decGroups]
    rw [hlast]
    by_cases hE : (groupStep mode cp g last).1 = []
    · -- the group wrote no line: its properties are `last_props`
      obtain ⟨hnone, hred⟩ := groupStep_nil mode cp g last hE
      have heq := (isRedundant_iff E _ _).mp hred
      rw [hE, List.map_nil, C12.addGroup_nil]
      have hsig : last.timingSignature ≠ 0 := by rw [← heq]; exact p3
      obtain ⟨r1, r2⟩ := ih hrest (fun g' hg' => hwf g' (by simp [hg'])) (Props.new g.time cp last g.timing.isSome mode) cpd
        (gkey g) hg ⟨fun p hp => by have := hk.t p hp; omega, fun p hp => by have := hk.d p hp; omega,
          fun p hp => by have := hk.e p hp; omega⟩ hcov'
        (by
          intro k hbelow
          by_cases hkT : k < gkey g
          · exact hag k (fun g' hg' => by
              rcases List.mem_cons.mp hg' with rfl | hg'
              · exact hkT
              · exact hbelow g' hg')
          · have hkT' : gkey g ≤ k := by omega
            obtain ⟨c1, c2⟩ := hC hsig k (by omega)
            obtain ⟨t1, t2⟩ := htruth k hkT' hbelow
            rw [c1, c2, t1, t2, ← p1, ← p2, heq]
            exact ⟨rfl, rfl⟩)
        (by
          intro _ k hkT
          rw [heq]
          exact hC hsig k (by omega))
      refine ⟨r1, ?_⟩
      rw [r2, List.filterMap_cons, hnone]
    · -- the group wrote its lines
      obtain ⟨s1, s2, s3, s4⟩ := addGroup_step E H g (hwf g (by simp)) last dflt cpd B hk hBT hE
      obtain ⟨r1, r2⟩ := ih hrest (fun g' hg' => hwf g' (by simp [hg'])) (Props.new g.time cp last g.timing.isSome mode)
        (C12.addGroup mode cpd ((groupStep mode cp g last).1.map (Entry.read dflt))) (gkey g) hg s4 hcov'
        (by
          intro k hbelow
          rw [s2 k, s3 k]
          by_cases hkT : k < gkey g
          · simp only [hkT, if_true]
            exact hag k (fun g' hg' => by
              rcases List.mem_cons.mp hg' with rfl | hg'
              · exact hkT
              · exact hbelow g' hg')
          · simp only [hkT, if_false]
            obtain ⟨t1, t2⟩ := htruth k (by omega) hbelow
            rw [t1, t2, p1, p2]
            exact ⟨rfl, rfl⟩)
        (by
          intro _ k hkT
          have : ¬ k < gkey g := by omega
          rw [s2 k, s3 k]
          simp only [this, if_false, and_self])
      refine ⟨r1, ?_⟩
      rw [r2, s1, List.filterMap_cons, List.append_assoc]
      cases g.timing <;> rfl

/-- **timing_roundtrip** (exact arithmetic). For a collection satisfying `TimelineHyps`: run the decoder's state machine,
from the fresh state (any `[General]` values with the same mode), over the values written for the entries of the block —
the collection it flushes to has the same timing points, and at every time the same effective slider velocity (scroll speed
in taiko / mania) and the same kiai flag. -/
theorem timing_roundtrip (E : EpsLaws F) (G : GroupLaws F) {mode : GameMode} {cp : ControlPoints F}
    (H : TimelineHyps mode cp) (g0 : GeneralState F P) (hm : g0.mode = mode) :
    let cp' := (C12.runTpLines { (TimingPointsState.create : TimingPointsState F P) with general := g0 }
      ((groupEntries mode cp (timingGroups cp) Props.default).map (Entry.read g0.defaultSampleBank))).finish.2
    cp'.timingPoints = cp.timingPoints ∧
    ∀ u : F, svFor mode cp' u = svFor mode cp u ∧ kiaiAt cp' u = kiaiAt cp u := by
  intro cp'
  obtain ⟨g1, g2, g3, g4, g5, g6, g7⟩ := timingGroups_spec H.sorted
  have hrun : cp' = decGroups mode cp g0.defaultSampleBank (timingGroups cp) Props.default ControlPoints.empty :=
    dec_run G mode cp g0.defaultSampleBank (timingGroups cp) g1 (fun g hg t ht => (g3 g hg t ht).1) Props.default
      { (TimingPointsState.create : TimingPointsState F P) with general := g0 } hm (Or.inl rfl)
  have hcovAll : ∀ x, IsKey cp x → ∃ g ∈ timingGroups cp, x = gkey g := by
    intro x hx
    rcases hx with ⟨p, hp, rfl⟩ | ⟨p, hp, rfl⟩ | ⟨p, hp, rfl⟩ | ⟨p, hp, rfl⟩
    · obtain ⟨g, hg, h⟩ := g4 p hp; exact ⟨g, hg, h.symm⟩
    · obtain ⟨g, hg, h⟩ := g5 p hp; exact ⟨g, hg, h.symm⟩
    · obtain ⟨g, hg, h⟩ := g6 p hp; exact ⟨g, hg, h.symm⟩
    · obtain ⟨g, hg, h⟩ := g7 p hp; exact ⟨g, hg, h.symm⟩
  have hB : ∃ B : Int, ∀ g ∈ timingGroups cp, B < gkey g := by
    cases hgs : timingGroups cp with
    | nil => exact ⟨0, fun g hg => by cases hg⟩
    | cons g rest =>
      rw [hgs] at g1
      obtain ⟨hg, _⟩ := C13.sortedBy_cons.mp g1
      refine ⟨gkey g - 1, fun g' hg' => ?_⟩
      rcases List.mem_cons.mp hg' with rfl | hg'
      · omega
      · have := hg g' hg'; omega
  obtain ⟨B, hB⟩ := hB
  have hinit : ∀ k, (∀ g ∈ timingGroups cp, k < gkey g) →
      svK mode (ControlPoints.empty : ControlPoints F) k = svK mode cp k ∧
      kiaiK (ControlPoints.empty : ControlPoints F).effectPoints k = kiaiK cp.effectPoints k := by
    intro k hbelow
    have hd : lookupChecked DifficultyPoint.key k cp.difficultyPoints = none :=
      C13.lookupChecked_before_first k (fun y hy => by
        obtain ⟨g, hg, h⟩ := hcovAll y.key (Or.inr (Or.inl ⟨y, hy, rfl⟩))
        have := hbelow g hg; omega)
    have he : lookupChecked EffectPoint.key k cp.effectPoints = none :=
      C13.lookupChecked_before_first k (fun y hy => by
        obtain ⟨g, hg, h⟩ := hcovAll y.key (Or.inr (Or.inr (Or.inl ⟨y, hy, rfl⟩)))
        have := hbelow g hg; omega)
    refine ⟨?_, by unfold kiaiK valueAt; rw [he]; rfl⟩
    cases mode
    · show dsvK _ k = dsvK _ k
      unfold dsvK valueAt; rw [hd]; rfl
    · show scrollK _ k = scrollK _ k
      unfold scrollK valueAt; rw [he]; rfl
    · show dsvK _ k = dsvK _ k
      unfold dsvK valueAt; rw [hd]; rfl
    · show scrollK _ k = scrollK _ k
      unfold scrollK valueAt; rw [he]; rfl
  obtain ⟨r1, r2⟩ := dec_agree E H g0.defaultSampleBank (timingGroups cp) g1 g3 Props.default ControlPoints.empty B hB
    ⟨(fun p hp => by cases hp), (fun p hp => by cases hp), (fun p hp => by cases hp)⟩
    (fun x hx => Or.inr (hcovAll x hx)) hinit (fun h => absurd rfl h)
  rw [hrun]
  refine ⟨by rw [r2, g2]; rfl, fun u => ?_⟩
  rw [svFor_eq_svK, svFor_eq_svK, kiaiAt_eq_kiaiK, kiaiAt_eq_kiaiK]
  exact r1 (totalKey u)

/-! ### the laws hold of the toy scalar -/

theorem zc_groupLaws : GroupLaws ZC where
  same_refl := by
    intro x
    show (!decide ((1 : Int) ≤ ((x.v - x.v).natAbs : Int))) = true
    simp
  same_eq := by
    intro x y h
    have h' : ¬ ((1 : Int) ≤ ((x.v - y.v).natAbs : Int)) := by
      simpa using (show (!decide ((1 : Int) ≤ ((x.v - y.v).natAbs : Int))) = true from h)
    cases x; cases y
    simp only [ZC.mk.injEq]
    simp only at h'
    omega

end RtTiming
end Rosu
