/-
  Lemmas/FloatModelRound.lean — a specification of `Float.Model.UnpackedFloat.round` (round to nearest, ties to
  even, as Lean ≥ 4.33 defines it for `Float`/`Float32`) and the monotonicity facts that follow from it.

  * `shr_mantissa`/`shr_exact`: closed form of `>>>` on `ExtendedMantissa`.
  * `round_eq`/`round_spec`/`round_cases`: `round spec s M e0` is the renormalisation (`stage2`) of a mantissa
    `q` at the target exponent `te` of the exact value with `⌊v/2^te⌋ ≤ q ≤ ⌊v/2^te⌋ + 1`, and `q = v/2^te` when
    `v` is a multiple of `2^te`; the result is canonical.
  * `round_ge`/`round_le`: a canonical float below (above) the exact value is below (above) the rounded value in
    the order of `UnpackedFloat.compare`.
-/
import RosuModel.Lemmas.FloatModelValue
namespace Rosu.FMR
open Float.Model Float.Model.UnpackedFloat

/-! ### `ExtendedMantissa` shifts -/

theorem shr_zero (em : ExtendedMantissa) : em >>> 0 = em := rfl
theorem shr_succ (em : ExtendedMantissa) (n : Nat) : em >>> (n + 1) = (em >>> n).shiftRightOne := rfl

theorem shr_mantissa (em : ExtendedMantissa) (n : Nat) : (em >>> n).mantissa = em.mantissa / 2 ^ n := by
  induction n with
  | zero => simp [shr_zero]
  | succ n ih =>
    rw [shr_succ]
    show (em >>> n).mantissa / 2 = _
    rw [ih, Nat.div_div_eq_div_mul, Nat.pow_succ]

/-- shifting an exact mantissa whose dropped bits are all zero stays exact. -/
theorem shr_exact (m n : Nat) (h : m % 2 ^ n = 0) :
    (⟨m, false, false⟩ : ExtendedMantissa) >>> n = ⟨m / 2 ^ n, false, false⟩ := by
  induction n with
  | zero => simp [shr_zero]
  | succ n ih =>
    obtain ⟨c, hc⟩ := Nat.dvd_of_mod_eq_zero h
    have h2 : m % 2 ^ n = 0 := by
      rw [hc, Nat.pow_succ, Nat.mul_assoc, Nat.mul_mod_right]
    rw [shr_succ, ih h2]
    have h3 : m / 2 ^ n = 2 * c := by
      rw [hc, Nat.pow_succ, Nat.mul_assoc, Nat.mul_div_cancel_left _ (Nat.two_pow_pos n)]
    have h4 : m / 2 ^ (n + 1) = c := by
      rw [hc, Nat.mul_div_cancel_left _ (Nat.two_pow_pos _)]
    simp [ExtendedMantissa.shiftRightOne, h3, h4]

theorem rounded_ge (em : ExtendedMantissa) : em.mantissa ≤ em.roundedMantissa := by
  obtain ⟨m, r, s⟩ := em
  cases r <;> cases s <;> simp [ExtendedMantissa.roundedMantissa, ExtendedMantissa.accuracy, Accuracy.roundToNearestEven]

theorem rounded_le (em : ExtendedMantissa) : em.roundedMantissa ≤ em.mantissa + 1 := by
  obtain ⟨m, r, s⟩ := em
  cases r <;> cases s <;> simp [ExtendedMantissa.roundedMantissa, ExtendedMantissa.accuracy, Accuracy.roundToNearestEven]
  omega

theorem rounded_exact (m : Nat) : (⟨m, false, false⟩ : ExtendedMantissa).roundedMantissa = m := rfl

/-! ### `roundWithAccuracy` in two stages -/

/-- second stage of `roundWithAccuracy`: renormalise the rounded mantissa. -/
def stage2 (spec : Format) (s : Sign) (q : Nat) (te : Int) : UnpackedFloat :=
  if h : (shiftToTargetExponent spec q te .exact).1.mantissa = 0 then .zero s
  else .finite s (shiftToTargetExponent spec q te .exact).1.mantissa
    (shiftToTargetExponent spec q te .exact).2 (Nat.pos_of_ne_zero h)

theorem rwa_eq (spec : Format) (s : Sign) (m : Nat) (e : Int) (acc : Accuracy) :
    roundWithAccuracy spec s m e acc =
      stage2 spec s (shiftToTargetExponent spec m e acc).1.roundedMantissa
        (shiftToTargetExponent spec m e acc).2 := rfl

theorem stage2_mantissa (spec : Format) (q : Nat) (te : Int) :
    (shiftToTargetExponent spec q te .exact).1.mantissa =
      q / 2 ^ (spec.targetExponent (totalExponent q te) - te).toNat := by
  simp only [shiftToTargetExponent, shiftToExponent, shr_mantissa]
  rfl

theorem stage2_exp (spec : Format) (q : Nat) (te : Int) :
    (shiftToTargetExponent spec q te .exact).2 =
      te + ((spec.targetExponent (totalExponent q te) - te).toNat : Int) := rfl

theorem stage2_zero (spec : Format) (s : Sign) (te : Int) : stage2 spec s 0 te = .zero s := by
  unfold stage2
  rw [dif_pos]
  rw [stage2_mantissa]; simp

theorem stage2_small (spec : Format) (s : Sign) (q : Nat) (te : Int) (hq : 0 < q)
    (hlt : q < 2 ^ spec.mantissaBits) (hte : spec.minExponent ≤ te) :
    ∃ h, stage2 spec s q te = .finite s q te h := by
  have hl : q.log2 < spec.mantissaBits := (Nat.log2_lt (by omega)).2 hlt
  have hk : (spec.targetExponent (totalExponent q te) - te).toNat = 0 := by
    unfold Format.targetExponent totalExponent; omega
  have hm : (shiftToTargetExponent spec q te .exact).1.mantissa = q := by
    rw [stage2_mantissa, hk]; simp
  have he : (shiftToTargetExponent spec q te .exact).2 = te := by
    rw [stage2_exp, hk]; simp
  refine ⟨hq, ?_⟩
  unfold stage2
  rw [dif_neg (by rw [hm]; omega)]
  simp only [hm, he]

theorem stage2_carry (spec : Format) (s : Sign) (te : Int) (hte : spec.minExponent ≤ te) :
    ∃ h, stage2 spec s (2 ^ spec.mantissaBits) te = .finite s (2 ^ (spec.mantissaBits - 1)) (te + 1) h := by
  have hMB : 1 ≤ spec.mantissaBits := by unfold Format.mantissaBits; omega
  have hk : (spec.targetExponent (totalExponent (2 ^ spec.mantissaBits) te) - te).toNat = 1 := by
    unfold Format.targetExponent totalExponent; rw [Nat.log2_two_pow]; omega
  have hm : (shiftToTargetExponent spec (2 ^ spec.mantissaBits) te .exact).1.mantissa = 2 ^ (spec.mantissaBits - 1) := by
    rw [stage2_mantissa, hk]
    have : spec.mantissaBits = (spec.mantissaBits - 1) + 1 := by omega
    rw [this, Nat.pow_succ]; simp
  have he : (shiftToTargetExponent spec (2 ^ spec.mantissaBits) te .exact).2 = te + 1 := by
    rw [stage2_exp, hk]; simp
  refine ⟨Nat.two_pow_pos _, ?_⟩
  unfold stage2
  rw [dif_neg (by rw [hm]; have := Nat.two_pow_pos (spec.mantissaBits - 1); omega)]
  simp only [hm, he]


theorem totalExponent_shift {M : Nat} (hM : M ≠ 0) (e0 : Int) (d : Nat) :
    totalExponent (M * 2 ^ d) (e0 - d) = totalExponent M e0 := by
  unfold totalExponent; rw [log2_mul_pow hM]; omega

/-- `round` as one right shift (or left shift) to the target exponent, rounding, and renormalising. -/
theorem round_eq (spec : Format) (s : Sign) (M : Nat) (hM : M ≠ 0) (e0 : Int) :
    round spec s M e0 =
      stage2 spec s
        ((⟨M * 2 ^ (e0 - spec.targetExponent (totalExponent M e0)).toNat, false, false⟩ : ExtendedMantissa) >>>
          (spec.targetExponent (totalExponent M e0) - e0).toNat).roundedMantissa
        (spec.targetExponent (totalExponent M e0)) := by
  unfold round decreaseExponent
  simp only []
  rw [rwa_eq, Nat.shiftLeft_eq, shiftToTargetExponent, shiftToExponent]
  simp only []
  rw [totalExponent_shift hM]
  generalize spec.targetExponent (totalExponent M e0) = te
  have h1 : (te - (e0 - ((e0 - te).toNat : Int))).toNat = (te - e0).toNat := by omega
  have h2 : e0 - ((e0 - te).toNat : Int) + ((te - e0).toNat : Int) = te := by omega
  rw [h1, h2]
  rfl



/-- the mantissa after `decreaseExponent` (shifted left when `e0` is above the target exponent). -/
def aligned (spec : Format) (M : Nat) (e0 : Int) : Nat := M * 2 ^ (e0 - tgt spec M e0).toNat
/-- the number of bits `roundWithAccuracy` drops. -/
def dropBits (spec : Format) (M : Nat) (e0 : Int) : Nat := (tgt spec M e0 - e0).toNat
/-- the truncation of `M·2^e0` to a multiple of `2^tgt`, as a mantissa: `⌊M·2^e0 / 2^tgt⌋`. -/
def fl (spec : Format) (M : Nat) (e0 : Int) : Nat := aligned spec M e0 / 2 ^ dropBits spec M e0

theorem fl_lt (spec : Format) (M : Nat) (hM : M ≠ 0) (e0 : Int) : fl spec M e0 < 2 ^ spec.mantissaBits := by
  unfold fl
  rw [Nat.div_lt_iff_lt_mul (Nat.two_pow_pos _), ← Nat.pow_add]
  have hne : aligned spec M e0 ≠ 0 := Nat.mul_ne_zero hM (by have := Nat.two_pow_pos (e0 - tgt spec M e0).toNat; omega)
  rw [← Nat.log2_lt hne]
  unfold aligned; rw [log2_mul_pow hM]
  unfold dropBits tgt Format.targetExponent totalExponent
  omega

theorem fl_ge (spec : Format) (M : Nat) (hM : M ≠ 0) (e0 : Int) (h : spec.minExponent < tgt spec M e0) :
    2 ^ (spec.mantissaBits - 1) ≤ fl spec M e0 := by
  unfold fl
  rw [Nat.le_div_iff_mul_le (Nat.two_pow_pos _), ← Nat.pow_add]
  have hne : aligned spec M e0 ≠ 0 := Nat.mul_ne_zero hM (by have := Nat.two_pow_pos (e0 - tgt spec M e0).toNat; omega)
  rw [← Nat.le_log2 hne]
  unfold aligned; rw [log2_mul_pow hM]
  have := mantissaBits_pos spec
  revert h
  unfold dropBits tgt Format.targetExponent totalExponent
  omega

/-- **specification of `round`** (round to nearest even, any sign): the result is the renormalisation of a
mantissa `q` at the target exponent of the exact value with `⌊v/2^te⌋ ≤ q ≤ ⌊v/2^te⌋ + 1`, and `q = v/2^te`
when `v` is a multiple of `2^te`. -/
theorem round_spec (spec : Format) (s : Sign) (M : Nat) (hM : M ≠ 0) (e0 : Int) :
    ∃ q, fl spec M e0 ≤ q ∧ q ≤ fl spec M e0 + 1 ∧
      (aligned spec M e0 % 2 ^ dropBits spec M e0 = 0 → q = fl spec M e0) ∧
      round spec s M e0 = stage2 spec s q (tgt spec M e0) := by
  refine ⟨_, ?_, ?_, ?_, round_eq spec s M hM e0⟩
  · have := rounded_ge ((⟨M * 2 ^ (e0 - spec.targetExponent (totalExponent M e0)).toNat, false, false⟩ : ExtendedMantissa) >>>
          (spec.targetExponent (totalExponent M e0) - e0).toNat)
    rw [shr_mantissa] at this; exact this
  · have := rounded_le ((⟨M * 2 ^ (e0 - spec.targetExponent (totalExponent M e0)).toNat, false, false⟩ : ExtendedMantissa) >>>
          (spec.targetExponent (totalExponent M e0) - e0).toNat)
    rw [shr_mantissa] at this; exact this
  · intro h
    have := shr_exact (M * 2 ^ (e0 - spec.targetExponent (totalExponent M e0)).toNat)
      (spec.targetExponent (totalExponent M e0) - e0).toNat h
    rw [this]; rfl


/-- `round_spec` with the renormalisation carried out: the three possible shapes of the result. -/
theorem round_cases (spec : Format) (s : Sign) (M : Nat) (hM : M ≠ 0) (e0 : Int) :
    ∃ q, fl spec M e0 ≤ q ∧ q ≤ fl spec M e0 + 1 ∧
      (aligned spec M e0 % 2 ^ dropBits spec M e0 = 0 → q = fl spec M e0) ∧
      ((q = 0 ∧ round spec s M e0 = .zero s) ∨
       (0 < q ∧ q < 2 ^ spec.mantissaBits ∧ CanonFin spec q (tgt spec M e0) ∧
          IsFin (round spec s M e0) s q (tgt spec M e0)) ∨
       (q = 2 ^ spec.mantissaBits ∧ CanonFin spec (2 ^ (spec.mantissaBits - 1)) (tgt spec M e0 + 1) ∧
          IsFin (round spec s M e0) s (2 ^ (spec.mantissaBits - 1)) (tgt spec M e0 + 1))) := by
  obtain ⟨q, h1, h2, h3, h4⟩ := round_spec spec s M hM e0
  refine ⟨q, h1, h2, h3, ?_⟩
  have hte := tgt_ge_min spec M e0
  have hfl := fl_lt spec M hM e0
  by_cases hq0 : q = 0
  · left; subst hq0; exact ⟨rfl, by rw [h4, stage2_zero]⟩
  by_cases hqlt : q < 2 ^ spec.mantissaBits
  · right; left
    refine ⟨by omega, hqlt, ⟨hqlt, hte, ?_⟩, ?_⟩
    · by_cases hmin : tgt spec M e0 = spec.minExponent
      · exact Or.inr hmin
      · left; exact Nat.le_trans (fl_ge spec M hM e0 (by omega)) h1
    · rw [h4]; exact stage2_small spec s q _ (by omega) hqlt hte
  · right; right
    have : q = 2 ^ spec.mantissaBits := by omega
    subst this
    exact ⟨rfl, canonFin_carry spec _ hte, by rw [h4]; exact stage2_carry spec s _ hte⟩



/-- **rounding is monotone above a representable number**: if the canonical `a = ma·2^ea` is at most the exact
value `M·2^e0` (`e0 ≤ ea`, both mantissas aligned at `e0`), then `a ≤ round (M·2^e0)` in the order of `compare`. -/
theorem round_ge (spec : Format) (s : Sign) (M : Nat) (e0 : Int) (ma : Nat) (ea : Int)
    (hc : CanonFin spec ma ea) (hma : 0 < ma) (j : Nat) (hj : ea = e0 + j) (h : ma * 2 ^ j ≤ M) :
    ∃ mr er, IsFin (round spec s M e0) s mr er ∧ CanonFin spec mr er ∧ LexLE ea ma er mr := by
  have hp : 0 < 2 ^ j := Nat.two_pow_pos j
  have hM : M ≠ 0 := by
    have : 0 < ma * 2 ^ j := Nat.mul_pos hma hp
    omega
  have hlog : ma.log2 + j ≤ M.log2 := by
    rw [← log2_mul_pow (by omega)]; exact log2_mono h
  have hea := hc.tgt_eq hma
  have hte : ea ≤ tgt spec M e0 := by
    rw [← hea]; unfold tgt Format.targetExponent totalExponent; omega
  obtain ⟨q, h1, h2, _, h4⟩ := round_cases spec s M hM e0
  have hMB := mantissaBits_pos spec
  have hpos : 0 < 2 ^ (spec.mantissaBits - 1) := Nat.two_pow_pos _
  -- `ma ≤ q` on the grid of `a`, `2^(MB-1) ≤ q` above it
  have hq : (tgt spec M e0 = ea ∧ ma ≤ q) ∨ (ea < tgt spec M e0 ∧ 2 ^ (spec.mantissaBits - 1) ≤ q) := by
    by_cases heq : tgt spec M e0 = ea
    · left; refine ⟨heq, Nat.le_trans ?_ h1⟩
      unfold fl aligned dropBits
      have e1 : (e0 - tgt spec M e0).toNat = 0 := by omega
      have e2 : (tgt spec M e0 - e0).toNat = j := by omega
      rw [e1, e2, Nat.pow_zero, Nat.mul_one, Nat.le_div_iff_mul_le hp]
      exact h
    · right; refine ⟨by omega, Nat.le_trans (fl_ge spec M hM e0 ?_) h1⟩
      have := hc.ge; omega
  rcases h4 with ⟨hq0, _⟩ | ⟨_, _, hcan, hfin⟩ | ⟨_, hcan, hfin⟩
  · omega
  · refine ⟨q, _, hfin, hcan, ?_⟩
    rcases hq with ⟨heq, hle⟩ | ⟨hlt, _⟩
    · exact Or.inr ⟨heq.symm, hle⟩
    · exact Or.inl hlt
  · exact ⟨_, _, hfin, hcan, Or.inl (by omega)⟩

/-- **rounding is monotone below a representable number**: if the exact value `M·2^e0` is at most the canonical
`a = ma·2^ea` (`e0 ≤ ea`, mantissas aligned at `e0`), then `round (M·2^e0)` is a zero or `≤ a`. -/
theorem round_le (spec : Format) (s : Sign) (M : Nat) (hM : M ≠ 0) (e0 : Int) (ma : Nat) (ea : Int)
    (hc : CanonFin spec ma ea) (j : Nat) (hj : ea = e0 + j) (h : M ≤ ma * 2 ^ j) :
    round spec s M e0 = .zero s ∨
    ∃ mr er, IsFin (round spec s M e0) s mr er ∧ CanonFin spec mr er ∧ LexLE er mr ea ma := by
  have hp : 0 < 2 ^ j := Nat.two_pow_pos j
  have hma : 0 < ma := by
    rcases Nat.eq_zero_or_pos ma with h0 | h0
    · subst h0; omega
    · exact h0
  have hlog : M.log2 ≤ ma.log2 + j := by
    rw [← log2_mul_pow (by omega)]; exact log2_mono h
  have hea := hc.tgt_eq hma
  have hte : tgt spec M e0 ≤ ea := by
    rw [← hea]; unfold tgt Format.targetExponent totalExponent; omega
  obtain ⟨q, h1, h2, h3, h4⟩ := round_cases spec s M hM e0
  have hMB := mantissaBits_pos spec
  -- `q ≤ A`, the mantissa of `a` on the grid of the target exponent
  obtain ⟨i, hi⟩ : ∃ i : Nat, ea = tgt spec M e0 + i := ⟨(ea - tgt spec M e0).toNat, by omega⟩
  have hpi : 0 < 2 ^ i := Nat.two_pow_pos i
  have hqA : q ≤ ma * 2 ^ i := by
    have hk : 0 < 2 ^ dropBits spec M e0 := Nat.two_pow_pos _
    have hX : aligned spec M e0 ≤ ma * 2 ^ i * 2 ^ dropBits spec M e0 := by
      unfold aligned dropBits
      rcases Int.le_total e0 (tgt spec M e0) with hle | hle
      · have e1 : (e0 - tgt spec M e0).toNat = 0 := by omega
        have e2 : j = i + (tgt spec M e0 - e0).toNat := by omega
        rw [e1, Nat.pow_zero, Nat.mul_one, Nat.mul_assoc, ← Nat.pow_add, ← e2]; exact h
      · have e1 : (tgt spec M e0 - e0).toNat = 0 := by omega
        have e2 : i = j + (e0 - tgt spec M e0).toNat := by omega
        rw [e1, Nat.pow_zero, Nat.mul_one, e2, Nat.pow_add, ← Nat.mul_assoc]
        exact Nat.mul_le_mul_right _ h
    have hflA : fl spec M e0 ≤ ma * 2 ^ i := by
      unfold fl
      exact Nat.le_trans (Nat.div_le_div_right hX) (by rw [Nat.mul_div_cancel _ hk]; exact Nat.le_refl _)
    rcases Nat.lt_or_ge (fl spec M e0) (ma * 2 ^ i) with hlt | hge
    · omega
    · have hfl : fl spec M e0 = ma * 2 ^ i := by omega
      have hmul : fl spec M e0 * 2 ^ dropBits spec M e0 ≤ aligned spec M e0 := by
        unfold fl; exact Nat.div_mul_le_self _ _
      have hXeq : aligned spec M e0 = ma * 2 ^ i * 2 ^ dropBits spec M e0 := by
        rw [hfl] at hmul; omega
      have : q = fl spec M e0 := h3 (by rw [hXeq, Nat.mul_mod_left])
      omega
  rcases h4 with ⟨_, hz⟩ | ⟨_, hqlt, hcan, hfin⟩ | ⟨hq, hcan, hfin⟩
  · exact Or.inl hz
  · right; refine ⟨q, _, hfin, hcan, ?_⟩
    by_cases hi0 : i = 0
    · subst hi0; right; exact ⟨by omega, by simpa using hqA⟩
    · left; omega
  · right; refine ⟨_, _, hfin, hcan, ?_⟩
    -- `q = 2^MB ≤ ma·2^i` with `ma < 2^MB` forces `i ≥ 1`
    have hi1 : 1 ≤ i := by
      rcases Nat.eq_zero_or_pos i with h0 | h0
      · subst h0; have := hc.lt; simp at hqA; omega
      · exact h0
    by_cases hi' : i = 1
    · right; refine ⟨by omega, ?_⟩
      rcases hc.norm with hn | hn
      · exact hn
      · have := tgt_ge_min spec M e0; omega
    · left; omega


end Rosu.FMR
