/-
  Lemmas/RtEditor.lean — the `[Editor]` block under the codec laws: `Bookmarks` (comma-joined integers, written
  only when non-empty), `DistanceSpacing`, `BeatDivisor`, `GridSize`, `TimelineZoom`.
-/
import RosuModel.Lemmas.CodecLaws
import RosuModel.Lemmas.ToyCodec
import RosuModel.Model.Encode
namespace Rosu
namespace RtEditor
open Rosu Encode EncodeLines C11 Scalar

variable {F : Type} [Scalar F] {R : F → Prop}

/-! ### comma-joined lists -/

def bookmarksValue (bs : List Int) : Str := joinComma (bs.map showInt)

theorem bookmarksValue_chars (bs : List Int) : ∀ c ∈ bookmarksValue bs, isDig c = true ∨ c = '-' ∨ c = ',' := by
  apply joinComma_chars _ (fun c => isDig c = true ∨ c = '-' ∨ c = ',') (Or.inr (Or.inr rfl))
  intro x hx c hc
  simp only [List.mem_map] at hx
  obtain ⟨n, _, rfl⟩ := hx
  rcases intDigits_chars n c hc with h | h
  · exact Or.inl h
  · exact Or.inr (Or.inl h)

theorem bookmarksValue_no_ws (bs : List Int) : ∀ c ∈ bookmarksValue bs, isWs c = false := by
  intro c hc
  rcases bookmarksValue_chars bs c hc with h | h | h
  · exact isDig_not_ws h
  · subst h; decide
  · subst h; decide

theorem bookmarksValue_not_mem (bs : List Int) (d : Char) (h1 : isDig d = false) (h2 : d ≠ '-') (h3 : d ≠ ',') :
    d ∉ bookmarksValue bs := by
  intro hm
  rcases bookmarksValue_chars bs d hm with h | h | h
  · rw [h1] at h; cases h
  · exact h2 h
  · exact h3 h

/-- **the `Bookmarks` value reads back**: every `i32` list survives `join(",")` / `split(',')` + `i32::from_str`. -/
theorem bookmarks_parse (bs : List Int) (hne : bs ≠ []) (h : ∀ b ∈ bs, i32Min ≤ b ∧ b ≤ i32Max) :
    (splitOn ',' (bookmarksValue bs)).filterMap i32FromStr = bs := by
  unfold bookmarksValue
  rw [splitOn_joinComma _ _ (by simpa using hne)]
  · induction bs with
    | nil => rfl
    | cons b rest ih =>
      have hb := h b (by simp)
      simp only [List.map_cons, List.filterMap_cons, showInt, i32FromStr_intDigits b hb.1 hb.2]
      cases rest with
      | nil => rfl
      | cons c r => rw [ih (by simp) (fun x hx => h x (by simp [hx]))]
  · intro x hx
    simp only [List.mem_map] at hx
    obtain ⟨n, _, rfl⟩ := hx
    exact intDigits_not_mem n ',' (by decide)

/-! ### the lines -/

def editorLines (e : Editor F) : List Str :=
  optLine (!e.bookmarks.isEmpty) (kvl (str "Bookmarks") (bookmarksValue e.bookmarks)) ++
  [kvl (str "DistanceSpacing") (showF e.distanceSpacing), kvl (str "BeatDivisor") (showInt e.beatDivisor),
   kvl (str "GridSize") (showInt e.gridSize), kvl (str "TimelineZoom") (showF e.timelineZoom)]

theorem encodeEditor_eq {P : Type} (m : Beatmap F P) :
    encodeEditor m = unlines (str "[Editor]" :: editorLines m.editor) := by
  have hh : str "[Editor]\n" = str "[Editor]" ++ EncodeLines.nl := by decide
  have hb : ∀ x : Str, str "Bookmarks: " ++ x ++ Encode.nl = kvl (str "Bookmarks") x ++ EncodeLines.nl := by
    intro x; simp [kvl, str, Encode.nl, EncodeLines.nl]
  unfold encodeEditor editorLines
  simp only [unlines_cons, unlines_append, unlines_optLine, unlines_nil, kvLine_eq, hh, hb, bookmarksValue,
    ite_isEmpty, List.append_assoc, List.append_nil]

/-! ### one line -/

theorem parse_bookmarks (st : Editor F) (bs : List Int) (hne : bs ≠ []) (h : ∀ b ∈ bs, i32Min ≤ b ∧ b ≤ i32Max) :
    parseEditor st (trimEnd (kvl (str "Bookmarks") (bookmarksValue bs))) = ({ st with bookmarks := bs }, true) := by
  unfold parseEditor
  rw [kvSplit_trimComment_kvl _ _ (by decide) (by decide) (trim_no_ws _ (bookmarksValue_no_ws bs)) (by decide)
    (hasDS_of_no_slash _ (bookmarksValue_not_mem bs '/' (by decide) (by decide) (by decide)))]
  simp only [show EditorKey.parse (str "Bookmarks") = some .bookmarks from by decide, bookmarks_parse bs hne h]

theorem parse_distanceSpacing (L : CodecLaws F R) (st : Editor F) (x : F) (hx : R x) (hl : InLimit x) :
    parseEditor st (trimEnd (kvl (str "DistanceSpacing") (showF x))) = ({ st with distanceSpacing := x }, true) := by
  unfold parseEditor showF
  rw [kvSplit_num_line L _ hx (by decide) (by decide) (by decide)]
  simp only [show EditorKey.parse (str "DistanceSpacing") = some .distanceSpacing from by decide, floatParse_print L hx hl]

theorem parse_timelineZoom (L : CodecLaws F R) (st : Editor F) (x : F) (hx : R x) (hl : InLimit x) :
    parseEditor st (trimEnd (kvl (str "TimelineZoom") (showF x))) = ({ st with timelineZoom := x }, true) := by
  unfold parseEditor showF
  rw [kvSplit_num_line L _ hx (by decide) (by decide) (by decide)]
  simp only [show EditorKey.parse (str "TimelineZoom") = some .timelineZoom from by decide, floatParse_print L hx hl]

theorem parse_beatDivisor (st : Editor F) (n : Int) (hlo : -i32Max ≤ n) (hhi : n ≤ i32Max) :
    parseEditor st (trimEnd (kvl (str "BeatDivisor") (showInt n))) = ({ st with beatDivisor := n }, true) := by
  unfold parseEditor showInt
  rw [kvSplit_int_line _ n (by decide) (by decide) (by decide)]
  simp only [show EditorKey.parse (str "BeatDivisor") = some .beatDivisor from by decide, i32Parse_intDigits n hlo hhi]

theorem parse_gridSize (st : Editor F) (n : Int) (hlo : -i32Max ≤ n) (hhi : n ≤ i32Max) :
    parseEditor st (trimEnd (kvl (str "GridSize") (showInt n))) = ({ st with gridSize := n }, true) := by
  unfold parseEditor showInt
  rw [kvSplit_int_line _ n (by decide) (by decide) (by decide)]
  simp only [show EditorKey.parse (str "GridSize") = some .gridSize from by decide, i32Parse_intDigits n hlo hhi]

/-! ### the block -/

/-- an editor record the format can represent: bookmarks any `i32`; beat divisor and grid size within the parse
limit ±(2³¹−1); the two floats representable by the codec and within the limit. -/
structure RepEditor (R : F → Prop) (e : Editor F) : Prop where
  bookmarks : ∀ b ∈ e.bookmarks, i32Min ≤ b ∧ b ≤ i32Max
  distanceSpacing : R e.distanceSpacing ∧ InLimit e.distanceSpacing
  beatDivisor : -i32Max ≤ e.beatDivisor ∧ e.beatDivisor ≤ i32Max
  gridSize : -i32Max ≤ e.gridSize ∧ e.gridSize ≤ i32Max
  timelineZoom : R e.timelineZoom ∧ InLimit e.timelineZoom

def decodedLines (e : Editor F) : List Str := (editorLines e).map trimEnd

theorem editorLines_no_lf (L : CodecLaws F R) (e : Editor F) (h : RepEditor R e) : ∀ l ∈ editorLines e, '\n' ∉ l := by
  intro l hl
  simp only [editorLines, List.mem_append, List.mem_cons, List.not_mem_nil, or_false] at hl
  rcases hl with hl | hl | hl | hl | hl
  · rw [(mem_optLine hl).2]
    exact not_lf_kvl _ _ (by decide) (bookmarksValue_not_mem _ _ (by decide) (by decide) (by decide))
  · subst hl; exact not_lf_kvl _ _ (by decide) (L.not_mem h.distanceSpacing.1 _ (by decide))
  · subst hl; exact not_lf_kvl _ _ (by decide) (intDigits_not_mem _ _ (by decide))
  · subst hl; exact not_lf_kvl _ _ (by decide) (intDigits_not_mem _ _ (by decide))
  · subst hl; exact not_lf_kvl _ _ (by decide) (L.not_mem h.timelineZoom.1 _ (by decide))

theorem editor_lines_spec (L : CodecLaws F R) (e : Editor F) (h : RepEditor R e) :
    ∀ r ∈ decodedLines e, RecordLine r ∧ ∀ st : Editor F, (parseEditor st r).2 = true := by
  intro r hr
  simp only [decodedLines, editorLines, List.map_append, List.map_cons, List.map_nil, optLine_map, List.mem_append,
    List.mem_cons, List.not_mem_nil, or_false] at hr
  rcases hr with hr | hr | hr | hr | hr
  · have hne : e.bookmarks ≠ [] := by
      have := (mem_optLine hr).1
      intro e0; rw [e0] at this; simp at this
    rw [(mem_optLine hr).2]
    exact ⟨recordLine_kvl 'B' _ _ (by decide) (trim_no_ws _ (bookmarksValue_no_ws _)),
      fun st => by rw [parse_bookmarks st _ hne h.bookmarks]⟩
  · subst hr
    exact ⟨recordLine_kvl 'D' _ _ (by decide) (L.trim_print h.distanceSpacing.1),
      fun st => by rw [parse_distanceSpacing L st _ h.distanceSpacing.1 h.distanceSpacing.2]⟩
  · subst hr
    exact ⟨recordLine_kvl 'B' _ _ (by decide) (trim_intDigits _),
      fun st => by rw [parse_beatDivisor st _ h.beatDivisor.1 h.beatDivisor.2]⟩
  · subst hr
    exact ⟨recordLine_kvl 'G' _ _ (by decide) (trim_intDigits _),
      fun st => by rw [parse_gridSize st _ h.gridSize.1 h.gridSize.2]⟩
  · subst hr
    exact ⟨recordLine_kvl 'T' _ _ (by decide) (L.trim_print h.timelineZoom.1),
      fun st => by rw [parse_timelineZoom L st _ h.timelineZoom.1 h.timelineZoom.2]⟩

theorem editor_block_result (L : CodecLaws F R) (e : Editor F) (h : RepEditor R e) :
    runSection parseEditor Editor.default (decodedLines e) = e := by
  simp only [decodedLines, editorLines, List.map_append, List.map_cons, List.map_nil, optLine_map, runSection_append,
    runSection_cons, runSection_nil, runSection_optLine,
    fun st => parse_distanceSpacing L st _ h.distanceSpacing.1 h.distanceSpacing.2,
    fun st => parse_timelineZoom L st _ h.timelineZoom.1 h.timelineZoom.2,
    fun st => parse_beatDivisor st _ h.beatDivisor.1 h.beatDivisor.2,
    fun st => parse_gridSize st _ h.gridSize.1 h.gridSize.2]
  obtain ⟨bs, ds, bd, gs, tz⟩ := e
  cases bs with
  | nil => rfl
  | cons b rest =>
    simp only [List.isEmpty_cons, Bool.not_false, if_true]
    rw [parse_bookmarks _ _ (by simp) h.bookmarks]

/-- **editor_block_roundtrip** (C04 + C02 for the block, for every lawful codec): every line `encode_editor` writes
is a record line accepted by `parse_editor`, and the block, run from the decoder's initial state, yields the
record — all five fields. -/
theorem editor_block_roundtrip (L : CodecLaws F R) (e : Editor F) (h : RepEditor R e) :
    (∀ r ∈ decodedLines e, RecordLine r) ∧ Accepts parseEditor (Editor.default : Editor F) (decodedLines e) ∧
    runSection parseEditor Editor.default (decodedLines e) = e :=
  ⟨fun r hr => (editor_lines_spec L e h r hr).1,
   accepts_of_forall _ _ (fun r hr => (editor_lines_spec L e h r hr).2) _, editor_block_result L e h⟩

/-! ### non-vacuity (toy codec) -/

def sample : Editor ZC :=
  { bookmarks := [0, -5, 2147483647, -2147483648], distanceSpacing := ⟨1⟩, beatDivisor := 4, gridSize := -2147483647,
    timelineZoom := ⟨-3⟩ }

theorem sample_rep : RepEditor ZC.Rep sample :=
  ⟨by decide, ⟨by decide, by decide⟩, by decide, by decide, ⟨by decide, by decide⟩⟩

example : runSection parseEditor Editor.default (decodedLines sample) = sample := editor_block_result ZC.laws sample sample_rep

example : decodedLines sample = [str "Bookmarks: 0,-5,2147483647,-2147483648", str "DistanceSpacing: 1", str "BeatDivisor: 4",
    str "GridSize: -2147483647", str "TimelineZoom: -3"] := by decide

end RtEditor
end Rosu
