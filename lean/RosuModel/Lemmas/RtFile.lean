/-
  Lemmas/RtFile.lean — from blocks to the file: the encoder's text as a list of lines, the framing fold over
  it (every block's record lines reach exactly that section's parser, C05's `feedAll`), and the record fields of
  the `Beatmap` decoder state after the whole file.

  The `[TimingPoints]` and `[HitObjects]` blocks enter as lists of record lines `T`, `H` about which only the
  shape is assumed (LF-free lines that are neither headers nor skipped): whatever those lines do, they do it to
  the control points and hit objects, not to the record fields.
-/
import RosuModel.Lemmas.RtMetadata
import RosuModel.Lemmas.RtColours
import RosuModel.Lemmas.RtEditor
import RosuModel.Lemmas.RtDifficulty
import RosuModel.Lemmas.RtEvents
import RosuModel.Lemmas.RtGeneral
import RosuModel.Props.C10
namespace Rosu
namespace RtFile
open Rosu Encode EncodeLines C05 C11 Scalar

/-! ### the file as a list of lines -/

def versionLine (v : Int) : Str := str "osu file format v" ++ showInt v

/-- one block: a blank line, the header, the record lines; then the rest of the file. -/
def blk (h : Str) (rs rest : List Str) : List Str := [] :: h :: (rs ++ rest)

/-- the eight blocks in the encoder's order, each preceded by a blank line, after the version line. -/
def fileLines (v : Int) (G E M D Ev T C H : List Str) : List Str :=
  versionLine v :: blk (str "[General]") G (blk (str "[Editor]") E (blk (str "[Metadata]") M (blk (str "[Difficulty]") D
    (blk (str "[Events]") Ev (blk (str "[TimingPoints]") T (blk (str "[Colours]") C (blk (str "[HitObjects]") H [])))))))

theorem trimEnd_versionLine (v : Int) : trimEnd (versionLine v) = versionLine v := by
  unfold versionLine showInt
  have h := trimEnd_no_ws _ (intDigits_no_ws v)
  rw [trimEnd_append_of_ne_nil _ _ (by rw [h]; exact intDigits_ne_nil v), h]

theorem blk_map_trimEnd (h : Str) (rs rest : List Str) (hh : trimEnd h = h) :
    (blk h rs rest).map trimEnd = blk h (rs.map trimEnd) (rest.map trimEnd) := by
  simp only [blk, List.map_cons, List.map_append, hh]
  rfl

theorem fileLines_map_trimEnd (v : Int) (G E M D Ev T C H : List Str) :
    (fileLines v G E M D Ev T C H).map trimEnd =
      fileLines v (G.map trimEnd) (E.map trimEnd) (M.map trimEnd) (D.map trimEnd) (Ev.map trimEnd) (T.map trimEnd)
        (C.map trimEnd) (H.map trimEnd) := by
  unfold fileLines
  rw [List.map_cons, trimEnd_versionLine, blk_map_trimEnd _ _ _ (by decide), blk_map_trimEnd _ _ _ (by decide),
    blk_map_trimEnd _ _ _ (by decide), blk_map_trimEnd _ _ _ (by decide), blk_map_trimEnd _ _ _ (by decide),
    blk_map_trimEnd _ _ _ (by decide), blk_map_trimEnd _ _ _ (by decide), blk_map_trimEnd _ _ _ (by decide)]
  rfl

theorem versionLine_no_lf (v : Int) : '\n' ∉ versionLine v := by
  intro hm
  simp only [versionLine, List.mem_append] at hm
  rcases hm with hm | hm
  · exact absurd hm (by decide)
  · exact intDigits_not_mem v '\n' (by decide) hm

theorem blk_no_lf (h : Str) (rs rest : List Str) (hh : '\n' ∉ h) (hrs : ∀ l ∈ rs, '\n' ∉ l) (hrest : ∀ l ∈ rest, '\n' ∉ l) :
    ∀ l ∈ blk h rs rest, '\n' ∉ l := by
  intro l hl
  simp only [blk, List.mem_cons, List.mem_append] at hl
  rcases hl with hl | hl | hl | hl
  · rw [hl]; intro h0; cases h0
  · rw [hl]; exact hh
  · exact hrs l hl
  · exact hrest l hl

theorem fileLines_no_lf (v : Int) (G E M D Ev T C H : List Str)
    (hG : ∀ l ∈ G, '\n' ∉ l) (hE : ∀ l ∈ E, '\n' ∉ l) (hM : ∀ l ∈ M, '\n' ∉ l) (hD : ∀ l ∈ D, '\n' ∉ l)
    (hEv : ∀ l ∈ Ev, '\n' ∉ l) (hT : ∀ l ∈ T, '\n' ∉ l) (hC : ∀ l ∈ C, '\n' ∉ l) (hH : ∀ l ∈ H, '\n' ∉ l) :
    ∀ l ∈ fileLines v G E M D Ev T C H, '\n' ∉ l := by
  intro l hl
  unfold fileLines at hl
  rcases List.mem_cons.mp hl with hl | hl
  · rw [hl]; exact versionLine_no_lf v
  · exact blk_no_lf _ _ _ (by decide) hG (blk_no_lf _ _ _ (by decide) hE (blk_no_lf _ _ _ (by decide) hM
      (blk_no_lf _ _ _ (by decide) hD (blk_no_lf _ _ _ (by decide) hEv (blk_no_lf _ _ _ (by decide) hT
      (blk_no_lf _ _ _ (by decide) hC (blk_no_lf _ _ _ (by decide) hH (fun _ h0 => by cases h0)))))))) l hl

/-- **the encoder's text is its lines**: with the two list blocks given as lines, `encode` writes exactly
`fileLines`, each line followed by a line feed. -/
theorem encode_eq_unlines {F P : Type} [Scalar F] [Scalar P] [Cvt P F] [Trig F] [Trig P]
    (m : Beatmap F P) (t : Str) (T H : List Str) (h : encode m = .ok t)
    (hT : encodeTimingPoints m = .ok (unlines (str "[TimingPoints]" :: T)))
    (hH : encodeHitObjects m = .ok (unlines (str "[HitObjects]" :: H))) :
    t = unlines (fileLines m.formatVersion (RtGeneral.generalLines m.general (RtGeneral.sampleSetOf m.controlPoints))
      (RtEditor.editorLines m.editor) (RtMetadata.metadataLines m.metadata) (RtDifficulty.difficultyLines m.difficulty)
      (RtEvents.eventLines m.events) T (RtColours.colourLines m.colors) H) := by
  unfold encode at h
  simp only [hT, hH, bind, Except.bind, pure, Except.pure] at h
  injection h with h
  rw [← h, RtGeneral.encodeGeneral_eq, RtEditor.encodeEditor_eq, RtMetadata.encodeMetadata_eq,
    RtDifficulty.encodeDifficulty_eq, RtEvents.encodeEvents_eq, RtColours.encodeColors_eq]
  simp only [fileLines, blk, versionLine, unlines_cons, unlines_append, Encode.nl, EncodeLines.nl,
    List.append_assoc, List.nil_append, List.append_nil, List.cons_append]

/-! ### the framing fold over the file -/

theorem versionOf_versionLine (v : Int) (hlo : -i32Max ≤ v) (hhi : v ≤ i32Max) : versionOf (versionLine v) = some v := by
  have h := version_line_parses v hlo hhi
  have hne : (versionLine v).isEmpty = false := by simp [versionLine, str]
  rw [show str "osu file format v" ++ intDigits v = versionLine v from rfl, tryVersion_nonempty hne] at h
  cases hv : versionOf (versionLine v) with
  | none => rw [hv] at h; cases h
  | some w => rw [hv] at h; injection h with h; rw [h]

/-- **dispatch**: read back through the framing driver, the version line sets the version and each block's
record lines are handed, in order, to exactly that section's parser (and to no other). -/
theorem frame_fileLines {σ : Type} (Dc : LineDecoder σ) (v : Int) (hlo : -i32Max ≤ v) (hhi : v ≤ i32Max)
    (G E M D Ev T C H : List Str)
    (hG : ∀ r ∈ G, RecordLine r) (hE : ∀ r ∈ E, RecordLine r) (hM : ∀ r ∈ M, RecordLine r) (hD : ∀ r ∈ D, RecordLine r)
    (hEv : ∀ r ∈ Ev, RecordLine r) (hT : ∀ r ∈ T, RecordLine r) (hC : ∀ r ∈ C, RecordLine r) (hH : ∀ r ∈ H, RecordLine r) :
    frame Dc (fileLines v G E M D Ev T C H) =
      H.foldl (Dc.step .hitObjects) (C.foldl (Dc.step .colors) (T.foldl (Dc.step .timingPoints)
        (Ev.foldl (Dc.step .events) (D.foldl (Dc.step .difficulty) (M.foldl (Dc.step .metadata)
          (E.foldl (Dc.step .editor) (G.foldl (Dc.step .general) (Dc.create v)))))))) := by
  have hne : (versionLine v).isEmpty = false := by simp [versionLine, str]
  rw [frame_eq_spec]
  unfold spec fileLines blk
  simp only [dropBlank, hne, Bool.false_eq_true, if_false, versionOf_versionLine v hlo hhi, feed]
  rw [feedAll_blank, feedAll_block Dc _ _ .general (by decide) G _ hG,
    feedAll_blank, feedAll_block Dc _ _ .editor (by decide) E _ hE,
    feedAll_blank, feedAll_block Dc _ _ .metadata (by decide) M _ hM,
    feedAll_blank, feedAll_block Dc _ _ .difficulty (by decide) D _ hD,
    feedAll_blank, feedAll_block Dc _ _ .events (by decide) Ev _ hEv,
    feedAll_blank, feedAll_block Dc _ _ .timingPoints (by decide) T _ hT,
    feedAll_blank, feedAll_block Dc _ _ .colors (by decide) C _ hC,
    feedAll_blank, feedAll_block Dc _ _ .hitObjects (by decide) H _ hH]
  rfl

/-! ### the record fields of the `Beatmap` decoder state -/

section
variable {F P : Type} [Scalar F] [Scalar P] [Cvt P F]

/-- the record part of `BeatmapState`: everything except control points and hit objects. -/
structure RecView (F P : Type) where
  version : Int
  general : GeneralState F P
  editor : Editor F
  metadata : Metadata
  difficulty : DifficultyState F P
  events : Events F
  colors : Colors

def recView (st : BeatmapState F P) : RecView F P :=
  { version := st.version, general := st.hitObjects.timingPoints.general, editor := st.editor, metadata := st.metadata,
    difficulty := st.hitObjects.difficulty, events := st.hitObjects.events, colors := st.colors }

theorem tpParseGeneral_general (tp : TimingPointsState F P) (l : Str) :
    (tp.parseGeneral l).2 = { tp with general := (parseGeneral tp.general l).2 } := by
  unfold TimingPointsState.parseGeneral
  cases h : parseGeneral tp.general l with
  | mk r g => cases r <;> rfl

theorem view_general (st : BeatmapState F P) (rs : List Str) :
    recView (rs.foldl (BeatmapState.step .general) st) =
      { recView st with general := runSection RtGeneral.generalStep (recView st).general rs } := by
  induction rs generalizing st with
  | nil => rfl
  | cons r rs ih =>
    rw [List.foldl_cons, ih]
    simp only [runSection_cons]
    simp [recView, BeatmapState.step, HitObjectsState.step, tpParseGeneral_general, RtGeneral.generalStep]

theorem view_editor (st : BeatmapState F P) (rs : List Str) :
    recView (rs.foldl (BeatmapState.step .editor) st) =
      { recView st with editor := runSection parseEditor (recView st).editor rs } := by
  induction rs generalizing st with
  | nil => rfl
  | cons r rs ih => rw [List.foldl_cons, ih]; simp only [runSection_cons]; simp [recView, BeatmapState.step]

theorem view_metadata (st : BeatmapState F P) (rs : List Str) :
    recView (rs.foldl (BeatmapState.step .metadata) st) =
      { recView st with metadata := runSection parseMetadata (recView st).metadata rs } := by
  induction rs generalizing st with
  | nil => rfl
  | cons r rs ih => rw [List.foldl_cons, ih]; simp only [runSection_cons]; simp [recView, BeatmapState.step]

theorem view_colors (st : BeatmapState F P) (rs : List Str) :
    recView (rs.foldl (BeatmapState.step .colors) st) =
      { recView st with colors := runSection parseColors (recView st).colors rs } := by
  induction rs generalizing st with
  | nil => rfl
  | cons r rs ih => rw [List.foldl_cons, ih]; simp only [runSection_cons]; simp [recView, BeatmapState.step]

theorem view_difficulty (st : BeatmapState F P) (rs : List Str) :
    recView (rs.foldl (BeatmapState.step .difficulty) st) =
      { recView st with difficulty := runSection parseDifficulty (recView st).difficulty rs } := by
  induction rs generalizing st with
  | nil => rfl
  | cons r rs ih =>
    rw [List.foldl_cons, ih]; simp only [runSection_cons]; simp [recView, BeatmapState.step, HitObjectsState.step]

theorem view_events (st : BeatmapState F P) (rs : List Str) :
    recView (rs.foldl (BeatmapState.step .events) st) =
      { recView st with events := runSection parseEvents (recView st).events rs } := by
  induction rs generalizing st with
  | nil => rfl
  | cons r rs ih =>
    rw [List.foldl_cons, ih]; simp only [runSection_cons]; simp [recView, BeatmapState.step, HitObjectsState.step]

theorem maybeFlush_general (st : TimingPointsState F P) (t : F) : (maybeFlush st t).general = st.general := by
  unfold maybeFlush; split <;> rfl

theorem addTimingCP_general (st : TimingPointsState F P) (t : F) (p : TimingPoint F) (tc : Bool) :
    (addTimingCP st t p tc).general = st.general := maybeFlush_general st t
theorem addDifficultyCP_general (st : TimingPointsState F P) (t : F) (p : DifficultyPoint F) (tc : Bool) :
    (addDifficultyCP st t p tc).general = st.general := maybeFlush_general st t
theorem addSampleCP_general (st : TimingPointsState F P) (t : F) (p : SamplePoint F) (tc : Bool) :
    (addSampleCP st t p tc).general = st.general := maybeFlush_general st t
theorem addEffectCP_general (st : TimingPointsState F P) (t : F) (p : EffectPoint F) (tc : Bool) :
    (addEffectCP st t p tc).general = st.general := maybeFlush_general st t

theorem applyTpLine_general (st : TimingPointsState F P) (l : TpLine F) : (applyTpLine st l).general = st.general := by
  unfold applyTpLine
  simp only [addEffectCP_general, addSampleCP_general, addDifficultyCP_general]
  split
  · exact addTimingCP_general _ _ _ _
  · rfl

theorem parseTimingPoints_general (tp : TimingPointsState F P) (l : Str) : (parseTimingPoints tp l).2.general = tp.general := by
  unfold parseTimingPoints
  split
  · rfl
  · exact applyTpLine_general _ _

/-- timing-point lines do not touch the record fields. -/
theorem view_timingPoints (st : BeatmapState F P) (rs : List Str) :
    recView (rs.foldl (BeatmapState.step .timingPoints) st) = recView st := by
  induction rs generalizing st with
  | nil => rfl
  | cons r rs ih =>
    rw [List.foldl_cons, ih]
    simp [recView, BeatmapState.step, HitObjectsState.step, parseTimingPoints_general]

/-- hit-object lines do not touch the record fields. -/
theorem view_hitObjects (st : BeatmapState F P) (rs : List Str) :
    recView (rs.foldl (BeatmapState.step .hitObjects) st) = recView st := by
  induction rs generalizing st with
  | nil => rfl
  | cons r rs ih =>
    rw [List.foldl_cons, ih]
    simp [recView, BeatmapState.step, HitObjectsState.step]

/-! ### the whole file -/

/-- the text of an encoded map, read back through the reader (C10's `utf8_lines`): the framing driver is handed the
text's own lines with trailing white space removed. -/
theorem decodeBytes_utf8_text {σ : Type} (D : LineDecoder σ) (t : Str) (h : t.head? ≠ some (Char.ofNat 0xFEFF)) :
    decodeBytes D (utf8Encode t) = .ok (frame D ((textLines t).map trimEnd)) := by
  have hb := C10.fromBom_utf8Encode t h
  rw [C10.decodeBytes_eq, hb, C10.fromBom_none_utf8 _ hb, List.drop_zero, C10.utf8_lines]
  rfl

/-- what is assumed of the lines of the two list blocks: LF-free, and (end-trimmed) neither a header nor skipped. -/
def ListBlockShape (ls : List Str) : Prop := ∀ l ∈ ls, '\n' ∉ l ∧ RecordLine (trimEnd l)

variable {RF : F → Prop} {RP : P → Prop}

/-- a map whose record sections the format can represent. -/
structure RepRecords (RF : F → Prop) (RP : P → Prop) (m : Beatmap F P) : Prop where
  version : -i32Max ≤ m.formatVersion ∧ m.formatVersion ≤ i32Max
  general : RtGeneral.RepGeneral RP m.general
  editor : RtEditor.RepEditor RF m.editor
  metadata : RtMetadata.RepMetadata m.metadata
  difficulty : RtDifficulty.RepDifficulty RF RP m.difficulty
  events : RtEvents.RepEvents RF m.events
  colors : RtColours.RepColors m.colors

/-- the record fields a map carries through the format. -/
def preservedRecords (m : Beatmap F P) : RecView F P :=
  { version := m.formatVersion,
    general := RtGeneral.preservedGeneral m.general (RtGeneral.sampleSetOf m.controlPoints),
    editor := m.editor, metadata := RtMetadata.preservedMetadata m.metadata,
    difficulty := { hasApproachRate := true, difficulty := m.difficulty },
    events := m.events, colors := RtColours.preservedColors m.colors }

theorem recView_create (v : Int) :
    recView (BeatmapState.create v : BeatmapState F P) =
      { version := v, general := GeneralState.default, editor := Editor.default, metadata := Metadata.default,
        difficulty := DifficultyState.create, events := Events.default, colors := Colors.default } := rfl

/-- the record fields after framing the lines of a file whose record blocks are the encoder's. -/
theorem recView_frame (LF : CodecLaws F RF) (LP : CodecLaws P RP) (LI : IntPrintLaw F) (m : Beatmap F P)
    (hm : RepRecords RF RP m) (T H : List Str) (hT : ∀ r ∈ T, RecordLine r) (hH : ∀ r ∈ H, RecordLine r) :
    recView (frame (beatmapDecoder : LineDecoder (BeatmapState F P))
      (fileLines m.formatVersion (RtGeneral.decodedLines m.general (RtGeneral.sampleSetOf m.controlPoints))
        (RtEditor.decodedLines m.editor) (RtMetadata.decodedLines m.metadata) (RtDifficulty.decodedLines m.difficulty)
        (RtEvents.decodedLines m.events) T (RtColours.decodedLines m.colors) H)) = preservedRecords m := by
  rw [frame_fileLines _ _ hm.version.1 hm.version.2 _ _ _ _ _ _ _ _
    (RtGeneral.general_block_roundtrip LI LP _ _ hm.general).1 (RtEditor.editor_block_roundtrip LF _ hm.editor).1
    (RtMetadata.metadata_block_roundtrip _ hm.metadata).1 (RtDifficulty.difficulty_block_roundtrip LF LP _ hm.difficulty).1
    (RtEvents.events_block_roundtrip LF _ hm.events).1 hT (RtColours.colours_block_roundtrip _ hm.colors).1 hH]
  simp only [beatmapDecoder]
  rw [view_hitObjects, view_colors, view_timingPoints, view_events, view_difficulty, view_metadata, view_editor,
    view_general, recView_create]
  simp only [RtGeneral.general_block_result LI LP _ _ hm.general, RtEditor.editor_block_result LF _ hm.editor,
    RtMetadata.metadata_block_result _ hm.metadata, RtDifficulty.difficulty_block_result LF LP _ hm.difficulty,
    RtEvents.events_block_result LF _ hm.events, RtColours.colours_block_result _ hm.colors]
  rfl

variable [Trig F] [Trig P]

/-- **file_record_roundtrip**: encode a map whose record sections are representable, under the codec laws;
if the two list blocks consist of LF-terminated record lines, then reading the UTF-8 bytes of the text back with
the `Beatmap` decoder succeeds (no I/O error) and leaves, in the decoder state, exactly the map's record fields on
the preserved view: format version, general, editor, metadata, difficulty, events, colours. -/
theorem file_record_roundtrip (LF : CodecLaws F RF) (LP : CodecLaws P RP) (LI : IntPrintLaw F) (m : Beatmap F P)
    (hm : RepRecords RF RP m) (t : Str) (T H : List Str) (h : encode m = .ok t)
    (hT : encodeTimingPoints m = .ok (unlines (str "[TimingPoints]" :: T)))
    (hH : encodeHitObjects m = .ok (unlines (str "[HitObjects]" :: H)))
    (sT : ListBlockShape T) (sH : ListBlockShape H) :
    ∃ st : BeatmapState F P, decodeBytes beatmapDecoder (utf8Encode t) = .ok st ∧ recView st = preservedRecords m := by
  have ht := encode_eq_unlines m t T H h hT hH
  have hhead : t.head? ≠ some (Char.ofNat 0xFEFF) := by
    rw [ht]
    have : ∀ rest, (unlines (versionLine m.formatVersion :: rest)).head? = some 'o' := by
      intro rest
      have e : versionLine m.formatVersion = 'o' :: (str "su file format v" ++ showInt m.formatVersion) := rfl
      rw [unlines_cons, e]
      rfl
    unfold fileLines
    rw [this]
    decide
  refine ⟨_, decodeBytes_utf8_text _ t hhead, ?_⟩
  have hlines : (textLines t).map trimEnd =
      fileLines m.formatVersion (RtGeneral.decodedLines m.general (RtGeneral.sampleSetOf m.controlPoints))
        (RtEditor.decodedLines m.editor) (RtMetadata.decodedLines m.metadata) (RtDifficulty.decodedLines m.difficulty)
        (RtEvents.decodedLines m.events) (T.map trimEnd) (RtColours.decodedLines m.colors) (H.map trimEnd) := by
    rw [ht]
    exact (lines_of_unlines _ (fileLines_no_lf _ _ _ _ _ _ _ _ _
      (RtGeneral.generalLines_no_lf LI LP _ _ hm.general) (RtEditor.editorLines_no_lf LF _ hm.editor)
      (RtMetadata.metadataLines_no_lf _ hm.metadata) (RtDifficulty.difficultyLines_no_lf LF LP _ hm.difficulty)
      (RtEvents.eventLines_no_lf LF _ hm.events) (fun l hl => (sT l hl).1) (RtColours.colourLines_no_lf _ hm.colors)
      (fun l hl => (sH l hl).1))).trans (fileLines_map_trimEnd _ _ _ _ _ _ _ _ _)
  rw [hlines]
  exact recView_frame LF LP LI m hm _ _
    (fun r hr => by obtain ⟨l, hl, rfl⟩ := List.mem_map.mp hr; exact (sT l hl).2)
    (fun r hr => by obtain ⟨l, hl, rfl⟩ := List.mem_map.mp hr; exact (sH l hl).2)

/-- `From<BeatmapState> for Beatmap` copies the record fields (whenever finalisation succeeds). -/
theorem finish_records (st : BeatmapState F P) (b : Beatmap F P) (h : st.finish = .ok b) :
    b.formatVersion = (recView st).version ∧ b.general = (recView st).general ∧ b.editor = (recView st).editor ∧
    b.metadata = (recView st).metadata ∧ b.difficulty = (recView st).difficulty.difficulty ∧
    b.events = (recView st).events ∧ b.colors = (recView st).colors := by
  unfold BeatmapState.finish at h
  cases hho : st.hitObjects.finish with
  | error e => simp [hho, bind, Except.bind] at h
  | ok ho =>
    simp only [hho, bind, Except.bind, pure, Except.pure] at h
    injection h with h
    subst h
    unfold HitObjectsState.finish at hho
    simp only [bind, Except.bind, pure, Except.pure] at hho
    split at hho
    · cases hho
    · injection hho with hho
      subst hho
      exact ⟨rfl, rfl, rfl, rfl, rfl, rfl, rfl⟩

/-- **decoded_records_roundtrip**: … and if finalisation of that state succeeds, the re-decoded `Beatmap` has exactly
the original map's record fields on the preserved view. -/
theorem decoded_records_roundtrip (LF : CodecLaws F RF) (LP : CodecLaws P RP) (LI : IntPrintLaw F) (m : Beatmap F P)
    (hm : RepRecords RF RP m) (t : Str) (T H : List Str) (h : encode m = .ok t)
    (hT : encodeTimingPoints m = .ok (unlines (str "[TimingPoints]" :: T)))
    (hH : encodeHitObjects m = .ok (unlines (str "[HitObjects]" :: H)))
    (sT : ListBlockShape T) (sH : ListBlockShape H) :
    ∃ st : BeatmapState F P, decodeBytes beatmapDecoder (utf8Encode t) = .ok st ∧
      ∀ m2 : Beatmap F P, st.finish = .ok m2 →
        m2.formatVersion = m.formatVersion ∧
        m2.general = RtGeneral.preservedGeneral m.general (RtGeneral.sampleSetOf m.controlPoints) ∧
        m2.editor = m.editor ∧ m2.metadata = RtMetadata.preservedMetadata m.metadata ∧ m2.difficulty = m.difficulty ∧
        m2.events = m.events ∧ m2.colors = RtColours.preservedColors m.colors := by
  obtain ⟨st, hst, hv⟩ := file_record_roundtrip LF LP LI m hm t T H h hT hH sT sH
  refine ⟨st, hst, fun m2 h2 => ?_⟩
  have := finish_records st m2 h2
  rw [hv] at this
  exact this

end

end RtFile
end Rosu
