/-
  Lemmas/FloatModelOfInt.lean — `Float.ofInt` on integers below 2^53, in Lean core's logical float model.
  `Float.ofInt z` → `Float.ofNat n` → `Float.ofScientific n false 0` → (fast path) `n.toUInt64.toFloat * 1.0`, where
  `UInt64.toFloat u = .ofModel (pack (round .positive u.toNat 0))`. Proved here:
  * `roundWithAccuracy_exact`: rounding `m · 2^j` at exponent `e − j` with a canonical `(m, e)` drops no set bit and returns
    `(m, e)`; `round_exact`: the conversion of an integer below `2^mantissaBits` is exact;
  * multiplication by `1.0` is the identity on such values; the resulting pattern is
    `(1023 + log2 n) · 2^52 + (n · 2^(52 − log2 n) − 2^52)`, which is `roundRat fmt64 n 1` (the pattern `parseBits` assigns to the
    decimal digits of `n`): `float_ofNat_bits`, `float_ofInt_bits`.
-/
import RosuModel.Lemmas.FloatModelBits
import RosuModel.Lemmas.FloatCodecLawsInst
namespace Rosu.FM
open Float.Model Float.Model.UnpackedFloat

/-! ## shifting out zero bits -/

theorem repeat_shiftRightOne (m j : Nat) :
    Nat.repeat ExtendedMantissa.shiftRightOne j ⟨m * 2 ^ j, false, false⟩ = ⟨m, false, false⟩ := by
  induction j generalizing m with
  | zero => simp [Nat.repeat]
  | succ j ih =>
    show ExtendedMantissa.shiftRightOne (Nat.repeat ExtendedMantissa.shiftRightOne j ⟨m * 2 ^ (j + 1), false, false⟩) = _
    rw [Nat.pow_succ, Nat.mul_comm (2 ^ j), ← Nat.mul_assoc, ih]
    unfold ExtendedMantissa.shiftRightOne
    simp

theorem log2_mul_pow {m : Nat} (hm : 0 < m) (j : Nat) : (m * 2 ^ j).log2 = m.log2 + j := by
  have hj : 0 < 2 ^ j := Nat.pow_pos (by decide)
  have h := (Nat.log2_eq_iff (n := m) (k := m.log2) (by omega)).mp rfl
  rw [Nat.log2_eq_iff (Nat.mul_ne_zero (by omega) (by omega))]
  constructor
  · rw [Nat.pow_add]; exact Nat.mul_le_mul_right _ h.1
  · rw [show m.log2 + j + 1 = (m.log2 + 1) + j by omega, Nat.pow_add]
    exact Nat.mul_lt_mul_of_pos_right h.2 hj

theorem totalExponent_mul_pow {m : Nat} (hm : 0 < m) (j : Nat) (e : Int) :
    totalExponent (m * 2 ^ j) (e - j) = totalExponent m e := by
  unfold totalExponent
  rw [log2_mul_pow hm]
  omega

/-- **rounding is exact when only zero bits are dropped**: `(m, e)` canonical for the format. -/
theorem roundWithAccuracy_exact (spec : Format) (s : Sign) (m j : Nat) (e : Int) (hm : 0 < m)
    (hc : spec.targetExponent (totalExponent m e) = e) :
    roundWithAccuracy spec s (m * 2 ^ j) (e - j) .exact = .finite s m e hm := by
  unfold roundWithAccuracy shiftToTargetExponent shiftToExponent
  have h1 : (e - (e - (j : Int))).toNat = j := by omega
  have h2 : e - (j : Int) + (j : Int) = e := by omega
  have hshift : ∀ (x : ExtendedMantissa) (k : Nat), x >>> k = Nat.repeat ExtendedMantissa.shiftRightOne k x :=
    fun _ _ => rfl
  have hofm : ∀ m, ExtendedMantissa.ofMantissaAndAccuracy m .exact = ⟨m, false, false⟩ := fun _ => rfl
  have hrm : ∀ m, (⟨m, false, false⟩ : ExtendedMantissa).roundedMantissa = m := fun _ => rfl
  simp only [totalExponent_mul_pow hm, h1, h2, hshift, hofm, repeat_shiftRightOne, hrm, hc, Int.sub_self,
    Int.toNat_zero, Nat.repeat]
  rw [dif_neg (by omega)]
  congr 1
  omega

theorem roundWithAccuracy_exact' (spec : Format) (s : Sign) (m j : Nat) (e : Int) (hm : 0 < m)
    (hc : spec.targetExponent (totalExponent m e) = e) (M0 : Nat) (e0 : Int) (hM : M0 = m * 2 ^ j)
    (he : e0 = e - j) : roundWithAccuracy spec s M0 e0 .exact = .finite s m e hm := by
  subst hM he
  exact roundWithAccuracy_exact spec s m j e hm hc

theorem minExponent_le (spec : Format) (hE : 2 ≤ spec.exponentBits) :
    spec.minExponent ≤ -(spec.mantissaBitsWithoutImplicit : Int) := by
  unfold Format.minExponent Format.mantissaBits
  have : 2 ^ 1 ≤ 2 ^ (spec.exponentBits - 1) := Nat.pow_le_pow_right (by decide) (by omega)
  have h2 : ((2 : Int) ^ (spec.exponentBits - 1)) = ((2 ^ (spec.exponentBits - 1) : Nat) : Int) := by
    rw [Int.natCast_pow]; rfl
  rw [h2]
  omega

/-- a mantissa with `M + 1` bits at an exponent `≥ −M` is canonical. -/
theorem canonical_of_full (spec : Format) (hE : 2 ≤ spec.exponentBits) (m : Nat) (e : Int)
    (hl : m.log2 = spec.mantissaBitsWithoutImplicit) (he : -(spec.mantissaBitsWithoutImplicit : Int) ≤ e) :
    spec.targetExponent (totalExponent m e) = e := by
  have := minExponent_le spec hE
  unfold Format.targetExponent totalExponent Format.mantissaBits
  rw [hl]
  omega

/-- **the conversion of a positive integer below `2^(M+1)` is exact**: mantissa `n · 2^(M − log2 n)`, exponent `log2 n − M`. -/
theorem round_int_exact (spec : Format) (hE : 2 ≤ spec.exponentBits) (s : Sign) (n : Nat) (hn : 0 < n)
    (hlt : n < 2 ^ (spec.mantissaBitsWithoutImplicit + 1)) :
    round spec s n 0 = .finite s (n * 2 ^ (spec.mantissaBitsWithoutImplicit - n.log2))
      ((n.log2 : Int) - spec.mantissaBitsWithoutImplicit) (Nat.mul_pos hn (Nat.pow_pos (by decide))) := by
  have hlog : n.log2 < spec.mantissaBitsWithoutImplicit + 1 := (Nat.log2_lt (by omega)).mpr hlt
  have hmin := minExponent_le spec hE
  have htgt : spec.targetExponent (totalExponent n 0) = (n.log2 : Int) - spec.mantissaBitsWithoutImplicit := by
    unfold Format.targetExponent totalExponent Format.mantissaBits
    omega
  unfold round decreaseExponent
  simp only [htgt]
  apply roundWithAccuracy_exact' (j := 0)
  · apply canonical_of_full spec hE
    · rw [log2_mul_pow hn]; omega
    · omega
  · rw [Nat.shiftLeft_eq, Nat.pow_zero, Nat.mul_one]
    congr 2
    omega
  · omega

/-! ## binary64: `Float.ofNat n` for `0 < n < 2^53` -/

theorem intM_bounds {n : Nat} (hn : 0 < n) (hlt : n < 2 ^ 53) :
    2 ^ 52 ≤ n * 2 ^ (52 - n.log2) ∧ n * 2 ^ (52 - n.log2) < 2 ^ 53 ∧ n.log2 ≤ 52 := by
  have hlog : n.log2 < 53 := (Nat.log2_lt (by omega)).mpr hlt
  have h := (Nat.log2_eq_iff (n := n) (k := n.log2) (by omega)).mp rfl
  have hj : 0 < 2 ^ (52 - n.log2) := Nat.pow_pos (by decide)
  refine ⟨?_, ?_, by omega⟩
  · calc 2 ^ 52 = 2 ^ n.log2 * 2 ^ (52 - n.log2) := by rw [← Nat.pow_add]; congr 1; omega
      _ ≤ _ := Nat.mul_le_mul_right _ h.1
  · calc n * 2 ^ (52 - n.log2) < 2 ^ (n.log2 + 1) * 2 ^ (52 - n.log2) := Nat.mul_lt_mul_of_pos_right h.2 hj
      _ = 2 ^ 53 := by rw [← Nat.pow_add]; congr 1; omega

theorem unpacked_ofNat {n : Nat} (hn : 0 < n) (hlt : n < 2 ^ 53) :
    UnpackedFloat.ofNat Format.binary64 n =
      .finite .positive (n * 2 ^ (52 - n.log2)) ((n.log2 : Int) - 52) (Nat.mul_pos hn (Nat.pow_pos (by decide))) := by
  unfold UnpackedFloat.ofNat UnpackedFloat.ofInt normalize
  rw [Int.compare_eq_gt.mpr (by omega)]
  simp only [Int.toNat_natCast]
  exact round_int_exact Format.binary64 (by decide) .positive n hn hlt

theorem bias64 : Format.binary64.exponentBias = 1023 := rfl

/-- the model value of `u.toFloat`, unpacked. -/
theorem unpack_ofUInt64 (u : UInt64) (hn : 0 < u.toNat) (hlt : u.toNat < 2 ^ 53) :
    (Float.Model.ofUInt64 u).unpack =
      .finite .positive (u.toNat * 2 ^ (52 - u.toNat.log2)) ((u.toNat.log2 : Int) - 52)
        (Nat.mul_pos hn (Nat.pow_pos (by decide))) := by
  obtain ⟨b1, b2, b3⟩ := intM_bounds hn hlt
  show UnpackedFloat.unpack Format.binary64 (pack Format.binary64 (UnpackedFloat.ofNat Format.binary64 u.toNat)) = _
  rw [unpacked_ofNat hn hlt]
  have h3 : 0 < ((u.toNat.log2 : Int) - 52) + ((1023 : Nat) : Int) + ((52 : Nat) : Int) := by omega
  have h4 : ((u.toNat.log2 : Int) - 52) + ((1023 : Nat) : Int) + ((52 : Nat) : Int) < ((2047 : Nat) : Int) := by omega
  exact unpack_pack_normal (spec := Format.binary64) (by decide) _ _ _ _ b1 b2 h3 h4

/-- `1.0`, unpacked. -/
theorem unpack_one : (Float.ofBits 0x3FF0000000000000).toModel.unpack = .finite .positive (2 ^ 52) (-52) (by decide) := by
  rw [float_unpack_ofBits _ (by decide)]
  rfl

/-- multiplying a canonical value by `1.0` returns it. -/
theorem mul_one_unpacked (m : Nat) (e : Int) (hm : 0 < m) (hl : m.log2 = 52) (he : -52 ≤ e) :
    UnpackedFloat.mul Format.binary64 (.finite .positive m e hm) (.finite .positive (2 ^ 52) (-52) (by decide)) =
      .finite .positive m e hm := by
  show roundWithAccuracy Format.binary64 (.positive * .positive) (m * 2 ^ 52) (e + -52) .exact = _
  exact roundWithAccuracy_exact' Format.binary64 _ m 52 e hm
    (canonical_of_full Format.binary64 (by decide) m e hl he) _ _ rfl (by omega)

theorem float_ofNat_eq (n : Nat) (hlt : n < 2 ^ 53) :
    Float.ofNat n = n.toUInt64.toFloat * Float.ofBits 0x3FF0000000000000 := by
  show Float.ofScientific n false 0 = _
  unfold Float.ofScientific
  rw [dif_pos ⟨hlt, by decide⟩]
  rfl

/-- **the model value of `Float.ofNat n`** for `0 < n < 2^53`: the exact, canonical `(n · 2^(52 − log2 n), log2 n − 52)`. -/
theorem float_ofNat_model {n : Nat} (hn : 0 < n) (hlt : n < 2 ^ 53) :
    (Float.ofNat n).toModel =
      Float.Model.pack (.finite .positive (n * 2 ^ (52 - n.log2)) ((n.log2 : Int) - 52)
        (Nat.mul_pos hn (Nat.pow_pos (by decide)))) := by
  have hu : n.toUInt64.toNat = n := by
    show (UInt64.ofNat n).toNat = n
    rw [UInt64.toNat_ofNat']; exact Nat.mod_eq_of_lt (by omega)
  obtain ⟨b1, b2, b3⟩ := intM_bounds hn hlt
  rw [float_ofNat_eq n hlt]
  show Float.Model.pack (UnpackedFloat.mul Format.binary64 (Float.Model.ofUInt64 n.toUInt64).unpack
    (Float.ofBits 0x3FF0000000000000).toModel.unpack) = _
  rw [unpack_one, unpack_ofUInt64 _ (by omega) (by omega)]
  simp only [hu]
  rw [mul_one_unpacked _ _ _ ((Nat.log2_eq_iff (by omega)).mpr ⟨b1, b2⟩) (by omega)]

/-! ## the bit pattern -/

/-- the binary64 pattern of the positive integer `n < 2^53`: exponent field `1023 + log2 n`, fraction
`n · 2^(52 − log2 n) − 2^52`. -/
def intPat (n : Nat) : Nat := (1023 + n.log2) * 2 ^ 52 + (n * 2 ^ (52 - n.log2) - 2 ^ 52)

theorem pack_int_toNat (s : Sign) {n : Nat} (hn : 0 < n) (hlt : n < 2 ^ 53) :
    (pack Format.binary64 (.finite s (n * 2 ^ (52 - n.log2)) ((n.log2 : Int) - 52)
      (Nat.mul_pos hn (Nat.pow_pos (by decide))))).toNat = s.toBitVec.toNat * 2 ^ 63 + intPat n := by
  obtain ⟨b1, b2, b3⟩ := intM_bounds hn hlt
  have hb : ((n.log2 : Int) - 52 + ((1023 : Nat) : Int) + ((52 : Nat) : Int)).toNat = 1023 + n.log2 := by omega
  rw [pack_finite, bias64]
  show (if 2 ^ 11 ≤ ((n.log2 : Int) - 52 + ((1023 : Nat) : Int) + ((52 : Nat) : Int)).toNat + 1 then _ else
    if (n * 2 ^ (52 - n.log2)).log2 + 1 = 53 then
      packComponents Format.binary64 s
        (BitVec.ofNat 11 ((n.log2 : Int) - 52 + ((1023 : Nat) : Int) + ((52 : Nat) : Int)).toNat)
        (BitVec.ofNat 52 (n * 2 ^ (52 - n.log2)))
    else _).toNat = _
  rw [hb, if_neg (by omega), if_pos (by rw [(Nat.log2_eq_iff (by omega)).mpr ⟨b1, b2⟩]), toNat_packComponents,
    BitVec.toNat_ofNat, BitVec.toNat_ofNat]
  show s.toBitVec.toNat * 2 ^ (11 + 52) + (1023 + n.log2) % 2 ^ 11 * 2 ^ 52 + n * 2 ^ (52 - n.log2) % 2 ^ 52 = _
  unfold intPat
  generalize n * 2 ^ (52 - n.log2) = m at *
  generalize n.log2 = L at *
  omega

/-- **the bit pattern of `Float.ofNat n`**, `0 < n < 2^53`. -/
theorem float_ofNat_bits {n : Nat} (hn : 0 < n) (hlt : n < 2 ^ 53) : (Float.ofNat n).toBits.toNat = intPat n := by
  show (Float.ofNat n).toModel.toBits.toNat = _
  rw [float_ofNat_model hn hlt]
  show (pack Format.binary64 _).toNat = _
  rw [pack_int_toNat .positive hn hlt]
  show 0 * 2 ^ 63 + intPat n = intPat n
  omega

theorem float_ofNat_zero_bits : (Float.ofNat 0).toBits.toNat = 0 := by decide +kernel

/-- … and of its negation. -/
theorem float_neg_ofNat_bits {n : Nat} (hn : 0 < n) (hlt : n < 2 ^ 53) :
    (Float.neg (Float.ofNat n)).toBits.toNat = 2 ^ 63 + intPat n := by
  obtain ⟨b1, b2, b3⟩ := intM_bounds hn hlt
  show (Float.Model.pack (Float.ofNat n).toModel.unpack.neg).toBits.toNat = _
  rw [float_ofNat_model hn hlt]
  show (pack Format.binary64 (UnpackedFloat.unpack Format.binary64 (pack Format.binary64 _)).neg).toNat = _
  have h3 : 0 < ((n.log2 : Int) - 52) + ((1023 : Nat) : Int) + ((52 : Nat) : Int) := by omega
  have h4 : ((n.log2 : Int) - 52) + ((1023 : Nat) : Int) + ((52 : Nat) : Int) < ((2047 : Nat) : Int) := by omega
  rw [unpack_pack_normal (spec := Format.binary64) (by decide) _ _ _ _ b1 b2 h3 h4]
  show (pack Format.binary64 (.finite .negative _ _ _)).toNat = _
  rw [pack_int_toNat .negative hn hlt]
  show 1 * 2 ^ 63 + intPat n = _
  omega

/-! ## `intPat n` is the pattern `roundRat` (hence `parseBits`) assigns to `n` -/

/-- a finite positive pattern whose value is the integer `n` is what `roundRat` returns on `n/1`
(the argument of `FCL.roundRat_int`, for a given pattern). -/
theorem roundRat_eq_of_intPattern (f : FloatFmt) (hp : 2 ≤ f.p) (b n : Nat) (hb0 : 0 < b) (hbi : b < f.infBits)
    (hb : FCL.IntPattern f b n) : roundRat f n 1 = b := by
  have hm0 := (FCL.decompose_facts f (by omega) b hb0).1
  have hI : FCL.InIv f b n 1 := by
    refine FCL.exact_inIv f b n 1 (by decide) hm0 ?_
    obtain ⟨_, hexp, hmant⟩ := hb
    have hN : FCL.pN 2 ((decompose f b).2 - 2) = 1 := by
      unfold FCL.pN; rw [show ((decompose f b).2 - 2).toNat = 0 by omega]
    have hD : FCL.pD 2 ((decompose f b).2 - 2) = 4 * 2 ^ (-(decompose f b).2).toNat := by
      unfold FCL.pD
      rw [show (-((decompose f b).2 - 2)).toNat = (-(decompose f b).2).toNat + 2 by omega, Nat.pow_add]
      omega
    rw [hN, hD, hmant]
    generalize 2 ^ (-(decompose f b).2).toNat = S
    grind
  exact FCL.roundRat_of_inInterval f hp b hb0 hbi n 1 hb.pos (by decide) hI

theorem intPat_fields {n : Nat} (hn : 0 < n) (hlt : n < 2 ^ 53) :
    intPat n / 2 ^ 52 = 1023 + n.log2 ∧ intPat n % 2 ^ 52 = n * 2 ^ (52 - n.log2) - 2 ^ 52 ∧
    0 < intPat n ∧ intPat n < 0x7FF0000000000000 := by
  obtain ⟨b1, b2, b3⟩ := intM_bounds hn hlt
  unfold intPat
  generalize n * 2 ^ (52 - n.log2) = m at *
  generalize n.log2 = L at *
  omega

theorem intPattern_intPat {n : Nat} (hn : 0 < n) (hlt : n < 2 ^ 53) : FCL.IntPattern fmt64 (intPat n) n := by
  obtain ⟨b1, b2, b3⟩ := intM_bounds hn hlt
  obtain ⟨f1, f2, f3, f4⟩ := intPat_fields hn hlt
  have e52 : fmt64.p - 1 = 52 := rfl
  have hd := FCL.decompose_norm fmt64 (intPat n)
  rw [e52, f1, f2, show fmt64.bias = 1023 from by decide] at hd
  have hd' : decompose fmt64 (intPat n) = (n * 2 ^ (52 - n.log2), (n.log2 : Int) - 52) := by
    rw [hd (by omega), Prod.mk.injEq]
    constructor <;> omega
  refine ⟨hn, ?_, ?_⟩
  · rw [hd']; show (n.log2 : Int) - 52 ≤ 0; omega
  · rw [hd']
    show n * 2 ^ (52 - n.log2) = n * 2 ^ (-((n.log2 : Int) - 52)).toNat
    rw [show (-((n.log2 : Int) - 52)).toNat = 52 - n.log2 by omega]

/-- **`intPat n = roundRat fmt64 n 1`**: the model's integer conversion and the decimal parser agree. -/
theorem roundRat_int_eq {n : Nat} (hn : 0 < n) (hlt : n < 2 ^ 53) : roundRat fmt64 n 1 = intPat n := by
  obtain ⟨f1, f2, f3, f4⟩ := intPat_fields hn hlt
  exact roundRat_eq_of_intPattern fmt64 (by decide) (intPat n) n f3
    (by show intPat n < 0x7FF0000000000000; exact f4) (intPattern_intPat hn hlt)

/-- **`Float.ofInt z` has the bit pattern `intBits fmt64 z`** for every `|z| < 2^53`. -/
theorem float_ofInt_bits (z : Int) (hz : z.natAbs < 2 ^ 53) : (Float.ofInt z).toBits.toNat = FCL.intBits fmt64 z := by
  unfold FCL.intBits
  cases z with
  | ofNat n =>
    have hn : (Int.ofNat n).natAbs = n := rfl
    rw [hn] at hz ⊢
    rw [if_neg (show ¬ Int.ofNat n < 0 from Int.not_lt.mpr (Int.natCast_nonneg n))]
    show (Float.ofNat n).toBits.toNat = _
    by_cases h0 : n = 0
    · subst h0; rw [float_ofNat_zero_bits]; rfl
    · rw [float_ofNat_bits (by omega) hz, roundRat_int_eq (by omega) hz]
  | negSucc n =>
    have hn : (Int.negSucc n).natAbs = n + 1 := rfl
    rw [hn] at hz ⊢
    rw [if_pos (Int.negSucc_lt_zero n)]
    show (Float.neg (Float.ofNat (n + 1))).toBits.toNat = _
    rw [float_neg_ofNat_bits (by omega) hz, roundRat_int_eq (by omega) hz]
    rfl

end Rosu.FM
