/-
  Lemmas/SliderLine.lean — the hit-object line of a slider under the codec laws: the text `encode_hit_objects` writes
  (`encodeObject_slider`), its shape (`slider_line_shape`), the fields before the path (`sliderPrelude_line`: repeat
  count, length, node sounds and node banks) and the whole line against `parse_hit_objects`
  (`slider_line_roundtrip`).
-/
import RosuModel.Lemmas.SliderPathDec
set_option linter.unusedSectionVars false
namespace Rosu
namespace SliderRt
open Rosu Encode EncodeLines Scalar RtObjects C14

/-! ### `|`-separated lists written by index -/

theorem flatMap_congr' {α β : Type} (l : List α) (f g : α → List β) (h : ∀ x ∈ l, f x = g x) :
    l.flatMap f = l.flatMap g := by
  induction l with
  | nil => rfl
  | cons a l ih => simp only [List.flatMap_cons, h a (by simp), ih (fun x hx => h x (by simp [hx]))]

theorem zip_map_self {α β γ : Type} (l : List α) (f : α → β) (g : α → γ) :
    (l.map f).zip (l.map g) = l.map (fun x => (f x, g x)) := by
  induction l with
  | nil => rfl
  | cons a l ih => simp only [List.map_cons, List.zip_cons_cons, ih]

theorem range_flatMap_term (f : Nat → Str) (n : Nat) :
    (List.range (n + 1)).flatMap (fun i => f i ++ [if i == n then ',' else '|']) = term ((List.range (n + 1)).map f) := by
  rw [List.range_succ, List.flatMap_append, List.map_append, term_append _ _ (by simp)]
  simp only [List.flatMap_cons, List.flatMap_nil, List.append_nil, beq_self_eq_true, if_true, List.map_cons, List.map_nil, term]
  congr 1
  rw [List.flatMap_map]
  apply flatMap_congr'
  intro i hi
  have : i ≠ n := by have := List.mem_range.mp hi; omega
  simp [this]

/-! ### lines with path characters -/

/-- a character that may occur inside a field of a hit-object line. -/
def LineChar (c : Char) : Prop := c ≠ '/' ∧ c ≠ ',' ∧ c ≠ '\n' ∧ c ≠ '[' ∧ isWs c = false

theorem lineChar_of_field {c : Char} (h : numChar c = true ∨ c = ':') : LineChar c := by
  obtain ⟨h1, h2, h3, h4, h5⟩ := fieldChar_facts h
  exact ⟨h1, h2, h3, h4, h5⟩

theorem lineChar_of_path {c : Char} (h : PathChar c ∨ c = '|') : LineChar c := by
  rcases h with h | h
  · obtain ⟨_, h2, h3, h4, h5, h6⟩ := pathChar_facts h
    exact ⟨h3, h2, h4, h5, h6⟩
  · subst h; exact ⟨by decide, by decide, by decide, by decide, by decide⟩

/-- `line_facts` of Lemmas/RtObjects.lean for fields over the larger alphabet. -/
theorem line_facts' (c0 : Char) (r0 : Str) (init : List Str) (A f : Str)
    (h0 : ∀ c ∈ c0 :: r0, LineChar c) (hinit : ∀ s ∈ init, ∀ c ∈ s, LineChar c) (hA : ∀ c ∈ A, LineChar c)
    (hf : RepSampleFile f) :
    '\n' ∉ joinComma ((c0 :: r0) :: init ++ [A ++ ':' :: f]) ∧
    RecordLine (trimEnd (joinComma ((c0 :: r0) :: init ++ [A ++ ':' :: f]))) ∧
    trimComment (trimEnd (joinComma ((c0 :: r0) :: init ++ [A ++ ':' :: f]))) = joinComma ((c0 :: r0) :: init ++ [A ++ ':' :: f]) ∧
    splitOn ',' (joinComma ((c0 :: r0) :: init ++ [A ++ ':' :: f])) = (c0 :: r0) :: init ++ [A ++ ':' :: f] := by
  have hall : ∀ s ∈ (c0 :: r0) :: init ++ [A], ∀ c ∈ s, LineChar c := by
    intro s hs
    simp only [List.cons_append, List.mem_cons, List.mem_append, List.not_mem_nil, or_false] at hs
    rcases hs with hs | hs | hs
    · rw [hs]; exact h0
    · exact hinit s hs
    · rw [hs]; exact hA
  have hpre : ∀ c ∈ joinComma ((c0 :: r0) :: init ++ [A]), LineChar c ∨ c = ',' :=
    joinComma_chars _ (fun c => LineChar c ∨ c = ',') (Or.inr rfl) (fun s hs c hc => Or.inl (hall s hs c hc))
  have hslash : '/' ∉ joinComma ((c0 :: r0) :: init ++ [A]) := by
    intro hm
    rcases hpre _ hm with h | h
    · exact h.1 rfl
    · exact absurd h (by decide)
  have hlf : '\n' ∉ joinComma ((c0 :: r0) :: init ++ [A]) := by
    intro hm
    rcases hpre _ hm with h | h
    · exact h.2.2.1 rfl
    · exact absurd h (by decide)
  have hl : joinComma ((c0 :: r0) :: init ++ [A ++ ':' :: f]) = joinComma ((c0 :: r0) :: init ++ [A]) ++ ':' :: f := by
    have := joinComma_snoc_append ((c0 :: r0) :: init) A (':' :: f)
    simpa using this
  have htrim : trimEnd (joinComma ((c0 :: r0) :: init ++ [A ++ ':' :: f])) = joinComma ((c0 :: r0) :: init ++ [A ++ ':' :: f]) := by
    rw [hl, trimEnd_append_cons _ ':' f (by decide), hf.trimmed]
  have hds : hasDS (joinComma ((c0 :: r0) :: init ++ [A ++ ':' :: f])) = false := by
    rw [hl]
    exact hasDS_append_sep _ ':' f (hasDS_of_no_slash _ hslash) (by decide) hf.noDS
  refine ⟨?_, ?_, ?_, ?_⟩
  · rw [hl]
    intro hm
    rcases List.mem_append.mp hm with hm | hm
    · exact hlf hm
    · rcases List.mem_cons.mp hm with hm | hm
      · exact absurd hm (by decide)
      · exact hf.noLf hm
  · rw [htrim]
    have hc0 := h0 c0 (by simp)
    have : joinComma ((c0 :: r0) :: init ++ [A ++ ':' :: f]) = c0 :: (r0 ++ (init ++ [A ++ ':' :: f]).flatMap (fun y => ',' :: y)) := by
      simp [joinComma]
    rw [this]
    exact recordLine_of_head c0 _ hc0.2.2.2.1 hc0.1 hc0.2.2.2.2
  · rw [htrim, trimComment_of_not_hasDS _ hds, htrim]
  · apply splitOn_joinComma _ _ (by simp)
    intro s hs
    simp only [List.cons_append, List.mem_cons, List.mem_append, List.not_mem_nil, or_false] at hs
    rcases hs with hs | hs | hs
    · rw [hs]; intro hm; exact (h0 _ hm).2.1 rfl
    · intro hm; exact (hinit s hs _ hm).2.1 rfl
    · rw [hs]
      intro hm
      rcases List.mem_append.mp hm with hm | hm
      · exact (hA _ hm).2.1 rfl
      · rcases List.mem_cons.mp hm with hm | hm
        · exact absurd hm (by decide)
        · exact hf.noComma hm

/-! ### type bits -/

theorem slider_type_bits : ∀ co ∈ ([0, 1, 2, 3, 4, 5, 6, 7] : List Int), ∀ nc : Bool,
    i32Min ≤ orBits (orBits (wrapI32 (co * 16)) (if nc then 4 else 0)) 2 ∧
    orBits (orBits (wrapI32 (co * 16)) (if nc then 4 else 0)) 2 ≤ i32Max ∧
    classify (maskedType (orBits (orBits (wrapI32 (co * 16)) (if nc then 4 else 0)) 2)) = some .slider ∧
    maskedType (orBits (orBits (wrapI32 (co * 16)) (if nc then 4 else 0)) 2) = 2 ∧
    newComboOf (orBits (orBits (wrapI32 (co * 16)) (if nc then 4 else 0)) 2) = nc ∧
    comboOffsetOf (orBits (orBits (wrapI32 (co * 16)) (if nc then 4 else 0)) 2) = co := by decide

/-! ### node sounds and node banks -/

/-- `read_custom_sample_banks` with `banks_only`: the two banks of `normal:addition[:…]`. -/
theorem read_banks (self : SampleBankInfo) (nb ab : SampleBank) (more : List Str) (banksOnly : Bool)
    (h : banksOnly = true ∨ more = []) :
    self.readCustomSampleBanks (showNat nb.idx :: showNat ab.idx :: more) banksOnly =
      ({ self with bankForNormal := someUnlessNone nb,
                   bankForAddition := (someUnlessNone ab).orElse (fun _ => someUnlessNone nb),
                   filename := if banksOnly then self.filename else none }, true) := by
  have hne : (decDigits nb.idx).isEmpty = false := by
    cases h : decDigits nb.idx with
    | nil => exact absurd h (decDigits_ne_nil _)
    | cons _ _ => rfl
  rcases h with h | h
  · subst h
    simp only [SampleBankInfo.readCustomSampleBanks, hne, Bool.false_eq_true, if_false, showNat,
      (bank_idx_parse nb).1, (bank_idx_parse ab).1, (bank_idx_parse nb).2, (bank_idx_parse ab).2, if_true]
  · subst h
    cases banksOnly <;>
    simp only [SampleBankInfo.readCustomSampleBanks, hne, Bool.false_eq_true, if_false, showNat,
      (bank_idx_parse nb).1, (bank_idx_parse ab).1, (bank_idx_parse nb).2, (bank_idx_parse ab).2, if_true]

/-- `normal:addition` as `get_sample_bank(.., banks_only = true, ..)` writes it. -/
def banksStr (nb ab : SampleBank) : Str := showNat nb.idx ++ [':'] ++ showNat ab.idx

theorem getSampleBank_banksOnly (samples : List HitSampleInfo) (mode : GameMode) :
    getSampleBank samples true mode = banksStr (normalBankOf samples) (addBankOf samples) := by
  cases mode <;> rfl

theorem splitOn_banksStr (nb ab : SampleBank) : splitOn ':' (banksStr nb ab) = [showNat nb.idx, showNat ab.idx] := by
  have : banksStr nb ab = showNat nb.idx ++ ':' :: showNat ab.idx := by simp [banksStr]
  rw [this]
  simp only [showNat]
  rw [splitOn_append_sep ':' _ _ (decDigits_not_mem _ _ (by decide)), splitOn_no_sep ':' _ (decDigits_not_mem _ _ (by decide))]

theorem banksStr_chars (nb ab : SampleBank) : FieldChars (banksStr nb ab) := by
  unfold banksStr showNat
  exact fieldChars_append (fieldChars_append (fieldChars_decDigits _) fieldChars_colon) (fieldChars_decDigits _)

theorem banksStr_ne_nil (nb ab : SampleBank) : banksStr nb ab ≠ [] := by
  unfold banksStr showNat
  cases h : decDigits nb.idx with
  | nil => exact absurd h (decDigits_ne_nil _)
  | cons _ _ => simp

theorem readNodeBanks_map {α : Type} (b : SampleBankInfo) (f : α → Str) (g : α → SampleBankInfo) (l : List α)
    (h : ∀ a ∈ l, b.readCustomSampleBanks (splitOn ':' (f a)) false = (g a, true)) :
    readNodeBanks (List.replicate l.length b) (l.map f) = some (l.map g) := by
  induction l with
  | nil => rfl
  | cons s l ih =>
    simp only [List.length_cons, List.replicate_succ, List.map_cons, readNodeBanks, h s (by simp),
      ih (fun x hx => h x (by simp [hx])), Option.map_some]

theorem readNodeSounds_map (x : Int) (l : List Str) :
    readNodeSounds (List.replicate l.length x) l = l.map (fun s => (HitSoundType.parse s).getD 0) := by
  induction l with
  | nil => rfl
  | cons s l ih => simp only [List.length_cons, List.replicate_succ, readNodeSounds, ih, List.map_cons]

section
variable {F P : Type} [Scalar F] [Scalar P] [Cvt P F] [Trig F] [Trig P] {RF : F → Prop} {RP : P → Prop}

/-- the hit-sound byte written for node `i` (0 beyond the node sample lists). -/
def nodeSound (s : HitObjectSlider F P) (i : Nat) : Nat :=
  match s.nodeSamples[i]? with | some ns => soundTypeOf ns | none => 0

/-- the banks written for node `i` (`None`/`None` beyond the node sample lists). -/
def nodeBanks (s : HitObjectSlider F P) (i : Nat) : SampleBank × SampleBank :=
  match s.nodeSamples[i]? with | some ns => (normalBankOf ns, addBankOf ns) | none => (SampleBank.none, SampleBank.none)

/-- the number of nodes written: spans + 1. -/
def nodeCount (s : HitObjectSlider F P) : Nat := (s.repeatCount + 1).toNat + 1

def soundsText (s : HitObjectSlider F P) : Str :=
  joinBar ((List.range (nodeCount s)).map fun i => showNat (nodeSound s i))

def banksText (s : HitObjectSlider F P) : Str :=
  joinBar ((List.range (nodeCount s)).map fun i => banksStr (nodeBanks s i).1 (nodeBanks s i).2)

theorem nodeSoundsPart_eq (s : HitObjectSlider F P) : nodeSoundsPart s = soundsText s ++ [','] := by
  have h0 : nodeSoundsPart s = (List.range ((s.repeatCount + 1).toNat + 1)).flatMap
      (fun i => showNat (nodeSound s i) ++ [if i == (s.repeatCount + 1).toNat then ',' else '|']) := rfl
  rw [h0, range_flatMap_term (fun i => showNat (nodeSound s i)) (s.repeatCount + 1).toNat,
    term_eq_joinBar _ (by simp [List.range_succ])]
  rfl

theorem nodeBanksPart_eq (s : HitObjectSlider F P) (mode : GameMode) : nodeBanksPart s mode = banksText s ++ [','] := by
  unfold nodeBanksPart banksText nodeCount
  have := range_flatMap_term (fun i => banksStr (nodeBanks s i).1 (nodeBanks s i).2) (s.repeatCount + 1).toNat
  rw [← term_eq_joinBar _ (by simp [List.range_succ]), ← this]
  apply flatMap_congr'
  intro i _
  congr 1
  unfold nodeBanks
  cases s.nodeSamples[i]? with
  | none => rfl
  | some ns => simp only [getSampleBank_banksOnly]

/-- the bank info a node of the slider is decoded with: the node's two banks over the object's (banks-only) info. -/
def nodeInfo (base : SampleBankInfo) (nb ab : SampleBank) : SampleBankInfo :=
  { base with bankForNormal := someUnlessNone nb,
              bankForAddition := (someUnlessNone ab).orElse (fun _ => someUnlessNone nb), filename := none }

/-- the bank info the object itself is decoded with (`banks_only`): the two banks of the object's bank string. -/
def objInfo (samples : List HitSampleInfo) : SampleBankInfo :=
  { bankForNormal := someUnlessNone (normalBankOf samples),
    bankForAddition := (someUnlessNone (addBankOf samples)).orElse (fun _ => someUnlessNone (normalBankOf samples)) }

/-- **the node sample lists that come back**: for every node `convert_sound_type` of the node's hit-sound byte and of
the node's two banks. -/
def decodedNodes (s : HitObjectSlider F P) (samples : List HitSampleInfo) : List (List HitSampleInfo) :=
  (List.range (nodeCount s)).map fun i =>
    (nodeInfo (objInfo samples) (nodeBanks s i).1 (nodeBanks s i).2).convertSoundType (nodeSound s i : Nat)

theorem nodeSound_lt (s : HitObjectSlider F P) (i : Nat) : nodeSound s i < 16 := by
  unfold nodeSound
  cases s.nodeSamples[i]? with
  | none => decide
  | some ns => exact soundTypeOf_lt ns

/-- **node sounds and node banks**: the two `|`-separated fields are read back node by node. -/
theorem buildNodeSamples_line (s : HitObjectSlider F P) (samples : List HitSampleInfo) (soundType : Int) :
    buildNodeSamples (objInfo samples) soundType (nodeCount s) (some (soundsText s)) (some (banksText s)) =
      some (decodedNodes s samples) := by
  have hne1 : (soundsText s).isEmpty = false := by
    unfold soundsText nodeCount
    rw [List.range_succ_eq_map]
    simp only [List.map_cons]
    obtain ⟨c, r, h, _⟩ := decDigits_head (nodeSound s 0)
    cases hm : List.map (fun i => showNat (nodeSound s i)) (List.map Nat.succ (List.range (s.repeatCount + 1).toNat)) <;>
      simp [joinBar, showNat, h]
  have hne2 : (banksText s).isEmpty = false := by
    unfold banksText nodeCount
    rw [List.range_succ_eq_map]
    simp only [List.map_cons]
    have := banksStr_ne_nil (nodeBanks s 0).1 (nodeBanks s 0).2
    cases hb : banksStr (nodeBanks s 0).1 (nodeBanks s 0).2 with
    | nil => exact absurd hb this
    | cons c r =>
      cases hm : List.map (fun i => banksStr (nodeBanks s i).1 (nodeBanks s i).2) (List.map Nat.succ (List.range (s.repeatCount + 1).toNat)) <;>
        simp [joinBar]
  have hsb : splitOn '|' (banksText s) = (List.range (nodeCount s)).map fun i => banksStr (nodeBanks s i).1 (nodeBanks s i).2 := by
    unfold banksText
    apply splitOn_joinBar
    · intro p hp hm
      simp only [List.mem_map] at hp
      obtain ⟨i, _, rfl⟩ := hp
      rcases banksStr_chars _ _ _ hm with h | h
      · exact numChar_ne h '|' (by decide) rfl
      · exact absurd h (by decide)
    · simp [nodeCount, List.range_succ]
  have hss : splitOn '|' (soundsText s) = (List.range (nodeCount s)).map fun i => showNat (nodeSound s i) := by
    unfold soundsText
    apply splitOn_joinBar
    · intro p hp hm
      simp only [List.mem_map] at hp
      obtain ⟨i, _, rfl⟩ := hp
      exact decDigits_not_mem _ '|' (by decide) hm
    · simp [nodeCount, List.range_succ]
  have hbanks : readNodeBanks (List.replicate (nodeCount s) (objInfo samples)) (splitOn '|' (banksText s)) =
      some ((List.range (nodeCount s)).map fun i => nodeInfo (objInfo samples) (nodeBanks s i).1 (nodeBanks s i).2) := by
    rw [hsb]
    have := readNodeBanks_map (objInfo samples) (fun i => banksStr (nodeBanks s i).1 (nodeBanks s i).2)
      (fun i => nodeInfo (objInfo samples) (nodeBanks s i).1 (nodeBanks s i).2) (List.range (nodeCount s)) (by
        intro i _
        rw [splitOn_banksStr, read_banks _ _ _ [] false (Or.inr rfl)]
        rfl)
    rw [List.length_range] at this
    exact this
  have hsounds : readNodeSounds (List.replicate (nodeCount s) soundType) (splitOn '|' (soundsText s)) =
      (List.range (nodeCount s)).map fun i => ((nodeSound s i : Nat) : Int) := by
    rw [hss]
    have hlen : ((List.range (nodeCount s)).map fun i => showNat (nodeSound s i)).length = nodeCount s := by simp
    have := readNodeSounds_map soundType ((List.range (nodeCount s)).map fun i => showNat (nodeSound s i))
    rw [hlen] at this
    rw [this, List.map_map]
    apply List.map_congr_left
    intro i _
    simp only [Function.comp, hitSound_parse _ (nodeSound_lt s i), Option.getD_some]
  unfold buildNodeSamples
  simp only [optNonEmpty, hne1, hne2, Bool.false_eq_true, if_false, hbanks, hsounds, decodedNodes]
  congr 1
  rw [zip_map_self, List.map_map]
  rfl

end

end SliderRt
end Rosu
