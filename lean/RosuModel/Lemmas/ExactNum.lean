/-
  Lemmas/ExactNum.lean — `ExactScalar` (Lemmas/ExactArith.lean) plus the two facts the slider-event code needs beyond
  the curve code: there is no NaN (so `f64::min` / `f64::max` are the lattice operations of the field) and `i32 as f64`
  is the cast of the field. One hypothesis structure, instances on core `Rat` (Lemmas/ToyRat.lean) and on ℝ
  (Lemmas/RealScalar.lean).

  **IEEE `f64` does not satisfy these laws** (rounding, NaN, overflow); theorems taking `ExactNum φ` speak about the
  model functions in exact arithmetic only.
-/
import RosuModel.Lemmas.ExactArith
import RosuModel.Lemmas.RealScalar
set_option linter.unusedSectionVars false
namespace Rosu

section
variable {α K : Type} [Scalar α] [Field K] [LinearOrder K] [IsStrictOrderedRing K]

/-- exact arithmetic without NaN and with the exact integer cast. -/
structure ExactNum (φ : α → K) : Prop where
  s : ExactScalar φ
  noNaN : ∀ a : α, Scalar.isNaN a = false
  ofInt : ∀ i : Int, φ (Scalar.ofInt i) = (i : K)

namespace ExactNum
variable {φ : α → K} (E : ExactNum φ)
include E

theorem add (a b : α) : φ (a + b) = φ a + φ b := E.s.add a b
theorem sub (a b : α) : φ (a - b) = φ a - φ b := E.s.sub a b
theorem mul (a b : α) : φ (a * b) = φ a * φ b := E.s.mul a b
theorem div (a b : α) : φ (a / b) = φ a / φ b := E.s.div a b
theorem neg (a : α) : φ (-a) = -φ a := E.s.neg a
theorem lit (n : Nat) : φ (OfNat.ofNat n : α) = (n : K) := E.s.lit n
theorem zero : φ (0 : α) = 0 := E.s.zero
theorem one : φ (1 : α) = 1 := E.s.one
theorem lt_iff (a b : α) : Scalar.lt a b = true ↔ φ a < φ b := E.s.lt_iff a b
theorem le_iff (a b : α) : Scalar.le a b = true ↔ φ a ≤ φ b := E.s.le_iff a b
theorem gt_iff (a b : α) : Scalar.gt a b = true ↔ φ b < φ a := E.s.lt_iff b a
theorem ge_iff (a b : α) : Scalar.ge a b = true ↔ φ b ≤ φ a := E.s.le_iff b a

/-- `f64::max` is the maximum. -/
theorem max (a b : α) : φ (Scalar.max a b) = Max.max (φ a) (φ b) := by
  unfold Scalar.max
  rw [E.noNaN a, E.s.lt]
  by_cases h : φ a < φ b
  · simp only [h, decide_true, if_true]; rw [max_eq_right (le_of_lt h)]
  · simp only [h, decide_false, Bool.false_eq_true, if_false]; rw [max_eq_left (not_lt.mp h)]

/-- `f64::min` is the minimum. -/
theorem min (a b : α) : φ (Scalar.min a b) = Min.min (φ a) (φ b) := by
  unfold Scalar.min
  rw [E.noNaN a, E.s.lt]
  by_cases h : φ b < φ a
  · simp only [h, decide_true, if_true]; rw [min_eq_right (le_of_lt h)]
  · simp only [h, decide_false, Bool.false_eq_true, if_false]; rw [min_eq_left (not_lt.mp h)]

/-- `f64::clamp(x, lo, hi)` with `lo ≤ hi` is `min hi (max lo x)`. -/
theorem clamp (x lo hi : α) (h : φ lo ≤ φ hi) :
    φ (Scalar.clamp x lo hi) = Min.min (φ hi) (Max.max (φ lo) (φ x)) := by
  unfold Scalar.clamp
  simp only [E.s.lt]
  by_cases h0 : φ x < φ lo
  · have h1 : ¬ φ hi < φ lo := not_lt.mpr h
    simp only [h0, decide_true, if_true, h1, decide_false, Bool.false_eq_true, if_false]
    rw [max_eq_left (le_of_lt h0), min_eq_right h]
  · simp only [h0, decide_false, Bool.false_eq_true, if_false]
    rw [max_eq_right (not_lt.mp h0)]
    by_cases h1 : φ hi < φ x
    · simp only [h1, decide_true, if_true]; rw [min_eq_left (le_of_lt h1)]
    · simp only [h1, decide_false, Bool.false_eq_true, if_false]; rw [min_eq_right (not_lt.mp h1)]

end ExactNum
end

/-- core `Rat` (Lemmas/ToyRat.lean) has the laws. -/
theorem exactNum_rat : ExactNum (id : Rat → Rat) where
  s := exactScalar_rat
  noNaN _ := rfl
  ofInt _ := rfl

/-- so do the reals (Lemmas/RealScalar.lean). -/
theorem exactNum_real : ExactNum (id : ℝ → ℝ) where
  s := RealInst.exactScalar_real
  noNaN _ := rfl
  ofInt _ := rfl

end Rosu
