/-
  Lemmas/FloatTickLaws.lean — facts about the driver's `Float` (Lean ≥ 4.33 `Float.Model`) that the IEEE reading of
  C20 (Props/C20IeeeTicks.lean) needs and that Lemmas/FloatModelCompare.lean / Props/C16Ieee.lean do not have yet:

  * `float_ext`: a `Float` is determined by its unpacked value (a model value holds only the canonical NaN);
  * `key_inj`, `float_eq_of_eq_pos`: IEEE `==` on a non-zero number is equality of the values (`==` only identifies `±0`).

  * the monotonicity of the rounded `*`, `/`, `+`, `-` (proved in Lemmas/FloatRoundMono.lean, generic in the format, and
    Lemmas/FloatArithMono.lean) under the names `mul_le_mul_right_float`, `div_le_div_right_float`,
    `add_le_add_left_float`, `sub_le_sub_left_float`, and NaN propagation.
-/
import RosuModel.Lemmas.FloatModelCompare
import RosuModel.Lemmas.FloatModelBits
import RosuModel.Lemmas.FloatArithMono
namespace Rosu.FTL
open Rosu Float.Model
open Float.Model.UnpackedFloat (Sign)

abbrev UF := Float.Model.UnpackedFloat

/-- **a `Float` is determined by its unpacked value.** -/
theorem float_ext (x y : Float) (h : x.toModel.unpack = y.toModel.unpack) : x = y := by
  rw [← FM.float_ofBits_toBits x, ← FM.float_ofBits_toBits y]
  show Float.ofModel ⟨UInt64.ofBitVec (UnpackedFloat.pack Format.binary64
      (UnpackedFloat.unpack Format.binary64 x.toBits.toBitVec)), _⟩ =
    Float.ofModel ⟨UInt64.ofBitVec (UnpackedFloat.pack Format.binary64
      (UnpackedFloat.unpack Format.binary64 y.toBits.toBitVec)), _⟩
  have h' : UnpackedFloat.unpack Format.binary64 x.toBits.toBitVec =
      UnpackedFloat.unpack Format.binary64 y.toBits.toBitVec := h
  congr 2
  rw [h']

/-- the comparison key determines a non-zero number. -/
theorem key_inj (a b : UF) (ha : a.isNaN = false) (hb : b.isNaN = false) (hk : FMO.key a = FMO.key b)
    (hz : ∀ s, a ≠ .zero s) : a = b := by
  rcases a with s|_|s|⟨s,m,e,hm⟩ <;> rcases b with s'|_|s'|⟨s',m',e',hm'⟩ <;>
    first
    | (simp [UnpackedFloat.isNaN] at ha; done)
    | (simp [UnpackedFloat.isNaN] at hb; done)
    | (exact absurd rfl (hz _))
    | (cases s <;> cases s' <;> simp [FMO.key] at hk <;> first | rfl | omega | skip)
  all_goals
    obtain ⟨h1, h2⟩ := hk
    have : m = m' := by omega
    subst this; subst h1; rfl

/-- a number that is `> 0` is not a zero. -/
theorem not_zero_of_pos (x : Float) (h : Scalar.lt (0 : Float) x = true) : ∀ s, x.toModel.unpack ≠ .zero s := by
  intro s hs
  have h2 := (FMO.lt_iff (0 : Float) x).mp h
  have hx : FMO.IeeeOrd.up x = UnpackedFloat.zero s := hs
  have h0 : FMO.IeeeOrd.up (0 : Float) = UnpackedFloat.zero .positive := rfl
  rw [hx, h0] at h2
  exact FMO.klt_irrefl _ h2.2.2

/-- **IEEE `==` on a positive number is equality**: `==` identifies only `+0` and `-0`. -/
theorem float_eq_of_eq_pos (x y : Float) (h : Scalar.eq x y = true) (hx : Scalar.lt (0 : Float) x = true) : x = y := by
  obtain ⟨h1, h2, h3⟩ := (FMO.eq_iff x y).mp h
  exact float_ext x y (key_inj _ _ h1 h2 h3 (not_zero_of_pos x hx))

/-! ### the monotone rounded operations (Lemmas/FloatArithMono.lean), gathered here -/

/-- `a ≤ b`, `0 ≤ c`, no NaN product ⟹ `a·c ≤ b·c`. -/
theorem mul_le_mul_right_float (a b c : Float) (hab : Scalar.le a b = true) (hc : Scalar.le (0 : Float) c = true)
    (hna : Scalar.isNaN (a * c) = false) (hnb : Scalar.isNaN (b * c) = false) : Scalar.le (a * c) (b * c) = true :=
  FAM.mul_le_mul_right_float a b c hab hc hna hnb

/-- `a ≤ b`, `0 < c`, no NaN quotient ⟹ `a/c ≤ b/c`. -/
theorem div_le_div_right_float (a b c : Float) (hab : Scalar.le a b = true) (hc : Scalar.lt (0 : Float) c = true)
    (hna : Scalar.isNaN (a / c) = false) (hnb : Scalar.isNaN (b / c) = false) : Scalar.le (a / c) (b / c) = true :=
  FAM.div_le_div_right_float a b c hab hc hna hnb

/-- `x ≤ y`, no NaN sum ⟹ `s + x ≤ s + y`. -/
theorem add_le_add_left_float (s x y : Float) (hxy : Scalar.le x y = true)
    (hnx : Scalar.isNaN (s + x) = false) (hny : Scalar.isNaN (s + y) = false) : Scalar.le (s + x) (s + y) = true :=
  FAM.add_le_add_left_float s x y hxy hnx hny

/-- `x ≤ y`, `s` finite and non-zero, no NaN difference ⟹ `s − y ≤ s − x`. -/
theorem sub_le_sub_left_float (s x y : Float) (hs : FMO.isFiniteNonzero s.toModel.unpack = true)
    (hxy : Scalar.le x y = true) (hnx : Scalar.isNaN (s - x) = false) (hny : Scalar.isNaN (s - y) = false) :
    Scalar.le (s - y) (s - x) = true :=
  FAM.sub_le_sub_left_float s x y hs hxy hnx hny

end Rosu.FTL
