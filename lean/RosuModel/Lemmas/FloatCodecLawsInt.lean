/-
  Lemmas/FloatCodecLawsInt.lean — integral values print like integers (core Lean only).
  For a finite positive pattern `b` whose value is the integer `n` (`decompose f b = (n · 2^(-e), e)` with `e ≤ 0`,
  i.e. every integer below `2^p`), `printBits f b = decDigits n`, and with the sign bit `'-' :: decDigits n`
  (`printBits_of_int_value`). The digit search is followed exactly: at a decimal exponent `k ≥ 1` every candidate is
  an integer and the rounding interval of `b` (half-width ≤ 1/2) contains no integer but `n`; at `k ≤ 0` the
  candidate `n · 10^(-k)` is exact and is taken; the starting exponent is within 2 of the bit-length estimate, which
  bounds the number of iterations (so the fuel fallback is not reached) and the number of trailing zeros that
  `renderDecimal` has to strip. `roundRat_int`: the pattern `roundRat` (and so `parseBits`) assigns to the integer `n`
  is such a `b`; hence `printBits_parsed_int`: `printBits f64 (roundRat f64 n 1) = decDigits n` for `0 < n < 2^53`.
-/
import RosuModel.Lemmas.FloatCodecLawsRt
namespace Rosu
namespace FCL

/-- one iteration of the digit search at decimal exponent `k`: `some` result, or `none` to go on. -/
def stepOut (vNum vDen : Nat) (inIv : Nat → Int → Bool) (k : Int) : Option (Nat × Int) :=
  let sn := vNum * 10 ^ (-k).toNat
  let sd := vDen * 10 ^ k.toNat
  let dLo := sn / sd
  let dHi := dLo + 1
  let preferHi := match compare (2 * sn) ((dLo + dHi) * sd) with
    | .gt => true | .lt => false | .eq => true
  if inIv dLo k && inIv dHi k then some (if preferHi then (dHi, k) else (dLo, k))
  else if inIv dLo k then some (dLo, k)
  else if inIv dHi k then some (dHi, k)
  else none

theorem go_zero (m : Nat) (e : Int) (vNum vDen : Nat) (log10v : Int) (inIv : Nat → Int → Bool) (n : Nat) :
    shortestDigits.go m e vNum vDen log10v inIv n 0 =
      if e ≥ 0 then (m * 2 ^ e.toNat, 0) else (m * 5 ^ (-e).toNat, e) := by
  unfold shortestDigits.go; rfl

theorem go_succ (m : Nat) (e : Int) (vNum vDen : Nat) (log10v : Int) (inIv : Nat → Int → Bool) (n fuel : Nat) :
    shortestDigits.go m e vNum vDen log10v inIv n (fuel + 1) =
      match stepOut vNum vDen inIv (log10v - ((n - 1 : Nat) : Int)) with
      | some r => r
      | none => shortestDigits.go m e vNum vDen log10v inIv (n + 1) fuel := by
  rw [shortestDigits.go]
  generalize log10v - ((n - 1 : Nat) : Int) = k
  have hk : (if k ≥ 0 then (vNum, vDen * 10 ^ k.toNat) else (vNum * 10 ^ (-k).toNat, vDen)) =
      (vNum * 10 ^ (-k).toNat, vDen * 10 ^ k.toNat) := by
    split
    · have : (-k).toNat = 0 := by omega
      rw [this]; simp
    · have : k.toNat = 0 := by omega
      rw [this]; simp
  rw [hk]
  unfold stepOut
  simp only []
  by_cases h1 : inIv (vNum * 10 ^ (-k).toNat / (vDen * 10 ^ k.toNat)) k = true <;>
  by_cases h2 : inIv (vNum * 10 ^ (-k).toNat / (vDen * 10 ^ k.toNat) + 1) k = true <;>
  simp [h1, h2] <;> rfl

/-- at an exponent `k ≤ 0` the integer `n` is itself a candidate and is taken. -/
theorem stepOut_nonpos {vNum vDen n : Nat} {inIv : Nat → Int → Bool} (hv : vNum = n * vDen) (hvd : 0 < vDen)
    (k : Int) (hk : k ≤ 0) (hex : inIv (n * 10 ^ (-k).toNat) k = true) :
    stepOut vNum vDen inIv k = some (n * 10 ^ (-k).toNat, k) := by
  unfold stepOut
  have hk0 : k.toNat = 0 := by omega
  simp only [hk0, Nat.pow_zero, Nat.mul_one]
  have hd : vNum * 10 ^ (-k).toNat / vDen = n * 10 ^ (-k).toNat := by
    rw [hv, Nat.mul_right_comm, Nat.mul_div_cancel _ hvd]
  rw [hd, hex]
  have hlt : compare (2 * (vNum * 10 ^ (-k).toNat))
      ((n * 10 ^ (-k).toNat + (n * 10 ^ (-k).toNat + 1)) * vDen) = .lt := by
    rw [Nat.compare_eq_lt, hv]
    generalize 10 ^ (-k).toNat = T
    have : n * vDen * T = n * T * vDen := Nat.mul_right_comm ..
    rw [this]
    generalize n * T = A
    have : (A + (A + 1)) * vDen = 2 * (A * vDen) + vDen := by
      rw [Nat.add_mul, Nat.add_mul, Nat.one_mul]; omega
    omega
  rw [hlt]
  by_cases h2 : inIv (n * 10 ^ (-k).toNat + 1) k = true
  · simp [h2]
  · simp [h2]

/-- at an exponent `k ≥ 1` only a candidate that passed the test is returned. -/
theorem stepOut_some {vNum vDen : Nat} {inIv : Nat → Int → Bool} {k : Int} {r : Nat × Int}
    (h : stepOut vNum vDen inIv k = some r) : r.2 = k ∧ inIv r.1 k = true := by
  unfold stepOut at h
  simp only [] at h
  split at h
  · rename_i h12
    rw [Bool.and_eq_true] at h12
    injection h with h
    split at h <;> (rw [← h]; simp [h12.1, h12.2])
  · split at h
    · rename_i h1; injection h with h; rw [← h]; exact ⟨rfl, h1⟩
    · split at h
      · rename_i h2; injection h with h; rw [← h]; exact ⟨rfl, h2⟩
      · cases h

/-- `shortestDigits` as a call of the search loop, with what is needed of its arguments: the interval test is `InIv`,
the value is `4m·2^(e-2)`, the starting exponent is within 2 of the bit-length estimate. -/
theorem shortestDigits_go (f : FloatFmt) (b : Nat) :
    ∃ (log10v : Int) (inIv : Nat → Int → Bool),
      shortestDigits f b = shortestDigits.go (decompose f b).1 (decompose f b).2
        (4 * (decompose f b).1 * pN 2 ((decompose f b).2 - 2)) (pD 2 ((decompose f b).2 - 2)) log10v inIv 1 20 ∧
      (∀ c k, inIv c k = true ↔ InIv f b (c * 10 ^ k.toNat) (10 ^ (-k).toNat)) ∧
      (((bitLen (4 * (decompose f b).1 * pN 2 ((decompose f b).2 - 2)) : Int) -
          (bitLen (pD 2 ((decompose f b).2 - 2)) : Int)) * 30103 / 100000 - 2 ≤ log10v) ∧
      (log10v ≤ ((bitLen (4 * (decompose f b).1 * pN 2 ((decompose f b).2 - 2)) : Int) -
          (bitLen (pD 2 ((decompose f b).2 - 2)) : Int)) * 30103 / 100000 + 2) := by
  unfold shortestDigits
  generalize hd : decompose f b = me
  obtain ⟨m, e⟩ := me
  simp (config := {zeta := false}) only []
  extract_lets pb vN hiN loN e2 num2 den2 closed vNum vDen est pow10le l0 l1 l2 l3 l4 log10v inIv
  have hn2 : num2 = pN 2 (e - 2) := num2_eq (e - 2)
  have hd2 : den2 = pD 2 (e - 2) := den2_eq (e - 2)
  refine ⟨log10v, inIv, ?_, ?_, ?_, ?_⟩
  · show shortestDigits.go m e (4 * m * num2) den2 log10v inIv 1 20 = _
    rw [hn2, hd2]
  · intro c k
    unfold InIv
    rw [hd]
    simp only []
    have hlo : loN = if m = 2 ^ (f.p - 1) ∧ b / 2 ^ (f.p - 1) > 1 then 4 * m - 1 else 4 * m - 2 := by
      simp only [loN, pb, Bool.and_eq_true, beq_iff_eq, decide_eq_true_eq]
    rw [← hlo]
    unfold LeS GeS GtS LtS
    rw [← hn2, ← hd2]
    have e1 : ∀ x y : Nat, x * num2 * y = x * (y * num2) := fun x y => by rw [Nat.mul_assoc, Nat.mul_comm num2]
    simp only [inIv, cnd_eq, ratCmp, e1]
    by_cases hc : closed = true
    · have hev : m % 2 = 0 := by simpa [closed] using hc
      rw [if_pos hev]
      simp only [hc, if_true, Bool.and_eq_true, bne_iff_ne, ne_eq, Nat.compare_eq_lt, Nat.compare_eq_gt, Nat.not_lt]
      rfl
    · have hev : ¬ m % 2 = 0 := by simpa [closed] using hc
      rw [if_neg hev]
      simp only [hc, if_false, Bool.false_eq_true, Bool.and_eq_true, beq_iff_eq, Nat.compare_eq_lt, Nat.compare_eq_gt]
      rfl
  · show ((bitLen (4 * m * pN 2 (e - 2)) : Int) - (bitLen (pD 2 (e - 2)) : Int)) * 30103 / 100000 - 2 ≤ l4
    rw [← hn2, ← hd2]
    show l0 ≤ l4
    have a1 : l0 ≤ l1 := by simp only [l1]; split <;> omega
    have a2 : l1 ≤ l2 := by simp only [l2]; split <;> omega
    have a3 : l2 ≤ l3 := by simp only [l3]; split <;> omega
    have a4 : l3 ≤ l4 := by simp only [l4]; split <;> omega
    omega
  · show l4 ≤ ((bitLen (4 * m * pN 2 (e - 2)) : Int) - (bitLen (pD 2 (e - 2)) : Int)) * 30103 / 100000 + 2
    rw [← hn2, ← hd2]
    have hl0 : l0 = ((bitLen (4 * m * num2) : Int) - (bitLen den2 : Int)) * 30103 / 100000 - 2 := rfl
    rw [show ((bitLen (4 * m * num2) : Int) - (bitLen den2 : Int)) * 30103 / 100000 + 2 = l0 + 4 by omega]
    have a1 : l1 ≤ l0 + 1 := by simp only [l1]; split <;> omega
    have a2 : l2 ≤ l1 + 1 := by simp only [l2]; split <;> omega
    have a3 : l3 ≤ l2 + 1 := by simp only [l3]; split <;> omega
    have a4 : l4 ≤ l3 + 1 := by simp only [l4]; split <;> omega
    omega

/-- the search loop on an integer value `n = vNum / vDen`: the result denotes `n` exactly, at an exponent `≥ -2`. -/
theorem go_int {m : Nat} {e : Int} {vNum vDen n : Nat} {log10v : Int} {inIv : Nat → Int → Bool}
    (hv : vNum = n * vDen) (hvd : 0 < vDen)
    (hint : ∀ c k, 1 ≤ k → inIv c k = true → c * 10 ^ k.toNat = n)
    (hex : ∀ k, k ≤ 0 → inIv (n * 10 ^ (-k).toNat) k = true) :
    ∀ fuel ni : Nat, 1 ≤ ni → log10v - ((ni - 1 : Nat) : Int) ≤ fuel → -2 ≤ log10v - ((ni - 1 : Nat) : Int) →
      (shortestDigits.go m e vNum vDen log10v inIv ni (fuel + 1)).1 *
          10 ^ (shortestDigits.go m e vNum vDen log10v inIv ni (fuel + 1)).2.toNat =
        n * 10 ^ (-(shortestDigits.go m e vNum vDen log10v inIv ni (fuel + 1)).2).toNat ∧
      -2 ≤ (shortestDigits.go m e vNum vDen log10v inIv ni (fuel + 1)).2 := by
  intro fuel
  induction fuel with
  | zero =>
    intro ni hni h1 h2
    rw [go_succ]
    have hk : log10v - ((ni - 1 : Nat) : Int) ≤ 0 := by simpa using h1
    rw [stepOut_nonpos hv hvd _ hk (hex _ hk)]
    simp only []
    refine ⟨?_, h2⟩
    rw [show (log10v - ((ni - 1 : Nat) : Int)).toNat = 0 by omega, Nat.pow_zero, Nat.mul_one]
  | succ fuel ih =>
    intro ni hni h1 h2
    rw [go_succ]
    by_cases hk : log10v - ((ni - 1 : Nat) : Int) ≤ 0
    · rw [stepOut_nonpos hv hvd _ hk (hex _ hk)]
      simp only []
      refine ⟨?_, h2⟩
      rw [show (log10v - ((ni - 1 : Nat) : Int)).toNat = 0 by omega, Nat.pow_zero, Nat.mul_one]
    · cases hs : stepOut vNum vDen inIv (log10v - ((ni - 1 : Nat) : Int)) with
      | some r =>
        simp only []
        obtain ⟨hr2, hr1⟩ := stepOut_some hs
        have := hint r.1 _ (by omega) hr1
        rw [hr2]
        refine ⟨?_, h2⟩
        rw [this, show (-(log10v - ((ni - 1 : Nat) : Int))).toNat = 0 by omega, Nat.pow_zero, Nat.mul_one]
      | none =>
        simp only []
        have e1 : ((ni + 1 - 1 : Nat) : Int) = ((ni - 1 : Nat) : Int) + 1 := by omega
        exact ih (ni + 1) (by omega) (by rw [e1]; push_cast at h1 ⊢; omega) (by rw [e1]; omega)

/-! ### the pattern of an integer -/

theorem bitLen_le_of_lt_pow {x t : Nat} (h : x < 2 ^ t) : bitLen x ≤ t := by
  by_cases hx : x = 0
  · subst hx; unfold bitLen; simp
  · have h1 := pow_bitLen_le (Nat.pos_of_ne_zero hx)
    have h2 : 2 ^ (bitLen x - 1) < 2 ^ t := Nat.lt_of_le_of_lt h1 h
    have := (Nat.pow_lt_pow_iff_right (by decide : 1 < 2)).1 h2
    omega

theorem bitLen_mono {x y : Nat} (h : x ≤ y) : bitLen x ≤ bitLen y :=
  bitLen_le_of_lt_pow (Nat.lt_of_le_of_lt h (lt_pow_bitLen y))

/-- the sharp form of the interval: `(4m-2)·2^(e-2) ≤ num/den ≤ (4m+2)·2^(e-2)`. -/
theorem InIv_bounds' {f : FloatFmt} {b n d : Nat} (hI : InIv f b n d) (hm : 0 < (decompose f b).1) :
    LeS (4 * (decompose f b).1 - 2) ((decompose f b).2 - 2) n d ∧
      GeS n d (4 * (decompose f b).1 + 2) ((decompose f b).2 - 2) := by
  unfold InIv at hI
  generalize (decompose f b).1 = m at *
  generalize (decompose f b).2 = e at *
  have hlo : 4 * m - 2 ≤ (if m = 2 ^ (f.p - 1) ∧ b / 2 ^ (f.p - 1) > 1 then 4 * m - 1 else 4 * m - 2) := by
    split <;> omega
  generalize (if m = 2 ^ (f.p - 1) ∧ b / 2 ^ (f.p - 1) > 1 then 4 * m - 1 else 4 * m - 2) = lo at *
  split at hI
  · exact ⟨LeS_mono hI.1 hlo, hI.2⟩
  · refine ⟨LeS_mono ?_ hlo, ?_⟩
    · have := hI.1; unfold GtS at this; unfold LeS; omega
    · have := hI.2; unfold LtS at this; unfold GeS; omega

/-- `b` is a finite positive pattern whose value is the positive integer `n`: mantissa `n · 2^(-e)` at an
exponent `e ≤ 0`. -/
structure IntPattern (f : FloatFmt) (b n : Nat) : Prop where
  pos : 0 < n
  exp : (decompose f b).2 ≤ 0
  mant : (decompose f b).1 = n * 2 ^ (-(decompose f b).2).toNat

/-- **the digits chosen for an integer value denote it exactly**, at a decimal exponent `≥ -2`. -/
theorem shortestDigits_int (f : FloatFmt) (hp : 1 ≤ f.p) (hp' : f.p ≤ 57) (b n : Nat) (hb0 : 0 < b)
    (h : IntPattern f b n) :
    (shortestDigits f b).1 * 10 ^ (shortestDigits f b).2.toNat = n * 10 ^ (-(shortestDigits f b).2).toNat ∧
      -2 ≤ (shortestDigits f b).2 := by
  obtain ⟨log10v, inIv, heq, hiv, hl1, hl2⟩ := shortestDigits_go f b
  obtain ⟨hm0, hmp, _, _, _⟩ := decompose_facts f hp b hb0
  obtain ⟨hn, he, hm⟩ := h
  rw [heq]
  have hS : 0 < 2 ^ (-(decompose f b).2).toNat := Nat.pow_pos (by decide)
  have hN : pN 2 ((decompose f b).2 - 2) = 1 := by
    unfold pN; rw [show ((decompose f b).2 - 2).toNat = 0 by omega]
  have hD : pD 2 ((decompose f b).2 - 2) = 4 * 2 ^ (-(decompose f b).2).toNat := by
    unfold pD
    rw [show (-((decompose f b).2 - 2)).toNat = (-(decompose f b).2).toNat + 2 by omega, Nat.pow_add]
    omega
  have hiv' : ∀ c k, inIv c k = true ↔ InIv f b (c * 10 ^ k.toNat) (10 ^ (-k).toNat) := hiv
  rw [hN, hD] at heq hl1 hl2 ⊢
  have hInIvB : ∀ {x d : Nat}, InIv f b x d →
      (4 * (decompose f b).1 - 2) * (d * pN 2 ((decompose f b).2 - 2)) ≤ x * pD 2 ((decompose f b).2 - 2) ∧
      x * pD 2 ((decompose f b).2 - 2) ≤ (4 * (decompose f b).1 + 2) * (d * pN 2 ((decompose f b).2 - 2)) := by
    intro x d hI
    have := InIv_bounds' hI hm0
    unfold LeS GeS at this
    exact this
  have hExact := exact_inIv f b
  rw [hN, hD] at hInIvB hExact
  generalize (decompose f b).1 = m at *
  generalize (decompose f b).2 = e at *
  generalize hSd : 2 ^ (-e).toNat = S at *
  subst hm
  -- the value is n = vNum / vDen
  have hv : 4 * (n * S) * 1 = n * (4 * S) := by
    rw [Nat.mul_one, Nat.mul_left_comm]
  have hvd : 0 < 4 * S := by omega
  -- the starting exponent
  have hlog : log10v ≤ 19 ∧ -2 ≤ log10v := by
    have hle : bitLen (4 * S) ≤ bitLen (4 * (n * S) * 1) := bitLen_mono (by
      rw [hv]; exact Nat.le_mul_of_pos_left _ hn)
    have hup : bitLen (4 * (n * S) * 1) ≤ f.p + 2 := bitLen_le_of_lt_pow (by
      rw [Nat.mul_one, Nat.pow_add]; omega)
    have hdn : 0 < bitLen (4 * S) := bitLen_pos hvd
    generalize bitLen (4 * (n * S) * 1) = A at *
    generalize bitLen (4 * S) = B at *
    omega
  apply go_int hv hvd ?_ ?_ 19 1 (Nat.le_refl 1) (by simpa using hlog.1) (by simpa using hlog.2)
  · -- integer candidates
    intro c k hk hc
    have hI := (hiv' c k).1 hc
    obtain ⟨h1, h2⟩ := hInIvB hI
    rw [show (-k).toNat = 0 by omega, Nat.pow_zero] at h1 h2
    generalize c * 10 ^ k.toNat = x at *
    simp only [Nat.mul_one] at h1 h2
    refine Nat.le_antisymm ?_ ?_
    · refine Nat.le_of_not_lt fun hgt => ?_
      have : (n + 1) * (4 * S) ≤ x * (4 * S) := Nat.mul_le_mul_right _ hgt
      rw [Nat.add_mul, Nat.one_mul, Nat.mul_left_comm n 4 S] at this
      omega
    · refine Nat.le_of_not_lt fun hlt => ?_
      have : (x + 1) * (4 * S) ≤ n * (4 * S) := Nat.mul_le_mul_right _ hlt
      rw [Nat.add_mul, Nat.one_mul, Nat.mul_left_comm n 4 S] at this
      omega
  · -- the exact candidate
    intro k hk
    refine (hiv' _ k).2 (hExact _ _ (Nat.pow_pos (by decide)) hm0 ?_)
    rw [show k.toNat = 0 by omega, Nat.pow_zero, Nat.mul_one, Nat.mul_one]
    generalize 10 ^ (-k).toNat = T
    grind

/-! ### rendering an exact integer -/

theorem digitChar_eq : ∀ d, d < 10 → Nat.digitChar d = Char.ofNat ('0'.toNat + d) := by decide

theorem decDigitsAux_eq_toDigitsCore (fuel : Nat) : ∀ (n : Nat) (acc : Str),
    decDigitsAux fuel n acc = Nat.toDigitsCore 10 fuel n acc := by
  induction fuel with
  | zero => intro n acc; rfl
  | succ fuel ih =>
    intro n acc
    unfold decDigitsAux Nat.toDigitsCore
    simp only []
    rw [digitChar_eq _ (Nat.mod_lt n (by decide))]
    by_cases h : n < 10
    · rw [if_pos h, if_pos (by omega)]
    · rw [if_neg h, if_neg (by omega), ih]

theorem natDigits_eq_decDigits (n : Nat) : natDigits n = decDigits n := by
  rw [natDigits_eq]
  exact (decDigitsAux_eq_toDigitsCore (n + 1) n []).symm

theorem natDigits_mul_pow (d : Nat) (hd : 0 < d) (j : Nat) :
    natDigits (d * 10 ^ j) = natDigits d ++ List.replicate j '0' := by
  induction j with
  | zero => simp
  | succ j ih =>
    have h := Nat.toDigits_append_toDigits (b := 10) (n := d * 10 ^ j) (d := 0) (by decide)
      (Nat.mul_pos hd (Nat.pow_pos (by decide))) (by decide)
    rw [Nat.toDigits_zero, Nat.add_zero] at h
    rw [natDigits_eq, Nat.pow_succ, ← Nat.mul_assoc, Nat.mul_comm _ 10, ← h, ← natDigits_eq, ih,
      List.replicate_succ', List.append_assoc]

theorem strip_full (fuel : Nat) : ∀ (d : Nat) (k : Int), 0 < d → d < 10 ^ fuel →
    (renderDecimal.strip d k fuel).1 % 10 ≠ 0 := by
  induction fuel with
  | zero => intro d k hd hlt; simp at hlt; omega
  | succ fuel ih =>
    intro d k hd hlt
    unfold renderDecimal.strip
    by_cases h : (d != 0 && d % 10 == 0) = true
    · rw [if_pos h]
      simp only [Bool.and_eq_true, bne_iff_ne, ne_eq, beq_iff_eq] at h
      exact ih (d / 10) (k + 1) (by omega) (by rw [Nat.pow_succ] at hlt; omega)
    · rw [if_neg h]
      simp only [Bool.and_eq_true, bne_iff_ne, ne_eq, beq_iff_eq, not_and] at h
      exact h (by omega)

/-- **a decimal that denotes the positive integer `n` exactly is rendered as the digits of `n`.** -/
theorem renderDecimal_exact (c : Nat) (k : Int) (n : Nat) (hn : 0 < n) (hc : c < 10 ^ 40)
    (h : c * 10 ^ k.toNat = n * 10 ^ (-k).toNat) : renderDecimal c k = decDigits n := by
  have hc0 : 0 < c := by
    refine Nat.pos_of_ne_zero fun h0 => ?_
    rw [h0, Nat.zero_mul] at h
    have := Nat.mul_pos hn (Nat.pow_pos (n := (-k).toNat) (by decide : 0 < 10))
    omega
  obtain ⟨h1, h2, h3⟩ := strip_spec 40 c k hc0
  have h4 := strip_full 40 c k hc0 hc
  rw [renderDecimal_eq, ← natDigits_eq_decDigits]
  generalize renderDecimal.strip c k 40 = r at *
  obtain ⟨d', k'⟩ := r
  simp only at h1 h2 h3 h4 ⊢
  obtain ⟨j, hj⟩ : ∃ j : Nat, k' = k + j := ⟨(k' - k).toNat, by omega⟩
  rw [show (k' - k).toNat = j by omega] at h3
  have hk' : k' ≥ 0 := by
    refine Int.not_lt.1 fun hneg => ?_
    -- then k < 0 and d' = n · 10^(-k') is a multiple of 10
    have e1 : k.toNat = 0 := by omega
    have e2 : (-k).toNat = j + (-k').toNat := by omega
    rw [e1, Nat.pow_zero, Nat.mul_one, ← h3, e2, Nat.pow_add, ← Nat.mul_assoc] at h
    have hpos : 0 < 10 ^ j := Nat.pow_pos (by decide)
    have h5 : d' = n * 10 ^ (-k').toNat := by
      have : d' * 10 ^ j = n * 10 ^ (-k').toNat * 10 ^ j := by
        rw [h, Nat.mul_right_comm]
      exact Nat.eq_of_mul_eq_mul_right hpos this
    obtain ⟨t, ht⟩ : ∃ t, (-k').toNat = t + 1 := ⟨(-k').toNat - 1, by omega⟩
    rw [ht, Nat.pow_succ, ← Nat.mul_assoc] at h5
    omega
  rw [if_pos hk', ← natDigits_mul_pow d' h1]
  congr 1
  -- d' · 10^k' = n
  by_cases hk : k ≥ 0
  · have e1 : (-k).toNat = 0 := by omega
    have e2 : k'.toNat = j + k.toNat := by omega
    rw [e1, Nat.pow_zero, Nat.mul_one, ← h3] at h
    rw [e2, Nat.pow_add, ← Nat.mul_assoc, h]
  · have e1 : k.toNat = 0 := by omega
    have e2 : j = k'.toNat + (-k).toNat := by omega
    rw [e1, Nat.pow_zero, Nat.mul_one, ← h3, e2, Nat.pow_add, ← Nat.mul_assoc] at h
    exact Nat.eq_of_mul_eq_mul_right (Nat.pow_pos (by decide)) h

/-! ### `printBits` of an integer-valued pattern -/

theorem infBits_lt_signBit (f : FloatFmt) (hp : 1 ≤ f.p) : f.infBits < f.signBit := by
  unfold FloatFmt.infBits FloatFmt.signBit
  rw [show f.ebits + f.p - 1 = f.ebits + (f.p - 1) by omega, Nat.pow_add]
  have h1 : 0 < 2 ^ f.ebits := Nat.pow_pos (by decide)
  exact Nat.mul_lt_mul_of_pos_right (by omega) (Nat.pow_pos (by decide))

/-- **an integer-valued finite pattern prints as the integer**: `n` for the positive pattern, `-n` with the sign
bit. (`p ≤ 57` bounds the iteration count of the digit search; binary32 and binary64 qualify.) -/
theorem printBits_of_int_value (f : FloatFmt) (hp : 1 ≤ f.p) (hp' : f.p ≤ 57) (b n : Nat) (hb0 : 0 < b)
    (hbi : b < f.infBits) (h : IntPattern f b n) :
    printBits f b = decDigits n ∧ printBits f (f.signBit + b) = '-' :: decDigits n := by
  have hsg := infBits_lt_signBit f hp
  obtain ⟨hval, hk⟩ := shortestDigits_int f hp hp' b n hb0 h
  have hmp := (decompose_facts f hp b hb0).2.1
  have hbody : body f b = decDigits n := by
    unfold body
    rw [if_neg (by simp; omega), if_neg (by simp; omega)]
    refine renderDecimal_exact _ _ n h.pos ?_ hval
    -- the digit count: c ≤ 100 n < 100 · 2^57
    have hn : n < 2 ^ 57 := by
      have h1 : n ≤ (decompose f b).1 := by
        rw [h.mant]; exact Nat.le_mul_of_pos_right _ (Nat.pow_pos (by decide))
      have h2 : 2 ^ f.p ≤ 2 ^ 57 := Nat.pow_le_pow_right (by decide) hp'
      omega
    generalize (shortestDigits f b).1 = c at *
    generalize (shortestDigits f b).2 = k at *
    have h1 : c ≤ c * 10 ^ k.toNat := Nat.le_mul_of_pos_right _ (Nat.pow_pos (by decide))
    have h2 : 10 ^ (-k).toNat ≤ 10 ^ 2 := Nat.pow_le_pow_right (by decide) (by omega)
    have h3 : n * 10 ^ (-k).toNat ≤ n * 10 ^ 2 := Nat.mul_le_mul_left _ h2
    have h4 : (2 : Nat) ^ 57 * 10 ^ 2 < 10 ^ 40 := by decide
    omega
  constructor
  · rw [printBits_eq, Nat.mod_eq_of_lt (by omega), if_neg (by omega), if_neg (by omega), hbody]
  · rw [printBits_eq, Nat.add_mod_left, Nat.mod_eq_of_lt (by omega), if_neg (by omega), if_pos (by omega), hbody]

/-! ### the pattern `parseBits` / `roundRat` assigns to an integer -/

/-- the normal pattern with exponent field `bitLen n - 1 + bias` and mantissa `n · 2^(p - bitLen n)`. -/
theorem int_pattern_exists (f : FloatFmt) (hp : 1 ≤ f.p) (hpb : f.p ≤ 2 ^ (f.ebits - 1) - 1) (he : 1 ≤ f.ebits)
    (n : Nat) (hn : 0 < n) (hlt : n < 2 ^ f.p) :
    ∃ b, 0 < b ∧ b < f.infBits ∧ IntPattern f b n := by
  have hL := bitLen_pos hn
  have hLp : bitLen n ≤ f.p := bitLen_le_of_lt_pow hlt
  have h1 := lt_pow_bitLen n
  have h2 := pow_bitLen_le hn
  generalize bitLen n = L at *
  have hP : 0 < 2 ^ (f.p - 1) := Nat.pow_pos (by decide)
  -- the mantissa
  have hm1 : 2 ^ (f.p - 1) ≤ n * 2 ^ (f.p - L) := by
    calc 2 ^ (f.p - 1) = 2 ^ (L - 1) * 2 ^ (f.p - L) := by rw [← Nat.pow_add]; congr 1; omega
      _ ≤ n * 2 ^ (f.p - L) := Nat.mul_le_mul_right _ h2
  have hm2 : n * 2 ^ (f.p - L) < 2 ^ (f.p - 1) * 2 := by
    calc n * 2 ^ (f.p - L) < 2 ^ L * 2 ^ (f.p - L) := Nat.mul_lt_mul_of_pos_right h1 (Nat.pow_pos (by decide))
      _ = 2 ^ (f.p - 1) * 2 := by rw [← Nat.pow_add, ← Nat.pow_succ]; congr 1; omega
  have hB : 1 ≤ 2 ^ (f.ebits - 1) := Nat.pow_pos (by decide)
  have h2B : 2 ^ f.ebits = 2 ^ (f.ebits - 1) * 2 := (two_pow_pred he).symm
  generalize hBd : 2 ^ (f.ebits - 1) = B at *
  generalize hMd : n * 2 ^ (f.p - L) = M at *
  refine ⟨(L - 1 + (B - 1)) * 2 ^ (f.p - 1) + (M - 2 ^ (f.p - 1)), ?_, ?_, ?_⟩
  · have : 1 * 2 ^ (f.p - 1) ≤ (L - 1 + (B - 1)) * 2 ^ (f.p - 1) := Nat.mul_le_mul_right _ (by omega)
    omega
  · unfold FloatFmt.infBits
    rw [h2B]
    have : (L - 1 + (B - 1) + 1) * 2 ^ (f.p - 1) ≤ (B * 2 - 1) * 2 ^ (f.p - 1) := Nat.mul_le_mul_right _ (by omega)
    rw [Nat.add_mul, Nat.one_mul] at this
    omega
  · have hdiv : ((L - 1 + (B - 1)) * 2 ^ (f.p - 1) + (M - 2 ^ (f.p - 1))) / 2 ^ (f.p - 1) = L - 1 + (B - 1) := by
      rw [Nat.mul_comm, Nat.mul_add_div hP, Nat.div_eq_of_lt (by omega), Nat.add_zero]
    have hmod : ((L - 1 + (B - 1)) * 2 ^ (f.p - 1) + (M - 2 ^ (f.p - 1))) % 2 ^ (f.p - 1) = M - 2 ^ (f.p - 1) := by
      rw [Nat.mul_comm, Nat.mul_add_mod, Nat.mod_eq_of_lt (by omega)]
    have hdec := decompose_norm f ((L - 1 + (B - 1)) * 2 ^ (f.p - 1) + (M - 2 ^ (f.p - 1))) (by rw [hdiv]; omega)
    rw [hdiv, hmod, bias_eq, hBd] at hdec
    have he' : (((L - 1 + (B - 1) : Nat) : Int) - ((B : Int) - 1) - ((f.p - 1 : Nat) : Int)) = (L : Int) - f.p := by
      omega
    rw [he', Nat.sub_add_cancel hm1] at hdec
    refine ⟨hn, by rw [hdec]; simp only; omega, ?_⟩
    rw [hdec]
    simp only
    rw [← hMd]
    congr 2
    omega

/-- **`roundRat` on an integer** below `2^p`: the pattern it returns has that integer as its value. -/
theorem roundRat_int (f : FloatFmt) (hp : 2 ≤ f.p) (hpb : f.p ≤ 2 ^ (f.ebits - 1) - 1) (he : 1 ≤ f.ebits)
    (n : Nat) (hn : 0 < n) (hlt : n < 2 ^ f.p) :
    0 < roundRat f n 1 ∧ roundRat f n 1 < f.infBits ∧ IntPattern f (roundRat f n 1) n := by
  obtain ⟨b, hb0, hbi, hb⟩ := int_pattern_exists f (by omega) hpb he n hn hlt
  have hm0 := (decompose_facts f (by omega) b hb0).1
  have hI : InIv f b n 1 := by
    refine exact_inIv f b n 1 (by decide) hm0 ?_
    obtain ⟨_, hexp, hmant⟩ := hb
    have hN : pN 2 ((decompose f b).2 - 2) = 1 := by
      unfold pN; rw [show ((decompose f b).2 - 2).toNat = 0 by omega]
    have hD : pD 2 ((decompose f b).2 - 2) = 4 * 2 ^ (-(decompose f b).2).toNat := by
      unfold pD
      rw [show (-((decompose f b).2 - 2)).toNat = (-(decompose f b).2).toNat + 2 by omega, Nat.pow_add]
      omega
    rw [hN, hD, hmant]
    generalize 2 ^ (-(decompose f b).2).toNat = S
    grind
  rw [roundRat_of_inInterval f hp b hb0 hbi n 1 hn (by decide) hI]
  exact ⟨hb0, hbi, hb⟩

/-- the bit pattern of the integer `z` as `roundRat` (hence `parseBits` on its decimal digits) produces it. -/
def intBits (f : FloatFmt) (z : Int) : Nat :=
  if z < 0 then f.signBit + roundRat f z.natAbs 1 else roundRat f z.natAbs 1

/-- **integers print like integers**: `|z| < 2^p`. -/
theorem printBits_intBits (f : FloatFmt) (hp : 2 ≤ f.p) (hp' : f.p ≤ 57) (hpb : f.p ≤ 2 ^ (f.ebits - 1) - 1)
    (he : 1 ≤ f.ebits) (z : Int) (hz : z.natAbs < 2 ^ f.p) : printBits f (intBits f z) = intDigits z := by
  unfold intBits intDigits
  by_cases h0 : z = 0
  · subst h0
    have : roundRat f 0 1 = 0 := by unfold roundRat; simp
    simp only [Int.natAbs_zero, this, Int.lt_irrefl, if_false]
    rw [printBits_eq, Nat.zero_mod, if_neg (by omega),
      if_neg (by have := Nat.pow_pos (n := f.ebits + f.p - 1) (by decide : 0 < 2); unfold FloatFmt.signBit; omega)]
    unfold body
    have h1 : 0 < f.infBits := by
      unfold FloatFmt.infBits
      have : 2 ≤ 2 ^ f.ebits := by
        calc 2 = 2 ^ 1 := rfl
          _ ≤ 2 ^ f.ebits := Nat.pow_le_pow_right (by decide) he
      exact Nat.mul_pos (by omega) (Nat.pow_pos (by decide))
    rw [if_neg (by simp; omega), if_pos (by simp)]
    decide
  · obtain ⟨hb0, hbi, hpat⟩ := roundRat_int f hp hpb he z.natAbs (by omega) hz
    obtain ⟨h1, h2⟩ := printBits_of_int_value f (by omega) hp' _ _ hb0 hbi hpat
    by_cases hneg : z < 0
    · rw [if_pos hneg, if_pos hneg, h2]
    · rw [if_neg hneg, if_neg hneg, h1]

/-- binary64: every integer of magnitude below `2^53` (in particular every `i32`). -/
theorem printBits_intBits_f64 (z : Int) (hz : z.natAbs < 2 ^ 53) : printBits fmt64 (intBits fmt64 z) = intDigits z :=
  printBits_intBits fmt64 (by decide) (by decide) (by decide) (by decide) z hz

end FCL
end Rosu
