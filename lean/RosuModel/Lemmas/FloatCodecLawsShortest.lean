/-
  Lemmas/FloatCodecLawsShortest.lean — `shortestDigits_inInterval` (core Lean only): the decimal `(digits, k)` that
  `shortestDigits f b` returns for a finite positive pattern `b` denotes a value inside the rounding interval of `b`
  (`InIv`, Lemmas/FloatCodecLawsInterval.lean), and `digits > 0`.
  The search loop only ever returns a candidate that passed the interval test; its fuel fallback (20 candidates
  exhausted) returns the exact decimal expansion of the value, which is inside the interval trivially. That 17 digits
  always suffice — so that the fallback is never taken — is NOT proved here and is not needed. Nothing is claimed
  about the result being the shortest or the closest such decimal (that is what the differential against Rust tests).
-/
import RosuModel.Lemmas.FloatCodecLawsInterval
namespace Rosu
namespace FCL

/-- the search loop returns either a candidate that passed the test or the fallback. -/
theorem go_spec (m : Nat) (e : Int) (vNum vDen : Nat) (log10v : Int) (inIv : Nat → Int → Bool) (P : Nat → Int → Prop)
    (hP : ∀ c k, inIv c k = true → P c k)
    (hfb : P (if e ≥ 0 then (m * 2 ^ e.toNat, (0 : Int)) else (m * 5 ^ (-e).toNat, e)).1
      (if e ≥ 0 then (m * 2 ^ e.toNat, (0 : Int)) else (m * 5 ^ (-e).toNat, e)).2) :
    ∀ fuel n, P (shortestDigits.go m e vNum vDen log10v inIv n fuel).1
      (shortestDigits.go m e vNum vDen log10v inIv n fuel).2 := by
  intro fuel
  induction fuel with
  | zero => intro n; unfold shortestDigits.go; exact hfb
  | succ fuel ih =>
    intro n
    unfold shortestDigits.go
    extract_lets k
    split
    simp only []
    split
    · rename_i h
      rw [Bool.and_eq_true] at h
      split <;> simp only [if_true, Bool.false_eq_true, if_false] <;>
        first | exact hP _ _ h.2 | exact hP _ _ h.1
    · split
      · rename_i h; exact hP _ _ h
      · split
        · rename_i h; exact hP _ _ h
        · exact ih (n + 1)

theorem num2_eq (e2 : Int) : (if e2 ≥ 0 then 2 ^ e2.toNat else 1) = pN 2 e2 := by
  unfold pN
  split
  · rfl
  · have : e2.toNat = 0 := by omega
    rw [this]

theorem den2_eq (e2 : Int) : (if e2 ≥ 0 then 1 else 2 ^ (-e2).toNat) = pD 2 e2 := by
  unfold pD
  split
  · have : (-e2).toNat = 0 := by omega
    rw [this]
  · rfl

theorem cnd_eq (c : Nat) (k : Int) :
    (if k ≥ 0 then (c * 10 ^ k.toNat, 1) else (c, 10 ^ (-k).toNat)) = (c * 10 ^ k.toNat, 10 ^ (-k).toNat) := by
  split
  · have : (-k).toNat = 0 := by omega
    rw [this]
  · have : k.toNat = 0 := by omega
    rw [this]; simp

/-- the exact value `m · 2^e` is strictly inside its own rounding interval. -/
theorem exact_inIv (f : FloatFmt) (b : Nat) (num den : Nat) (hden : 0 < den) (hm : 0 < (decompose f b).1)
    (hE : num * pD 2 ((decompose f b).2 - 2) = 4 * (decompose f b).1 * (den * pN 2 ((decompose f b).2 - 2))) :
    InIv f b num den := by
  unfold InIv
  generalize (decompose f b).1 = m at *
  generalize (decompose f b).2 = e at *
  have hY : 0 < den * pN 2 (e - 2) := Nat.mul_pos hden (pN_pos (by decide) _)
  unfold LeS GeS GtS LtS
  rw [hE]
  generalize den * pN 2 (e - 2) = Y at *
  obtain ⟨m', rfl⟩ : ∃ m', m = m' + 1 := ⟨m - 1, by omega⟩
  have hlo1 : 4 * (m' + 1) - 1 = 4 * m' + 3 := by omega
  have hlo2 : 4 * (m' + 1) - 2 = 4 * m' + 2 := by omega
  rw [hlo1, hlo2]
  split <;> split <;> grind

/-- **`shortestDigits_inInterval`**: for a finite positive pattern `b`, the decimal `digits · 10^k` returned by
`shortestDigits f b` lies in the rounding interval of `b`. -/
theorem shortestDigits_inInterval (f : FloatFmt) (hp : 1 ≤ f.p) (b : Nat) (hb0 : 0 < b) :
    InIv f b ((shortestDigits f b).1 * 10 ^ (shortestDigits f b).2.toNat) (10 ^ (-(shortestDigits f b).2).toNat) := by
  have hm0 := (decompose_facts f hp b hb0).1
  unfold shortestDigits
  generalize hd : decompose f b = me at hm0
  obtain ⟨m, e⟩ := me
  simp (config := {zeta := false}) only []
  extract_lets pb vN hiN loN e2 num2 den2 closed vNum vDen est pow10le l0 l1 l2 l3 l4 log10v inIv
  apply go_spec m e vNum vDen log10v inIv
    (fun c k => InIv f b (c * 10 ^ k.toNat) (10 ^ (-k).toNat))
  · -- a candidate that passed the test
    intro c k hck
    simp only [inIv, cnd_eq, ratCmp] at hck
    unfold InIv
    rw [hd]
    simp only []
    have hn2 : num2 = pN 2 (e - 2) := num2_eq (e - 2)
    have hd2 : den2 = pD 2 (e - 2) := den2_eq (e - 2)
    have hlo : loN = if m = 2 ^ (f.p - 1) ∧ b / 2 ^ (f.p - 1) > 1 then 4 * m - 1 else 4 * m - 2 := by
      simp only [loN, pb, Bool.and_eq_true, beq_iff_eq, decide_eq_true_eq]
    rw [← hlo]
    unfold LeS GeS GtS LtS
    rw [← hn2, ← hd2]
    by_cases hc : closed = true
    · have hev : m % 2 = 0 := by simpa [closed] using hc
      rw [if_pos hev]
      simp only [hc, if_true, Bool.and_eq_true, bne_iff_ne, ne_eq, Nat.compare_eq_lt, Nat.compare_eq_gt,
        Nat.not_lt] at hck
      refine ⟨?_, ?_⟩
      · have := hck.1
        rw [Nat.mul_comm (10 ^ _), ← Nat.mul_assoc]; exact this
      · have := hck.2
        rw [Nat.mul_comm (10 ^ _), ← Nat.mul_assoc]; exact this
    · have hev : ¬ m % 2 = 0 := by simpa [closed] using hc
      rw [if_neg hev]
      simp only [hc, if_false, Bool.false_eq_true, Bool.and_eq_true, beq_iff_eq, Nat.compare_eq_lt, Nat.compare_eq_gt] at hck
      refine ⟨?_, ?_⟩
      · have := hck.1
        rw [Nat.mul_comm (10 ^ _), ← Nat.mul_assoc]; exact this
      · have := hck.2
        rw [Nat.mul_comm (10 ^ _), ← Nat.mul_assoc]; exact this
  · -- the fallback: the exact decimal expansion of m · 2^e
    apply exact_inIv f b _ _ (Nat.pow_pos (by decide)) (by rw [hd]; exact hm0)
    rw [hd]
    simp only []
    by_cases he : e ≥ 0
    · simp only [he, if_true, Int.toNat_zero, Int.neg_zero, Nat.pow_zero, Nat.mul_one, Nat.one_mul]
      have law := pow_law 2 e.toNat 2 (e - 2) (by omega)
      rw [Nat.mul_assoc, law]
      generalize pN 2 (e - 2) = A
      grind
    · simp only [he, if_false]
      have h1 : e.toNat = 0 := by omega
      have h2 : pN 2 (e - 2) = 1 := by unfold pN; rw [show (e - 2).toNat = 0 by omega]
      have h3 : pD 2 (e - 2) = 2 ^ ((-e).toNat + 2) := by unfold pD; congr 1; omega
      have h10 : 10 ^ (-e).toNat = 2 ^ (-e).toNat * 5 ^ (-e).toNat := by rw [← Nat.mul_pow]
      rw [h1, h2, h3, h10, Nat.pow_add]
      simp only [Nat.pow_zero, Nat.mul_one]
      generalize 2 ^ (-e).toNat = A
      generalize 5 ^ (-e).toNat = B
      grind

end FCL
end Rosu
