/-
  Lemmas/FloatErrCvt.lean — the rounding-error layer (Lemmas/FloatErr*.lean) connected to the **conversions**
  `f32 → f64` (`Cvt.up`, `upBits`) and `f64 → f32` (`Cvt.down`, `downBits`) of Model/FloatBits.lean / FloatInst.lean.
-/
import RosuModel.Lemmas.FloatErr32
import RosuModel.Lemmas.FloatBitsLaws
namespace Rosu.FErr
open Float.Model Float.Model.UnpackedFloat Rosu.FCL

/-! ### the value of a pattern, through `decompose` -/

/-- **the exact value of a finite pattern**: `unpackNat M E n` (the `unpack` of Lean's model on Nat patterns) has the
value `± m · 2^e` with `(m, e) = decompose f (n mod 2^(M+E))` — the mantissa / exponent pair the codec and the bit-level
conversions work with (`f.p − 1 = M` fraction bits, bias `2^(E−1) − 1`). Zeros included (`decompose f 0 = (0, eminSub)`). -/
theorem uval_unpackNat (f : FloatFmt) (M E : Nat) (hM : f.p - 1 = M)
    (hb : f.bias = ((2 ^ (E - 1) - 1 : Nat) : Int)) (n : Nat) (hfin : n / 2 ^ M % 2 ^ E ≠ 2 ^ E - 1) :
    uval (FM.unpackNat M E n) = sgnQ (FM.signOf (n / 2 ^ (M + E))) *
      ((decompose f (n % 2 ^ (M + E))).1 : ℚ) * (2 : ℚ) ^ (decompose f (n % 2 ^ (M + E))).2 := by
  have h1 : n % 2 ^ (M + E) / 2 ^ M = n / 2 ^ M % 2 ^ E := by
    rw [Nat.pow_add, Nat.mod_mul_right_div_self]
  have h2 : n % 2 ^ (M + E) % 2 ^ M = n % 2 ^ M := by
    rw [Nat.pow_add]; exact Nat.mod_mul_right_mod _ _ _
  unfold FM.unpackNat
  rw [if_neg hfin]
  by_cases he : n / 2 ^ M % 2 ^ E = 0
  · rw [if_pos he]
    obtain ⟨hd, hlt⟩ := decompose_sub f (n % 2 ^ (M + E)) (by rw [hM, h1, he])
    rw [hM] at hlt
    have hmag : n % 2 ^ (M + E) = n % 2 ^ M := by rw [← h2, Nat.mod_eq_of_lt hlt]
    rw [hd, hmag]
    by_cases hm : n % 2 ^ M = 0
    · rw [dif_pos hm, hm]; simp [uval]
    · rw [dif_neg hm]
      simp only [uval, he]
      congr 2
      unfold FloatFmt.eminSub
      rw [hb, hM]
      omega
  · rw [if_neg he, decompose_norm f _ (by rw [hM, h1]; exact he), hM, h1, h2]
    simp only [uval]
    rw [hb]
    push_cast
    ring_nf

/-! ### the comparisons of Lemmas/FloatCodecLawsPow.lean, over ℚ -/

theorem pN_pD_q (e : Int) : ((pN 2 e : Nat) : ℚ) = (2 : ℚ) ^ e * ((pD 2 e : Nat) : ℚ) := by
  unfold pN pD
  rcases Int.le_total 0 e with h | h
  · obtain ⟨n, rfl⟩ := Int.eq_ofNat_of_zero_le h
    have : (-(n : Int)).toNat = 0 := by omega
    rw [this]; simp
  · obtain ⟨n, hn⟩ := Int.eq_ofNat_of_zero_le (show 0 ≤ -e by omega)
    have he : e = -(n : Int) := by omega
    subst he
    have : (-(n : Int)).toNat = 0 := by omega
    rw [this]
    simp only [Int.neg_neg, Int.toNat_natCast, pow_zero, Nat.cast_one, Nat.cast_pow, Nat.cast_ofNat, zpow_neg,
      zpow_natCast]
    rw [inv_mul_cancel₀ (by positivity)]

theorem LeS_q {c : Nat} {e : Int} {num den : Nat} (hden : 0 < den) (h : LeS c e num den) :
    (c : ℚ) * (2 : ℚ) ^ e ≤ (num : ℚ) / (den : ℚ) := by
  unfold LeS at h
  have hd : (0 : ℚ) < (den : ℚ) := by exact_mod_cast hden
  have hD : (0 : ℚ) < ((pD 2 e : Nat) : ℚ) := by exact_mod_cast pD_pos (by decide) e
  have hq : ((c : ℚ) * ((den : ℚ) * ((pN 2 e : Nat) : ℚ))) ≤ (num : ℚ) * ((pD 2 e : Nat) : ℚ) := by exact_mod_cast h
  rw [pN_pD_q] at hq
  rw [le_div_iff₀ hd]
  have : ((c : ℚ) * (2 : ℚ) ^ e * (den : ℚ)) * ((pD 2 e : Nat) : ℚ) ≤ (num : ℚ) * ((pD 2 e : Nat) : ℚ) := by
    calc _ = (c : ℚ) * ((den : ℚ) * ((2 : ℚ) ^ e * ((pD 2 e : Nat) : ℚ))) := by ring
      _ ≤ _ := hq
  exact le_of_mul_le_mul_right this hD

theorem GeS_q {c : Nat} {e : Int} {num den : Nat} (hden : 0 < den) (h : GeS num den c e) :
    (num : ℚ) / (den : ℚ) ≤ (c : ℚ) * (2 : ℚ) ^ e := by
  unfold GeS at h
  have hd : (0 : ℚ) < (den : ℚ) := by exact_mod_cast hden
  have hD : (0 : ℚ) < ((pD 2 e : Nat) : ℚ) := by exact_mod_cast pD_pos (by decide) e
  have hq : (num : ℚ) * ((pD 2 e : Nat) : ℚ) ≤ ((c : ℚ) * ((den : ℚ) * ((pN 2 e : Nat) : ℚ))) := by exact_mod_cast h
  rw [pN_pD_q] at hq
  rw [div_le_iff₀ hd]
  have : (num : ℚ) * ((pD 2 e : Nat) : ℚ) ≤ ((c : ℚ) * (2 : ℚ) ^ e * (den : ℚ)) * ((pD 2 e : Nat) : ℚ) := by
    calc _ ≤ (c : ℚ) * ((den : ℚ) * ((2 : ℚ) ^ e * ((pD 2 e : Nat) : ℚ))) := hq
      _ = _ := by ring
  exact le_of_mul_le_mul_right this hD

/-- the (closed) rounding interval of a pattern, over ℚ. -/
theorem InIv_q {f : FloatFmt} {b num den : Nat} (hden : 0 < den) (h : InIv f b num den) :
    (((if (decompose f b).1 = 2 ^ (f.p - 1) ∧ b / 2 ^ (f.p - 1) > 1 then 4 * (decompose f b).1 - 1
        else 4 * (decompose f b).1 - 2 : Nat) : ℚ) * (2 : ℚ) ^ ((decompose f b).2 - 2) ≤ (num : ℚ) / (den : ℚ)) ∧
    (num : ℚ) / (den : ℚ) ≤ ((4 * (decompose f b).1 + 2 : Nat) : ℚ) * (2 : ℚ) ^ ((decompose f b).2 - 2) := by
  unfold InIv at h
  split at h
  · exact ⟨LeS_q hden h.1, GeS_q hden h.2⟩
  · refine ⟨LeS_q hden ?_, GeS_q hden ?_⟩
    · have := h.1; unfold GtS at this; unfold LeS; omega
    · have := h.2; unfold LtS at this; unfold GeS; omega

end Rosu.FErr
