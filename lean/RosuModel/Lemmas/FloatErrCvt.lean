/-
  Lemmas/FloatErrCvt.lean — the rounding-error layer (Lemmas/FloatErr*.lean) connected to the **conversions**
  `f32 → f64` (`Cvt.up`, `upBits`) and `f64 → f32` (`Cvt.down`, `downBits`) of Model/FloatBits.lean / FloatInst.lean.
  These are bit-level definitions over the codec's `roundRat`, outside `Float.Model`; they are tied here to the exact
  values `toRat` / `toRat32` (= `uval ∘ unpack`).

  * `uval_unpackNat` (`uval_unpackNat64/32`, `toRat_bits`, `toRat32_bits'`): the value of a finite pattern is
    `± m · 2^e`, `(m, e) = decompose f (pattern mod sign bit)` — the bridge between Lean's `unpack` and the codec;
  * `LeS_q`, `GeS_q`, `InIv_q`: the cross-multiplied comparisons of the codec laws, over ℚ;
  * **`roundRat_rnd`**: `roundRat` (correct rounding, `FCL.roundRat_spec`) satisfies `Rnd` — half an ulp on a grid on
    which the exact value has a full mantissa (the value just below a power of two is the delicate case: grid `e − 1`);
  * `upBits_val`, **`toRat_up`**, `up_finite`: `f64::from(x)` is exact and finite for finite `x`;
  * `downBits_val`, `down_repr`, **`down_rnd`**: `y as f32` is ONE correct rounding (`Rnd32`: relative `2⁻²⁴` for
    `|y| ≥ 2⁻¹²⁶`, absolute `2⁻¹⁵⁰` below); `down_nonneg_val`, `down_nonpos_val`: the sign is kept.
-/
import RosuModel.Lemmas.FloatErr32
import RosuModel.Lemmas.FloatBitsLaws
namespace Rosu.FErr
open Float.Model Float.Model.UnpackedFloat Rosu.FCL

/-! ### the value of a pattern, through `decompose` -/

/-- **the exact value of a finite pattern**: `unpackNat M E n` (the `unpack` of Lean's model on Nat patterns) has the
value `± m · 2^e` with `(m, e) = decompose f (n mod 2^(M+E))` — the mantissa / exponent pair the codec and the bit-level
conversions work with (`f.p − 1 = M` fraction bits, bias `2^(E−1) − 1`). Zeros included (`decompose f 0 = (0, eminSub)`). -/
theorem uval_unpackNat (f : FloatFmt) (M E : Nat) (hM : f.p - 1 = M)
    (hb : f.bias = ((2 ^ (E - 1) - 1 : Nat) : Int)) (n : Nat) (hfin : n / 2 ^ M % 2 ^ E ≠ 2 ^ E - 1) :
    uval (FM.unpackNat M E n) = sgnQ (FM.signOf (n / 2 ^ (M + E))) *
      ((decompose f (n % 2 ^ (M + E))).1 : ℚ) * (2 : ℚ) ^ (decompose f (n % 2 ^ (M + E))).2 := by
  have h1 : n % 2 ^ (M + E) / 2 ^ M = n / 2 ^ M % 2 ^ E := by
    rw [Nat.pow_add, Nat.mod_mul_right_div_self]
  have h2 : n % 2 ^ (M + E) % 2 ^ M = n % 2 ^ M := by
    rw [Nat.pow_add]; exact Nat.mod_mul_right_mod _ _ _
  unfold FM.unpackNat
  rw [if_neg hfin]
  by_cases he : n / 2 ^ M % 2 ^ E = 0
  · rw [if_pos he]
    obtain ⟨hd, hlt⟩ := decompose_sub f (n % 2 ^ (M + E)) (by rw [hM, h1, he])
    rw [hM] at hlt
    have hmag : n % 2 ^ (M + E) = n % 2 ^ M := by rw [← h2, Nat.mod_eq_of_lt hlt]
    rw [hd, hmag]
    by_cases hm : n % 2 ^ M = 0
    · rw [dif_pos hm, hm]; simp [uval]
    · rw [dif_neg hm]
      simp only [uval, he]
      congr 2
      unfold FloatFmt.eminSub
      rw [hb, hM]
      omega
  · rw [if_neg he, decompose_norm f _ (by rw [hM, h1]; exact he), hM, h1, h2]
    simp only [uval]
    rw [hb]
    push_cast
    ring_nf

/-! ### the comparisons of Lemmas/FloatCodecLawsPow.lean, over ℚ -/

theorem pN_pD_q (e : Int) : ((pN 2 e : Nat) : ℚ) = (2 : ℚ) ^ e * ((pD 2 e : Nat) : ℚ) := by
  unfold pN pD
  rcases Int.le_total 0 e with h | h
  · obtain ⟨n, rfl⟩ := Int.eq_ofNat_of_zero_le h
    have : (-(n : Int)).toNat = 0 := by omega
    rw [this]; simp
  · obtain ⟨n, hn⟩ := Int.eq_ofNat_of_zero_le (show 0 ≤ -e by omega)
    have he : e = -(n : Int) := by omega
    subst he
    have : (-(n : Int)).toNat = 0 := by omega
    rw [this]
    simp only [Int.neg_neg, Int.toNat_natCast, pow_zero, Nat.cast_one, Nat.cast_pow, Nat.cast_ofNat, zpow_neg,
      zpow_natCast]
    rw [inv_mul_cancel₀ (by positivity)]

theorem LeS_q {c : Nat} {e : Int} {num den : Nat} (hden : 0 < den) (h : LeS c e num den) :
    (c : ℚ) * (2 : ℚ) ^ e ≤ (num : ℚ) / (den : ℚ) := by
  unfold LeS at h
  have hd : (0 : ℚ) < (den : ℚ) := by exact_mod_cast hden
  have hD : (0 : ℚ) < ((pD 2 e : Nat) : ℚ) := by exact_mod_cast pD_pos (by decide) e
  have hq : ((c : ℚ) * ((den : ℚ) * ((pN 2 e : Nat) : ℚ))) ≤ (num : ℚ) * ((pD 2 e : Nat) : ℚ) := by exact_mod_cast h
  rw [pN_pD_q] at hq
  rw [le_div_iff₀ hd]
  have : ((c : ℚ) * (2 : ℚ) ^ e * (den : ℚ)) * ((pD 2 e : Nat) : ℚ) ≤ (num : ℚ) * ((pD 2 e : Nat) : ℚ) := by
    calc _ = (c : ℚ) * ((den : ℚ) * ((2 : ℚ) ^ e * ((pD 2 e : Nat) : ℚ))) := by ring
      _ ≤ _ := hq
  exact le_of_mul_le_mul_right this hD

theorem GeS_q {c : Nat} {e : Int} {num den : Nat} (hden : 0 < den) (h : GeS num den c e) :
    (num : ℚ) / (den : ℚ) ≤ (c : ℚ) * (2 : ℚ) ^ e := by
  unfold GeS at h
  have hd : (0 : ℚ) < (den : ℚ) := by exact_mod_cast hden
  have hD : (0 : ℚ) < ((pD 2 e : Nat) : ℚ) := by exact_mod_cast pD_pos (by decide) e
  have hq : (num : ℚ) * ((pD 2 e : Nat) : ℚ) ≤ ((c : ℚ) * ((den : ℚ) * ((pN 2 e : Nat) : ℚ))) := by exact_mod_cast h
  rw [pN_pD_q] at hq
  rw [div_le_iff₀ hd]
  have : (num : ℚ) * ((pD 2 e : Nat) : ℚ) ≤ ((c : ℚ) * (2 : ℚ) ^ e * (den : ℚ)) * ((pD 2 e : Nat) : ℚ) := by
    calc _ ≤ (c : ℚ) * ((den : ℚ) * ((2 : ℚ) ^ e * ((pD 2 e : Nat) : ℚ))) := hq
      _ = _ := by ring
  exact le_of_mul_le_mul_right this hD

/-- the (closed) rounding interval of a pattern, over ℚ. -/
theorem InIv_q {f : FloatFmt} {b num den : Nat} (hden : 0 < den) (h : InIv f b num den) :
    (((if (decompose f b).1 = 2 ^ (f.p - 1) ∧ b / 2 ^ (f.p - 1) > 1 then 4 * (decompose f b).1 - 1
        else 4 * (decompose f b).1 - 2 : Nat) : ℚ) * (2 : ℚ) ^ ((decompose f b).2 - 2) ≤ (num : ℚ) / (den : ℚ)) ∧
    (num : ℚ) / (den : ℚ) ≤ ((4 * (decompose f b).1 + 2 : Nat) : ℚ) * (2 : ℚ) ^ ((decompose f b).2 - 2) := by
  unfold InIv at h
  split at h
  · exact ⟨LeS_q hden h.1, GeS_q hden h.2⟩
  · refine ⟨LeS_q hden ?_, GeS_q hden ?_⟩
    · have := h.1; unfold GtS at this; unfold LeS; omega
    · have := h.2; unfold LtS at this; unfold GeS; omega

/-! ### `roundRat` is ONE correct rounding, in the sense of `Rnd` -/

/-- **`roundRat` (the correctly rounding function of the codec and of `downBits`) satisfies `Rnd`**: for a positive
fraction whose rounding does not overflow, the value `m · 2^e` of the returned pattern is within half an ulp of
`num/den` on a grid of the format on which `num/den` has a full mantissa (or the subnormal grid). -/
theorem roundRat_rnd (f : FloatFmt) (spec : Format) (hp : 2 ≤ f.p) (he2 : 2 ≤ f.ebits)
    (hmin : spec.minExponent = f.eminSub) (hmb : spec.mantissaBits = f.p)
    (num den : Nat) (hnum : 0 < num) (hden : 0 < den) (hfin : roundRat f num den < f.infBits) :
    Rnd spec (((decompose f (roundRat f num den)).1 : ℚ) * (2 : ℚ) ^ (decompose f (roundRat f num den)).2)
      ((num : ℚ) / (den : ℚ)) := by
  have hV : (0 : ℚ) < (num : ℚ) / (den : ℚ) :=
    div_pos (by exact_mod_cast hnum) (by exact_mod_cast hden)
  rcases roundRat_spec f hp he2 num den hnum hden with ⟨h0, hge⟩ | ⟨hb0, hbi, hI⟩ | ⟨hinf, _⟩
  · rw [h0]
    have hd : decompose f 0 = (0, f.eminSub) := (decompose_sub f 0 (Nat.zero_div _)).1
    rw [hd]
    refine ⟨spec.minExponent, le_refl _, ?_, Or.inl rfl⟩
    have := GeS_q hden hge
    simp only [Nat.cast_zero, zero_mul, zero_sub, abs_neg, abs_of_pos hV]
    rw [half_ulp_min, hmin]
    simpa using this
  · obtain ⟨hm0, hmp, he, hnorm, hbnd⟩ := decompose_facts f (by omega) _ hb0
    obtain ⟨hlo, hhi⟩ := InIv_q hden hI
    generalize roundRat f num den = b at *
    generalize (decompose f b).1 = m at *
    generalize (decompose f b).2 = e at *
    generalize (num : ℚ) / (den : ℚ) = V at *
    unfold Rnd
    rw [abs_of_pos hV]
    have hP := two_zpow_pos (e - 2)
    have e4 : (2 : ℚ) ^ e = 4 * (2 : ℚ) ^ (e - 2) := by
      rw [zpow_sub₀ (two_ne_zero)]; norm_num; ring
    have e2 : (2 : ℚ) ^ (e - 1) = 2 * (2 : ℚ) ^ (e - 2) := by
      rw [zpow_sub₀ (two_ne_zero), zpow_sub₀ (two_ne_zero)]; norm_num; ring
    have hm1 : (1 : ℚ) ≤ (m : ℚ) := by exact_mod_cast hm0
    have hhi' : V ≤ 4 * ((m : ℚ) * (2 : ℚ) ^ (e - 2)) + 2 * (2 : ℚ) ^ (e - 2) := by
      calc V ≤ _ := hhi
        _ = _ := by push_cast; ring
    have c1 : ((4 * m - 1 : Nat) : ℚ) = 4 * (m : ℚ) - 1 := by
      rw [Nat.cast_sub (by omega)]; push_cast; ring
    have c2 : ((4 * m - 2 : Nat) : ℚ) = 4 * (m : ℚ) - 2 := by
      rw [Nat.cast_sub (by omega)]; push_cast; ring
    have hlo' : 4 * ((m : ℚ) * (2 : ℚ) ^ (e - 2)) - 2 * (2 : ℚ) ^ (e - 2) ≤ V := by
      split at hlo
      · rw [c1] at hlo; nlinarith
      · rw [c2] at hlo; nlinarith
    rw [hmb, hmin]
    have hval : (m : ℚ) * (2 : ℚ) ^ e = 4 * ((m : ℚ) * (2 : ℚ) ^ (e - 2)) := by rw [e4]; ring
    by_cases hemin : e = f.eminSub
    · refine ⟨e, he, ?_, Or.inl hemin⟩
      rw [hval, e4, abs_le]; constructor <;> linarith
    · have hB : 2 ^ (f.p - 1) ≤ m := by
        rcases hnorm with h | h
        · exact absurd h hemin
        · exact h
      have hBq : (2 : ℚ) ^ (f.p - 1) ≤ (m : ℚ) := by exact_mod_cast hB
      by_cases hmB : m = 2 ^ (f.p - 1)
      · have hgt : b / 2 ^ (f.p - 1) > 1 := by
          by_contra hc
          exact hemin ((hbnd hmB).2 hc)
        have hem := (hbnd hmB).1 hgt
        rw [if_pos ⟨hmB, hgt⟩, c1] at hlo
        have hmq : (m : ℚ) = (2 : ℚ) ^ (f.p - 1) := by rw [hmB]; push_cast; rfl
        have hlo1 : 4 * ((m : ℚ) * (2 : ℚ) ^ (e - 2)) - (2 : ℚ) ^ (e - 2) ≤ V := by nlinarith
        by_cases hup : 4 * ((m : ℚ) * (2 : ℚ) ^ (e - 2)) ≤ V
        · refine ⟨e, he, ?_, Or.inr ?_⟩
          · rw [hval, e4, abs_le]; constructor <;> linarith
          · rw [← hmq, hval]; exact hup
        · refine ⟨e - 1, hem, ?_, Or.inr ?_⟩
          · rw [hval, e2, abs_le]; constructor <;> linarith
          · rw [← hmq, e2]
            have : (2 : ℚ) ^ (e - 2) ≤ (m : ℚ) * (2 : ℚ) ^ (e - 2) := by nlinarith
            nlinarith
      · have hB1 : 2 ^ (f.p - 1) + 1 ≤ m := by omega
        have hBq1 : (2 : ℚ) ^ (f.p - 1) + 1 ≤ (m : ℚ) := by exact_mod_cast hB1
        refine ⟨e, he, ?_, Or.inr ?_⟩
        · rw [hval, e4, abs_le]; constructor <;> linarith
        · rw [e4]
          have : ((2 : ℚ) ^ (f.p - 1) + 1) * (2 : ℚ) ^ (e - 2) ≤ (m : ℚ) * (2 : ℚ) ^ (e - 2) :=
            mul_le_mul_of_nonneg_right hBq1 hP.le
          nlinarith
  · omega

/-! ### the two formats, concretely -/

theorem bias64 : fmt64.bias = 1023 := by decide
theorem bias32 : fmt32.bias = 127 := by decide
theorem eminSub64 : fmt64.eminSub = -1074 := by decide
theorem eminSub32 : fmt32.eminSub = -149 := by decide

theorem decompose64_norm (b : Nat) (h : b / 2 ^ 52 ≠ 0) :
    decompose fmt64 b = (b % 2 ^ 52 + 2 ^ 52, ((b / 2 ^ 52 : Nat) : Int) - 1075) := by
  rw [decompose_norm fmt64 b h, bias64]
  refine Prod.ext rfl ?_
  show ((b / 2 ^ 52 : Nat) : Int) - 1023 - ((52 : Nat) : Int) = _
  omega

theorem decompose64_sub (b : Nat) (h : b / 2 ^ 52 = 0) : decompose fmt64 b = (b, -1074) := by
  rw [(decompose_sub fmt64 b h).1, eminSub64]

theorem decompose32_norm (b : Nat) (h : b / 2 ^ 23 ≠ 0) :
    decompose fmt32 b = (b % 2 ^ 23 + 2 ^ 23, ((b / 2 ^ 23 : Nat) : Int) - 150) := by
  rw [decompose_norm fmt32 b h, bias32]
  refine Prod.ext rfl ?_
  show ((b / 2 ^ 23 : Nat) : Int) - 127 - ((23 : Nat) : Int) = _
  omega

theorem decompose32_sub (b : Nat) (h : b / 2 ^ 23 = 0) : decompose fmt32 b = (b, -149) := by
  rw [(decompose_sub fmt32 b h).1, eminSub32]

/-- the value of a finite binary64 pattern. -/
theorem uval_unpackNat64 (n : Nat) (hfin : n / 2 ^ 52 % 2 ^ 11 ≠ 2047) :
    uval (FM.unpackNat 52 11 n) = sgnQ (FM.signOf (n / 2 ^ 63)) *
      ((decompose fmt64 (n % 2 ^ 63)).1 : ℚ) * (2 : ℚ) ^ (decompose fmt64 (n % 2 ^ 63)).2 :=
  uval_unpackNat fmt64 52 11 rfl (by rw [bias64]; rfl) n hfin

/-- the value of a finite binary32 pattern. -/
theorem uval_unpackNat32 (n : Nat) (hfin : n / 2 ^ 23 % 2 ^ 8 ≠ 255) :
    uval (FM.unpackNat 23 8 n) = sgnQ (FM.signOf (n / 2 ^ 31)) *
      ((decompose fmt32 (n % 2 ^ 31)).1 : ℚ) * (2 : ℚ) ^ (decompose fmt32 (n % 2 ^ 31)).2 :=
  uval_unpackNat fmt32 23 8 rfl (by rw [bias32]; rfl) n hfin

theorem unpackNat_isFinite (M E n : Nat) :
    (FM.unpackNat M E n).isFinite = true ↔ n / 2 ^ M % 2 ^ E ≠ 2 ^ E - 1 := by
  unfold FM.unpackNat
  split
  · rename_i he
    split <;> simp [UnpackedFloat.isFinite, he]
  · rename_i he
    split
    · split <;> simp [UnpackedFloat.isFinite, he]
    · simp [UnpackedFloat.isFinite, he]

theorem toRat_bits (x : Float) (h : x.isFinite = true) :
    x.toBits.toNat / 2 ^ 52 % 2 ^ 11 ≠ 2047 ∧
    toRat x = sgnQ (FM.signOf (x.toBits.toNat / 2 ^ 63)) *
      ((decompose fmt64 (x.toBits.toNat % 2 ^ 63)).1 : ℚ) * (2 : ℚ) ^ (decompose fmt64 (x.toBits.toNat % 2 ^ 63)).2 := by
  have h' : x.toModel.unpack.isFinite = true := h
  rw [FM.float_unpack, unpackNat_isFinite] at h'
  refine ⟨h', ?_⟩
  unfold toRat
  rw [FM.float_unpack, uval_unpackNat64 _ h']

theorem toRat32_bits' (x : Float32) (h : x.isFinite = true) :
    x.toBits.toNat / 2 ^ 23 % 2 ^ 8 ≠ 255 ∧
    toRat32 x = sgnQ (FM.signOf (x.toBits.toNat / 2 ^ 31)) *
      ((decompose fmt32 (x.toBits.toNat % 2 ^ 31)).1 : ℚ) * (2 : ℚ) ^ (decompose fmt32 (x.toBits.toNat % 2 ^ 31)).2 := by
  have h' : x.toModel.unpack.isFinite = true := h
  rw [FM.float32_unpack, unpackNat_isFinite] at h'
  refine ⟨h', ?_⟩
  unfold toRat32
  rw [FM.float32_unpack, uval_unpackNat32 _ h']

/-! ### `f32 → f64` is exact -/

theorem field_split (M x y : Nat) (hy : y < 2 ^ M) : (x * 2 ^ M + y) % 2 ^ M = y ∧ (x * 2 ^ M + y) / 2 ^ M = x := by
  constructor
  · rw [Nat.mul_comm, Nat.mul_add_mod, Nat.mod_eq_of_lt hy]
  · rw [Nat.mul_comm, Nat.mul_add_div (Nat.pow_pos (by decide)), Nat.div_eq_of_lt hy, Nat.add_zero]

/-- **`upBits` is exact**: a finite binary32 pattern is mapped to a finite binary64 pattern with the same sign and the
same value `m · 2^e` (zeros, subnormals — renormalised —, normals). -/
theorem upBits_val (b : Nat) (hb : b < 2 ^ 32) (hfin : b / 2 ^ 23 % 2 ^ 8 ≠ 255) :
    upBits b / 2 ^ 52 % 2 ^ 11 ≠ 2047 ∧ upBits b / 2 ^ 63 = b / 2 ^ 31 ∧
    ((decompose fmt64 (upBits b % 2 ^ 63)).1 : ℚ) * (2 : ℚ) ^ (decompose fmt64 (upBits b % 2 ^ 63)).2 =
      ((decompose fmt32 (b % 2 ^ 31)).1 : ℚ) * (2 : ℚ) ^ (decompose fmt32 (b % 2 ^ 31)).2 := by
  have hfr : b % 2 ^ 23 < 2 ^ 23 := Nat.mod_lt _ (by decide)
  have hb31 : b % 2 ^ 31 = b / 2 ^ 23 % 2 ^ 8 * 2 ^ 23 + b % 2 ^ 23 := by omega
  unfold upBits
  simp only [FB.inf64, FB.nan64]
  rw [if_neg hfin]
  split
  · rename_i he0
    split
    · rename_i hm0
      have h31 : b % 2 ^ 31 = 0 := by omega
      refine ⟨by omega, by omega, ?_⟩
      rw [h31, show b / 2 ^ 31 % 2 * 2 ^ 63 % 2 ^ 63 = 0 by omega, decompose64_sub 0 (by decide),
        decompose32_sub 0 (by decide)]
      simp
    · rename_i hm
      have hk : (b % 2 ^ 23).log2 < 23 := (Nat.log2_lt hm).mpr hfr
      have hk1 : 2 ^ (b % 2 ^ 23).log2 ≤ b % 2 ^ 23 := Nat.log2_self_le hm
      have hr := FB.sub_mul_lt (m := b % 2 ^ 23) (k := (b % 2 ^ 23).log2) (by omega) hk1 Nat.lt_log2_self
      have hid : (b % 2 ^ 23 - 2 ^ (b % 2 ^ 23).log2) * 2 ^ (52 - (b % 2 ^ 23).log2) + 2 ^ 52 =
          b % 2 ^ 23 * 2 ^ (52 - (b % 2 ^ 23).log2) := by
        have : (2 : Nat) ^ 52 = 2 ^ (b % 2 ^ 23).log2 * 2 ^ (52 - (b % 2 ^ 23).log2) := by
          rw [← Nat.pow_add]; congr 1; omega
        rw [this, ← Nat.add_mul, Nat.sub_add_cancel hk1]
      have h31 : b % 2 ^ 31 = b % 2 ^ 23 := by omega
      rw [h31]
      generalize (b % 2 ^ 23 - 2 ^ (b % 2 ^ 23).log2) * 2 ^ (52 - (b % 2 ^ 23).log2) = r at hr hid
      generalize (b % 2 ^ 23).log2 = k at hk hk1 hid
      generalize b % 2 ^ 23 = fr at *
      refine ⟨by omega, by omega, ?_⟩
      have hmag : (b / 2 ^ 31 % 2 * 2 ^ 63 + (k + 874) * 2 ^ 52 + r) % 2 ^ 63 = (k + 874) * 2 ^ 52 + r := by omega
      rw [hmag, decompose64_norm _ (by omega), decompose32_sub fr (by omega)]
      have h1 : ((k + 874) * 2 ^ 52 + r) % 2 ^ 52 = r := (field_split 52 _ _ hr).1
      have h2 : ((k + 874) * 2 ^ 52 + r) / 2 ^ 52 = k + 874 := (field_split 52 _ _ hr).2
      rw [h1, h2, hid]
      simp only []
      rw [show (-149 : Int) = (((k + 874 : Nat) : Int) - 1075) + ((52 - k : Nat) : Int) by omega,
        zpow_add₀ (two_ne_zero), zpow_natCast]
      push_cast
      ring
  · rename_i he0
    generalize b / 2 ^ 23 % 2 ^ 8 = ef at *
    have hef : ef < 2 ^ 8 := by
      have := Nat.mod_lt (b / 2 ^ 23) (show 0 < 2 ^ 8 by decide)
      omega
    generalize b % 2 ^ 23 = fr at *
    refine ⟨by omega, by omega, ?_⟩
    have hmag : (b / 2 ^ 31 % 2 * 2 ^ 63 + (ef + 896) * 2 ^ 52 + fr * 2 ^ 29) % 2 ^ 63 =
        (ef + 896) * 2 ^ 52 + fr * 2 ^ 29 := by omega
    have hlt : fr * 2 ^ 29 < 2 ^ 52 := by omega
    have h1 : ((ef + 896) * 2 ^ 52 + fr * 2 ^ 29) % 2 ^ 52 = fr * 2 ^ 29 := (field_split 52 _ _ hlt).1
    have h2 : ((ef + 896) * 2 ^ 52 + fr * 2 ^ 29) / 2 ^ 52 = ef + 896 := (field_split 52 _ _ hlt).2
    have h3 : (ef * 2 ^ 23 + fr) % 2 ^ 23 = fr := (field_split 23 _ _ hfr).1
    have h4 : (ef * 2 ^ 23 + fr) / 2 ^ 23 = ef := (field_split 23 _ _ hfr).2
    rw [hmag, hb31, decompose64_norm _ (by omega), decompose32_norm _ (by omega), h1, h2, h3, h4]
    simp only []
    rw [show ((ef : Int) - 150) = (((ef + 896 : Nat) : Int) - 1075) + ((29 : Nat) : Int) by omega,
      zpow_add₀ (two_ne_zero), zpow_natCast]
    push_cast
    ring

theorem up_unpack (x : Float32) (h : x.isFinite = true) :
    (Cvt.up x : Float).toModel.unpack = FM.unpackNat 52 11 (upBits x.toBits.toNat) ∧
    upBits x.toBits.toNat / 2 ^ 52 % 2 ^ 11 ≠ 2047 := by
  have hb := x.toBits.toNat_lt
  obtain ⟨hf, _⟩ := toRat32_bits' x h
  obtain ⟨h1, _, _⟩ := upBits_val _ hb hf
  obtain ⟨hlt, _⟩ := FB.upBits_spec _ hb
  have hnn : upBits x.toBits.toNat % 2 ^ 63 ≤ 0x7FF0000000000000 := by
    generalize upBits x.toBits.toNat = u at *
    omega
  have ht : (UInt64.ofNat (upBits x.toBits.toNat)).toNat = upBits x.toBits.toNat := by
    rw [UInt64.toNat_ofNat', Nat.mod_eq_of_lt hlt]
  refine ⟨?_, h1⟩
  rw [FB.up_eq, FM.float_unpack_ofBits _ (by rw [ht]; exact hnn), ht]

/-- **`f64::from(x)` of a finite `f32` is finite.** -/
theorem up_finite (x : Float32) (h : x.isFinite = true) : (Cvt.up x : Float).isFinite = true := by
  obtain ⟨hun, h1⟩ := up_unpack x h
  show (Cvt.up x : Float).toModel.unpack.isFinite = true
  rw [hun, unpackNat_isFinite]; exact h1

/-- **`f32 → f64` is exact**: `toRat (f64::from(x)) = toRat32 x` for every finite `x` (zeros, subnormals, normals). -/
theorem toRat_up (x : Float32) (h : x.isFinite = true) : toRat (Cvt.up x : Float) = toRat32 x := by
  have hb := x.toBits.toNat_lt
  obtain ⟨hf, hv⟩ := toRat32_bits' x h
  obtain ⟨h1, h2, h3⟩ := upBits_val _ hb hf
  obtain ⟨hun, _⟩ := up_unpack x h
  unfold toRat
  rw [hun, uval_unpackNat64 _ h1, hv, h2, mul_assoc, h3, ← mul_assoc]

/-! ### `f64 → f32` is ONE correct rounding -/

theorem rnd32_of (num den : Nat) (hnum : 0 < num) (hden : 0 < den) (hfin : roundRat fmt32 num den < fmt32.infBits) :
    Rnd32 (((decompose fmt32 (roundRat fmt32 num den)).1 : ℚ) * (2 : ℚ) ^ (decompose fmt32 (roundRat fmt32 num den)).2)
      ((num : ℚ) / (den : ℚ)) :=
  roundRat_rnd fmt32 Format.binary32 (by decide) (by decide) (by rw [b32_minExponent, eminSub32])
    (by rw [b32_mantissaBits]; rfl) num den hnum hden hfin

/-- **`downBits` is one correct rounding** (Nat level): for a finite binary64 pattern whose image is a finite binary32
pattern, the sign bit is kept, a zero stays a zero, and the value of the image is the value of the argument rounded
once, to nearest-even, to binary32 (`Rnd32`). -/
theorem downBits_val (b : Nat) (hb : b < 2 ^ 64) (hfin : b / 2 ^ 52 % 2 ^ 11 ≠ 2047)
    (hfin' : downBits b / 2 ^ 23 % 2 ^ 8 ≠ 255) :
    downBits b / 2 ^ 31 = b / 2 ^ 63 ∧ (b % 2 ^ 63 = 0 → downBits b % 2 ^ 31 = 0) ∧
    Rnd32 (((decompose fmt32 (downBits b % 2 ^ 31)).1 : ℚ) * (2 : ℚ) ^ (decompose fmt32 (downBits b % 2 ^ 31)).2)
      (((decompose fmt64 (b % 2 ^ 63)).1 : ℚ) * (2 : ℚ) ^ (decompose fmt64 (b % 2 ^ 63)).2) := by
  obtain ⟨_, s2, s3, _⟩ := FB.downBits_spec b hb
  have hmag : b % 2 ^ 63 < 0x7FF0000000000000 := by omega
  refine ⟨s2 (by omega), s3, ?_⟩
  have ht : b / 2 ^ 63 % 2 < 2 := Nat.mod_lt _ (by decide)
  revert hfin'
  unfold downBits
  simp only [FB.inf64, FB.inf32, FB.nan32]
  rw [if_neg (by omega), if_neg (by omega)]
  split
  · rename_i h0
    intro _
    rw [h0, show b / 2 ^ 63 % 2 * 2 ^ 31 % 2 ^ 31 = 0 by omega, decompose64_sub 0 (by decide),
      decompose32_sub 0 (by decide)]
    simp only [Nat.cast_zero, zero_mul]
    exact Rnd.zero _
  · rename_i h0
    have hm0 := (decompose_facts fmt64 (by decide) _ (Nat.pos_of_ne_zero h0)).1
    generalize decompose fmt64 (b % 2 ^ 63) = p at *
    obtain ⟨m, e⟩ := p
    simp only [] at hm0 ⊢
    have key : ∀ num den : Nat, 0 < num → 0 < den → (num : ℚ) / (den : ℚ) = (m : ℚ) * (2 : ℚ) ^ e →
        (b / 2 ^ 63 % 2 * 2 ^ 31 + roundRat fmt32 num den) / 2 ^ 23 % 2 ^ 8 ≠ 255 →
        Rnd32 (((decompose fmt32 ((b / 2 ^ 63 % 2 * 2 ^ 31 + roundRat fmt32 num den) % 2 ^ 31)).1 : ℚ) *
          (2 : ℚ) ^ (decompose fmt32 ((b / 2 ^ 63 % 2 * 2 ^ 31 + roundRat fmt32 num den) % 2 ^ 31)).2)
          ((m : ℚ) * (2 : ℚ) ^ e) := by
      intro num den hnum hden hV hf
      have hle := FB.roundRat_le_inf fmt32 (by decide) (by decide) num den hden
      rw [FB.inf32] at hle
      have hlt : roundRat fmt32 num den < fmt32.infBits := by
        rw [FB.inf32]
        generalize roundRat fmt32 num den = r at *
        omega
      have hmod : (b / 2 ^ 63 % 2 * 2 ^ 31 + roundRat fmt32 num den) % 2 ^ 31 = roundRat fmt32 num den := by
        generalize roundRat fmt32 num den = r at *
        omega
      rw [hmod, ← hV]
      exact rnd32_of num den hnum hden hlt
    split
    · rename_i he
      refine key _ 1 (Nat.mul_pos hm0 (Nat.pow_pos (by decide))) (by decide) ?_
      obtain ⟨n, rfl⟩ := Int.eq_ofNat_of_zero_le he
      simp
    · rename_i he
      refine key m _ hm0 (Nat.pow_pos (by decide)) ?_
      obtain ⟨n, hn⟩ := Int.eq_ofNat_of_zero_le (show 0 ≤ -e by omega)
      have he' : e = -(n : Int) := by omega
      subst he'
      simp [div_eq_mul_inv]

theorem Rnd.sgn {spec : Format} {R V : ℚ} (s : Sign) (h : Rnd spec R V) : Rnd spec (sgnQ s * R) (sgnQ s * V) := by
  obtain ⟨te, h1, h2, h3⟩ := h
  refine ⟨te, h1, ?_, ?_⟩
  · rw [← mul_sub, abs_mul, sgnQ_abs, one_mul]; exact h2
  · rw [abs_mul, sgnQ_abs, one_mul]; exact h3

theorem down_unpack (y : Float) (hy : y.isFinite = true) (h : (Cvt.down y : Float32).isFinite = true) :
    (Cvt.down y : Float32).toModel.unpack = FM.unpackNat 23 8 (downBits y.toBits.toNat) ∧
    downBits y.toBits.toNat / 2 ^ 23 % 2 ^ 8 ≠ 255 := by
  have hb := y.toBits.toNat_lt
  obtain ⟨hf, _⟩ := toRat_bits y hy
  obtain ⟨hlt, _, _, s4⟩ := FB.downBits_spec _ hb
  have hnn : downBits y.toBits.toNat % 2 ^ 31 ≤ 0x7F800000 := by
    generalize downBits y.toBits.toNat = u at *
    generalize y.toBits.toNat = b at *
    omega
  have ht : (UInt32.ofNat (downBits y.toBits.toNat)).toNat = downBits y.toBits.toNat := by
    rw [UInt32.toNat_ofNat', Nat.mod_eq_of_lt hlt]
  have hun : (Cvt.down y : Float32).toModel.unpack = FM.unpackNat 23 8 (downBits y.toBits.toNat) := by
    rw [FB.down_eq, FM.float32_unpack_ofBits _ (by rw [ht]; exact hnn), ht]
  refine ⟨hun, ?_⟩
  have h' : (Cvt.down y : Float32).toModel.unpack.isFinite = true := h
  rw [hun, unpackNat_isFinite] at h'
  exact h'

/-- **the representation behind `down_rnd`**: `y = ± V`, `y as f32 = ± R` with the SAME sign, `V, R ≥ 0`, `R` is `V`
correctly rounded to binary32, and `R = 0` when `V = 0`. -/
theorem down_repr (y : Float) (hy : y.isFinite = true) (h : (Cvt.down y : Float32).isFinite = true) :
    ∃ (s : Sign) (V R : ℚ), 0 ≤ V ∧ 0 ≤ R ∧ (V = 0 → R = 0) ∧ toRat y = sgnQ s * V ∧
      toRat32 (Cvt.down y : Float32) = sgnQ s * R ∧ Rnd32 R V := by
  have hb := y.toBits.toNat_lt
  obtain ⟨hf, hv⟩ := toRat_bits y hy
  obtain ⟨hun, hf'⟩ := down_unpack y hy h
  obtain ⟨d1, d2, d3⟩ := downBits_val _ hb hf hf'
  refine ⟨FM.signOf (y.toBits.toNat / 2 ^ 63), _, _, ?_, ?_, ?_, ?_, ?_, d3⟩
  · exact mul_nonneg (Nat.cast_nonneg _) (two_zpow_pos _).le
  · exact mul_nonneg (Nat.cast_nonneg _) (two_zpow_pos _).le
  · intro hV
    have hm : (decompose fmt64 (y.toBits.toNat % 2 ^ 63)).1 = 0 := by
      rcases mul_eq_zero.mp hV with h0 | h0
      · exact_mod_cast h0
      · exact absurd h0 (two_zpow_pos _).ne'
    have hmag : y.toBits.toNat % 2 ^ 63 = 0 := by
      by_contra hc
      have := (decompose_facts fmt64 (by decide) _ (Nat.pos_of_ne_zero hc)).1
      omega
    rw [d2 hmag, decompose32_sub 0 (by decide)]
    simp
  · rw [hv, mul_assoc]
  · unfold toRat32
    rw [hun, uval_unpackNat32 _ hf', d1, mul_assoc]

/-- **`f64 → f32` is ONE correct rounding**: for a finite double `y` whose conversion does not overflow,
`toRat32 (y as f32)` is `toRat y` rounded once to binary32 (half an ulp; relative error `2⁻²⁴` in the normal range
`|y| ≥ 2⁻¹²⁶`, absolute error `2⁻¹⁵⁰` below: `Rnd32.rel`, `Rnd32.abs_add`). -/
theorem down_rnd (y : Float) (hy : y.isFinite = true) (h : (Cvt.down y : Float32).isFinite = true) :
    Rnd32 (toRat32 (Cvt.down y : Float32)) (toRat y) := by
  obtain ⟨s, V, R, _, _, _, h1, h2, h3⟩ := down_repr y hy h
  rw [h1, h2]; exact Rnd.sgn s h3

/-- the conversion keeps the sign: `0 ≤ y ⟹ 0 ≤ y as f32` on values. -/
theorem down_nonneg_val (y : Float) (hy : y.isFinite = true) (h : (Cvt.down y : Float32).isFinite = true)
    (h0 : 0 ≤ toRat y) : 0 ≤ toRat32 (Cvt.down y : Float32) := by
  obtain ⟨s, V, R, hV, hR, hz, h1, h2, _⟩ := down_repr y hy h
  rw [h2]
  cases s with
  | positive => simp only [sgnQ, one_mul]; exact hR
  | negative =>
    simp only [sgnQ] at h1 ⊢
    have : V = 0 := by rw [h1] at h0; linarith
    rw [hz this]; simp

theorem down_nonpos_val (y : Float) (hy : y.isFinite = true) (h : (Cvt.down y : Float32).isFinite = true)
    (h0 : toRat y ≤ 0) : toRat32 (Cvt.down y : Float32) ≤ 0 := by
  obtain ⟨s, V, R, hV, hR, hz, h1, h2, _⟩ := down_repr y hy h
  rw [h2]
  cases s with
  | positive =>
    simp only [sgnQ, one_mul] at h1 ⊢
    have : V = 0 := by rw [h1] at h0; linarith
    rw [hz this]
  | negative => simp only [sgnQ]; linarith

/-! ### non-vacuity / sharpness (closed values, evaluated by the kernel) -/

section Examples

/-- `toRat_up` on the smallest positive `f32` (a subnormal, renormalised by `upBits`), on `f32::MAX` and on `−0`:
the hypothesis holds, and the instance. -/
example : (Float32.ofBits 1).isFinite = true ∧ (Float32.ofBits 0x7F7FFFFF).isFinite = true ∧
    toRat (Cvt.up (Float32.ofBits 1) : Float) = toRat32 (Float32.ofBits 1) ∧
    toRat (Cvt.up (Float32.ofBits 0x7F7FFFFF) : Float) = toRat32 (Float32.ofBits 0x7F7FFFFF) ∧
    toRat (Cvt.up (Float32.ofBits 0x80000000) : Float) = toRat32 (Float32.ofBits 0x80000000) :=
  ⟨by decide +kernel, by decide +kernel, toRat_up _ (by decide +kernel), toRat_up _ (by decide +kernel),
    toRat_up _ (by decide +kernel)⟩

/-- … with the value computed: the smallest `f32` subnormal is `2⁻¹⁴⁹`, and so is its image (`0x36A0000000000000`). -/
example : toRat32 (Float32.ofBits 1) = (2 : ℚ) ^ (-149 : Int) ∧
    (Cvt.up (Float32.ofBits 1) : Float) = Float.ofBits 0x36A0000000000000 ∧
    toRat (Float.ofBits 0x36A0000000000000) = (2 : ℚ) ^ (-149 : Int) := by
  have h32 : (Float32.ofBits 1).toModel.unpack = .finite .positive 1 (-149) (by decide) := by
    rw [FM.float32_unpack_ofBits _ (by decide)]; rfl
  have h64 : (Float.ofBits 0x36A0000000000000).toModel.unpack = .finite .positive 4503599627370496 (-201) (by decide) := by
    rw [FM.float_unpack_ofBits _ (by decide)]; rfl
  refine ⟨by rw [toRat32_of_unpack h32]; norm_num [sgnQ], by decide +kernel, ?_⟩
  rw [toRat_of_unpack h64]
  rw [show (-149 : Int) = 52 + (-201) by norm_num, zpow_add₀ (two_ne_zero)]
  norm_num [sgnQ]

/-- the finiteness hypothesis of `toRat_up` is needed for the *statement to be meaningful* only (`toRat ∞ = 0` by
convention); `+∞ ↦ +∞`, NaN ↦ NaN. -/
example : (Cvt.up (Float32.ofBits 0x7F800000) : Float).toBits = 0x7FF0000000000000 ∧
    (Cvt.up (Float32.ofBits 0x7FC00000) : Float).isNaN = true := by decide +kernel

/-- the hypotheses of `down_rnd` hold on `0.1`, `0.1 as f32 = 0x3DCCCCCD`; the instance of the relative form. -/
example : ∃ δ : ℚ, |δ| ≤ (2 : ℚ) ^ (-24 : Int) ∧
    toRat32 (Cvt.down (0.1 : Float) : Float32) = toRat (0.1 : Float) * (1 + δ) := by
  refine (down_rnd (0.1 : Float) (by decide +kernel) (by decide +kernel)).rel ?_
  rw [toRat_of_unpack unpack_0_1]
  refine le_trans (zpow_le_zpow_right₀ (by norm_num) (by norm_num) : (2 : ℚ) ^ (-126 : Int) ≤ (2 : ℚ) ^ (-10 : Int)) ?_
  norm_num [sgnQ]

/-- … with the `δ` computed: `0.1 as f32 = 0.1 · (1 + 53687091/3602879701896397)`, `δ ≈ 0.25 · 2⁻²⁴ ≠ 0`: the
conversion is not exact. -/
example : (Cvt.down (0.1 : Float) : Float32) = Float32.ofBits 0x3DCCCCCD ∧
    toRat32 (Float32.ofBits 0x3DCCCCCD) = toRat (0.1 : Float) * (1 + 53687091 / 3602879701896397) := by
  have h32 : (Float32.ofBits 0x3DCCCCCD).toModel.unpack = .finite .positive 13421773 (-27) (by decide) := by
    rw [FM.float32_unpack_ofBits _ (by decide)]; rfl
  refine ⟨by decide +kernel, ?_⟩
  rw [toRat32_of_unpack h32, toRat_of_unpack unpack_0_1]
  norm_num [sgnQ]

/-- the no-overflow hypothesis of `down_rnd` is needed: a double just above `f32::MAX + ulp/2` becomes `+∞`;
gradual underflow is covered (absolute error `≤ 2⁻¹⁵⁰`): `2⁻¹⁵⁰` (a tie) rounds to `+0`, `1.5 · 2⁻¹⁵⁰` to `2⁻¹⁴⁹`. -/
example : (Cvt.down (Float.ofBits 0x47F0000000000000) : Float32).isFinite = false ∧
    (Cvt.down (Float.ofBits 0x3690000000000000) : Float32).toBits = 0 ∧
    (Cvt.down (Float.ofBits 0x3698000000000000) : Float32).toBits = 1 := by decide +kernel

/-- sign: `down_nonneg_val` / `down_nonpos_val` on `±0.1`. -/
example : 0 ≤ toRat32 (Cvt.down (0.1 : Float) : Float32) ∧ toRat32 (Cvt.down (-0.1 : Float) : Float32) ≤ 0 := by
  refine ⟨down_nonneg_val _ (by decide +kernel) (by decide +kernel) ?_,
    down_nonpos_val _ (by decide +kernel) (by decide +kernel) ?_⟩
  · rw [toRat_of_unpack unpack_0_1]; norm_num [sgnQ]
  · have h : (-0.1 : Float).toModel.unpack = .finite .negative 7205759403792794 (-56) (by decide) := by
      have : (-0.1 : Float) = Float.ofBits 0xBFB999999999999A := by decide +kernel
      rw [this, FM.float_unpack_ofBits _ (by decide)]; rfl
    rw [toRat_of_unpack h]; norm_num [sgnQ]

end Examples

end Rosu.FErr
