/-
  Lemmas/FloatCodecLawsRt.lean — **`parseBits f (printBits f b) = some b`** for every non-NaN bit pattern `b` of a
  format satisfying `FmtOK` (binary32 and binary64 do: `fmtOK32`, `fmtOK64`), core Lean only.
  Signs, zeros and infinities are computed; a finite non-zero magnitude goes
    `shortestDigits` (value inside the rounding interval, Lemmas/FloatCodecLawsShortest.lean)
    → `renderDecimal` / `parseDecimal` (same rational, Lemmas/FloatCodecLawsText.lean)
    → the ±400 decimal-exponent guard of `parseBits` (not triggered: `range_ok`)
    → `roundRat` (rounds anything inside the interval back to the pattern, Lemmas/FloatCodecLawsInterval.lean).
  NOT proved (and not needed): that `shortestDigits` returns the *shortest* such decimal, the closest among the
  shortest, or that its 20-candidate search never falls back to the exact expansion. Those only matter for
  agreement with Rust's `Display`, which the codec differential (lib/codecgen.py) tests.
-/
import RosuModel.Lemmas.FloatCodecLawsShortest
import RosuModel.Lemmas.FloatCodecLawsText
namespace Rosu
namespace FCL

/-! ### `parseBits` after the sign -/

def parseMag (f : FloatFmt) (sign : Nat) (body : Str) : Option Nat :=
  let low := body.map lower
  if low == str "nan" then some f.nanBits
  else if low == str "inf" || low == str "infinity" then some (sign + f.infBits)
  else
    match parseDecimal body with
    | none => none
    | some (m, e) =>
      if m = 0 then some sign
      else
        let nd : Int := (toString m).length
        if e + nd > 400 then some (sign + f.infBits)
        else if e + nd < -400 then some sign
        else if e ≥ 0 then some (sign + roundRat f (m * 10 ^ e.toNat) 1)
        else some (sign + roundRat f m (10 ^ (-e).toNat))

theorem parseBits_neg (f : FloatFmt) (s : Str) : parseBits f ('-' :: s) = parseMag f f.signBit s := rfl

theorem parseBits_pos (f : FloatFmt) (c : Char) (r : Str) (h1 : c ≠ '-') (h2 : c ≠ '+') :
    parseBits f (c :: r) = parseMag f 0 (c :: r) := by
  unfold parseBits parseMag
  simp only [beq_iff_eq, h1, h2, if_false, Bool.false_eq_true]
  rfl

theorem lower_of_le {c : Char} (h : c.toNat ≤ 57) : lower c = c := by
  unfold lower
  rw [if_neg]
  intro hh
  have := Char.le_def.1 hh.1
  have e : c.val.toNat = c.toNat := rfl
  have : (65 : Nat) ≤ c.val.toNat := by
    have := UInt32.le_iff_toNat_le.1 this
    simpa using this
  omega

theorem map_lower_eq (s : Str) (h : ∀ c ∈ s, isDig c = true ∨ c = '.') : s.map lower = s := by
  induction s with
  | nil => rfl
  | cons x xs ih =>
    rw [List.map_cons, ih (fun c hc => h c (by simp [hc]))]
    congr 1
    rcases h x (by simp) with hx | hx
    · exact lower_of_le ((isDig_iff x).1 hx).2
    · rw [hx]; decide

theorem parseMag_decimal (f : FloatFmt) (sign : Nat) (s : Str) (c : Char) (r : Str) (hs : s = c :: r)
    (hc : isDig c = true) (hall : ∀ c ∈ s, isDig c = true ∨ c = '.') (m : Nat) (e : Int)
    (hp : parseDecimal s = some (m, e)) (hm : 0 < m)
    (h1 : ¬ e + ((natDigits m).length : Int) > 400) (h2 : ¬ e + ((natDigits m).length : Int) < -400) :
    parseMag f sign s = some (sign + roundRat f (m * 10 ^ e.toNat) (10 ^ (-e).toNat)) := by
  have hne : ∀ t : Str, (∃ x y, t = x :: y ∧ isDig x = false) → (s == t) = false := by
    intro t ⟨x, y, ht, hx⟩
    rw [beq_eq_false_iff_ne, hs, ht]
    intro heq
    injection heq with h _
    rw [h, hx] at hc; cases hc
  unfold parseMag
  simp only [map_lower_eq s hall]
  rw [hne (str "nan") ⟨'n', _, rfl, by decide⟩, hne (str "inf") ⟨'i', _, rfl, by decide⟩,
    hne (str "infinity") ⟨'i', _, rfl, by decide⟩]
  simp only [Bool.false_eq_true, if_false, Bool.or_self, hp, toString_length]
  rw [if_neg (by omega), if_neg h1, if_neg h2]
  by_cases he : e ≥ 0
  · rw [if_pos he]
    have : (-e).toNat = 0 := by omega
    rw [this, Nat.pow_zero]
  · rw [if_neg he]
    have : e.toNat = 0 := by omega
    rw [this, Nat.pow_zero, Nat.mul_one]

/-! ### the interval predicate only depends on the rational -/

theorem le_congr {c P Q n d n' d' : Nat} (h : n * d' = n' * d) (hd : 0 < d) (hd' : 0 < d') :
    c * (d * P) ≤ n * Q ↔ c * (d' * P) ≤ n' * Q := by
  have A : c * (d * P) ≤ n * Q ↔ c * (d * P) * d' ≤ n * Q * d' := (Nat.mul_le_mul_right_iff hd').symm
  have B : c * (d' * P) ≤ n' * Q ↔ c * (d' * P) * d ≤ n' * Q * d := (Nat.mul_le_mul_right_iff hd).symm
  have e1 : c * (d * P) * d' = c * (d' * P) * d := by
    simp only [Nat.mul_left_comm, Nat.mul_comm]
  have e2 : n * Q * d' = n' * Q * d := by
    rw [Nat.mul_right_comm, h, Nat.mul_right_comm]
  rw [A, B, e1, e2]

theorem lt_congr {c P Q n d n' d' : Nat} (h : n * d' = n' * d) (hd : 0 < d) (hd' : 0 < d') :
    c * (d * P) < n * Q ↔ c * (d' * P) < n' * Q := by
  have A : c * (d * P) < n * Q ↔ c * (d * P) * d' < n * Q * d' := (Nat.mul_lt_mul_right hd').symm
  have B : c * (d' * P) < n' * Q ↔ c * (d' * P) * d < n' * Q * d := (Nat.mul_lt_mul_right hd).symm
  have e1 : c * (d * P) * d' = c * (d' * P) * d := by
    simp only [Nat.mul_left_comm, Nat.mul_comm]
  have e2 : n * Q * d' = n' * Q * d := by
    rw [Nat.mul_right_comm, h, Nat.mul_right_comm]
  rw [A, B, e1, e2]

theorem InIv_congr {f : FloatFmt} {b n d n' d' : Nat} (hI : InIv f b n d) (h : n * d' = n' * d) (hd : 0 < d)
    (hd' : 0 < d') : InIv f b n' d' := by
  unfold InIv at *
  have L : ∀ c e, LeS c e n d ↔ LeS c e n' d' := fun c e => le_congr h hd hd'
  have G : ∀ c e, GtS c e n d ↔ GtS c e n' d' := fun c e => lt_congr h hd hd'
  have L' : ∀ c e, LtS n d c e ↔ LtS n' d' c e := fun c e => by
    rw [← Decidable.not_iff_not, not_LtS, not_LtS]; exact L c e
  have G' : ∀ c e, GeS n d c e ↔ GeS n' d' c e := fun c e => by
    rw [← not_GtS, ← not_GtS, G c e]
  rw [← L, ← G, ← L', ← G']
  exact hI

/-- weaker, uniform bounds: `2·2^(e-2) ≤ num/den ≤ (4m+2)·2^(e-2)`. -/
theorem InIv_bounds {f : FloatFmt} {b n d : Nat} (hI : InIv f b n d) (hm : 0 < (decompose f b).1) :
    LeS 2 ((decompose f b).2 - 2) n d ∧ GeS n d (4 * (decompose f b).1 + 2) ((decompose f b).2 - 2) := by
  unfold InIv at hI
  generalize (decompose f b).1 = m at *
  generalize (decompose f b).2 = e at *
  have hlo : 2 ≤ (if m = 2 ^ (f.p - 1) ∧ b / 2 ^ (f.p - 1) > 1 then 4 * m - 1 else 4 * m - 2) := by
    split <;> omega
  generalize (if m = 2 ^ (f.p - 1) ∧ b / 2 ^ (f.p - 1) > 1 then 4 * m - 1 else 4 * m - 2) = lo at *
  split at hI
  · exact ⟨LeS_mono hI.1 hlo, hI.2⟩
  · refine ⟨LeS_mono ?_ hlo, ?_⟩
    · have := hI.1; unfold GtS at this; unfold LeS; omega
    · have := hI.2; unfold LtS at this; unfold GeS; omega

/-! ### the decimal-exponent guard of `parseBits` is not triggered -/

/-- what the round-trip theorem needs of a format: at least two mantissa and exponent bits, and a finite range
within `10^±400` (the guard `parseBits` applies before rounding). -/
structure FmtOK (f : FloatFmt) : Prop where
  p2 : 2 ≤ f.p
  e2 : 2 ≤ f.ebits
  hi : 2 ^ (2 ^ (f.ebits - 1)) ≤ 10 ^ 400
  lo : 2 ^ (2 ^ (f.ebits - 1) - 1 + f.p) ≤ 10 ^ 401

theorem fmtOK64 : FmtOK fmt64 := ⟨by decide, by decide, by decide +kernel, by decide +kernel⟩
theorem fmtOK32 : FmtOK fmt32 := ⟨by decide, by decide, by decide +kernel, by decide +kernel⟩

theorem bias_eq (f : FloatFmt) : f.bias = ((2 ^ (f.ebits - 1) : Nat) : Int) - 1 := by
  unfold FloatFmt.bias; push_cast; rfl

theorem pow_scale_le (a b : Nat) (e : Int) (h : (a : Int) + e ≤ b) : 2 ^ a * pN 2 e ≤ 2 ^ b * pD 2 e := by
  unfold pN pD
  rw [← Nat.pow_add, ← Nat.pow_add]
  exact Nat.pow_le_pow_right (by decide) (by omega)

theorem pow_scale_ge (a b : Nat) (e : Int) (h : (b : Int) ≤ a + e) : 2 ^ b * pD 2 e ≤ 2 ^ a * pN 2 e := by
  unfold pN pD
  rw [← Nat.pow_add, ← Nat.pow_add]
  exact Nat.pow_le_pow_right (by decide) (by omega)

/-- the exponent of a finite pattern: `eminSub ≤ e` and `e + p ≤ 2^(ebits-1)`. -/
theorem decompose_e_le (f : FloatFmt) (he2 : 2 ≤ f.ebits) (hp : 1 ≤ f.p) (b : Nat) (hbi : b < f.infBits) :
    (decompose f b).2 + f.p ≤ ((2 ^ (f.ebits - 1) : Nat) : Int) ∧
      (3 : Int) - ((2 ^ (f.ebits - 1) : Nat) : Int) - f.p ≤ (decompose f b).2 := by
  have hB : 2 ≤ 2 ^ (f.ebits - 1) := by
    calc 2 = 2 ^ 1 := rfl
      _ ≤ 2 ^ (f.ebits - 1) := Nat.pow_le_pow_right (by decide) (by omega)
  have h2B : 2 ^ f.ebits = 2 ^ (f.ebits - 1) * 2 := (two_pow_pred (by omega)).symm
  have hx := expF_lt f b hbi
  by_cases h : b / 2 ^ (f.p - 1) = 0
  · rw [(decompose_sub f b h).1]
    unfold FloatFmt.eminSub
    rw [bias_eq]
    generalize 2 ^ (f.ebits - 1) = B at *
    simp only
    omega
  · rw [decompose_norm f b h]
    rw [bias_eq]
    generalize b / 2 ^ (f.p - 1) = x at *
    generalize 2 ^ (f.ebits - 1) = B at *
    generalize 2 ^ f.ebits = B2 at *
    simp only
    omega

set_option exponentiation.threshold 2000 in
theorem range_ok (f : FloatFmt) (hok : FmtOK f) (b : Nat) (hb0 : 0 < b) (hbi : b < f.infBits) (m' : Nat) (e' : Int)
    (hm' : 0 < m') (hI : InIv f b (m' * 10 ^ e'.toNat) (10 ^ (-e').toNat)) :
    ¬ e' + ((natDigits m').length : Int) > 400 ∧ ¬ e' + ((natDigits m').length : Int) < -400 := by
  have hp1 : 1 ≤ f.p := by have := hok.p2; omega
  obtain ⟨hm0, hmp, _, _, _⟩ := decompose_facts f hp1 b hb0
  obtain ⟨hLo, hHi⟩ := InIv_bounds hI hm0
  obtain ⟨heU, heL⟩ := decompose_e_le f hok.e2 hp1 b hbi
  obtain ⟨hnd1, hnd2⟩ := natDigits_length_bounds m' hm'
  have hndpos : 0 < (natDigits m').length := List.length_pos_iff.2 (natDigits_ne_nil m')
  generalize (natDigits m').length = nd at *
  generalize (decompose f b).1 = m at *
  generalize (decompose f b).2 = e at *
  unfold LeS at hLo
  unfold GeS at hHi
  have hP : 0 < pN 2 (e - 2) := pN_pos (by decide) _
  have hD : 0 < pD 2 (e - 2) := pD_pos (by decide) _
  have hden : 0 < 10 ^ (-e').toNat := Nat.pow_pos (by decide)
  generalize hP' : pN 2 (e - 2) = P at *
  generalize hD' : pD 2 (e - 2) = D at *
  generalize hnum : m' * 10 ^ e'.toNat = num at *
  generalize hdn : 10 ^ (-e').toNat = den at *
  constructor
  · intro hgt
    -- num/den ≥ 10^400
    have h1 : 10 ^ 400 * den ≤ num := by
      rw [← hdn, ← hnum]
      calc 10 ^ 400 * 10 ^ (-e').toNat = 10 ^ (400 + (-e').toNat) := (Nat.pow_add ..).symm
        _ ≤ 10 ^ (nd - 1 + e'.toNat) := Nat.pow_le_pow_right (by decide) (by omega)
        _ = 10 ^ (nd - 1) * 10 ^ e'.toNat := Nat.pow_add ..
        _ ≤ m' * 10 ^ e'.toNat := Nat.mul_le_mul_right _ hnd2
    have h3 : 4 * m + 2 < 2 ^ (f.p + 2) := by
      rw [Nat.pow_add]; omega
    have h4 : 2 ^ (f.p + 2) * P ≤ 2 ^ (2 ^ (f.ebits - 1)) * D := by
      rw [← hP', ← hD']; exact pow_scale_le _ _ _ (by omega)
    have h5 := hok.hi
    generalize (10 : Nat) ^ 400 = T at *
    generalize 2 ^ (2 ^ (f.ebits - 1)) = TB at *
    generalize 2 ^ (f.p + 2) = TP at *
    have c : T * den * D < T * den * D :=
      calc T * den * D ≤ num * D := Nat.mul_le_mul_right D h1
        _ ≤ (4 * m + 2) * (den * P) := hHi
        _ < TP * (den * P) := Nat.mul_lt_mul_of_pos_right h3 (Nat.mul_pos hden hP)
        _ = den * (TP * P) := Nat.mul_left_comm ..
        _ ≤ den * (TB * D) := Nat.mul_le_mul_left den h4
        _ ≤ den * (T * D) := Nat.mul_le_mul_left den (Nat.mul_le_mul_right D h5)
        _ = T * den * D := by rw [Nat.mul_left_comm, Nat.mul_assoc]
    exact Nat.lt_irrefl _ c
  · intro hlt
    have g1 : num * 10 ^ 401 < den := by
      rw [← hdn, ← hnum]
      calc m' * 10 ^ e'.toNat * 10 ^ 401 < 10 ^ nd * 10 ^ e'.toNat * 10 ^ 401 :=
            Nat.mul_lt_mul_of_pos_right (Nat.mul_lt_mul_of_pos_right hnd1 (Nat.pow_pos (by decide)))
              (Nat.pow_pos (by decide))
        _ = 10 ^ (nd + e'.toNat) * 10 ^ 401 := congrArg (· * 10 ^ 401) (Nat.pow_add ..).symm
        _ = 10 ^ (nd + e'.toNat + 401) := (Nat.pow_add ..).symm
        _ ≤ 10 ^ (-e').toNat := Nat.pow_le_pow_right (by decide) (by omega)
    have g3 : D ≤ 2 ^ (2 ^ (f.ebits - 1) - 1 + f.p) * P := by
      have := pow_scale_ge (2 ^ (f.ebits - 1) - 1 + f.p) 0 (e - 2) (by
        have : 1 ≤ 2 ^ (f.ebits - 1) := Nat.pow_pos (by decide)
        omega)
      rw [hP', hD'] at this
      simpa using this
    have g4 := hok.lo
    generalize (10 : Nat) ^ 401 = T at *
    generalize 2 ^ (2 ^ (f.ebits - 1) - 1 + f.p) = TC at *
    have c : den * D < den * D :=
      calc den * D ≤ den * (TC * P) := Nat.mul_le_mul_left den g3
        _ ≤ den * (T * P) := Nat.mul_le_mul_left den (Nat.mul_le_mul_right P g4)
        _ = (den * P) * T := by rw [Nat.mul_left_comm, Nat.mul_comm]
        _ ≤ 2 * (den * P) * T := Nat.mul_le_mul_right T (Nat.le_mul_of_pos_left _ (by decide))
        _ ≤ num * D * T := Nat.mul_le_mul_right T hLo
        _ = num * T * D := Nat.mul_right_comm ..
        _ < den * D := Nat.mul_lt_mul_of_pos_right g1 hD
    exact Nat.lt_irrefl _ c

/-! ### the round trip -/

theorem InIv_num_pos {f : FloatFmt} {b n d : Nat} (hI : InIv f b n d) (hm : 0 < (decompose f b).1) (hd : 0 < d) :
    0 < n := by
  have h := (InIv_bounds hI hm).1
  unfold LeS at h
  refine Nat.pos_of_ne_zero fun h0 => ?_
  rw [h0, Nat.zero_mul] at h
  have := Nat.mul_pos hd (pN_pos (b := 2) (by decide) ((decompose f b).2 - 2))
  omega

theorem parseMag_body (f : FloatFmt) (hok : FmtOK f) (sign mag : Nat) (hmag : mag ≤ f.infBits) :
    parseMag f sign (body f mag) = some (sign + mag) := by
  have hp1 : 1 ≤ f.p := by have := hok.p2; omega
  unfold body
  by_cases hinf : mag = f.infBits
  · rw [if_pos (by simpa using hinf), hinf]; rfl
  · rw [if_neg (by simpa using hinf)]
    by_cases h0 : mag = 0
    · rw [if_pos (by simpa using h0), h0]; rfl
    · rw [if_neg (by simpa using h0)]
      have hb0 : 0 < mag := Nat.pos_of_ne_zero h0
      have hbi : mag < f.infBits := by omega
      have hm0 := (decompose_facts f hp1 mag hb0).1
      have hI := shortestDigits_inInterval f hp1 mag hb0
      generalize (shortestDigits f mag).1 = d at hI
      generalize (shortestDigits f mag).2 = k at hI
      have hk : 0 < 10 ^ (-k).toNat := Nat.pow_pos (by decide)
      have hd : 0 < d := by
        have := InIv_num_pos hI hm0 hk
        exact Nat.pos_of_ne_zero fun h => by rw [h, Nat.zero_mul] at this; omega
      obtain ⟨m', e', hpd, hm', hval⟩ := parseDecimal_renderDecimal d k hd
      have he : 0 < 10 ^ (-e').toNat := Nat.pow_pos (by decide)
      have hI' : InIv f mag (m' * 10 ^ e'.toNat) (10 ^ (-e').toNat) := InIv_congr hI hval.symm hk he
      obtain ⟨hr1, hr2⟩ := range_ok f hok mag hb0 hbi m' e' hm' hI'
      obtain ⟨c, r, hs, hc⟩ := renderDecimal_head d k
      rw [parseMag_decimal f sign _ c r hs hc (renderDecimal_chars d k) m' e' hpd hm' hr1 hr2,
        roundRat_of_inInterval f hok.p2 mag hb0 hbi _ _ (InIv_num_pos hI' hm0 he) he hI']

theorem body_head (f : FloatFmt) (mag : Nat) : ∃ c r, body f mag = c :: r ∧ c ≠ '-' ∧ c ≠ '+' := by
  unfold body
  split
  · exact ⟨'i', _, rfl, by decide, by decide⟩
  · split
    · exact ⟨'0', _, rfl, by decide, by decide⟩
    · obtain ⟨c, r, hs, hc⟩ := renderDecimal_head (shortestDigits f mag).1 (shortestDigits f mag).2
      refine ⟨c, r, hs, ?_, ?_⟩ <;> (intro h; rw [h] at hc; revert hc; decide)

/-- **`parseBits_printBits`**: printing a non-NaN bit pattern and parsing the text gives the pattern back —
both signs, zeros, infinities, subnormal and normal finite values. -/
theorem parseBits_printBits (f : FloatFmt) (hok : FmtOK f) (b : Nat) (h1 : b % f.signBit ≤ f.infBits)
    (h2 : b < 2 * f.signBit) : parseBits f (printBits f b) = some b := by
  rw [printBits_eq, if_neg (by omega)]
  by_cases hs : b ≥ f.signBit
  · rw [if_pos hs, parseBits_neg, parseMag_body f hok _ _ h1]
    congr 1
    rw [Nat.mod_eq_sub_mod hs, Nat.mod_eq_of_lt (by omega)]
    omega
  · rw [if_neg hs]
    obtain ⟨c, r, hb, hc1, hc2⟩ := body_head f (b % f.signBit)
    have := parseMag_body f hok 0 _ h1
    rw [hb] at this ⊢
    rw [parseBits_pos f c r hc1 hc2, this, Nat.zero_add, Nat.mod_eq_of_lt (by omega)]

theorem parseBits_printBits_f64 (b : Nat) (h1 : b % 2 ^ 63 ≤ 0x7FF0000000000000) (h2 : b < 2 ^ 64) :
    parseBits fmt64 (printBits fmt64 b) = some b :=
  parseBits_printBits fmt64 fmtOK64 b h1 h2

theorem parseBits_printBits_f32 (b : Nat) (h1 : b % 2 ^ 31 ≤ 0x7F800000) (h2 : b < 2 ^ 32) :
    parseBits fmt32 (printBits fmt32 b) = some b :=
  parseBits_printBits fmt32 fmtOK32 b h1 h2

end FCL
end Rosu
