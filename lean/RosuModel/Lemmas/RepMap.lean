/-
  Lemmas/RepMap.lean — glue between the separately developed proof lines (record sections: Lemmas/RtFile.lean; hit-object
  lines: Lemmas/HitObjectBlock{,Rt}.lean; timing points: Lemmas/RtTimingFile.lean; frame clause: Lemmas/FrameDecode.lean).

  * `MapLaws`: the four codec-law hypotheses the parts need, bundled. `RepMap`: the three representability predicates of the
    parts, bundled (record sections, control points incl. collected sample points, every hit object).
  * the parser calls of one decode as a list (`fileCalls`, `runCalls`): `frame_fileLines_calls` restates the dispatch lemma
    `RtFile.frame_fileLines` as a fold over one call list, `recorder_runCalls` reads the list off the recording decoder.
  * `stepAccepts` / `CallsAccepted`: the `Ok`/`Err` flag of the parser `BeatmapState.step` delegates to, and "every call of a
    call list returned `Ok`", threaded through the actual states.
  * `core_frame`: the hit-object core of the `Beatmap` decoder state after a file of the encoder's shape is
    `parse_hit_objects` folded over exactly the `[HitObjects]` lines, in the mode `[General]` left.
-/
import RosuModel.Lemmas.HitObjectBlockRt
import RosuModel.Lemmas.RtTimingFile
import RosuModel.Lemmas.FrameDecode
set_option linter.unusedSectionVars false
namespace Rosu
open Rosu Encode EncodeLines C11

/-- **the codec laws** the composed theorems need: `Display`/`FromStr` round trip and character set for both float types,
integral `f64` values printed like integers (`AudioLeadIn`), and the cross-codec law for path coordinates (an `f32`
coordinate printed with `Display` and read with `f64`'s `FromStr`). Toy instance: `ZC` (Lemmas/ToyCodec.lean). -/
structure MapLaws (F P : Type) [Scalar F] [Scalar P] (RF : F → Prop) (RP : P → Prop) : Prop where
  f : CodecLaws F RF
  p : CodecLaws P RP
  int : IntPrintLaw F
  coord : SliderRt.CoordLaws F P RP

/-- the toy codec satisfies all of them. -/
theorem ZC.mapLaws : MapLaws ZC ZC ZC.Rep ZC.Rep := ⟨ZC.laws, ZC.laws, ZC.intPrintLaw, SliderRt.ZC.coordLaws⟩

section
variable {F P : Type} [Scalar F] [Scalar P] [Cvt P F] [Trig F] [Trig P]

/-- **a map the file format carries**: its record sections are representable (`RtFile.RepRecords`), its control points —
including the sample points `collect_samples` adds from the hit objects — are (`RtTiming.RepTimingMap`), and every hit object
is (`SliderRt.RepObject`: `RepCircle` / `RepSlider` / `RepSpinner` / `RepHold`; `RepPath` excludes the shapes of finding
F17, `RepSlider.distRep` the written lengths of finding F20). -/
structure RepMap (RF : F → Prop) (RP : P → Prop) (m : Beatmap F P) : Prop where
  records : RtFile.RepRecords RF RP m
  timing : RtTiming.RepTimingMap RF m
  objects : ∀ h ∈ m.hitObjects, SliderRt.RepObject RF RP m.general.mode h

end

namespace FileRt
open RtFile

/-! ### the parser calls of one decode, as a list -/

/-- the calls a block makes: each line goes to the parser of the block's section. -/
def callsOf (s : Section) (ls : List Str) : List (Section × Str) := ls.map (fun l => (s, l))

/-- the calls of a file of the encoder's shape: the eight blocks in canonical order. -/
def fileCalls (G E M D Ev T C H : List Str) : List (Section × Str) :=
  callsOf .general G ++ (callsOf .editor E ++ (callsOf .metadata M ++ (callsOf .difficulty D ++ (callsOf .events Ev ++
    (callsOf .timingPoints T ++ (callsOf .colors C ++ callsOf .hitObjects H))))))

/-- a decoder run over a call list. -/
def runCalls {σ : Type} (Dc : LineDecoder σ) (s : σ) (cs : List (Section × Str)) : σ :=
  cs.foldl (fun s c => Dc.step c.1 s c.2) s

theorem runCalls_append {σ : Type} (Dc : LineDecoder σ) (s : σ) (a b : List (Section × Str)) :
    runCalls Dc s (a ++ b) = runCalls Dc (runCalls Dc s a) b := by
  simp [runCalls, List.foldl_append]

theorem runCalls_callsOf {σ : Type} (Dc : LineDecoder σ) (s : σ) (sec : Section) (ls : List Str) :
    runCalls Dc s (callsOf sec ls) = ls.foldl (Dc.step sec) s := by
  simp [runCalls, callsOf, List.foldl_map]

theorem runCalls_fileCalls {σ : Type} (Dc : LineDecoder σ) (s : σ) (G E M D Ev T C H : List Str) :
    runCalls Dc s (fileCalls G E M D Ev T C H) =
      H.foldl (Dc.step .hitObjects) (C.foldl (Dc.step .colors) (T.foldl (Dc.step .timingPoints)
        (Ev.foldl (Dc.step .events) (D.foldl (Dc.step .difficulty) (M.foldl (Dc.step .metadata)
          (E.foldl (Dc.step .editor) (G.foldl (Dc.step .general) s))))))) := by
  simp only [fileCalls, runCalls_append, runCalls_callsOf]

/-- **dispatch, as one call list**: framing the lines of a file of the encoder's shape makes exactly the calls
`fileCalls`, in this order, on the state created for the version of the first line. -/
theorem frame_fileLines_calls {σ : Type} (Dc : LineDecoder σ) (v : Int) (hlo : -i32Max ≤ v) (hhi : v ≤ i32Max)
    (G E M D Ev T C H : List Str)
    (hG : ∀ r ∈ G, RecordLine r) (hE : ∀ r ∈ E, RecordLine r) (hM : ∀ r ∈ M, RecordLine r) (hD : ∀ r ∈ D, RecordLine r)
    (hEv : ∀ r ∈ Ev, RecordLine r) (hT : ∀ r ∈ T, RecordLine r) (hC : ∀ r ∈ C, RecordLine r) (hH : ∀ r ∈ H, RecordLine r) :
    frame Dc (fileLines v G E M D Ev T C H) = runCalls Dc (Dc.create v) (fileCalls G E M D Ev T C H) := by
  rw [frame_fileLines Dc v hlo hhi G E M D Ev T C H hG hE hM hD hEv hT hC hH, runCalls_fileCalls]

theorem recorder_runCalls_aux (st : Rec) (cs : List (Section × Str)) :
    runCalls recorder st cs = { version := st.version, calls := cs.reverse ++ st.calls } := by
  induction cs generalizing st with
  | nil => rfl
  | cons c cs ih =>
    show runCalls recorder (recorder.step c.1 st c.2) cs = _
    rw [ih]
    simp [recorder]

/-- the recording decoder run over a call list has logged exactly that list. -/
theorem recorder_runCalls (v : Int) (cs : List (Section × Str)) :
    runCalls recorder (recorder.create v) cs = { version := v, calls := cs.reverse } := by
  rw [recorder_runCalls_aux]
  simp [recorder]

/-! ### every call accepted -/

section
variable {F P : Type} [Scalar F] [Scalar P] [Cvt P F]

/-- the result (`Ok` ↦ `true`) of the parser that `<Beatmap as DecodeBeatmap>::parse_*` — `BeatmapState.step` — calls for
a line of section `sec` in state `st`: the same delegation, the flag instead of the state. -/
def stepAccepts (sec : Section) (st : BeatmapState F P) (l : Str) : Bool :=
  match sec with
  | .general => (parseGeneral st.hitObjects.timingPoints.general l).1.isOk
  | .editor => (parseEditor st.editor l).2
  | .metadata => (parseMetadata st.metadata l).2
  | .difficulty => (parseDifficulty st.hitObjects.difficulty l).2
  | .events => (parseEvents st.hitObjects.events l).2
  | .timingPoints => (parseTimingPoints st.hitObjects.timingPoints l).1.isOk
  | .colors => (parseColors st.colors l).2
  | .hitObjects => (parseHitObjectLine st.hitObjects.timingPoints.general.mode st.hitObjects.core l).2
  | _ => true

/-- **every call of the list returns `Ok`** when the list is run by the `Beatmap` decoder from `st` (each call judged in
the state the preceding calls left). -/
def CallsAccepted : BeatmapState F P → List (Section × Str) → Prop
  | _, [] => True
  | st, c :: cs => stepAccepts c.1 st c.2 = true ∧ CallsAccepted (BeatmapState.step c.1 st c.2) cs

theorem callsAccepted_append (st : BeatmapState F P) (a b : List (Section × Str)) :
    CallsAccepted st (a ++ b) ↔ CallsAccepted st a ∧ CallsAccepted (runCalls beatmapDecoder st a) b := by
  induction a generalizing st with
  | nil => simp [CallsAccepted, runCalls]
  | cons c a ih =>
    simp only [List.cons_append, CallsAccepted, ih, and_assoc]
    rfl

/-- a block whose lines the section's parser accepts in ANY state. -/
theorem callsAccepted_of_forall (sec : Section) (ls : List Str)
    (h : ∀ l ∈ ls, ∀ st : BeatmapState F P, stepAccepts sec st l = true) (st : BeatmapState F P) :
    CallsAccepted st (callsOf sec ls) := by
  induction ls generalizing st with
  | nil => trivial
  | cons l ls ih => exact ⟨h l (by simp) st, ih (fun x hx => h x (by simp [hx])) _⟩

/-- the `[HitObjects]` block: acceptance threaded through the hit-object core, in the mode `[General]` left. -/
theorem callsAccepted_hitObjects (ls : List Str) (st : BeatmapState F P)
    (h : Accepts (parseHitObjectLine st.hitObjects.timingPoints.general.mode) st.hitObjects.core ls) :
    CallsAccepted st (callsOf .hitObjects ls) := by
  induction ls generalizing st with
  | nil => trivial
  | cons l ls ih => exact ⟨h.1, ih _ h.2⟩

/-- … and conversely what `CallsAccepted` says of a block, read on the section's own state. -/
theorem accepts_of_callsAccepted_hitObjects (ls : List Str) (st : BeatmapState F P)
    (h : CallsAccepted st (callsOf .hitObjects ls)) :
    Accepts (parseHitObjectLine st.hitObjects.timingPoints.general.mode) st.hitObjects.core ls := by
  induction ls generalizing st with
  | nil => trivial
  | cons l ls ih => exact ⟨h.1, ih _ h.2⟩

theorem accepts_of_callsAccepted_timing (ls : List Str) (st : BeatmapState F P)
    (h : CallsAccepted st (callsOf .timingPoints ls)) :
    Accepts (fun s l => ((parseTimingPoints s l).2, (parseTimingPoints s l).1.isOk)) st.hitObjects.timingPoints ls := by
  induction ls generalizing st with
  | nil => trivial
  | cons l ls ih => exact ⟨h.1, ih _ h.2⟩

/-! ### the hit-object core after a file -/

theorem core_other (s : Section) (hs : s ≠ .hitObjects) (st : BeatmapState F P) (rs : List Str) :
    (rs.foldl (BeatmapState.step s) st).hitObjects.core = st.hitObjects.core := by
  induction rs generalizing st with
  | nil => rfl
  | cons r rs ih =>
    rw [List.foldl_cons, ih]
    cases s <;> first | rfl | exact absurd rfl hs

theorem general_hitObjects (st : BeatmapState F P) (rs : List Str) :
    (rs.foldl (BeatmapState.step .hitObjects) st).hitObjects.timingPoints = st.hitObjects.timingPoints := by
  induction rs generalizing st with
  | nil => rfl
  | cons r rs ih => rw [List.foldl_cons, ih]; rfl

theorem core_hitObjects (st : BeatmapState F P) (rs : List Str) :
    (rs.foldl (BeatmapState.step .hitObjects) st).hitObjects.core =
      runSection (parseHitObjectLine st.hitObjects.timingPoints.general.mode) st.hitObjects.core rs := by
  induction rs generalizing st with
  | nil => rfl
  | cons r rs ih => rw [List.foldl_cons, ih]; rfl

/-- **core_frame**: after framing the lines of a file of the encoder's shape, the hit-object core of the `Beatmap`
decoder state is `parse_hit_objects` folded from the empty core over exactly the lines `H` of the `[HitObjects]` block,
in the mode the state holds (the one `[General]` left; the other seven blocks do not touch the core). -/
theorem core_frame (v : Int) (hlo : -i32Max ≤ v) (hhi : v ≤ i32Max) (G E M D Ev T C H : List Str)
    (hG : ∀ r ∈ G, RecordLine r) (hE : ∀ r ∈ E, RecordLine r) (hM : ∀ r ∈ M, RecordLine r) (hD : ∀ r ∈ D, RecordLine r)
    (hEv : ∀ r ∈ Ev, RecordLine r) (hT : ∀ r ∈ T, RecordLine r) (hC : ∀ r ∈ C, RecordLine r) (hH : ∀ r ∈ H, RecordLine r) :
    let st := frame (beatmapDecoder : LineDecoder (BeatmapState F P)) (fileLines v G E M D Ev T C H)
    st.hitObjects.core = runSection (parseHitObjectLine (recView st).general.mode) ({} : HOCore F P) H := by
  intro st
  have e : st = H.foldl (BeatmapState.step .hitObjects) (C.foldl (BeatmapState.step .colors)
      (T.foldl (BeatmapState.step .timingPoints) (Ev.foldl (BeatmapState.step .events)
        (D.foldl (BeatmapState.step .difficulty) (M.foldl (BeatmapState.step .metadata)
          (E.foldl (BeatmapState.step .editor) (G.foldl (BeatmapState.step .general) (BeatmapState.create v)))))))) :=
    frame_fileLines _ v hlo hhi G E M D Ev T C H hG hE hM hD hEv hT hC hH
  have hmode : (recView st).general = st.hitObjects.timingPoints.general := rfl
  rw [hmode, e, core_hitObjects, general_hitObjects, core_other .colors (by decide), core_other .timingPoints (by decide),
    core_other .events (by decide), core_other .difficulty (by decide), core_other .metadata (by decide),
    core_other .editor (by decide), core_other .general (by decide)]
  rfl

end

/-! ### an encoded map read back -/

section
variable {F P : Type} [Scalar F] [Scalar P] [Cvt P F] [Trig F] [Trig P] {RF : F → Prop} {RP : P → Prop}

/-- the record lines of the eight blocks of an encoded map (`T`, `H` = the lines of the two list blocks), end-trimmed as
the reader delivers them, each paired with the section whose block it stands in. -/
def recordCalls (m : Beatmap F P) (T H : List Str) : List (Section × Str) :=
  fileCalls (RtGeneral.decodedLines m.general (RtGeneral.sampleSetOf m.controlPoints)) (RtEditor.decodedLines m.editor)
    (RtMetadata.decodedLines m.metadata) (RtDifficulty.decodedLines m.difficulty) (RtEvents.decodedLines m.events)
    (T.map trimEnd) (RtColours.decodedLines m.colors) (H.map trimEnd)

/-- **the `[HitObjects]` block of a map whose objects are representable** (`SliderRt.block_lines_back` at map level): the
block is its header plus one LF-free record line per object; every line is accepted in any state; run from a state with an
empty path buffer the lines append, in order, what the format carries of each object (`ObjsBack`). -/
theorem hitObjects_block (L : MapLaws F P RF RP) (m : Beatmap F P)
    (hm : ∀ h ∈ m.hitObjects, SliderRt.RepObject RF RP m.general.mode h) :
    ∃ H : List Str, encodeHitObjects m = .ok (unlines (str "[HitObjects]" :: H)) ∧ ListBlockShape H ∧
      H.length = m.hitObjects.length ∧
      (∀ l ∈ H.map trimEnd, ∀ st : HOCore F P, (parseHitObjectLine m.general.mode st l).2 = true) ∧
      ∀ st : HOCore F P, st.curvePoints = [] →
        ∃ os, (runSection (parseHitObjectLine m.general.mode) st (H.map trimEnd)).hitObjects = st.hitObjects ++ os ∧
          SliderRt.ObjsBack m.general.mode (SliderRt.forcedOf st) m.hitObjects os ∧
          (runSection (parseHitObjectLine m.general.mode) st (H.map trimEnd)).curvePoints = [] := by
  obtain ⟨H, h1, h2, h3, h4, h5⟩ := SliderRt.block_lines_back L.f L.p L.coord m.general.mode m.hitObjects hm
  refine ⟨H, ?_, h3, h2, ?_, h5⟩
  · unfold encodeHitObjects
    simp only [h1, bind, Except.bind, pure, Except.pure, unlines_cons]
    rfl
  · intro l hl st
    obtain ⟨x, hx, rfl⟩ := List.mem_map.mp hl
    exact h4 x hx st

/-- the record lines of the six record blocks of a representable map are record lines (neither headers nor skipped). -/
theorem record_lines_are_records (L : MapLaws F P RF RP) (m : Beatmap F P) (hm : RepRecords RF RP m) :
    (∀ r ∈ RtGeneral.decodedLines m.general (RtGeneral.sampleSetOf m.controlPoints), RecordLine r) ∧
    (∀ r ∈ RtEditor.decodedLines m.editor, RecordLine r) ∧ (∀ r ∈ RtMetadata.decodedLines m.metadata, RecordLine r) ∧
    (∀ r ∈ RtDifficulty.decodedLines m.difficulty, RecordLine r) ∧ (∀ r ∈ RtEvents.decodedLines m.events, RecordLine r) ∧
    (∀ r ∈ RtColours.decodedLines m.colors, RecordLine r) :=
  ⟨(RtGeneral.general_block_roundtrip L.int L.p _ _ hm.general).1, (RtEditor.editor_block_roundtrip L.f _ hm.editor).1,
   (RtMetadata.metadata_block_roundtrip _ hm.metadata).1, (RtDifficulty.difficulty_block_roundtrip L.f L.p _ hm.difficulty).1,
   (RtEvents.events_block_roundtrip L.f _ hm.events).1, (RtColours.colours_block_roundtrip _ hm.colors).1⟩

theorem shape_records {X : List Str} (s : ListBlockShape X) : ∀ r ∈ X.map trimEnd, RecordLine r := fun r hr => by
  obtain ⟨l, hl, rfl⟩ := List.mem_map.mp hr; exact (s l hl).2

/-- **file_decoded** — the encoded text of a map with representable record sections whose two list blocks are `T`, `H`
(LF-free record lines), read back from its UTF-8 bytes by ANY decoder: reading succeeds and the framing driver makes exactly
the calls `recordCalls m T H`, in this order, on the state created for the map's format version. -/
theorem file_decoded (L : MapLaws F P RF RP) (m : Beatmap F P) (hm : RepRecords RF RP m) (t : Str) (T H : List Str)
    (h : encode m = .ok t) (hT : encodeTimingPoints m = .ok (unlines (str "[TimingPoints]" :: T)))
    (hH : encodeHitObjects m = .ok (unlines (str "[HitObjects]" :: H))) (sT : ListBlockShape T) (sH : ListBlockShape H)
    {σ : Type} (Dc : LineDecoder σ) :
    decodeBytes Dc (utf8Encode t) = .ok (runCalls Dc (Dc.create m.formatVersion) (recordCalls m T H)) := by
  obtain ⟨rG, rE, rM, rD, rEv, rC⟩ := record_lines_are_records L m hm
  rw [FrameDec.decodeBytes_encoded Dc L.f L.p L.int m hm t T H h hT hH sT sH,
    frame_fileLines_calls Dc _ hm.version.1 hm.version.2 _ _ _ _ _ _ _ _ rG rE rM rD rEv (shape_records sT) rC (shape_records sH)]
  rfl

/-- **beatmap_state_decoded** — what the `Beatmap` decoder holds after those calls: the map's record fields (preserved
view); as timing-point state the fold of `parse_timing_points` over exactly `T` from the fresh state with the re-decoded
`[General]` values; as hit-object core the fold of `parse_hit_objects` (in the map's mode) over exactly `H` from the empty
core. -/
theorem beatmap_state_decoded (L : MapLaws F P RF RP) (m : Beatmap F P) (hm : RepRecords RF RP m) (T H : List Str)
    (sT : ListBlockShape T) (sH : ListBlockShape H) :
    let st := runCalls (beatmapDecoder : LineDecoder (BeatmapState F P)) (BeatmapState.create m.formatVersion) (recordCalls m T H)
    recView st = preservedRecords m ∧
    st.hitObjects.timingPoints = C12.runStrs { (TimingPointsState.create : TimingPointsState F P) with
      general := RtGeneral.preservedGeneral m.general (RtGeneral.sampleSetOf m.controlPoints) } (T.map trimEnd) ∧
    st.hitObjects.core = runSection (parseHitObjectLine m.general.mode) ({} : HOCore F P) (H.map trimEnd) := by
  intro st
  obtain ⟨rG, rE, rM, rD, rEv, rC⟩ := record_lines_are_records L m hm
  have e : st = frame (beatmapDecoder : LineDecoder (BeatmapState F P))
      (fileLines m.formatVersion (RtGeneral.decodedLines m.general (RtGeneral.sampleSetOf m.controlPoints))
        (RtEditor.decodedLines m.editor) (RtMetadata.decodedLines m.metadata) (RtDifficulty.decodedLines m.difficulty)
        (RtEvents.decodedLines m.events) (T.map trimEnd) (RtColours.decodedLines m.colors) (H.map trimEnd)) :=
    (frame_fileLines_calls _ _ hm.version.1 hm.version.2 _ _ _ _ _ _ _ _ rG rE rM rD rEv (shape_records sT) rC
      (shape_records sH)).symm
  have hv : recView st = preservedRecords m := by
    rw [e]; exact recView_frame L.f L.p L.int m hm _ _ (shape_records sT) (shape_records sH)
  refine ⟨hv, ?_, ?_⟩
  · rw [e]
    exact RtTiming.tpState_frame L.p L.int m hm.version hm.general _ _ _ _ _ _ _ rE rM rD rEv (shape_records sT) rC
      (shape_records sH)
  · have hc := core_frame (F := F) (P := P) m.formatVersion hm.version.1 hm.version.2 _ _ _ _ _ _ _ _ rG rE rM rD rEv
      (shape_records sT) rC (shape_records sH)
    simp only [] at hc
    rw [← e, hv] at hc
    exact hc

/-- `From<BeatmapState> for Beatmap`, the hit-object half: whenever finalisation succeeds, the hit objects of the `Beatmap` are
the map-level processing (`finalizeObjects`: slider velocities, curves, sample defaults — after the stable sort and the
forced new combos of `post_process_breaks`) applied to the objects the `[HitObjects]` lines pushed, with the mode, slider
multiplier and breaks the record sections left and the control points of the `Beatmap`. -/
theorem finish_hitObjects (st : BeatmapState F P) (b : Beatmap F P) (h : st.finish = .ok b) :
    finalizeObjects (recView st).general.mode (recView st).difficulty.difficulty.sliderMultiplier b.controlPoints
      (postProcessBreaks (recView st).events.breaks (sortByStartTime st.hitObjects.core.hitObjects) 0) emptyBuffers =
        .ok b.hitObjects := by
  unfold BeatmapState.finish at h
  cases hho : st.hitObjects.finish with
  | error e => simp [hho, bind, Except.bind] at h
  | ok ho =>
    simp only [hho, bind, Except.bind, pure, Except.pure] at h
    injection h with h
    subst h
    unfold HitObjectsState.finish at hho
    simp only [bind, Except.bind, pure, Except.pure] at hho
    split at hho
    · cases hho
    · rename_i objs heq
      injection hho with hho
      subst hho
      exact heq

end

end FileRt
end Rosu
