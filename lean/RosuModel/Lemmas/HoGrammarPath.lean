/-
  Lemmas/HoGrammarPath.lean — the path clause of the reference grammar (`HoSpec.path`,
  Lemmas/HoGrammarSpec.lean) is what `convert_path_str` computes: same acceptance, same control points,
  and an empty buffer after a failure. Built on `convertPathStr_spec` / `convertPoints_unfold` /
  `splitLoop_spec` of Props/C14Split.lean; the case `convertPoints_spec` leaves out (a later segment that
  is a type piece only, with a handed-over point) is covered here.
-/
import RosuModel.Lemmas.HoGrammarSpec
import RosuModel.Lemmas.Digits
namespace Rosu.C14.HoSpec
open Rosu Scalar

variable {F P : Type} [Scalar F] [Scalar P] [Cvt P F]

omit [Scalar P] [Cvt P F] in
/-- `parse_with_limits` is the spec's `number`. -/
theorem number_eq (s : Str) (lim : F) : floatParseWithLimits s lim = number s lim := by
  unfold floatParseWithLimits number withinLimit
  cases (Scalar.parse (trim s) : Option F) with
  | none => rfl
  | some v =>
    simp only
    cases lt v (-lim) <;> cases lt lim v <;> cases isNaN v <;> rfl

omit [Cvt P F] in
theorem point_eq (offset : Pos P) (s : Str) : readPoint (F := F) s offset = point F offset s := by
  unfold readPoint point
  simp only [number_eq, maxCoordinate]
  cases splitOn ':' s with
  | nil => rfl
  | cons xs r =>
    cases r with
    | nil =>
      simp only [List.getElem?_cons_zero, List.getElem?_cons_succ, List.getElem?_nil, Option.bind_some, Option.bind_none]
      cases number xs (Scalar.ofInt 131072 : F) <;> rfl
    | cons ys r2 =>
      simp only [List.getElem?_cons_zero, List.getElem?_cons_succ, Option.bind_some]
      cases number xs (Scalar.ofInt 131072 : F) with
      | none => rfl
      | some x => cases number ys (Scalar.ofInt 131072 : F) <;> rfl

omit [Cvt P F] in
theorem readPoints_eq (offset : Pos P) (ps : List Str) :
    readPoints F offset ps = allSome (ps.map (point F offset)) := by
  induction ps with
  | nil => rfl
  | cons p rest ih =>
    simp only [readPoints, List.map_cons, point_eq, ih]
    cases point F offset p with
    | none => rfl
    | some v => cases h : allSome (rest.map (point F offset)) <;> simp [allSome, h]

theorem readEnd_eq (offset : Pos P) (ep : Option Str) :
    readEnd F ep offset = (match ep with
      | none => some []
      | some e => (point F offset e).map fun v => [v]) := by
  cases ep with
  | none => rfl
  | some e => simp only [readEnd, point_eq]

/-- **one segment**: `convert_points` succeeds exactly when the segment is well formed, and then appends
the segment's contribution to `curve_points`. -/
theorem segment_eq (st : PathScratch P) (seg : List Str) (ep : Option Str) (first : Bool) (offset : Pos P) :
    (convertPoints F st seg ep first offset).2 = (segment F offset first (seg, ep)).isSome ∧
    ∀ pts, segment F offset first (seg, ep) = some pts →
      (convertPoints F st seg ep first offset).1.curvePoints = st.curvePoints ++ pts := by
  cases seg with
  | nil => exact ⟨rfl, fun pts h => by simp [segment] at h⟩
  | cons letter tail =>
    have hspec : segment F offset first (letter :: tail, ep) =
        (match readPoints F offset tail, readEnd F ep offset with
         | some own, some handed =>
           if (segVertices first own handed).isEmpty then none else
           some (if (segVertices first own handed).length - handed.length = 0
             then (typeFirst (effectivePathType (PathType.newFromStr letter) (segVertices first own handed)) (segVertices first own handed)).take 1
             else emitRange (effectivePathType (PathType.newFromStr letter) (segVertices first own handed))
               ((segVertices first own handed).length - handed.length)
               (typeFirst (effectivePathType (PathType.newFromStr letter) (segVertices first own handed)) (segVertices first own handed)) 0
               ((segVertices first own handed).length - handed.length))
         | _, _ => none) := by
      simp only [segment, readPoints_eq, readEnd_eq]
      rfl
    rw [hspec]
    cases hown : readPoints F offset tail with
    | none =>
      have : convertPoints F st (letter :: tail) ep first offset =
          ({ st with vertices := if first then [{ pos := Pos.zero, pathType := none }] else [] }, false) := by
        simp only [convertPoints, hown]
      rw [this]
      exact ⟨rfl, fun pts h => by simp at h⟩
    | some own =>
      cases hev : readEnd F ep offset with
      | none =>
        have : (convertPoints F st (letter :: tail) ep first offset).2 = false := by
          unfold readEnd at hev
          cases ep with
          | none => cases hev
          | some e =>
            simp only [Option.map_eq_none_iff] at hev
            simp only [convertPoints, hown, hev, Option.map_none]
        rw [this]
        exact ⟨rfl, fun pts h => by simp at h⟩
      | some handed =>
        rw [convertPoints_unfold st letter tail ep first offset own handed hown hev]
        simp only
        generalize hR : segVertices first own handed = R
        cases R with
        | nil => exact ⟨rfl, fun pts h => by simp at h⟩
        | cons v0 vrest =>
          simp only [List.isEmpty_cons, Bool.false_eq_true, if_false, Option.isSome_some, true_and, Option.some.injEq]
          intro pts hpts
          subst hpts
          by_cases hlim : (v0 :: vrest).length - handed.length = 0
          · simp only [hlim, if_true]
            have hlen : ({ v0 with pathType := some (effectivePathType (PathType.newFromStr letter) (v0 :: vrest)) } :: vrest).length
                = (v0 :: vrest).length := rfl
            rw [hlen, hlim, splitLoop_exit _ 0 _ _ _ 0 0 (by omega)]
            simp [flush, typeFirst]
          · simp only [hlim, if_false]
            have hlen : ({ v0 with pathType := some (effectivePathType (PathType.newFromStr letter) (v0 :: vrest)) } :: vrest).length
                = (v0 :: vrest).length := rfl
            rw [hlen]
            exact splitLoop_spec _ _ _ _ (by omega) (by simp only [List.length_cons] at hlim ⊢; omega)

/-- the segments in order: all must be well formed; contributions are appended in order. -/
theorem runSegments_eq (offset : Pos P) (more : List (List Str × Option Str)) :
    ∀ (st : PathScratch P) (first : Bool) (s0 : List Str × Option Str),
      (runSegments F offset st first (s0 :: more)).2 =
        (allSome (segment F offset first s0 :: more.map (segment F offset false))).isSome ∧
      ∀ parts, allSome (segment F offset first s0 :: more.map (segment F offset false)) = some parts →
        (runSegments F offset st first (s0 :: more)).1.curvePoints = st.curvePoints ++ parts.flatten := by
  induction more with
  | nil =>
    intro st first s0
    obtain ⟨seg, ep⟩ := s0
    obtain ⟨h1, h2⟩ := segment_eq (F := F) st seg ep first offset
    simp only [runSegments, List.map_nil]
    cases hc : convertPoints F st seg ep first offset with
    | mk st' ok =>
      rw [hc] at h1 h2
      cases hs : segment F offset first (seg, ep) with
      | none =>
        rw [hs] at h1; simp only [Option.isSome_none] at h1; subst h1
        exact ⟨rfl, fun parts h => by simp [allSome] at h⟩
      | some pts =>
        rw [hs] at h1; simp only [Option.isSome_some] at h1; subst h1
        refine ⟨rfl, fun parts h => ?_⟩
        simp only [allSome, Option.map_some, Option.some.injEq] at h
        subst h
        simpa using h2 pts hs
  | cons s1 more ih =>
    intro st first s0
    obtain ⟨seg, ep⟩ := s0
    obtain ⟨h1, h2⟩ := segment_eq (F := F) st seg ep first offset
    rw [runSegments]
    cases hc : convertPoints F st seg ep first offset with
    | mk st' ok =>
      rw [hc] at h1 h2
      cases hs : segment F offset first (seg, ep) with
      | none =>
        rw [hs] at h1; simp only [Option.isSome_none] at h1; subst h1
        exact ⟨by simp [allSome], fun parts h => by simp [allSome] at h⟩
      | some pts =>
        rw [hs] at h1; simp only [Option.isSome_some] at h1; subst h1
        obtain ⟨g1, g2⟩ := ih st' false s1
        have hcp : st'.curvePoints = st.curvePoints ++ pts := h2 pts hs
        simp only [List.map_cons] at g1 g2 ⊢
        simp only [allSome]
        cases hr : allSome (segment F offset false s1 :: more.map (segment F offset false)) with
        | none =>
          rw [hr] at g1
          exact ⟨by simpa using g1, fun parts h => by simp at h⟩
        | some rest =>
          rw [hr] at g1
          refine ⟨by simpa using g1, fun parts h => ?_⟩
          simp only [Option.map_some, Option.some.injEq] at h
          subst h
          rw [g2 rest hr, hcp]
          simp

omit [Scalar P] in
theorem cutSegments_ne_nil (seg rest : List Str) : cutSegments seg rest ≠ [] := by
  induction rest generalizing seg with
  | nil => simp [cutSegments]
  | cons p rest ih =>
    rw [cutSegments]
    split
    · simp
    · exact ih _

theorem any_isEmpty_iff (l : List Str) : (l.any (·.isEmpty)) = true ↔ [] ∈ l := by
  induction l with
  | nil => simp
  | cons p rest ih =>
    cases p with
    | nil => simp
    | cons c cs => simp [ih]

/-- **the path**: `convert_path_str` succeeds exactly when the path string is well formed, then leaves
the specified control points in `curve_points`; after a failure `curve_points` is empty. -/
theorem path_eq (sc : PathScratch P) (s : Str) (offset : Pos P) :
    (convertPathStr F sc s offset).2 = (path F sc.curvePoints offset s).isSome ∧
    (convertPathStr F sc s offset).1.curvePoints = (path F sc.curvePoints offset s).getD [] := by
  cases hp : splitOn '|' s with
  | nil => exact absurd hp (splitOn_ne_nil '|' s)
  | cons p0 prest =>
    obtain ⟨hbad, hgood⟩ := convertPathStr_spec (F := F) sc s offset p0 prest hp
    unfold path
    simp only [hp]
    by_cases hany : (prest.any (·.isEmpty)) = true
    · obtain ⟨h1, h2⟩ := hbad ((any_isEmpty_iff prest).mp hany)
      simp only [hany, if_true, Option.isSome_none, Option.getD_none]
      exact ⟨h1, h2⟩
    · have hne : ∀ p ∈ prest, p ≠ [] := by
        intro p hp hnil
        subst hnil
        exact hany ((any_isEmpty_iff prest).mpr hp)
      rw [hgood hne]
      simp only [hany, Bool.false_eq_true, if_false]
      cases hcut : cutSegments [p0] prest with
      | nil => exact absurd hcut (cutSegments_ne_nil _ _)
      | cons s0 more =>
        obtain ⟨g1, g2⟩ := runSegments_eq (F := F) offset more sc true s0
        simp only
        cases hr : runSegments F offset sc true (s0 :: more) with
        | mk st' ok =>
          rw [hr] at g1 g2
          cases ha : allSome (segment F offset true s0 :: more.map (segment F offset false)) with
          | none =>
            rw [ha] at g1
            simp only [Option.isSome_none] at g1
            subst g1
            exact ⟨rfl, rfl⟩
          | some parts =>
            rw [ha] at g1
            simp only [Option.isSome_some] at g1
            subst g1
            exact ⟨rfl, g2 parts ha⟩

end Rosu.C14.HoSpec
