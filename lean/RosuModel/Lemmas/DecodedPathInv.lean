/-
  Lemmas/DecodedPathInv.lean — the TYPE / SHAPE half of `SliderRt.RepPath` for the control points `convert_path_str`
  produces (DESIGN 5.4 / 5.14, finding F17).

  * `emitTail` / `emitRange_head`: the closed form `C14.emitRange` of one segment (Props/C14Split.lean) without indices —
    a structural walk over the segment's own vertices (`splitB`: the vertex repeats its predecessor, is not in a Catmull
    segment beyond index 1, and is not the segment's last own vertex).
  * `F17Chain`: the two clauses of `SliderRt.ChainOK` that the decoder does NOT guarantee (finding F17 and the
    consecutive-Catmull exclusion of the property text), as a recursive decidable predicate of the same shape as
    `ChainOK`; `chainOK_f17`: `ChainOK` implies it (so it is exactly what is missing).
  * `chain_tail`, `seg_shape`: one segment's contribution, followed by the later segments' contributions, satisfies
    `WfType` / `PShape` / `ChainOK` given `F17Chain` — under `EqLaws` (on the positions that occur, `==` is equality and a
    degenerate triple is collinear).
  * `cut_linked`: the end point handed to a segment is the first point of the next segment (`Linked`), as far as the
    pieces say; `suffix_shape`: induction over the segments from the right (law `letter`: a piece starting with an ASCII
    letter does not read as a point); `path_shape`: the control points of `HoSpec.path` with an empty buffer.
-/
import RosuModel.Lemmas.HoGrammarPath
import RosuModel.Lemmas.SliderPathRep
import RosuModel.Lemmas.DecodedInvText
set_option linter.unusedSectionVars false
namespace Rosu
namespace DecodedPath
open Rosu Scalar SliderRt C14 C14.HoSpec

variable {P : Type} [Scalar P]

/-! ### one segment's emission, structurally -/

/-- `isSplit` of the own vertex `w` that follows a vertex at `p`; `gt1`: its index is above 1; `tl`: the own vertices
after it. -/
def splitB (ty : PathType) (gt1 : Bool) (p : Pos P) (w : PathControlPoint P) (tl : List (PathControlPoint P)) : Bool :=
  Pos.eq w.pos p && !(ty == PathType.catmull && gt1) && !tl.isEmpty

/-- `isSplit` of the vertex after `w` (`w` at an index ≥ 1). -/
def nextSplit (ty : PathType) (w : PathControlPoint P) : List (PathControlPoint P) → Bool
  | [] => false
  | w' :: tl' => splitB ty true w.pos w' tl'

/-- the control points emitted for the own vertices `l` (indices ≥ 1) that follow a vertex at `p`. -/
def emitTail (ty : PathType) : Bool → Pos P → List (PathControlPoint P) → List (PathControlPoint P)
  | _, _, [] => []
  | gt1, p, w :: tl =>
    (if splitB ty gt1 p w tl then [] else [if nextSplit ty w tl then { w with pathType := some ty } else w])
      ++ emitTail ty true w.pos tl

theorem isSplit_eq (ty : PathType) (limit : Nat) (vs : List (PathControlPoint P)) (e : Nat) (pw w : PathControlPoint P)
    (tl : List (PathControlPoint P)) (h1 : 1 ≤ e) (hp : vs[e - 1]? = some pw) (hw : vs[e]? = some w)
    (hl : e + 1 + tl.length = limit) :
    isSplit ty limit vs e = splitB ty (decide (e > 1)) pw.pos w tl := by
  unfold isSplit splitB posEqAt
  rw [hw, hp]
  have h2 : decide (1 ≤ e) = true := by simpa using h1
  have h3 : decide (e < limit) = true := by simp only [decide_eq_true_eq]; omega
  have h4 : (e == limit - 1) = tl.isEmpty := by
    cases tl with
    | nil =>
      simp only [List.length_nil, Nat.add_zero] at hl
      simp only [List.isEmpty_nil, beq_iff_eq]; omega
    | cons a b =>
      simp only [List.length_cons] at hl
      simp only [List.isEmpty_cons, beq_eq_false_iff_ne, ne_eq]; omega
  rw [h2, h3, h4]
  simp only [Bool.true_and]

theorem drop_pred {α : Type} (vs : List α) (e : Nat) (x : α) (r : List α) (h1 : 1 ≤ e) (hd : vs.drop (e - 1) = x :: r) :
    vs[e - 1]? = some x ∧ vs.drop e = r := by
  constructor
  · have := List.head?_drop (l := vs) (i := e - 1)
    rw [hd] at this
    simpa using this.symm
  · have : vs.drop e = (vs.drop (e - 1)).drop 1 := by
      rw [List.drop_drop]; congr 1; omega
    rw [this, hd]; rfl

theorem emitRange_tail (ty : PathType) (limit : Nat) (vs handed : List (PathControlPoint P)) :
    ∀ (l : List (PathControlPoint P)) (e : Nat) (pw : PathControlPoint P), 1 ≤ e →
      vs.drop (e - 1) = pw :: (l ++ handed) → e + l.length = limit →
      emitRange ty limit vs e l.length = emitTail ty (decide (e > 1)) pw.pos l := by
  intro l
  induction l with
  | nil => intro e pw _ _ _; rfl
  | cons w tl ih =>
    intro e pw h1 hd hl
    obtain ⟨hp, hd'⟩ := drop_pred vs e pw _ h1 hd
    simp only [List.cons_append] at hd'
    have hd'' : vs.drop (e + 1 - 1) = w :: (tl ++ handed) := by simpa using hd'
    obtain ⟨hw, hd3⟩ := drop_pred vs (e + 1) w _ (by omega) hd''
    have hw' : vs[e]? = some w := by simpa using hw
    simp only [List.length_cons] at hl
    have hdec : decide (e + 1 > 1) = true := by simp only [decide_eq_true_eq]; omega
    have ih' := ih (e + 1) w (by omega) hd'' (by omega)
    rw [hdec] at ih'
    rw [List.length_cons, emitRange_succ, emitTail, ih']
    congr 1
    have hn : isSplit ty limit vs (e + 1) = nextSplit ty w tl := by
      cases tl with
      | nil =>
        rw [isSplit_ge_limit _ _ _ _ (by simp only [List.length_nil] at hl; omega)]
        rfl
      | cons w' tl' =>
        have hw2 : vs[e + 1]? = some w' := by
          have := List.head?_drop (l := vs) (i := e + 1)
          rw [hd3] at this
          simpa using this.symm
        rw [isSplit_eq ty limit vs (e + 1) w w' tl' (by omega) hw hw2
          (by simp only [List.length_cons] at hl; omega), hdec]
        rfl
    unfold emitAt
    rw [isSplit_eq ty limit vs e pw w tl h1 hp hw' (by omega), hw', hn]
    cases splitB ty (decide (e > 1)) pw.pos w tl <;> cases nextSplit ty w tl <;> rfl

theorem emitAt_zero (ty : PathType) (limit : Nat) (vs : List (PathControlPoint P)) (v : PathControlPoint P)
    (h : vs[0]? = some v) (hv : v.pathType = some ty) : emitAt ty limit vs 0 = some v := by
  unfold emitAt
  rw [isSplit_zero, h]
  obtain ⟨p, t⟩ := v
  simp only at hv
  subst hv
  by_cases hc : isSplit ty limit vs (0 + 1) = true <;> simp [hc]

/-- **one segment's closed form without indices**: the head (typed), then `emitTail` over the other own vertices. -/
theorem emitRange_head (ty : PathType) (v0 : PathControlPoint P) (ws handed : List (PathControlPoint P)) :
    emitRange ty (ws.length + 1) (typeFirst ty (v0 :: (ws ++ handed))) 0 (ws.length + 1) =
      { v0 with pathType := some ty } :: emitTail ty false v0.pos ws := by
  rw [emitRange_succ]
  have h0 : emitAt ty (ws.length + 1) (typeFirst ty (v0 :: (ws ++ handed))) 0 = some { v0 with pathType := some ty } :=
    emitAt_zero ty _ _ _ (by simp [typeFirst]) rfl
  rw [h0]
  have := emitRange_tail ty (ws.length + 1) (typeFirst ty (v0 :: (ws ++ handed))) handed ws 1
    { v0 with pathType := some ty } (Nat.le_refl _) (by simp [typeFirst]) (by omega)
  simp only [Nat.zero_add] at this ⊢
  rw [this]
  rfl

/-! ### the clauses of `ChainOK` the decoder does not guarantee -/

/-- **what `ChainOK` asks beyond the decoder's guarantees** (`T`: the closest type before, `a`: the previous point):
* an untyped point that repeats its TYPED predecessor's position is the last point or directly precedes a typed point
  (violated by a Catmull segment that begins with the same position three or more times — finding **F17**, index-0
  variant);
* a typed point that the encoder could write implicitly (same type as before, not a perfect curve, followed by an
  untyped point) does not repeat its predecessor's position (finding **F17**) and is not Catmull (consecutive Catmull
  segments: excluded by the property text). -/
def F17Chain : PathType → PathControlPoint P → List (PathControlPoint P) → Prop
  | _, _, [] => True
  | T, a, b :: rest =>
    match b.pathType with
    | none =>
      (Pos.eq b.pos a.pos = true → a.pathType.isSome = true → rest = [] ∨ nextTyped rest = true) ∧ F17Chain T b rest
    | some t =>
      ((t = T ∧ t ≠ PathType.perfect ∧ endsSeg rest = false) →
        t ≠ PathType.catmull ∧ Pos.eq b.pos a.pos = false) ∧ F17Chain t b rest

/-- `F17Chain` is necessary for `ChainOK`. -/
theorem chainOK_f17 (rest : List (PathControlPoint P)) :
    ∀ (T : PathType) (a : PathControlPoint P), ChainOK T a rest → F17Chain T a rest := by
  induction rest with
  | nil => intro T a _; trivial
  | cons b rest ih =>
    intro T a h
    rw [ChainOK] at h
    rw [F17Chain]
    cases hb : b.pathType with
    | none =>
      simp only [hb] at h ⊢
      refine ⟨fun he ha => ?_, ih T b h.2⟩
      rcases h.1 he with h1 | h1 | h1
      · exact Or.inl h1
      · exact Or.inr h1.1
      · rw [h1.2] at ha; cases ha
    | some t =>
      simp only [hb] at h ⊢
      exact ⟨fun hc => ⟨(h.2.2.1 hc).1, (h.2.2.1 hc).2.2⟩, ih t b h.2.2.2⟩

/-! ### laws on the positions that occur -/

/-- on the positions `Q` (those a path string can produce), `==` is equality and a triple with a repeated point is
collinear for `is_linear`. No such law holds of every `Scalar` (`NaN`, `-0`). -/
structure EqLaws (Q : Pos P → Prop) : Prop where
  sound : ∀ p q, Q p → Q q → Pos.eq p q = true → p = q
  refl : ∀ p, Q p → Pos.eq p p = true
  dupLinear : ∀ p c, Q p → Q c → isLinear p p c = true

/-! ### path types -/

theorem wf_newFromStr (s : Str) : WfType (PathType.newFromStr s) := by
  unfold PathType.newFromStr
  split
  · rfl
  · split
    · split
      · rename_i d hd
        split
        · rename_i hpos
          have := (DecodedInv.i32FromStr_range hd).2
          exact ⟨hpos, this⟩
        · trivial
      · trivial
    · split
      · rfl
      · split <;> rfl

theorem wf_effective (pt : PathType) (vs : List (PathControlPoint P)) (h : WfType pt) : WfType (effectivePathType pt vs) := by
  unfold effectivePathType
  split
  · split
    · split
      · rfl
      · exact h
    · trivial
  · exact h

/-- a segment stays a perfect curve only with exactly three vertices that are not collinear. -/
theorem effective_perfect (pt : PathType) (vs : List (PathControlPoint P))
    (h : effectivePathType pt vs = PathType.perfect) :
    ∃ a b c, vs = [a, b, c] ∧ isLinear a.pos b.pos c.pos = false := by
  unfold effectivePathType at h
  split at h
  · split at h
    · rename_i a b c
      split at h
      · cases h
      · rename_i hl
        exact ⟨a, b, c, rfl, by simpa using hl⟩
    · cases h
  · rename_i hne
    rw [h] at hne
    exact (hne (by simp)).elim

/-! ### the chain over one segment's tail -/

theorem beq_catmull_false {ty : PathType} (h : (ty == PathType.catmull) = false) : ty ≠ PathType.catmull := by
  intro e; rw [e] at h; simp at h

/-- **the chain over a segment's own vertices after its head.** `a`: the previous emitted control point (at the
previous vertex's position `p`); `more`: what the later segments contribute (empty, or starting with a typed point). -/
theorem chain_tail {Q : Pos P → Prop} (L : EqLaws Q) (ty : PathType) (hwf : WfType ty) (more : List (PathControlPoint P))
    (hmoreT : more = [] ∨ nextTyped more = true)
    (hmore : ∀ a : PathControlPoint P, Q a.pos → F17Chain ty a more → ChainOK ty a more) :
    ∀ (l : List (PathControlPoint P)) (gt1 : Bool) (p : Pos P) (a : PathControlPoint P),
      (∀ w ∈ l, w.pathType = none ∧ Q w.pos) → Q p → a.pos = p →
      (ty = PathType.perfect → l.length ≤ 2) →
      F17Chain ty a (emitTail ty gt1 p l ++ more) → ChainOK ty a (emitTail ty gt1 p l ++ more) := by
  intro l
  induction l with
  | nil =>
    intro gt1 p a _ hp ha _ hf
    exact hmore a (by rw [ha]; exact hp) hf
  | cons w tl ih =>
    intro gt1 p a hl hp ha hperf hf
    have hw := hl w List.mem_cons_self
    have htl : ∀ x ∈ tl, x.pathType = none ∧ Q x.pos := fun x hx => hl x (List.mem_cons_of_mem _ hx)
    have hperf' : ty = PathType.perfect → tl.length ≤ 2 := fun e => by
      have := hperf e; simp only [List.length_cons] at this; omega
    rw [emitTail] at hf ⊢
    cases hs : splitB ty gt1 p w tl with
    | true =>
      simp only [hs, if_true, List.nil_append] at hf ⊢
      have he : Pos.eq w.pos p = true := by
        unfold splitB at hs
        simp only [Bool.and_eq_true] at hs
        exact hs.1.1
      have hwp : w.pos = p := L.sound _ _ hw.2 hp he
      exact ih true w.pos a htl hw.2 (by rw [ha, hwp]) hperf' hf
    | false =>
      simp only [hs, Bool.false_eq_true, if_false, List.cons_append, List.nil_append] at hf ⊢
      cases hn : nextSplit ty w tl with
      | false =>
        simp only [hn, Bool.false_eq_true, if_false] at hf ⊢
        rw [ChainOK]
        rw [F17Chain] at hf
        simp only [hw.1] at hf ⊢
        refine ⟨fun heq => ?_, ih true w.pos w htl hw.2 rfl hperf' hf.2⟩
        have heq' : Pos.eq w.pos p = true := by rw [← ha]; exact heq
        have hpos : w.pos = a.pos := by rw [ha]; exact L.sound _ _ hw.2 hp heq'
        -- `w` repeats its predecessor and is not a split index
        cases tl with
        | nil =>
          simp only [emitTail, List.nil_append]
          rcases hmoreT with h | h
          · exact Or.inl h
          · exact Or.inr (Or.inl ⟨h, hpos⟩)
        | cons w' tl' =>
          have hcat : ty = PathType.catmull := by
            unfold splitB at hs
            simp only [heq', List.isEmpty_cons, Bool.not_false, Bool.and_true, Bool.true_and, Bool.not_eq_false',
              Bool.and_eq_true, beq_iff_eq] at hs
            exact hs.1
          cases hat : a.pathType with
          | none => exact Or.inr (Or.inr ⟨hcat, rfl⟩)
          | some ta =>
            rcases hf.1 heq (by rw [hat]; rfl) with h | h
            · exact Or.inl h
            · exact Or.inr (Or.inl ⟨h, hpos⟩)
      | true =>
        simp only [hn, if_true] at hf ⊢
        rw [ChainOK]
        rw [F17Chain] at hf
        simp only at hf ⊢
        -- the next vertex is a split index: not Catmull, at least two more own vertices
        cases tl with
        | nil => simp [nextSplit] at hn
        | cons w' tl' =>
          have hn' : Pos.eq w'.pos w.pos = true ∧ (ty == PathType.catmull) = false ∧ tl'.isEmpty = false := by
            simp only [nextSplit, splitB, Bool.and_true, Bool.and_eq_true, Bool.not_eq_true'] at hn
            exact ⟨hn.1.1, hn.1.2, hn.2⟩
          have hnc : ty ≠ PathType.catmull := beq_catmull_false hn'.2.1
          refine ⟨hwf, ?_, ?_, ih true w.pos { w with pathType := some ty } htl hw.2 rfl hperf' hf.2⟩
          · intro e
            have := hperf e
            cases tl' with
            | nil => simp at hn'
            | cons x y => simp only [List.length_cons] at this; omega
          · intro _
            refine ⟨hnc, L.refl _ hw.2, ?_⟩
            unfold splitB at hs
            rw [ha]
            cases he : Pos.eq w.pos p with
            | false => rfl
            | true =>
              simp only [he, hn'.2.1, Bool.false_and, Bool.not_false, List.isEmpty_cons, Bool.and_self,
                Bool.true_eq_false] at hs

/-! ### one segment -/

theorem typed_eta (v : PathControlPoint P) (ty : PathType) :
    ({ v with pathType := some ty } : PathControlPoint P).pos = v.pos := rfl

/-- a segment with a vertex of its own: head `v0`, other own vertices `ws`. -/
theorem seg_shape_main {Q : Pos P → Prop} (L : EqLaws Q) (pt0 : PathType) (hw0 : WfType pt0)
    (v0 : PathControlPoint P) (ws handed more : List (PathControlPoint P))
    (hv0 : Q v0.pos) (hws : ∀ w ∈ ws, w.pathType = none ∧ Q w.pos) (hhd : ∀ w ∈ handed, Q w.pos)
    (hlen : handed.length ≤ 1)
    (hm1 : handed = [] → more = [])
    (hm2 : ∀ v, handed = [v] → ∃ h' body', more = h' :: body' ∧ h'.pathType.isSome = true ∧ h'.pos = v.pos)
    (hmore : ∀ (T : PathType) (a : PathControlPoint P), Q a.pos → F17Chain T a more → ChainOK T a more) :
    let ty := effectivePathType pt0 (v0 :: (ws ++ handed))
    WfType ty ∧ PShape ty v0.pos (emitTail ty false v0.pos ws ++ more) ∧
      (F17Chain ty { v0 with pathType := some ty } (emitTail ty false v0.pos ws ++ more) →
        ChainOK ty { v0 with pathType := some ty } (emitTail ty false v0.pos ws ++ more)) := by
  intro ty
  have hmoreT : more = [] ∨ nextTyped more = true := by
    cases handed with
    | nil => exact Or.inl (hm1 rfl)
    | cons v r =>
      cases r with
      | nil =>
        obtain ⟨h', body', e, ht, _⟩ := hm2 v rfl
        right; rw [e]; exact ht
      | cons _ _ => simp at hlen
  refine ⟨wf_effective pt0 _ hw0, ?_, ?_⟩
  · intro hperf
    obtain ⟨a, b, c, hv, hlin⟩ := effective_perfect pt0 _ hperf
    rw [hperf]
    cases handed with
    | nil =>
      have hmo := hm1 rfl
      simp only [List.append_nil, List.cons.injEq] at hv
      obtain ⟨e0, ews⟩ := hv
      subst e0; subst ews; subst hmo
      have hb := hws b (by simp)
      have hc := hws c (by simp)
      have hsb : Pos.eq b.pos v0.pos = false := by
        cases he : Pos.eq b.pos v0.pos with
        | false => rfl
        | true =>
          have := L.sound _ _ hb.2 hv0 he
          rw [this, L.dupLinear _ _ hv0 hc.2] at hlin
          cases hlin
      simp only [emitTail, splitB, nextSplit, hsb, List.isEmpty_nil, List.isEmpty_cons, Bool.not_true, Bool.and_false,
        Bool.false_and, Bool.false_eq_true, if_false, List.append_nil, List.cons_append, List.nil_append]
      exact ⟨hb.1, Or.inr trivial, hlin⟩
    | cons v r =>
      cases r with
      | cons _ _ => simp at hlen
      | nil =>
        obtain ⟨h', body', e, ht, hpos⟩ := hm2 v rfl
        cases ws with
        | nil => simp at hv
        | cons w1 r1 =>
          cases r1 with
          | cons _ _ => simp at hv
          | nil =>
            simp only [List.cons_append, List.nil_append, List.cons.injEq, and_true] at hv
            obtain ⟨e0, e1, e2⟩ := hv
            subst e0; subst e1; subst e2
            have hb := hws w1 (by simp)
            simp only [emitTail, splitB, nextSplit, List.isEmpty_nil, Bool.not_true, Bool.and_false,
              Bool.false_eq_true, if_false, List.append_nil, List.cons_append, List.nil_append, e]
            exact ⟨hb.1, Or.inl ht, by rw [hpos]; exact hlin⟩
  · intro hf
    apply chain_tail L ty (wf_effective pt0 _ hw0) more hmoreT (fun a ha => hmore ty a ha) ws false v0.pos
      { v0 with pathType := some ty } hws hv0 rfl ?_ hf
    intro hperf
    obtain ⟨a, b, c, hv, _⟩ := effective_perfect pt0 _ hperf
    have := congrArg List.length hv
    simp only [List.length_cons, List.length_append, List.length_nil] at this
    omega

end DecodedPath
end Rosu
