/-
  Lemmas/DecodedPathInv.lean — the TYPE / SHAPE half of `SliderRt.RepPath` for the control points `convert_path_str`
  produces (DESIGN 5.4 / 5.14, finding F17).

  * `emitTail` / `emitRange_head`: the closed form `C14.emitRange` of one segment (Props/C14Split.lean) without indices —
    a structural walk over the segment's own vertices (`splitB`: the vertex repeats its predecessor, is not in a Catmull
    segment beyond index 1, and is not the segment's last own vertex).
  * `F17Chain`: the two clauses of `SliderRt.ChainOK` that the decoder does NOT guarantee (finding F17 and the
    consecutive-Catmull exclusion of the property text), as a recursive decidable predicate of the same shape as
    `ChainOK`; `chainOK_f17`: `ChainOK` implies it (so it is exactly what is missing).
  * `chain_tail`, `seg_shape`: one segment's contribution, followed by the later segments' contributions, satisfies
    `WfType` / `PShape` / `ChainOK` given `F17Chain` — under `EqLaws` (on the positions that occur, `==` is equality and a
    degenerate triple is collinear).
  * `cut_linked`: the end point handed to a segment is the first point of the next segment (`Linked`), as far as the
    pieces say; `suffix_shape`: induction over the segments from the right (law `letter`: a piece starting with an ASCII
    letter does not read as a point); `path_shape`: the control points of `HoSpec.path` with an empty buffer.
-/
import RosuModel.Lemmas.HoGrammarPath
import RosuModel.Lemmas.SliderPathRep
import RosuModel.Lemmas.DecodedInvText
set_option linter.unusedSectionVars false
namespace Rosu
namespace DecodedPath
open Rosu Scalar SliderRt C14 C14.HoSpec

variable {P : Type} [Scalar P]

/-! ### one segment's emission, structurally -/

/-- `isSplit` of the own vertex `w` that follows a vertex at `p`; `gt1`: its index is above 1; `tl`: the own vertices
after it. -/
def splitB (ty : PathType) (gt1 : Bool) (p : Pos P) (w : PathControlPoint P) (tl : List (PathControlPoint P)) : Bool :=
  Pos.eq w.pos p && !(ty == PathType.catmull && gt1) && !tl.isEmpty

/-- `isSplit` of the vertex after `w` (`w` at an index ≥ 1). -/
def nextSplit (ty : PathType) (w : PathControlPoint P) : List (PathControlPoint P) → Bool
  | [] => false
  | w' :: tl' => splitB ty true w.pos w' tl'

/-- the control points emitted for the own vertices `l` (indices ≥ 1) that follow a vertex at `p`. -/
def emitTail (ty : PathType) : Bool → Pos P → List (PathControlPoint P) → List (PathControlPoint P)
  | _, _, [] => []
  | gt1, p, w :: tl =>
    (if splitB ty gt1 p w tl then [] else [if nextSplit ty w tl then { w with pathType := some ty } else w])
      ++ emitTail ty true w.pos tl

theorem isSplit_eq (ty : PathType) (limit : Nat) (vs : List (PathControlPoint P)) (e : Nat) (pw w : PathControlPoint P)
    (tl : List (PathControlPoint P)) (h1 : 1 ≤ e) (hp : vs[e - 1]? = some pw) (hw : vs[e]? = some w)
    (hl : e + 1 + tl.length = limit) :
    isSplit ty limit vs e = splitB ty (decide (e > 1)) pw.pos w tl := by
  unfold isSplit splitB posEqAt
  rw [hw, hp]
  have h2 : decide (1 ≤ e) = true := by simpa using h1
  have h3 : decide (e < limit) = true := by simp only [decide_eq_true_eq]; omega
  have h4 : (e == limit - 1) = tl.isEmpty := by
    cases tl with
    | nil =>
      simp only [List.length_nil, Nat.add_zero] at hl
      simp only [List.isEmpty_nil, beq_iff_eq]; omega
    | cons a b =>
      simp only [List.length_cons] at hl
      simp only [List.isEmpty_cons, beq_eq_false_iff_ne, ne_eq]; omega
  rw [h2, h3, h4]
  simp only [Bool.true_and]

theorem drop_pred {α : Type} (vs : List α) (e : Nat) (x : α) (r : List α) (h1 : 1 ≤ e) (hd : vs.drop (e - 1) = x :: r) :
    vs[e - 1]? = some x ∧ vs.drop e = r := by
  constructor
  · have := List.head?_drop (l := vs) (i := e - 1)
    rw [hd] at this
    simpa using this.symm
  · have : vs.drop e = (vs.drop (e - 1)).drop 1 := by
      rw [List.drop_drop]; congr 1; omega
    rw [this, hd]; rfl

theorem emitRange_tail (ty : PathType) (limit : Nat) (vs handed : List (PathControlPoint P)) :
    ∀ (l : List (PathControlPoint P)) (e : Nat) (pw : PathControlPoint P), 1 ≤ e →
      vs.drop (e - 1) = pw :: (l ++ handed) → e + l.length = limit →
      emitRange ty limit vs e l.length = emitTail ty (decide (e > 1)) pw.pos l := by
  intro l
  induction l with
  | nil => intro e pw _ _ _; rfl
  | cons w tl ih =>
    intro e pw h1 hd hl
    obtain ⟨hp, hd'⟩ := drop_pred vs e pw _ h1 hd
    simp only [List.cons_append] at hd'
    have hd'' : vs.drop (e + 1 - 1) = w :: (tl ++ handed) := by simpa using hd'
    obtain ⟨hw, hd3⟩ := drop_pred vs (e + 1) w _ (by omega) hd''
    have hw' : vs[e]? = some w := by simpa using hw
    simp only [List.length_cons] at hl
    have hdec : decide (e + 1 > 1) = true := by simp only [decide_eq_true_eq]; omega
    have ih' := ih (e + 1) w (by omega) hd'' (by omega)
    rw [hdec] at ih'
    rw [List.length_cons, emitRange_succ, emitTail, ih']
    congr 1
    have hn : isSplit ty limit vs (e + 1) = nextSplit ty w tl := by
      cases tl with
      | nil =>
        rw [isSplit_ge_limit _ _ _ _ (by simp only [List.length_nil] at hl; omega)]
        rfl
      | cons w' tl' =>
        have hw2 : vs[e + 1]? = some w' := by
          have := List.head?_drop (l := vs) (i := e + 1)
          rw [hd3] at this
          simpa using this.symm
        rw [isSplit_eq ty limit vs (e + 1) w w' tl' (by omega) hw hw2
          (by simp only [List.length_cons] at hl; omega), hdec]
        rfl
    unfold emitAt
    rw [isSplit_eq ty limit vs e pw w tl h1 hp hw' (by omega), hw', hn]
    cases splitB ty (decide (e > 1)) pw.pos w tl <;> cases nextSplit ty w tl <;> rfl

theorem emitAt_zero (ty : PathType) (limit : Nat) (vs : List (PathControlPoint P)) (v : PathControlPoint P)
    (h : vs[0]? = some v) (hv : v.pathType = some ty) : emitAt ty limit vs 0 = some v := by
  unfold emitAt
  rw [isSplit_zero, h]
  obtain ⟨p, t⟩ := v
  simp only at hv
  subst hv
  by_cases hc : isSplit ty limit vs (0 + 1) = true <;> simp [hc]

/-- **one segment's closed form without indices**: the head (typed), then `emitTail` over the other own vertices. -/
theorem emitRange_head (ty : PathType) (v0 : PathControlPoint P) (ws handed : List (PathControlPoint P)) :
    emitRange ty (ws.length + 1) (typeFirst ty (v0 :: (ws ++ handed))) 0 (ws.length + 1) =
      { v0 with pathType := some ty } :: emitTail ty false v0.pos ws := by
  rw [emitRange_succ]
  have h0 : emitAt ty (ws.length + 1) (typeFirst ty (v0 :: (ws ++ handed))) 0 = some { v0 with pathType := some ty } :=
    emitAt_zero ty _ _ _ (by simp [typeFirst]) rfl
  rw [h0]
  have := emitRange_tail ty (ws.length + 1) (typeFirst ty (v0 :: (ws ++ handed))) handed ws 1
    { v0 with pathType := some ty } (Nat.le_refl _) (by simp [typeFirst]) (by omega)
  simp only [Nat.zero_add] at this ⊢
  rw [this]
  rfl

/-! ### the clauses of `ChainOK` the decoder does not guarantee -/

/-- **what `ChainOK` asks beyond the decoder's guarantees** (`T`: the closest type before, `a`: the previous point):
* an untyped point that repeats its TYPED predecessor's position is the last point or directly precedes a typed point
  (violated by a Catmull segment that begins with the same position three or more times — finding **F17**, index-0
  variant);
* a typed point that the encoder could write implicitly (same type as before, not a perfect curve, followed by an
  untyped point) does not repeat its predecessor's position (finding **F17**) and is not Catmull (consecutive Catmull
  segments: excluded by the property text). -/
def F17Chain : PathType → PathControlPoint P → List (PathControlPoint P) → Prop
  | _, _, [] => True
  | T, a, b :: rest =>
    match b.pathType with
    | none =>
      (Pos.eq b.pos a.pos = true → a.pathType.isSome = true → rest = [] ∨ nextTyped rest = true) ∧ F17Chain T b rest
    | some t =>
      ((t = T ∧ t ≠ PathType.perfect ∧ endsSeg rest = false) →
        t ≠ PathType.catmull ∧ Pos.eq b.pos a.pos = false) ∧ F17Chain t b rest

instance decF17Chain : ∀ (T : PathType) (a : PathControlPoint P) (rest : List (PathControlPoint P)),
    Decidable (F17Chain T a rest)
  | _, _, [] => isTrue trivial
  | T, a, b :: rest =>
    match hb : b.pathType with
    | none =>
      have : Decidable (F17Chain T b rest) := decF17Chain T b rest
      decidable_of_iff ((Pos.eq b.pos a.pos = true → a.pathType.isSome = true →
          rest.isEmpty = true ∨ nextTyped rest = true) ∧ F17Chain T b rest)
        (by rw [F17Chain]; simp only [hb, List.isEmpty_iff])
    | some t =>
      have : Decidable (F17Chain t b rest) := decF17Chain t b rest
      decidable_of_iff (((t = T ∧ t ≠ PathType.perfect ∧ endsSeg rest = false) →
          t ≠ PathType.catmull ∧ Pos.eq b.pos a.pos = false) ∧ F17Chain t b rest)
        (by rw [F17Chain]; simp only [hb])

/-- `F17Chain` is necessary for `ChainOK`. -/
theorem chainOK_f17 (rest : List (PathControlPoint P)) :
    ∀ (T : PathType) (a : PathControlPoint P), ChainOK T a rest → F17Chain T a rest := by
  induction rest with
  | nil => intro T a _; trivial
  | cons b rest ih =>
    intro T a h
    rw [ChainOK] at h
    rw [F17Chain]
    cases hb : b.pathType with
    | none =>
      simp only [hb] at h ⊢
      refine ⟨fun he ha => ?_, ih T b h.2⟩
      rcases h.1 he with h1 | h1 | h1
      · exact Or.inl h1
      · exact Or.inr h1.1
      · rw [h1.2] at ha; cases ha
    | some t =>
      simp only [hb] at h ⊢
      exact ⟨fun hc => ⟨(h.2.2.1 hc).1, (h.2.2.1 hc).2.2⟩, ih t b h.2.2.2⟩

/-! ### laws on the positions that occur -/

/-- on the positions `Q` (those a path string can produce), `==` is equality and a triple with a repeated point is
collinear for `is_linear`. No such law holds of every `Scalar` (`NaN`, `-0`). -/
structure EqLaws (Q : Pos P → Prop) : Prop where
  sound : ∀ p q, Q p → Q q → Pos.eq p q = true → p = q
  refl : ∀ p, Q p → Pos.eq p p = true
  dupLinear : ∀ p c, Q p → Q c → isLinear p p c = true

/-! ### path types -/

theorem wf_newFromStr (s : Str) : WfType (PathType.newFromStr s) := by
  unfold PathType.newFromStr
  split
  · rfl
  · split
    · split
      · rename_i d hd
        split
        · rename_i hpos
          have := (DecodedInv.i32FromStr_range hd).2
          exact ⟨hpos, this⟩
        · trivial
      · trivial
    · split
      · rfl
      · split <;> rfl

theorem wf_effective (pt : PathType) (vs : List (PathControlPoint P)) (h : WfType pt) : WfType (effectivePathType pt vs) := by
  unfold effectivePathType
  split
  · split
    · split
      · rfl
      · exact h
    · trivial
  · exact h

/-- a segment stays a perfect curve only with exactly three vertices that are not collinear. -/
theorem effective_perfect (pt : PathType) (vs : List (PathControlPoint P))
    (h : effectivePathType pt vs = PathType.perfect) :
    ∃ a b c, vs = [a, b, c] ∧ isLinear a.pos b.pos c.pos = false := by
  unfold effectivePathType at h
  split at h
  · split at h
    · rename_i a b c
      split at h
      · cases h
      · rename_i hl
        exact ⟨a, b, c, rfl, by simpa using hl⟩
    · cases h
  · rename_i hne
    rw [h] at hne
    exact (hne (by simp)).elim

/-! ### the chain over one segment's tail -/

theorem beq_catmull_false {ty : PathType} (h : (ty == PathType.catmull) = false) : ty ≠ PathType.catmull := by
  intro e; rw [e] at h; simp at h

/-- **the chain over a segment's own vertices after its head.** `a`: the previous emitted control point (at the
previous vertex's position `p`); `more`: what the later segments contribute (empty, or starting with a typed point). -/
theorem chain_tail {Q : Pos P → Prop} (L : EqLaws Q) (ty : PathType) (hwf : WfType ty) (more : List (PathControlPoint P))
    (hmoreT : more = [] ∨ nextTyped more = true)
    (hmore : ∀ a : PathControlPoint P, Q a.pos → F17Chain ty a more → ChainOK ty a more) :
    ∀ (l : List (PathControlPoint P)) (gt1 : Bool) (p : Pos P) (a : PathControlPoint P),
      (∀ w ∈ l, w.pathType = none ∧ Q w.pos) → Q p → a.pos = p →
      (ty = PathType.perfect → l.length ≤ 2) →
      F17Chain ty a (emitTail ty gt1 p l ++ more) → ChainOK ty a (emitTail ty gt1 p l ++ more) := by
  intro l
  induction l with
  | nil =>
    intro gt1 p a _ hp ha _ hf
    exact hmore a (by rw [ha]; exact hp) hf
  | cons w tl ih =>
    intro gt1 p a hl hp ha hperf hf
    have hw := hl w List.mem_cons_self
    have htl : ∀ x ∈ tl, x.pathType = none ∧ Q x.pos := fun x hx => hl x (List.mem_cons_of_mem _ hx)
    have hperf' : ty = PathType.perfect → tl.length ≤ 2 := fun e => by
      have := hperf e; simp only [List.length_cons] at this; omega
    rw [emitTail] at hf ⊢
    cases hs : splitB ty gt1 p w tl with
    | true =>
      simp only [hs, if_true, List.nil_append] at hf ⊢
      have he : Pos.eq w.pos p = true := by
        unfold splitB at hs
        simp only [Bool.and_eq_true] at hs
        exact hs.1.1
      have hwp : w.pos = p := L.sound _ _ hw.2 hp he
      exact ih true w.pos a htl hw.2 (by rw [ha, hwp]) hperf' hf
    | false =>
      simp only [hs, Bool.false_eq_true, if_false, List.cons_append, List.nil_append] at hf ⊢
      cases hn : nextSplit ty w tl with
      | false =>
        simp only [hn, Bool.false_eq_true, if_false] at hf ⊢
        rw [ChainOK]
        rw [F17Chain] at hf
        simp only [hw.1] at hf ⊢
        refine ⟨fun heq => ?_, ih true w.pos w htl hw.2 rfl hperf' hf.2⟩
        have heq' : Pos.eq w.pos p = true := by rw [← ha]; exact heq
        have hpos : w.pos = a.pos := by rw [ha]; exact L.sound _ _ hw.2 hp heq'
        -- `w` repeats its predecessor and is not a split index
        cases tl with
        | nil =>
          simp only [emitTail, List.nil_append]
          rcases hmoreT with h | h
          · exact Or.inl h
          · exact Or.inr (Or.inl ⟨h, hpos⟩)
        | cons w' tl' =>
          have hcat : ty = PathType.catmull := by
            unfold splitB at hs
            simp only [heq', List.isEmpty_cons, Bool.not_false, Bool.and_true, Bool.true_and, Bool.not_eq_false',
              Bool.and_eq_true, beq_iff_eq] at hs
            exact hs.1
          cases hat : a.pathType with
          | none => exact Or.inr (Or.inr ⟨hcat, rfl⟩)
          | some ta =>
            rcases hf.1 heq (by rw [hat]; rfl) with h | h
            · exact Or.inl h
            · exact Or.inr (Or.inl ⟨h, hpos⟩)
      | true =>
        simp only [hn, if_true] at hf ⊢
        rw [ChainOK]
        rw [F17Chain] at hf
        simp only at hf ⊢
        -- the next vertex is a split index: not Catmull, at least two more own vertices
        cases tl with
        | nil => simp [nextSplit] at hn
        | cons w' tl' =>
          have hn' : Pos.eq w'.pos w.pos = true ∧ (ty == PathType.catmull) = false ∧ tl'.isEmpty = false := by
            simp only [nextSplit, splitB, Bool.and_true, Bool.and_eq_true, Bool.not_eq_true'] at hn
            exact ⟨hn.1.1, hn.1.2, hn.2⟩
          have hnc : ty ≠ PathType.catmull := beq_catmull_false hn'.2.1
          refine ⟨hwf, ?_, ?_, ih true w.pos { w with pathType := some ty } htl hw.2 rfl hperf' hf.2⟩
          · intro e
            have := hperf e
            cases tl' with
            | nil => simp at hn'
            | cons x y => simp only [List.length_cons] at this; omega
          · intro _
            refine ⟨hnc, L.refl _ hw.2, ?_⟩
            unfold splitB at hs
            rw [ha]
            cases he : Pos.eq w.pos p with
            | false => rfl
            | true =>
              simp only [he, hn'.2.1, Bool.false_and, Bool.not_false, List.isEmpty_cons, Bool.and_self,
                Bool.true_eq_false] at hs

/-! ### one segment -/

theorem typed_eta (v : PathControlPoint P) (ty : PathType) :
    ({ v with pathType := some ty } : PathControlPoint P).pos = v.pos := rfl

/-- a segment with a vertex of its own: head `v0`, other own vertices `ws`. -/
theorem seg_shape_main {Q : Pos P → Prop} (L : EqLaws Q) (pt0 : PathType) (hw0 : WfType pt0)
    (v0 : PathControlPoint P) (ws handed more : List (PathControlPoint P))
    (hv0 : Q v0.pos) (hws : ∀ w ∈ ws, w.pathType = none ∧ Q w.pos) (hhd : ∀ w ∈ handed, Q w.pos)
    (hlen : handed.length ≤ 1)
    (hm1 : handed = [] → more = [])
    (hm2 : ∀ v, handed = [v] → ∃ h' body', more = h' :: body' ∧ h'.pathType.isSome = true ∧ h'.pos = v.pos)
    (hmore : ∀ (T : PathType) (a : PathControlPoint P), Q a.pos → F17Chain T a more → ChainOK T a more) :
    let ty := effectivePathType pt0 (v0 :: (ws ++ handed))
    WfType ty ∧ PShape ty v0.pos (emitTail ty false v0.pos ws ++ more) ∧
      (F17Chain ty { v0 with pathType := some ty } (emitTail ty false v0.pos ws ++ more) →
        ChainOK ty { v0 with pathType := some ty } (emitTail ty false v0.pos ws ++ more)) := by
  intro ty
  have hmoreT : more = [] ∨ nextTyped more = true := by
    cases handed with
    | nil => exact Or.inl (hm1 rfl)
    | cons v r =>
      cases r with
      | nil =>
        obtain ⟨h', body', e, ht, _⟩ := hm2 v rfl
        right; rw [e]; exact ht
      | cons _ _ => simp at hlen
  refine ⟨wf_effective pt0 _ hw0, ?_, ?_⟩
  · intro hperf
    obtain ⟨a, b, c, hv, hlin⟩ := effective_perfect pt0 _ hperf
    rw [hperf]
    cases handed with
    | nil =>
      have hmo := hm1 rfl
      simp only [List.append_nil, List.cons.injEq] at hv
      obtain ⟨e0, ews⟩ := hv
      subst e0; subst ews; subst hmo
      have hb := hws b (by simp)
      have hc := hws c (by simp)
      have hsb : Pos.eq b.pos v0.pos = false := by
        cases he : Pos.eq b.pos v0.pos with
        | false => rfl
        | true =>
          have := L.sound _ _ hb.2 hv0 he
          rw [this, L.dupLinear _ _ hv0 hc.2] at hlin
          cases hlin
      simp only [emitTail, splitB, nextSplit, hsb, List.isEmpty_nil, List.isEmpty_cons, Bool.not_true, Bool.and_false,
        Bool.false_and, Bool.false_eq_true, if_false, List.append_nil, List.cons_append, List.nil_append]
      exact ⟨hb.1, Or.inr trivial, hlin⟩
    | cons v r =>
      cases r with
      | cons _ _ => simp at hlen
      | nil =>
        obtain ⟨h', body', e, ht, hpos⟩ := hm2 v rfl
        cases ws with
        | nil => simp at hv
        | cons w1 r1 =>
          cases r1 with
          | cons _ _ => simp at hv
          | nil =>
            simp only [List.cons_append, List.nil_append, List.cons.injEq, and_true] at hv
            obtain ⟨e0, e1, e2⟩ := hv
            subst e0; subst e1; subst e2
            have hb := hws w1 (by simp)
            simp only [emitTail, splitB, nextSplit, List.isEmpty_nil, Bool.not_true, Bool.and_false,
              Bool.false_eq_true, if_false, List.append_nil, List.cons_append, List.nil_append, e]
            exact ⟨hb.1, Or.inl ht, by rw [hpos]; exact hlin⟩
  · intro hf
    apply chain_tail L ty (wf_effective pt0 _ hw0) more hmoreT (fun a ha => hmore ty a ha) ws false v0.pos
      { v0 with pathType := some ty } hws hv0 rfl ?_ hf
    intro hperf
    obtain ⟨a, b, c, hv, _⟩ := effective_perfect pt0 _ hperf
    have := congrArg List.length hv
    simp only [List.length_cons, List.length_append, List.length_nil] at this
    omega

/-- the control points one segment contributes (`HoSpec.segment`), as a function of its vertices. -/
def segEmit (pt0 : PathType) (first : Bool) (own handed : List (PathControlPoint P)) : List (PathControlPoint P) :=
  if (segVertices first own handed).length - handed.length = 0
  then (typeFirst (effectivePathType pt0 (segVertices first own handed)) (segVertices first own handed)).take 1
  else emitRange (effectivePathType pt0 (segVertices first own handed))
    ((segVertices first own handed).length - handed.length)
    (typeFirst (effectivePathType pt0 (segVertices first own handed)) (segVertices first own handed)) 0
    ((segVertices first own handed).length - handed.length)

theorem segEmit_cons (pt0 : PathType) (first : Bool) (own handed : List (PathControlPoint P))
    (v0 : PathControlPoint P) (ws : List (PathControlPoint P))
    (hv : segVertices first own handed = v0 :: (ws ++ handed)) :
    segEmit pt0 first own handed =
      { v0 with pathType := some (effectivePathType pt0 (v0 :: (ws ++ handed))) } ::
        emitTail (effectivePathType pt0 (v0 :: (ws ++ handed))) false v0.pos ws := by
  unfold segEmit
  rw [hv]
  have hn : (v0 :: (ws ++ handed)).length - handed.length = ws.length + 1 := by
    simp only [List.length_cons, List.length_append]; omega
  rw [hn, if_neg (by omega)]
  exact emitRange_head _ v0 ws handed

/-- **one segment**, followed by the later segments' contribution `more`. -/
theorem seg_shape {Q : Pos P → Prop} (L : EqLaws Q) (hQ0 : Q Pos.zero) (pt0 : PathType) (hw0 : WfType pt0) (first : Bool)
    (own handed more : List (PathControlPoint P))
    (hown : ∀ w ∈ own, w.pathType = none ∧ Q w.pos) (hhd : ∀ w ∈ handed, w.pathType = none ∧ Q w.pos)
    (hlen : handed.length ≤ 1) (hne : segVertices first own handed ≠ [])
    (hm1 : handed = [] → more = [])
    (hm2 : ∀ v, handed = [v] → ∃ h' body', more = h' :: body' ∧ h'.pathType.isSome = true ∧ h'.pos = v.pos)
    (hmore : ∀ (T : PathType) (a : PathControlPoint P), Q a.pos → F17Chain T a more → ChainOK T a more) :
    ∃ h body t, segEmit pt0 first own handed ++ more = h :: body ∧ h.pathType = some t ∧ WfType t ∧
      PShape t h.pos body ∧ (F17Chain t h body → ChainOK t h body) ∧ Q h.pos ∧
      (∀ v0, (segVertices first own handed).head? = some v0 → h.pos = v0.pos) := by
  have hhd' : ∀ w ∈ handed, Q w.pos := fun w hw => (hhd w hw).2
  -- a segment with a vertex of its own
  have main : ∀ (v0 : PathControlPoint P) (ws : List (PathControlPoint P)), Q v0.pos →
      (∀ w ∈ ws, w.pathType = none ∧ Q w.pos) → segVertices first own handed = v0 :: (ws ++ handed) →
      ∃ h body t, segEmit pt0 first own handed ++ more = h :: body ∧ h.pathType = some t ∧ WfType t ∧
        PShape t h.pos body ∧ (F17Chain t h body → ChainOK t h body) ∧ Q h.pos ∧
        (∀ v0, (segVertices first own handed).head? = some v0 → h.pos = v0.pos) := by
    intro v0 ws hv0 hws hv
    obtain ⟨h1, h2, h3⟩ := seg_shape_main L pt0 hw0 v0 ws handed more hv0 hws hhd' hlen hm1 hm2 hmore
    refine ⟨{ v0 with pathType := some (effectivePathType pt0 (v0 :: (ws ++ handed))) },
      emitTail (effectivePathType pt0 (v0 :: (ws ++ handed))) false v0.pos ws ++ more,
      effectivePathType pt0 (v0 :: (ws ++ handed)),
      by rw [segEmit_cons pt0 first own handed v0 ws hv]; rfl, rfl, h1, h2, h3, hv0, ?_⟩
    intro v hv'
    rw [hv] at hv'
    simp only [List.head?_cons, Option.some.injEq] at hv'
    subst hv'; rfl
  cases first with
  | true =>
    exact main ⟨Pos.zero, none⟩ own hQ0 hown (by simp [segVertices])
  | false =>
    cases own with
    | cons o1 own' =>
      exact main o1 own' (hown o1 List.mem_cons_self).2 (fun w hw => hown w (List.mem_cons_of_mem _ hw))
        (by simp [segVertices])
    | nil =>
      -- a later segment that is its type piece alone: the handed-over point, typed
      cases handed with
      | nil => exact absurd (by simp [segVertices]) hne
      | cons v r =>
        cases r with
        | cons _ _ => simp at hlen
        | nil =>
          have hv : segVertices false ([] : List (PathControlPoint P)) [v] = [v] := by simp [segVertices]
          have hE : segEmit pt0 false [] [v] = [{ v with pathType := some (effectivePathType pt0 [v]) }] := by
            unfold segEmit
            rw [hv]
            simp [typeFirst]
          refine ⟨{ v with pathType := some (effectivePathType pt0 [v]) }, more, effectivePathType pt0 [v],
            by rw [hE]; rfl, rfl, wf_effective pt0 _ hw0, ?_, ?_, (hhd v (by simp)).2, ?_⟩
          · intro hperf
            obtain ⟨a, b, c, habs, _⟩ := effective_perfect pt0 _ hperf
            simp at habs
          · intro hf
            exact hmore _ _ (hhd v (by simp)).2 hf
          · intro v0 hv0
            rw [hv] at hv0
            simp only [List.head?_cons, Option.some.injEq] at hv0
            subst hv0; rfl

/-! ### the segments of a path string -/

section Path
variable {F : Type} [Scalar F] [Cvt P F]

/-- how the end point handed to a segment relates to the next segment `(s2, e2)`: it is the piece after the next
segment's type piece — that segment's first point, or (the segment being a type piece alone) nothing or the following
type piece. -/
def AdjOK (e1 : Option Str) (s2 : List Str) (e2 : Option Str) : Prop :=
  (∃ q, e1 = some q ∧ s2[1]? = some q) ∨ (e1 = none ∧ s2.length ≤ 1 ∧ e2 = none) ∨
    (∃ l, e1 = some l ∧ isLetterPiece l = true)

def Linked : List (List Str × Option Str) → Prop
  | [] => True
  | [x] => x.2 = none
  | x :: y :: more => AdjOK x.2 y.1 y.2 ∧ Linked (y :: more)

omit [Scalar P] in
theorem cut_head (rest : List Str) : ∀ seg : List Str, ∃ ext e more, cutSegments seg rest = (seg ++ ext, e) :: more := by
  induction rest with
  | nil => intro seg; exact ⟨[], none, [], by simp [cutSegments]⟩
  | cons p rest ih =>
    intro seg
    rw [cutSegments]
    split
    · exact ⟨[], rest.head?, cutSegments [p] rest, by simp⟩
    · obtain ⟨ext, e, more, h⟩ := ih (seg ++ [p])
      exact ⟨p :: ext, e, more, by rw [h]; simp⟩

omit [Scalar P] in
/-- **the segments of `cutSegments` are linked.** -/
theorem cut_linked (rest : List Str) : ∀ seg : List Str, Linked (cutSegments seg rest) := by
  induction rest with
  | nil => intro seg; simp [cutSegments, Linked]
  | cons p rest ih =>
    intro seg
    rw [cutSegments]
    split
    · have hl := ih [p]
      cases rest with
      | nil =>
        simp only [cutSegments, Linked, List.head?_nil]
        exact ⟨Or.inr (Or.inl ⟨rfl, by simp, rfl⟩), trivial⟩
      | cons q rest' =>
        by_cases hq : isLetterPiece q = true
        · rw [cutSegments, if_pos hq] at hl ⊢
          exact ⟨Or.inr (Or.inr ⟨q, rfl, hq⟩), hl⟩
        · obtain ⟨ext, e, more, h⟩ := cut_head rest' ([p] ++ [q])
          rw [cutSegments, if_neg hq] at hl ⊢
          rw [h] at hl ⊢
          exact ⟨Or.inl ⟨q, rfl, by simp⟩, hl⟩
    · exact ih _

omit [Scalar P] in
theorem allSome_cons_some {α : Type} (x : Option α) (xs : List (Option α)) (r : List α)
    (h : allSome (x :: xs) = some r) : ∃ a r', x = some a ∧ allSome xs = some r' ∧ r = a :: r' := by
  cases x with
  | none => simp [allSome] at h
  | some a =>
    simp only [allSome, Option.map_eq_some_iff] at h
    obtain ⟨r', h1, h2⟩ := h
    exact ⟨a, r', rfl, h1, h2.symm⟩

omit [Scalar P] in
theorem allSome_map {α β : Type} (f : α → Option β) (l : List α) :
    ∀ r, allSome (l.map f) = some r → (∀ w ∈ r, ∃ s ∈ l, f s = some w) ∧ (∀ q, l.head? = some q → r.head? = f q) := by
  induction l with
  | nil =>
    intro r h
    simp only [List.map_nil, allSome, Option.some.injEq] at h
    subst h
    refine ⟨?_, ?_⟩
    · intro w hw; cases hw
    · intro q hq; simp at hq
  | cons x xs ih =>
    intro r h
    obtain ⟨a, r', h1, h2, h3⟩ := allSome_cons_some _ _ _ h
    subst h3
    obtain ⟨i1, _⟩ := ih r' h2
    refine ⟨fun w hw => ?_, fun q hq => ?_⟩
    · rcases List.mem_cons.mp hw with rfl | hw
      · exact ⟨x, List.mem_cons_self, h1⟩
      · obtain ⟨s, hs, hf⟩ := i1 w hw
        exact ⟨s, List.mem_cons_of_mem _ hs, hf⟩
    · simp only [List.head?_cons, Option.some.injEq] at hq
      subst hq
      simp [h1]

omit [Cvt P F] in
theorem point_untyped (offset : Pos P) (s : Str) (v : PathControlPoint P) (h : point F offset s = some v) :
    v.pathType = none := by
  unfold point at h
  simp only [] at h
  split at h
  · cases h; rfl
  · cases h

/-- what `HoSpec.segment` returns, in terms of the segment's vertices. -/
theorem segment_some (offset : Pos P) (first : Bool) (seg : List Str) (ep : Option Str) (E : List (PathControlPoint P))
    (h : segment F offset first (seg, ep) = some E) :
    ∃ letter pts own handed, seg = letter :: pts ∧ allSome (pts.map (point F offset)) = some own ∧
      (match ep with
       | none => some []
       | some e => (point F offset e).map fun v => [v]) = some handed ∧
      segVertices first own handed ≠ [] ∧ E = segEmit (PathType.newFromStr letter) first own handed := by
  unfold segment at h
  split at h
  · cases h
  · rename_i letter pts hseg
    simp only at hseg
    split at h
    · rename_i own handed ho hh
      simp only at h
      split at h
      · cases h
      · rename_i hne
        simp only [Option.some.injEq] at h
        refine ⟨letter, pts, own, handed, hseg, ho, hh, ?_, ?_⟩
        · intro e; rw [e] at hne; exact hne rfl
        · rw [← h]; rfl
    · cases h

/-- **the contributions of the segments from one segment on**: the first control point is typed, with a well-formed
type and the perfect-curve shape, and the chain conditions hold given `F17Chain`. -/
theorem suffix_shape {Q : Pos P → Prop} (L : EqLaws Q) (offset : Pos P) (hQ0 : Q Pos.zero)
    (hQpt : ∀ s v, point F offset s = some v → Q v.pos)
    (hletter : ∀ s, isLetterPiece s = true → point F offset s = none)
    (more : List (List Str × Option Str)) :
    ∀ (s0 : List Str × Option Str) (first : Bool) (parts : List (List (PathControlPoint P))),
      Linked (s0 :: more) →
      allSome (segment F offset first s0 :: more.map (segment F offset false)) = some parts →
      ∃ h body t, parts.flatten = h :: body ∧ h.pathType = some t ∧ WfType t ∧ PShape t h.pos body ∧
        (F17Chain t h body → ChainOK t h body) ∧ Q h.pos ∧ (first = true → h.pos = Pos.zero) ∧
        (first = false → ∀ q v, s0.1[1]? = some q → point F offset q = some v → h.pos = v.pos) := by
  induction more with
  | nil =>
    intro s0 first parts hl hp
    obtain ⟨seg, ep⟩ := s0
    obtain ⟨E, r', h1, h2, h3⟩ := allSome_cons_some _ _ _ hp
    simp only [List.map_nil, allSome, Option.some.injEq] at h2
    subst h2; subst h3
    have hep : ep = none := hl
    subst hep
    obtain ⟨letter, pts, own, handed, hseg, ho, hh, hne, hE⟩ := segment_some offset first seg none E h1
    simp only [Option.some.injEq] at hh
    subst hh
    obtain ⟨m1, m2⟩ := allSome_map (point F offset) pts own ho
    have hown : ∀ w ∈ own, w.pathType = none ∧ Q w.pos := fun w hw => by
      obtain ⟨s, _, hs⟩ := m1 w hw
      exact ⟨point_untyped offset s w hs, hQpt s w hs⟩
    obtain ⟨h, body, t, e1, e2, e3, e4, e5, e6, e7⟩ := seg_shape L hQ0 (PathType.newFromStr letter) (wf_newFromStr letter)
      first own [] [] hown (fun w hw => by cases hw) (by simp) hne (fun _ => rfl) (fun v hv => by cases hv)
      (fun _ _ _ _ => trivial)
    refine ⟨h, body, t, by simpa [hE] using e1, e2, e3, e4, e5, e6, ?_, ?_⟩
    · intro hf; subst hf
      exact e7 ⟨Pos.zero, none⟩ (by simp [segVertices])
    · intro hf q v hq hv
      subst hf
      subst hseg
      have hq' : pts.head? = some q := by rw [List.head?_eq_getElem?]; simpa using hq
      have := m2 q hq'
      rw [hv] at this
      exact e7 v (by simp only [segVertices]; cases own with
        | nil => simp at this
        | cons o r => simp only [List.head?_cons, Option.some.injEq] at this; subst this; simp)
  | cons s1 more ih =>
    intro s0 first parts hl hp
    obtain ⟨seg, ep⟩ := s0
    obtain ⟨E, r', h1, h2, h3⟩ := allSome_cons_some _ _ _ hp
    subst h3
    obtain ⟨hadj, hl'⟩ := hl
    simp only [List.map_cons] at h2
    obtain ⟨h', body', t', f1, f2, f3, f4, f5, f6, _, f8⟩ := ih s1 false r' hl' h2
    obtain ⟨letter, pts, own, handed, hseg, ho, hh, hne, hE⟩ := segment_some offset first seg ep E h1
    obtain ⟨m1, m2⟩ := allSome_map (point F offset) pts own ho
    have hown : ∀ w ∈ own, w.pathType = none ∧ Q w.pos := fun w hw => by
      obtain ⟨s, _, hs⟩ := m1 w hw
      exact ⟨point_untyped offset s w hs, hQpt s w hs⟩
    -- the end point is the next segment's first point
    have hq : ∃ q v, ep = some q ∧ s1.1[1]? = some q ∧ point F offset q = some v ∧ handed = [v] := by
      rcases hadj with ⟨q, hq1, hq2⟩ | ⟨hq1, hq2, hq3⟩ | ⟨l, hq1, hq2⟩
      · simp only at hq1 hq2
        subst hq1
        simp only [Option.map_eq_some_iff] at hh
        obtain ⟨v, hv, hvh⟩ := hh
        exact ⟨q, v, rfl, hq2, hv, hvh.symm⟩
      · -- the next segment has no vertex at all
        exfalso
        obtain ⟨E1, r1, g1, _, _⟩ := allSome_cons_some _ _ _ h2
        obtain ⟨seg1, ep1⟩ := s1
        simp only at hq2 hq3
        subst hq3
        obtain ⟨letter1, pts1, own1, handed1, hseg1, ho1, hh1, hne1, _⟩ := segment_some offset false seg1 none E1 g1
        subst hseg1
        simp only [List.length_cons] at hq2
        have hp1 : pts1 = [] := List.eq_nil_of_length_eq_zero (by omega)
        subst hp1
        simp only [List.map_nil, allSome, Option.some.injEq] at ho1 hh1
        subst ho1; subst hh1
        exact hne1 (by simp [segVertices])
      · exfalso
        simp only at hq1
        subst hq1
        simp only [hletter l hq2, Option.map_none] at hh
        cases hh
    obtain ⟨q, v, hq1, hq2, hq3, hq4⟩ := hq
    subst hq4
    have hpos : h'.pos = v.pos := f8 rfl q v hq2 hq3
    have hhd : ∀ w ∈ [v], w.pathType = none ∧ Q w.pos := fun w hw => by
      simp only [List.mem_singleton] at hw
      subst hw
      exact ⟨point_untyped offset q w hq3, hQpt q w hq3⟩
    have hmore : ∀ (T : PathType) (a : PathControlPoint P), Q a.pos → F17Chain T a r'.flatten → ChainOK T a r'.flatten := by
      intro T a _ hf
      rw [f1] at hf ⊢
      rw [ChainOK]
      rw [F17Chain] at hf
      simp only [f2] at hf ⊢
      exact ⟨f3, f4, fun hc => ⟨(hf.1 hc).1, L.refl _ f6, (hf.1 hc).2⟩, f5 hf.2⟩
    obtain ⟨h, body, t, e1, e2, e3, e4, e5, e6, e7⟩ := seg_shape L hQ0 (PathType.newFromStr letter) (wf_newFromStr letter)
      first own [v] r'.flatten hown hhd (by simp) hne (fun hc => by cases hc)
      (fun v' hv' => by
        simp only [List.cons.injEq, and_true] at hv'
        subst hv'
        exact ⟨h', body', f1, by rw [f2]; rfl, hpos⟩) hmore
    refine ⟨h, body, t, by simpa [hE] using e1, e2, e3, e4, e5, e6, ?_, ?_⟩
    · intro hf; subst hf
      exact e7 ⟨Pos.zero, none⟩ (by simp [segVertices])
    · intro hf q' v' hq' hv'
      subst hf
      subst hseg
      have hq'' : pts.head? = some q' := by rw [List.head?_eq_getElem?]; simpa using hq'
      have := m2 q' hq''
      rw [hv'] at this
      exact e7 v' (by simp only [segVertices]; cases own with
        | nil => simp at this
        | cons o r => simp only [List.head?_cons, Option.some.injEq] at this; subst this; simp)

/-- **the control points of a well-formed path string read into an empty buffer**: the first one is the origin and
typed; every typed point has a well-formed type and the perfect-curve shape; the chain conditions hold given
`F17Chain`. -/
theorem path_shape {Q : Pos P → Prop} (L : EqLaws Q) (offset : Pos P) (hQ0 : Q Pos.zero)
    (hQpt : ∀ s v, point F offset s = some v → Q v.pos)
    (hletter : ∀ s, isLetterPiece s = true → point F offset s = none)
    (s : Str) (cps : List (PathControlPoint P)) (h : path F [] offset s = some cps) :
    ∃ p0 rest t0, cps = p0 :: rest ∧ p0.pos = Pos.zero ∧ p0.pathType = some t0 ∧ WfType t0 ∧ PShape t0 p0.pos rest ∧
      (F17Chain t0 p0 rest → ChainOK t0 p0 rest) := by
  unfold path at h
  split at h
  · cases h
  · rename_i p0 rest _
    split at h
    · cases h
    · have hl := cut_linked rest [p0]
      split at h
      · cases h
      · rename_i s0 more hcut
        rw [hcut] at hl
        simp only [Option.map_eq_some_iff, List.nil_append] at h
        obtain ⟨parts, hp, hc⟩ := h
        subst hc
        obtain ⟨h', body, t, e1, e2, e3, e4, e5, _, e7, _⟩ :=
          suffix_shape (F := F) L offset hQ0 hQpt hletter more s0 true parts hl hp
        exact ⟨h', body, t, e1, e7 rfl, e2, e3, e4, e5⟩

end Path

end DecodedPath
end Rosu
