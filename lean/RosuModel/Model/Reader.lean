/-
  Model/Reader.lean — `src/reader/decoder.rs` over an explicit delivery schedule.

  A `BufRead` is modelled as the list of things its `fill_buf` will do next:
  hand out a non-empty chunk, report `Interrupted` once, or fail with a fatal
  error. `read_until` / `read_exact` follow std's documented loops (retry on
  `Interrupted`, stop at the delimiter, `UnexpectedEof` when a byte is missing).
-/
import RosuModel.Model.Utf
namespace Rosu

inductive IoKind
  | other | unexpectedEof | permissionDenied | timedOut | wouldBlock | writeZero | invalidData
  deriving DecidableEq, Repr, Inhabited

inductive Ev
  | chunk (bs : List UInt8)
  | intr
  | fail (k : IoKind)
  deriving Repr

abbrev Sched := List Ev

def Ev.size : Ev → Nat
  | .chunk bs => bs.length + 1
  | _ => 1

def Sched.size : Sched → Nat
  | [] => 0
  | e :: s => e.size + Sched.size s

/-- all bytes a schedule delivers (if nothing fails). -/
def Sched.bytes : Sched → List UInt8
  | [] => []
  | .chunk bs :: s => bs ++ Sched.bytes s
  | _ :: s => Sched.bytes s

/-- the in-memory reader (`Cursor<&[u8]>`): everything in one chunk. -/
def Sched.ofBytes (bs : List UInt8) : Sched := if bs.isEmpty then [] else [.chunk bs]

/-- put back the unconsumed rest of a chunk. -/
def pushRest (rest : List UInt8) (s : Sched) : Sched :=
  if rest.isEmpty then s else .chunk rest :: s

/-- `Decoder::read_bom`. A chunk of one or two bytes is consumed and the loop goes on. -/
def readBom : Sched → Except IoKind Encoding × Sched
  | [] => (.ok (Encoding.fromBom []).1, [])
  | .intr :: s => readBom s
  | .fail k :: s => (.error k, s)
  | .chunk bs :: s =>
    if bs.length = 0 then readBom s
    else if bs.length ≥ 3 then
      let (enc, n) := Encoding.fromBom bs
      (.ok enc, pushRest (bs.drop n) s)
    else readBom s

/-- split a chunk at the first LF: bytes up to and including it, and what follows. -/
def splitAtLF : List UInt8 → List UInt8 × Option (List UInt8)
  | [] => ([], none)
  | b :: bs =>
    if b == 0x0A then ([b], some bs)
    else
      let (pre, rest) := splitAtLF bs
      (b :: pre, rest)

/-- `BufRead::read_until(b'\n', buf)` appended to `acc`. -/
def readUntil : Sched → List UInt8 → Except IoKind (List UInt8) × Sched
  | [], acc => (.ok acc, [])
  | .intr :: s, acc => readUntil s acc
  | .fail k :: s, _ => (.error k, s)
  | .chunk bs :: s, acc =>
    match splitAtLF bs with
    | (pre, some rest) => (.ok (acc ++ pre), pushRest rest s)
    | (pre, none) => readUntil s (acc ++ pre)

/-- `Read::read_exact` for a single byte. -/
def readByte : Sched → Except IoKind UInt8 × Sched
  | [] => (.error .unexpectedEof, [])
  | .intr :: s => readByte s
  | .fail k :: s => (.error k, s)
  | .chunk [] :: s => readByte s
  | .chunk (b :: bs) :: s => (.ok b, pushRest bs s)

def endsWithLF (bs : List UInt8) : Bool := bs.getLast? == some 0x0A

/-- `Decoder::read_line`, returning the raw buffer (`None` at end of input). -/
def readRaw (enc : Encoding) (s : Sched) : Except IoKind (Option (List UInt8)) × Sched :=
  match readUntil s [] with
  | (.error k, s') => (.error k, s')
  | (.ok buf, s') =>
    if buf.isEmpty then (.ok none, s')
    else if enc == .utf16le && endsWithLF buf then
      match readByte s' with
      | (.error k, s'') => (.error k, s'')
      | (.ok b, s'') => (.ok (some (buf ++ [b])), s'')
    else (.ok (some buf), s')

/-- `Decoder::curr_line`. -/
def currLine (enc : Encoding) (buf : List UInt8) : Str := trimEnd (enc.decode buf)

/-- all lines `read_line` yields until end of input, and the error that ended reading, if any. -/
def readAllFuel (enc : Encoding) : Nat → Sched → List Str × Option IoKind
  | 0, _ => ([], none)
  | fuel + 1, s =>
    match readRaw enc s with
    | (.error k, _) => ([], some k)
    | (.ok none, _) => ([], none)
    | (.ok (some buf), s') =>
      let (ls, e) := readAllFuel enc fuel s'
      (currLine enc buf :: ls, e)

/-- every successful `read_line` consumes at least one byte, so `size + 1` steps suffice. -/
def readAll (enc : Encoding) (s : Sched) : List Str × Option IoKind :=
  readAllFuel enc (Sched.size s + 1) s

/-- `BufReader::with_capacity(c, &bytes[..])` as a schedule: every refill hands out the next
`min c remaining` bytes; a partly consumed buffer is served before the next refill (`pushRest`). -/
def chunksOfFuel (c : Nat) : Nat → List UInt8 → Sched
  | 0, _ => []
  | fuel + 1, bs =>
    if bs.isEmpty then [] else .chunk (bs.take c) :: chunksOfFuel c fuel (bs.drop c)

def Sched.chunksOf (c : Nat) (bs : List UInt8) : Sched := chunksOfFuel c bs.length bs

end Rosu
