/-
  Model/Reader.lean — `src/reader/decoder.rs` over an explicit delivery schedule.

  A `BufRead` is modelled as the list of things its `fill_buf` will do next:
  hand out a non-empty chunk, report `Interrupted` once, or fail with a fatal
  error. `read_until` follows std's documented loop (retry on `Interrupted`, stop at the delimiter).
-/
import RosuModel.Model.Utf
namespace Rosu

inductive IoKind
  | other | unexpectedEof | permissionDenied | timedOut | wouldBlock | writeZero | invalidData
  deriving DecidableEq, Repr, Inhabited

inductive Ev
  | chunk (bs : List UInt8)
  | intr
  | fail (k : IoKind)
  deriving Repr

abbrev Sched := List Ev

def Ev.size : Ev → Nat
  | .chunk bs => bs.length + 1
  | _ => 1

def Sched.size : Sched → Nat
  | [] => 0
  | e :: s => e.size + Sched.size s

/-- all bytes a schedule delivers (if nothing fails). -/
def Sched.bytes : Sched → List UInt8
  | [] => []
  | .chunk bs :: s => bs ++ Sched.bytes s
  | _ :: s => Sched.bytes s

/-- the in-memory reader (`Cursor<&[u8]>`): everything in one chunk. -/
def Sched.ofBytes (bs : List UInt8) : Sched := if bs.isEmpty then [] else [.chunk bs]

/-- put back the unconsumed rest of a chunk. -/
def pushRest (rest : List UInt8) (s : Sched) : Sched :=
  if rest.isEmpty then s else .chunk rest :: s

/-- the tail of `Decoder::read_bom`: decide on the collected prefix, strip the BOM from it. -/
def finishBom (pfx : List UInt8) : Except IoKind (Encoding × List UInt8) :=
  .ok ((Encoding.fromBom pfx).1, pfx.drop (Encoding.fromBom pfx).2)

/-- the loop of `Decoder::read_bom` with the bytes collected so far (`pfx`, fewer than three).
Fast path: nothing collected and the chunk has at least three bytes — decide on the chunk and
consume only the BOM. Otherwise take `min available (3 - pfx.length)` bytes; stop at three bytes
or at end of input. (When fewer than three bytes are collected after a take, the whole chunk was
taken, so the loop goes on with the next event.) -/
def readBomLoop : List UInt8 → Sched → Except IoKind (Encoding × List UInt8) × Sched
  | pfx, [] => (finishBom pfx, [])
  | pfx, .intr :: s => readBomLoop pfx s
  | _, .fail k :: s => (.error k, s)
  | pfx, .chunk bs :: s =>
    if bs.length = 0 then readBomLoop pfx s
    else if pfx.isEmpty && decide (bs.length ≥ 3) then
      (.ok ((Encoding.fromBom bs).1, []), pushRest (bs.drop (Encoding.fromBom bs).2) s)
    else
      let take := min bs.length (3 - pfx.length)
      if (pfx ++ bs.take take).length = 3 then
        (finishBom (pfx ++ bs.take take), pushRest (bs.drop take) s)
      else readBomLoop (pfx ++ bs.take take) s

/-- `Decoder::read_bom`: the encoding and the bytes taken out of the reader that are not part of
the BOM (`Decoder::new` reads them first: `Cursor::new(prefix).chain(reader)`). -/
def readBom (s : Sched) : Except IoKind (Encoding × List UInt8) × Sched := readBomLoop [] s

/-- split a chunk at the first LF: bytes up to and including it, and what follows. -/
def splitAtLF : List UInt8 → List UInt8 × Option (List UInt8)
  | [] => ([], none)
  | b :: bs =>
    if b == 0x0A then ([b], some bs)
    else
      let (pre, rest) := splitAtLF bs
      (b :: pre, rest)

/-- `BufRead::read_until(b'\n', buf)` appended to `acc`. -/
def readUntil : Sched → List UInt8 → Except IoKind (List UInt8) × Sched
  | [], acc => (.ok acc, [])
  | .intr :: s, acc => readUntil s acc
  | .fail k :: s, _ => (.error k, s)
  | .chunk bs :: s, acc =>
    match splitAtLF bs with
    | (pre, some rest) => (.ok (acc ++ pre), pushRest rest s)
    | (pre, none) => readUntil s (acc ++ pre)

/-- `Decoder::next_byte`: `fill_buf`/`consume(1)`, retry on `Interrupted`, `None` at end of input. -/
def nextByte : Sched → Except IoKind (Option UInt8) × Sched
  | [] => (.ok none, [])
  | .intr :: s => nextByte s
  | .fail k :: s => (.error k, s)
  | .chunk [] :: s => nextByte s
  | .chunk (b :: bs) :: s => (.ok (some b), pushRest bs s)

def endsWithLF (bs : List UInt8) : Bool := bs.getLast? == some 0x0A

/-- the `loop` of `Decoder::read_line` with the line buffer so far. `body` is the buffer without
its final 0x0A, so `last = body.length` and `read_buf[last - 1]` is `body`'s last byte.
`fuel` bounds the number of `read_until` calls (each further call follows a byte that was read). -/
def readLineLoop (enc : Encoding) : Nat → Sched → List UInt8 → Except IoKind (List UInt8) × Sched
  | 0, s, buf => (.ok buf, s)
  | fuel + 1, s, buf =>
    match readUntil s buf with
    | (.error k, s') => (.error k, s')
    | (.ok buf', s') =>
      if buf'.length = buf.length then (.ok buf', s')        -- `read_until` returned 0
      else if !endsWithLF buf' then (.ok buf', s')            -- end of input without a line break
      else
        let body := buf'.dropLast
        match enc with
        | .utf8 => (.ok buf', s')
        | .utf16be =>
          if body.length % 2 == 1 && body.getLast? == some 0 then (.ok buf', s')
          else readLineLoop enc fuel s' buf'
        | .utf16le =>
          if body.length % 2 == 0 then
            match nextByte s' with
            | (.error k, s'') => (.error k, s'')
            | (.ok none, s'') => (.ok buf', s'')
            | (.ok (some b), s'') =>
              if b == 0 then (.ok (buf' ++ [b]), s'')
              else readLineLoop enc fuel s'' (buf' ++ [b])
          else readLineLoop enc fuel s' buf'

/-- `Decoder::read_line` with the loop bound given, returning the raw buffer (`None` at end of input). -/
def readRawFuel (enc : Encoding) (fuel : Nat) (s : Sched) : Except IoKind (Option (List UInt8)) × Sched :=
  match readLineLoop enc fuel s [] with
  | (.error k, s') => (.error k, s')
  | (.ok buf, s') => (if buf.isEmpty then .ok none else .ok (some buf), s')

/-- `Decoder::read_line`: more iterations than there are events and bytes left cannot happen. -/
def readRaw (enc : Encoding) (s : Sched) : Except IoKind (Option (List UInt8)) × Sched :=
  readRawFuel enc (Sched.size s + 1) s

/-- `Decoder::curr_line`. -/
def currLine (enc : Encoding) (buf : List UInt8) : Str := trimEnd (enc.decode buf)

/-- all lines `read_line` yields until end of input, and the error that ended reading, if any. -/
def readAllFuel (enc : Encoding) : Nat → Sched → List Str × Option IoKind
  | 0, _ => ([], none)
  | fuel + 1, s =>
    match readRawFuel enc (fuel + 1) s with    -- `fuel + 1` bounds what is left to read, see `readAll`
    | (.error k, _) => ([], some k)
    | (.ok none, _) => ([], none)
    | (.ok (some buf), s') =>
      let (ls, e) := readAllFuel enc fuel s'
      (currLine enc buf :: ls, e)

/-- every successful `read_line` consumes at least one byte, so `size + 1` steps suffice. -/
def readAll (enc : Encoding) (s : Sched) : List Str × Option IoKind :=
  readAllFuel enc (Sched.size s + 1) s

/-- `BufReader::with_capacity(c, &bytes[..])` as a schedule: every refill hands out the next
`min c remaining` bytes; a partly consumed buffer is served before the next refill (`pushRest`). -/
def chunksOfFuel (c : Nat) : Nat → List UInt8 → Sched
  | 0, _ => []
  | fuel + 1, bs =>
    if bs.isEmpty then [] else .chunk (bs.take c) :: chunksOfFuel c fuel (bs.drop c)

def Sched.chunksOf (c : Nat) (bs : List UInt8) : Sched := chunksOfFuel c bs.length bs

end Rosu
