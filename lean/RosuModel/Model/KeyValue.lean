/-
  Model/KeyValue.lean — `src/util/key_value.rs`.
-/
import RosuModel.Model.Text
namespace Rosu

/-- `KeyValue::parse` before the key is interpreted: `s.split(':').map(str::trim)`, first piece is
the key text, **second piece** is the value (so everything after a second colon is dropped —
this mirrors the code; see finding F1), missing value is `""`. -/
def kvSplit (s : Str) : Str × Str :=
  match splitOn ':' s with
  | [] => (trim s, [])
  | [k] => (trim k, [])
  | k :: v :: _ => (trim k, trim v)

end Rosu
