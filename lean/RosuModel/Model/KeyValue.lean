/-
  Model/KeyValue.lean — `src/util/key_value.rs`.
-/
import RosuModel.Model.Text
namespace Rosu

/-- `str::split_once(':')`: text before and after the first colon. -/
def splitOnce (sep : Char) : Str → Option (Str × Str)
  | [] => none
  | c :: cs =>
    if c == sep then some ([], cs)
    else
      match splitOnce sep cs with
      | some (a, b) => some (c :: a, b)
      | none => none

/-- `KeyValue::parse` before the key is interpreted: the trimmed text before the first colon is
the key text, the trimmed text after it the value; without a colon the whole trimmed line is the
key text and the value is `""`. -/
def kvSplit (s : Str) : Str × Str :=
  match splitOnce ':' s with
  | some (k, v) => (trim k, trim v)
  | none => (trim s, [])

end Rosu
