/-
  Model/NumParse.lean — `ParseNumber for f32/f64` (src/util/parse_number.rs), generic over the scalar.
-/
import RosuModel.Model.Num
import RosuModel.Model.Scalar
namespace Rosu
open Scalar

variable {α : Type} [Scalar α]

/-- `<f32/f64 as ParseNumber>::parse_with_limits`: trim, `FromStr`, range test, then NaN test. -/
def floatParseWithLimits (s : Str) (limit : α) : Option α :=
  match (Scalar.parse (trim s) : Option α) with
  | none => none
  | some n =>
    if lt n (-limit) then none
    else if lt limit n then none
    else if isNaN n then none
    else some n

/-- `MAX_PARSE_VALUE as f32` / `f64::from(MAX_PARSE_VALUE)`. -/
def maxParseValue : α := Scalar.ofInt i32Max

/-- `<f32/f64 as ParseNumber>::parse`. -/
def floatParse (s : Str) : Option α := floatParseWithLimits s maxParseValue

end Rosu
