/-
  Model/ParseNum.lean — `src/util/parse_number.rs` with its error kinds (`ParseNumberError`), for
  `i32` and, generically over `[Scalar α]`, for `f32`/`f64`.
  (`Model/Num.lean` has the `Option`-valued `i32Parse`; `i32ParseE_toOption` relates the two.)
-/
import RosuModel.Model.Num
import RosuModel.Model.Scalar
import RosuModel.Model.NumParse
namespace Rosu

/-- `ParseNumberError`. -/
inductive NumErr | invalidFloat | invalidInteger | nan | overflow | underflow
  deriving DecidableEq, Repr

def NumErr.tag : NumErr → String
  | .invalidFloat => "InvalidFloat" | .invalidInteger => "InvalidInteger" | .nan => "NaN"
  | .overflow => "NumberOverflow" | .underflow => "NumberUnderflow"

/-- `<i32 as ParseNumber>::parse_with_limits`. -/
def i32ParseWithLimitsE (s : Str) (limit : Int) : Except NumErr Int :=
  match i32FromStr (trim s) with
  | none => .error .invalidInteger
  | some n => if n < -limit then .error .underflow else if n > limit then .error .overflow else .ok n

/-- `<i32 as ParseNumber>::parse` (`MAX_PARSE_VALUE = i32::MAX`). -/
def i32ParseE (s : Str) : Except NumErr Int := i32ParseWithLimitsE s i32Max

theorem i32ParseE_toOption (s : Str) : (i32ParseE s).toOption = i32Parse s := by
  unfold i32ParseE i32ParseWithLimitsE i32Parse i32ParseWithLimits
  cases i32FromStr (trim s) with
  | none => rfl
  | some n =>
    by_cases h1 : n < -i32Max
    · simp [h1, Except.toOption]
    · by_cases h2 : n > i32Max <;> simp [h1, h2, Except.toOption]

section
variable {α : Type} [Scalar α]

/-- `<f64 as ParseNumber>::parse_with_limits` / `<f32 as …>`: the NaN test comes last. -/
def scalarParseWithLimits (s : Str) (limit : α) : Except NumErr α :=
  match (Scalar.parse (trim s) : Option α) with
  | none => .error .invalidFloat
  | some n =>
    if Scalar.lt n (-limit) then .error .underflow
    else if Scalar.lt limit n then .error .overflow
    else if Scalar.isNaN n then .error .nan
    else .ok n

/-- `<f64 as ParseNumber>::parse` / `<f32 as ParseNumber>::parse` (`maxParseValue` is in Model/NumParse.lean). -/
def scalarParse (s : Str) : Except NumErr α := scalarParseWithLimits s maxParseValue

/-- the error-carrying parser agrees with the `Option`-valued one of Model/NumParse.lean. -/
theorem scalarParseWithLimits_toOption (s : Str) (limit : α) :
    (scalarParseWithLimits s limit).toOption = floatParseWithLimits s limit := by
  unfold scalarParseWithLimits floatParseWithLimits
  cases (Scalar.parse (trim s) : Option α) with
  | none => rfl
  | some n =>
    simp only
    split
    · rfl
    · split
      · rfl
      · split <;> rfl

end
end Rosu
