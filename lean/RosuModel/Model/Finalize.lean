/-
  Model/Finalize.lean — `From<HitObjectsState> for HitObjects` (src/section/hit_objects/decode.rs):
  stable sort by start time, `post_process_breaks`, slider velocity, node / object sample defaults
  (`SamplePoint::apply`), and `From<BeatmapState> for Beatmap`.
-/
import RosuModel.Model.Decoders
import RosuModel.Model.Curve
namespace Rosu
open Scalar

variable {F P : Type} [Scalar F] [Scalar P] [Cvt P F] [Trig F] [Trig P]

/-- `SamplePoint::apply`. -/
def SamplePoint.apply (sp : SamplePoint F) (s : HitSampleInfo) : HitSampleInfo :=
  match s.name with
  | .default _ =>
    let s :=
      if s.customSampleBank == 0 then
        let s := { s with customSampleBank := sp.customSampleBank }
        if s.customSampleBank ≥ 2 then { s with suffix := some s.customSampleBank } else s
      else s
    let s := if s.volume == 0 then { s with volume := clampVolume sp.sampleVolume } else s
    if !s.bankSpecified then { s with bank := sp.sampleBank, bankSpecified := true } else s
  | .file _ =>
    { s with bank := SampleBank.normal, suffix := none,
             volume := if s.volume == 0 then clampVolume sp.sampleVolume else s.volume,
             customSampleBank := 1, bankSpecified := false, isLayered := false }

/-- `get_precision_adjusted_beat_len`. -/
def precisionAdjustedBeatLen (sliderVelocity beatLen : F) (mode : GameMode) : F :=
  let svAsBeatLen : F := (-100 : F) / sliderVelocity
  let bpmMultiplier : F :=
    if lt svAsBeatLen 0 then
      match mode with
      | .osu | .catch => clamp (-svAsBeatLen) 10 10000 / 100
      | .taiko | .mania => clamp (-svAsBeatLen) 10 1000 / 100
    else 1
  beatLen * bpmMultiplier

/-- `HitObjectsState::post_process_breaks`: `fuel` bounds the inner `while` by the number of breaks. -/
def skipBreaks (breaks : List (BreakPeriod F)) (startTime : F) : Nat → Nat → Bool → Nat × Bool
  | 0, cur, force => (cur, force)
  | fuel + 1, cur, force =>
    match breaks[cur]? with
    | some b => if lt b.endTime startTime then skipBreaks breaks startTime fuel (cur + 1) true else (cur, force)
    | none => (cur, force)

def HitObjectKind.orNewCombo (k : HitObjectKind F P) (force : Bool) : HitObjectKind F P :=
  match k with
  | .circle c => .circle { c with newCombo := c.newCombo || force }
  | .slider s => .slider { s with newCombo := s.newCombo || force }
  | .spinner s => .spinner { s with newCombo := s.newCombo || force }
  | .hold h => .hold h

def postProcessBreaks (breaks : List (BreakPeriod F)) : List (HitObject F P) → Nat → List (HitObject F P)
  | [], _ => []
  | h :: rest, cur =>
    let (cur', force) := skipBreaks breaks h.startTime (breaks.length + 1) cur false
    { h with kind := h.kind.orNewCombo force } :: postProcessBreaks breaks rest cur'

def controlPointLeniency : F := 5
def curveFuel : Nat := 2000000

/-- node sample defaults: `for i in 0..node_samples.len()`. -/
def applyNodeSamples (cp : ControlPoints F) (startTime duration spanCount : F) :
    List (List HitSampleInfo) → Nat → List (List HitSampleInfo)
  | [], _ => []
  | ns :: rest, i =>
    let time := startTime + (Scalar.ofInt (i : Int) : F) * duration / spanCount + controlPointLeniency
    let sp := (cp.samplePointAt time).getD SamplePoint.default
    ns.map sp.apply :: applyNodeSamples cp startTime duration spanCount rest (i + 1)

/-- one iteration of the `for h in hit_objects.iter_mut()` loop. Returns the object, its curve (for a
slider; the Rust caches it inside the `SliderPath`) and the curve buffers. -/
def finalizeObject (mode : GameMode) (sliderMultiplier : F) (cp : ControlPoints F)
    (h : HitObject F P) (bufs : CurveBuffers P F) : Outcome (HitObject F P × CurveBuffers P F) :=
  match h.kind with
  | .slider s => do
    let beatLen := ((cp.timingPointAt h.startTime).map (·.beatLen)).getD (1000 : F)
    let sv := ((cp.difficultyPointAt h.startTime).map (·.sliderVelocity)).getD (1 : F)
    let velocity : F := (Cvt.up (100 : P) : F) * sliderMultiplier / precisionAdjustedBeatLen sv beatLen mode
    let spanCount : F := Scalar.ofInt (s.repeatCount + 1)
    let (curve, bufs) ← Curve.new curveFuel s.path.mode s.path.controlPoints s.path.expectedDist bufs
    let duration : F := spanCount * Curve.dist curve.lengths / velocity
    let nodeSamples := applyNodeSamples cp h.startTime duration spanCount s.nodeSamples 0
    let endTime := h.startTime + duration
    let sp := (cp.samplePointAt (endTime + controlPointLeniency)).getD SamplePoint.default
    pure ({ h with kind := .slider { s with velocity := velocity, nodeSamples := nodeSamples },
                   samples := h.samples.map sp.apply }, bufs)
  | .circle _ =>
    let sp := (cp.samplePointAt (h.startTime + controlPointLeniency)).getD SamplePoint.default
    pure ({ h with samples := h.samples.map sp.apply }, bufs)
  | .spinner s =>
    let sp := (cp.samplePointAt (h.startTime + s.duration + controlPointLeniency)).getD SamplePoint.default
    pure ({ h with samples := h.samples.map sp.apply }, bufs)
  | .hold s =>
    let sp := (cp.samplePointAt (h.startTime + s.duration + controlPointLeniency)).getD SamplePoint.default
    pure ({ h with samples := h.samples.map sp.apply }, bufs)

def finalizeObjects (mode : GameMode) (sliderMultiplier : F) (cp : ControlPoints F) :
    List (HitObject F P) → CurveBuffers P F → Outcome (List (HitObject F P))
  | [], _ => pure []
  | h :: rest, bufs => do
    let (h', bufs') ← finalizeObject mode sliderMultiplier cp h bufs
    let rest' ← finalizeObjects mode sliderMultiplier cp rest bufs'
    pure (h' :: rest')

/-- `HitObjects` (the decoded value). -/
structure HitObjects (F P : Type) where
  general : GeneralState F P
  difficulty : Difficulty F P
  events : Events F
  controlPoints : ControlPoints F
  hitObjects : List (HitObject F P)

def emptyBuffers : CurveBuffers P F :=
  { path := [], lengths := [], vertices := [], bezier := { left := [], right := [], midpoints := [], leftChild := [] } }

/-- `hit_objects.sort_by(|a, b| a.start_time.total_cmp(&b.start_time))` — a stable sort. -/
def sortByStartTime (hs : List (HitObject F P)) : List (HitObject F P) :=
  hs.mergeSort (fun a b => decide (totalKey a.startTime ≤ totalKey b.startTime))

/-- `From<HitObjectsState> for HitObjects`. -/
def HitObjectsState.finish (st : HitObjectsState F P) : Outcome (HitObjects F P) := do
  let difficulty := st.difficulty.difficulty
  let (general, cp) := st.timingPoints.finish
  let sorted := sortByStartTime st.core.hitObjects
  let withBreaks := postProcessBreaks st.events.breaks sorted 0
  let objs ← finalizeObjects general.mode difficulty.sliderMultiplier cp withBreaks emptyBuffers
  pure { general := general, difficulty := difficulty, events := st.events, controlPoints := cp, hitObjects := objs }

/-- `Beatmap` (the decoded value). -/
structure Beatmap (F P : Type) where
  formatVersion : Int
  general : GeneralState F P
  editor : Editor F
  metadata : Metadata
  difficulty : Difficulty F P
  events : Events F
  controlPoints : ControlPoints F
  colors : Colors
  hitObjects : List (HitObject F P)

/-- `From<BeatmapState> for Beatmap`. -/
def BeatmapState.finish (st : BeatmapState F P) : Outcome (Beatmap F P) := do
  let ho ← st.hitObjects.finish
  pure { formatVersion := st.version, general := ho.general, editor := st.editor, metadata := st.metadata,
         difficulty := ho.difficulty, events := ho.events, controlPoints := ho.controlPoints,
         colors := st.colors, hitObjects := ho.hitObjects }

end Rosu
