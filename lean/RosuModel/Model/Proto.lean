/-
  Model/Proto.lean — hex / schedule syntax shared by all driver command modules.
-/
import RosuModel.Model.Framing
namespace Rosu

def hexVal (c : Char) : Nat :=
  if '0' ≤ c ∧ c ≤ '9' then c.toNat - '0'.toNat
  else if 'a' ≤ c ∧ c ≤ 'f' then c.toNat - 'a'.toNat + 10
  else if 'A' ≤ c ∧ c ≤ 'F' then c.toNat - 'A'.toNat + 10
  else 0

def unhexList : List Char → List UInt8
  | a :: b :: rest => UInt8.ofNat (hexVal a * 16 + hexVal b) :: unhexList rest
  | _ => []

/-- "-" denotes the empty byte string. -/
def unhex (s : String) : List UInt8 := if s == "-" then [] else unhexList s.toList

def hexDigit (n : Nat) : Char :=
  if n < 10 then Char.ofNat (48 + n) else Char.ofNat (87 + n)

def hexBytes (bs : List UInt8) : String :=
  if bs.isEmpty then "-" else
  String.ofList (bs.flatMap fun b => [hexDigit (b.toNat / 16), hexDigit (b.toNat % 16)])

def hexStr (s : Str) : String := hexBytes (utf8Encode s)

def IoKind.tag : IoKind → String
  | .other => "Other" | .unexpectedEof => "UnexpectedEof" | .permissionDenied => "PermissionDenied"
  | .timedOut => "TimedOut" | .wouldBlock => "WouldBlock" | .writeZero => "WriteZero"
  | .invalidData => "InvalidData"

def IoKind.ofTag : String → IoKind
  | "UnexpectedEof" => .unexpectedEof | "PermissionDenied" => .permissionDenied
  | "TimedOut" => .timedOut | "WouldBlock" => .wouldBlock | "WriteZero" => .writeZero
  | "InvalidData" => .invalidData | _ => .other

/-- schedule syntax: tokens `c<hex>` (chunk), `i` (Interrupted), `f<Kind>` (fatal error). -/
def parseSched : List String → Sched
  | [] => []
  | t :: ts =>
    let e : Ev :=
      if t == "i" then .intr
      else if t.startsWith "f" then .fail (IoKind.ofTag (t.drop 1).toString)
      else .chunk (unhex (t.drop 1).toString)
    e :: parseSched ts

end Rosu
