/-
  Model/Cmds/Frame.lean — driver requests `frame`, `framesched` (C05, C08, C09, C10).
-/
import RosuModel.Model.Proto
namespace Rosu

def fmtRec (r : Except IoKind Rec) : String :=
  match r with
  | .error k => "err " ++ k.tag
  | .ok st =>
    let calls := st.calls.reverse.map fun (s, l) => toString s.idx ++ ":" ++ hexStr l
    "ok v=" ++ toString st.version ++ " n=" ++ toString calls.length ++
      String.join (calls.map (" " ++ ·))

def dispatchFrame (toks : List String) : Option String :=
  match toks with
  | ["frame", hex] => some (fmtRec (decodeBytes recorder (unhex hex)))
  | "framesched" :: evs => some (fmtRec (decodeSched recorder (parseSched evs)))
  | _ => none

end Rosu
