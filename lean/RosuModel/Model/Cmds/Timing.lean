/-
  Model/Cmds/Timing.lean — driver requests for the control-point collection and the timing-point
  decoder (C12, C13), run on the IEEE instance `F := Float`, `P := Float32`.

  `cpops <op> …` with ops `T:<time>:<beatlen>`, `D:<time>:<sv>:<ticks 0|1>`, `E:<time>:<kiai 0|1>:<scroll>`,
  `S:<time>:<bank 0-3>:<volume>:<custom>`, `?<time>` (floats as hex bit patterns, integers decimal):
  the points are built by the `new` constructors and handed to `ControlPoints::add`; `?` looks all four
  kinds up in the collection as it is at that moment. Response: the four final lists, then one `L:` item
  per lookup.

  `tp <mode 0-3> <hex line> …`: a fresh `TimingPointsState`, `Mode: <mode>` fed through `parse_general`, then
  every line through `parse_timing_points` (a token `g<hex>` goes through `parse_general` instead); response: per-line `ok` / `err:<kind>`, then the four lists of
  the finished `TimingPoints`.
  `gen <hex line> …`: the lines through `General::parse_general` on a fresh state; per-line results, then
  the 14 fields.
-/
import RosuModel.Model.Cmds.Codec
import RosuModel.Model.ControlPoints
import RosuModel.Model.TimingDecode
namespace Rosu

def tmF64OfHex (s : String) : Float := Float.ofBits (UInt64.ofNat (natOfHex s))
def tmFx (x : Float) : String := if x.isNaN then "nan" else hex64 x
def tmB01 (b : Bool) : String := if b then "1" else "0"

def tmFmtTiming (p : TimingPoint Float) : String :=
  tmFx p.time ++ "/" ++ tmFx p.beatLen ++ "/" ++ tmB01 p.omitFirstBarLine ++ "/" ++ toString p.timeSignature.numerator
def tmFmtDifficulty (p : DifficultyPoint Float) : String :=
  tmFx p.time ++ "/" ++ tmFx p.sliderVelocity ++ "/" ++ tmB01 p.generateTicks
def tmFmtEffect (p : EffectPoint Float) : String :=
  tmFx p.time ++ "/" ++ tmB01 p.kiai ++ "/" ++ tmFx p.scrollSpeed
def tmFmtSample (p : SamplePoint Float) : String :=
  tmFx p.time ++ "/" ++ toString p.sampleBank.idx ++ "/" ++ toString p.sampleVolume ++ "/" ++ toString p.customSampleBank

def tmFmtList {α : Type} (f : α → String) (l : List α) : String :=
  if l.isEmpty then "-" else String.intercalate "," (l.map f)

def tmFmtOpt {α : Type} (f : α → String) : Option α → String
  | some x => f x
  | none => "-"

def tmFmtControlPoints (cp : ControlPoints Float) : String :=
  "T=" ++ tmFmtList tmFmtTiming cp.timingPoints ++ " D=" ++ tmFmtList tmFmtDifficulty cp.difficultyPoints ++
  " E=" ++ tmFmtList tmFmtEffect cp.effectPoints ++ " S=" ++ tmFmtList tmFmtSample cp.samplePoints

def tmFmtLookup (cp : ControlPoints Float) (t : Float) : String :=
  "L:" ++ tmFmtOpt tmFmtTiming (cp.timingPointAt t) ++ "|" ++ tmFmtOpt tmFmtDifficulty (cp.difficultyPointAt t) ++ "|" ++
  tmFmtOpt tmFmtEffect (cp.effectPointAt t) ++ "|" ++ tmFmtOpt tmFmtSample (cp.samplePointAt t)

def tmNanF : Float := Float.ofBits 0x7FF8000000000000

/-- one `cpops` token: the new collection and, for `?`, the lookup line. `none` = malformed token. -/
def tmCpOp (cp : ControlPoints Float) (tok : String) : Option (ControlPoints Float × Option String) :=
  if tok.startsWith "?" then
    some (cp, some (tmFmtLookup cp (tmF64OfHex (tok.drop 1).toString)))
  else
    match tok.splitOn ":" with
    | ["T", t, b] =>
      some (cp.addTiming (TimingPoint.new (tmF64OfHex t) (tmF64OfHex b) false TimeSignature.simpleQuadruple), none)
    | ["T", t, b, om, num] =>
      some (cp.addTiming (TimingPoint.new (tmF64OfHex t) (tmF64OfHex b) (om == "1")
        ((TimeSignature.new (num.toInt?.getD 4)).getD TimeSignature.simpleQuadruple)), none)
    | ["D", t, sv, ticks] =>
      some (cp.addDifficulty (DifficultyPoint.new (tmF64OfHex t) (if ticks == "1" then 1 else tmNanF) (tmF64OfHex sv)), none)
    | ["E", t, k, sc] =>
      some (cp.addEffect { EffectPoint.new (tmF64OfHex t) (k == "1") with scrollSpeed := tmF64OfHex sc }, none)
    | ["S", t, bank, vol, custom] =>
      some (cp.addSample (SamplePoint.new (tmF64OfHex t) ((SampleBank.ofInt (bank.toInt?.getD 0)).getD .none)
        (vol.toInt?.getD 0) (custom.toInt?.getD 0)), none)
    | ["RS", t, bank, vol, custom] =>   -- struct literal: no clamping by the constructor
      let b : SampleBank := (SampleBank.ofInt (bank.toInt?.getD 0)).getD SampleBank.none
      let p : SamplePoint Float := ⟨tmF64OfHex t, b, vol.toInt?.getD 0, custom.toInt?.getD 0⟩
      some (cp.addSample p, none)
    | ["RD", t, sv, ticks] =>
      let p : DifficultyPoint Float := ⟨tmF64OfHex t, tmF64OfHex sv, ticks == "1"⟩
      some (cp.addDifficulty p, none)
    | _ => none

def tmCpOps : ControlPoints Float → List String → List String → Option (ControlPoints Float × List String)
  | cp, [], acc => some (cp, acc.reverse)
  | cp, tok :: rest, acc =>
    match tmCpOp cp tok with
    | some (cp', some l) => tmCpOps cp' rest (l :: acc)
    | some (cp', none) => tmCpOps cp' rest acc
    | none => none

def tmFmtResults (rs : List String) : String :=
  "r=" ++ (if rs.isEmpty then "-" else String.intercalate "," rs)

def tmTpRun (st : TimingPointsState Float Float32) : List String → List String →
    TimingPointsState Float Float32 × List String
  | [], acc => (st, acc.reverse)
  | h :: rest, acc =>
    let r := if h.startsWith "g" then st.parseGeneral (textOf (h.drop 1).toString)
             else parseTimingPoints st (textOf h)
    match r with
    | (.ok (), st') => tmTpRun st' rest ("ok" :: acc)
    | (.error e, st') => tmTpRun st' rest (("err:" ++ e.tag) :: acc)

def tmGenRun (st : GeneralState Float Float32) : List String → List String →
    GeneralState Float Float32 × List String
  | [], acc => (st, acc.reverse)
  | h :: rest, acc =>
    match parseGeneral st (textOf h) with
    | (.ok (), st') => tmGenRun st' rest ("ok" :: acc)
    | (.error e, st') => tmGenRun st' rest (("err:" ++ e.tag) :: acc)

def tmFmtGeneral (g : GeneralState Float Float32) : String :=
  "audio=" ++ hexStr g.audioFile ++ " lead=" ++ tmFx g.audioLeadIn ++ " preview=" ++ toString g.previewTime ++
  " bank=" ++ toString g.defaultSampleBank.idx ++ " vol=" ++ toString g.defaultSampleVolume ++
  " stack=" ++ (if g.stackLeniency.isNaN then "nan" else hex32 g.stackLeniency) ++
  " mode=" ++ toString g.mode.idx ++
  " flags=" ++ tmB01 g.letterboxInBreaks ++ tmB01 g.specialStyle ++ tmB01 g.widescreenStoryboard ++
    tmB01 g.epilepsyWarning ++ tmB01 g.samplesMatchPlaybackRate ++
  " countdown=" ++ toString g.countdown.idx ++ " offset=" ++ toString g.countdownOffset

def dispatchTiming (toks : List String) : Option String :=
  match toks with
  | "tp" :: mode :: lines =>
    let st0 : TimingPointsState Float Float32 := TimingPointsState.create
    let st1 := (st0.parseGeneral ("Mode: " ++ mode).toList).2
    let (st, rs) := tmTpRun st1 lines []
    some (tmFmtResults rs ++ " " ++ tmFmtControlPoints st.finish.2)
  | "gen" :: lines =>
    let (g, rs) := tmGenRun GeneralState.default lines []
    some (tmFmtResults rs ++ " " ++ tmFmtGeneral g)
  | "cpops" :: ops =>
    some (match tmCpOps ControlPoints.empty ops [] with
      | some (cp, ls) => tmFmtControlPoints cp ++ String.join (ls.map (" " ++ ·))
      | none => "bad-request")
  | _ => none

end Rosu
