/-
  Model/Cmds/Timing.lean — driver requests for the control-point collection and the timing-point
  decoder (C12, C13), run on the IEEE instance `F := Float`, `P := Float32`.

  `cpops <op> …` with ops `T:<time>:<beatlen>`, `D:<time>:<sv>:<ticks 0|1>`, `E:<time>:<kiai 0|1>:<scroll>`,
  `S:<time>:<bank 0-3>:<volume>:<custom>`, `?<time>` (floats as hex bit patterns, integers decimal):
  the points are built by the `new` constructors and handed to `ControlPoints::add`; `?` looks all four
  kinds up in the collection as it is at that moment. Response: the four final lists, then one `L:` item
  per lookup.

  `tp <mode 0-3> <hex line> …`: a fresh `TimingPointsState`, `Mode: <mode>` fed through `parse_general`, then
  every line through `parse_timing_points` (a token `g<hex>` goes through `parse_general` instead); response: per-line `ok` / `err:<kind>`, then the four lists of
  the finished `TimingPoints`.
  `gen <hex line> …`: the lines through `General::parse_general` on a fresh state; per-line results, then
  the 14 fields.
-/
import RosuModel.Model.Cmds.Codec
import RosuModel.Model.ControlPoints
import RosuModel.Model.TimingDecode
namespace Rosu

def f64OfHex (s : String) : Float := Float.ofBits (UInt64.ofNat (natOfHex s))
def fx (x : Float) : String := if x.isNaN then "nan" else hex64 x
def b01 (b : Bool) : String := if b then "1" else "0"

def fmtTiming (p : TimingPoint Float) : String :=
  fx p.time ++ "/" ++ fx p.beatLen ++ "/" ++ b01 p.omitFirstBarLine ++ "/" ++ toString p.timeSignature.numerator
def fmtDifficulty (p : DifficultyPoint Float) : String :=
  fx p.time ++ "/" ++ fx p.sliderVelocity ++ "/" ++ b01 p.generateTicks
def fmtEffect (p : EffectPoint Float) : String :=
  fx p.time ++ "/" ++ b01 p.kiai ++ "/" ++ fx p.scrollSpeed
def fmtSample (p : SamplePoint Float) : String :=
  fx p.time ++ "/" ++ toString p.sampleBank.idx ++ "/" ++ toString p.sampleVolume ++ "/" ++ toString p.customSampleBank

def fmtList {α : Type} (f : α → String) (l : List α) : String :=
  if l.isEmpty then "-" else String.intercalate "," (l.map f)

def fmtOpt {α : Type} (f : α → String) : Option α → String
  | some x => f x
  | none => "-"

def fmtControlPoints (cp : ControlPoints Float) : String :=
  "T=" ++ fmtList fmtTiming cp.timingPoints ++ " D=" ++ fmtList fmtDifficulty cp.difficultyPoints ++
  " E=" ++ fmtList fmtEffect cp.effectPoints ++ " S=" ++ fmtList fmtSample cp.samplePoints

def fmtLookup (cp : ControlPoints Float) (t : Float) : String :=
  "L:" ++ fmtOpt fmtTiming (cp.timingPointAt t) ++ "|" ++ fmtOpt fmtDifficulty (cp.difficultyPointAt t) ++ "|" ++
  fmtOpt fmtEffect (cp.effectPointAt t) ++ "|" ++ fmtOpt fmtSample (cp.samplePointAt t)

def nanF : Float := Float.ofBits 0x7FF8000000000000

/-- one `cpops` token: the new collection and, for `?`, the lookup line. `none` = malformed token. -/
def cpOp (cp : ControlPoints Float) (tok : String) : Option (ControlPoints Float × Option String) :=
  if tok.startsWith "?" then
    some (cp, some (fmtLookup cp (f64OfHex (tok.drop 1).toString)))
  else
    match tok.splitOn ":" with
    | ["T", t, b] =>
      some (cp.addTiming (TimingPoint.new (f64OfHex t) (f64OfHex b) false TimeSignature.simpleQuadruple), none)
    | ["D", t, sv, ticks] =>
      some (cp.addDifficulty (DifficultyPoint.new (f64OfHex t) (if ticks == "1" then 1 else nanF) (f64OfHex sv)), none)
    | ["E", t, k, sc] =>
      some (cp.addEffect { EffectPoint.new (f64OfHex t) (k == "1") with scrollSpeed := f64OfHex sc }, none)
    | ["S", t, bank, vol, custom] =>
      some (cp.addSample (SamplePoint.new (f64OfHex t) ((SampleBank.ofInt (bank.toInt?.getD 0)).getD .none)
        (vol.toInt?.getD 0) (custom.toInt?.getD 0)), none)
    | _ => none

def cpOps : ControlPoints Float → List String → List String → Option (ControlPoints Float × List String)
  | cp, [], acc => some (cp, acc.reverse)
  | cp, tok :: rest, acc =>
    match cpOp cp tok with
    | some (cp', some l) => cpOps cp' rest (l :: acc)
    | some (cp', none) => cpOps cp' rest acc
    | none => none

def fmtResults (rs : List String) : String :=
  "r=" ++ (if rs.isEmpty then "-" else String.intercalate "," rs)

def tpRun (st : TimingPointsState Float Float32) : List String → List String →
    TimingPointsState Float Float32 × List String
  | [], acc => (st, acc.reverse)
  | h :: rest, acc =>
    let r := if h.startsWith "g" then st.parseGeneral (textOf (h.drop 1).toString)
             else parseTimingPoints st (textOf h)
    match r with
    | (.ok (), st') => tpRun st' rest ("ok" :: acc)
    | (.error e, st') => tpRun st' rest (("err:" ++ e.tag) :: acc)

def genRun (st : GeneralState Float Float32) : List String → List String →
    GeneralState Float Float32 × List String
  | [], acc => (st, acc.reverse)
  | h :: rest, acc =>
    match parseGeneral st (textOf h) with
    | (.ok (), st') => genRun st' rest ("ok" :: acc)
    | (.error e, st') => genRun st' rest (("err:" ++ e.tag) :: acc)

def fmtGeneral (g : GeneralState Float Float32) : String :=
  "audio=" ++ hexStr g.audioFile ++ " lead=" ++ fx g.audioLeadIn ++ " preview=" ++ toString g.previewTime ++
  " bank=" ++ toString g.defaultSampleBank.idx ++ " vol=" ++ toString g.defaultSampleVolume ++
  " stack=" ++ (if g.stackLeniency.isNaN then "nan" else hex32 g.stackLeniency) ++
  " mode=" ++ toString g.mode.idx ++
  " flags=" ++ b01 g.letterboxInBreaks ++ b01 g.specialStyle ++ b01 g.widescreenStoryboard ++
    b01 g.epilepsyWarning ++ b01 g.samplesMatchPlaybackRate ++
  " countdown=" ++ toString g.countdown.idx ++ " offset=" ++ toString g.countdownOffset

def dispatchTiming (toks : List String) : Option String :=
  match toks with
  | "tp" :: mode :: lines =>
    let st0 : TimingPointsState Float Float32 := TimingPointsState.create
    let st1 := (st0.parseGeneral ("Mode: " ++ mode).toList).2
    let (st, rs) := tpRun st1 lines []
    some (fmtResults rs ++ " " ++ fmtControlPoints st.finish.2)
  | "gen" :: lines =>
    let (g, rs) := genRun GeneralState.default lines []
    some (fmtResults rs ++ " " ++ fmtGeneral g)
  | "cpops" :: ops =>
    some (match cpOps ControlPoints.empty ops [] with
      | some (cp, ls) => fmtControlPoints cp ++ String.join (ls.map (" " ++ ·))
      | none => "bad-request")
  | _ => none

end Rosu
