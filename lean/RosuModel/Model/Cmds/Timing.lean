/-
  Model/Cmds/Timing.lean — driver requests for the control-point collection and the timing-point
  decoder (C12, C13), run on the IEEE instance `F := Float`, `P := Float32`.

  `cpops <op> …` with ops `T:<time>:<beatlen>`, `D:<time>:<sv>:<ticks 0|1>`, `E:<time>:<kiai 0|1>:<scroll>`,
  `S:<time>:<bank 0-3>:<volume>:<custom>`, `?<time>` (floats as hex bit patterns, integers decimal):
  the points are built by the `new` constructors and handed to `ControlPoints::add`; `?` looks all four
  kinds up in the collection as it is at that moment. Response: the four final lists, then one `L:` item
  per lookup.
-/
import RosuModel.Model.Cmds.Codec
import RosuModel.Model.ControlPoints
namespace Rosu

def f64OfHex (s : String) : Float := Float.ofBits (UInt64.ofNat (natOfHex s))
def fx (x : Float) : String := if x.isNaN then "nan" else hex64 x
def b01 (b : Bool) : String := if b then "1" else "0"

def fmtTiming (p : TimingPoint Float) : String :=
  fx p.time ++ "/" ++ fx p.beatLen ++ "/" ++ b01 p.omitFirstBarLine ++ "/" ++ toString p.timeSignature.numerator
def fmtDifficulty (p : DifficultyPoint Float) : String :=
  fx p.time ++ "/" ++ fx p.sliderVelocity ++ "/" ++ b01 p.generateTicks
def fmtEffect (p : EffectPoint Float) : String :=
  fx p.time ++ "/" ++ b01 p.kiai ++ "/" ++ fx p.scrollSpeed
def fmtSample (p : SamplePoint Float) : String :=
  fx p.time ++ "/" ++ toString p.sampleBank.idx ++ "/" ++ toString p.sampleVolume ++ "/" ++ toString p.customSampleBank

def fmtList {α : Type} (f : α → String) (l : List α) : String :=
  if l.isEmpty then "-" else String.intercalate "," (l.map f)

def fmtOpt {α : Type} (f : α → String) : Option α → String
  | some x => f x
  | none => "-"

def fmtControlPoints (cp : ControlPoints Float) : String :=
  "T=" ++ fmtList fmtTiming cp.timingPoints ++ " D=" ++ fmtList fmtDifficulty cp.difficultyPoints ++
  " E=" ++ fmtList fmtEffect cp.effectPoints ++ " S=" ++ fmtList fmtSample cp.samplePoints

def fmtLookup (cp : ControlPoints Float) (t : Float) : String :=
  "L:" ++ fmtOpt fmtTiming (cp.timingPointAt t) ++ "|" ++ fmtOpt fmtDifficulty (cp.difficultyPointAt t) ++ "|" ++
  fmtOpt fmtEffect (cp.effectPointAt t) ++ "|" ++ fmtOpt fmtSample (cp.samplePointAt t)

def nanF : Float := Float.ofBits 0x7FF8000000000000

/-- one `cpops` token: the new collection and, for `?`, the lookup line. `none` = malformed token. -/
def cpOp (cp : ControlPoints Float) (tok : String) : Option (ControlPoints Float × Option String) :=
  if tok.startsWith "?" then
    some (cp, some (fmtLookup cp (f64OfHex (tok.drop 1).toString)))
  else
    match tok.splitOn ":" with
    | ["T", t, b] =>
      some (cp.addTiming (TimingPoint.new (f64OfHex t) (f64OfHex b) false TimeSignature.simpleQuadruple), none)
    | ["D", t, sv, ticks] =>
      some (cp.addDifficulty (DifficultyPoint.new (f64OfHex t) (if ticks == "1" then 1 else nanF) (f64OfHex sv)), none)
    | ["E", t, k, sc] =>
      some (cp.addEffect { EffectPoint.new (f64OfHex t) (k == "1") with scrollSpeed := f64OfHex sc }, none)
    | ["S", t, bank, vol, custom] =>
      some (cp.addSample (SamplePoint.new (f64OfHex t) ((SampleBank.ofInt (bank.toInt?.getD 0)).getD .none)
        (vol.toInt?.getD 0) (custom.toInt?.getD 0)), none)
    | _ => none

def cpOps : ControlPoints Float → List String → List String → Option (ControlPoints Float × List String)
  | cp, [], acc => some (cp, acc.reverse)
  | cp, tok :: rest, acc =>
    match cpOp cp tok with
    | some (cp', some l) => cpOps cp' rest (l :: acc)
    | some (cp', none) => cpOps cp' rest acc
    | none => none

def dispatchTiming (toks : List String) : Option String :=
  match toks with
  | "cpops" :: ops =>
    some (match cpOps ControlPoints.empty ops [] with
      | some (cp, ls) => fmtControlPoints cp ++ String.join (ls.map (" " ++ ·))
      | none => "bad-request")
  | _ => none

end Rosu
