/-
  Model/Cmds/Codec.lean — driver requests exercising the number codec (DESIGN.md 3.3):
  `pf64 <hex text>` / `pf32` parse, `df64 <hex bits>` / `df32` display, `i32 <hex text>`, `u8`.
-/
import RosuModel.Model.Proto
import RosuModel.Model.FloatInst
namespace Rosu

def textOf (hex : String) : Str := utf8Lossy (unhex hex)
def natOfHex (s : String) : Nat := s.toList.foldl (fun acc c => acc * 16 + hexVal c) 0

def dispatchCodec (toks : List String) : Option String :=
  match toks with
  | ["pf64", h] => some (match (Scalar.parse (textOf h) : Option Float) with
      | some x => "ok " ++ hex64 x | none => "err")
  | ["pf32", h] => some (match (Scalar.parse (textOf h) : Option Float32) with
      | some x => "ok " ++ hex32 x | none => "err")
  | ["df64", b] => some (hexStr (Scalar.print (Float.ofBits (UInt64.ofNat (natOfHex b)))))
  | ["df32", b] => some (hexStr (Scalar.print (Float32.ofBits (UInt32.ofNat (natOfHex b)))))
  | ["i32", h] => some (match i32Parse (textOf h) with | some n => s!"ok {n}" | none => "err")
  | ["i32raw", h] => some (match i32FromStr (textOf h) with | some n => s!"ok {n}" | none => "err")
  | ["u8", h] => some (match u8FromStr (textOf h) with | some n => s!"ok {n}" | none => "err")
  | ["castf64i32", b] => some (toString (Scalar.toI32 (Float.ofBits (UInt64.ofNat (natOfHex b)))))
  | ["castf32i32", b] => some (toString (Scalar.toI32 (Float32.ofBits (UInt32.ofNat (natOfHex b)))))
  | ["castf64f32", b] =>
    let y := (Float.ofBits (UInt64.ofNat (natOfHex b))).toFloat32
    some (if y.isNaN then "nan" else hex32 y)
  | ["casti32f32", n] => some (hex32 (Scalar.ofInt (n.toInt?.getD 0) : Float32))
  | _ => none

end Rosu
